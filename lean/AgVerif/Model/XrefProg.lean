/-
Program descriptions for the cross-reference model (C13..C16): a program is a list of DEX files,
a DEX file a list of classes plus its string pool; instruction operands are already resolved to names.
Shared by Model/Xref.lean (the transliteration of the analysis) and Spec/Xref.lean (the
comprehension definitions); imports nothing.
-/
namespace AgVerif.Xref

/-- `(class name, method name, descriptor)` — the key of `Analysis.__method_hashes` -/
abbrev MKey := String × String × String
/-- `(class name, field name, type descriptor)` -/
abbrev FKey := String × String × String

/-- the resolved reference operand of an instruction (`get_ref_kind()` looked up in the pool) -/
inductive Ref where
  | none
  | type (t : String)
  | meth (c n d : String)
  | str (s : String)
  | field (c n t : String)
  deriving DecidableEq, Repr

structure XIns where
  op : Fin 256
  ref : Ref
  deriving DecidableEq, Repr

structure Method where
  name : String
  desc : String
  /-- `get_instructions_idx()`: (offset, instruction) -/
  code : List (Nat × XIns)
  deriving DecidableEq, Repr

structure Class where
  name : String
  /-- declared fields `(name, type)` -/
  fields : List (String × String)
  methods : List Method
  deriving DecidableEq, Repr

structure Dex where
  classes : List Class
  /-- the string pool (`vm.get_strings()`) -/
  strings : List String
  deriving DecidableEq, Repr

end AgVerif.Xref
