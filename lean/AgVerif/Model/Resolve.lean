/-
Model of androguard/core/axml/__init__.py: `ARSCParser.ResourceResolver`
(`resolve`, `_resolve_into_result`, `put_ate_value`, `put_item_value`) and
`ARSCParser.get_res_configs`, over an abstract resource table.   (imports nothing)

Abstract table: `resource id ↦ ordered list of (configuration, entry)` — what
`ARSCParser._analyse` leaves in `self.resource_values` (an insertion-ordered dict
per id).  Configurations are abstract keys (`Nat`, `0` = `ARSCResTableConfig.default_config()`);
a literal `Res_value` is represented by the string `format_value` renders for it.
A compact entry is a `simple` entry (C28 fix: its `Res_value` is interpreted by its data type).

The result of a resolution is the Python list the resolver builds.  It is written here as a
token list (a canonical serialisation of the nested list):
  `(config, "s")`                       ↦ `pair config s`
  `"s"` inside a complex array         ↦ `bare s`
  `(config, [ … ])` (complex entry)    ↦ `opn config`, …, `cls`

Two algorithms:
* `resolveF`   — the code as it was written (only the self-reference guard of `put_item_value`);
                 the fuel stands for the Python stack, `none` is `RecursionError`.
* `resolveVF`  — the code with the reference-path guard in `_resolve_into_result`
                 (fixes/C29-reference-cycle.diff); `vis` is `self._resolving`.
-/
namespace AgVerif.Resolve

abbrev ResId := Nat
abbrev Config := Nat

/-- `ARSCResTableConfig.default_config()` -/
def defaultConfig : Config := 0

/-- a `Res_value`: a reference (`TYPE_REFERENCE`, data = id) or anything else, already formatted -/
inductive Item where
  | ref (r : ResId)
  | lit (s : String)
deriving Repr, DecidableEq

/-- `ARSCResTableEntry`: simple (one `Res_value`; also compact) or complex (`ARSCComplex.items`) -/
inductive Entry where
  | simple (v : Item)
  | complex (items : List Item)
deriving Repr, DecidableEq

/-- `self.resource_values` -/
structure Table where
  res : List (ResId × List (Config × Entry))
deriving Repr

def Table.ids (t : Table) : List ResId := t.res.map (·.1)

/-- `self.resource_values[rid]` when `rid in self.resource_values` -/
def Table.options (t : Table) (rid : ResId) : Option (List (Config × Entry)) :=
  match t.res.find? (fun p => p.1 == rid) with
  | some p => some p.2
  | none => none

/-- `get_res_configs(rid, config)` with `fallback=True`, for `rid ≠ 0` (the caller checks).
    `w = none` is `config=None`. -/
def getResConfigs (t : Table) (rid : ResId) (w : Option Config) : List (Config × Entry) :=
  match t.options rid with
  | none => []                                  -- "could not be found in the list of resources"
  | some opts =>
    match w with
    | none => opts                              -- `list(res_options.items())`
    | some c =>
      if opts.length > 1 then
        match opts.find? (fun p => p.1 == c) with
        | some p => [p]                         -- `config in res_options`
        | none => if c == defaultConfig then opts.take 1 else []    -- fallback: first item
      else opts

inductive Tok where
  | pair (c : Config) (s : String)
  | bare (s : String)
  | opn (c : Config)
  | cls
deriving Repr, DecidableEq

def Tok.isValue : Tok → Bool
  | .pair _ _ => true
  | .bare _ => true
  | _ => false

/-- run the calls in order; one `RecursionError` aborts everything -/
def seqAll : List (Option (List Tok)) → Option (List Tok)
  | [] => some []
  | none :: _ => none
  | some x :: rest =>
    match seqAll rest with
    | none => none
    | some y => some (x ++ y)

/-- `put_item_value(result, item, config, parent, complex_)`; `rec` is `_resolve_into_result` -/
def putItem (rec : ResId → Option (List Tok)) (c : Config) (parent : ResId) (cplx : Bool) :
    Item → Option (List Tok)
  | .ref r =>
    if r = 0 then some []                -- `if res_id:`
    else if r = parent then some []      -- "Infinite loop detected … It references itself!"
    else rec r
  | .lit s => some [if cplx then .bare s else .pair c s]

/-- `put_ate_value(result, ate, config)` -/
def putAte (rec : ResId → Option (List Tok)) (c : Config) (parent : ResId) :
    Entry → Option (List Tok)
  | .simple v => putItem rec c parent false v
  | .complex items =>
    match seqAll (items.map (putItem rec c parent true)) with
    | none => none
    | some xs => some (.opn c :: xs ++ [.cls])

/-- `_resolve_into_result` as it was written: no cycle detection.  `none` = stack exhausted. -/
def resolveF (t : Table) (w : Option Config) : Nat → ResId → Option (List Tok)
  | 0, _ => none
  | f + 1, rid =>
    seqAll ((getResConfigs t rid w).map fun p => putAte (resolveF t w f) p.1 rid p.2)

/-- `_resolve_into_result` with the reference-path guard (`self._resolving` = `vis`). -/
def resolveVF (t : Table) (w : Option Config) : Nat → List ResId → ResId → Option (List Tok)
  | 0, _, _ => none
  | f + 1, vis, rid =>
    if rid ∈ vis then some []
    else seqAll ((getResConfigs t rid w).map fun p =>
      putAte (resolveVF t w f (rid :: vis)) p.1 rid p.2)

/-- enough fuel for every table (theorem `C29.resolveV_terminates`) -/
def Table.bound (t : Table) : Nat := t.ids.length + 1

inductive Outcome where
  | ok (ts : List Tok)
  | valueError          -- `ValueError("'rid' should be set")`
  | recursion           -- `RecursionError`
deriving Repr, DecidableEq

/-- `get_resolved_res_configs(rid, config)` of the code with the guard -/
def resolveV (t : Table) (w : Option Config) (rid : ResId) : Outcome :=
  if rid = 0 then .valueError
  else match resolveVF t w t.bound [] rid with
    | some ts => .ok ts
    | none => .recursion

/-- `get_resolved_res_configs(rid, config)` of the code without the guard, Python stack = `fuel` -/
def resolveOld (t : Table) (w : Option Config) (fuel : Nat) (rid : ResId) : Outcome :=
  if rid = 0 then .valueError
  else match resolveF t w fuel rid with
    | some ts => .ok ts
    | none => .recursion

end AgVerif.Resolve
