/-
Model of androguard/core/axml/__init__.py: `complexToFloat`, `format_value`,
`ARSCParser.get_resource_dimen`, `ARSCParser.get_resource_color`
(with fixes/C27-signed-mantissa-exact-radix.diff applied).  Imports only the generated constants
and the specification's `Kind` type.

Floats.  The code computes in binary64.  The model keeps every float as the exact value
(-1)^neg · num / den.  This is sound for the modelled code because
  * `float(mantissa)` with |mantissa| < 2^32 is exact,
  * every RADIX_MULTS entry is a power of two (theorem `radix_exact` over the generated table), and a
    binary64 product with a power of two is exact in the normal range,
  * `* 100` on a value m·2^-k with |m| ≤ 2^31 has a 38-bit significand (theorem `complex_binary64`),
  * `struct.unpack('=f', …)` widens a binary32 to binary64 exactly.
`'%f'` / `'{:f}'` is CPython's correctly rounded (round-half-even) conversion to six decimals:
`fmtF6`.  `nan` / `inf` spellings are modelled as CPython prints them.
Integers: Python `int` is `Nat` (`_data` comes from `unpack('<I')`); `_type` is a `Nat`.
-/
import AgVerif.Gen.ResValues
import AgVerif.Spec.ResValue
namespace AgVerif.ResValue
open AgVerif.Gen.ResValues
open AgVerif.Spec.ResValue (Kind)

/-- a binary64 value known exactly -/
inductive F64
  | fin (neg : Bool) (num den : Nat)
  | inf (neg : Bool)
  | nan
  deriving Repr, DecidableEq

inductive Err
  | index     -- IndexError
  | struct    -- struct.error
  deriving Repr, DecidableEq

/-! ### `%f` -/

/-- nearest integer to `n / d`, ties to even -/
def roundHalfEven (n d : Nat) : Nat :=
  let q := n / d
  let r := n % d
  if 2 * r > d ∨ (2 * r = d ∧ q % 2 = 1) then q + 1 else q

def pad6 (s : String) : String := String.ofList (List.replicate (6 - s.length) '0') ++ s

/-- `'%f' % x` for the finite value (-1)^neg · n/d -/
def fmtF6 (neg : Bool) (n d : Nat) : String :=
  let m := roundHalfEven (n * 1000000) d
  (if neg then "-" else "") ++ toString (m / 1000000) ++ "." ++ pad6 (toString (m % 1000000))

def fmtF : F64 → String
  | .fin neg n d => fmtF6 neg n d
  | .inf false => "inf"
  | .inf true => "-inf"
  | .nan => "nan"

/-! ### hexadecimal -/

/-- base-16 digits, most significant first, no leading zeros (`[0]` for 0) -/
def hexDigits (x : Nat) : List Nat :=
  if h : x < 16 then [x] else hexDigits (x / 16) ++ [x % 16]
termination_by x
decreasing_by omega

def padZeros (n : Nat) (ds : List Nat) : List Nat := List.replicate (n - ds.length) 0 ++ ds

def hexChar (upper : Bool) (d : Nat) : Char :=
  if d < 10 then Char.ofNat (48 + d) else Char.ofNat ((if upper then 55 else 87) + d)

/-- `'%0<w>X' % x` (upper) / `'{:0<w>x}'.format(x)` (lower) -/
def hexW (upper : Bool) (w x : Nat) : String :=
  String.ofList ((padZeros w (hexDigits x)).map (hexChar upper))

/-! ### complexToFloat -/

/-- `mantissa = x & 0xFFFFFF00; if mantissa & 0x80000000: mantissa -= 0x100000000` -/
def signedMantissa (x : Nat) : Int :=
  let m := x &&& 0xFFFFFF00
  if m &&& 0x80000000 ≠ 0 then (m : Int) - 0x100000000 else (m : Int)

/-- `float(mantissa) * RADIX_MULTS[(x >> 4) & 3]`; `none` = IndexError on the table -/
def complexToFloat (x : Nat) : Option F64 :=
  match radixMults[(x >>> 4) &&& 3]? with
  | none => none
  | some (rn, rd) =>
    let m := signedMantissa x
    some (.fin (decide (m < 0)) (m.natAbs * rn) rd)

/-- `v * 100` -/
def times100 : F64 → F64
  | .fin neg n d => .fin neg (n * 100) d
  | v => v

/-! ### format_value -/

/-- `fmt_package` -/
def fmtPackage (x : Nat) : String := if x >>> 24 = 1 then "android:" else ""

/-- `fmt_int` -/
def fmtInt (x : Nat) : Int :=
  if x > 0x7FFFFFFF then ((0x7FFFFFFF &&& x : Nat) : Int) - 0x80000000 else (x : Int)

/-- `unpack("=f", pack("=L", d))[0]` for `d < 2^32`: IEEE-754 binary32 decoding -/
def floatBits (d : Nat) : F64 :=
  let s := decide ((d >>> 31) &&& 1 = 1)
  let e := (d >>> 23) &&& 0xFF
  let f := d &&& 0x7FFFFF
  if e = 255 then (if f = 0 then .inf s else .nan)
  else if e = 0 then .fin s f (2 ^ 149)
  else if 150 ≤ e then .fin s ((2 ^ 23 + f) * 2 ^ (e - 150)) 1
  else .fin s (2 ^ 23 + f) (2 ^ (150 - e))

/-- which branch of the `if`/`elif` chain of `format_value` is taken -/
def branch (t : Nat) : Kind :=
  if t = TYPE_STRING then .string
  else if t = TYPE_ATTRIBUTE then .attribute
  else if t = TYPE_REFERENCE then .reference
  else if t = TYPE_FLOAT then .float
  else if t = TYPE_INT_HEX then .intHex
  else if t = TYPE_INT_BOOLEAN then .intBoolean
  else if t = TYPE_DIMENSION then .dimension
  else if t = TYPE_FRACTION then .fraction
  else if TYPE_FIRST_COLOR_INT ≤ t ∧ t ≤ TYPE_LAST_COLOR_INT then .color
  else if TYPE_FIRST_INT ≤ t ∧ t ≤ TYPE_LAST_INT then .intDec
  else .none

/-- `"{:f}{}".format(v, units[d & COMPLEX_UNIT_MASK])`; both operands are evaluated, either can
    raise IndexError -/
def complexString (v : Option F64) (units : List String) (d : Nat) : Except Err String :=
  match v, units[d &&& complexUnitMask]? with
  | some v, some u => .ok (fmtF v ++ u)
  | _, _ => .error .index

/-- `format_value(_type, _data, lookup_string)` -/
def formatValue (lookup : Nat → String) (t d : Nat) : Except Err String :=
  match branch t with
  | .string => .ok (lookup d)
  | .attribute => .ok ("?" ++ fmtPackage d ++ hexW true 8 d)
  | .reference => .ok ("@" ++ fmtPackage d ++ hexW true 8 d)
  | .float => if d < 2 ^ 32 then .ok (fmtF (floatBits d)) else .error .struct
  | .intHex => .ok ("0x" ++ hexW true 8 d)
  | .intBoolean => .ok (if d = 0 then "false" else "true")
  | .dimension => complexString (complexToFloat d) dimensionUnits d
  | .fraction => complexString ((complexToFloat d).map times100) fractionUnits d
  | .color => .ok ("#" ++ hexW true 8 d)
  | .intDec => .ok (toString (fmtInt d))
  | .none => .ok ("<0x" ++ hexW true 1 d ++ ", type 0x" ++ hexW true 2 t ++ ">")

/-! ### ARSCParser getters (second list element) -/

inductive DimenOut
  | value (v : F64) (unit : String)    -- `"{}{}".format(complexToFloat(data), unit)`: float repr + unit
  | fallback (data : Nat)              -- IndexError caught: the raw data
  deriving Repr

/-- `get_resource_dimen`: the float is reported exactly (the code prints its `repr`) -/
def getResourceDimen (d : Nat) : DimenOut :=
  match complexToFloat d, dimensionUnits[d &&& complexUnitMask]? with
  | some v, some u => .value v u
  | _, _ => .fallback d

/-- `get_resource_color`: `"#{:02x}{:02x}{:02x}{:02x}"` of the four bytes -/
def getResourceColor (d : Nat) : String :=
  "#" ++ hexW false 2 ((d >>> 24) &&& 0xFF) ++ hexW false 2 ((d >>> 16) &&& 0xFF)
    ++ hexW false 2 ((d >>> 8) &&& 0xFF) ++ hexW false 2 (d &&& 0xFF)

end AgVerif.ResValue
