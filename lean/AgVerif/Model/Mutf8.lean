/-
Model of the DEX string path (imports nothing):

  androguard/core/dex/__init__.py   read_null_terminated_string (WITH fixes/C35-readnt-eof.diff),
                                    StringDataItem.__init__ / get
  androguard/core/mutf8/__init__.py decode = mutf8.decode_modified_utf8, encode = mutf8.encode_modified_utf8
  site-packages/mutf8/cmutf8.c      (version 1.1.0) the C extension that is actually loaded

Bytes and code points are `Nat`.  A Python `str` is the list of its code points; a code point
above U+FFFF stands for a surrogate pair, a lone surrogate stays a code point (CPython strings).

What the C decoder does, line by line (`decode`):
* fast path: if the input contains none of the bytes ED, C0, 00 it is handed to CPython's
  *strict UTF-8* decoder (`PyUnicode_DecodeUTF8(.., NULL)`, modelled by `strict`: Unicode
  table 3-7, four-byte forms included); if that succeeds its result is returned, otherwise
  the error is cleared and the slow loop runs;
* slow loop (`slow`/`step`): 00 -> error; < 80 -> itself; `x & E0 == C0` -> two bytes, the
  second byte is NOT validated (`& 3F`); `x & F0 == E0` -> three bytes, not validated; the
  six-byte form is taken only when `ED Ax xx ED Bx xx` is completely present
  (`ix + 5 < len`), otherwise the first half is a lone surrogate; **any other byte
  (80..BF, F0..FF) falls through every branch and is emitted as the code point of its own
  value** (there is no final `else`).
-/
import AgVerif.Model.Leb
import AgVerif.Gen.StrConsts
namespace AgVerif.Mutf8

inductive Err where
  | nul      -- "Embedded NULL byte in input."
  | short2   -- "2-byte codepoint started, but input too short to finish."
  | short3   -- "3-byte or 6-byte codepoint started, but input too short to finish."
  deriving DecidableEq, Repr

/-- one iteration of the slow loop at byte `x` followed by `rest`:
    the code point and the number of EXTRA bytes consumed (`ix += k`) -/
def step (x : Nat) (rest : List Nat) : Except Err (Nat × Nat) :=
  if x = 0 then .error .nul
  else if x < 0x80 then .ok (x &&& 0x7F, 0)
  else if x &&& 0xE0 = 0xC0 then
    match rest with
    | [] => .error .short2
    | b2 :: _ => .ok (((x &&& 0x1F) <<< 6) ||| (b2 &&& 0x3F), 1)
  else if x &&& 0xF0 = 0xE0 then
    match rest with
    | b2 :: b3 :: r =>
      match r with
      | b4 :: b5 :: b6 :: _ =>
        if x = 0xED ∧ b2 &&& 0xF0 = 0xA0 ∧ b4 = 0xED ∧ b5 &&& 0xF0 = 0xB0 then
          .ok (0x10000 + (((b2 &&& 0x0F) <<< 16) ||| ((b3 &&& 0x3F) <<< 10)
                          ||| ((b5 &&& 0x0F) <<< 6) ||| (b6 &&& 0x3F)), 5)
        else .ok (((x &&& 0x0F) <<< 12) ||| ((b2 &&& 0x3F) <<< 6) ||| (b3 &&& 0x3F), 2)
      | _ => .ok (((x &&& 0x0F) <<< 12) ||| ((b2 &&& 0x3F) <<< 6) ||| (b3 &&& 0x3F), 2)
    | _ => .error .short3
  else .ok (x, 0)

/-- the slow loop: `for (ix = 0; ix < len; ix++)` -/
def slow (bs : List Nat) : Except Err (List Nat) :=
  match bs with
  | [] => .ok []
  | x :: rest =>
    match step x rest with
    | .error e => .error e
    | .ok (cp, k) =>
      match slow (rest.drop k) with
      | .error e => .error e
      | .ok cps => .ok (cp :: cps)
termination_by bs.length
decreasing_by simp only [List.length_drop, List.length_cons]; omega

def isCont (b : Nat) : Bool := 0x80 ≤ b && b ≤ 0xBF

/-- one well-formed UTF-8 sequence (Unicode 15, table 3-7) as CPython's strict decoder accepts
    it: the scalar value and the number of extra bytes; `none` = UnicodeDecodeError -/
def strictStep (x : Nat) (rest : List Nat) : Option (Nat × Nat) :=
  if x < 0x80 then some (x, 0)
  else if 0xC2 ≤ x ∧ x ≤ 0xDF then
    match rest with
    | b2 :: _ => if isCont b2 then some (x % 32 * 64 + b2 % 64, 1) else none
    | _ => none
  else if 0xE0 ≤ x ∧ x ≤ 0xEF then
    match rest with
    | b2 :: b3 :: _ =>
      if isCont b2 && isCont b3 && (x != 0xE0 || 0xA0 ≤ b2) && (x != 0xED || b2 ≤ 0x9F)
      then some (x % 16 * 4096 + b2 % 64 * 64 + b3 % 64, 2) else none
    | _ => none
  else if 0xF0 ≤ x ∧ x ≤ 0xF4 then
    match rest with
    | b2 :: b3 :: b4 :: _ =>
      if isCont b2 && isCont b3 && isCont b4 && (x != 0xF0 || 0x90 ≤ b2) && (x != 0xF4 || b2 ≤ 0x8F)
      then some (x % 8 * 262144 + b2 % 64 * 4096 + b3 % 64 * 64 + b4 % 64, 3) else none
    | _ => none
  else none

def strict (bs : List Nat) : Option (List Nat) :=
  match bs with
  | [] => some []
  | x :: rest =>
    match strictStep x rest with
    | none => none
    | some (cp, k) =>
      match strict (rest.drop k) with
      | none => none
      | some cps => some (cp :: cps)
termination_by bs.length
decreasing_by simp only [List.length_drop, List.length_cons]; omega

/-- the three `memchr` tests guarding the fast path -/
def fastEligible (bs : List Nat) : Bool :=
  !bs.contains 0xED && !bs.contains 0xC0 && !bs.contains 0

/-- mutf8.decode_modified_utf8 (C extension): the code points of the returned `str` -/
def decode (bs : List Nat) : Except Err (List Nat) :=
  if fastEligible bs then
    match strict bs with
    | some cps => .ok cps
    | none => slow bs
  else slow bs

/-- mutf8.encode_modified_utf8 (C extension, its general loop) on the code points of a `str` -/
def encodeCp (cp : Nat) : List Nat :=
  if cp = 0 then [0xC0, 0x80]
  else if cp ≤ 0x7F then [cp]
  else if cp ≤ 0x7FF then [0xC0 ||| (0x1F &&& (cp >>> 6)), 0x80 ||| (0x3F &&& cp)]
  else if cp ≤ 0xFFFF then
    [0xE0 ||| (0x0F &&& (cp >>> 12)), 0x80 ||| (0x3F &&& (cp >>> 6)), 0x80 ||| (0x3F &&& cp)]
  else
    let c := cp - 0x10000
    [0xED, 0xA0 ||| ((c >>> 16) &&& 0x0F), 0x80 ||| ((c >>> 10) &&& 0x3F),
     0xED, 0xB0 ||| ((c >>> 6) &&& 0x0F), 0x80 ||| (c &&& 0x3F)]

def encodeStr : List Nat → List Nat
  | [] => []
  | c :: cs => encodeCp c ++ encodeStr cs

/-! ### read_null_terminated_string (fixed code) -/

inductive NTStep where
  | done (s : List Nat) (newpos : Nat)     -- `break`: the string and `f.tell()` after the seek back
  | more (pos : Nat) (acc : List Nat)      -- `x.append(z)`, next iteration
  | eof                                    -- fixed code: `raise ValueError`
  deriving DecidableEq, Repr

/-- one iteration of `while True:` at file position `pos` with `acc = b''.join(x)`.
    `fixed = false` is the code before fixes/C35-readnt-eof.diff (no `if not z: raise`). -/
def ntBody (fixed : Bool) (chunk : Nat) (file : List Nat) (pos : Nat) (acc : List Nat) : NTStep :=
  let z := (file.drop pos).take chunk                 -- z = f.read(chunk)
  if fixed && z.isEmpty then .eof
  else if z.contains 0 then
    let s0 := z.takeWhile (· != 0)                    -- z.split(b'\0', 1)[0]
    let s1 := (z.dropWhile (· != 0)).drop 1           -- z.split(b'\0', 1)[1]
    .done (acc ++ s0) (pos + z.length - s1.length)    -- f.seek(f.tell() - len(s[1]))
  else .more (pos + z.length) (acc ++ z)

theorem ntBody_more_lt {chunk : Nat} {file : List Nat} {pos : Nat} {acc : List Nat} {p : Nat}
    {a : List Nat} (h : ntBody true chunk file pos acc = .more p a) :
    file.length - p < file.length - pos := by
  unfold ntBody at h
  simp only [Bool.true_and] at h
  split at h
  · cases h
  · split at h
    · cases h
    · rename_i hz _
      injection h with hp _
      have hlen : ((file.drop pos).take chunk).length ≠ 0 := by
        intro h0; exact hz (by simp [List.eq_nil_of_length_eq_zero h0])
      simp only [List.length_take, List.length_drop] at hlen
      simp only [List.length_take, List.length_drop] at hp
      omega

/-- the loop; returns the outcome and the number of iterations executed -/
def ntLoop (chunk : Nat) (file : List Nat) (pos : Nat) (acc : List Nat) (n : Nat) :
    Option (List Nat × Nat) × Nat :=
  match h : ntBody true chunk file pos acc with
  | .eof => (none, n + 1)
  | .done s p => (some (s, p), n + 1)
  | .more p a => ntLoop chunk file p a (n + 1)
termination_by file.length - pos
decreasing_by exact ntBody_more_lt h

/-- read_null_terminated_string(f) with `f` at `pos`: `some (bytes, new position)`,
    `none` = ValueError (end of buffer before the null byte) -/
def readNT (chunk : Nat) (file : List Nat) (pos : Nat) : Option (List Nat × Nat) :=
  (ntLoop chunk file pos [] 0).1

def readNTSteps (chunk : Nat) (file : List Nat) (pos : Nat) : Nat :=
  (ntLoop chunk file pos [] 0).2

/-- the androguard constant: `f.read(128)`, regenerated from the source by gen/strconsts.py -/
def CHUNK : Nat := AgVerif.Gen.StrConsts.ntChunk

/-- StringDataItem.__init__ at offset `off` followed by `.get()`'s `mutf8.decode(self.data)`:
    `utf16_size = readuleb128(buff)`, `data = read_null_terminated_string(buff)`.
    Outer `none`: struct.error / ValueError while reading; inner result: the decoder's. -/
def stringDataItem (file : List Nat) (off : Nat) : Option (Nat × List Nat × Except Err (List Nat)) :=
  match AgVerif.Leb.readUleb (file.drop off) with
  | none => none
  | some (size, n) =>
    match readNT CHUNK file (off + n) with
    | none => none
    | some (data, _) => some (size, data, decode data)

end AgVerif.Mutf8
