/-
Model of androguard/core/dex/__init__.py: DalvikCode.__init__ (header, instruction bytes,
padding rule, try items, handler list), TryItem, EncodedCatchHandlerList,
EncodedCatchHandler, EncodedTypeAddrPair and determineException.
Imports only the LEB128 model of C03 and the constants generated from the source.

The buffer is the list of bytes from the start of the code item; every `buff.tell()` the
code stores (`EncodedCatchHandler.offset`, `EncodedCatchHandlerList.offset`) is kept
relative to that start.  The real values are absolute file offsets; the only place they are
used (`determineException`) compares `try.handler_off + list.offset` with
`handler.offset`, both shifted by the same constant.

Errors are explicit:
  structError     `struct.error` — `unpack` of a read that returned fewer bytes than needed
  indexError      `IndexError`   — `value[1]` for a try no handler was attached to
  attributeError  `AttributeError` — `catch_all_addr` of a handler that never read one
                                     (cannot happen for a handler built by the parser)
-/
import AgVerif.Model.Leb
import AgVerif.Gen.TriesConsts
namespace AgVerif.Tries
open AgVerif.Leb

inductive Err where
  | structError
  | indexError
  | attributeError
  deriving DecidableEq, Repr

/-- TryItem: `I2H` = start_addr, insn_count, handler_off -/
structure TryItem where
  startAddr : Nat
  insnCount : Nat
  handlerOff : Nat
  deriving DecidableEq, Repr

/-- EncodedCatchHandler: `offset`, `size` (sleb128, signed), `handlers` (type_idx, addr),
    `catch_all_addr` (set only when `size <= 0`). -/
structure Handler where
  off : Nat
  size : Int
  pairs : List (Nat × Nat)
  catchAll : Option Nat
  deriving DecidableEq, Repr

/-- DalvikCode after `__init__`.  `consumed` is `buff.tell()` at the end of the constructor
    (relative): `CodeItem.__init__` starts the next code item there (rounded up to 4). -/
structure Code where
  registersSize : Nat
  insSize : Nat
  outsSize : Nat
  triesSize : Nat
  debugInfoOff : Nat
  insnsSize : Nat
  insns : List Nat            -- `buff.read(insns_size * 2)`: may be shorter at the end of the file
  padding : Option Nat        -- attribute `padding` exists only when it was read
  tries : List TryItem
  handlersOff : Nat           -- EncodedCatchHandlerList.offset (0 when `handlers is None`)
  handlersSize : Nat          -- EncodedCatchHandlerList.size
  handlers : List Handler
  consumed : Nat
  deriving Repr

def u16 (a b : Nat) : Nat := a + 256 * b
def u32 (a b c d : Nat) : Nat := a + 256 * b + 65536 * c + 16777216 * d

/-- `for i in range(tries_size): TryItem(buff, cm)` — each reads 8 bytes -/
def parseTryItems : Nat → List Nat → Except Err (List TryItem × List Nat)
  | 0, bs => .ok ([], bs)
  | n + 1, a0 :: a1 :: a2 :: a3 :: c0 :: c1 :: h0 :: h1 :: r =>
    match parseTryItems n r with
    | .error e => .error e
    | .ok (ts, r') => .ok (⟨u32 a0 a1 a2 a3, u16 c0 c1, u16 h0 h1⟩ :: ts, r')
  | _ + 1, _ => .error .structError

/-- `for i in range(abs(size)): EncodedTypeAddrPair(cm, buff)`; returns pairs, rest, position -/
def parsePairs : Nat → List Nat → Nat → Except Err (List (Nat × Nat) × List Nat × Nat)
  | 0, bs, pos => .ok ([], bs, pos)
  | n + 1, bs, pos =>
    match readUleb bs with
    | none => .error .structError
    | some (ty, k1) =>
      match readUleb (bs.drop k1) with
      | none => .error .structError
      | some (addr, k2) =>
        match parsePairs n ((bs.drop k1).drop k2) (pos + k1 + k2) with
        | .error e => .error e
        | .ok (ps, r, p) => .ok ((ty, addr) :: ps, r, p)

/-- EncodedCatchHandler.__init__ at position `pos` -/
def parseHandler (bs : List Nat) (pos : Nat) : Except Err (Handler × List Nat × Nat) :=
  match readSleb bs with
  | none => .error .structError
  | some (size, k) =>
    match parsePairs size.natAbs (bs.drop k) (pos + k) with
    | .error e => .error e
    | .ok (ps, r, p) =>
      if size ≤ 0 then
        match readUleb r with
        | none => .error .structError
        | some (ca, m) => .ok (⟨pos, size, ps, some ca⟩, r.drop m, p + m)
      else .ok (⟨pos, size, ps, none⟩, r, p)

/-- `[EncodedCatchHandler(buff, cm) for _ in range(self.size)]` -/
def parseHandlers : Nat → List Nat → Nat → Except Err (List Handler × List Nat × Nat)
  | 0, bs, pos => .ok ([], bs, pos)
  | n + 1, bs, pos =>
    match parseHandler bs pos with
    | .error e => .error e
    | .ok (h, r, p) =>
      match parseHandlers n r p with
      | .error e => .error e
      | .ok (hs, r', p') => .ok (h :: hs, r', p')

/-- what `DalvikCode.__init__` reads after the instruction bytes -/
structure Tail where
  padding : Option Nat
  tries : List TryItem
  handlersOff : Nat
  handlersSize : Nat
  handlers : List Handler
  consumed : Nat
  deriving Repr

/-- the part of `DalvikCode.__init__` after `buff.read(insns_size * 2)`, entered at
    position `pos`: padding iff `insns_size % 2 == 1 and tries_size > 0`, then the try items
    and the handler list iff `tries_size > 0`. -/
def parseCodeTail (triesSize insnsSize : Nat) (bs : List Nat) (pos : Nat) : Except Err Tail :=
  let padded : Except Err (Option Nat × List Nat × Nat) :=
    if insnsSize % 2 = 1 ∧ triesSize > 0 then
      match bs with
      | p0 :: p1 :: r => .ok (some (u16 p0 p1), r, pos + 2)
      | _ => .error .structError
    else .ok (none, bs, pos)
  match padded with
  | .error e => .error e
  | .ok (pad, bs1, pos1) =>
    if triesSize > 0 then
      match parseTryItems triesSize bs1 with
      | .error e => .error e
      | .ok (ts, bs2) =>
        let pos2 := pos1 + 8 * triesSize
        match readUleb bs2 with
        | none => .error .structError
        | some (hsz, k) =>
          match parseHandlers hsz (bs2.drop k) (pos2 + k) with
          | .error e => .error e
          | .ok (hs, _, p) => .ok ⟨pad, ts, pos2, hsz, hs, p⟩
    else .ok ⟨pad, [], 0, 0, [], pos1⟩

/-- DalvikCode.__init__ on the bytes starting at the code item -/
def parseCode : List Nat → Except Err Code
  | r0 :: r1 :: i0 :: i1 :: o0 :: o1 :: t0 :: t1 :: d0 :: d1 :: d2 :: d3 :: n0 :: n1 :: n2 :: n3 :: rest =>
    let triesSize := u16 t0 t1
    let insnsSize := u32 n0 n1 n2 n3
    let insns := rest.take (insnsSize * 2)
    match parseCodeTail triesSize insnsSize (rest.drop (insnsSize * 2)) (16 + insns.length) with
    | .error e => .error e
    | .ok t => .ok ⟨u16 r0 r1, u16 i0 i1, u16 o0 o1, triesSize, u32 d0 d1 d2 d3, insnsSize, insns,
        t.padding, t.tries, t.handlersOff, t.handlersSize, t.handlers, t.consumed⟩
  | _ => .error .structError

/-! ### determineException -/

/-- one `[try_item, handler_catch, …]` list of `h_off[offset]` -/
abbrev Entry := TryItem × List Handler
/-- `h_off`: a Python dict (insertion ordered, unique keys) offset → list of entries -/
abbrev Dict := List (Nat × List Entry)

/-- `if k in h_off: h_off[k].append([t]) else: h_off[k] = [[t]]` -/
def dictAdd : Dict → Nat → Entry → Dict
  | [], k, e => [(k, [e])]
  | (k', es) :: rest, k, e =>
    if k' = k then (k', es ++ [e]) :: rest else (k', es) :: dictAdd rest k e

/-- `if h.get_off() in h_off: for i in h_off[h.get_off()]: i.append(h)`.
    Keys of a dict are unique (`dictAdd` never duplicates one), so updating the entry with
    key `h.off` is updating every entry with that key. -/
def dictAttach (d : Dict) (h : Handler) : Dict :=
  d.map fun (k, es) => if k = h.off then (k, es.map fun (t, hs) => (t, hs ++ [h])) else (k, es)

/-- one reported range: `[start*2, start*2 + count*2 - 1, [type, addr*2]…]` -/
abbrev Range := Nat × Int × List (String × Nat)

/-- the literal of determineException, taken from the source by gen/triesconsts.py -/
def throwable : String := AgVerif.Gen.TriesConsts.throwable

/-- body of the last loop of determineException for one `value` -/
def rangeOf (getType : Nat → String) (e : Entry) : Except Err Range :=
  match e.2 with
  | [] => .error .indexError                      -- value[1]
  | h :: _ =>
    let z := h.pairs.map fun p => (getType p.1, p.2 * 2)
    let lo := e.1.startAddr * 2
    let hi : Int := ((e.1.startAddr * 2 + e.1.insnCount * 2 : Nat) : Int) - 1
    if h.size ≤ 0 then
      match h.catchAll with
      | none => .error .attributeError
      | some a => .ok (lo, hi, z ++ [(throwable, a * 2)])
    else .ok (lo, hi, z)

/-- sequential evaluation, first exception wins -/
def mapE {α β ε} (f : α → Except ε β) : List α → Except ε (List β)
  | [] => .ok []
  | a :: as =>
    match f a with
    | .error e => .error e
    | .ok b =>
      match mapE f as with
      | .error e => .error e
      | .ok bs => .ok (b :: bs)

def groupTries (base : Nat) (tries : List TryItem) : Dict :=
  tries.foldl (fun d t => dictAdd d (t.handlerOff + base) (t, [])) []

def attachAll (d : Dict) (hs : List Handler) : Dict := hs.foldl dictAttach d

def flatten (d : Dict) : List Entry := d.flatMap (·.2)

/-- determineException(vm, m) with `getType = vm.get_cm_type` and `c = m.get_code()` -/
def determineException (getType : Nat → String) (c : Code) : Except Err (List Range) :=
  if c.triesSize ≤ 0 then .ok []
  else
    let d := attachAll (groupTries c.handlersOff c.tries) c.handlers
    mapE (rangeOf getType) (flatten d)

end AgVerif.Tries
