/-
Models of the two `get_type` functions, transliterated line by line:
  * `androguard/decompiler/util.py: get_type`   (with fixes/C24-java-lang-prefix.diff)
  * `androguard/core/dex/__init__.py: get_type`
Python `str` = `List Char`. Every literal of the two functions (tables, prefix, slice bounds, separators,
format strings) comes from the generated module `AgVerif.Gen.TypeDesc`.
Python primitives are modelled below: `dict.get`, `s[i]`, slices `s[a:]` and `s[a:-b]`, `startswith`,
`x not in s` (one-character needle), `replace`, `lstrip`, `'%s…' % x`, `'{}…{}'.format(a, b)`.
Imports only the generated tables.
-/
import AgVerif.Gen.TypeDesc
namespace AgVerif.TypeName
open AgVerif.Gen.TypeDesc

inductive Err where
  | indexError      -- `atype[0]` on the empty string
  | recursion       -- the self-call does not get a shorter string (cannot happen with a positive slice start)
  deriving Repr, DecidableEq

/-! ### Python primitives -/

/-- `d.get(k)` on a dict given as its item list (keys are unique in a dict literal's value) -/
def pyGet (d : List (List Char × List Char)) (k : List Char) : Option (List Char) := d.lookup k

/-- index normalisation of a slice bound: negative counts from the end, then clamp to `0..n` -/
def pyBound (n : Nat) (i : Int) : Nat :=
  if i < 0 then (Int.toNat (n + i)) else min i.toNat n

/-- `s[a:b]` with integer bounds -/
def pySlice (s : List Char) (a b : Int) : List Char :=
  let lo := pyBound s.length a
  let hi := pyBound s.length b
  (s.take hi).drop lo

/-- `s[a:]` -/
def pyFrom (s : List Char) (a : Int) : List Char := s.drop (pyBound s.length a)

/-- `s[i]` for `i ≥ 0` -/
def pyIndex (s : List Char) (i : Nat) : Except Err Char :=
  match s[i]? with
  | some c => .ok c
  | none => .error .indexError

/-- `s.startswith(p)` -/
def pyStartsWith (s p : List Char) : Bool := p.isPrefixOf s

/-- `s.replace(old, new)` for one-character `old` and `new` -/
def pyReplaceChar (s : List Char) (old new : Char) : List Char := s.map (fun c => if c = old then new else c)

/-- `s.replace(old, new)` in general (left to right, non-overlapping; `old` non-empty) -/
def pyReplaceAux : Nat → List Char → List Char → List Char → List Char
  | 0, s, _, _ => s
  | _ + 1, [], _, _ => []
  | fuel + 1, c :: r, old, new =>
    if old.isPrefixOf (c :: r) ∧ old ≠ [] then new ++ pyReplaceAux fuel ((c :: r).drop old.length) old new
    else c :: pyReplaceAux fuel r old new

def pyReplace (s old new : List Char) : List Char := pyReplaceAux (s.length + 1) s old new

/-- `s.lstrip(chars)`: drop leading characters that belong to the SET `chars` -/
def pyLstrip (s chars : List Char) : List Char := s.dropWhile (fun c => chars.contains c)

/-- `fmt % x` for a format with `%s` conversions and one argument: the first `%s` is replaced -/
def pyPercentS : List Char → List Char → List Char
  | '%' :: 's' :: r, x => x ++ r
  | c :: r, x => c :: pyPercentS r x
  | [], _ => []

/-- `fmt.format(a₀, a₁, …)` for a format whose only fields are `{}` -/
def pyFormat : List Char → List (List Char) → List Char
  | '{' :: '}' :: r, a :: as => a ++ pyFormat r as
  | c :: r, as => c :: pyFormat r as
  | [], _ => []

/-- `str(n)` of a non-negative int -/
def pyStrNat (n : Nat) : List Char := (toString n).toList

/-! ### decompiler/util.py get_type -/

def utilGetTypeAux : Nat → List Char → Option Nat → Except Err (List Char)
  | 0, _, _ => .error .recursion
  | fuel + 1, atype, size =>
    match pyGet utilTable atype with                                   -- res = TYPE_DESCRIPTOR.get(atype)
    | some res => .ok res
    | none => do                                                       -- if res is None:
      if (← pyIndex atype utilHeadIdx) = utilClassTag then              --   if atype[0] == 'L':
        if pyStartsWith atype utilPrefix                               --     if atype.startswith('Ljava/lang/')
            ∧ ¬ (pyFrom atype utilMemberFrom).contains utilSep then    --        and '/' not in atype[11:]:
          .ok (pySlice atype utilShortLo (-(utilShortHiNeg : Int)))    --       res = atype[11:-1]
        else
          .ok (pyReplaceChar (pySlice atype utilFullLo (-(utilFullHiNeg : Int)))
                utilReplaceOld utilReplaceNew)                         --       res = atype[1:-1].replace('/', '.')
      else if (← pyIndex atype utilHeadIdx2) = utilArrayTag then        --   elif atype[0] == '[':
        let elem ← utilGetTypeAux fuel (pyFrom atype utilElemFrom) none  --     get_type(atype[1:])
        match size with
        | none => .ok (pyPercentS utilArrFmt elem)                     --     '%s[]' % …
        | some n => .ok (pyFormat utilArrSizeFmt [elem, pyStrNat n])   --     '{}[{}]'.format(…, size)
      else .ok atype                                                   --   else: res = atype (and a debug log)

def utilGetType (atype : List Char) (size : Option Nat) : Except Err (List Char) :=
  utilGetTypeAux (atype.length + 1) atype size

/-! ### core/dex/__init__.py get_type -/

def dexGetTypeAux : Nat → List Char → Option Nat → Except Err (List Char)
  | 0, _, _ => .error .recursion
  | fuel + 1, atype0, size =>
    let atype := if pyStartsWith atype0 dexStartsWith                  -- if atype.startswith('java.lang'):
      then pyReplace atype0 dexDropOld dexDropNew else atype0           --     atype = atype.replace('java.lang.', '')
    match pyGet dexTable (pyLstrip atype dexLstrip) with               -- res = TYPE_DESCRIPTOR.get(atype.lstrip('java.lang'))
    | some res => .ok res
    | none => do
      if (← pyIndex atype dexHeadIdx) = dexClassTag then                --   if atype[0] == 'L':
        .ok (pyReplaceChar (pySlice atype dexFullLo (-(dexFullHiNeg : Int)))
              dexReplaceOld dexReplaceNew)                             --     res = atype[1:-1].replace('/', '.')
      else if (← pyIndex atype dexHeadIdx2) = dexArrayTag then          --   elif atype[0] == '[':
        let elem ← dexGetTypeAux fuel (pyFrom atype dexElemFrom) none
        match size with
        | none => .ok (pyPercentS dexArrFmt elem)
        | some n => .ok (pyFormat dexArrSizeFmt [elem, pyStrNat n])
      else .ok atype

def dexGetType (atype : List Char) (size : Option Nat) : Except Err (List Char) :=
  dexGetTypeAux (atype.length + 1) atype size

/-! ### the loop body of util.get_type before the fix (kept to state the defect D12) -/

def utilClassUnfixed (atype : List Char) : List Char :=
  if pyStartsWith atype "Ljava/lang".toList then
    pyReplaceChar (pyLstrip (pySlice atype 1 (-1)) "java/lang/".toList) '/' '.'
  else pyReplaceChar (pySlice atype 1 (-1)) '/' '.'

end AgVerif.TypeName
