/-
C21 model: from a row of the generated translation table (what `INSTRUCTION_SET[op]` really builds) to the Java
expression the Writer prints, its text, and its outcome under the JLS semantics; plus the Writer's in-place
assignment rewriting (`write_inplace_if_possible`) and `CONDS` negation.
Imports only Spec/Gen.
-/
import AgVerif.Spec.DalvikSem
import AgVerif.Spec.JavaSem
import AgVerif.Gen.Translate
import AgVerif.Gen.Conds

namespace AgVerif.Translate
open AgVerif.JavaSem
open AgVerif.Gen.Translate (Row)

/-! ## reading the strings of a row (Java's lexical meaning of the operator / cast text) -/

def binOpOfText (s : String) : Option BinOp :=
  if s = "+" then some .add else if s = "-" then some .sub else if s = "*" then some .mul
  else if s = "/" then some .div else if s = "%" then some .rem else if s = "&" then some .and
  else if s = "|" then some .or else if s = "^" then some .xor else if s = "<<" then some .shl
  else if s = ">>" then some .shr else if s = ">>>" then some .ushr else none

def unOpOfText (s : String) : Option UnOp :=
  if s = "-" then some .neg else if s = "~" then some .compl else none

def relOpOfText (s : String) : Option RelOp :=
  if s = "==" then some .eq else if s = "!=" then some .ne else if s = "<" then some .lt
  else if s = ">=" then some .ge else if s = ">" then some .gt else if s = "<=" then some .le else none

def castOfText (s : String) : Option Ty :=
  if s = "(long)" then some .long else if s = "(int)" then some .int else if s = "(byte)" then some .byte
  else if s = "(char)" then some .char else if s = "(short)" then some .short else none

/-- an operand of the built expression -/
inductive Opd where
  /-- `Variable(register n)` -/
  | r (n : Nat)
  /-- `Constant(±literal, type)`; `long` = the Constant's type is 'J' (printed with the `L` suffix) -/
  | lit (neg : Bool) (long : Bool)
  deriving DecidableEq, Repr

def opdOfText (s cty : String) : Option Opd :=
  if s = "lit" then (if cty = "J" then some (.lit false true) else if cty = "I" then some (.lit false false) else none)
  else if s = "-lit" then (if cty = "J" then some (.lit true true) else if cty = "I" then some (.lit true false) else none)
  else if s = "r1" then some (.r 1) else if s = "r2" then some (.r 2) else if s = "r3" then some (.r 3) else none

/-- the part of a row the printed expression depends on -/
inductive Core where
  | bin (op : BinOp) (a b : Opd)
  | un (op : UnOp) (a : Opd)
  | cast (t : Ty) (a : Opd)
  | const (a : Opd)
  /-- `BinaryCompExpression('cmp', a, b, 'J')`: printed `Long.compare(a, b)` -/
  | lcmp (a b : Opd)
  | cond (op : RelOp) (a b : Opd)
  /-- `ConditionalZExpression(op, a)` on an int: printed `a op 0` -/
  | condz (op : RelOp) (a : Opd)
  deriving DecidableEq, Repr

inductive Dom where
  | all | neg | nonneg
  deriving DecidableEq, Repr

def domOfText (s : String) : Option Dom :=
  if s = "all" then some .all else if s = "neg" then some .neg else if s = "nonneg" then some .nonneg else none

def Dom.ok : Dom → Int → Prop
  | .all, _ => True
  | .neg, l => l < 0
  | .nonneg, l => 0 ≤ l

instance : (d : Dom) → (l : Int) → Decidable (d.ok l)
  | .all, _ => isTrue trivial
  | .neg, l => inferInstanceAs (Decidable (l < 0))
  | .nonneg, l => inferInstanceAs (Decidable (0 ≤ l))

def coreOf (r : Row) : Option Core :=
  if r.kind = "bin" then do
    let o ← binOpOfText r.op
    let a ← opdOfText r.a r.cty
    let b ← opdOfText r.b r.cty
    some (.bin o a b)
  else if r.kind = "un" then do
    let o ← unOpOfText r.op
    let a ← opdOfText r.a r.cty
    some (.un o a)
  else if r.kind = "cast" then do
    let t ← castOfText r.op
    let a ← opdOfText r.a r.cty
    some (.cast t a)
  else if r.kind = "const" then do
    let a ← opdOfText r.a r.cty
    some (.const a)
  else if r.kind = "cmp" then
    -- the Writer prints Long.compare only for op 'cmp' on type 'J'; anything else prints `a cmp b` (not Java)
    if r.op = "cmp" ∧ r.ty = "J" then do
      let a ← opdOfText r.a r.cty
      let b ← opdOfText r.b r.cty
      some (.lcmp a b)
    else none
  else if r.kind = "cond" then do
    let o ← relOpOfText r.op
    let a ← opdOfText r.a r.cty
    let b ← opdOfText r.b r.cty
    some (.cond o a b)
  else if r.kind = "condz" then do
    let o ← relOpOfText r.op
    let a ← opdOfText r.a r.cty
    some (.condz o a)
  else none

/-! ## the Java expression -/

open AgVerif.DalvikSem (Form BinF UnF Conv Cmp)

/-- the type with which an instruction of form `fm` reads register `r` — the declared type of the Java variable
    standing for it (assumption of the per-instruction theorem: declarations carry the Dalvik type) -/
def regTy (fm : Form) (r : Nat) : Ty :=
  match fm with
  | .binop true f => if DalvikSem.isShift f ∧ r = 3 then .int else .long
  | .binop2addr true f => if DalvikSem.isShift f ∧ r = 2 then .int else .long
  | .unop true _ => .long
  | .conv .l2i => .long
  | .cmpLong => .long
  | _ => .int

def opdExpr (fm : Form) (lit : Int) : Opd → Expr
  | .r n => .var (regTy fm n) n
  | .lit neg long => .lit (if neg then -lit else lit) long

def exprOf (fm : Form) (lit : Int) : Core → Expr
  | .bin o a b => .bin o (opdExpr fm lit a) (opdExpr fm lit b)
  | .un o a => .un o (opdExpr fm lit a)
  | .cast t a => .cast t (opdExpr fm lit a)
  | .const a => opdExpr fm lit a
  | .lcmp a b => .longCompare (opdExpr fm lit a) (opdExpr fm lit b)
  | .cond o a b => .rel o (opdExpr fm lit a) (opdExpr fm lit b)
  | .condz o a => .rel o (opdExpr fm lit a) (.lit 0 false)

def jenv (ρ : DalvikSem.Env) : JavaSem.Env := ⟨ρ.i, ρ.l⟩

/-- the value an expression contributes where it is used: unary numeric promotion only (byte/short/char → int);
    an `int` is never silently a `long` (the expression may be propagated into any operand position) -/
def regVal : Val → Option DalvikSem.Val
  | .int v => some (.int v)
  | .long v => some (.long v)
  | .byte v => some (.int (v.signExtend 32))
  | .short v => some (.int (v.signExtend 32))
  | .char v => some (.int (v.setWidth 32))
  | .bool _ => none

/-- outcome of the Java text; `none` = javac rejects it or it has the wrong kind of result -/
def javaOutcome (fm : Form) (c : Core) (ρ : DalvikSem.Env) (lit : Int) : Option DalvikSem.Outcome :=
  match eval (jenv ρ) (exprOf fm lit c) with
  | .error .compile => none
  | .error .arith => (match c with
      | .cond .. | .condz .. => none
      | _ => some (.value (.error .arith)))
  | .ok v => (match c with
      | .cond .. | .condz .. => (match v with | .bool b => some (.branch b) | _ => none)
      | _ => (regVal v).map fun x => .value (.ok x))

/-! ## what the translation must be (one acceptable Java rendering per form; the theorem `rows_expected` checks the
generated table against it, `expected_sound` proves it right) -/

def jop : BinF → BinOp
  | .add => .add | .sub => .sub | .mul => .mul | .div => .div | .rem => .rem | .and => .and | .or => .or
  | .xor => .xor | .shl => .shl | .shr => .shr | .ushr => .ushr

def jrel : Cmp → RelOp
  | .eq => .eq | .ne => .ne | .lt => .lt | .ge => .ge | .gt => .gt | .le => .le

def expected (fm : Form) (d : Dom) : Option Core :=
  match fm, d with
  | .binop _ f, .all => some (.bin (jop f) (.r 2) (.r 3))
  | .binop2addr _ f, .all => some (.bin (jop f) (.r 1) (.r 2))
  | .binopLit .sub true _, .all => some (.bin .sub (.lit false false) (.r 2))
  -- add-int/lit8 with a negative literal is shown as a subtraction of its negation
  | .binopLit .add false 8, .neg => some (.bin .sub (.r 2) (.lit true false))
  | .binopLit .add false 8, .nonneg => some (.bin .add (.r 2) (.lit false false))
  | .binopLit .add false 8, .all => none
  | .binopLit f false _, .all => some (.bin (jop f) (.r 2) (.lit false false))
  | .unop _ .neg, .all => some (.un .neg (.r 2))
  | .unop _ .not, .all => some (.un .compl (.r 2))
  | .conv .i2l, .all => some (.cast .long (.r 2))
  | .conv .l2i, .all => some (.cast .int (.r 2))
  | .conv .i2b, .all => some (.cast .byte (.r 2))
  | .conv .i2c, .all => some (.cast .char (.r 2))
  | .conv .i2s, .all => some (.cast .short (.r 2))
  | .cmpLong, .all => some (.lcmp (.r 2) (.r 3))
  | .const long _ _, .all => some (.const (.lit false long))
  | .ifTest c, .all => some (.cond (jrel c) (.r 1) (.r 2))
  | .ifTestZ c, .all => some (.condz (jrel c) (.r 1))
  | _, _ => none

/-- check of one generated row: its strings parse and it is the expected rendering -/
def rowOk (r : Row) : Bool :=
  match DalvikSem.form r.opcode, domOfText r.dom, coreOf r with
  | some fm, some d, some c => expected fm d == some c
  | _, _, _ => false

/-- every opcode of the subset has rows for all its literals -/
def opcodeCovered (rows : List Row) (op : Nat) : Bool :=
  match DalvikSem.form op with
  | none => true
  | some _ =>
    rows.any (fun r => r.opcode == op && r.dom == "all") ||
    (rows.any (fun r => r.opcode == op && r.dom == "neg") && rows.any (fun r => r.opcode == op && r.dom == "nonneg"))

/-! ## text -/

def tyText : Ty → String
  | .int => "int" | .long => "long" | .byte => "byte" | .short => "short" | .char => "char" | .bool => "boolean"

def binText : BinOp → String
  | .add => "+" | .sub => "-" | .mul => "*" | .div => "/" | .rem => "%" | .and => "&" | .or => "|" | .xor => "^"
  | .shl => "<<" | .shr => ">>" | .ushr => ">>>"

def unText : UnOp → String
  | .neg => "-" | .compl => "~"

def relText : RelOp → String
  | .eq => "==" | .ne => "!=" | .lt => "<" | .ge => ">=" | .gt => ">" | .le => "<="

/-- `Writer.visit_*` on the expression fragment -/
def printExpr : Expr → String
  | .lit v long => toString v ++ (if long then "L" else "")
  | .var _ n => "v" ++ toString n
  | .bin o a b => "(" ++ printExpr a ++ " " ++ binText o ++ " " ++ printExpr b ++ ")"
  | .un o a => "(" ++ unText o ++ " " ++ printExpr a ++ ")"
  | .cast t a => "((" ++ tyText t ++ ") " ++ printExpr a ++ ")"
  | .rel o a b => printExpr a ++ " " ++ relText o ++ " " ++ printExpr b
  | .longCompare a b => "Long.compare(" ++ printExpr a ++ ", " ++ printExpr b ++ ")"

/-! ## tokens, printer and parser of the parenthesised fragment (print_parse) -/

inductive Tok where
  | lp | rp | comma
  | lit (v : Int) (long : Bool)
  | var (t : Ty) (n : Nat)
  /-- `-` is one token whether it is used as a unary or a binary operator -/
  | minus
  | tilde
  | bop (o : BinOp)      -- never `.sub`: that is `minus`
  | castT (t : Ty)       -- `(T)`
  | lcmp                 -- `Long.compare(`
  deriving DecidableEq, Repr

def binTok : BinOp → Tok
  | .sub => .minus
  | o => .bop o

def toks : Expr → List Tok
  | .lit v long => [.lit v long]
  | .var t n => [.var t n]
  | .bin o a b => [.lp] ++ toks a ++ [binTok o] ++ toks b ++ [.rp]
  | .un .neg a => [.lp, .minus] ++ toks a ++ [.rp]
  | .un .compl a => [.lp, .tilde] ++ toks a ++ [.rp]
  | .cast t a => [.lp, .castT t] ++ toks a ++ [.rp]
  | .longCompare a b => [.lcmp] ++ toks a ++ [.comma] ++ toks b ++ [.rp]
  | .rel _ a _ => toks a     -- not part of the fragment (conditions are printed at statement level)

/-- no comparison inside (comparisons are only printed at the top of a condition) -/
def Arith : Expr → Prop
  | .lit _ _ => True
  | .var _ _ => True
  | .bin _ a b => Arith a ∧ Arith b
  | .un _ a => Arith a
  | .cast _ a => Arith a
  | .longCompare a b => Arith a ∧ Arith b
  | .rel _ _ _ => False

def opOfTok : Tok → Option BinOp
  | .minus => some .sub
  | .bop o => some o
  | _ => none

/-- recursive descent with fuel -/
def parse : Nat → List Tok → Option (Expr × List Tok)
  | 0, _ => none
  | _ + 1, .lit v long :: rest => some (.lit v long, rest)
  | _ + 1, .var t n :: rest => some (.var t n, rest)
  | f + 1, .lp :: .minus :: rest =>
    match parse f rest with
    | some (a, .rp :: rest') => some (.un .neg a, rest')
    | _ => none
  | f + 1, .lp :: .tilde :: rest =>
    match parse f rest with
    | some (a, .rp :: rest') => some (.un .compl a, rest')
    | _ => none
  | f + 1, .lp :: .castT t :: rest =>
    match parse f rest with
    | some (a, .rp :: rest') => some (.cast t a, rest')
    | _ => none
  | f + 1, .lp :: rest =>
    match parse f rest with
    | some (a, o :: rest') =>
      (match opOfTok o, parse f rest' with
       | some op, some (b, .rp :: rest'') => some (.bin op a b, rest'')
       | _, _ => none)
    | _ => none
  | f + 1, .lcmp :: rest =>
    match parse f rest with
    | some (a, .comma :: rest') =>
      (match parse f rest' with
       | some (b, .rp :: rest'') => some (.longCompare a b, rest'')
       | _ => none)
    | _ => none
  | _ + 1, _ => none

def size : Expr → Nat
  | .lit _ _ => 1
  | .var _ _ => 1
  | .bin _ a b => size a + size b + 1
  | .un _ a => size a + 1
  | .cast _ a => size a + 1
  | .longCompare a b => size a + size b + 1
  | .rel _ a b => size a + size b + 1

/-! ## `Writer.write_inplace_if_possible` -/

/-- the statement forms the Writer chooses between for `lhs = rhs` -/
inductive Stmt where
  /-- `x = e;` -/
  | assign (t : Ty) (x : Nat) (e : Expr)
  /-- `x op= e;` -/
  | compound (t : Ty) (x : Nat) (op : BinOp) (e : Expr)
  /-- `x++;` / `x--;` -/
  | incr (t : Ty) (x : Nat) (dec : Bool)
  deriving DecidableEq, Repr

/-- `lhs == rhs.var_map[rhs.arg1]` and the special case `op in '+-'` with the constant 1 -/
def inplace (t : Ty) (x : Nat) (rhs : Expr) : Stmt :=
  match rhs with
  | .bin op (.var t' y) b =>
    if t' = t ∧ y = x then
      match op, b with
      | .add, .lit 1 _ => .incr t x false
      | .sub, .lit 1 _ => .incr t x true
      | _, _ => .compound t x op b
    else .assign t x rhs
  | _ => .assign t x rhs

/-- the value stored into `x` (JLS §15.26.1 simple assignment with assignment conversion, §15.26.2 compound
    assignment `E1 = (T)((E1) op (E2))`, §15.14.2 postfix increment `(T)(x + 1)`) -/
def exec (ρ : JavaSem.Env) : Stmt → Except Err Val
  | .assign t _ e => do
      let v ← eval ρ e
      match t with
      | .int => assignTo false v
      | .long => assignTo true v
      | _ => throw .compile
  | .compound t x op e => do castTo t (← eval ρ (.bin op (.var t x) e))
  | .incr t x dec => do castTo t (← eval ρ (.bin (if dec then .sub else .add) (.var t x) (.lit 1 false)))

/-! ## `CONDS` -/

/-- `ConditionalExpression.neg`: `self.op = CONDS[self.op]` -/
def negText (s : String) : Option String := AgVerif.Gen.Conds.condsTable.lookup s

def negRel (o : RelOp) : Option RelOp := (negText (relText o)).bind relOpOfText

/-! ## driver helpers -/

def showDVal : DalvikSem.Val → String
  | .int v => "I" ++ toString v.toInt
  | .long v => "J" ++ toString v.toInt

def showOutcome : Option DalvikSem.Outcome → String
  | none => "rejected"
  | some (.value (.ok v)) => showDVal v
  | some (.value (.error .arith)) => "AE"
  | some (.branch b) => if b then "taken" else "not-taken"

end AgVerif.Translate
