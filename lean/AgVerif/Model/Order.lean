/-
C22 — model of every place of androguard/decompiler whose result can depend on the iteration
order of a hash container (set of objects: order = memory layout; set of str: PYTHONHASHSEED).

Convention: a Python `set` with elements `elems` is enumerated in SOME order `σ` with `σ ~ elems`
(a permutation); the order is an explicit parameter of every site function.  A dict (or a list
used as a set) is enumerated in insertion order and takes no `σ`.

Part A: the five sites of defect D10 — legacy (set based, as in the unrepaired code) and repaired
        (insertion ordered, fixes/C22-*.diff) versions.
Part B: the set iterations that remain in the repaired code, each as a fold.
Part C: the list of modelled sites (must cover the generated list Gen.OrderSites.sites).
Imports nothing outside AgVerif.Gen (core Lean only), so the driver links.
-/
import AgVerif.Gen.OrderSites
namespace AgVerif.Order

/-! ## containers -/

/-- `list(dict.fromkeys(l))`: drop duplicates, keep the order of first occurrence -/
def dedup {α} [BEq α] : List α → List α
  | [] => []
  | x :: xs => x :: (dedup xs).filter (fun y => !(y == x))

/-- `BasicBlock.add_variable_declaration` after the repair: append unless already present -/
def addOnce {α} [BEq α] (l : List α) (v : α) : List α :=
  if l.contains v then l else l ++ [v]

/-- a sequence of `add_variable_declaration` calls on an empty block -/
def addAll {α} [BEq α] (adds : List α) : List α := adds.foldl addOnce []

/-- `σ` is a possible iteration order of the Python set built from the list `l` -/
def EnumOf {α} (l σ : List α) : Prop := σ.Nodup ∧ ∀ x, x ∈ σ ↔ x ∈ l

/-! ## A1  `Interval.compute_end`

    for node in self.content:
        for suc in graph.sucs(node):
            if suc not in self.content: self.end = node
    self.end = self.end or self.head                                                     -/

/-- the last element of the enumeration that satisfies `p`, else `head` -/
def lastSat {α} (p : α → Bool) (head : α) (σ : List α) : α :=
  (σ.foldl (fun e x => if p x then some x else e) none).getD head

/-- "`x` has a successor outside the interval" -/
def hasOutside {α} [BEq α] (sucs : α → List α) (content : List α) (x : α) : Bool :=
  (sucs x).any (fun s => !content.contains s)

/-- `compute_end` given the iteration order `σ` of `self.content` -/
def computeEnd {α} [BEq α] (sucs : α → List α) (head : α) (σ : List α) : α :=
  lastSat (hasOutside sucs σ) head σ

/-! ## A2  `Node.update_attribute_with` (loop_nodes) and its consumer `loop_follow` -/

/-- legacy: `list({n_map.get(n, n) for n in self.loop_nodes})` — the enumeration itself -/
def loopNodesLegacy {α} (σ : List α) : List α := σ

/-- repaired: `list(dict.fromkeys(n_map.get(n, n) for n in self.loop_nodes))` -/
def loopNodesFixed {α} [BEq α] (nmap : α → α) (loopNodes : List α) : List α :=
  dedup (loopNodes.map nmap)

/-- what `loop_follow` reads of a node -/
structure LNode where
  isCond : Bool
  tru : Nat        -- name of node.true
  fls : Nat        -- name of node.false
  deriving Repr, DecidableEq

/-- one step of the endless-loop branch of `loop_follow` (the `if … elif …` running minimum):
    state = (follow, num_next); `none` is `float('inf')` -/
def followStep (info : Nat → LNode) (num : Nat → Nat) (inLoop : List Nat)
    (st : Option Nat × Option Nat) (node : Nat) : Option Nat × Option Nat :=
  let lt (n : Nat) : Bool := match st.2 with | none => true | some m => decide (n < m)
  let nd := info node
  if nd.isCond then
    if lt (num nd.tru) && !inLoop.contains nd.tru then (some nd.tru, some (num nd.tru))
    else if lt (num nd.fls) && !inLoop.contains nd.fls then (some nd.fls, some (num nd.fls))
    else st
  else st

/-- the follow node chosen by `loop_follow` for a loop that is neither pre- nor post-tested -/
def loopFollowEndless (info : Nat → LNode) (num : Nat → Nat) (nodesInLoop : List Nat) : Option Nat :=
  (nodesInLoop.foldl (followStep info num nodesInLoop) (none, none)).1

/-- the exits of a loop node as `loop_follow` sees them: the `true`/`false` successors of a conditional
    node that lie outside the loop (used to state when `loop_follow` is order-free) -/
def exitsOf (info : Nat → LNode) (inLoop : List Nat) (node : Nat) : List Nat :=
  if (info node).isCond then [(info node).tru, (info node).fls].filter (fun e => !inLoop.contains e) else []

/-! ## A3  `BasicBlock.var_to_declare` printed by `Writer.visit_node` -/

/-- legacy: one declaration line per variable, in set order -/
def declLinesLegacy {α β} (render : α → β) (σ : List α) : List β := σ.map render

/-- repaired: insertion order of the `add_variable_declaration` calls -/
def declLinesFixed {α β} [BEq α] (render : α → β) (adds : List α) : List β := (addAll adds).map render

/-! ## A4  `MergeNodes` in `short_circuit_struct`

    lpreds/ldests collect preds/sucs of node1 then node2, minus {node1, node2}; then
    `graph.add_edge(node_map.get(pred, pred), new_node)` for every pred and
    `graph.add_edge(new_node, node_map.get(dest, dest))` for every dest: the adjacency LISTS of
    the merged node are filled in that order.                                            -/

/-- `Graph.add_edge` on one adjacency list -/
def addEdge {α} [BEq α] (l : List α) (x : α) : List α := if l.contains x then l else l ++ [x]

/-- legacy: successor list of the merged node when `ldests` is enumerated as `σ` -/
def mergeSuccsLegacy {α} [BEq α] (nmap : α → α) (σ : List α) : List α :=
  σ.foldl (fun l d => addEdge l (nmap d)) []

/-- repaired `lpreds`/`ldests`: dict.fromkeys of the first list updated with the second,
    then `pop` of the two merged nodes -/
def collectFixed {α} [BEq α] (l1 l2 : List α) (n1 n2 : α) : List α :=
  (dedup (l1 ++ l2)).filter (fun x => !(x == n1) && !(x == n2))

/-- repaired: successor list of the merged node -/
def mergeSuccsFixed {α} [BEq α] (nmap : α → α) (s1 s2 : List α) (n1 n2 : α) : List α :=
  (collectFixed s1 s2 n1 n2).foldl (fun l d => addEdge l (nmap d)) []

/-- depth-first post-order (what `Graph.post_order` computes) with explicit fuel;
    used to show that the successor order of a node is observable in the numbering -/
def dfsPost (sucs : Nat → List Nat) : Nat → List Nat → List Nat × List Nat → List Nat × List Nat
  | 0, _, st => st
  | _ + 1, [], st => st
  | fuel + 1, n :: rest, (visited, out) =>
    if visited.contains n then dfsPost sucs fuel rest (visited, out)
    else
      let (v', o') := dfsPost sucs fuel (sucs n) (n :: visited, out)
      dfsPost sucs fuel rest (v', o' ++ [n])

def postOrder (sucs : Nat → List Nat) (entry : Nat) (fuel : Nat) : List Nat :=
  (dfsPost sucs fuel [entry] ([], [])).2

/-! ## A5  `get_used_vars` of the IR instructions -/

/-- legacy: `list(set(lused_vars))` -/
def usedVarsLegacy {α} (σ : List α) : List α := σ

/-- repaired: `list(dict.fromkeys(lused_vars))` -/
def usedVarsFixed {α} [BEq α] (lused : List α) : List α := dedup lused

/-! ## B  set iterations that remain in the repaired code -/

/-- function update -/
def upd {α : Type} {β : Type} [DecidableEq α] (s : α → β) (k : α) (v : β) : α → β := fun y => if y = k then v else s y

/-- B1 a loop whose body reads and writes only the attributes of the element it visits
    (`for node in to_update: node.update_attribute_with(node_map)`,
     `for x in unresolved: x.follow['switch'] = n`, the `if_unresolved` loops,
     the bucket loop of `dom_lt`): per-element state `β`, body `g x old = new` -/
def applyEach {α : Type} {β : Type} [DecidableEq α] (g : α → β → β) (st : α → β) (σ : List α) : α → β :=
  σ.foldl (fun s x => upd s x (g x (s x))) st

/-- B2 `place_declarations`: `c = def_nodes.pop(); for d in def_nodes: c = common_dom(idom, c, d)` -/
def popFold {α} (op : α → α → α) (σ : List α) : Option α :=
  σ.foldl (fun o a => some (match o with | none => a | some b => op b a)) none

/-- `util.common_dom` on a dominator tree given as `idom` (node = its RPO number, `idom n < n`),
    with fuel for the two nested while loops -/
def commonDom (idom : Nat → Nat) : Nat → Nat → Nat → Nat
  | 0, cur, _ => cur
  | fuel + 1, cur, pred =>
    if cur = pred then cur
    else if cur < pred then commonDom idom fuel cur (idom pred)
    else commonDom idom fuel (idom cur) pred

/-- `util.common_dom(idom, cur, pred)` for two nodes (not `None`), line by line, with node identity
    (`cur is not pred`) separate from the RPO number `node.num`:

        while cur is not pred:
            while cur.num < pred.num: pred = idom[pred]
            while cur.num > pred.num: cur = idom[cur]
        return cur

    `idom v = none` stands for both `idom[entry] = None` (then `None.num` raises) and a missing key
    (`KeyError`); two different nodes with the same number make the Python loop spin forever.  All
    three, and running out of fuel, are the explicit result `none`. -/
def commonDomG (idom : Nat → Option Nat) (num : Nat → Nat) : Nat → Nat → Nat → Option Nat
  | 0, _, _ => none
  | fuel + 1, cur, pred =>
    if cur = pred then some cur
    else if num cur < num pred then
      match idom pred with
      | some p => commonDomG idom num fuel cur p
      | none => none
    else if num pred < num cur then
      match idom cur with
      | some c => commonDomG idom num fuel c pred
      | none => none
    else none

/-- B2 with a partial operation: `c = def_nodes.pop(); for d in def_nodes: c = common_dom(idom, c, d)`;
    `none` for the empty set (the code skips it) and when a `common_dom` call fails -/
def popFoldM {α} (op : α → α → Option α) : List α → Option α
  | [] => none
  | a :: rest => rest.foldlM op a

/-- B3 step 2 of `dom_lt`: `for v in pred[w]: semi[w] = min(semi[w], semi[eval(v)])` -/
def semiMin {α} (ev : α → Nat) (s0 : Nat) (σ : List α) : Nat :=
  σ.foldl (fun s v => min s (ev v)) s0

/-- B4 `build_def_use`: `for v in ldefs.get(var, set()): if prior_def < v < i: prior_def = v` -/
def priorDef (i : Int) (σ : List Int) : Int :=
  σ.foldl (fun p v => if p < v ∧ v < i then v else p) (-1)

/-- B5 `BasicReachDef.run`: `for loc in self.R[node]: if loc not in killed_locs: A.add(loc)`
    (the result is a set again: only membership is meaningful) -/
def survivors {α} (killed : α → Bool) (σ : List α) : List α := σ.filter (fun x => !killed x)

/-! ## C  the modelled sites -/

open AgVerif.Gen.OrderSites in
/-- The set-iteration sites of the repaired decompiler, each with the argument that makes it
    independent of the enumeration order (theorem names refer to Props/C22.lean):

    independent   `independent_updates_order_irrelevant`  (B1)
    lca           `place_declarations_order_irrelevant_domtree` / `…_real` (B2; abstract form
                  `place_declarations_order_irrelevant`)
    min           `dom_lt_order_irrelevant` (B3; the fold alone: `semi_min_order_irrelevant`)
    int           elements are `int` locations: CPython hashes an int to its value, so the order is a
                  function of the insertion history and not of the seed or the memory layout
                  (assumption); the two folds among them are also proved order-free
                  (`prior_def_order_irrelevant`, `survivors_order_irrelevant`). -/
def modelled : List (Site × String) := [
  (⟨"graph.py", "split_if_nodes", "for", "to_update", "74ae91f3f7fc"⟩, "independent"),
  (⟨"graph.py", "simplify", "for", "to_update", "74ae91f3f7fc"⟩, "independent"),
  (⟨"graph.py", "dom_lt", "for", "pred[w]", "057f73438e0f"⟩, "min"),
  (⟨"graph.py", "dom_lt", "pop", "bpw", "3bf708169f8f"⟩, "independent"),
  (⟨"dataflow.py", "BasicReachDef.run", "for", "self.R[node]", "db50c0546b43"⟩, "int"),
  (⟨"dataflow.py", "update_chain", "for", "set(ud[var, loc])", "543826a82cad"⟩, "int"),
  (⟨"dataflow.py", "group_variables", "for", "uses", "62edcc3e7a31"⟩, "int"),
  (⟨"dataflow.py", "group_variables", "for", "luses", "a3fe374474e9"⟩, "int"),
  (⟨"dataflow.py", "group_variables", "list", "uses", "d0159b775b05"⟩, "int"),
  (⟨"dataflow.py", "build_def_use", "for", "ldefs.get(var, set())", "ae87eea35886"⟩, "int"),
  (⟨"dataflow.py", "build_def_use", "list", "intersect", "082fc6c6afd5"⟩, "int"),
  (⟨"dataflow.py", "place_declarations", "pop", "def_nodes", "c8636ea85170"⟩, "lca"),
  (⟨"dataflow.py", "place_declarations", "for", "def_nodes", "9a31884be500"⟩, "lca"),
  (⟨"control_flow.py", "if_struct", "for", "unresolved.copy()", "adcece9f6853"⟩, "independent"),
  (⟨"control_flow.py", "switch_struct", "for", "unresolved", "70b09bfa024a"⟩, "independent"),
  (⟨"control_flow.py", "identify_structures", "for", "if_unresolved", "f6084ae8e57c"⟩, "independent")
]

/-- the five sites of defect D10 as they appear in the unrepaired code (file, function, expression):
    none of them may be present in the generated list -/
def legacySites : List (String × String × String) := [
  ("node.py", "Interval.compute_end", "self.content"),
  ("node.py", "Node.update_attribute_with", "{n_map.get(n, n) for n in self.loop_nodes}"),
  ("writer.py", "Writer.visit_node", "node.var_to_declare"),
  ("dast.py", "JSONWriter.visit_node", "node.var_to_declare"),
  ("control_flow.py", "short_circuit_struct.MergeNodes", "lpreds"),
  ("control_flow.py", "short_circuit_struct.MergeNodes", "ldests"),
  ("instruction.py", "BinaryExpression.get_used_vars", "set(lused_vars)"),
  ("instruction.py", "InvokeInstruction.get_used_vars", "set(lused_vars)")
]

/-- the ordered containers the repairs introduce (must be present in Gen.OrderSites.orderedSites) -/
def repairs : List (String × String × String) := [
  ("node.py", "Node.update_attribute_with", "fromkeys"),
  ("node.py", "Interval.__init__", "dict-as-set"),
  ("basic_blocks.py", "BasicBlock.__init__", "list-as-set"),
  ("instruction.py", "ArrayStoreInstruction.get_used_vars", "fromkeys"),
  ("instruction.py", "InstanceInstruction.get_used_vars", "fromkeys"),
  ("instruction.py", "InvokeInstruction.get_used_vars", "fromkeys"),
  ("instruction.py", "InvokeStaticInstruction.get_used_vars", "fromkeys"),
  ("instruction.py", "ArrayLoadExpression.get_used_vars", "fromkeys"),
  ("instruction.py", "FilledArrayExpression.get_used_vars", "fromkeys"),
  ("instruction.py", "BinaryExpression.get_used_vars", "fromkeys"),
  ("instruction.py", "ConditionalExpression.get_used_vars", "fromkeys"),
  ("control_flow.py", "short_circuit_struct.MergeNodes", "fromkeys")
]

/-- The one in-place mutation of a value fetched from another object's DvMethod/DvClass attribute that the
    code contains: `JSONWriter.get_ast` does `flags = m.access; flags.remove('constructor')`.
    It is harmless ONLY while every DvMethod owns a list of its own (`expectedAccessSources`): then the
    mutation is confined to the method being written. -/
def knownAliasMutations : List (String × String × String × String) := [
  ("dast.py", "JSONWriter.get_ast", "access", "remove")
]

/-- The assumption under which `knownAliasMutations` is harmless, as a statement about the code:
    every producer of an `access` list builds a NEW list on every call (no memoisation) and
    DvMethod/DvClass store the direct result of such a call. -/
def expectedAccessSources : List (String × String × String) := [
  ("util.py", "get_access_class", "fresh-list"),
  ("util.py", "get_access_method", "fresh-list"),
  ("util.py", "get_access_field", "fresh-list"),
  ("decompile.py", "DvMethod.__init__", "call:get_access_method"),
  ("decompile.py", "DvClass.__init__", "call:get_access_class")
]

/-- `DvMethod.process()` re-creates the parameter list and the register → variable mapping by an
    UNCONDITIONAL `self._init_variables()` before the first use of the mapping (only the early return for
    methods without code precedes it), whatever an earlier — completed or aborted — call left behind. -/
def expectedProcessReinit : List (String × String) := [
  ("DvMethod.process", "unconditional"),
  ("DvMethod.process:before", "return-if-no-code"),
  ("DvMethod._init_variables:resets", "lparams,var_to_name")
]

end AgVerif.Order
