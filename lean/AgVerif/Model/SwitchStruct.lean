/-
C22 (part 7) — model of `control_flow.switch_struct` (androguard/decompiler/control_flow.py:225-246).

    def switch_struct(graph, idoms):
        unresolved = set()
        for node in graph.post_order():
            if node.type.is_switch:
                m = node
                for suc in graph.sucs(node):
                    if idoms[suc] is not node:
                        m = common_dom(idoms, node, suc)
                ldominates = []
                for n, dom in idoms.items():
                    if m is dom and len(graph.all_preds(n)) > 1:
                        ldominates.append(n)
                if len(ldominates) > 0:
                    n = max(ldominates, key=lambda x: x.num)
                    node.follow['switch'] = n
                    for x in unresolved:
                        x.follow['switch'] = n
                    unresolved = set()
                else:
                    unresolved.add(node)
                node.order_cases()

(no `return`: the set `unresolved` is local; the observable result is the `follow['switch']` attributes)

`node.order_cases()` touches `cases` / `default` / `node_to_case` of the switch node only and is not modelled.
As in Model/IfStruct.lean the dict `idoms` is the list of its items in insertion order (values may be `None`:
`idoms[entry]`), the enumeration of the set `unresolved` (hash-iteration site of Gen/OrderSites.lean) is the
parameter `ord`.  `none` = an exception (`KeyError` of `idoms[suc]`, or inside `common_dom`) or `common_dom`
not terminating within its fuel.
-/
import AgVerif.Model.Order
import AgVerif.Model.IfStruct
namespace AgVerif.SwitchStruct
open AgVerif.IfStruct (St maxFirst)

/-- `idoms[k]`: `none` = `KeyError`, `some none` = the value `None` -/
def lookup (idoms : List (Nat × Option Nat)) (k : Nat) : Option (Option Nat) :=
  (idoms.find? (fun p => p.1 == k)).map Prod.snd

/-- `idoms` as `common_dom` reads it (`None.num` and `KeyError` both end the call with an exception) -/
def idomFn (idoms : List (Nat × Option Nat)) (k : Nat) : Option Nat := (lookup idoms k).join

/-- `m = node; for suc in graph.sucs(node): if idoms[suc] is not node: m = common_dom(idoms, node, suc)` -/
def chooseM (idoms : List (Nat × Option Nat)) (num : Nat → Nat) (fuel node : Nat) (sucs : List Nat) : Option Nat :=
  sucs.foldlM (fun m suc =>
    match lookup idoms suc with
    | none => none
    | some d => if d = some node then some m else Order.commonDomG (idomFn idoms) num fuel node suc) node

/-- nodes immediately dominated by `m` with more than one predecessor -/
def ldominates (idoms : List (Nat × Option Nat)) (npreds : Nat → Nat) (m : Nat) : List Nat :=
  (idoms.filter (fun p => p.2 == some m && decide (1 < npreds p.1))).map Prod.fst

/-- `for x in unresolved: x.follow['switch'] = n` -/
def resolveAll (n : Nat) (s : St) (enum : List Nat) : St :=
  { follow := (enum.foldl (fun fol x => fun y => if y = x then some n else fol y) s.follow), unresolved := [] }

def step (ord : List Nat → List Nat) (isSwitch : Nat → Bool) (sucs : Nat → List Nat)
    (idoms : List (Nat × Option Nat)) (npreds num : Nat → Nat) (fuel : Nat) (s : St) (node : Nat) : Option St :=
  if isSwitch node then
    match chooseM idoms num fuel node (sucs node) with
    | none => none
    | some m =>
      match maxFirst num (ldominates idoms npreds m) with
      | some n =>
        some (resolveAll n { s with follow := fun y => if y = node then some n else s.follow y } (ord s.unresolved))
      | none =>
        some { s with unresolved := if s.unresolved.contains node then s.unresolved else s.unresolved ++ [node] }
  else some s

/-- `switch_struct(graph, idoms)`; `post` = `graph.post_order()` -/
def switchStruct (ord : List Nat → List Nat) (post : List Nat) (isSwitch : Nat → Bool) (sucs : Nat → List Nat)
    (idoms : List (Nat × Option Nat)) (npreds num : Nat → Nat) (fuel : Nat) : Option St :=
  post.foldlM (step ord isSwitch sucs idoms npreds num fuel) ⟨fun _ => none, []⟩

end AgVerif.SwitchStruct
