/-
Model of androguard/core/dex/__init__.py: readuleb128, readuleb128p1,
readsleb128, writeuleb128, writesleb128.   (imports nothing)

Bytes are `Nat` (the driver and the theorems supply `< 256`).  A read returns
`some (value, bytesConsumed)`; `none` stands for `struct.error` (buffer exhausted:
`unpack` of an empty read).  Python's unbounded integers are `Nat`/`Int`.
Python `x & 0x7F` on a possibly negative `int` is `x % 128` (floor mod) and
`x >> 7` is `x / 128` (floor division) — Lean's `Int` `%` and `/` with a positive
divisor agree with both.
-/
namespace AgVerif.Leb

/-- readuleb128: five nested reads; the 5th byte is shifted by 28 *unmasked*. -/
def readUleb : List Nat → Option (Nat × Nat)
  | [] => none
  | b0 :: r0 =>
    if b0 > 0x7F then
      match r0 with
      | [] => none
      | b1 :: r1 =>
        let res := (b0 &&& 0x7F) ||| ((b1 &&& 0x7F) <<< 7)
        if b1 > 0x7F then
          match r1 with
          | [] => none
          | b2 :: r2 =>
            let res := res ||| ((b2 &&& 0x7F) <<< 14)
            if b2 > 0x7F then
              match r2 with
              | [] => none
              | b3 :: r3 =>
                let res := res ||| ((b3 &&& 0x7F) <<< 21)
                if b3 > 0x7F then
                  match r3 with
                  | [] => none
                  | b4 :: _ => some (res ||| (b4 <<< 28), 5)
                else some (res, 4)
            else some (res, 3)
        else some (res, 2)
    else some (b0, 1)

/-- readuleb128p1 -/
def readUlebP1 (bs : List Nat) : Option (Int × Nat) :=
  match readUleb bs with
  | none => none
  | some (v, n) => some ((v : Int) - 1, n)

/-- the sign fix-up of readsleb128 once a terminating byte is seen;
    `shift` is already incremented. -/
def slebFix (result : Nat) (shift : Nat) : Int :=
  let bitLeft := 32 - shift          -- max(32 - shift, 0): truncated subtraction
  let r := result <<< bitLeft
  let r' : Int := if r > 0x7FFFFFFF then ((0x7FFFFFFF &&& r : Nat) : Int) - 0x80000000 else (r : Int)
  r' / (2 ^ bitLeft : Nat)           -- Python `>>` on int = floor division

/-- readsleb128: `for x in range(0, 5)`; `k` counts the iterations left. -/
def readSlebLoop : Nat → Nat → Nat → Nat → List Nat → Option (Int × Nat)
  | 0, result, _, n, _ => some ((result : Int), n)     -- five continuation bytes: raw value
  | _ + 1, _, _, _, [] => none
  | k + 1, result, shift, n, cur :: rest =>
    let result := result ||| ((cur &&& 0x7F) <<< shift)
    let shift := shift + 7
    if cur &&& 0x80 = 0 then some (slebFix result shift, n + 1)
    else readSlebLoop k result shift (n + 1) rest

def readSleb (bs : List Nat) : Option (Int × Nat) := readSlebLoop 5 0 0 0 bs

/-- writeuleb128 on a non-negative value (the code raises ValueError on negatives). -/
def writeUlebNat (value : Nat) : List Nat :=
  if h : value >>> 7 > 0 then
    ((value &&& 0x7F) ||| 0x80) :: writeUlebNat (value >>> 7)
  else [value &&& 0x7F]
termination_by value
decreasing_by
  simp only [Nat.shiftRight_eq_div_pow] at *
  omega

def writeUleb (value : Int) : Option (List Nat) :=
  if value < 0 then none else some (writeUlebNat value.toNat)

/-- writesleb128.  `end` is 0 when `value & (-sys.maxsize-1) == 0`, i.e.
    `0 ≤ value < 2^63`, else -1.  `fuel` bounds the `while hasMore` loop: the real
    loop does not terminate for `value ≥ 2^63` (remaining reaches 0, never -1). -/
def writeSlebLoop : Nat → Int → Int → Int → Option (List Nat)
  | 0, _, _, _ => none
  | fuel + 1, value, remaining, e =>
    let hasMore := (remaining != e) || (remaining % 2 != (value / 64) % 2)
    let byte := (value % 128).toNat ||| (if hasMore then 0x80 else 0)
    if hasMore then
      match writeSlebLoop fuel remaining (remaining / 128) e with
      | none => none
      | some l => some (byte :: l)
    else some [byte]

def writeSleb (value : Int) : Option (List Nat) :=
  let e : Int := if 0 ≤ value ∧ value < 2 ^ 63 then 0 else -1
  writeSlebLoop 12 value (value / 128) e

end AgVerif.Leb
