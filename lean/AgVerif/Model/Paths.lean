/-
Model of (the FIXED, see fixes/C38-*.diff and fixes/C37-*.diff)
  androguard/misc.py      clean_file_name            (POSIX, force_nt = False)
  androguard/cli/main.py  valid_class_name, the three kinds of path that export_apps_to_format
                          creates (class folder, method files `<name>.<ext>`, `<class>.java`)
and of the functions of CPython's `posixpath` they call (split, join, normpath; basename, dirname,
splitext for completeness).  Imports only the generated constants.

Strings are `List Char`.  A Python `str` may hold lone surrogates, a `Char` may not; the
correspondence run leaves such strings out (the property oracle does not).

Regular expressions are compiled BY HAND to predicates / rewriting functions:
  * character classes come from `Gen.Paths` (the translator parses the class into code point
    ranges), so a change of a class in the source changes the model;
  * the structure (prefix match of `re.match`, `$` of `[ .]$`, order of the substitutions) is
    hand-written and pinned by `Props/C38.lean: gen_pins` (literal text of every pattern).
-/
import AgVerif.Gen.Paths
namespace AgVerif.Paths

abbrev Path := List Char

/-! ## posixpath -/

def sep : Char := '/'

/-- Python `s.split(c)` for a one-character separator: never empty, `"".split("/") = [""]`. -/
def splitOn (c : Char) : List Char → List (List Char)
  | [] => [[]]
  | x :: xs =>
    if x = c then [] :: splitOn c xs
    else match splitOn c xs with
      | [] => [[x]]            -- unreachable: splitOn never returns []
      | h :: t => (x :: h) :: t

/-- `p[p.rfind(c)+1:]` : the part after the last `c` (all of `p` when there is none) -/
def afterLast (c : Char) (p : List Char) : List Char :=
  (p.reverse.takeWhile (· != c)).reverse

/-- `p[:p.rfind(c)+1]` : the part up to and including the last `c` (`""` when there is none) -/
def uptoLast (c : Char) (p : List Char) : List Char :=
  (p.reverse.dropWhile (· != c)).reverse

/-- `s.rstrip(c)` -/
def rstrip (c : Char) (p : List Char) : List Char :=
  (p.reverse.dropWhile (· == c)).reverse

/-- posixpath.split -/
def split (p : Path) : Path × Path :=
  let head := uptoLast sep p
  let tail := afterLast sep p
  -- `if head and head != sep*len(head): head = head.rstrip(sep)`
  if head.any (· != sep) then (rstrip sep head, tail) else (head, tail)

def basename (p : Path) : Path := afterLast sep p
def dirname (p : Path) : Path := (split p).1

/-- one step of posixpath.join -/
def join2 (a b : Path) : Path :=
  match b with
  | '/' :: _ => b
  | _ =>
    if a.isEmpty || a.getLast? == some sep then a ++ b else a ++ sep :: b

/-- posixpath.join(a, *bs) -/
def join (a : Path) (bs : List Path) : Path := bs.foldl join2 a

/-- `initial_slashes` of posixpath.normpath: 0, 1 or 2 (exactly two leading slashes) -/
def initialSlashes : Path → Nat
  | '/' :: '/' :: '/' :: _ => 1
  | '/' :: '/' :: _ => 2
  | '/' :: _ => 1
  | _ => 0

def dot : List Char := ['.']
def dotdot : List Char := ['.', '.']

/-- the loop body of normpath; the stack `new_comps` is kept REVERSED (last component first) -/
def normStep (abs : Bool) (stk : List (List Char)) (comp : List Char) : List (List Char) :=
  if comp = [] ∨ comp = dot then stk
  else if comp ≠ dotdot then comp :: stk
  else match stk with
    | [] => if abs then [] else [comp]
    | top :: rest => if top = dotdot then comp :: stk else rest

/-- the components normpath keeps, first component first -/
def normComps (p : Path) : List (List Char) :=
  ((splitOn sep p).foldl (normStep (initialSlashes p != 0)) []).reverse

/-- posixpath.normpath -/
def normpath (p : Path) : Path :=
  if p.isEmpty then dot else
  let s := List.replicate (initialSlashes p) sep ++ [sep].intercalate (normComps p)
  if s.isEmpty then dot else s

/-- posixpath.splitext -/
def splitext (p : Path) : Path × Path :=
  let dir := uptoLast sep p
  let base := afterLast sep p
  let stem := uptoLast '.' base          -- includes the last dot, "" when there is no dot
  if stem.isEmpty then (p, []) else
  let stem' := stem.dropLast
  -- "skip all leading dots": there must be a non-dot character in front of the last dot
  if stem'.any (· != '.') then (dir ++ stem', '.' :: afterLast '.' base) else (p, [])

/-! ## regular expressions of clean_file_name, compiled by hand -/

def inRanges (rs : List (Nat × Nat)) (c : Char) : Bool :=
  rs.any fun r => r.1 ≤ c.toNat && c.toNat ≤ r.2

/-- `[<>:"/\\|?*\x00-\x1f]` -/
def reservedChar (c : Char) : Bool := inRanges Gen.Paths.reservedRanges c
/-- `[<>:"/\\|?* .\x00-\x1f]` -/
def badReplaceChar (c : Char) : Bool := inRanges Gen.Paths.replaceCheckRanges c
/-- `[ .]` -/
def trailingChar (c : Char) : Bool := inRanges Gen.Paths.trailingRanges c

/-- `not replace or re.search(<class>, replace)` is false -/
def validReplace (rep : List Char) : Bool := !rep.isEmpty && !rep.any badReplaceChar

/-- one alternative `LIT` or `LIT[class]` matched at the start of the string -/
def matchAlt (alt : List Char × List (Nat × Nat)) (s : List Char) : Bool :=
  let lit := alt.1
  lit.isPrefixOf s &&
    (alt.2.isEmpty || match s.drop lit.length with
                      | [] => false
                      | c :: _ => inRanges alt.2 c)

/-- `re.match(r'(CON|PRN|AUX|NUL|COM[1-9]|LPT[1-9])', fname)` : a PREFIX match -/
def reservedName (s : List Char) : Bool := Gen.Paths.reservedNames.any (matchAlt · s)

/-- `re.sub(<reserved class>, replace, fname)` -/
def subReserved (rep s : List Char) : List Char :=
  s.flatMap fun c => if reservedChar c then rep else [c]

/-- `re.sub(r'[ .]$', replace, s)`.  `$` matches at the very end and also just before a
    string-final `'\n'`; a `[ .]` can stand at only one of the two places. -/
def subTrailing (rep s : List Char) : List Char :=
  match s.reverse with
  | [] => []
  | l :: r =>
    if trailingChar l then r.reverse ++ rep
    else if l = '\n' then
      match r with
      | [] => s
      | l2 :: r2 => if trailingChar l2 then r2.reverse ++ rep ++ [l] else s
    else s

/-- decimal digits of `n`, as `str(n)` / `"{}".format(n)` -/
def natDigits (n : Nat) : List Char := Nat.toDigits 10 n

/-- `"_{}".format(counter)` -/
def suffixOf (counter : Nat) : List Char := Gen.Paths.suffixLead ++ natDigits counter

/-- the inner function `shorten(name, suffix)` of the fixed clean_file_name -/
def shorten (maxLen : Nat) (rep name suffix : List Char) : List Char :=
  -- stem, dot, ext = name.rpartition("."); tail = dot + ext
  let hasDot := name.contains '.'
  let tail0 := '.' :: afterLast '.' name
  let stem0 := (uptoLast '.' name).dropLast
  let useExt := hasDot && !(tail0.length > maxLen / Gen.Paths.extDivisor)
  let stem := if useExt then stem0 else name
  let tail := if useExt then tail0 else []
  let room := maxLen - suffix.length - tail.length        -- `max(…, 0)`: truncated subtraction
  let name' := stem.take room ++ suffix ++ tail
  (subTrailing rep (name'.take maxLen)).take maxLen

/-- everything clean_file_name does to the basename before the uniqueness loop -/
def cleanBase (rep fname : List Char) : List Char :=
  let f1 := if reservedName fname then fname ++ rep else fname
  let f2 := subReserved rep f1
  let f3 := subTrailing rep f2
  shorten Gen.Paths.pathMaxLength rep f3 []

inductive Result where
  | ok (p : Path)
  | valueError            -- "replacement character is not allowed!"
  | outOfFuel             -- the model's loop budget ran out (the real loop would still be running)
  deriving Repr, DecidableEq

/-- the `while os.path.isfile(os.path.join(path, fname))` loop; `fuel` bounds the number of tests -/
def uniqueLoop (isfile : Path → Bool) (dir : Path) (rep orig : List Char) :
    Nat → Nat → List Char → Option (List Char)
  | 0, _, _ => none
  | fuel + 1, counter, cur =>
    if isfile (join2 dir cur) then
      uniqueLoop isfile dir rep orig fuel (counter + 1)
        (shorten Gen.Paths.pathMaxLength rep orig (suffixOf counter))
    else some cur

/-- clean_file_name(filename, unique, replace) on POSIX with force_nt = False -/
def cleanFileName (isfile : Path → Bool) (fuel : Nat) (filename : Path) (unique : Bool)
    (rep : List Char) : Result :=
  if !validReplace rep then .valueError else
  let path := (split filename).1
  let fname := (split filename).2
  let base := cleanBase rep fname
  if unique then
    match uniqueLoop isfile path rep base fuel 0 base with
    | some f => .ok (join2 path f)
    | none => .outOfFuel
  else .ok (join2 path base)

/-! ## cli/main.py: where the decompile export writes -/

/-- the default replacement character of clean_file_name -/
def underscore : List Char := ['_']

/-- valid_class_name; `none` is the IndexError of `""[-1]` -/
def validClassName (cn : List Char) : Option Path :=
  if cn.isEmpty then none else
  let inner := if cn.getLast? == some ';' then (cn.drop 1).dropLast else cn
  let parts := (splitOn sep inner).filter fun p => !(Gen.Paths.droppedSegments.contains p)
  some (join [] parts)

/-- `re.sub(r'[/\\]', "_", short_string)` -/
def sanitizeShort (s : List Char) : List Char :=
  s.flatMap fun c => if inRanges Gen.Paths.methodSepRanges c then Gen.Paths.methodSepReplacement else [c]

/-- folder of a class: `os.path.join(output, valid_class_name(cls))` -/
def classDir (out cls : List Char) : Option Path :=
  (validClassName cls).map (join2 out)

/-- `os.path.join(output, valid_class_name(cls) + ".java")` -/
def javaFile (out cls : List Char) : Option Path :=
  (validClassName cls).map fun v => join2 out (v ++ Gen.Paths.javaSuffix)

/-- `clean_file_name(os.path.join(filename_class, <sanitised short string>))`, to which the export
    appends `"." + form` and `".ag"` -/
def methodBase (isfile : Path → Bool) (fuel : Nat) (out cls short : List Char) : Option Result :=
  (classDir out cls).map fun d =>
    cleanFileName isfile fuel (join2 d (sanitizeShort short)) true underscore

end AgVerif.Paths
