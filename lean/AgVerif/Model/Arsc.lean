/-
Model of androguard/core/axml/__init__.py: `ARSCParser.__init__`, `ARSCHeader`, `StringBlock`
(constructor, `getString`, `_decode8/_decode16/_decode_length`), `ARSCResTablePackage`,
`ARSCResType`, `ARSCResTableConfig.__init__/get_language_and_region`, `ARSCResTableEntry`,
`ARSCComplex`, `ARSCResStringPoolRef`, `ARSCParser._analyse`, and the listings
`get_packages_names/get_locales/get_types/get_res_id_by_key/get_string`.
`get_res_configs` and the resolver are in Model/Resolve.lean.           (imports AgVerif.Gen/Model only)

Level 1 (lists of bytes, used by the theorems): the three entry-offset-array decoders and the
entry decoder.  Level 2 (random access into the file, used by the driver and by the
correspondence): `parseTable`, with fuel for the two chunk loops (each iteration advances by a
chunk size ≥ 8, theorem `C28.chunk_advances`).

Bytes are `Nat`.  `none` stands for any exception (`struct.error` on a short read,
`ResParserError`, `AttributeError` …): the correspondence only distinguishes `err`.
-/
import AgVerif.Gen.ArscConsts
import AgVerif.Model.Proto
import AgVerif.Model.Resolve
namespace AgVerif.Arsc
open AgVerif.Gen.ArscConsts

/-! ## little-endian reads on byte lists (L1) -/

def le16 : List Nat → Option (Nat × List Nat)
  | a :: b :: r => some (a + b * 256, r)
  | _ => none

def le32 : List Nat → Option (Nat × List Nat)
  | a :: b :: c :: d :: r => some (a + b * 256 + c * 65536 + d * 16777216, r)
  | _ => none

/-! The offset conversions of the loop (`offset_from16`, `off * 4` for sparse entries, the two
    NO_ENTRY tests) are not written here: they are the expressions translated from the source by
    gen/arscconsts.py (`Gen.ArscConsts.offsetFrom16 / sparseOffset / dense16Offset / dense16Skip /
    plainSkip`), pinned by `C28.sparse_offset_spec`, `offset16_spec`, `plain_skip_spec`. -/

/-- the loop `for i in range(entryCount)` without FLAG_SPARSE / FLAG_OFFSET16:
    32-bit offsets, `NO_ENTRY_32` skipped; yields `(offset, entry index)`. -/
def entriesPlain : Nat → Nat → List Nat → Option (List (Nat × Nat) × List Nat)
  | 0, _, bs => some ([], bs)
  | n + 1, i, bs =>
    match le32 bs with
    | none => none
    | some (off, r) =>
      match entriesPlain n (i + 1) r with
      | none => none
      | some (es, r') => some (if plainSkip off then es else (off, i) :: es, r')

/-- FLAG_OFFSET16: 16-bit offsets in units of 4 bytes, `0xFFFF` skipped -/
def entriesOffset16 : Nat → Nat → List Nat → Option (List (Nat × Nat) × List Nat)
  | 0, _, bs => some ([], bs)
  | n + 1, i, bs =>
    match le16 bs with
    | none => none
    | some (o, r) =>
      match entriesOffset16 n (i + 1) r with
      | none => none
      | some (es, r') =>
        some (if dense16Skip (dense16Offset o) then es else (dense16Offset o, i) :: es, r')

/-- FLAG_SPARSE: `(idx, offset/4)` pairs of 16 bits -/
def entriesSparse : Nat → List Nat → Option (List (Nat × Nat) × List Nat)
  | 0, bs => some ([], bs)
  | n + 1, bs =>
    match le16 bs with
    | none => none
    | some (idx, r) =>
      match le16 r with
      | none => none
      | some (off, r2) =>
        match entriesSparse n r2 with
        | none => none
        | some (es, r') => some ((sparseOffset off, idx) :: es, r')

/-- the entry-offset array of a type chunk, by its flags -/
def entryArray (flags count : Nat) (bs : List Nat) : Option (List (Nat × Nat) × List Nat) :=
  if flags &&& flagSparse ≠ 0 then entriesSparse count bs
  else if flags &&& flagOffset16 ≠ 0 then entriesOffset16 count 0 bs
  else entriesPlain count 0 bs

/-- `ARSCResStringPoolRef`: (data_type, data) -/
abbrev ResValue := Nat × Nat

inductive EntryBody where
  | simple (v : ResValue)                       -- `key = ARSCResStringPoolRef`
  | complex (parent : Nat) (items : List (Nat × ResValue))
  | compact (dataType data : Nat)
deriving Repr, DecidableEq

/-- `ARSCResTableEntry` without `mResId` -/
structure RawEntry where
  flags : Nat
  keyIndex : Nat          -- index into the key pool (`index`, or `size` for a compact entry)
  body : EntryBody
deriving Repr, DecidableEq

/-- `Res_value`: u16 size, u8 res0, u8 dataType, u32 data -/
def resValueL : List Nat → Option (ResValue × List Nat)
  | _ :: _ :: _ :: t :: r => match le32 r with
    | some (d, r') => some ((t, d), r')
    | none => none
  | _ => none

def mapItemsL : Nat → List Nat → Option (List (Nat × ResValue) × List Nat)
  | 0, bs => some ([], bs)
  | n + 1, bs =>
    match le32 bs with
    | none => none
    | some (name, r) =>
      match resValueL r with
      | none => none
      | some (v, r2) =>
        match mapItemsL n r2 with
        | none => none
        | some (its, r') => some ((name, v) :: its, r')

/-- the `ARSCComplex` part of an entry: u32 parent, u32 count, count maps -/
def decodeComplexL (flags index : Nat) (r2 : List Nat) : Option (RawEntry × List Nat) :=
  match le32 r2 with
  | none => none
  | some (parent, r3) =>
    match le32 r3 with
    | none => none
    | some (count, r4) =>
      match mapItemsL count r4 with
      | none => none
      | some (its, r') => some (⟨flags, index, .complex parent its⟩, r')

/-- what follows the 8 header bytes, by the flags -/
def decodeBodyL (size flags index : Nat) (r2 : List Nat) : Option (RawEntry × List Nat) :=
  if flags &&& flagComplex ≠ 0 then decodeComplexL flags index r2
  else if flags &&& flagCompact ≠ 0 then
    some (⟨flags, size, .compact ((flags >>> 8) &&& 0xFF) index⟩, r2)
  else
    match resValueL r2 with
    | none => none
    | some (v, r') => some (⟨flags, index, .simple v⟩, r')

/-- `ARSCResTableEntry.__init__` on the bytes of the entry (no chunk-end cut-off at this level) -/
def decodeEntryL (bs : List Nat) : Option (RawEntry × List Nat) :=
  match le16 bs with
  | none => none
  | some (size, r0) =>
    match le16 r0 with
    | none => none
    | some (flags, r1) =>
      match le32 r1 with
      | none => none
      | some (index, r2) => decodeBodyL size flags index r2

/-- `mResId` as the three constructors assemble it: package `id << 24`; type chunk
    `(0xFF000000 & mResId) | id << 16`; entry `mResId & 0xFFFF0000 | idx` -/
def pkgResId (pkgId : Nat) : Nat := pkgId <<< 24
def typeResId (cur typeId : Nat) : Nat := (0xFF000000 &&& cur) ||| (typeId <<< 16)
def entryResId (cur idx : Nat) : Nat := (cur &&& 0xFFFF0000) ||| idx

/-! ## random access (L2) -/

abbrev Buf := Array Nat

def rd8 (b : Buf) (p : Nat) : Option Nat := b[p]?
def rd16 (b : Buf) (p : Nat) : Option Nat := do
  let x ← b[p]?; let y ← b[p + 1]?; pure (x + y * 256)
def rd32 (b : Buf) (p : Nat) : Option Nat := do
  let x ← b[p]?; let y ← b[p + 1]?; let z ← b[p + 2]?; let w ← b[p + 3]?
  pure (x + y * 256 + z * 65536 + w * 16777216)

/-- `buff.read(n)` at p: the bytes that exist -/
def slice (b : Buf) (p n : Nat) : List Nat := (b.extract p (p + n)).toList

structure Hdr where
  start : Nat        -- `self.start`: where the constructor was called
  pos : Nat          -- where the header was finally read (after skipping "dummy data"); body at `pos + 8`
  type : Nat
  headerSize : Nat
  size : Nat
deriving Repr

def Hdr.end_ (h : Hdr) : Nat := h.start + h.size

/-- the `while True` loop of `ARSCHeader.__init__` ("dummy data between elements") -/
def hdrLoop (b : Buf) : Nat → Nat → Option (Nat × Nat × Nat × Nat)
  | 0, _ => none
  | fuel + 1, cur =>
    match rd16 b cur, rd16 b (cur + 2), rd32 b (cur + 4) with
    | some ty, some hs, some sz0 =>
      let sz := if sz0 < 8 ∧ b.size = cur + hs + 4 + 4 then 24 else sz0
      let ok := hs ≥ 8 ∧ sz ≥ hs
      if (ty < resXmlFirstChunk ∨ ty > resXmlLastChunk) ∧ ok then some (cur, ty, hs, sz)
      else if cur = 0 ∨ ok then some (cur, ty, hs, sz)
      else hdrLoop b fuel (cur + 1)
    | _, _, _ => none

/-- `ARSCHeader(buff, expected_type)` at position `p` -/
def readHdr (b : Buf) (p : Nat) (expected : Option Nat) : Option Hdr :=
  if b.size < p + 8 then none else
  match hdrLoop b (b.size + 1) p with
  | none => none
  | some (pos, ty, hs, sz) =>
    if (match expected with | some e => decide (e ≠ 0 ∧ ty ≠ e) | none => false) then none
    else if hs < 8 ∨ sz < 8 ∨ sz < hs then none
    else some ⟨p, pos, ty, hs, sz⟩

/-! ### string pools -/

structure Pool where
  utf8 : Bool
  count : Int                 -- `stringCount` (after the fix-up; may be ≤ 0)
  offsets : List Nat          -- `m_stringOffsets`
  chars : List Nat            -- `m_charbuff`
deriving Repr

def rdMany32 (b : Buf) : Nat → Nat → Option (List Nat)
  | 0, _ => some []
  | n + 1, p => do
    let x ← rd32 b p
    let r ← rdMany32 b n (p + 4)
    pure (x :: r)

/-- `StringBlock(buff, header)`; the position is just after the 8-byte chunk header -/
def readPool (b : Buf) (h : Hdr) : Option Pool := do
  let p := h.pos + 8
  let sc ← rd32 b p
  let styc ← rd32 b (p + 4)
  let flags ← rd32 b (p + 8)
  let so ← rd32 b (p + 12)
  let d : Int := (so : Int) - ((styc : Int) * 4 + 28)
  let count : Int := if d % 4 = 0 ∧ d / 4 = (sc : Int) then (sc : Int) else Int.tdiv d 4
  let styleOff ← rd32 b (p + 16)
  let offs ← rdMany32 b count.toNat (p + 20)
  let p2 := p + 20 + 4 * count.toNat + 4 * styc        -- after the style offsets (values not needed)
  let _ ← rdMany32 b styc (p + 20 + 4 * count.toNat)
  let size : Int := if styleOff ≠ 0 ∧ styc ≠ 0 then (styleOff : Int) - so else (h.size : Int) - so
  -- `buff.read(size)`: a negative size reads to the end of the file
  let chars := if size < 0 then slice b p2 (b.size - p2) else slice b p2 size.toNat
  pure ⟨flags &&& utf8Flag ≠ 0, count, offs, chars⟩

def lget (l : List Nat) (i : Nat) : Option Nat := l[i]?

/-- `_decode_length(offset, sizeof_char)` → (length, bytes used) -/
def decodeLength (chars : List Nat) (off : Nat) (wide : Bool) : Option (Nat × Nat) :=
  if wide then do
    let a0 ← lget chars off; let a1 ← lget chars (off + 1)
    let b0 ← lget chars (off + 2); let b1 ← lget chars (off + 3)
    let l1 := a0 + a1 * 256; let l2 := b0 + b1 * 256
    if l1 &&& 0x8000 ≠ 0 then
      let len := ((l1 &&& 0x7FFF) <<< 16) ||| l2
      if len ≤ 0x7FFFFFFF then pure (len, 4) else none
    else pure (l1, 2)
  else do
    let l1 ← lget chars off; let l2 ← lget chars (off + 1)
    if l1 &&& 0x80 ≠ 0 then
      let len := ((l1 &&& 0x7F) <<< 8) ||| l2
      if len ≤ 0x7FFF then pure (len, 2) else none
    else pure (l1, 1)

/-- UTF-16LE code units → UTF-8 bytes (what `decode('utf-16','replace')` then UTF-8 gives for
    well-formed text; a lone surrogate becomes U+FFFD) -/
def utf8Of (c : Nat) : List Nat :=
  if c < 0x80 then [c]
  else if c < 0x800 then [0xC0 + c / 64, 0x80 + c % 64]
  else if c < 0x10000 then [0xE0 + c / 4096, 0x80 + c / 64 % 64, 0x80 + c % 64]
  else [0xF0 + c / 262144, 0x80 + c / 4096 % 64, 0x80 + c / 64 % 64, 0x80 + c % 64]

def unitsOf : List Nat → List Nat
  | a :: b :: r => (a + b * 256) :: unitsOf r
  | _ => []

def utf16ToUtf8 : List Nat → List Nat
  | [] => []
  | [u] => if 0xD800 ≤ u ∧ u < 0xE000 then utf8Of 0xFFFD else utf8Of u
  | u :: v :: r' =>
    if 0xD800 ≤ u ∧ u < 0xDC00 then
      if 0xDC00 ≤ v ∧ v < 0xE000 then
        utf8Of (0x10000 + (u - 0xD800) * 1024 + (v - 0xDC00)) ++ utf16ToUtf8 r'
      else utf8Of 0xFFFD ++ utf16ToUtf8 (v :: r')
    else if 0xDC00 ≤ u ∧ u < 0xE000 then utf8Of 0xFFFD ++ utf16ToUtf8 (v :: r')
    else utf8Of u ++ utf16ToUtf8 (v :: r')
termination_by l => l.length
decreasing_by all_goals simp <;> omega

/-- `getString(idx)` as UTF-8 bytes; `none` = an exception -/
def Pool.getString (pl : Pool) (idx : Nat) : Option (List Nat) :=
  if pl.offsets.isEmpty ∨ (idx : Int) ≥ pl.count then some [] else
  match pl.offsets[idx]? with
  | none => none                                   -- IndexError
  | some off =>
    if pl.utf8 then do
      let (_, s1) ← decodeLength pl.chars off false
      let (n, s2) ← decodeLength pl.chars (off + s1) false
      let o := off + s1 + s2
      if pl.chars.length < o + n then pure []
      else
        let z ← lget pl.chars (o + n)                  -- IndexError when the pool ends here
        if z ≠ 0 then pure [] else pure ((pl.chars.drop o).take n)
    else do
      let (n, s1) ← decodeLength pl.chars off true
      let o := off + s1
      let nb := n * 2
      if pl.chars.length < o + nb then pure []
      else if (pl.chars.drop (o + nb)).take 2 ≠ [0, 0] then none   -- ResParserError
      else pure (utf16ToUtf8 (unitsOf ((pl.chars.drop o).take nb)))

/-! ### configuration -/

/-- `_get_tuple()`: imsi, locale, screenType, input, screenSize, version, screenConfig,
    screenSizeDp, screenConfig2 -/
abbrev ConfigWords := List Nat

/-- `ARSCResTableConfig(buff)` → (words, position after the config) -/
def readConfig (b : Buf) (p : Nat) : Option (ConfigWords × Nat) := do
  let size ← rd32 b p
  let imsi ← rd32 b (p + 4)
  let locale ← rd32 b (p + 8)
  let screenType ← rd32 b (p + 12)
  let opt (c : Bool) (q : Nat) : Option Nat := if c then rd32 b q else some 0
  let input ← opt (size ≥ 20) (p + 16)
  let q1 := if size ≥ 20 then p + 20 else p + 16
  let screenSize ← opt (size ≥ 24) q1
  let q2 := if size ≥ 24 then q1 + 4 else q1
  let version ← opt (size ≥ 28) q2
  let q3 := if size ≥ 28 then q2 + 4 else q2
  let screenConfig ← opt (size ≥ 32) q3
  let q4 := if size ≥ 32 then q3 + 4 else q3
  let screenSizeDp ← opt (size ≥ 36) q4
  let q5 := if size ≥ 36 then q4 + 4 else q4
  let q6 := if size ≥ 40 then q5 + 4 else q5            -- localeScript
  let q7 := if size ≥ 44 then q6 + 8 else q6            -- localeVariant
  let screenConfig2 ← opt (size ≥ 52) q7
  let q8 := if size ≥ 52 then q7 + 4 else q7
  let used := min q8 b.size - p                         -- `buff.tell() - self.start`
  let q9 := if size > used then min q8 b.size + (size - used) else q8
  pure ([imsi, locale, screenType, input, screenSize, version, screenConfig, screenSizeDp,
         screenConfig2], q9)

/-- `_unpack_language_or_region` as code points -/
def unpackLangOrRegion (in0 in1 base : Nat) : List Nat :=
  if in0 &&& 0x80 ≠ 0 then
    [(in1 &&& 0x1F) + base, (((in1 &&& 0xE0) >>> 5) + ((in0 &&& 0x03) <<< 3)) + base,
     ((in0 &&& 0x7C) >>> 2) + base]
  else (if in0 ≠ 0 then [in0] else []) ++ (if in1 ≠ 0 then [in1] else [])

/-- `get_language_and_region()` as UTF-8 bytes (code points < 256) -/
def languageAndRegion (locale : Nat) : List Nat :=
  if locale ≠ 0 then
    let l := unpackLangOrRegion (locale &&& 0xFF) ((locale &&& 0xFF00) >>> 8) 97
    let r := unpackLangOrRegion ((locale &&& 0xFF0000) >>> 16) ((locale &&& 0xFF000000) >>> 24) 48
    ((if r.isEmpty then l else l ++ [45, 114] ++ r).flatMap utf8Of)
  else [0, 0]

/-! ### entries (random access) -/

def readResValue (b : Buf) (p : Nat) : Option ResValue := do
  let _ ← rd16 b p
  let _ ← rd8 b (p + 2)
  -- a short read of dataType/data is logged, the attributes stay unset: any later use raises
  let t ← rd8 b (p + 3)
  let d ← rd32 b (p + 4)
  pure (t, d)

/-- the item loop of `ARSCComplex.__init__` with its chunk-end cut-off -/
def readMapItems (b : Buf) (endOfChunk : Nat) : Nat → Nat → Option (List (Nat × ResValue))
  | 0, _ => some []
  | n + 1, p =>
    if p + 4 > endOfChunk then some []
    else do
      let name ← rd32 b p
      let v ← readResValue b (p + 4)
      let r ← readMapItems b endOfChunk n (p + 12)
      pure ((name, v) :: r)

/-- `ARSCResTableEntry(buff, entry_offset, expected_end_of_chunk, mResId, pc)` -/
def readEntry (b : Buf) (p endOfChunk : Nat) : Option RawEntry := do
  let size ← rd16 b p
  let flags ← rd16 b (p + 2)
  let index ← rd32 b (p + 4)
  if flags &&& flagComplex ≠ 0 then
    let parent ← rd32 b (p + 8)
    let count ← rd32 b (p + 12)
    let its ← readMapItems b endOfChunk (min count b.size) (p + 16)
    pure ⟨flags, index, .complex parent its⟩
  else if flags &&& flagCompact ≠ 0 then
    pure ⟨flags, size, .compact ((flags >>> 8) &&& 0xFF) index⟩
  else
    let v ← readResValue b (p + 8)
    pure ⟨flags, index, .simple v⟩

/-- an entry with its resource id -/
structure Ate where
  resId : Nat
  e : RawEntry
deriving Repr

/-- a parsed `RES_TABLE_TYPE_TYPE` chunk -/
structure TypeChunk where
  typeId : Nat
  config : ConfigWords
  ates : List Ate
deriving Repr

def readAtes (b : Buf) (base endOfChunk : Nat) : List (Nat × Nat) → Option (List Ate)
  | [] => some []
  | (off, rid) :: r => do
    let e ← readEntry b (base + off) endOfChunk
    let rest ← readAtes b base endOfChunk r
    pure (⟨rid, e⟩ :: rest)

/-- the body of `elif pkg_chunk_header.type == RES_TABLE_TYPE_TYPE:`; `cur` is the package's
    running `mResId`; returns the chunk and the new `mResId` -/
def readTypeChunk (b : Buf) (h : Hdr) (cur : Nat) : Option (TypeChunk × Nat) := do
  let p := h.pos + 8
  let id ← rd8 b p
  let flags ← rd8 b (p + 1)
  let _ ← rd16 b (p + 2)
  let count ← rd32 b (p + 4)
  let entriesStart ← rd32 b (p + 8)
  let cur := typeResId cur id
  let (cfg, q) ← readConfig b (p + 12)
  let width := if flags &&& flagSparse ≠ 0 then 4 else if flags &&& flagOffset16 ≠ 0 then 2 else 4
  if count * width > b.size then none else            -- a short read raises struct.error
  let (offs, _) ← entryArray flags count (slice b q (count * width))
  -- `current_package.mResId = mResId & 0xFFFF0000 | idx` for every slot, also the skipped ones
  let ids := offs.map fun oi => (oi.1, entryResId cur oi.2)
  let last := if flags &&& flagSparse ≠ 0 then (match ids.getLast? with | some x => x.2 | none => cur)
              else if count = 0 then cur else entryResId cur (count - 1)
  let ates ← readAtes b (h.pos + entriesStart) (h.pos + h.size) ids
  pure (⟨id, cfg, ates⟩, last)

structure Package where
  name : List Nat            -- UTF-8
  typePool : Pool
  keyPool : Pool
  chunks : List TypeChunk
deriving Repr

/-- `get_name()`: UTF-16 text of the 256-byte field up to the first NUL (`name[:name.find("\0")]`) -/
def packageName (bs : List Nat) : List Nat :=
  let us := unitsOf bs
  let pre := us.takeWhile (· ≠ 0)
  utf16ToUtf8 (if pre.length = us.length then us.dropLast else pre)

/-- `while self.buff.tell() <= res_header.end - ARSCHeader.SIZE:` inside a package -/
def pkgChunks (b : Buf) (pkgEnd : Nat) : Nat → Nat → Nat → Option (List TypeChunk)
  | 0, _, _ => none
  | fuel + 1, p, cur =>
    if p + 8 > pkgEnd then some [] else
    match readHdr b p none with
    | none => none
    | some h =>
      if h.start + h.size > pkgEnd then some []
      else if h.type = resTableTypeType then
        match readTypeChunk b h cur with
        | none => none
        | some (tc, cur') =>
          match pkgChunks b pkgEnd fuel h.end_ cur' with
          | none => none
          | some r => some (tc :: r)
      else pkgChunks b pkgEnd fuel h.end_ cur        -- typeSpec / library / unknown: skipped

/-- the body of `elif res_header.type == RES_TABLE_PACKAGE_TYPE:` -/
def readPackage (b : Buf) (h : Hdr) : Option Package := do
  let p := h.pos + 8
  let id ← rd32 b p
  let name := slice b (p + 4) 256
  let typeStrings ← rd32 b (p + 260)
  let _ ← rd32 b (p + 264)
  let keyStrings ← rd32 b (p + 268)
  let _ ← rd32 b (p + 272)
  let th ← readHdr b (h.start + typeStrings) (some resStringPoolType)
  let tp ← readPool b th
  let kh ← readHdr b (h.start + keyStrings) (some resStringPoolType)
  let kp ← readPool b kh
  let next := h.start + h.headerSize + th.size + kh.size
  let chunks ← pkgChunks b h.end_ (b.size + 1) next (pkgResId id)
  pure ⟨packageName name, tp, kp, chunks⟩

structure Parsed where
  main : Option Pool
  packages : List Package      -- in file order (same-name packages are merged by `_analyse`)
deriving Repr

/-- `while self.buff.tell() <= self.header.end - ARSCHeader.SIZE:` of `ARSCParser.__init__` -/
def tableChunks (b : Buf) (tableEnd : Nat) (pkgCount : Nat) :
    Nat → Nat → Parsed → Option Parsed
  | 0, _, _ => none
  | fuel + 1, p, acc =>
    if p + 8 > tableEnd then some acc else
    match readHdr b p none with
    | none => none
    | some h =>
      if h.end_ > tableEnd then some acc
      else if h.type = resStringPoolType then
        match acc.main with
        | some _ => tableChunks b tableEnd pkgCount fuel h.end_ acc
        | none =>
          match readPool b h with
          | none => none
          | some pl => tableChunks b tableEnd pkgCount fuel h.end_ { acc with main := some pl }
      else if h.type = resTablePackageType then
        -- `len(self.packages)` counts distinct names
        if (acc.packages.map (·.name)).eraseDups.length > pkgCount then none else
        match readPackage b h with
        | none => none
        | some pk => tableChunks b tableEnd pkgCount fuel h.end_
                       { acc with packages := acc.packages ++ [pk] }
      else tableChunks b tableEnd pkgCount fuel h.end_ acc

/-- `ARSCParser(raw_buff)` -/
def parseTable (b : Buf) : Option Parsed :=
  if b.size < 8 ∨ b.size > 0xFFFFFFFF then none else
  match readHdr b 0 (some resTableType) with
  | none => none
  | some h =>
    if h.size > b.size then none else
    match rd32 b 8 with
    | none => none
    | some pkgCount => tableChunks b h.end_ pkgCount (b.size + 1) (h.start + h.headerSize) ⟨none, []⟩

/-! ## `_analyse` and the listings -/

def mainString (ps : Parsed) (i : Nat) : Option (List Nat) :=
  match ps.main with
  | some pl => pl.getString i
  | none => none                 -- `stringpool_main` is None: AttributeError

/-- `a_res_type.get_type()` = `mTableStrings.getString(id - 1)` (id 0: index −1 → "") -/
def typeName (pk : Package) (typeId : Nat) : Option (List Nat) :=
  if typeId = 0 then some [] else pk.typePool.getString (typeId - 1)

/-- `ate.get_value()` -/
def keyName (pk : Package) (a : Ate) : Option (List Nat) := pk.keyPool.getString a.e.keyIndex

def isComplex (a : Ate) : Bool := a.e.flags &&& flagComplex ≠ 0

/-- `ate.get_key_data()`; a complex entry has no `key`: AttributeError -/
def keyData (ps : Parsed) (a : Ate) : Option (List Nat) :=
  match a.e.body with
  | .compact _ d => mainString ps d
  | .simple v => mainString ps v.2
  | .complex _ _ => none

def strBytes (s : String) : List Nat := s.toUTF8.toList.map (·.toNat)

/-- the type names whose per-type branch of `_analyse` dereferences `ate.key` of a complex entry -/
def analyseRaises (tn : List Nat) (a : Ate) : Bool :=
  isComplex a && (tn == strBytes "integer" || tn == strBytes "color" || tn == strBytes "dimen")

/-- insertion-ordered dict update -/
def dictSet {α β : Type} [BEq α] (d : List (α × β)) (k : α) (v : β) : List (α × β) :=
  if d.any (·.1 == k) then d.map fun p => if p.1 == k then (k, v) else p else d ++ [(k, v)]

def dictGet {α β : Type} [BEq α] (d : List (α × β)) (k : α) : Option β :=
  match d.find? (·.1 == k) with
  | some p => some p.2
  | none => none

/-- `self.values[package][locale]`: the type keys in insertion order ("public" first) and the
    `"string"` list -/
structure LocaleValues where
  types : List (List Nat)
  strings : List (List Nat × List Nat)
deriving Repr

structure Analysed where
  values : List (List Nat × List (List Nat × LocaleValues))            -- package → locale → …
  resourceValues : List (Nat × List (ConfigWords × Ate))                -- `resource_values`
  resourceKeys : List ((List Nat × List Nat × List Nat) × Nat)          -- (package, type, key) → id
deriving Repr

def emptyLocale : LocaleValues := ⟨[strBytes "public"], []⟩

def addType (lv : LocaleValues) (tn : List Nat) : LocaleValues :=
  if lv.types.contains tn then lv else { lv with types := lv.types ++ [tn] }

/-- one entry of one type chunk inside `_analyse` -/
def analyseAte (ps : Parsed) (pk : Package) (tn locale : List Nat) (cfg : ConfigWords)
    (st : Analysed) (a : Ate) : Option Analysed := do
  let kn ← keyName pk a
  let rv := match dictGet st.resourceValues a.resId with
    | some opts => dictSet st.resourceValues a.resId (dictSet opts cfg a)
    | none => st.resourceValues ++ [(a.resId, [(cfg, a)])]
  let rk := dictSet st.resourceKeys (pk.name, tn, kn) a.resId
  let pv := (dictGet st.values pk.name).getD []
  let lv := (dictGet pv locale).getD emptyLocale
  let lv := addType lv tn
  let lv ← if tn == strBytes "string" then do
      let kd ← keyData ps a
      pure { lv with strings := lv.strings ++ [(kn, kd)] }
    else if analyseRaises tn a then none
    else pure lv
  pure ⟨dictSet st.values pk.name (dictSet pv locale lv), rv, rk⟩

def analyseAtes (ps : Parsed) (pk : Package) (tn locale : List Nat) (cfg : ConfigWords) :
    Analysed → List Ate → Option Analysed
  | st, [] => some st
  | st, a :: r =>
    match analyseAte ps pk tn locale cfg st a with
    | none => none
    | some st' => analyseAtes ps pk tn locale cfg st' r

def analyseChunk (ps : Parsed) (pk : Package) (st : Analysed) (tc : TypeChunk) : Option Analysed := do
  let locale := languageAndRegion (tc.config.getD 1 0)
  -- `c_value = self.values[package_name].setdefault(locale, {"public": []})`
  let pv := (dictGet st.values pk.name).getD []
  let pv := if (dictGet pv locale).isSome then pv else pv ++ [(locale, emptyLocale)]
  let st := { st with values := dictSet st.values pk.name pv }
  if tc.ates.isEmpty then pure st else
  let tn ← typeName pk tc.typeId
  analyseAtes ps pk tn locale tc.config st tc.ates

def analyseChunks (ps : Parsed) (pk : Package) : Analysed → List TypeChunk → Option Analysed
  | st, [] => some st
  | st, tc :: r =>
    match analyseChunk ps pk st tc with
    | none => none
    | some st' => analyseChunks ps pk st' r

def analysePackages (ps : Parsed) : Analysed → List Package → Option Analysed
  | st, [] => some st
  | st, pk :: r =>
    -- `self.values[package_name] = {}` happens once per name, before any chunk of that name
    let st := if (dictGet st.values pk.name).isSome then st
              else { st with values := st.values ++ [(pk.name, [])] }
    match analyseChunks ps pk st pk.chunks with
    | none => none
    | some st' => analysePackages ps st' r

/-- `_analyse()`; packages of the same name are visited together, in order of first appearance -/
def analyse (ps : Parsed) : Option Analysed :=
  let names := (ps.packages.map (·.name)).eraseDups
  let ordered := names.flatMap fun n => ps.packages.filter (·.name == n)
  analysePackages ps ⟨[], [], []⟩ ordered

/-- `get_packages_names()` -/
def packagesNames (ps : Parsed) : List (List Nat) := (ps.packages.map (·.name)).eraseDups

/-- `get_locales(package)`; `none` = KeyError -/
def getLocales (an : Analysed) (pkg : List Nat) : Option (List (List Nat)) :=
  (dictGet an.values pkg).map fun pv => pv.map (·.1)

/-- `get_types(package, locale)` -/
def getTypes (an : Analysed) (pkg locale : List Nat) : Option (List (List Nat)) := do
  let pv ← dictGet an.values pkg
  let lv ← dictGet pv locale
  pure lv.types

/-- `get_res_id_by_key(package, type, key)`; `none` = `None` -/
def getResIdByKey (an : Analysed) (pkg ty key : List Nat) : Option Nat :=
  dictGet an.resourceKeys (pkg, ty, key)

/-- `get_string(package, name, locale)`: the first `[name, value]` of that name; `none` = `None` -/
def getString (an : Analysed) (pkg name locale : List Nat) : Option (List Nat × List Nat) := do
  let pv ← dictGet an.values pkg
  let lv ← dictGet pv locale
  lv.strings.find? (·.1 == name)

/-! ## values as the resolver sees them (`format_value` for the integer/string families) -/

def hexDigitUp (n : Nat) : Char :=
  if n < 10 then Char.ofNat (n + 48) else Char.ofNat (n - 10 + 65)

def hexUpAux : Nat → Nat → List Char → List Char
  | 0, _, acc => acc
  | k + 1, n, acc => if n = 0 then acc else hexUpAux k (n / 16) (hexDigitUp (n % 16) :: acc)

/-- `"%X" % n` -/
def hexUp (n : Nat) : String := if n = 0 then "0" else String.ofList (hexUpAux 64 n [])

/-- `"%08X" % n` -/
def hex8 (n : Nat) : String :=
  let s := hexUp n
  String.ofList (List.replicate (8 - s.length) '0') ++ s

def hex2 (n : Nat) : String :=
  let s := hexUp n
  String.ofList (List.replicate (2 - s.length) '0') ++ s

/-- `format_value(type, data, stringpool_main.getString)` as UTF-8 bytes.  Float, dimension and
    fraction (C27) are not rendered here: the marker `U<type>:<data>` is returned instead. -/
def formatValue (ps : Parsed) (t d : Nat) : Option (List Nat) :=
  let pkgPrefix := if d >>> 24 = 1 then "android:" else ""
  if t = typeString then mainString ps d
  else if t = typeAttribute then some (strBytes ("?" ++ pkgPrefix ++ hex8 d))
  else if t = typeReference then some (strBytes ("@" ++ pkgPrefix ++ hex8 d))
  else if t = typeFloat ∨ t = typeDimension ∨ t = typeFraction then some (strBytes s!"U{t}:{d}")
  else if t = typeIntHex then some (strBytes ("0x" ++ hex8 d))
  else if t = typeIntBoolean then some (strBytes (if d = 0 then "false" else "true"))
  else if typeFirstColorInt ≤ t ∧ t ≤ typeLastColorInt then some (strBytes ("#" ++ hex8 d))
  else if typeFirstInt ≤ t ∧ t ≤ typeLastInt then
    let i : Int := if d > 0x7FFFFFFF then ((0x7FFFFFFF &&& d : Nat) : Int) - 0x80000000 else (d : Int)
    some (strBytes (toString i))
  else some (strBytes ("<0x" ++ hexUp d ++ ", type 0x" ++ hex2 t ++ ">"))

def itemOf (ps : Parsed) (v : ResValue) : Option Resolve.Item :=
  if v.1 = typeReference then some (.ref v.2)
  else (formatValue ps v.1 v.2).map fun bs => .lit (Proto.toHex bs)

def itemsOfL (ps : Parsed) : List (Nat × ResValue) → Option (List Resolve.Item)
  | [] => some []
  | (_, v) :: r => do
    let i ← itemOf ps v
    let rest ← itemsOfL ps r
    pure (i :: rest)

/-- the entry as `put_ate_value` treats it (compact: by its data type, C28 fix) -/
def entryOf (ps : Parsed) (a : Ate) : Option Resolve.Entry :=
  match a.e.body with
  | .simple v => (itemOf ps v).map .simple
  | .compact t d => (itemOf ps (t, d)).map .simple
  | .complex _ items => (itemsOfL ps items).map .complex

/-- configuration keys: 0 = default configuration, others numbered in order of first appearance -/
def cfgKeys (an : Analysed) : List ConfigWords :=
  ([0, 0, 0, 0, 0, 0, 0, 0, 0] :: (an.resourceValues.flatMap fun p => p.2.map (·.1))).eraseDups

def cfgKey (keys : List ConfigWords) (c : ConfigWords) : Nat := keys.idxOf c

def optsOf (ps : Parsed) (keys : List ConfigWords) :
    List (ConfigWords × Ate) → Option (List (Resolve.Config × Resolve.Entry))
  | [] => some []
  | (c, a) :: r => do
    let e ← entryOf ps a
    let rest ← optsOf ps keys r
    pure ((cfgKey keys c, e) :: rest)

def resOf (ps : Parsed) (keys : List ConfigWords) :
    List (Nat × List (ConfigWords × Ate)) → Option (List (Nat × List (Resolve.Config × Resolve.Entry)))
  | [] => some []
  | (rid, opts) :: r => do
    let o ← optsOf ps keys opts
    let rest ← resOf ps keys r
    pure ((rid, o) :: rest)

/-- `resource_values` as the abstract table of Model/Resolve.lean -/
def resolveTable (ps : Parsed) (an : Analysed) : Option Resolve.Table :=
  (resOf ps (cfgKeys an) an.resourceValues).map Resolve.Table.mk

end AgVerif.Arsc
