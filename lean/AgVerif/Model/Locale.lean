/-
Model of androguard/core/axml/__init__.py, class ARSCResTableConfig:
`_unpack_language_or_region`, `_pack_language_or_region`, `set_language_and_region`,
`get_language_and_region`  (with fixes/C30-pack-three-letter-locale.diff applied).
(imports nothing)

Python strings are lists of code points (`List Nat`); `ord`/`chr` are the identity.
Python's unbounded `int` is `Nat`/`Int`; `x & 0x7F` on a possibly negative `int` is the
floor remainder `x % 128` (Lean's `Int` `%` with a positive divisor).
`self.locale` is a `Nat` (an unsigned 32-bit word when it comes from a file).
-/
namespace AgVerif.Locale

/-- `_unpack_language_or_region(char_in=[c0,c1], char_base)` -/
def unpack (c0 c1 base : Nat) : List Nat :=
  if c0 &&& 0x80 ≠ 0 then
    let first := c1 &&& 0x1F
    let second := ((c1 &&& 0xE0) >>> 5) + ((c0 &&& 0x03) <<< 3)
    let third := (c0 &&& 0x7C) >>> 2
    [first + base, second + base, third + base]
  else
    (if c0 ≠ 0 then [c0] else []) ++ (if c1 ≠ 0 then [c1] else [])

/-- `(ord(ch) - char_base) & 0x7F` with Python integers -/
def sub7 (ch base : Nat) : Nat := (((ch : Int) - (base : Int)) % 128).toNat

/-- `_pack_language_or_region(char_in, char_base)`: two characters are stored as they are,
    three characters are packed as 5-bit offsets from `char_base`, anything else is `[0, 0]`. -/
def pack (s : List Nat) (base : Nat) : Nat × Nat :=
  match s with
  | [a, b] => (a, b)
  | [a, b, c] =>
    let first := sub7 a base
    let second := sub7 b base
    let third := sub7 c base
    ((0x80 ||| (third <<< 2) ||| (second >>> 3)) &&& 0xFF, ((second <<< 5) ||| first) &&& 0xFF)
  | _ => (0, 0)

/-- Python `s.split("-r")` (leftmost, non-overlapping); `cur` is the current piece, reversed. -/
def splitAux : List Nat → List Nat → List (List Nat)
  | [], cur => [cur.reverse]
  | [c], cur => [(c :: cur).reverse]
  | c :: d :: rest, cur =>
    if c = 45 ∧ d = 114 then cur.reverse :: splitAux rest []
    else splitAux (d :: rest) (c :: cur)

def splitDashR (s : List Nat) : List (List Nat) := splitAux s []

/-- `set_language_and_region(language_region)`: the new value of `self.locale` -/
def setLocale (s : List Nat) : Nat :=
  -- `language, region = s.split("-r")` raises ValueError unless there are exactly two pieces
  let lr : List Nat × Option (List Nat) :=
    match splitDashR s with
    | [l, r] => (l, some r)
    | _ => (s, none)
  let lb := pack lr.1 97
  let rb : Nat × Nat :=
    match lr.2 with
    | some r => if r ≠ [] then pack r 48 else (0, 0)      -- `if region:`
    | none => (0, 0)
  lb.1 ||| (lb.2 <<< 8) ||| (rb.1 <<< 16) ||| (rb.2 <<< 24)

/-- `get_language_and_region()` for `self.locale = loc` -/
def getLocale (loc : Nat) : List Nat :=
  if loc ≠ 0 then
    let l := unpack (loc &&& 0xFF) ((loc &&& 0xFF00) >>> 8) 97
    let r := unpack ((loc &&& 0xFF0000) >>> 16) ((loc &&& 0xFF000000) >>> 24) 48
    if r ≠ [] then l ++ [45, 114] ++ r else l
  else [0, 0]

end AgVerif.Locale
