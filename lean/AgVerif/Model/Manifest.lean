/-
Model of the manifest queries of androguard/core/apk/__init__.py over the abstract XML tree of Model/Axml.lean
(`APK._apk_analysis`, `_format_value`, `find_tags`/`find_tags_from_xml`, `get_all_attribute_value`,
`get_attribute_value`, `get_value_from_tag`, `_get_permission_maxsdk`, `get_main_activities`,
`get_main_activity`, `get_effective_target_sdk_version`, the component / permission / feature / library getters).

Where the code goes through a Python `set` of lxml elements the iteration order is arbitrary; the model returns
the elements in document order and the harness compares such results as sorted lists.  `get_attribute_value`
returns the first value of such an iteration: the model reports `ambiguous` when two candidates differ.
-/
import AgVerif.Model.Axml
namespace AgVerif.Manifest
open AgVerif.Axml AgVerif.Gen.AxmlConsts

def nsAndroid : Str := lit NS_ANDROID_URI

/-- an element of the tree -/
structure El where
  tag : Str
  ns : Str
  attrs : List Attr
  kids : List Node

def elOf : Node → Option El
  | .elem t n a k => some ⟨t, n, a, k⟩
  | .text _ => none

mutual
/-- all elements below a node, document order (`.//*`) -/
def descNode : Node → List El
  | .elem t n a k => ⟨t, n, a, k⟩ :: descList k
  | .text _ => []
def descList : List Node → List El
  | [] => []
  | n :: r => descNode n ++ descList r
end

/-- `el.findall(".//" + name)`: descendants (not the element itself) without namespace and with that name -/
def findall (e : El) (name : Str) : List El := (descList e.kids).filter fun d => d.ns.isEmpty && d.tag == name

def findallNs (e : El) (ns name : Str) : List El := (descList e.kids).filter fun d => d.ns == ns && d.tag == name

/-- `el.get(key)` -/
def getAttr (e : El) (ns name : Str) : Option Str := (e.attrs.find? fun a => a.ns == ns && a.name == name).map (·.value)

/-- `find_tags_from_xml(i, tag_name)` without attribute filter -/
def findTags (root : Option El) (name : Str) : List El :=
  match root with
  | none => []
  | some r =>
    -- `xml.tag == tag_name` compares the Clark name: only an element without namespace can be equal
    if r.ns.isEmpty && r.tag == name then [r]
    else findall r name ++ findallNs r nsAndroid name

/-- `tag.get(self._ns(attribute)) or tag.get(attribute)` -/
def attrOr (e : El) (name : Str) : Option Str :=
  match getAttr e nsAndroid name with
  | some v => if v.isEmpty then getAttr e [] name else some v
  | none => getAttr e [] name

/-- `get_value_from_tag(tag, attribute)`: namespaced first, bare only when the namespaced one is absent -/
def valueFromTag (e : El) (name : Str) : Option Str :=
  match getAttr e nsAndroid name with
  | some v => some v
  | none => getAttr e [] name

/-- `str.find(".")` -/
def findDot : Str → Option Nat
  | [] => none
  | c :: r => if c = 0x2E then some 0 else (findDot r).map (· + 1)

/-- `_format_value(value)` with `self.package = pkg` (`none` = Python `None`) -/
def formatValue (pkg : Option Str) (value : Str) : Str :=
  match pkg with
  | none => value
  | some p =>
    if value.isEmpty ∨ p.isEmpty then value else
    match findDot value with
    | some 0 => p ++ value
    | none => p ++ [0x2E] ++ value
    | some _ => value

/-- `list(get_all_attribute_value(tag, attr, format_value))` (document order) -/
def allAttrValues (root : Option El) (pkg : Option Str) (tag attr : Str) (complete : Bool) : List Str :=
  (findTags root tag).filterMap fun e => (attrOr e attr).map fun v => if complete then formatValue pkg v else v

inductive First where
  | none            -- Python `None`
  | val (s : Str)
  | ambiguous       -- the result depends on set iteration order
  deriving DecidableEq

/-- `get_attribute_value(tag, attr)` (format_value=False): the first value of the iteration -/
def firstAttrValue (root : Option El) (tag attr : Str) : First :=
  match allAttrValues root none tag attr false with
  | [] => .none
  | v :: r => if r.all (· == v) then .val v else .ambiguous

def dedup : List Str → List Str
  | [] => []
  | x :: r => if r.contains x then dedup r else x :: dedup r

/-! ### Python `int(str)` on ASCII strings -/

def isDigit (c : Nat) : Bool := 0x30 ≤ c && c ≤ 0x39

/-- digits with single underscores between digits -/
def digitsVal : Str → Nat → Bool → Option Nat
  | [], acc, prevDigit => if prevDigit then some acc else none
  | c :: r, acc, prevDigit =>
    if isDigit c then digitsVal r (acc * 10 + (c - 0x30)) true
    else if c = 0x5F ∧ prevDigit ∧ (r.head?.any isDigit) then digitsVal r acc false
    else none

inductive PyInt where
  | ok (v : Int)
  | valueError
  | unmodelled      -- non-ASCII characters (Unicode digits / spaces)
  deriving DecidableEq

def dropWhileEnd (p : Nat → Bool) (s : Str) : Str := (s.reverse.dropWhile p).reverse

/-- C `isspace` (what `int()` skips around an ASCII string) -/
def intSpace (c : Nat) : Bool := c = 0x20 || (9 ≤ c && c ≤ 13)

/-- `int(s)` for a `str` -/
def pyInt (s : Str) : PyInt :=
  if s.any (· ≥ 0x80) then .unmodelled else
  let t := dropWhileEnd intSpace (s.dropWhile intSpace)
  let (neg, d) := match t with
    | 0x2D :: r => (true, r)
    | 0x2B :: r => (false, r)
    | _ => (false, t)
  match d with
  | [] => .valueError
  | _ => match digitsVal d 0 false with
    | some v => .ok (if neg then -(v : Int) else v)
    | none => .valueError

/-! ### the analysis -/

structure Analysis where
  root : Option El          -- `self.xml["AndroidManifest.xml"]` when it is a `<manifest>` tree … see `analyse`
  isManifest : Bool         -- the root tag is "manifest": package / versions / permissions were filled in
  package : Option Str      -- `self.package` ("" initially; Python None when the attribute is missing)
  versionCode : First
  versionName : First
  permissions : List Str    -- `self.permissions` (a `list(set(...))`: no duplicates, arbitrary order)
  usesPermissions : List (Option Str × Option PyInt)

/-- `_get_permission_maxsdk(item)`: `none` = Python None (absent or not an integer) -/
def permissionMaxSdk (e : El) : Option PyInt :=
  match valueFromTag e (lit attrMaxSdk) with
  | none => none
  | some v => match pyInt v with
    | .ok i => some (.ok i)
    | .valueError => none
    | .unmodelled => some .unmodelled

/-- `_apk_analysis` given `get_xml_obj()` of a valid manifest (`none`: not valid, or no root element) -/
def analyse (xml : Option Node) : Analysis :=
  let root := xml.bind elOf
  match root with
  | none => ⟨none, false, some [], .none, .none, [], []⟩
  | some r =>
    if !(r.ns.isEmpty && r.tag == lit tagManifest) then ⟨root, false, some [], .none, .none, [], []⟩ else
    let pkg : Option Str := match firstAttrValue root (lit tagManifest) (lit attrPackage) with
      | .val s => some s
      | _ => none
    let perms := dedup (allAttrValues root pkg (lit tagUsesPermission) (lit attrName) completePermissions)
    let uses := (findTags root (lit tagUsesPermission)).map fun e => (valueFromTag e (lit attrName), permissionMaxSdk e)
    ⟨root, true, pkg, firstAttrValue root (lit tagManifest) (lit attrVersionCode),
      firstAttrValue root (lit tagManifest) (lit attrVersionName), perms, uses⟩

def Analysis.components (a : Analysis) (tag : String) (complete : Bool) : List Str :=
  allAttrValues a.root a.package (lit tag) (lit attrName) complete

def Analysis.activities (a : Analysis) := a.components tagActivity completeActivities
def Analysis.services (a : Analysis) := a.components tagService completeServices
def Analysis.receivers (a : Analysis) := a.components tagReceiver completeReceivers
def Analysis.providers (a : Analysis) := a.components tagProvider completeProviders
def Analysis.libraries (a : Analysis) := a.components tagUsesLibrary completeLibraries
def Analysis.features (a : Analysis) := a.components tagUsesFeature completeFeatures

def Analysis.sdk (a : Analysis) (attr : String) : First := firstAttrValue a.root (lit tagUsesSdk) (lit attr)

/-- `get_effective_target_sdk_version()` -/
def Analysis.effectiveTarget (a : Analysis) : Option PyInt :=
  let pick : First → Option (Option Str) := fun f => match f with
    | .none => some none | .val s => some (some s) | .ambiguous => none
  match pick (a.sdk attrTargetSdk) with
  | none => none
  | some t =>
    let useMin := match t with | none => true | some s => s.isEmpty
    let chosen : Option (Option Str) := if useMin then pick (a.sdk attrMinSdk) else some t
    match chosen with
    | none => none
    | some none => some (.ok 1)            -- int(None) raises TypeError -> 1
    | some (some s) => match pyInt s with
      | .ok v => some (.ok v)
      | .valueError => some (.ok 1)
      | .unmodelled => some .unmodelled

/-- does `load_api_specific_resource_module("aosp_permissions", api)` raise?  (`int(apilevel)` on a truthy value);
    `none`: not determined by the model -/
def apiLoadRaises : First → Option Bool
  | .none => some false
  | .ambiguous => none
  | .val s =>
    if s.isEmpty then some false else
    match pyInt s with
    | .ok _ => some false
    | .valueError => some true
    | .unmodelled => none

/-- does `APK.__init__` raise `ValueError` at the end of `_apk_analysis`?  (not reached when the root is not `<manifest>`) -/
def Analysis.ctorRaises (a : Analysis) : Option Bool :=
  if a.root.isSome && !a.isManifest then some false else
  match apiLoadRaises (a.sdk attrTargetSdk) with
  | some true => some true
  | some false => apiLoadRaises (a.sdk attrMinSdk)
  | none => none

/-- `get_main_activities()` (a set; document order here, without duplicates) -/
def Analysis.mainActivities (a : Analysis) : List Str :=
  match a.root with
  | none => []
  | some r =>
    let items := findall r (lit tagActivity) ++ findall r (lit tagActivityAlias)
    let live := items.filter fun it => getAttr it nsAndroid (lit attrEnabled) != some (lit valFalse)
    let named (sub : String) (want : String) : List Str :=
      live.flatMap fun it =>
        (findall it (lit sub)).filterMap fun s =>
          if getAttr s nsAndroid (lit attrName) == some (lit want) then attrOr it (lit attrName) else none
    let x := named tagAction actionMain
    let y := named tagCategory categoryLauncher
    dedup (x.filter fun n => y.contains n)

def strLt : Str → Str → Bool
  | [], [] => false
  | [], _ => true
  | _, [] => false
  | a :: r, b :: q => a < b || (a == b && strLt r q)

def minStr : List Str → Option Str
  | [] => none
  | x :: r => match minStr r with
    | none => some x
    | some m => if strLt m x then some m else some x

/-- `get_main_activity()` -/
def Analysis.mainActivity (a : Analysis) : Option Str :=
  match a.mainActivities with
  | [] => none
  | [x] => some (formatValue a.package x)
  | xs =>
    let main := dedup (xs.map (formatValue a.package))
    let acts := a.activities
    match minStr (main.filter fun m => acts.contains m) with
    | some g => some g
    | none => minStr main

/-- from the bytes of AndroidManifest.xml: the printer (`AXMLPrinter(data)`, `is_valid()`, `get_xml_obj()`; C26) followed by
    `_apk_analysis` — what `APK.__init__` does once apkInspector has read the entry from the archive.  `opq` renders floats,
    dimensions and fractions (C27). -/
def analyseFile (opq : Nat → Nat → Str) (b : Bytes) : Except String Analysis :=
  match printAxml opq b with
  | .error e => .error e
  | .ok (valid, t) => .ok (analyse (if valid then t else none))

end AgVerif.Manifest
