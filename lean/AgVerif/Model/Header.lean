/-
Model of androguard/core/dex/__init__.py: `HeaderItem.__init__` (the part that can raise),
`DalvikPacker.__init__`, `zlib.adler32`, and the first step of `DEX._load`.
Imports only the vocabulary and the constants/order generated from the source.

A file is a `List Nat` of bytes (theorems and driver supply `< 256`).  `HeaderItem` is always
constructed by `DEX._load` on a fresh reader, so `self.offset = buff.tell() = 0`.
The guards run in the order in which they stand in the source (`Gen.Header.checkOrder`);
in particular the endian tag at offset 40 is read and judged BEFORE the magic and the checksum.
Warnings (version digits of the magic, `file_size`, `data_size % 4`) do not raise and are not
part of the model's result.
-/
import AgVerif.Model.HeaderTypes
import AgVerif.Gen.Header
namespace AgVerif.Header
open AgVerif.Gen.Header

/-! ### zlib.adler32 (RFC 1950): two running sums modulo 65521, start value 1 -/

def adlerStep (s : Nat × Nat) (x : Nat) : Nat × Nat :=
  ((s.1 + x) % 65521, (s.2 + (s.1 + x) % 65521) % 65521)

def adlerState (bs : List Nat) : Nat × Nat := bs.foldl adlerStep (1, 0)

/-- `zlib.adler32(bytes)`: `(b << 16) | a`, an unsigned 32-bit number -/
def adler32 (bs : List Nat) : Nat :=
  let s := adlerState bs
  s.2 * 65536 + s.1

/-! ### struct: little-endian unsigned 32-bit read at a byte offset (`none` = struct.error) -/

def le32 (b0 b1 b2 b3 : Nat) : Nat := b0 + 256 * b1 + 65536 * b2 + 16777216 * b3

def u32At (f : List Nat) (off : Nat) : Option Nat :=
  match f[off]?, f[off + 1]?, f[off + 2]?, f[off + 3]? with
  | some b0, some b1, some b2, some b3 => some (le32 b0 b1 b2 b3)
  | _, _, _, _ => none

/-! ### DalvikPacker.__init__ : first branch whose constant equals the tag -/

def endianAction (tag : Nat) : List (Nat × EndianAction) → EndianAction
  | [] => endianElse
  | (c, a) :: rest => if tag = c then a else endianAction tag rest

/-! ### the magic test -/

def MagicClause.raises (m : List Nat) : MagicClause → Bool
  | .sliceNe lo hi v => decide ((m.drop lo).take (hi - lo) ≠ v)
  | .byteNotIn i vs => match m[i]? with
    | some b => !(vs.contains b)
    | none => true                         -- IndexError: cannot happen after the 8s unpack

/-- the 8 bytes `self.magic` -/
def magicOf (f : List Nat) : List Nat := (f.drop magicOff).take magicLen

/-! ### one guard -/

/-- compare an unpacked 32-bit field with a constant; a missing field is a `struct.error` -/
def fieldGuard (f : List Nat) (off : Nat) (cmp : Cmp) (c : Nat) (e : Err) : Except Err Unit :=
  match u32At f off with
  | none => .error .structError
  | some v => if cmp.eval v c then .error e else .ok ()

def runCheck (f : List Nat) : Check → Except Err Unit
  | .size => if sizeCmp.eval f.length headerLength then .error .tooShort else .ok ()
  | .endian =>
    match u32At f endianOff with
    | none => .error .structError
    | some tag =>
      match endianAction tag endianCases with
      | .notImplemented => .error .endianSwapped
      | .valueError => .error .badEndian
      | .little => .ok ()
  | .unpack => if f.length < fmtSize ∨ unpackSize ≠ fmtSize then .error .structError else .ok ()
  | .magic => if magicClauses.any (MagicClause.raises (magicOf f)) then .error .badMagic else .ok ()
  | .checksum =>
    match u32At f checksumOff with
    | none => .error .structError
    | some stored =>
      if checksumCmp.eval (adler32 (f.drop checksumStart)) stored then .error .badChecksum else .ok ()
  | .headerSize => fieldGuard f headerSizeOff headerSizeCmp headerSizeConst .badHeaderSize
  | .typeIds => fieldGuard f typeIdsOff typeIdsCmp typeIdsConst .tooManyTypes
  | .protoIds => fieldGuard f protoIdsOff protoIdsCmp protoIdsConst .tooManyProtos

/-- run guards in order; the first error wins -/
def runAll (f : List Nat) : List Check → Except Err Unit
  | [] => .ok ()
  | c :: cs =>
    match runCheck f c with
    | .error e => .error e
    | .ok () => runAll f cs

/-- `HeaderItem.__init__` as far as raising is concerned -/
def headerCheck (f : List Nat) : Except Err Unit := runAll f checkOrder

/-- `DEX._load`: the header first; only when it is accepted does anything else (`parse`: map list
    and every structure it reaches) run. -/
def load {α : Type} (parse : List Nat → Except Err α) (f : List Nat) : Except Err α :=
  match headerCheck f with
  | .error e => .error e
  | .ok () => parse f

/-! ### names for the driver -/

def Err.name : Err → String
  | .tooShort => "too-short"
  | .endianSwapped => "endian-swapped"
  | .badEndian => "bad-endian"
  | .structError => "struct-error"
  | .badMagic => "bad-magic"
  | .badChecksum => "bad-checksum"
  | .badHeaderSize => "bad-header-size"
  | .tooManyTypes => "too-many-types"
  | .tooManyProtos => "too-many-protos"

/-- exception class of an error (generated from the `raise` statements) -/
def Err.exc : Err → String
  | .tooShort => excName .size
  | .endianSwapped => "NotImplementedError"
  | .badEndian => "ValueError"
  | .structError => "error"
  | .badMagic => excName .magic
  | .badChecksum => excName .checksum
  | .badHeaderSize => excName .headerSize
  | .tooManyTypes => excName .typeIds
  | .tooManyProtos => excName .protoIds

end AgVerif.Header
