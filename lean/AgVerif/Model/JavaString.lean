/-
Model of `androguard/decompiler/writer.py: string()` and of the string branch of
`Writer.visit_constant`, transliterated line by line (with the surrogate-pair fix, fixes/C23-*.diff).
A Python `str` is a list of code points (naturals < 0x110000, surrogate code points included);
the result is the list of code points of the returned `str`.
Every literal of `string()` (bounds, quote characters, named escapes, surrogate constants, shifts, masks, prefixes)
comes from the generated module `AgVerif.Gen.JString`; gen/jstring.py also pins the SHAPE of the function (a
per-character loop, four `'%x'` nibbles, pieces joined with '', no pass over the joined result).
Imports only the generated constants.
-/
import AgVerif.Gen.JString
namespace AgVerif.JavaString
open AgVerif.Gen.JString

/-- one lower-case hex digit -/
def hexNib (n : Nat) : Nat := if n < 10 then 0x30 + n else 0x57 + n

/-- Python `'%x' % n` for `n ≥ 0`: lower-case hexadecimal, no padding -/
def hexDigits (n : Nat) : List Nat :=
  if n < 16 then [hexNib n] else hexDigits (n / 16) ++ [hexNib (n % 16)]
termination_by n
decreasing_by omega

/-- Python `c.encode('unicode-escape').decode('ascii')` for an ASCII character `c` (≤ 0x7f):
    `\t \n \r \\` are named escapes, printable characters are themselves, the rest is `\xNN`.
    (`string()` reaches it only for `\r \n \t`.) -/
def pyUnicodeEscape (c : Nat) : List Nat :=
  if c = 0x09 then [0x5c, 0x74]
  else if c = 0x0a then [0x5c, 0x6e]
  else if c = 0x0d then [0x5c, 0x72]
  else if c = 0x5c then [0x5c, 0x5c]
  else if 0x20 ≤ c ∧ c < 0x7f then [c]
  else [0x5c, 0x78, hexNib (c / 16), hexNib (c % 16)]

/-- the four `ret.append` lines: `\u`, `'%x' % (i >> 12)`, and three masked nibbles -/
def uEscape (i : Nat) : List Nat :=
  uPrefix ++ hexDigits (i >>> shift1) ++ hexDigits ((i >>> shift2) &&& mask2)
    ++ hexDigits ((i >>> shift3) &&& mask3) ++ hexDigits (i &&& mask4)

/-- `units`: the tuple the `\u` loop runs over -/
def units (i : Nat) : List Nat :=
  if i ≥ suppMin then
    let j := i - suppSub
    [hiBase + (j >>> hiShift), loBase + (j &&& loMask)]
  else [i]

/-- the body of the `for c in s` loop: what is appended for one character -/
def escChar (c : Nat) : List Nat :=
  if printLo ≤ c ∧ c < printHi then                          -- ' ' <= c < '\x7f'
    if c = quote1 ∨ c = quote2 ∨ c = quote3 then escPrefix ++ [c]   -- ' " \  get a backslash
    else [c]
  else if c ≤ asciiHi ∧ named.contains c = true then         -- elif c <= '\x7f': if c in ('\r', '\n', '\t'):
    pyUnicodeEscape c
  else (units c).flatMap uEscape

/-- `string(s)` -/
def escape (s : List Nat) : List Nat := openQuote ++ s.flatMap escChar ++ closeQuote

/-- `Writer.visit_constant(cst)` for a `str` constant: what is written to the output -/
def visitConstantStr (s : List Nat) : List Nat := escape s

/-- the loop body before the fix (one `\u` escape per code point); kept to state the defect -/
def escCharUnfixed (c : Nat) : List Nat :=
  if 0x20 ≤ c ∧ c < 0x7f then
    if c = 0x27 ∨ c = 0x22 ∨ c = 0x5c then [0x5c, c] else [c]
  else if c ≤ 0x7f ∧ (c = 0x0d ∨ c = 0x0a ∨ c = 0x09) then pyUnicodeEscape c
  else uEscape c

def escapeUnfixed (s : List Nat) : List Nat := [0x22] ++ s.flatMap escCharUnfixed ++ [0x22]

end AgVerif.JavaString
