/-
Model of androguard/core/dex/__init__.py (with fixes/C04-encoded-value-sign.diff applied):
  EncodedValue.__init__ / _getintvalue / _getfloatvalue, EncodedArray.__init__,
  EncodedAnnotation.__init__, AnnotationElement.__init__, ClassDataItem.set_static_fields,
and of androguard/decompiler/decompile.py: get_field_init_literal (the non-String branch of the field
initialiser printing of DvClass.get_source).

Bytes are `Nat` (the driver and the theorems supply `< 256`).  `buff.read(n)` on a short buffer returns
what is left (`List.take`), it is *not* an error; `get_byte`/`get_sbyte`/`readuleb128` on an exhausted
buffer raise `struct.error` (`Err.struct`).  Python integers are `Int`/`Nat`.
The dispatch on the value type goes through the generated table `Gen.ValueTypes.dispatch`.
`cm.get_raw_string / get_type / get_field / get_method` are calls out of the anchored code: parameters.
-/
import AgVerif.Model.Leb
import AgVerif.Model.EncodedValueKinds
import AgVerif.Gen.ValueTypes
import AgVerif.Model.JavaString
namespace AgVerif.EncodedValue
open AgVerif.Leb AgVerif.Gen.ValueTypes

inductive Err
  | struct      -- struct.error: a one-byte read on an exhausted buffer
  | fuel        -- not a behaviour of the code: the recursion bound of the model was too small
  deriving DecidableEq, Repr

/-- the ClassManager lookups EncodedValue calls -/
structure CM where
  rawString : Nat → String
  type : Nat → String
  field : Nat → List String
  method : Nat → List String

/-- `EncodedValue.value` (tagged with the value type where Python's value alone would be ambiguous) -/
inductive Value
  | int (vt : Nat) (v : Int)               -- Python int
  | float (bits : Nat)                     -- Python float made from this 32-bit IEEE pattern
  | double (bits : Nat)                    -- Python float made from this 64-bit IEEE pattern
  | ref (vt : Nat) (item : List String)    -- what cm.get_* returned (a str is a one-element list)
  | array (vs : List Value)                -- EncodedArray.values
  | annotation (typeIdx : Nat) (elems : List (Nat × Value))   -- EncodedAnnotation: (name_idx, value)
  | null
  | bool (b : Bool)
  | unknown (vt : Nat)                     -- value "" of an unknown type

/-- the loop of `_getintvalue`: `ret |= b << shift; shift += 8` -/
def getIntLoop : List Nat → Nat → Nat → Nat × Nat
  | [], ret, shift => (ret, shift)
  | b :: bs, ret, shift => getIntLoop bs (ret ||| (b <<< shift)) (shift + 8)

/-- `_getintvalue(buf, signed)` -/
def getIntValue (buf : List Nat) (signed : Bool) : Int :=
  let r := getIntLoop buf 0 0
  if signed && r.2 != 0 && (r.1 >>> (r.2 - 1)) != 0 then (r.1 : Int) - ((1 <<< r.2 : Nat) : Int)
  else (r.1 : Int)

/-- `_getintvalue(buf)` as a natural number (unsigned) -/
def getIntNat (buf : List Nat) : Nat := (getIntLoop buf 0 0).1

/-- `_getfloatvalue(buf, size)`: the bit pattern `(b'\x00' * size + buf)[-size:]` read little-endian
    (struct.unpack turns it into a Python float; the model keeps the pattern) -/
def getFloatBits (buf : List Nat) (size : Nat) : Nat :=
  let p := List.replicate size 0 ++ buf
  getIntNat (p.drop (p.length - size))

/-- `[X(buff, cm) for _ in range(n)]`: `dec` reads one element and says how many bytes it took -/
def decodeMany {α : Type} (dec : List Nat → Except Err (α × Nat)) :
    Nat → List Nat → Except Err (List α × Nat)
  | 0, _ => .ok ([], 0)
  | n + 1, bs =>
    match dec bs with
    | .error e => .error e
    | .ok (v, k) =>
      match decodeMany dec n (bs.drop k) with
      | .error e => .error e
      | .ok (vs, k') => .ok (v :: vs, k + k')

def kindOf (vt : Nat) : Kind :=
  match dispatch[vt]? with
  | some k => k
  | none => .unknown

/-- `AnnotationElement(buff, cm)`: name_idx = readuleb128; value = EncodedValue(buff, cm) -/
def decodeElem (dec : List Nat → Except Err (Value × Nat)) (bs : List Nat) :
    Except Err ((Nat × Value) × Nat) :=
  match readUleb bs with
  | none => .error .struct
  | some (name, kn) =>
    match dec (bs.drop kn) with
    | .error e => .error e
    | .ok (v, kv) => .ok ((name, v), kn + kv)

/-- the body of `EncodedValue.__init__` after the header byte `val` has been read; `rest` is the
    buffer behind it, `dec` is `EncodedValue(buff, cm)` for the nested values -/
def decodeStep (cm : CM) (dec : List Nat → Except Err (Value × Nat)) (val : Nat) (rest : List Nat) :
    Except Err (Value × Nat) :=
  let arg := val >>> argShift
  let vt := val &&& typeMask
  let buf := rest.take (arg + 1)
  match kindOf vt with
  | .intS => .ok (.int vt (getIntValue buf true), 1 + buf.length)
  | .intU => .ok (.int vt (getIntValue buf false), 1 + buf.length)
  | .float32 => .ok (.float (getFloatBits buf 4), 1 + buf.length)
  | .float64 => .ok (.double (getFloatBits buf 8), 1 + buf.length)
  | .str => .ok (.ref vt [cm.rawString (getIntNat buf)], 1 + buf.length)
  | .type => .ok (.ref vt [cm.type (getIntNat buf)], 1 + buf.length)
  | .field => .ok (.ref vt (cm.field (getIntNat buf)), 1 + buf.length)
  | .method => .ok (.ref vt (cm.method (getIntNat buf)), 1 + buf.length)
  | .array =>
    -- EncodedArray: size = readuleb128; values = [EncodedValue(buff, cm) for _ in range(size)]
    match readUleb rest with
    | none => .error .struct
    | some (size, k) =>
      match decodeMany dec size (rest.drop k) with
      | .error e => .error e
      | .ok (vs, k') => .ok (.array vs, 1 + k + k')
  | .annotation =>
    -- EncodedAnnotation: type_idx, size = readuleb128 twice; elements = [AnnotationElement …]
    match readUleb rest with
    | none => .error .struct
    | some (typeIdx, k0) =>
      match readUleb (rest.drop k0) with
      | none => .error .struct
      | some (size, k1) =>
        match decodeMany (decodeElem dec) size (rest.drop (k0 + k1)) with
        | .error e => .error e
        | .ok (es, k') => .ok (.annotation typeIdx es, 1 + k0 + k1 + k')
  | .sbyte =>
    match rest with
    | [] => .error .struct
    | b :: _ => .ok (.int vt (if b > 127 then (b : Int) - 256 else (b : Int)), 2)
  | .ubyte =>
    match rest with
    | [] => .error .struct
    | b :: _ => .ok (.int vt (b : Int), 2)
  | .null => .ok (.null, 1)
  | .bool => .ok (.bool (arg != 0), 1)
  | .unknown => .ok (.unknown vt, 1)

/-- `EncodedValue(buff, cm)`: value and number of bytes consumed.  The first argument bounds the
    nesting depth (every nested value is preceded by at least one byte, see `decode`). -/
def decodeValue (cm : CM) : Nat → List Nat → Except Err (Value × Nat)
  | 0, _ => .error .fuel
  | _ + 1, [] => .error .struct          -- get_byte on an exhausted buffer
  | f + 1, val :: rest => decodeStep cm (decodeValue cm f) val rest

/-- `EncodedValue(buff, cm)` on a buffer positioned at `bs` -/
def decode (cm : CM) (bs : List Nat) : Except Err (Value × Nat) := decodeValue cm (bs.length + 1) bs

/-- `EncodedArray(buff, cm)` (the static values of a class): values and bytes consumed -/
def decodeArray (cm : CM) (bs : List Nat) : Except Err (List Value × Nat) :=
  match readUleb bs with
  | none => .error .struct
  | some (size, k) =>
    match decodeMany (decodeValue cm (bs.length + 1)) size (bs.drop k) with
    | .error e => .error e
    | .ok (vs, k') => .ok (vs, k + k')

/-! ### ClassDataItem.set_static_fields -/

/-- `for i in range(0, len(values)): self.static_fields[i].set_init_value(values[i])` -/
def bindLoop {α : Type} : List α → Nat → List (Option α) → List (Option α)
  | [], _, fields => fields
  | v :: vs, i, fields => bindLoop vs (i + 1) (fields.set i (some v))

/-- `set_static_fields(value)`: `fields` are the init values of `self.static_fields` before the call;
    `value` is `None` or the list `value.get_values()` -/
def bindStatics {α : Type} (value : Option (List α)) (fields : List (Option α)) : List (Option α) :=
  match value with
  | none => fields
  | some vs => if vs.length ≤ fields.length then bindLoop vs 0 fields else fields

/-! ### get_field_init_literal (decompile.py) -/

def digitChar (d : Nat) : Char :=
  if d < 10 then Char.ofNat (d + 48) else Char.ofNat (d - 10 + 97)

/-- digits of `n` in base `b`, most significant first, in front of `acc`
    (`fuel` ≥ `n` is always enough) -/
def digitsBE (b : Nat) : Nat → Nat → List Nat → List Nat
  | 0, n, acc => (n % b) :: acc
  | fuel + 1, n, acc => if n < b then n :: acc else digitsBE b fuel (n / b) ((n % b) :: acc)

/-- Python `str(n)` / `'%d' % n` for `n ≥ 0` in base 10, `hex(n)[2:]` in base 16 -/
def natStr (b : Nat) (n : Nat) : List Char := (digitsBE b n n []).map digitChar

/-- Python `str(v)` -/
def pyDec (v : Int) : List Char :=
  if v < 0 then '-' :: natStr 10 v.natAbs else natStr 10 v.natAbs

/-- Python `hex(v)` -/
def pyHex (v : Int) : List Char :=
  if v < 0 then '-' :: '0' :: 'x' :: natStr 16 v.natAbs else '0' :: 'x' :: natStr 16 v.natAbs

/-- the Python float unpacked from this pattern is a NaN -/
def pyIsNaN32 (b : Nat) : Bool := (b >>> 23) &&& 0xff == 0xff && b &&& 0x7fffff != 0
def pyIsNaN64 (b : Nat) : Bool := (b >>> 52) &&& 0x7ff == 0x7ff && b &&& 0xfffffffffffff != 0

def floatSpecial (proto : String) (nan posInf negInf : Bool) : Option (List Char) :=
  let box := if proto = "F" then "Float".toList else "Double".toList
  if nan then some (box ++ ".NaN".toList)
  else if posInf then some (box ++ ".POSITIVE_INFINITY".toList)
  else if negInf then some (box ++ ".NEGATIVE_INFINITY".toList)
  else none

/-- `get_field_init_literal(proto, value)` for the values whose text is modelled (None, bool, int, non-finite
    float); finite floats go through Python's `repr`, strings/lists/objects through `str`: not modelled
    (`none`). -/
def printInit (proto : String) : Value → Option (List Char)
  | .null => some "null".toList
  | .bool b => some (if b then "true".toList else "false".toList)
  | .int _ v =>
    if proto = "B" then some (pyHex v)
    else if proto = "J" then some (pyDec v ++ ['L'])
    else some (pyDec v)
  -- isinstance(value, float): `value != value` -> box.NaN, ±inf -> box.POSITIVE/NEGATIVE_INFINITY with
  -- box = 'Float' if proto == 'F' else 'Double'; finite values go through repr(): not modelled
  | .float b => floatSpecial proto (pyIsNaN32 b) (b == 0x7f800000) (b == 0xff800000)
  | .double b => floatSpecial proto (pyIsNaN64 b) (b == 0x7ff0000000000000) (b == 0xfff0000000000000)
  | _ => none

/-! ### the String branch of the field initialiser printing (DvClass.get_source / get_source_ext)
now `string(str(value))`; before the fix `'"%s"' % str(value).encode("unicode-escape").decode("ascii")`
(`'""'` for the empty string), whose codec is modelled by `pyEscapeChar`.
A Python `str` is a list of code points (surrogate code points included). -/

def hexNibble (n : Nat) : Nat := if n < 10 then 0x30 + n else 0x57 + n

/-- CPython's `unicode-escape` codec for one code point -/
def pyEscapeChar (c : Nat) : List Nat :=
  if c = 0x09 then [0x5c, 0x74]                 -- \t
  else if c = 0x0a then [0x5c, 0x6e]            -- \n
  else if c = 0x0d then [0x5c, 0x72]            -- \r
  else if c = 0x5c then [0x5c, 0x5c]            -- backslash doubled
  else if 0x20 ≤ c ∧ c < 0x7f then [c]          -- printable ASCII as it is (also `"` and `'`)
  else if c < 0x100 then [0x5c, 0x78, hexNibble (c / 16), hexNibble (c % 16)]          -- \xNN
  else if c < 0x10000 then
    [0x5c, 0x75, hexNibble (c / 4096), hexNibble (c / 256 % 16), hexNibble (c / 16 % 16), hexNibble (c % 16)]
  else
    [0x5c, 0x55, hexNibble (c / 268435456 % 16), hexNibble (c / 16777216 % 16), hexNibble (c / 1048576 % 16),
     hexNibble (c / 65536 % 16), hexNibble (c / 4096 % 16), hexNibble (c / 256 % 16), hexNibble (c / 16 % 16),
     hexNibble (c % 16)]                                                              -- \UNNNNNNNN

/-- the text the printer produced BEFORE fixes/C04-string-initialiser-literal.diff (kept to state the
    defect): Python's unicode-escape between bare quotes -/
def printStringInitOld (s : List Nat) : List Nat := [0x22] ++ s.flatMap pyEscapeChar ++ [0x22]

/-- the text printed after `String name = ` for a (non-null) string value:
    `string(str(value))`, the decompiler's Java string-literal writer (androguard/decompiler/writer.py,
    modelled in AgVerif.Model.JavaString from the generated constants of Gen/JString.lean) -/
def printStringInit (s : List Nat) : List Nat := AgVerif.JavaString.escape s

end AgVerif.EncodedValue
