/-
C21 model: how a Constant operand is printed in every expression context the Writer can distinguish
(`Gen.Translate.ctxRows`, obtained by printing real IR expressions with the real Writer for a complete small
range of constants and lexing the text).  The model gives, for each context, the Java expression (`ctxExpr`, whose
meaning is Spec/JavaSem) and from it the expected lexeme template and literal kind; `ctxRowOk` checks a generated row.
-/
import AgVerif.Model.Translate

namespace AgVerif.Translate
open AgVerif.JavaSem
open AgVerif.Gen.Translate (CtxRow Ctx2Row)

/-- lexemes of the text `printExpr` produces, with `#` for every literal -/
def lexExpr : Expr → List String
  | .lit _ _ => ["#"]
  | .var _ n => ["v" ++ toString n]
  | .bin o a b => ["("] ++ lexExpr a ++ [binText o] ++ lexExpr b ++ [")"]
  | .un o a => ["(", unText o] ++ lexExpr a ++ [")"]
  | .cast t a => ["(", "(", tyText t, ")"] ++ lexExpr a ++ [")"]
  | .rel o a b => lexExpr a ++ [relText o] ++ lexExpr b
  | .longCompare a b => ["Long.compare", "("] ++ lexExpr a ++ [","] ++ lexExpr b ++ [")"]

def tyOfDesc (s : String) : Option Ty :=
  if s = "I" then some .int else if s = "J" then some .long else if s = "C" then some .char
  else if s = "B" then some .byte else if s = "S" then some .short else none

/-- the Java expression of a context with constant `v`, and whether its literal is a `long` literal -/
def ctxExpr (family op aux : String) (v : Int) : Option (Expr × Bool) :=
  if family = "ibin" then do
    let o ← binOpOfText op
    if aux = "r" then some (.bin o (.var .int 1) (.lit v false), false)
    else if aux = "l" then some (.bin o (.lit v false) (.var .int 1), false) else none
  else if family = "jbin" then do
    let o ← binOpOfText op
    some (.bin o (.var .long 1) (.lit v true), true)
  else if family = "jshift" then do
    let o ← binOpOfText op
    some (.bin o (.var .long 1) (.lit v false), false)
  else if family = "cond" then do
    let o ← relOpOfText op
    let t ← tyOfDesc aux
    some (.rel o (.var t 1) (.lit v false), false)
  else if family = "condcast" then do
    let o ← relOpOfText op
    let t ← castOfText aux
    some (.rel o (.cast t (.var .int 1)) (.lit v false), false)
  else if family = "condl" then do
    let o ← relOpOfText op
    some (.rel o (.lit v false) (.var .int 1), false)
  else if family = "const" then
    (if aux = "J" then some (.lit v true, true) else if aux = "I" then some (.lit v false, false) else none)
  else if family = "un" then do
    let o ← unOpOfText op
    if aux = "J" then some (.un o (.lit v true), true) else if aux = "I" then some (.un o (.lit v false), false) else none
  else if family = "cast" then do
    let t ← castOfText op
    if op = "(int)" then some (.cast t (.lit v true), true) else some (.cast t (.lit v false), false)
  else none

/-- the contexts that must be present (what gen/translate.py `context_specs` enumerates) -/
def ctxList : List (String × String × String) :=
  (["+", "-", "*", "/", "%", "&", "|", "^", "<<", ">>", ">>>"].map fun o => ("ibin", o, "r")) ++
  [("ibin", "-", "l"), ("ibin", "+", "l"), ("jbin", "+", "r"), ("jbin", "-", "r"), ("jbin", "&", "r"), ("jshift", "<<", "r")] ++
  (["I", "C", "B", "S"].flatMap fun t => ["==", "!=", "<", ">=", ">", "<="].map fun o => ("cond", o, t)) ++
  (["==", "!=", "<", ">=", ">", "<="].map fun o => ("condcast", o, "(char)")) ++
  (["==", "!=", "<", ">=", ">", "<="].map fun o => ("condl", o, "I")) ++
  [("const", "", "I"), ("const", "", "J"), ("un", "-", "I"), ("un", "~", "I"), ("un", "-", "J"),
   ("cast", "(long)", "J"), ("cast", "(int)", "I"), ("cast", "(byte)", "B"), ("cast", "(char)", "C"), ("cast", "(short)", "S")]

def off : Nat := 2 ^ 63

def inRuns (runs : List (Nat × Nat)) (v : Nat) : Bool := runs.any fun r => r.1 ≤ v && v ≤ r.2

/-- the complete small range: every value of −128 … 255, and the int boundaries -/
def smallRangeCovered (runs : List (Nat × Nat)) : Bool :=
  (List.range 384).all (fun k => inRuns runs (off - 128 + k)) &&
  [off + 32767, off - 32768, off + 65535, off + 65536, off + 2147483647, off - 2147483648].all (inRuns runs)

/-- a generated row is what the model prints: the single row of its context, the expected lexemes, an `int` / `long`
    literal as the model says, for ALL the values of the range, and the literal denotes the constant itself -/
def ctxRowOk (r : CtxRow) : Bool :=
  match ctxExpr r.family r.op r.aux 0 with
  | some (e, long) =>
    r.template == lexExpr e && r.kind == (if long then "long" else "int") &&
    r.lits == r.vals && smallRangeCovered r.vals &&
    (!long || [off + 2147483648, off + 4294967296, off + 9223372036854775807, 0].all (inRuns r.vals))
  | none => false

/-- every context has exactly one row -/
def ctxComplete (rows : List CtxRow) : Bool :=
  ctxList.all (fun c => (rows.filter fun r => (r.family, r.op, r.aux) == c).length == 1) &&
  rows.length == ctxList.length

/-! ## two-level contexts: ((x op1 c1) op2 c2) and (c1 op1 (x op2 c2)) -/

def ctxExpr2 (shape op1 op2 ty : String) (c1 c2 : Int) : Option Expr := do
  let o1 ← binOpOfText op1
  let o2 ← binOpOfText op2
  let t ← tyOfDesc ty
  let long := ty == "J"
  if shape = "A" then some (.bin o2 (.bin o1 (.var t 1) (.lit c1 long)) (.lit c2 long))
  else if shape = "B" then some (.bin o1 (.lit c1 long) (.bin o2 (.var t 1) (.lit c2 long)))
  else none

def ops2I : List String := ["+", "-", "*", "&", "|", "^", "<<", ">>", ">>>"]
def ops2J : List String := ["+", "-", "*", "&"]

def ctx2List : List (String × String × String × String) :=
  ["A", "B"].flatMap fun sh =>
    (ops2I.flatMap fun a => ops2I.map fun b => (sh, a, b, "I")) ++ (ops2J.flatMap fun a => ops2J.map fun b => (sh, a, b, "J"))

/-- pairs that must be among the constants: the ones whose sum / product leaves the range -/
def requiredPairs (long : Bool) : List (Nat × Nat) :=
  if long then [(off + 9223372036854775807, off + 9223372036854775807), (0, 0), (off + 4611686018427387904, off + 4611686018427387904),
                (off + 9223372036854775807, off + 1), (0, off - 1), (off + 6000000000000000000, off + 6000000000000000000)]
  else [(off + 2147483647, off + 2147483647), (off - 2147483648, off - 2147483648), (off + 1073741824, off + 1073741824),
        (off + 2147483647, off + 1), (off - 2147483648, off - 1), (off + 1500000000, off + 1500000000),
        (off - 1500000000, off - 1500000000)]

/-- a generated two-level row is the nest the model prints: the expected lexemes (nothing folded or re-associated), two
    literals of the expected kind, for all the constant pairs including the overflowing ones, each denoting its constant -/
def ctx2RowOk (r : Ctx2Row) : Bool :=
  match ctxExpr2 r.shape r.op1 r.op2 r.ty 0 0 with
  | some e =>
    let long := r.ty == "J"
    r.template == lexExpr e && r.kinds == (if long then "long,long" else "int,int") && r.lits == r.vals &&
    (requiredPairs long).all (fun p => r.vals.contains p)
  | none => false

def ctx2Complete (rows : List Ctx2Row) : Bool :=
  ctx2List.all (fun c => (rows.filter fun r => (r.shape, r.op1, r.op2, r.ty) == c).length == 1) &&
  rows.length == ctx2List.length

end AgVerif.Translate
