/-
C21: the arithmetic fragment of Spec/JavaSem.lean (the expressions the per-instruction soundness theorems are about)
as IR expressions of Model/JExpr.lean, and a JLS semantics on the Java TREE (`evalJ`), so that
"text ↦ lexemes ↦ JLS parser ↦ tree ↦ value" can be stated.  Imports no Mathlib.
-/
import AgVerif.Model.JExpr
import AgVerif.Spec.JavaSem
namespace AgVerif.JExpr
open AgVerif.JavaSem (Ty Val Err Env Expr evalLit evalVar evalBin evalUn evalRel evalLongCompare castTo)

def ofBin : JavaSem.BinOp → BinOp
  | .add => .add | .sub => .sub | .mul => .mul | .div => .div | .rem => .rem
  | .and => .band | .or => .bor | .xor => .bxor | .shl => .shl | .shr => .shr | .ushr => .ushr

def ofRel : JavaSem.RelOp → BinOp
  | .eq => .eq | .ne => .ne | .lt => .lt | .ge => .ge | .gt => .gt | .le => .le

def ofTy : Ty → Prim
  | .int => .int | .long => .long | .byte => .byte | .short => .short | .char => .char | .bool => .boolean

/-- the IR expression (Model/JExpr.lean) of an expression of the arithmetic fragment; `Translate.printExpr e` is the
    text of `print (ofExpr e)` (checked on every run: driver request `jxtoks`) -/
def ofExpr : Expr → DExpr
  | .lit v long => .const v long
  | .var _ n => .var (toString n)
  | .bin o a b => .bin (ofBin o) (ofExpr a) (ofExpr b)
  | .un .neg a => .un .neg (ofExpr a)
  | .un .compl a => .un .not (ofExpr a)
  | .cast t a => .cast (ofTy t) (ofExpr a)
  | .rel o a b => .cond (ofRel o) (ofExpr a) (ofExpr b)
  | .longCompare a b => .cmp true (ofExpr a) (ofExpr b)

def arithOf : BinOp → Option JavaSem.BinOp
  | .add => some .add | .sub => some .sub | .mul => some .mul | .div => some .div | .rem => some .rem
  | .band => some .and | .bor => some .or | .bxor => some .xor | .shl => some .shl | .shr => some .shr | .ushr => some .ushr
  | _ => none

def relOf : BinOp → Option JavaSem.RelOp
  | .eq => some .eq | .ne => some .ne | .lt => some .lt | .ge => some .ge | .gt => some .gt | .le => some .le
  | _ => none

def tyOf : Prim → Option Ty
  | .int => some .int | .long => some .long | .byte => some .byte | .short => some .short | .char => some .char
  | .boolean => some .bool | _ => none

/-- the operand of a unary minus that is a decimal literal (JLS 3.10.1, 15.15.4): the negated value -/
def negLit : JExpr → Option (Int × Bool)
  | .intLit n => some (-(n : Int), false)
  | .longLit n => some (-(n : Int), true)
  | _ => none

/-- JLS 15 on the Java tree, for the int/long fragment: literals, typed local variables (`Γ` gives the declared
    type and the register a name stands for), parentheses, the arithmetic, bitwise, shift and comparison operators,
    unary minus and complement, primitive casts, `Long.compare`.  Anything else is outside the fragment (`compile`). -/
def evalJ (Γ : String → Option (Ty × Nat)) (ρ : Env) : JExpr → Except Err Val
  | .intLit n => evalLit n false
  | .longLit n => evalLit n true
  | .name s =>
    (match Γ s with
     | some (t, r) => evalVar ρ t r
     | none => .error .compile)
  | .paren e => evalJ Γ ρ e
  | .unary .neg e =>
    (match negLit e with
     | some (v, l) => evalLit v l
     | none => do evalUn .neg (← evalJ Γ ρ e))
  | .unary .compl e => do evalUn .compl (← evalJ Γ ρ e)
  | .bin o a b =>
    (match arithOf o, relOf o with
     | some op, _ => do evalBin op (← evalJ Γ ρ a) (← evalJ Γ ρ b)
     | none, some r => do evalRel r (← evalJ Γ ρ a) (← evalJ Γ ρ b)
     | none, none => .error .compile)
  | .cast (.prim p) e =>
    (match tyOf p with
     | some t => do castTo t (← evalJ Γ ρ e)
     | none => .error .compile)
  | .call (.select (.name c) m) [a, b] =>
    if c = "Long" ∧ m = "compare" then do evalLongCompare (← evalJ Γ ρ a) (← evalJ Γ ρ b) else .error .compile
  | _ => .error .compile

end AgVerif.JExpr
