/-
Model of androguard's APK Signing Block reader (androguard/core/apk/__init__.py, WITH
fixes/C33-sigblock-sequences-v31.diff applied):

  read_uint32_le, parse_signatures_or_digests, parse_v2_v3_signature,
  parse_v2_signing_block, parse_v3_signing_block(v31), is_signed_v2/v3/v31,
  has_duplicate_apk_signature_ids, get_certificates_der_*, get_public_keys_der_*.

Transliteration conventions
* a file / buffer is `List Nat` (bytes); a `BytesIO` stream is the list of bytes that remain.
* `struct.unpack` on a short read is `Err.struct` (struct.error); `BrokenAPKError` is `Err.broken`;
  `OverflowError` of `BytesIO.seek/read` with an argument outside ssize_t is `Err.overflow`.
* `BytesIO.read(k)` returns fewer bytes at EOF without failing: `List.take`.
* every loop carries a fuel argument; each iteration consumes at least four bytes or fails, so
  fuel = number of bytes + 1 is never exhausted (`Err.fuel` is unreachable; see Proof/SigBlock).
-/
import AgVerif.Gen.SigBlockConsts
namespace AgVerif.SigBlock
open AgVerif.Gen.SigBlock

abbrev Bytes := List Nat

inductive Err where
  | struct | broken | overflow | missing | fuel
  deriving DecidableEq, Repr

/-- little-endian number of a byte list (struct '<I', '<Q', '<H' on exactly-sized input) -/
def leNat : Bytes → Nat
  | [] => 0
  | b :: bs => b + 256 * leNat bs

/-- `unpack('<I', s.read(4))` on the remaining bytes -/
def readU32 : Bytes → Except Err (Nat × Bytes)
  | a :: b :: c :: d :: r => .ok (leNat [a, b, c, d], r)
  | _ => .error .struct

/-- `s.read(k)`: up to k bytes, and what remains -/
def readUpTo (k : Nat) (s : Bytes) : Bytes × Bytes := (s.take k, s.drop k)

/-- parse_signatures_or_digests (fixed): the whole buffer is a sequence of length-prefixed
    elements, each `u32 algorithm id | u32 length | bytes`. -/
def parseSeqF : Nat → Bytes → Except Err (List (Nat × Bytes))
  | 0, _ => .error .fuel
  | fuel + 1, s =>
    if s.isEmpty then .ok [] else do
      let (elen, s1) ← readU32 s
      let (el, s2) := readUpTo elen s1
      let (alg, e1) ← readU32 el
      let (dlen, e2) ← readU32 e1
      let d := e2.take dlen
      let rest ← parseSeqF fuel s2
      .ok ((alg, d) :: rest)

def parseSeq (s : Bytes) : Except Err (List (Nat × Bytes)) := parseSeqF (s.length + 1) s

/-- the certificate loop: `while signed_data.tell() < start_certs + len_certs`.
    `budget` = start_certs + len_certs - tell (truncated at 0). Reads are NOT confined to the
    declared length (a certificate may run past it), exactly as in the code. -/
def parseCertsF : Nat → Nat → Bytes → Except Err (List Bytes × Bytes)
  | 0, _, _ => .error .fuel
  | fuel + 1, budget, s =>
    if budget = 0 then .ok ([], s) else do
      let (l, s1) ← readU32 s
      let (cert, s2) := readUpTo l s1
      let (cs, r) ← parseCertsF fuel (budget - (4 + cert.length)) s2
      .ok (cert :: cs, r)

structure SignedData where
  bytes : Bytes
  digests : List (Nat × Bytes)
  certs : List Bytes
  attrs : Bytes
  sdk : Option (Nat × Nat)          -- v3: (minSDK, maxSDK) inside the signed data
  deriving DecidableEq, Repr

structure Signer where
  bytes : Bytes                      -- view[off_signer : off_signer + size_signer]
  signed : SignedData
  sdk : Option (Nat × Nat)          -- v3: (minSDK, maxSDK) of the signer
  sigs : List (Nat × Bytes)
  pubkey : Bytes
  deriving DecidableEq, Repr

def parseSignedData (v3 : Bool) (sd : Bytes) : Except Err SignedData := do
  let (lenDigests, t0) ← readU32 sd
  let (rawDigests, t1) := readUpTo lenDigests t0
  let digests ← parseSeq rawDigests
  let (lenCerts, t2) ← readU32 t1
  let (certs, t3) ← parseCertsF (t2.length + 1) lenCerts t2
  if v3 then do
    let (mn, t4) ← readU32 t3
    let (mx, t5) ← readU32 t4
    let (lenAttr, t6) ← readU32 t5
    .ok ⟨sd, digests, certs, t6.take lenAttr, some (mn, mx)⟩
  else do
    let (lenAttr, t6) ← readU32 t3
    .ok ⟨sd, digests, certs, t6.take lenAttr, none⟩

/-- one iteration of the signer loop: the signer and the bytes that remain -/
def parseSigner (v3 : Bool) (s : Bytes) : Except Err (Signer × Bytes) := do
  let (sizeSigner, s1) ← readU32 s
  let (lenSd, s2) ← readU32 s1
  let (sdBytes, s3) := readUpTo lenSd s2
  let sd ← parseSignedData v3 sdBytes
  if v3 then do
    let (mn, s4) ← readU32 s3
    let (mx, s5) ← readU32 s4
    let (lenSigs, s6) ← readU32 s5
    let (rawSigs, s7) := readUpTo lenSigs s6
    let sigs ← parseSeq rawSigs
    let (lenPk, s8) ← readU32 s7
    let (pk, s9) := readUpTo lenPk s8
    .ok (⟨s.take sizeSigner, sd, some (mn, mx), sigs, pk⟩, s9)
  else do
    let (lenSigs, s6) ← readU32 s3
    let (rawSigs, s7) := readUpTo lenSigs s6
    let sigs ← parseSeq rawSigs
    let (lenPk, s8) ← readU32 s7
    let (pk, s9) := readUpTo lenPk s8
    .ok (⟨s.take sizeSigner, sd, none, sigs, pk⟩, s9)

def parseSignersF (v3 : Bool) : Nat → Bytes → Except Err (List Signer)
  | 0, _ => .error .fuel
  | fuel + 1, s =>
    if s.isEmpty then .ok [] else do
      let (sg, r) ← parseSigner v3 s
      let rest ← parseSignersF v3 fuel r
      .ok (sg :: rest)

/-- parse_v2_signing_block / parse_v3_signing_block on the selected block's bytes -/
def parseValue (v3 : Bool) (b : Bytes) : Except Err (List Signer) := do
  let (sizeSeq, r) ← readU32 b
  if sizeSeq + 4 ≠ b.length then .error .broken
  else parseSignersF v3 (r.length + 1) r

/-! ### the outer walk (parse_v2_v3_signature) -/

structure Block where
  id : Nat
  dup : Bool
  data : Bytes
  deriving DecidableEq, Repr

/-- `f.seek(pos); f.read(k)` followed by an exact-size unpack -/
def readAt (f : Bytes) (pos k : Nat) : Option Bytes :=
  let s := (f.drop pos).take k
  if s.length = k then some s else none

/-- the backwards scan for the end-of-central-directory signature; the argument is `f.tell()`
    at the loop test (`while f.tell() > 0`), the candidate position is one less. -/
def scanEocd (f : Bytes) : Nat → Option Nat
  | 0 => none
  | pos + 1 => if (f.drop pos).take 4 = pkEocd then some pos else scanEocd f pos

/-- `while f.tell() < end_offset - 24`: `rest` = bytes from `f.tell()` to the end of the file,
    `tailLen` = bytes from `end_offset - 24` to the end of the file. -/
def walkF : Nat → Nat → Bytes → List Block → List Block × Option Err
  | 0, _, _, acc => (acc, some .fuel)
  | fuel + 1, tailLen, rest, acc =>
    if tailLen < rest.length then
      if rest.length < 12 then (acc, some .struct) else
      let size := leNat (rest.take 8)
      let key := leNat ((rest.drop 8).take 4)
      let r := rest.drop 12
      if size < 4 then
        -- f.read(negative) reads to the end of the file, which ends the loop
        (acc ++ [⟨key, acc.any (·.id == key), r⟩], none)
      else if 2 ^ 63 ≤ size - 4 then (acc, some .overflow)
      else
        walkF fuel tailLen (r.drop (size - 4)) (acc ++ [⟨key, acc.any (·.id == key), r.take (size - 4)⟩])
    else (acc, none)

structure Outer where
  flags : Option (Bool × Bool × Bool)       -- _is_signed_v2/_v3/_v31; none = still None
  blocks : List Block                        -- _v2_blocks
  err : Option Err                           -- exception raised by parse_v2_v3_signature
  deriving DecidableEq, Repr

def hasId (bs : List Block) (k : Nat) : Bool := bs.any (·.id == k)

def parseOuter (f : Bytes) : Outer :=
  let n := f.length
  match scanEocd f (n - 1 - 20) with
  | none => ⟨none, [], none⟩
  | some p =>
    match readAt f (p + 4) 16 with
    | none => ⟨none, [], some .struct⟩
    | some h =>
      let oc := leNat (h.drop 12)
      if oc = 0 then ⟨none, [], none⟩ else
      match readAt f oc 4 with
      | none => ⟨none, [], some .struct⟩
      | some r =>
        if r ≠ pkCd then ⟨none, [], some .broken⟩ else
        let pos := oc - 24                      -- BytesIO.seek clamps at 0
        match readAt f pos 24 with
        | none => ⟨none, [], some .struct⟩
        | some h2 =>
          let sob := leNat (h2.take 8)
          let fff := some (false, false, false)
          if h2.drop 8 ≠ sigMagic then ⟨fff, [], none⟩ else
          if 2 ^ 63 < sob + 8 then ⟨fff, [], some .overflow⟩ else
          let pos2 := pos + 24 - (sob + 8)
          match readAt f pos2 8 with
          | none => ⟨fff, [], some .struct⟩
          | some h3 =>
            if leNat h3 ≠ sob then ⟨fff, [], some .broken⟩ else
            match walkF (n + 1) (n - oc + 24) (f.drop (pos2 + 8)) [] with
            | (bs, some e) => ⟨fff, bs, some e⟩
            | (bs, none) => ⟨some (hasId bs keyV2, hasId bs keyV3, hasId bs keyV31), bs, none⟩

inductive Scheme where | v2 | v3 | v31
  deriving DecidableEq, Repr

def Scheme.key : Scheme → Nat
  | .v2 => keyV2 | .v3 => keyV3 | .v31 => keyV31

def Scheme.flag (s : Scheme) (fl : Bool × Bool × Bool) : Bool :=
  match s with | .v2 => fl.1 | .v3 => fl.2.1 | .v31 => fl.2.2

def Scheme.isV3 : Scheme → Bool
  | .v2 => false | _ => true

/-- first call of get_certificates_der_vX / get_public_keys_der_vX on a fresh APK object:
    parse_vX_signing_block. `is_signed_vX()` re-runs parse_v2_v3_signature while the flag is None. -/
def parseScheme (sc : Scheme) (f : Bytes) : Except Err (List Signer) :=
  let o := parseOuter f
  match o.flags with
  | none => match o.err with
    | some e => .error e
    | none => .ok []
  | some fl =>
    if !(sc.flag fl) then .ok [] else
    match o.blocks.find? (·.id == sc.key) with
    | none => .error .missing
    | some b => parseValue sc.isV3 b.data

def certsOf (ss : List Signer) : List Bytes := ss.flatMap (·.signed.certs)
def pubkeysOf (ss : List Signer) : List Bytes := ss.map (·.pubkey)
def hasDuplicate (o : Outer) : Bool := o.blocks.any (·.dup)

end AgVerif.SigBlock
