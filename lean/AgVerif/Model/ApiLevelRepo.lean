/- The repository's directory listing and DEFAULT_API (generated) as a `Repo` of the model. -/
import AgVerif.Model.ApiLevel
import AgVerif.Gen.ApiLevels
namespace AgVerif.ApiLevel
open AgVerif.Gen.ApiLevels

def genRepo : Repo :=
  { permFiles := permFiles, permLevels := permLevels, permEmpty := permEmpty,
    mapNames := mapNames, mapEmpty := mapEmpty, defaultApi := defaultApi }

end AgVerif.ApiLevel
