/-
Model of androguard/decompiler/dataflow.py: `BasicReachDef.__init__/run`, `reach_def_analysis`,
`build_def_use` (read line by line; quirks kept: the `newR and` guard, two separate push loops,
`var not in def_to_loc` skips the use, `defaultdict(list)` entries, the dummy exit node that
`reach_def_analysis` appends to `graph.rpo`, the dummy entry node that is *not* in `graph.rpo`
and only contributes `A[entry] = {-1, …, -len(params)}` to the old entry node).

Python sets are lists compared as sets (`setEq`); dicts are association lists in insertion order.
Imports only the specification's data types (`Stmt`, `Prog`).
-/
import AgVerif.Spec.ReachDef
namespace AgVerif.ReachDef
open AgVerif.Spec.ReachDef

/-! ### Python containers -/

/-- `a | b` on sets -/
def uni (a b : List Int) : List Int := a ++ b.filter (fun x => !a.contains x)

def subset (a b : List Int) : Bool := a.all (fun x => b.contains x)

/-- `a == b` on sets -/
def setEq (a b : List Int) : Bool := subset a b && subset b a

/-- `defaultdict(list)[k].extend(vs)` -/
def dictExtend {K V} [DecidableEq K] : List (K × List V) → K → List V → List (K × List V)
  | [], k, vs => [(k, vs)]
  | (k', l) :: D, k, vs => if k' = k then (k', l ++ vs) :: D else (k', l) :: dictExtend D k vs

/-- `d.get(k, [])` -/
def dictGet {K V} [DecidableEq K] : List (K × List V) → K → List V
  | [], _ => []
  | (k', l) :: D, k => if k' = k then l else dictGet D k

/-- `max(values)` of a set; Python raises on the empty set -/
def maxL? : List Int → Option Int
  | [] => none
  | a :: l => some (l.foldl (fun m x => if m < x then x else m) a)

/-! ### The graph as `BasicReachDef` sees it (after `reach_def_analysis` inserted the dummies) -/

def nOrig (g : Prog) : Nat := g.nodes.length

/-- number of nodes in `graph.rpo` during the analysis: the dummy exit is appended when `graph.exit` is set -/
def nA (g : Prog) : Nat := g.nodes.length + (if g.exit.isSome then 1 else 0)

/-- `node.get_loc_with_ins()` source: the instructions of node `v` (the dummy exit, index `nOrig`, has none) -/
def stmts (g : Prog) (v : Nat) : List Stmt := (g.nodes[v]?).getD []

/-- `graph.all_sucs(node)` = `edges[node] + catch_edges[node]`; `add_edge(old_exit, new_exit)` appended
    the dummy exit to `edges[old_exit]` -/
def sucsA (g : Prog) (v : Nat) : List Nat :=
  (g.edges[v]?).getD [] ++ (if g.exit = some v then [nOrig g] else []) ++ (g.cedges[v]?).getD []

/-- `zip(range(*ins_range), ins)` -/
def number : Nat → List Stmt → List (Int × Stmt)
  | _, [] => []
  | k, s :: ss => ((k : Int), s) :: number (k + 1) ss

def locIns (g : Prog) (v : Nat) : List (Int × Stmt) := number (start g v) (stmts g v)

/-- `enumerate(params, 1)` → `(param, -loc)` -/
def numberParams : Nat → List Reg → List (Reg × Int)
  | _, [] => []
  | k, p :: ps => (p, -((k : Nat) : Int)) :: numberParams (k + 1) ps

def paramDefs (g : Prog) : List (Reg × Int) := numberParams 1 g.params

/-- the `(kill, i)` pairs `__init__` records for node `v` -/
def nodeDefs (g : Prog) (v : Nat) : List (Reg × Int) :=
  (locIns g v).filterMap (fun p => p.2.lhs.map (fun x => (x, p.1)))

def allDefs (g : Prog) : List (Reg × Int) :=
  paramDefs g ++ (List.range (nA g)).flatMap (nodeDefs g)

/-- `self.def_to_loc[x]` -/
def defToLoc (g : Prog) (x : Reg) : List Int :=
  ((allDefs g).filter (fun p => p.1 == x)).map (·.2)

/-- `self.defs[node][x]` -/
def defsOfNode (g : Prog) (v : Nat) (x : Reg) : List Int :=
  ((nodeDefs g v).filter (fun p => p.1 == x)).map (·.2)

/-- keys of `self.defs[node]` (with repetitions) -/
def regsOfNode (g : Prog) (v : Nat) : List Reg := (nodeDefs g v).map (·.1)

/-- `self.DB[node]` -/
def DB (g : Prog) (v : Nat) : List Int :=
  (regsOfNode g v).filterMap (fun x => maxL? (defsOfNode g v x))

/-- `killed_locs` of `run` -/
def killed (g : Prog) (v : Nat) : List Int := (regsOfNode g v).flatMap (defToLoc g)

/-- contribution of the dummy entry node: `A[entry] = set(range(-1, -len(params)-1, -1))`, and the dummy
    entry is a predecessor of the old entry only -/
def initOf (g : Prog) (v : Nat) : List Int :=
  if v = g.entry then (paramDefs g).map (·.2) else []

/-- `graph.all_preds(node)` restricted to `graph.rpo` -/
def predsOf (g : Prog) (v : Nat) : List Nat :=
  (List.range (nA g)).filter (fun p => (sucsA g p).contains v)

/-- `newR`: union of `A[pred]` over all predecessors (dummy entry included) -/
def inSet (g : Prog) (A : Nat → List Int) (v : Nat) : List Int :=
  (predsOf g v).foldl (fun acc p => uni acc (A p)) (initOf g v)

/-- `newA = {loc ∈ R[node] | loc ∉ killed_locs} ∪ DB[node]` -/
def outSet (g : Prog) (v : Nat) (R : List Int) : List Int :=
  let k := killed g v
  uni (R.filter (fun l => !k.contains l)) (DB g v)

/-- `for suc in all_sucs(node): if suc not in nodes: nodes.append(suc)` -/
def pushAll (wl : List Nat) (ss : List Nat) : List Nat :=
  ss.foldl (fun acc s => if acc.contains s then acc else acc ++ [s]) wl

structure St where
  R : Nat → List Int
  A : Nat → List Int
  wl : List Nat
  steps : Nat

def upd (f : Nat → List Int) (v : Nat) (x : List Int) : Nat → List Int :=
  fun w => if w = v then x else f w

/-- one iteration of the `while nodes:` loop -/
def step (g : Prog) (st : St) : St :=
  match st.wl with
  | [] => st
  | v :: rest =>
    let newR := inSet g st.A v
    let chR := !newR.isEmpty && !setEq newR (st.R v)
    let R' := if chR then upd st.R v newR else st.R
    let wl1 := if chR then pushAll rest (sucsA g v) else rest
    let newA := outSet g v (R' v)
    let chA := !setEq newA (st.A v)
    let A' := if chA then upd st.A v newA else st.A
    let wl2 := if chA then pushAll wl1 (sucsA g v) else wl1
    { R := R', A := A', wl := wl2, steps := st.steps + 1 }

def run (g : Prog) : Nat → St → St
  | 0, st => st
  | f + 1, st => match st.wl with
    | [] => st
    | _ :: _ => run g f (step g st)

/-- state after `__init__`: every `R`, `A` empty (the dummy entry's `A` is `initOf`), `nodes = list(rpo)` -/
def init (g : Prog) : St :=
  { R := fun _ => [], A := fun _ => [], wl := List.range (nA g), steps := 0 }

/-- largest out-degree (length of `all_sucs`) -/
def maxDeg (g : Prog) : Nat := ((List.range (nA g)).map (fun v => (sucsA g v).length)).foldl max 0

/-- proven bound on the number of iterations of the `while` loop (theorem `run_fixpoint`) -/
def bound (g : Prog) : Nat :=
  nA g + (2 * maxDeg g + 1) * (2 * nA g * (allDefs g).length)

/-- `reach_def_analysis` -/
def analysis (g : Prog) : St := run g (bound g) (init g)

/-! ### `build_def_use` -/

abbrev Dict := List ((Reg × Int) × List Int)

/-- running maximum `prior_def` over `defs[node][var]` -/
def priorDef (ds : List Int) (i : Int) : Int :=
  ds.foldl (fun pd v => if pd < v ∧ v < i then v else pd) (-1)

def udVar (g : Prog) (R : Nat → List Int) (v : Nat) (i : Int) (UD : Dict) (x : Reg) : Dict :=
  if (defToLoc g x).isEmpty then UD
  else
    let pd := priorDef (defsOfNode g v x) i
    if pd ≥ 0 then dictExtend UD (x, i) [pd]
    else
      let r := R v
      dictExtend UD (x, i) ((defToLoc g x).filter (fun d => r.contains d))

def udStmt (g : Prog) (R : Nat → List Int) (v : Nat) (UD : Dict) (p : Int × Stmt) : Dict :=
  p.2.uses.foldl (udVar g R v p.1) UD

def udNode (g : Prog) (R : Nat → List Int) (UD : Dict) (v : Nat) : Dict :=
  (locIns g v).foldl (udStmt g R v) UD

def buildUD (g : Prog) (R : Nat → List Int) : Dict :=
  (List.range (nOrig g)).foldl (udNode g R) []

def buildDU (UD : Dict) : Dict :=
  UD.foldl (fun DU e => e.2.foldl (fun DU d => dictExtend DU (e.1.1, d) [e.1.2]) DU) []

def buildDefUse (g : Prog) : Dict × Dict :=
  let UD := buildUD g (analysis g).R
  (UD, buildDU UD)

/-- decidable well-formedness of the input (what the real `Graph` guarantees): edge tables cover
    exactly the nodes, every edge target, the entry and the exit are nodes -/
def WF (g : Prog) : Bool :=
  g.edges.length == g.nodes.length && g.cedges.length == g.nodes.length &&
  g.edges.all (fun l => l.all (fun s => s < g.nodes.length)) &&
  g.cedges.all (fun l => l.all (fun s => s < g.nodes.length)) &&
  decide (g.entry < g.nodes.length) &&
  (match g.exit with | none => true | some x => decide (x < g.nodes.length))

end AgVerif.ReachDef
