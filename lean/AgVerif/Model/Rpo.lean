/-
Model of `Graph.post_order` / `Graph.compute_rpo`
(androguard/decompiler/graph.py:144-172).  Imports only the graph model.

    def post_order(self):
        def _visit(n, cnt):
            visited.add(n)
            for suc in self.all_sucs(n):
                if suc not in visited:
                    for cnt, s in _visit(suc, cnt):
                        yield cnt, s
            n.po = cnt
            yield cnt + 1, n
        visited = set()
        for _, node in _visit(self.entry, 1):
            yield node

    def compute_rpo(self):
        nb = len(self.nodes) + 1
        for node in self.post_order():
            node.num = nb - node.po
        self.rpo = sorted(self.nodes, key=lambda n: n.num)

`loop g fuel cur ws s` is the `for suc in …` loop of `_visit(cur, …)` over the remaining
successors `ws`, with the recursive `_visit(suc, cnt)` inlined.  Python's recursion is replaced
by structural recursion on `fuel` (one unit per loop iteration and per call); running out of
fuel is the explicit result `none` and `fuel_enough` (Proof/Rpo.lean) shows `fuel g` suffices.
`par` is ghost state (the Python code does not store the DFS-tree parent here); it is used
only to *state* which edges are back edges.
-/
import AgVerif.Model.Digraph
namespace AgVerif.Rpo
open AgVerif

structure St where
  /-- the set `visited`, most recently added first -/
  visited : List Nat
  /-- the threaded counter `cnt` -/
  cnt : Nat
  /-- the attribute `n.po` (absent until assigned) -/
  po : Nat → Option Nat
  /-- nodes yielded so far, most recent first -/
  out : List Nat
  /-- GHOST: parent in the DFS tree -/
  par : Nat → Option Nat

/-- `Anc par v u`: `v` is `u` or an ancestor of `u` along the parent pointers `par`
    (`v` is the target and `u` the source of a *back edge* `u → v` of the DFS). -/
inductive Anc (par : Nat → Option Nat) : Nat → Nat → Prop
  | refl (u : Nat) : Anc par u u
  | step {v u p : Nat} : par u = some p → Anc par v p → Anc par v u

/-- `visited.add(w)` on entering `_visit(w, cnt)` called from the loop of `cur` -/
def St.discover (s : St) (cur w : Nat) : St :=
  { s with visited := w :: s.visited, par := fun x => if x = w then some cur else s.par x }

/-- `n.po = cnt; yield cnt + 1, n` -/
def St.finish (s : St) (v : Nat) : St :=
  { s with po := fun x => if x = v then some s.cnt else s.po x, out := v :: s.out, cnt := s.cnt + 1 }

def loop (g : Digraph) : Nat → Nat → List Nat → St → Option St
  | 0, _, _, _ => none
  | _ + 1, _, [], s => some s
  | f + 1, cur, w :: ws, s =>
    if w ∈ s.visited then loop g f cur ws s
    else
      match loop g f w (g.allSucs w) (s.discover cur w) with
      | none => none
      | some s1 => loop g f cur ws (s1.finish w)

/-- state inside `_visit(r, 1)` just after `visited.add(r)` -/
def init (r : Nat) : St :=
  { visited := [r], cnt := 1, po := fun _ => none, out := [], par := fun _ => none }

/-- the whole generator `post_order()` run to exhaustion -/
def postOrder (g : Digraph) (fuel : Nat) : Option St :=
  match loop g fuel g.entry (g.allSucs g.entry) (init g.entry) with
  | none => none
  | some s => some (s.finish g.entry)

/-- enough for every graph whose edges stay inside `nodes` (theorem `fuel_enough`) -/
def fuel (g : Digraph) : Nat := g.n + g.degSum g.n + 2

/-- `node.num` after `compute_rpo` on fresh nodes (`Node.__init__` sets `num = 0`) -/
def numOf (g : Digraph) (s : St) (v : Nat) : Nat :=
  match s.po v with
  | some p => (g.n + 1) - p
  | none => 0

structure Result where
  num : Nat → Nat
  po : Nat → Option Nat
  /-- `Graph.rpo` -/
  rpo : List Nat
  /-- yield order of `post_order()` -/
  order : List Nat
  /-- GHOST -/
  par : Nat → Option Nat

/-- `compute_rpo`; `sorted` is stable, and so is `List.mergeSort` -/
def computeRpo (g : Digraph) : Option Result :=
  match postOrder g (fuel g) with
  | none => none
  | some s =>
    let num := numOf g s
    some { num := num, po := s.po, order := s.out.reverse, par := s.par,
           rpo := (List.range g.n).mergeSort (fun a b => decide (num a ≤ num b)) }

end AgVerif.Rpo
