/-
C25 — the writer's visit discipline for conditional / statement / return / LOOP nodes:
  writer.py  visit_node (follow stacks, `visited_nodes`, return nodes are re-emitted),
             visit_cond_node (both-branches-same comment form, loop-follow `break` form, negate-and-swap decisions,
             if / else / follow order), visit_statement_node (break when the successor is the loop follow),
             visit_return_node, visit_loop_node (pre-tested `while (cond)`, post-tested `do … while(latch cond)`, endless).
Output: the sequence of print events `x.visit_cond(self)`: (node being visited when the print happens, node object whose
condition is printed, "negated and swapped just before").  Switch / try nodes are not in this fragment
(`next_case`, `switch_follow[-1]`, `try_follow[-1]` are None).
Imports nothing.
-/
namespace AgVerif.WriterVisit

inductive LoopType | pretest | posttest | endless
  deriving Repr, Inhabited, DecidableEq

inductive WKind
  | cond (t f : Nat) (follow : Option Nat)      -- cond.true, cond.false, cond.follow['if']
  | stmt (suc : Option Nat)                     -- graph.sucs(stmt) has one element or none
  | ret
  /-- LoopBlock: looptype, loop.cond (the node it wraps), loop.latch, loop.true, loop.false, loop.follow['loop'] -/
  | loop (lt : LoopType) (cond latch t f : Nat) (follow : Option Nat)
  deriving Repr, Inhabited, DecidableEq

structure WGraph where
  kind : Nat → Option WKind
  num : Nat → Nat                               -- node.num (reverse post-order number)

/-- a print event: visited node that triggers it, node object whose condition is written, swapped? -/
structure Ev where
  trigger : Nat
  obj : Nat
  swapped : Bool
  deriving Repr, Inhabited, DecidableEq

structure WState where
  visited : List Nat
  out : List Ev
  deriving Repr, Inhabited

/-- `if_follow`, `loop_follow`, `latch_node` (top first; the bottom `None` of the real lists is the empty list) -/
structure Stacks where
  ifs : List (Option Nat)
  loops : List (Option Nat)
  latches : List (Option Nat)
  deriving Repr, Inhabited

def top (s : List (Option Nat)) : Option Nat := match s with | [] => none | x :: _ => x

/-- whose condition `n.visit_cond(writer)` writes: LoopBlock.visit_cond delegates to the node it wraps -/
def objOf (g : WGraph) (n : Nat) : Nat :=
  match g.kind n with
  | some (.loop _ c _ _ _ _) => c
  | _ => n

def emit (n obj : Nat) (sw : Bool) (st : WState) : WState := { st with out := st.out ++ [⟨n, obj, sw⟩] }

/-- `visit_node(node)` with an explicit recursion budget (`fuel`). -/
def visitNode (g : WGraph) : Nat → Stacks → Nat → WState → WState
  | 0, _, _, st => st
  | fuel + 1, sk, n, st =>
    if top sk.ifs == some n || top sk.loops == some n || top sk.latches == some n then st
    else
      -- `if not node.type.is_return and node in self.visited_nodes: return`
      if g.kind n != some .ret && st.visited.contains n then st
      else
        let st := { st with visited := n :: st.visited }
        match g.kind n with
        | none => st
        | some .ret => st
        | some (.stmt none) => st
        | some (.stmt (some s)) =>
          if top sk.loops == some s then st            -- break;
          else visitNode g fuel sk s st
        | some (.cond t f follow) =>
          if f == t then
            -- "Both branches of the condition point to the same code."
            visitNode g fuel sk t (emit n n false st)
          else
            let sw1 := top sk.loops == some f
            let (t, f) := if sw1 then (f, t) else (t, f)
            if top sk.loops == some t || top sk.loops == some f then
              -- if (cond) { break; }   then the other branch
              visitNode g fuel sk f (emit n n sw1 st)
            else
              match follow with
              | some fo =>
                let sw := t == fo || g.num n > g.num t
                let (t, f) := if sw then (f, t) else (t, f)
                let sk' := { sk with ifs := some fo :: sk.ifs }
                let st := visitNode g fuel sk' t (emit n n sw st)
                let isElse := !(fo == t || fo == f)
                let st := if isElse && !st.visited.contains f then visitNode g fuel sk' f st else st
                visitNode g fuel sk fo st
              | none =>
                let st := visitNode g fuel sk t (emit n n false st)
                visitNode g fuel sk f st
        | some (.loop lt c latch t f follow) =>
          match lt with
          | .pretest =>
            let sw := follow == some t
            let (t, _f) := if sw then (f, t) else (t, f)
            let st := emit n c sw st                                   -- while (cond) {
            let st := visitNode g fuel { sk with loops := follow :: sk.loops } t st
            match follow with
            | some fo => visitNode g fuel sk fo st
            | none => st
          | .posttest =>
            let st := visitNode g fuel { sk with loops := follow :: sk.loops, latches := some latch :: sk.latches } c st
            let st := emit n (objOf g latch) false st                   -- } while(latch cond);
            match follow with
            | some fo => visitNode g fuel sk fo st
            | none => st
          | .endless =>
            let st := visitNode g fuel { sk with loops := follow :: sk.loops } c st
            let st := visitNode g fuel sk latch st
            match follow with
            | some fo => visitNode g fuel sk fo st
            | none => st

end AgVerif.WriterVisit
