/-
C25 — the writer's visit discipline for conditional / statement / return nodes (loop-free fragment):
  writer.py  visit_node (follow stacks, `visited_nodes`, return nodes are re-emitted),
             visit_cond_node (both-branches-same comment form, negate-and-swap decision, if / else / follow order),
             visit_statement_node, visit_return_node.
Output: the sequence of conditional nodes whose condition is printed (`cond.visit_cond(self)`), each with the flag
"negated and swapped before printing".  Switch / try / loop nodes are not in this fragment (`loop_follow[-1]`,
`next_case`, `latch_node[-1]`, `switch_follow[-1]`, `try_follow[-1]` are all None).
Imports nothing.
-/
namespace AgVerif.WriterVisit

inductive WKind
  | cond (t f : Nat) (follow : Option Nat)      -- cond.true, cond.false, cond.follow['if']
  | stmt (suc : Option Nat)                     -- graph.sucs(stmt) has one element or none
  | ret
  deriving Repr, Inhabited, DecidableEq

structure WGraph where
  kind : Nat → Option WKind
  num : Nat → Nat                               -- node.num (reverse post-order number)

structure WState where
  visited : List Nat
  out : List (Nat × Bool)                       -- (node whose condition is printed, swapped?)
  deriving Repr, Inhabited

def top (s : List (Option Nat)) : Option Nat := match s with | [] => none | x :: _ => x

/-- `visit_node(node)` with an explicit recursion budget (`fuel`); `ifs` is the `if_follow` stack (top first). -/
def visitNode (g : WGraph) : Nat → List (Option Nat) → Nat → WState → WState
  | 0, _, _, st => st
  | fuel + 1, ifs, n, st =>
    if top ifs == some n then st
    else
      -- `if not node.type.is_return and node in self.visited_nodes: return`
      if g.kind n != some .ret && st.visited.contains n then st
      else
        let st := { st with visited := n :: st.visited }
        match g.kind n with
        | none => st
        | some .ret => st
        | some (.stmt none) => st
        | some (.stmt (some s)) => visitNode g fuel ifs s st
        | some (.cond t f follow) =>
          if f == t then
            -- "Both branches of the condition point to the same code."
            let st := { st with out := st.out ++ [(n, false)] }
            visitNode g fuel ifs t st
          else
            match follow with
            | some fo =>
              let sw := t == fo || g.num n > g.num t
              let (t, f) := if sw then (f, t) else (t, f)
              let st := { st with out := st.out ++ [(n, sw)] }
              let st := visitNode g fuel (some fo :: ifs) t st
              let isElse := !(fo == t || fo == f)
              let st := if isElse && !st.visited.contains f then visitNode g fuel (some fo :: ifs) f st else st
              visitNode g fuel ifs fo st
            | none =>
              let st := { st with out := st.out ++ [(n, false)] }
              let st := visitNode g fuel ifs t st
              visitNode g fuel ifs f st

end AgVerif.WriterVisit
