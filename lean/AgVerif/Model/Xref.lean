/-
Model of androguard/core/analysis/analysis.py: `Analysis.add`, `Analysis.create_xref`,
`Analysis._create_xref`, `Analysis._resolve_method`, `Analysis._resolve_field` (the cross-DEX field
lookup of fixes/C14-field-in-other-dex.diff), the `add_*xref*` recorders of `ClassAnalysis`,
`MethodAnalysis`, `FieldAnalysis`, `StringAnalysis`, and `Analysis.get_call_graph`
(properties C13, C14, C15, C16).

A program is a list of DEX files; instruction operands are already resolved to names (index
resolution is C05's job).  Python objects are identified by the key the code registers them under:
a `ClassAnalysis` by its class name, a `MethodAnalysis` by `(class, name, descriptor)` (the key of
`Analysis.__method_hashes`), a `FieldAnalysis` by `(holding class, (class, name, type))`, a
`StringAnalysis` by its value.  Python dicts are association lists with dict semantics
(`dset` = `d[k] = v`, `dsetdefault` = `if k not in d: d[k] = v`), Python sets are lists with
`sadd` (`s.add(x)`).  The opcode tests are the generated ones (`AgVerif.Gen.XrefOps`).
-/
import AgVerif.Gen.XrefOps
import AgVerif.Model.XrefProg

namespace AgVerif.Xref
open AgVerif.Gen

/-! ### dicts and sets -/

def dget {κ ν : Type} [DecidableEq κ] : List (κ × ν) → κ → Option ν
  | [], _ => none
  | (k', v) :: r, k => if k' = k then some v else dget r k

/-- `d[k] = v` -/
def dset {κ ν : Type} [DecidableEq κ] : List (κ × ν) → κ → ν → List (κ × ν)
  | [], k, v => [(k, v)]
  | (k', v') :: r, k, v => if k' = k then (k, v) :: r else (k', v') :: dset r k v

/-- `if k not in d: d[k] = v` -/
def dsetdefault {κ ν : Type} [DecidableEq κ] (d : List (κ × ν)) (k : κ) (v : ν) : List (κ × ν) :=
  match dget d k with
  | some _ => d
  | none => d ++ [(k, v)]

/-- `s.add(x)` -/
def sadd {α : Type} [DecidableEq α] (s : List α) (x : α) : List α :=
  if x ∈ s then s else s ++ [x]

/-! ### the analysis database -/

/-- an entry of `ClassAnalysis.xrefto` / `xreffrom`: `self[other] ∋ (REF_TYPE(kind), meth, off)` -/
structure ClsRef where
  cls : String
  other : String
  kind : Nat
  meth : MKey
  off : Nat
  deriving DecidableEq, Repr

structure DB where
  /-- `Analysis.classes`: name ↦ is external -/
  classes : List (String × Bool) := []
  /-- `Analysis.__method_hashes` / `Analysis.methods`: key ↦ is external -/
  methods : List (MKey × Bool) := []
  /-- union of the per-DEX `__cache_fields` that `_resolve_field` consults -/
  decl : List FKey := []
  /-- the `FieldAnalysis` objects: (class whose `_fields` holds it, field) -/
  fields : List (String × FKey) := []
  /-- `Analysis.strings` keys -/
  strings : List String := []
  /-- `MethodAnalysis.xrefto`: (caller, callee, offset) -/
  callTo : List (MKey × MKey × Nat) := []
  /-- `MethodAnalysis.xreffrom`: (callee, caller, offset) -/
  callFrom : List (MKey × MKey × Nat) := []
  /-- `ClassAnalysis.xrefto`: (class, other class, REF_TYPE, method, offset) -/
  clsTo : List ClsRef := []
  /-- `ClassAnalysis.xreffrom`: (class, other class, REF_TYPE, method, offset) -/
  clsFrom : List ClsRef := []
  /-- `MethodAnalysis.xrefnewinstance`: (method, class, offset) -/
  newInstM : List (MKey × String × Nat) := []
  /-- `ClassAnalysis.xrefnewinstance`: (class, method, offset) -/
  newInstC : List (String × MKey × Nat) := []
  constClsM : List (MKey × String × Nat) := []
  constClsC : List (String × MKey × Nat) := []
  /-- `StringAnalysis.xreffrom`: (string, method, offset) -/
  strFrom : List (String × MKey × Nat) := []
  /-- `FieldAnalysis.xrefread`: (the FieldAnalysis, method, offset) -/
  fRead : List ((String × FKey) × MKey × Nat) := []
  fWrite : List ((String × FKey) × MKey × Nat) := []
  /-- `MethodAnalysis.xrefread`: (method, field, offset) -/
  mRead : List (MKey × FKey × Nat) := []
  mWrite : List (MKey × FKey × Nat) := []
  deriving Repr

/-! ### `Analysis.add` -/

def addMethod (cn : String) (db : DB) (m : Method) : DB :=
  { db with methods := dset db.methods (cn, m.name, m.desc) false }

def addField (cn : String) (db : DB) (f : String × String) : DB :=
  { db with decl := sadd db.decl (cn, f.1, f.2), fields := sadd db.fields (cn, (cn, f.1, f.2)) }

def addClass (db : DB) (c : Class) : DB :=
  let db := { db with classes := dset db.classes c.name false }
  let db := c.methods.foldl (addMethod c.name) db
  c.fields.foldl (addField c.name) db

def addDex (db : DB) (d : Dex) : DB :=
  let db := d.classes.foldl addClass db
  { db with strings := d.strings.foldl sadd db.strings }

/-! ### `Analysis._create_xref` -/

/-- `s.lstrip('[')` -/
def lstripBr (s : String) : String := String.ofList (s.toList.dropWhile (· == '['))

/-- `s[0] == 'L'` (the empty string, where Python raises `IndexError`, counts as "not a class") -/
def startsL (s : String) : Bool := s.toList.head? == some 'L'

/-- `Analysis._resolve_method` -/
def resolveMethod (db : DB) (k : MKey) : DB :=
  match dget db.methods k with
  | some _ => db
  | none =>
    let db := match dget db.classes k.1 with
      | some _ => db
      | none => { db with classes := dset db.classes k.1 true }
    { db with methods := dset db.methods k true }

/-- which branch of the `if / elif` chain on `op_value` runs, with the operand it looks up -/
inductive Act where
  | classUse (t : String)
  | invoke (c n d : String)
  | str (s : String)
  | field (c n t : String)
  | skip
  deriving DecidableEq, Repr

def act (op : Nat) (ref : Ref) : Act :=
  match XrefOps.kind op, ref with
  | 1, .type t => .classUse t
  | 2, .meth c n d => .invoke c n d
  | 3, .str s => .str s
  | 4, .field c n t => .field c n t
  | _, _ => .skip

/-- one iteration of the instruction loop of `_create_xref`;
`cur` = `cur_cls_name`, `m` = key of `cur_meth`, `oi` = `(off, instruction)` -/
def step (cur : String) (m : MKey) (db : DB) (oi : Nat × XIns) : DB :=
  let off := oi.1
  let op := oi.2.op.val
  match act op oi.2.ref with
  | .classUse t =>
    let ti := lstripBr t
    if !startsL ti then db
    else if ti = cur then db
    else
      let db := { db with classes := dsetdefault db.classes ti true }
      let db := { db with clsTo := sadd db.clsTo ⟨cur, ti, op, m, off⟩,
                          clsFrom := sadd db.clsFrom ⟨ti, cur, op, m, off⟩ }
      let db := if XrefOps.isConstClass op then
          { db with constClsM := sadd db.constClsM (m, ti, off), constClsC := sadd db.constClsC (ti, m, off) }
        else db
      if XrefOps.isNewInstance op then
          { db with newInstM := sadd db.newInstM (m, ti, off), newInstC := sadd db.newInstC (ti, m, off) }
        else db
  | .invoke c n d =>
    let ci := lstripBr c
    if !startsL ci then db
    else
      let k : MKey := (ci, n, d)
      let db := resolveMethod db k
      { db with callTo := sadd db.callTo (m, k, off),
                callFrom := sadd db.callFrom (k, m, off),
                clsTo := sadd db.clsTo ⟨cur, ci, op, k, off⟩,
                clsFrom := sadd db.clsFrom ⟨ci, cur, op, m, off⟩ }
  | .str s =>
    { db with strings := sadd db.strings s, strFrom := sadd db.strFrom (s, m, off) }
  | .field c n t =>
    let f : FKey := (c, n, t)
    if f ∈ db.decl then
      let db := { db with fields := sadd db.fields (cur, f) }
      if XrefOps.isFieldRead op then
        { db with fRead := sadd db.fRead ((cur, f), m, off), mRead := sadd db.mRead (m, f, off) }
      else
        { db with fWrite := sadd db.fWrite ((cur, f), m, off), mWrite := sadd db.mWrite (m, f, off) }
    else db
  | .skip => db

def xrefMethod (cn : String) (db : DB) (m : Method) : DB :=
  m.code.foldl (step cn (cn, m.name, m.desc)) db

def xrefClass (db : DB) (c : Class) : DB := c.methods.foldl (xrefMethod c.name) db

def xrefDex (db : DB) (d : Dex) : DB := d.classes.foldl xrefClass db

/-- `for vm in vms: dx.add(vm)` then `dx.create_xref()`.  The program is given with the names as they read when
`create_xref` runs: `create_xref` re-keys `__method_hashes` from the current names
(fixes/C13-method-hashes-current-names.diff) and looks fields up lazily, so renames made between `add` and
`create_xref` are the same as renames made before `add`. -/
def analyse (p : List Dex) : DB := p.foldl xrefDex (p.foldl addDex {})

/-! ### `Analysis.get_call_graph` (default filters): the edge list -/

def callGraph (db : DB) : List (MKey × MKey) :=
  db.methods.foldl (fun g kv =>
    (db.callTo.filter (fun e => e.1 = kv.1)).foldl (fun g e => sadd g (kv.1, e.2.1)) g) []

/-- `Analysis.get_field_analysis(f)`: the FieldAnalysis held by the class that declares `f` -/
def fieldAnalysis (db : DB) (f : FKey) : Option (String × FKey) :=
  match dget db.classes f.1 with
  | none => none
  | some _ => if (f.1, f) ∈ db.fields then some (f.1, f) else none

end AgVerif.Xref
