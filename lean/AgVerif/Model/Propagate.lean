/-!
# C21 — register propagation on one basic block (androguard/decompiler/dataflow.py)

A transliteration of `register_propagation` (with `clear_path`, `clear_path_node`) and of the
initial chains `build_def_use` computes, for a graph that consists of ONE basic block, over a
small IR that keeps what the pass looks at:

* `Expr` keeps the `var_map` KEYS of the real expression classes next to the children
  (`BinaryExpression.arg1/arg2`, `UnaryExpression.arg`, `InvokeInstruction.args[0]`,
  `ReturnInstruction.arg`): `replace(old, new)` of the real classes decides by key
  (`old in v_m`), not by occurrence, and leaves other occurrences alone.
* `isConst` is `is_const()`: a `Constant`, a `Param` (a register of the parameter list,
  whether or not the block assigns it), a `CastExpression` of something constant.
* `se` is `has_side_effect()`: an invoke; a binary expression one of whose operands has one;
  NOT a unary/cast expression (they inherit `IRForm.has_side_effect = False`), NOT a division.
* the instruction list is iterated BY INDEX while `remove_ins` deletes from it
  (`for i, ins in node.get_loc_with_ins()` over the live list), as in Python.

This file imports nothing.  The semantics (`run`) is at the end.
-/
namespace AgVerif.Propagate

inductive BinOp | add | sub | mul | div | rem | and | or | xor
  deriving DecidableEq, Repr

/-- `neg`/`not`: `UnaryExpression`; `i2b`/`i2s`/`i2c`: `CastExpression` -/
inductive UnOp | neg | not | i2b | i2s | i2c
  deriving DecidableEq, Repr

def UnOp.isCast : UnOp → Bool
  | .neg | .not => false
  | _ => true

/-- a `var_map` key: the register number of the operand the node was built with; `none` for a constant operand -/
abbrev Key := Option Nat

inductive Expr
  | var (r : Nat)
  | const (c : Int)
  | un (op : UnOp) (k : Key) (a : Expr)
  | bin (op : BinOp) (k1 : Key) (a : Expr) (k2 : Key) (b : Expr)
  | call (f : Nat) (k : Key) (a : Expr)
  deriving DecidableEq, Repr

inductive Stmt
  | assign (lhs : Option Nat) (rhs : Expr)
  | ret (k : Key) (a : Expr)
  deriving DecidableEq, Repr

structure Block where
  params : List Nat
  stmts : List Stmt
  deriving DecidableEq, Repr

/-! ## what the pass asks of an instruction -/

def Expr.isIdent : Expr → Bool
  | .var _ => true
  | _ => false

/-- `is_const()` -/
def Expr.isConst (ps : List Nat) : Expr → Bool
  | .var r => ps.contains r
  | .const _ => true
  | .un op _ a => op.isCast && a.isConst ps
  | _ => false

/-- `arg.is_const() or arg.is_ident()` -/
def Expr.atom (ps : List Nat) (e : Expr) : Bool := e.isConst ps || e.isIdent

/-- `list(dict.fromkeys(l))` -/
def dedup : List Nat → List Nat
  | [] => []
  | x :: l => x :: (dedup l).filter (· != x)

/-- `get_used_vars()` -/
def Expr.used : Expr → List Nat
  | .var r => [r]
  | .const _ => []
  | .un _ _ a => a.used
  | .bin _ _ a _ b => dedup (a.used ++ b.used)
  | .call _ _ a => dedup a.used

/-- `has_side_effect()` -/
def Expr.se : Expr → Bool
  | .bin _ _ a _ b => a.se || b.se
  | .call _ _ _ => true
  | _ => false

/-- `replace(old, new)` for a `new` that is not an identifier (no move instructions in this IR) -/
def Expr.repl (ps : List Nat) (old : Nat) (new : Expr) : Expr → Expr
  | .var r => .var r
  | .const c => .const c
  | .un op k a =>
    if !(a.atom ps) then .un op k (Expr.repl ps old new a)
    else if k == some old then .un op k new
    else .un op k a
  | .bin op k1 a k2 b =>
    if k1 == some old then
      -- `arg = v_m[old]`: the one object both operands share when both keys are `old`
      if k2 == some old then
        .bin op k1 (if !(a.atom ps) then Expr.repl ps old new a else new)
                 k2 (if !(a.atom ps) then Expr.repl ps old new a else new)
      else
        .bin op k1 (if !(a.atom ps) then Expr.repl ps old new a else new) k2 b
    else if k2 == some old then
      .bin op k1 a k2 (if !(b.atom ps) then Expr.repl ps old new b else new)
    else
      .bin op k1 (if !(a.atom ps) then Expr.repl ps old new a else a)
               k2 (if !(b.atom ps) then Expr.repl ps old new b else b)
  | .call f k a =>
    if k == some old then
      .call f k (if !(a.atom ps) then Expr.repl ps old new a else new)
    else
      .call f k (if !(a.atom ps) then Expr.repl ps old new a else a)

def Stmt.lhs : Stmt → Option Nat
  | .assign l _ => l
  | .ret _ _ => none

def Stmt.used : Stmt → List Nat
  | .assign _ r => r.used
  | .ret _ a => a.used

def Stmt.se : Stmt → Bool
  | .assign _ r => r.se
  | .ret _ _ => false

def Stmt.rhs : Stmt → Expr
  | .assign _ r => r
  | .ret _ a => a

/-- `AssignExpression.replace` hands over to its right-hand side; `ReturnInstruction.replace` -/
def Stmt.repl (ps : List Nat) (old : Nat) (new : Expr) : Stmt → Stmt
  | .assign l r => .assign l (Expr.repl ps old new r)
  | .ret k a =>
    if !(a.atom ps) then .ret k (Expr.repl ps old new a)
    else if k == some old then .ret k new
    else .ret k a

/-! ## the chains -/

abbrev Chain := List ((Nat × Int) × List Int)

def Chain.get (c : Chain) (k : Nat × Int) : List Int :=
  match c.find? (fun e => e.1 == k) with
  | some e => e.2
  | none => []

def Chain.has (c : Chain) (k : Nat × Int) : Bool := c.any (fun e => e.1 == k)

def Chain.pop (c : Chain) (k : Nat × Int) : Chain := c.filter (fun e => e.1 != k)

def Chain.set (c : Chain) (k : Nat × Int) (v : List Int) : Chain :=
  if c.has k then c.map (fun e => if e.1 == k then (k, v) else e) else c ++ [(k, v)]

/-- the live instructions with their locations (`node.loc_ins`) -/
abbrev Ins := List (Int × Stmt)

def Ins.at (ins : Ins) (loc : Int) : Option Stmt := (ins.find? (fun e => e.1 == loc)).map (·.2)

def number (l : List Stmt) : Ins :=
  (List.range l.length).zip l |>.map fun (i, s) => ((i : Int), s)

/-- `build_def_use` on one block: the definition of `v` that reaches location `i` -/
def reaching (ps : List Nat) (ins : Ins) (v : Nat) (i : Int) : List Int :=
  match (ins.filter (fun e => e.1 < i && e.2.lhs == some v)).getLast? with
  | some e => [e.1]
  | none =>
    match ps.idxOf? v with
    | some j => [-((j : Int) + 1)]
    | none => []

def buildUD (ps : List Nat) (ins : Ins) : Chain :=
  ins.foldl (fun ud e => e.2.used.foldl (fun ud v => ud.set (v, e.1) (reaching ps ins v e.1)) ud) []

def buildDU (ud : Chain) : Chain :=
  ud.foldl (fun du e => e.2.foldl (fun du d => du.set (e.1.1, d) (du.get (e.1.1, d) ++ [e.1.2])) du) []

/-! ## the pass -/

/-- `clear_path_node(graph, reg, loc1, loc2)`: no live instruction at a location in `[loc1, loc2)`
    defines `reg` or has a side effect -/
def clearPath (ins : Ins) (reg : Option Nat) (loc1 loc2 : Int) : Bool :=
  ins.all fun e => !(loc1 ≤ e.1 && e.1 < loc2) || !(e.2.lhs == reg || e.2.se)

structure St where
  ins : Ins
  ud : Chain
  du : Chain
  change : Bool
  /-- not part of the code: every change made so far passed `safeStep` -/
  ok : Bool
  deriving Repr

/-- all the registers that occur in the tree (not deduplicated) -/
def Expr.vars : Expr → List Nat
  | .var r => [r]
  | .const _ => []
  | .un _ _ a => a.vars
  | .bin _ _ a _ b => a.vars ++ b.vars
  | .call _ _ a => a.vars

/-- no invoke and no `/`, `%`: evaluates to a value, in every state, without touching the world -/
def Expr.pure : Expr → Bool
  | .var _ => true
  | .const _ => true
  | .un _ _ a => a.pure
  | .bin op _ a _ b => op != .div && op != .rem && a.pure && b.pure
  | .call _ _ _ => false

/-- no invoke: evaluates, in every world, to a value or to an exception without touching the world -/
def Expr.nocall : Expr → Bool
  | .var _ => true
  | .const _ => true
  | .un _ _ a => a.nocall
  | .bin _ _ a _ b => a.nocall && b.nocall
  | .call _ _ _ => false

/-- `e` is a subexpression of the tree -/
def Expr.occurs (e : Expr) : Expr → Bool
  | .var r => e == .var r
  | .const c => e == .const c
  | .un op k a => e == .un op k a || e.occurs a
  | .bin op k1 a k2 b => e == .bin op k1 a k2 b || e.occurs a || e.occurs b
  | .call f k a => e == .call f k a || e.occurs a

/-- every slot keyed `x` that a `replace(x, _)` reaches still holds the variable `x`
    (so the replacement only overwrites occurrences of `x`) -/
def Expr.keyed (ps : List Nat) (x : Nat) : Expr → Bool
  | .var _ => true
  | .const _ => true
  | .un _ k a => if !(a.atom ps) then a.keyed ps x else (k != some x || a == .var x)
  | .bin _ k1 a k2 b =>
    -- `replace` visits the object under the key `x` when there is one, both operands otherwise
    if k1 == some x then
      (if !(a.atom ps) then a.keyed ps x else a == .var x) &&
      -- two operands under the same key are one object
      (k2 != some x || a == b)
    else if k2 == some x then
      (if !(b.atom ps) then b.keyed ps x else b == .var x)
    else
      (a.atom ps || a.keyed ps x) && (b.atom ps || b.keyed ps x)
  | .call _ k a => if !(a.atom ps) then a.keyed ps x else (k != some x || a == .var x)

def Stmt.keyed (ps : List Nat) (x : Nat) : Stmt → Bool
  | .assign _ r => r.keyed ps x
  | .ret k a => if !(a.atom ps) then a.keyed ps x else (k != some x || a == .var x)

def Stmt.vars (s : Stmt) : List Nat := s.rhs.vars

/-- `x` is not read after this point before it is assigned again -/
def deadAfter (x : Nat) : List Stmt → Bool
  | [] => true
  | s :: rest => !(s.vars.contains x) && (s.lhs == some x || deadAfter x rest)

def stmtsAfter (ins : Ins) (loc : Int) : List Stmt := (ins.filter (fun e => loc < e.1)).map (·.2)

/-- the instructions that follow evaluate `e` on the same operands before anything else can be observed: they make
    no call and do not assign a register of `e` up to one that has `e` as a subexpression -/
def forces (e : Expr) : List Stmt → Bool
  | [] => false
  | s :: rest =>
    s.rhs.nocall &&
    (e.occurs s.rhs ||
      (match s with
       | .assign (some l) _ => !(e.vars.contains l) && forces e rest
       | .assign none _ => forces e rest
       | .ret _ _ => false))

def Ins.setAt (ins : Ins) (i : Int) (s : Stmt) : Ins :=
  ins.map fun e => if e.1 == i then (e.1, s) else e

def Ins.removeAt (ins : Ins) (loc : Int) : Ins := ins.filter fun e => e.1 != loc

/-- the one change the pass makes to the instruction list: `ins.replace(var, orig_ins.get_rhs())` on the
    instruction `cur` at `i`, then `graph.remove_ins(loc)` when the definition has no use left -/
def stepIns (ps : List Nat) (ins : Ins) (i : Int) (x : Nat) (loc : Int) (e : Expr) (cur : Stmt)
    (removes : Bool) : Ins :=
  if removes then (ins.setAt i (cur.repl ps x e)).removeAt loc else ins.setAt i (cur.repl ps x e)

/-- `a < b < c ...` -/
def increasing : List Int → Bool
  | [] => true
  | a :: l => l.all (a < ·) && increasing l

/-- The condition under which one change of the pass is justified by `Proof/PropagateSound.lean`:
    the definition `x := e` at `loc` is live and before `i`; `e` makes no call and does not read `x`; no live
    instruction in `[loc+1, i)` assigns `x` or a register of `e`; the replacement only overwrites
    occurrences of `x`; and when the definition is then deleted, `x` is dead after it and either `e` cannot
    throw (no `/`, `%`) or the instructions that follow evaluate it before anything can be observed (`forces`). -/
def safeStep (ps : List Nat) (ins : Ins) (i : Int) (x : Nat) (loc : Int) (e : Expr) (cur : Stmt)
    (removes : Bool) : Bool :=
  ins.at loc == some (.assign (some x) e) && ins.at i == some cur && decide (loc < i) &&
  e.nocall && !(e.vars.contains x) &&
  (ins.all fun s => !(decide (loc < s.1) && decide (s.1 < i)) ||
    (match s.2.lhs with
     | some l => l != x && !(e.vars.contains l)
     | none => true)) &&
  cur.keyed ps x &&
  (!removes || (deadAfter x (stmtsAfter (ins.setAt i (cur.repl ps x e)) loc) &&
                (e.pure || forces e (stmtsAfter (ins.setAt i (cur.repl ps x e)) loc)))) &&
  -- locations are increasing along the list
  increasing (ins.map (·.1))

/-- `list.remove(x)`: the first occurrence -/
def rem1 (l : List Int) (x : Int) : List Int := l.erase x

/-- the chain updates after `ins.replace(var, orig_ins.get_rhs())`: (ud, du, whether `du[var, loc]` became empty) -/
def chainStep (i : Int) (var : Nat) (loc : Int) (origUsed : List Nat) (ud du : Chain) : Chain × Chain × Bool :=
  let udvi := rem1 (ud.get (var, i)) loc
  let ud1 := if udvi.isEmpty then ud.pop (var, i) else ud.set (var, i) udvi
  let (ud2, du2) := origUsed.foldl (fun (acc : Chain × Chain) v2 =>
    let (ud, du) := acc
    if !(ud.has (v2, loc)) then acc else
    let old := ud.get (v2, loc)
    let ud := ud.set (v2, i) (ud.get (v2, i) ++ old)
    let ud := ud.pop (v2, loc)
    let du := old.foldl (fun du d => du.set (v2, d) (rem1 (du.get (v2, d)) loc ++ [i])) du
    (ud, du)) (ud1, du)
  let newDu := rem1 (du2.get (var, loc)) i
  let removes := newDu.isEmpty
  (ud2, if removes then du2.pop (var, loc) else du2.set (var, loc) newDu, removes)

/-- from `ins.replace(var, orig_ins.get_rhs())` to `graph.remove_ins(loc)` -/
def applyStep (ps : List Nat) (i : Int) (st : St) (var : Nat) (loc : Int) (orig cur : Stmt) : St :=
  let r := chainStep i var loc orig.used st.ud st.du
  { ins := stepIns ps st.ins i var loc orig.rhs cur r.2.2, ud := r.1, du := r.2.1, change := st.change || r.2.2,
    ok := st.ok && safeStep ps st.ins i var loc orig.rhs cur r.2.2 }

/-- the body of `for var in ins.get_used_vars():` for the instruction at `i` -/
def varStep (ps : List Nat) (i : Int) (st : St) (var : Nat) : St :=
  match st.ud.get (var, i) with
  | [loc] =>
    if loc < 0 then st else
    match st.ins.at loc, st.ins.at i with
    | some orig, some cur =>
      if !(orig.rhs.isConst ps ||
           (!((st.du.get (var, loc)).length > 1) &&
            orig.used.all fun v2 => clearPath st.ins (some v2) (loc + 1) i)) then st else
      if orig.se && !(clearPath st.ins none (loc + 1) i) then st else
      applyStep ps i st var loc orig cur
    | _, _ => st
  | _ => st

/-- `for i, ins in node.get_loc_with_ins():` by index over the live list -/
def insLoop (ps : List Nat) : Nat → Nat → St → St
  | 0, _, st => st
  | fuel + 1, k, st =>
    match st.ins[k]? with
    | none => st
    | some (i, s) => insLoop ps fuel (k + 1) (s.used.foldl (varStep ps i) st)

/-- `while change:` -/
def whileLoop (ps : List Nat) (n : Nat) : Nat → St → St
  | 0, st => st
  | fuel + 1, st =>
    let st' := insLoop ps n 0 { st with change := false }
    if st'.change then whileLoop ps n fuel st' else st'

def initSt (b : Block) : St :=
  let ins := number b.stmts
  let ud := buildUD b.params ins
  { ins := ins, ud := ud, du := buildDU ud, change := true, ok := true }

/-- every round but the last deletes an instruction, so `length + 1` rounds are enough -/
def pass (b : Block) : St := whileLoop b.params b.stmts.length (b.stmts.length + 1) (initSt b)

/-- the block `register_propagation` leaves -/
def propagate (b : Block) : Block := { b with stmts := (pass b).ins.map (·.2) }

/-- every change the pass makes on `b` is one `Proof/Propagate.lean` justifies (see `safeStep`) -/
def SafeBlock (b : Block) : Prop := (pass b).ok = true

instance (b : Block) : Decidable (SafeBlock b) := by unfold SafeBlock; infer_instance

/-! ## `dead_code_elimination` and `update_chain` on one block

The pipeline runs it between `build_def_use` (+ `split_variables`) and `register_propagation`, on the same
chain dictionaries. -/

/-- `is_call()` of an `AssignExpression`: its right-hand side is an invoke -/
def Stmt.isCall : Stmt → Bool
  | .assign _ (.call _ _ _) => true
  | _ => false

/-- `remove_defined_var()` -/
def Stmt.dropLhs : Stmt → Stmt
  | .assign _ r => .assign none r
  | s => s

structure DSt where
  ins : Ins
  ud : Chain
  du : Chain
  /-- not part of the code: every deletion so far passed `safeDel` -/
  ok : Bool
  deriving Repr

/-- the deletion of the instruction at `loc` is justified: it is `x := e` with `e` pure and `x` dead after it -/
def safeDel (ins : Ins) (loc : Int) : Bool :=
  match ins.at loc with
  | some (.assign (some x) e) => e.pure && deadAfter x (stmtsAfter ins loc) && increasing (ins.map (·.1))
  | _ => false

/-- dropping the defined register of the call `d` at `loc` is justified: the register is dead after it -/
def safeDrop (ins : Ins) (loc : Int) (d : Stmt) : Bool :=
  ins.at loc == some d && increasing (ins.map (·.1)) &&
  match d with
  | .assign (some x) _ => deadAfter x (stmtsAfter ins loc)
  | .assign none _ => true
  | _ => false

/-- What both functions do with a definition `d` at `loc` that has no use left.  `rec` is `update_chain`.
    The code calls `update_chain(graph, loc, du, ud)` and THEN `graph.remove_ins(loc)`; `update_chain` reads nothing of
    the instruction at `loc` but its used registers, so the model deletes first and hands the registers over: the
    same final list, and every intermediate list then computes what the block computes (a definition is deleted
    after its last reader, not before). -/
def DSt.kill (rec : Int → List Nat → DSt → DSt) (loc : Int) (d : Stmt) (st : DSt) : DSt :=
  if d.isCall then { st with ins := st.ins.setAt loc d.dropLhs, ok := st.ok && safeDrop st.ins loc d }
  else if d.se then st
  else rec loc d.used { st with ins := st.ins.removeAt loc, ok := st.ok && safeDel st.ins loc }

/-- `update_chain(graph, loc, du, ud)` for an instruction at `loc` that uses the registers `used` -/
def updateChain : Nat → Int → List Nat → DSt → DSt
  | 0, _, _, st => st
  | fuel + 1, loc, used, st =>
    used.foldl (fun st var =>
      (st.ud.get (var, loc)).foldl (fun st defLoc =>
        let du := st.du.set (var, defLoc) (rem1 (st.du.get (var, defLoc)) loc)
        let udl := rem1 (st.ud.get (var, loc)) defLoc
        let ud := if udl.isEmpty then st.ud.pop (var, loc) else st.ud.set (var, loc) udl
        let st := { st with ud := ud, du := du }
        if defLoc ≥ 0 && (st.du.get (var, defLoc)).isEmpty then
          let st := { st with du := st.du.pop (var, defLoc) }
          match st.ins.at defLoc with
          | none => st
          | some d => st.kill (updateChain fuel) defLoc d
        else st) st) st

/-- `for i, ins in node.get_loc_with_ins():` of `dead_code_elimination`, by index over the live list -/
def dceLoop (n : Nat) : Nat → Nat → DSt → DSt
  | 0, _, st => st
  | fuel + 1, k, st =>
    match st.ins[k]? with
    | none => st
    | some (i, s) =>
      dceLoop n fuel (k + 1)
        (match s.lhs with
         | none => st
         | some reg => if st.du.has (reg, i) then st else st.kill (updateChain n) i s)

def dcePass (b : Block) : DSt :=
  let ins := number b.stmts
  let ud := buildUD b.params ins
  dceLoop b.stmts.length b.stmts.length 0 { ins := ins, ud := ud, du := buildDU ud, ok := true }

/-- the block `dead_code_elimination` leaves -/
def dce (b : Block) : Block := { b with stmts := (dcePass b).ins.map (·.2) }

/-- `dead_code_elimination` then `register_propagation` on the chains the former leaves, as the pipeline runs them -/
def dceThenPropagate (b : Block) : St :=
  let d := dcePass b
  whileLoop b.params b.stmts.length (b.stmts.length + 1)
    { ins := d.ins, ud := d.ud, du := d.du, change := true, ok := d.ok }

/-! ## semantics -/

/-- the calls made so far -/
abbrev World := List (Nat × Int)

/-- The meaning of the operators is a parameter: `none` is an exception.
    `pure` expressions use `bin` only on operators other than `/`, `%`, which must then be total. -/
structure Sem where
  un : UnOp → Int → Int
  bin : BinOp → Int → Int → Option Int
  call : Nat → Int → World → Int
  total : ∀ op a b, op ≠ .div → op ≠ .rem → (bin op a b).isSome

abbrev Env := Nat → Int

inductive Res (α : Type)
  | ok (v : α) (w : World)
  | throw (w : World)
  deriving DecidableEq, Repr

def Expr.eval (S : Sem) (ρ : Env) (w : World) : Expr → Res Int
  | .var r => .ok (ρ r) w
  | .const c => .ok c w
  | .un op _ a =>
    match a.eval S ρ w with
    | .ok v w => .ok (S.un op v) w
    | .throw w => .throw w
  | .bin op _ a _ b =>
    match a.eval S ρ w with
    | .throw w => .throw w
    | .ok va w =>
      match b.eval S ρ w with
      | .throw w => .throw w
      | .ok vb w =>
        match S.bin op va vb with
        | some v => .ok v w
        | none => .throw w
  | .call f _ a =>
    match a.eval S ρ w with
    | .throw w => .throw w
    | .ok v w => .ok (S.call f v w) (w ++ [(f, v)])

def Env.set (ρ : Env) (x : Nat) (v : Int) : Env := fun y => if y = x then v else ρ y

inductive Outcome
  | ret (v : Int) (w : World)
  | throw (w : World)
  /-- the end of the list without a return -/
  | fell (w : World)
  deriving DecidableEq, Repr

def run (S : Sem) : Env → World → List Stmt → Outcome
  | _, w, [] => .fell w
  | ρ, w, .assign l r :: rest =>
    match r.eval S ρ w with
    | .throw w => .throw w
    | .ok v w =>
      match l with
      | some x => run S (ρ.set x v) w rest
      | none => run S ρ w rest
  | ρ, w, .ret _ a :: _ =>
    match a.eval S ρ w with
    | .throw w => .throw w
    | .ok v w => .ret v w

def Block.run (S : Sem) (ρ : Env) (b : Block) : Outcome := Propagate.run S ρ [] b.stmts

/-- 32-bit Java `int` arithmetic -/
def wrap32 (x : Int) : Int := (x + 2147483648) % 4294967296 - 2147483648

def jbin : BinOp → Int → Int → Option Int
  | .add, a, b => some (wrap32 (a + b))
  | .sub, a, b => some (wrap32 (a - b))
  | .mul, a, b => some (wrap32 (a * b))
  | .div, a, b => if b = 0 then none else some (wrap32 (Int.tdiv a b))
  | .rem, a, b => if b = 0 then none else some (Int.tmod a b)
  | .and, a, b => some ((BitVec.ofInt 32 a &&& BitVec.ofInt 32 b).toInt)
  | .or, a, b => some ((BitVec.ofInt 32 a ||| BitVec.ofInt 32 b).toInt)
  | .xor, a, b => some ((BitVec.ofInt 32 a ^^^ BitVec.ofInt 32 b).toInt)

def jun : UnOp → Int → Int
  | .neg, a => wrap32 (-a)
  | .not, a => -a - 1
  | .i2b, a => (a + 128) % 256 - 128
  | .i2s, a => (a + 32768) % 65536 - 32768
  | .i2c, a => a % 65536

/-- Java `int` semantics; a call returns its argument plus the number of calls made before it -/
def javaSem : Sem where
  un := jun
  bin := jbin
  call := fun _ v w => wrap32 (v + w.length)
  total := by intro op a b h1 h2; cases op <;> simp_all [jbin]

/-! ## driver request `prop <block>`

`P <n> <p1> .. <pn> S <m> <stmt>*`; stmt: `a <lhs|_> <expr>` | `r <key|_> <expr>`;
expr: `v <r>` | `c <int>` | `u <op> <key|_> <expr>` | `b <op> <key|_> <expr> <key|_> <expr>` | `f <id> <key|_> <expr>` -/
namespace IO

def BinOp.name : BinOp → String
  | .add => "+" | .sub => "-" | .mul => "*" | .div => "/" | .rem => "%" | .and => "&" | .or => "|" | .xor => "^"
def binOf (s : String) : Option BinOp :=
  [BinOp.add, .sub, .mul, .div, .rem, .and, .or, .xor].find? (fun o => BinOp.name o == s)
def UnOp.name : UnOp → String
  | .neg => "neg" | .not => "not" | .i2b => "i2b" | .i2s => "i2s" | .i2c => "i2c"
def unOf (s : String) : Option UnOp :=
  [UnOp.neg, .not, .i2b, .i2s, .i2c].find? (fun o => UnOp.name o == s)

def keyOf (s : String) : Option Key := if s == "_" then some none else s.toNat?.map some
def showKey : Key → String
  | none => "_"
  | some k => toString k

def decE : Nat → List String → Option (Expr × List String)
  | 0, _ => none
  | f + 1, ws =>
    match ws with
    | "v" :: r :: rest => r.toNat?.map fun r => (.var r, rest)
    | "c" :: c :: rest => c.toInt?.map fun c => (.const c, rest)
    | "u" :: o :: k :: rest => do
      let o ← unOf o; let k ← keyOf k; let (a, rest) ← decE f rest; pure (.un o k a, rest)
    | "b" :: o :: k1 :: rest => do
      let o ← binOf o; let k1 ← keyOf k1; let (a, rest) ← decE f rest
      match rest with
      | k2 :: rest => let k2 ← keyOf k2; let (b, rest) ← decE f rest; pure (.bin o k1 a k2 b, rest)
      | [] => none
    | "f" :: i :: k :: rest => do
      let i ← i.toNat?; let k ← keyOf k; let (a, rest) ← decE f rest; pure (.call i k a, rest)
    | _ => none

def decS (ws : List String) : Option (Stmt × List String) :=
  match ws with
  | "a" :: l :: rest => do
    let l ← keyOf l; let (e, rest) ← decE (rest.length + 1) rest; pure (.assign l e, rest)
  | "r" :: k :: rest => do
    let k ← keyOf k; let (e, rest) ← decE (rest.length + 1) rest; pure (.ret k e, rest)
  | _ => none

def decN {α : Type} (d : List String → Option (α × List String)) : Nat → List String → Option (List α × List String)
  | 0, ws => some ([], ws)
  | n + 1, ws => do
    let (x, ws) ← d ws; let (xs, ws) ← decN d n ws; pure (x :: xs, ws)

def decB (ws : List String) : Option Block :=
  match ws with
  | "P" :: n :: rest => do
    let n ← n.toNat?
    let (ps, rest) ← decN (fun ws => match ws with | w :: r => w.toNat?.map (·, r) | [] => none) n rest
    match rest with
    | "S" :: m :: rest => do
      let m ← m.toNat?
      let (ss, rest) ← decN decS m rest
      if rest.isEmpty then pure ⟨ps, ss⟩ else none
    | _ => none
  | _ => none

def showE : Expr → String
  | .var r => "v" ++ toString r
  | .const c => "c" ++ toString c
  | .un o k a => "u(" ++ UnOp.name o ++ " " ++ showKey k ++ " " ++ showE a ++ ")"
  | .bin o k1 a k2 b =>
    "b(" ++ BinOp.name o ++ " " ++ showKey k1 ++ " " ++ showE a ++ " " ++ showKey k2 ++ " " ++ showE b ++ ")"
  | .call f k a => "f(" ++ toString f ++ " " ++ showKey k ++ " " ++ showE a ++ ")"

def showS : Stmt → String
  | .assign l e => showKey l ++ " = " ++ showE e
  | .ret k e => "return " ++ showKey k ++ " " ++ showE e

def showOutcome : Outcome → String
  | .ret v w => "ret " ++ toString v ++ " calls=" ++ toString w.length
  | .throw w => "throw calls=" ++ toString w.length
  | .fell w => "fell calls=" ++ toString w.length

/-- the environment of the reply: register `r` holds `vals[r mod length]` -/
def envOf (vals : List Int) : Env := fun r => vals.getD (r % (max vals.length 1)) 0

/-- `dce <block>`: after `dead_code_elimination`; `dceprop <block>`: after `register_propagation` run on its result -/
def replyDce (both : Bool) (ws : List String) : String :=
  match decB ws with
  | none => "bad-block"
  | some b =>
    let (ins, ok) := if both then ((dceThenPropagate b).ins, (dceThenPropagate b).ok) else ((dcePass b).ins, (dcePass b).ok)
    "ins=" ++ String.intercalate " ; " (ins.map fun e => toString e.1 ++ ": " ++ showS e.2) ++ " | safe=" ++ toString ok

def reply (ws : List String) : String :=
  match decB ws with
  | none => "bad-block"
  | some b =>
    let st := pass b
    let b' : Block := { b with stmts := st.ins.map (·.2) }
    let ρ := envOf [7, 4, -3, 65537, 0, 100000, -2147483648, 13]
    "ins=" ++ String.intercalate " ; " (st.ins.map fun e => toString e.1 ++ ": " ++ showS e.2) ++
    " | safe=" ++ toString st.ok ++
    " | before=" ++ showOutcome (b.run javaSem ρ) ++ " | after=" ++ showOutcome (b'.run javaSem ρ)

end IO

end AgVerif.Propagate
