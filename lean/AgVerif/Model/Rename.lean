/-
C17 — model of androguard's rename machinery (androguard/core/dex/__init__.py).

What is modelled (read line by line):
  ClassManager.get_string / get_raw_string / get_type / get_item_name, hook tables
  (`hook_strings`, `hook_types`, `hook_names`), set_hook_class_name / set_hook_method_name /
  set_hook_field_name, the cached `*_idx_value` of FieldIdItem / MethodIdItem (refreshed only by
  `reload`), ClassDefItem.name/sname (refreshed only by `reload`), the lazily loaded caches of
  EncodedMethod / EncodedField (`loaded`, `name`, `class_name`, `proto`), `set_name` of the three
  item kinds, and `get_kind` for STRING / METH / FIELD operands (instruction output).

The *order of cache refreshes performed by each setter* is not written here by hand: it is the
program `Cfg.clsProg / methProg / fldProg` (a list of `Act`) that gen/renamecfg.py extracts from the
statement sequence of the setters on every run (AgVerif.Gen.RenameCfg). The same holds for the four
flags saying which hook table each reader consults.

Imports nothing. Caches are total functions `Nat → _` (an entry outside the table is never read
by an operation whose index is in range; operations with an index out of range answer `Out.err`).
-/
namespace AgVerif.Rename

/-! ## configuration extracted from the source -/

/-- one refresh action in the body of a setter, in source order -/
inductive Act where
  | hookItem            -- the replacement is stored under the renamed item (type index / id item)
  | hookString          -- the replacement is stored under the *string index* of the item's name
  | reloadClassDef      -- `class_def.reload()`
  | reloadAllMethodIds  -- `self.__manage_item[METHOD_ID_ITEM].reload()`
  | reloadAllFieldIds   -- `self.__manage_item[FIELD_ID_ITEM].reload()`
  | reloadOwnMethods    -- `for i in class_def.get_methods(): i.reload()`
  | reloadOwnFields     -- `for i in class_def.get_fields(): i.reload()`
  | touchEnc            -- `encoded_x.get_name()` under `if class_def is not None` (lazy load)
  | reloadId            -- `method.reload()` / `field.reload()` (the id item)
  | reloadEnc           -- `self.reload()` in EncodedMethod/EncodedField.set_name
  deriving DecidableEq, Repr

structure Cfg where
  clsProg  : List Act      -- ClassDefItem.set_name  = set_hook_class_name ; …
  methProg : List Act      -- EncodedMethod.set_name = set_hook_method_name ; self.reload()
  fldProg  : List Act      -- EncodedField.set_name  = set_hook_field_name ; self.reload()
  typeUsesHook  : Bool     -- get_type consults hook_types[type_idx]
  methUsesHook  : Bool     -- MethodIdItem.reload reads CM.get_item_name(self) (hook_names first)
  fldUsesHook   : Bool     -- FieldIdItem.reload likewise
  constUsesStringHook : Bool  -- get_kind(Kind.STRING) goes through get_string (hook_strings)
  deriving DecidableEq, Repr

/-! ## the parsed file (static) -/

structure Proto where
  ret : Nat
  params : List Nat
  deriving Repr, DecidableEq

structure FieldId where
  cls : Nat
  typ : Nat
  name : Nat
  deriving Repr, DecidableEq

structure MethodId where
  cls : Nat
  proto : Nat
  name : Nat
  deriving Repr, DecidableEq

structure ClassDef where
  cls : Nat
  sup : Nat
  deriving Repr, DecidableEq

structure Dex where
  strings : List String            -- string pool (de-duplicated by the format)
  types : List Nat                 -- type_id → descriptor string index
  protos : List Proto
  fields : List FieldId
  methods : List MethodId
  classes : List ClassDef
  encMethods : List (Nat × Nat)    -- encoded_method → (method_idx, index of the owning class_def)
  encFields : List (Nat × Nat)     -- encoded_field  → (field_idx,  index of the owning class_def)
  consts : List (Nat × Nat)        -- const-string instructions: (register AA, string index BBBB)
  deriving Repr

/-! ## dynamic state -/

structure MCache where            -- MethodIdItem.class_idx_value / proto_idx_value / name_idx_value
  cls : String
  desc : String
  name : String
  deriving Repr, DecidableEq

structure FCache where            -- FieldIdItem.class_idx_value / type_idx_value / name_idx_value
  cls : String
  typ : String
  name : String
  deriving Repr, DecidableEq

structure ECache where            -- EncodedMethod/EncodedField: loaded, class_name, name, proto
  loaded : Bool
  cls : Option String
  name : Option String
  desc : Option String
  deriving Repr, DecidableEq

structure CCache where            -- ClassDefItem.name / sname
  name : String
  sname : String
  deriving Repr, DecidableEq

structure State where
  strHooks : Nat → Option String   -- hook_strings
  typeHooks : Nat → Option String  -- hook_types
  methHooks : Nat → Option String  -- hook_names, MethodIdItem keys (by method index)
  fldHooks : Nat → Option String   -- hook_names, FieldIdItem keys (by field index)
  mc : Nat → MCache
  fc : Nat → FCache
  em : Nat → ECache
  ef : Nat → ECache
  cc : Nat → CCache

def upd {α} (f : Nat → α) (i : Nat) (v : α) : Nat → α := fun j => if j = i then v else f j

/-! ## readers -/

def rawString (d : Dex) (i : Nat) : String :=
  match d.strings[i]? with
  | some s => s
  | none => "AG:IS: invalid string"

/-- ClassManager.get_string -/
def getString (d : Dex) (s : State) (i : Nat) : String :=
  match s.strHooks i with
  | some h => h
  | none => rawString d i

/-- ClassManager.get_type -/
def getType (cfg : Cfg) (d : Dex) (s : State) (t : Nat) : String :=
  match d.types[t]? with
  | none => "AG:ITI: invalid type"
  | some si =>
    match (if cfg.typeUsesHook then s.typeHooks t else none) with
    | some h => h
    | none => getString d s si

/-- the type name as it is in the file -/
def rawType (d : Dex) (t : Nat) : String :=
  match d.types[t]? with
  | none => "AG:ITI: invalid type"
  | some si => rawString d si

/-- `proto_idx_value` as concatenated by get_descriptor / EncodedMethod.reload. Both ProtoIdItem
    caches (`return_type_idx_value` set in the constructor, `parameters_off_value` filled by the
    first `get_proto`, which MethodIdItem.__init__ triggers while the file is parsed) are never
    invalidated, so the descriptor is the one of the file for ever. -/
def protoDesc (d : Dex) (p : Nat) : String :=
  match d.protos[p]? with
  | none => "AG:IPI:invalid"
  | some pr => "(" ++ " ".intercalate (pr.params.map (rawType d)) ++ ")" ++ rawType d pr.ret

/-- CM.get_item_name(method) (fixed code) or CM.get_string(name_idx) (per-string-index code) -/
def methName (cfg : Cfg) (d : Dex) (s : State) (m : Nat) (mid : MethodId) : String :=
  match (if cfg.methUsesHook then s.methHooks m else none) with
  | some h => h
  | none => getString d s mid.name

def fldName (cfg : Cfg) (d : Dex) (s : State) (f : Nat) (fid : FieldId) : String :=
  match (if cfg.fldUsesHook then s.fldHooks f else none) with
  | some h => h
  | none => getString d s fid.name

/-! ## reloads -/

def freshM (cfg : Cfg) (d : Dex) (s : State) (m : Nat) (mid : MethodId) : MCache :=
  { cls := getType cfg d s mid.cls, desc := protoDesc d mid.proto, name := methName cfg d s m mid }

def freshF (cfg : Cfg) (d : Dex) (s : State) (f : Nat) (fid : FieldId) : FCache :=
  { cls := getType cfg d s fid.cls, typ := getType cfg d s fid.typ, name := fldName cfg d s f fid }

/-- MethodIdItem.reload -/
def reloadM (cfg : Cfg) (d : Dex) (s : State) (m : Nat) : State :=
  match d.methods[m]? with
  | none => s
  | some mid => { s with mc := upd s.mc m (freshM cfg d s m mid) }

/-- FieldIdItem.reload -/
def reloadF (cfg : Cfg) (d : Dex) (s : State) (f : Nat) : State :=
  match d.fields[f]? with
  | none => s
  | some fid => { s with fc := upd s.fc f (freshF cfg d s f fid) }

/-- MethodHIdItem.reload: every iteration reads only the hook tables and writes only its own
    cache, so the loop equals the simultaneous update. -/
def reloadAllM (cfg : Cfg) (d : Dex) (s : State) : State :=
  { s with mc := fun m => match d.methods[m]? with
                          | some mid => freshM cfg d s m mid
                          | none => s.mc m }

def reloadAllF (cfg : Cfg) (d : Dex) (s : State) : State :=
  { s with fc := fun f => match d.fields[f]? with
                          | some fid => freshF cfg d s f fid
                          | none => s.fc f }

/-- what EncodedMethod.reload stores: CM.get_method(idx) = the id item's *cached* values -/
def freshEM (s : State) (old : ECache) (m : Nat) : ECache :=
  { loaded := old.loaded, cls := some (s.mc m).cls, name := some (s.mc m).name,
    desc := some (s.mc m).desc }

def freshEF (s : State) (old : ECache) (f : Nat) : ECache :=
  { loaded := old.loaded, cls := some (s.fc f).cls, name := some (s.fc f).name,
    desc := some (s.fc f).typ }

/-- EncodedMethod.reload -/
def reloadEM (d : Dex) (s : State) (e : Nat) : State :=
  match d.encMethods[e]? with
  | none => s
  | some (m, _) => { s with em := upd s.em e (freshEM s (s.em e) m) }

def reloadEF (d : Dex) (s : State) (e : Nat) : State :=
  match d.encFields[e]? with
  | none => s
  | some (f, _) => { s with ef := upd s.ef e (freshEF s (s.ef e) f) }

/-- EncodedMethod.load -/
def loadEM (d : Dex) (s : State) (e : Nat) : State :=
  if (s.em e).loaded then s
  else
    let s1 := reloadEM d s e
    { s1 with em := upd s1.em e { s1.em e with loaded := true } }

def loadEF (d : Dex) (s : State) (e : Nat) : State :=
  if (s.ef e).loaded then s
  else
    let s1 := reloadEF d s e
    { s1 with ef := upd s1.ef e { s1.ef e with loaded := true } }

/-- the loops over class_def.get_methods() / get_fields(): each iteration reads the id caches and
    writes its own encoded item -/
def reloadOwnEM (d : Dex) (s : State) (c : Nat) : State :=
  { s with em := fun e => match d.encMethods[e]? with
                          | some (m, o) => if o = c then freshEM s (s.em e) m else s.em e
                          | none => s.em e }

def reloadOwnEF (d : Dex) (s : State) (c : Nat) : State :=
  { s with ef := fun e => match d.encFields[e]? with
                          | some (f, o) => if o = c then freshEF s (s.ef e) f else s.ef e
                          | none => s.ef e }

/-- ClassDefItem.reload (names only) -/
def reloadC (cfg : Cfg) (d : Dex) (s : State) (c : Nat) : State :=
  match d.classes[c]? with
  | none => s
  | some cd => { s with cc := upd s.cc c { name := getType cfg d s cd.cls, sname := getType cfg d s cd.sup } }

/-- ClassHDefItem.get_class_idx(idx) is not None -/
def hasClassDef (d : Dex) (t : Nat) : Bool := d.classes.any (fun cd => cd.cls == t)

/-! ## the setters, interpreted from the extracted programs -/

def actClass (cfg : Cfg) (d : Dex) (c : Nat) (cd : ClassDef) (v : String) (s : State) : Act → State
  | .hookItem => { s with typeHooks := upd s.typeHooks cd.cls (some v) }
  | .hookString =>
    match d.types[cd.cls]? with
    | some si => { s with strHooks := upd s.strHooks si (some v) }
    | none => s        -- hook_strings[-1]: never read
  | .reloadClassDef => reloadC cfg d s c
  | .reloadAllMethodIds => reloadAllM cfg d s
  | .reloadAllFieldIds => reloadAllF cfg d s
  | .reloadOwnMethods => reloadOwnEM d s c
  | .reloadOwnFields => reloadOwnEF d s c
  | _ => s

def actMeth (cfg : Cfg) (d : Dex) (e m : Nat) (mid : MethodId) (v : String) (s : State) : Act → State
  | .hookItem => { s with methHooks := upd s.methHooks m (some v) }
  | .hookString => { s with strHooks := upd s.strHooks mid.name (some v) }
  | .touchEnc => if hasClassDef d mid.cls then loadEM d s e else s
  | .reloadId => reloadM cfg d s m
  | .reloadEnc => reloadEM d s e
  | _ => s

def actFld (cfg : Cfg) (d : Dex) (e f : Nat) (fid : FieldId) (v : String) (s : State) : Act → State
  | .hookItem => { s with fldHooks := upd s.fldHooks f (some v) }
  | .hookString => { s with strHooks := upd s.strHooks fid.name (some v) }
  | .touchEnc => if hasClassDef d fid.cls then loadEF d s e else s
  | .reloadId => reloadF cfg d s f
  | .reloadEnc => reloadEF d s e
  | _ => s

/-! ## operations -/

inductive Op where
  | renameClass (c : Nat) (v : String)    -- ClassDefItem.set_name
  | renameMethod (e : Nat) (v : String)   -- EncodedMethod.set_name
  | renameField (e : Nat) (v : String)    -- EncodedField.set_name
  | reloadClass (c : Nat)
  | reloadEncMethod (e : Nat)
  | reloadEncField (e : Nat)
  | reloadMethodId (m : Nat)
  | reloadFieldId (f : Nat)
  | className (c : Nat)                   -- ClassDefItem.get_name
  | superName (c : Nat)                   -- ClassDefItem.get_superclassname
  | methodName (e : Nat)                  -- EncodedMethod.get_name
  | methodClass (e : Nat)                 -- EncodedMethod.get_class_name
  | methodDesc (e : Nat)                  -- EncodedMethod.get_descriptor
  | fieldName (e : Nat)
  | fieldClass (e : Nat)
  | fieldDesc (e : Nat)
  | midName (m : Nat)                     -- MethodIdItem.get_name
  | midClass (m : Nat)
  | midDesc (m : Nat)
  | fidName (f : Nat)                     -- FieldIdItem.get_name
  | fidClass (f : Nat)
  | fidDesc (f : Nat)
  | constString (k : Nat)                 -- Instruction21c.get_output of the k-th const-string
  | invokeText (m : Nat)                  -- get_kind(cm, Kind.METH, m)
  | fieldText (f : Nat)                   -- get_kind(cm, Kind.FIELD, f)
  deriving Repr

inductive Out where
  | unit
  | str (s : String)
  | err
  deriving Repr, DecidableEq

def outOpt : Option String → Out
  | some x => .str x
  | none => .err

def step (cfg : Cfg) (d : Dex) (s : State) : Op → State × Out
  | .renameClass c v =>
    match d.classes[c]? with
    | none => (s, .err)
    | some cd => (cfg.clsProg.foldl (actClass cfg d c cd v) s, .unit)
  | .renameMethod e v =>
    match d.encMethods[e]? with
    | none => (s, .err)
    | some (m, _) =>
      match d.methods[m]? with
      | none => (s, .err)
      | some mid => (cfg.methProg.foldl (actMeth cfg d e m mid v) s, .unit)
  | .renameField e v =>
    match d.encFields[e]? with
    | none => (s, .err)
    | some (f, _) =>
      match d.fields[f]? with
      | none => (s, .err)
      | some fid => (cfg.fldProg.foldl (actFld cfg d e f fid v) s, .unit)
  | .reloadClass c => if c < d.classes.length then (reloadC cfg d s c, .unit) else (s, .err)
  | .reloadEncMethod e => if e < d.encMethods.length then (reloadEM d s e, .unit) else (s, .err)
  | .reloadEncField e => if e < d.encFields.length then (reloadEF d s e, .unit) else (s, .err)
  | .reloadMethodId m => if m < d.methods.length then (reloadM cfg d s m, .unit) else (s, .err)
  | .reloadFieldId f => if f < d.fields.length then (reloadF cfg d s f, .unit) else (s, .err)
  | .className c => if c < d.classes.length then (s, .str (s.cc c).name) else (s, .err)
  | .superName c => if c < d.classes.length then (s, .str (s.cc c).sname) else (s, .err)
  | .methodName e =>
    if e < d.encMethods.length then let s1 := loadEM d s e; (s1, outOpt (s1.em e).name) else (s, .err)
  | .methodClass e =>
    if e < d.encMethods.length then let s1 := loadEM d s e; (s1, outOpt (s1.em e).cls) else (s, .err)
  | .methodDesc e =>
    if e < d.encMethods.length then let s1 := loadEM d s e; (s1, outOpt (s1.em e).desc) else (s, .err)
  | .fieldName e =>
    if e < d.encFields.length then let s1 := loadEF d s e; (s1, outOpt (s1.ef e).name) else (s, .err)
  | .fieldClass e =>
    if e < d.encFields.length then let s1 := loadEF d s e; (s1, outOpt (s1.ef e).cls) else (s, .err)
  | .fieldDesc e =>
    if e < d.encFields.length then let s1 := loadEF d s e; (s1, outOpt (s1.ef e).desc) else (s, .err)
  | .midName m => if m < d.methods.length then (s, .str (s.mc m).name) else (s, .err)
  | .midClass m => if m < d.methods.length then (s, .str (s.mc m).cls) else (s, .err)
  | .midDesc m => if m < d.methods.length then (s, .str (s.mc m).desc) else (s, .err)
  | .fidName f => if f < d.fields.length then (s, .str (s.fc f).name) else (s, .err)
  | .fidClass f => if f < d.fields.length then (s, .str (s.fc f).cls) else (s, .err)
  | .fidDesc f => if f < d.fields.length then (s, .str (s.fc f).typ) else (s, .err)
  | .constString k =>
    match d.consts[k]? with
    | none => (s, .err)
    | some (reg, si) =>
      let txt := if cfg.constUsesStringHook then getString d s si else rawString d si
      (s, .str ("v" ++ toString reg ++ ", \"" ++ txt ++ "\""))
  | .invokeText m =>
    if m < d.methods.length then
      (s, .str ((s.mc m).cls ++ "->" ++ (s.mc m).name ++ (s.mc m).desc)) else (s, .err)
  | .fieldText f =>
    if f < d.fields.length then
      (s, .str ((s.fc f).cls ++ "->" ++ (s.fc f).name ++ " " ++ (s.fc f).typ)) else (s, .err)

/-- outputs of a history -/
def outs (cfg : Cfg) (d : Dex) : State → List Op → List Out
  | _, [] => []
  | s, op :: rest => (step cfg d s op).2 :: outs cfg d (step cfg d s op).1 rest

/-- the state right after `DEX(bytes)`: no hooks; id items and class defs were reloaded by their
    constructors; encoded items are not loaded yet -/
def init (d : Dex) : State :=
  { strHooks := fun _ => none, typeHooks := fun _ => none,
    methHooks := fun _ => none, fldHooks := fun _ => none,
    mc := fun m => match d.methods[m]? with
      | some mid => { cls := rawType d mid.cls, desc := protoDesc d mid.proto, name := rawString d mid.name }
      | none => { cls := "", desc := "", name := "" },
    fc := fun f => match d.fields[f]? with
      | some fid => { cls := rawType d fid.cls, typ := rawType d fid.typ, name := rawString d fid.name }
      | none => { cls := "", typ := "", name := "" },
    em := fun _ => { loaded := false, cls := none, name := none, desc := none },
    ef := fun _ => { loaded := false, cls := none, name := none, desc := none },
    cc := fun c => match d.classes[c]? with
      | some cd => { name := rawType d cd.cls, sname := rawType d cd.sup }
      | none => { name := "", sname := "" } }

/-! ## well-formedness -/

def nodupB : List Nat → Bool
  | [] => true
  | x :: xs => !xs.contains x && nodupB xs

/-- what the refinement theorem needs: every class_def names a type of the file and no two
    class_defs / encoded methods / encoded fields denote the same item (the DEX format requires
    all of it: class_defs are unique, class_data members are strictly increasing). -/
def Dex.wf (d : Dex) : Bool :=
  d.classes.all (fun cd => cd.cls < d.types.length) &&
  nodupB (d.classes.map (·.cls)) &&
  d.encMethods.all (fun p => p.1 < d.methods.length) &&
  nodupB (d.encMethods.map (·.1)) &&
  d.encFields.all (fun p => p.1 < d.fields.length) &&
  nodupB (d.encFields.map (·.1))

/-- every index of every table is in range (what the driver insists on before it answers) -/
def Dex.wfFull (d : Dex) : Bool :=
  d.wf &&
  d.types.all (· < d.strings.length) &&
  d.protos.all (fun p => p.ret < d.types.length && p.params.all (· < d.types.length)) &&
  d.fields.all (fun f => f.cls < d.types.length && f.typ < d.types.length && f.name < d.strings.length) &&
  d.methods.all (fun m => m.cls < d.types.length && m.proto < d.protos.length && m.name < d.strings.length) &&
  d.encMethods.all (fun p => p.2 < d.classes.length) &&
  d.encFields.all (fun p => p.2 < d.classes.length) &&
  d.consts.all (fun p => p.2 < d.strings.length)

end AgVerif.Rename
