/-
C22 (part 5) — model of `control_flow.derived_sequence` (androguard/decompiler/control_flow.py:101-123)
together with the part of `intervals` (lines 34-98) that builds the interval graph.

    def derived_sequence(graph):
        deriv_seq = [graph]; deriv_interv = []; single_node = False
        while not single_node:
            interv_graph, interv_heads = intervals(graph)
            deriv_interv.append(interv_heads)
            single_node = len(interv_graph) == 1
            if not single_node:
                deriv_seq.append(interv_graph)
            graph = interv_graph
            graph.compute_rpo()
        return deriv_seq, deriv_interv

There is NO "graph did not change" exit in this code: the loop ends only when the interval graph has a
single node.  It still ends on irreducible graphs, because of how `intervals` records the edges of the
interval graph (quirk Q below); `Proof/DerivedSeq.lean` proves termination with an explicit bound.

`intervals` builds the interval graph from the dict `edges`:

            for node in graph:
                if node not in interv_heads[head] and node not in heads:
                    if any(p in interv_heads[head] for p in graph.all_preds(node)):
                        edges[interv_heads[head]].append(node)
                        heads.append(node)
            interval_graph.add_node(interv_heads[head])
        ...
        for interval, heads in edges.items():
            for head in heads:
                interval_graph.add_edge(interval, interv_heads[head])
        interval_graph.entry = graph.entry.interval

Q: an edge I(h) → I(n) is recorded only when `n` is APPENDED to the work list during the processing of `h`;
when `n` is still pending (appended by an earlier interval and not yet popped) the edge is not recorded.
The interval graph can therefore miss edges, and which ones depends on the order of `graph.nodes`.

Everything iterated here is a list or an insertion-ordered dict (`edges`, `interv_heads`, `processed`);
there is no hash-iteration site.  Canonical naming: the nodes of an interval graph are named by their
position in `interval_graph.nodes` (= insertion order of `interv_heads` = processing order); position 0
is the interval of the entry whenever the entry is `rpo[0]`.
-/
import AgVerif.Model.Intervals
import AgVerif.Model.Rpo
namespace AgVerif.DerivedSeq
open AgVerif AgVerif.Intervals

/-- what `intervals` reads of a `Graph` -/
structure Level where
  /-- `graph.all_preds` -/
  preds : Nat → List Nat
  /-- `graph.rpo[1:]` -/
  order : List Nat
  /-- `graph.nodes` -/
  nodes : List Nat
  entry : Nat

/-- the `while heads:` loop of `intervals` with the dict `edges` as a list of records
    `(head of the interval, appended node)` in the order of the `append` calls -/
def loopG (preds : Nat → List Nat) (order nodes : List Nat) (ifuel : Nat) :
    Nat → List Nat → List Nat → List (Nat × List Nat) → List (Nat × Nat) →
    Option (List (Nat × List Nat) × List (Nat × Nat))
  | 0, _, _, _, _ => none
  | _ + 1, [], _, out, recs => some (out, recs)
  | f + 1, h :: heads, processed, out, recs =>
    if processed.contains h then loopG preds order nodes ifuel f heads processed out recs
    else
      match intervalOf preds order ifuel h with
      | none => none
      | some I =>
        let hs := newHeads preds nodes I heads
        loopG preds order nodes ifuel f hs (h :: processed) (out ++ [(h, I)])
          (recs ++ (hs.drop heads.length).map (fun n => (h, n)))

/-- `intervals(graph)`: `interv_heads` and the records of `edges` -/
def intervalsG (L : Level) : Option (List (Nat × List Nat) × List (Nat × Nat)) :=
  loopG L.preds L.order L.nodes (L.order.length + 2)
    ((L.nodes.length + 1) * (L.nodes.length + 1) + 2) [L.entry] [] [] []

/-- position of the interval with head `h` in `interval_graph.nodes` -/
def idx (heads : List Nat) (h : Nat) : Nat := heads.idxOf h

/-- `graph.entry.interval`: `node.interval` is overwritten by every `Interval(head)` / `add_node`, the
    intervals are built one after the other, so it is the LAST interval whose content has the entry -/
def entryIdx (out : List (Nat × List Nat)) (entry : Nat) : Nat :=
  (out.zipIdx.foldl (fun acc p => if p.1.2.contains entry then p.2 else acc) 0)

/-- the interval graph as a `Graph`: `edges[i]` in the order of the `add_edge` calls, no catch edges.
    (`add_edge` skips an edge that is already there; the records are pairwise distinct.) -/
def intervalDigraph (out : List (Nat × List Nat)) (recs : List (Nat × Nat)) (entry : Nat) : Digraph :=
  let heads := out.map Prod.fst
  { n := out.length
    entry := entryIdx out entry
    edges := heads.map (fun h => (recs.filter (fun r => r.1 == h)).map (fun r => idx heads r.2))
    catchEdges := [] }

/-- `reverse_edges[i]` of the interval graph, in the order of the `add_edge` calls -/
def intervalPreds (heads : List Nat) (recs : List (Nat × Nat)) (i : Nat) : List Nat :=
  (recs.filter (fun r => idx heads r.2 == i)).map (fun r => idx heads r.1)

/-- insert `x` behind every element whose key is not larger -/
def insertBy (num : Nat → Nat) (x : Nat) : List Nat → List Nat
  | [] => [x]
  | y :: ys => if num x < num y then x :: y :: ys else y :: insertBy num x ys

/-- `sorted(l, key=num)`: a stable sort (left-to-right insertion; structural, so that it evaluates in the
    kernel — `Rpo.Result.rpo` is the same list produced by `List.mergeSort`) -/
def sortBy (num : Nat → Nat) (l : List Nat) : List Nat :=
  l.foldl (fun acc x => insertBy num x acc) []

/-- `graph = interv_graph; graph.compute_rpo()`; `none` = the DFS model ran out of fuel -/
def nextLevel (out : List (Nat × List Nat)) (recs : List (Nat × Nat)) (entry : Nat) : Option (Level × List Nat) :=
  let dg := intervalDigraph out recs entry
  match Rpo.computeRpo dg with
  | none => none
  | some r =>
    let rpo := sortBy r.num (List.range out.length)
    some ({ preds := intervalPreds (out.map Prod.fst) recs
            order := rpo.drop 1
            nodes := List.range out.length
            entry := dg.entry }, rpo)

/-- one element of the derived sequence: `interv_heads` of the level, the records of the edges of its
    interval graph, `rpo` and `entry` of the interval graph (positions) -/
structure Step where
  heads : List (Nat × List Nat)
  recs : List (Nat × Nat)
  rpo : List Nat
  /-- `interval_graph.entry` (position) -/
  entry : Nat
  deriving Repr, DecidableEq

/-- `derived_sequence`, one unit of fuel per `while not single_node` iteration -/
def derive : Nat → Level → List Step → Option (List Step)
  | 0, _, _ => none
  | f + 1, L, acc =>
    match intervalsG L with
    | none => none
    | some (out, recs) =>
      match nextLevel out recs L.entry with
      | none => none
      | some (L', rpo) =>
        let acc' := acc ++ [⟨out, recs, rpo, L'.entry⟩]
        if out.length == 1 then some acc' else derive f L' acc'

/-- number of predecessor slots `Σ_{v ∈ nodes} |all_preds v|` -/
def predSum (L : Level) : Nat := (L.nodes.map (fun n => (L.preds n).length)).sum

/-- enough for every level whose `rpo[0]` is the entry, which has a predecessor for every other node and
    lists every node once (theorem `derived_sequence_terminates`) -/
def fuel (L : Level) : Nat := predSum L + 1

def derivedSequence (L : Level) : Option (List Step) := derive (fuel L) L []

end AgVerif.DerivedSeq
