/-
The decompiler's `Graph` as far as `all_sucs` is concerned
(androguard/decompiler/graph.py:39-56).  Imports only the textbook graph notions of Spec/Digraph.lean.

Nodes are identified with their position in `Graph.nodes` (0 … n-1).
`edges[v]` is `Graph.edges.get(v, [])`, `catchEdges[v]` is `Graph.catch_edges.get(v, [])`,
both in list order (the order decides the DFS).  A node may occur in both lists.
-/
import AgVerif.Spec.Digraph
namespace AgVerif

structure Digraph where
  n : Nat
  entry : Nat
  edges : List (List Nat)
  catchEdges : List (List Nat)
  deriving Repr

namespace Digraph

/-- `Graph.all_sucs`: `self.edges.get(node, []) + self.catch_edges.get(node, [])` -/
def allSucs (g : Digraph) (v : Nat) : List Nat :=
  (g.edges[v]?).getD [] ++ (g.catchEdges[v]?).getD []

/-- the edge relation: normal and catch edges -/
def Edge (g : Digraph) (u v : Nat) : Prop := v ∈ g.allSucs u

/-- every node is reachable from the entry (what `construct` builds; DESIGN §10, C19) -/
def Rooted (g : Digraph) : Prop := ∀ v, v < g.n → Spec.Reach g.Edge g.entry v

/-- every node mentioned is one of `Graph.nodes` (what `construct` builds) -/
def WF (g : Digraph) : Prop :=
  g.entry < g.n ∧ ∀ u, ∀ v ∈ g.allSucs u, v < g.n

def wfb (g : Digraph) : Bool :=
  decide (g.entry < g.n) &&
  g.edges.all (fun l => l.all (fun v => decide (v < g.n))) &&
  g.catchEdges.all (fun l => l.all (fun v => decide (v < g.n)))

/-- number of edge slots `Σ_v |all_sucs v|` over the first `k` nodes -/
def degSum (g : Digraph) : Nat → Nat
  | 0 => 0
  | k + 1 => degSum g k + (g.allSucs k).length

end Digraph
end AgVerif
