/-
What a branch of `EncodedValue.__init__` (androguard/core/dex/__init__.py) does with the bytes that
follow the header byte.  The table `AgVerif.Gen.ValueTypes.dispatch` (generated from the source on every
run) maps each value_type to one of these.   (imports nothing)
-/
namespace AgVerif.EncodedValue

inductive Kind
  | intS        -- `_getintvalue(buff.read(value_arg + 1), signed=True)`
  | intU        -- `_getintvalue(buff.read(value_arg + 1))`
  | float32     -- `_getfloatvalue(buff.read(value_arg + 1), 4)`
  | float64     -- `_getfloatvalue(buff.read(value_arg + 1), 8)`
  | str         -- unsigned index, `cm.get_raw_string(id)`
  | type        -- unsigned index, `cm.get_type(id)`
  | field       -- unsigned index, `cm.get_field(id)`   (VALUE_FIELD and VALUE_ENUM)
  | method      -- unsigned index, `cm.get_method(id)`
  | array       -- `EncodedArray(buff, cm)`
  | annotation  -- `EncodedAnnotation(buff, cm)`
  | sbyte       -- `get_sbyte(cm, buff)`
  | ubyte       -- `get_byte(cm, buff)`
  | null        -- `None`
  | bool        -- `True if value_arg else False`
  | unknown     -- the final `else`: a warning, value stays ""
  deriving DecidableEq, Repr

end AgVerif.EncodedValue
