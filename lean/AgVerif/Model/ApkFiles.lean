/-
C34 — model of the file-access methods of `androguard.core.apk.APK` (fixed tree: fixes/C34-dex-name-regex.diff).

    get_files      return self.zip.namelist()
    get_file       try: return self.zip.read(filename)   except KeyError: raise FileNotPresent(filename)
    get_dex_names  dexre = re.compile(r"classes([0-9]*)\.dex")
                   return filter(lambda x: dexre.fullmatch(x), self.get_files())
    get_all_dex    for dex_name in self.get_dex_names(): yield self.get_file(dex_name)
    is_multidex    dexre = re.compile(r"classes([0-9]+)?\.dex")
                   return len([i for i in self.get_files() if dexre.fullmatch(i)]) > 1

The archive is a parameter `entries : List (Name × Bytes)` (central-directory order, names distinct):
reading the zip container (apkInspector + zlib) is not modelled; it is tied to Python's `zipfile`
by the correspondence/oracle of harness/props/c34.py only.

The two regular expressions are compiled BY HAND into Boolean predicates on `List Char`.  The
pattern texts and the method called on the compiled pattern are pinned by
`AgVerif.C34.regex_pinned` against lean/AgVerif/Gen/ApkRegex.lean (regenerated from the source on
every run).  `fullmatch` means the whole name must be consumed: no `^`/`$` subtleties.
Python `str` patterns: `[0-9]` is exactly the ten ASCII digits (unlike `\d`).
-/
import AgVerif.Gen.ApkRegex
namespace AgVerif.ApkFiles

abbrev Name := List Char
abbrev Bytes := List Nat

/-- the exceptions the modelled methods raise -/
inductive Err where
  | fileNotPresent
  deriving DecidableEq, Repr

/-- the character class `[0-9]` -/
def isDig (c : Char) : Bool := '0' ≤ c && c ≤ '9'

/-- match a literal at the start of the subject: the rest after it, or `none` -/
def stripPrefix : List Char → List Char → Option (List Char)
  | [], s => some s
  | _ :: _, [] => none
  | p :: ps, c :: cs => if p = c then stripPrefix ps cs else none

/-- the literal `classes` -/
def litClasses : List Char := ['c', 'l', 'a', 's', 's', 'e', 's']
/-- the literal `\.dex` (escaped dot: the character `.` only) -/
def litDotDex : List Char := ['.', 'd', 'e', 'x']

/-- greedy `[0-9]*`: what is left after the longest run of digits.  Greedy without backtracking
    is exact here because the next pattern element is the literal `.`, which is not a digit
    (proved: `AgVerif.C34.dex_name_spec`). -/
def dropDigits : List Char → List Char
  | [] => []
  | c :: cs => if isDig c then dropDigits cs else c :: cs

/-- `re.compile(r"classes([0-9]*)\.dex").fullmatch(n) is not None`:
    literal, digit star, literal, end of subject. -/
def dexMatch (n : Name) : Bool :=
  match stripPrefix litClasses n with
  | none => false
  | some r => dropDigits r == litDotDex

/-- `re.compile(r"classes([0-9]+)?\.dex").fullmatch(n) is not None`:
    literal, then EITHER the optional group takes part (one digit, then digit star) OR it is
    skipped, then literal, end of subject. -/
def multidexMatch (n : Name) : Bool :=
  match stripPrefix litClasses n with
  | none => false
  | some r =>
    (match r with
     | c :: cs => isDig c && dropDigits cs == litDotDex    -- group present: [0-9]+
     | [] => false)
    || r == litDotDex                                       -- group absent

/-- `get_dex_names` applied to the list `get_files()` returns: a filter, archive order kept -/
def dexNames (names : List Name) : List Name := names.filter dexMatch

/-- `is_multidex` on the list `get_files()` returns -/
def isMultidex (names : List Name) : Bool := decide (1 < (names.filter multidexMatch).length)

/-- `get_files`: the names in central-directory order -/
def getFiles (entries : List (Name × Bytes)) : List Name := entries.map Prod.fst

/-- `get_file`: the content of the entry of that name; `KeyError → FileNotPresent` -/
def getFile : List (Name × Bytes) → Name → Except Err Bytes
  | [], _ => .error .fileNotPresent
  | (m, b) :: rest, n => if m = n then .ok b else getFile rest n

/-- `get_all_dex` (the generator run to completion): `get_file` of each DEX name, in order -/
def getAllDex (entries : List (Name × Bytes)) : List (Except Err Bytes) :=
  (dexNames (getFiles entries)).map (getFile entries)

/-! ### the name-keyed dict apkInspector builds from the central directory
`CentralDirectory.parse`: `central_directory_entries[entry.filename] = entry` for every file header in
directory order (a Python dict: a repeated key keeps its first POSITION and takes the last VALUE);
`ZipEntry.namelist()` lists its keys, `ZipEntry.read(name)` reads the member of the stored header
(`KeyError` when the key is absent).  `entries` of the functions above is this dict as an association
list with distinct keys; `dictOf` builds it from the headers (names may repeat). -/

/-- Python `d[k] = v` on an insertion-ordered dict -/
def dictSet : List (Name × Bytes) → Name → Bytes → List (Name × Bytes)
  | [], k, v => [(k, v)]
  | (m, b) :: rest, k, v => if m = k then (m, v) :: rest else (m, b) :: dictSet rest k v

/-- the dict after inserting every header of the central directory in order -/
def dictOf (cd : List (Name × Bytes)) : List (Name × Bytes) :=
  cd.foldl (fun d e => dictSet d e.1 e.2) []

/-! ### Specification of a DEX name (a statement, not executable)
"all files in the root directory of the APK named `classes.dex` or `classes[0-9]+.dex`":
the characters `classes`, zero or more ASCII digits, the characters `.dex`, nothing else. -/
def IsDexName (n : Name) : Prop :=
  ∃ ds : List Char, (∀ c ∈ ds, c.isDigit = true) ∧ n = "classes".toList ++ ds ++ ".dex".toList

end AgVerif.ApkFiles
