/-
C22 (part 6) — model of `control_flow.if_struct` (androguard/decompiler/control_flow.py:205-222).
Imports nothing.

    def if_struct(graph, idoms):
        unresolved = set()
        for node in graph.post_order():
            if node.type.is_cond:
                ldominates = []
                for n, idom in idoms.items():
                    if node is idom and len(graph.reverse_edges.get(n, [])) > 1:
                        ldominates.append(n)
                if len(ldominates) > 0:
                    n = max(ldominates, key=lambda x: x.num)
                    node.follow['if'] = n
                    for x in unresolved.copy():
                        if node.num < x.num < n.num:
                            x.follow['if'] = n
                            unresolved.remove(x)
                else:
                    unresolved.add(node)
        return unresolved

Two orders are not fixed by the arguments:
  * the order of `idoms.items()` — `idoms` is the dict built by `dom_lt`, whose insertion order follows the
    set iterations inside `dom_lt` (B3); here it is the ORDER of the list `idoms`;
  * the enumeration of the set `unresolved.copy()` (hash-iteration site B1 of Gen/OrderSites.lean) — here the
    parameter `ord` (what the set, given as the list of its elements in insertion order, is enumerated as).
`Proof/IfStruct.lean` proves that neither matters when the numbers `num` are pairwise different.
-/
namespace AgVerif.IfStruct

/-- Python's `max(l, key=num)`: the FIRST element whose key is maximal -/
def maxFirst (num : Nat → Nat) : List Nat → Option Nat
  | [] => none
  | a :: l =>
    match maxFirst num l with
    | none => some a
    | some b => if num a < num b then some b else some a

/-- `ldominates`: the nodes immediately dominated by `node` that have more than one predecessor -/
def ldominates (idoms : List (Nat × Nat)) (nrev : Nat → Nat) (node : Nat) : List Nat :=
  (idoms.filter (fun p => p.2 == node && decide (1 < nrev p.1))).map Prod.fst

structure St where
  /-- `x.follow['if']` -/
  follow : Nat → Option Nat
  /-- the set `unresolved`, as the list of its elements in insertion order -/
  unresolved : List Nat

/-- `for x in unresolved.copy(): if node.num < x.num < n.num: x.follow['if'] = n; unresolved.remove(x)` -/
def resolve (num : Nat → Nat) (node n : Nat) (s : St) (enum : List Nat) : St :=
  enum.foldl (fun s x =>
    if num node < num x && num x < num n then
      { follow := fun y => if y = x then some n else s.follow y, unresolved := s.unresolved.erase x }
    else s) s

/-- the body of `for node in graph.post_order()` -/
def step (ord : List Nat → List Nat) (isCond : Nat → Bool) (idoms : List (Nat × Nat)) (nrev num : Nat → Nat)
    (s : St) (node : Nat) : St :=
  if isCond node then
    match maxFirst num (ldominates idoms nrev node) with
    | some n =>
      resolve num node n { s with follow := fun y => if y = node then some n else s.follow y } (ord s.unresolved)
    | none =>
      -- `unresolved.add(node)`
      { s with unresolved := if s.unresolved.contains node then s.unresolved else s.unresolved ++ [node] }
  else s

/-- `if_struct(graph, idoms)`; `post` = `graph.post_order()` -/
def ifStruct (ord : List Nat → List Nat) (post : List Nat) (isCond : Nat → Bool) (idoms : List (Nat × Nat))
    (nrev num : Nat → Nat) : St :=
  post.foldl (step ord isCond idoms nrev num) ⟨fun _ => none, []⟩

end AgVerif.IfStruct
