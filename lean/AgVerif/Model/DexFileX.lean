/-
Extension of the DEX object model of Model/DexFile.lean (C05, C07) by the item types that carry
encoded values and annotations:

  ENCODED_ARRAY_ITEM (0x2005)          EncodedArrayItem → EncodedArray → EncodedValue (eager lookups)
  ANNOTATION_ITEM (0x2004)             visibility byte + EncodedAnnotation
  ANNOTATION_SET_ITEM (0x1003)         size + annotation_off entries (offsets are only stored)
  ANNOTATION_SET_REF_LIST (0x1002)     size + annotations_off entries (offsets are only stored)
  ANNOTATIONS_DIRECTORY_ITEM (0x2006)  class_annotations_off, three sizes, (idx, annotations_off) pairs
                                       (offsets are only stored)
  CLASS_DEF_ITEM (0x0006)              ClassDefItem.reload in full: after name / superclass /
                                       interfaces / class data (the base model) it looks up the
                                       annotations directory and the static values and calls
                                       ClassDataItem.set_static_fields

`CMx` = the base ClassManager state + the four new tables + the history of set_static_fields calls
(class data items are shared objects keyed by offset: two class defs with the same class_data_off
write the init values of the same EncodedField objects).  `stepX` = MapItem.parse for the new types,
the base `step` for all others.  `parseDexX` = the same load loop with `stepX`, and the extended view.
`Proof/DexXSim.lean` shows that the base components of `stepX`/`parseDexX` are `step`/`parseDex`.

The encoded_value decoder is the one of Model/EncodedValue.lean (C04) with the ClassManager
lookups allowed to raise (`Look`): `cm.get_raw_string`, `cm.get_type`, `cm.get_field`,
`cm.get_method` raise KeyError when the id section has not been registered yet.
Strings are raw MUTF-8 bytes as in the base model; inside `Value.ref` they are carried as `String`s
with one character per byte (`bstr`).
-/
import AgVerif.Model.DexFile
import AgVerif.Model.EncodedValue
namespace AgVerif.DexFile
open AgVerif.LoadOrder AgVerif.Gen.ValueTypes
open AgVerif.EncodedValue (Value Kind kindOf getIntValue getIntNat getFloatBits bindStatics)

/-- a byte string as a `String`, one character per byte -/
def bstr (b : Bytes) : String := String.ofList (b.map Char.ofNat)

/-- the ClassManager lookups EncodedValue.__init__ calls; they may raise -/
structure Look where
  str : Nat → Except String String
  typ : Nat → Except String String
  fld : Nat → Except String (List String)
  mth : Nat → Except String (List String)

/-- ClassManager.get_field(idx) = FieldHIdItem.get(idx).get_list(): [class, type, name] -/
def getFieldList (cm : CM) (i : Nat) : Except String (List String) :=
  match cm.fieldIds with
  | none => .error "KeyError"
  | some fs =>
    match fs[i]? with
    | none => .ok ["AG:IFI:invalid_class_name;", "(AG:IFI:invalid_type)", "AG:IFI:invalid_name"]
    | some r => .ok [bstr r.clsS, bstr r.typS, bstr r.nameS]

/-- ClassManager.get_method(idx) = MethodHIdItem.get(idx).get_list(): [class, name, proto] where
    proto is the pair [parameters, return type] (flattened here), one string for an invalid index -/
def getMethodList (cm : CM) (i : Nat) : Except String (List String) :=
  match cm.methodIds with
  | none => .error "KeyError"
  | some ms =>
    match ms[i]? with
    | none => .ok ["AG:IMI:invalid_class_name;", "AG:IMI:invalid_name", "()AG:IMI:invalid_proto"]
    | some r => .ok [bstr r.clsS, bstr r.nameS, bstr r.paramsS, bstr r.retS]

def lookOf (cm : CM) : Look :=
  { str := fun i => (getString cm i).map bstr
    typ := fun i => (getType cm i).map bstr
    fld := getFieldList cm
    mth := getMethodList cm }

/-! ## encoded_value with raising lookups (mirrors EncodedValue.decodeStep / decodeValue) -/

abbrev DecX (α : Type) := Bytes → Except String (α × Nat)     -- value and bytes consumed

/-- `[X(buff, cm) for _ in range(n)]` -/
def decManyX {α : Type} (dec : DecX α) : Nat → DecX (List α)
  | 0, _ => .ok ([], 0)
  | n + 1, bs =>
    match dec bs with
    | .error e => .error e
    | .ok (v, k) =>
      match decManyX dec n (bs.drop k) with
      | .error e => .error e
      | .ok (vs, k') => .ok (v :: vs, k + k')

/-- AnnotationElement(buff, cm) -/
def decElemX (dec : DecX Value) : DecX (Nat × Value) := fun bs =>
  match Leb.readUleb bs with
  | none => .error "struct.error"
  | some (name, kn) =>
    match dec (bs.drop kn) with
    | .error e => .error e
    | .ok (v, kv) => .ok ((name, v), kn + kv)

def refX (vt : Nat) (r : Except String (List String)) (n : Nat) : Except String (Value × Nat) :=
  match r with
  | .error e => .error e
  | .ok l => .ok (.ref vt l, n)

/-- the body of EncodedValue.__init__ after the header byte -/
def decStepX (lk : Look) (dec : DecX Value) (val : Nat) (rest : Bytes) : Except String (Value × Nat) :=
  let arg := val >>> argShift
  let vt := val &&& typeMask
  let buf := rest.take (arg + 1)
  match kindOf vt with
  | .intS => .ok (.int vt (getIntValue buf true), 1 + buf.length)
  | .intU => .ok (.int vt (getIntValue buf false), 1 + buf.length)
  | .float32 => .ok (.float (getFloatBits buf 4), 1 + buf.length)
  | .float64 => .ok (.double (getFloatBits buf 8), 1 + buf.length)
  | .str => refX vt ((lk.str (getIntNat buf)).map fun s => [s]) (1 + buf.length)
  | .type => refX vt ((lk.typ (getIntNat buf)).map fun s => [s]) (1 + buf.length)
  | .field => refX vt (lk.fld (getIntNat buf)) (1 + buf.length)
  | .method => refX vt (lk.mth (getIntNat buf)) (1 + buf.length)
  | .array =>
    match Leb.readUleb rest with
    | none => .error "struct.error"
    | some (size, k) =>
      match decManyX dec size (rest.drop k) with
      | .error e => .error e
      | .ok (vs, k') => .ok (.array vs, 1 + k + k')
  | .annotation =>
    match Leb.readUleb rest with
    | none => .error "struct.error"
    | some (typeIdx, k0) =>
      match Leb.readUleb (rest.drop k0) with
      | none => .error "struct.error"
      | some (size, k1) =>
        match decManyX (decElemX dec) size (rest.drop (k0 + k1)) with
        | .error e => .error e
        | .ok (es, k') => .ok (.annotation typeIdx es, 1 + k0 + k1 + k')
  | .sbyte =>
    match rest with
    | [] => .error "struct.error"
    | b :: _ => .ok (.int vt (if b > 127 then (b : Int) - 256 else (b : Int)), 2)
  | .ubyte =>
    match rest with
    | [] => .error "struct.error"
    | b :: _ => .ok (.int vt (b : Int), 2)
  | .null => .ok (.null, 1)
  | .bool => .ok (.bool (arg != 0), 1)
  | .unknown => .ok (.unknown vt, 1)

/-- EncodedValue(buff, cm); the first argument bounds the nesting depth ("fuel" is not a behaviour
    of the code: every nested value is preceded by at least one byte) -/
def decValueX (lk : Look) : Nat → DecX Value
  | 0, _ => .error "fuel"
  | _ + 1, [] => .error "struct.error"
  | f + 1, val :: rest => decStepX lk (decValueX lk f) val rest

/-- EncodedArray(buff, cm) -/
def decArrayX (lk : Look) : DecX (List Value) := fun bs =>
  match Leb.readUleb bs with
  | none => .error "struct.error"
  | some (size, k) =>
    match decManyX (decValueX lk (bs.length + 1)) size (bs.drop k) with
    | .error e => .error e
    | .ok (vs, k') => .ok (vs, k + k')

structure AnnItem where
  visibility : Nat
  typeIdx : Nat
  elems : List (Nat × Value)

/-- AnnotationItem(buff, cm): get_byte, then EncodedAnnotation(buff, cm) — the same reads as the
    VALUE_ANNOTATION branch of EncodedValue (header byte 0x1d), the visibility byte standing where
    the header byte stands there, so the byte count is the same -/
def decAnnItemX (lk : Look) : DecX AnnItem := fun bs =>
  match bs with
  | [] => .error "struct.error"
  | vis :: rest =>
    match decStepX lk (decValueX lk (rest.length + 1)) 0x1d rest with
    | .error e => .error e
    | .ok (.annotation t es, k) => .ok (⟨vis, t, es⟩, k)
    | .ok (_, _) => .error "fuel"          -- unreachable: kindOf 0x1d = annotation

/-- items parsed one after the other from `off`, each with the offset it starts at -/
def decSeqX {α : Type} (dec : DecX α) (file : Bytes) : Nat → Nat → Except String (List (Nat × α))
  | 0, _ => .ok []
  | n + 1, off =>
    match dec (file.drop off) with
    | .error e => .error e
    | .ok (x, k) =>
      match decSeqX dec file n (off + k) with
      | .error e => .error e
      | .ok rest => .ok ((off, x) :: rest)

/-! ## the offset records -/

/-- AnnotationSetItem / AnnotationSetRefList: `I` size, `size` × `I` -/
def decOffList : Dec (List Nat) := fun bs => do
  let (n, r) ← u32 bs
  decN u32 n r

def decPair : Dec (Nat × Nat) := fun bs => do
  let (a, r) ← u32 bs
  let (b, r) ← u32 r
  pure ((a, b), r)

structure AnnDir where
  classOff : Nat
  fields : List (Nat × Nat)       -- (field_idx, annotations_off)
  methods : List (Nat × Nat)      -- (method_idx, annotations_off)
  params : List (Nat × Nat)       -- (method_idx, annotations_off)
  deriving DecidableEq, Repr

/-- AnnotationsDirectoryItem: `4I`, then the three lists of `2I` -/
def decAnnDir : Dec AnnDir := fun bs => do
  let (c, r) ← u32 bs
  let (nf, r) ← u32 r
  let (nm, r) ← u32 r
  let (np, r) ← u32 r
  let (fs, r) ← decN decPair nf r
  let (ms, r) ← decN decPair nm r
  let (ps, r) ← decN decPair np r
  pure (⟨c, fs, ms, ps⟩, r)

/-! ## the extended ClassManager -/

/-- ClassDefItem after reload(), the part the base model leaves out -/
structure ClassX where
  annDir : Option AnnDir            -- self.annotations_directory_item
  statics : Option (List Value)     -- self.static_values (its EncodedArray's values)

structure CMx where
  base : CM := {}
  encArrays : Option (List (Nat × List Value)) := none     -- __manage_item[ENCODED_ARRAY_ITEM]
  annItems : Option (List (Nat × AnnItem)) := none         -- __manage_item[ANNOTATION_ITEM]
  annSets : Option (List (Nat × List Nat)) := none         -- __manage_item[ANNOTATION_SET_ITEM]
  annRefs : Option (List (Nat × List Nat)) := none         -- __manage_item[ANNOTATION_SET_REF_LIST]
  annDirs : Option (List (Nat × AnnDir)) := none           -- __manage_item[ANNOTATIONS_DIRECTORY_ITEM]
  classX : List ClassX := []                               -- parallel to base.classDefs
  /-- the calls `class_data_item.set_static_fields(values)` in execution order:
      (class_data_off of the shared ClassDataItem, values) -/
  inits : List (Nat × List Value) := []

/-- the second half of ClassDefItem.reload, given the class data item the first half found:
    get_annotations_directory_item (KeyError without that section), get_encoded_array_item
    (KeyError without that section; None when no item starts at that offset), and
    `if self.class_data_item: self.class_data_item.set_static_fields(self.static_values.get_value())`
    (AttributeError when the array was not found) -/
def resolveClassX (cx : CMx) (c : ClassDef) (d : Option ClassData) :
    Except String (ClassX × Option (Nat × List Value)) :=
  let ann : Except String (Option AnnDir) :=
    if c.annOff = 0 then .ok none else
    match cx.annDirs with
    | none => .error "KeyError"
    | some l => .ok (lookupOff c.annOff l)
  match ann with
  | .error e => .error e
  | .ok a =>
    if c.staticOff = 0 then .ok (⟨a, none⟩, none) else
    match cx.encArrays with
    | none => .error "KeyError"
    | some l =>
      match d, lookupOff c.staticOff l with
      | some _, none => .error "AttributeError"
      | some _, some vs => .ok (⟨a, some vs⟩, some (c.dataOff, vs))
      | none, sv => .ok (⟨a, sv⟩, none)

/-- ClassDefItem.__init__ for one class def: the base resolution, then the rest of reload() -/
def resolveClassFull (cx : CMx) (c : ClassDef) :
    Except String (ClassR × ClassX × Option (Nat × List Value)) :=
  match resolveClass cx.base c with
  | .error e => .error e
  | .ok r =>
    match resolveClassX cx c r.data with
    | .error e => .error e
    | .ok (x, log) => .ok (r, x, log)


/-- MapItem.parse + ClassManager.add_type_item for one map entry -/
def stepX (file : Bytes) (cx : CMx) (e : MapEntry) : Except String CMx :=
  if e.type = 0x2005 then          -- ENCODED_ARRAY_ITEM, byte aligned
    match decSeqX (decArrayX (lookOf cx.base)) file e.size e.offset with
    | .error x => .error x
    | .ok l => .ok { cx with encArrays := some l }
  else if e.type = 0x2004 then     -- ANNOTATION_ITEM, byte aligned
    match decSeqX (decAnnItemX (lookOf cx.base)) file e.size e.offset with
    | .error x => .error x
    | .ok l => .ok { cx with annItems := some l }
  else if e.type = 0x1003 then     -- ANNOTATION_SET_ITEM
    match structErr (decSeq decOffList file e.size (seek4 e.offset)) with
    | .error x => .error x
    | .ok l => .ok { cx with annSets := some l }
  else if e.type = 0x1002 then     -- ANNOTATION_SET_REF_LIST
    match structErr (decSeq decOffList file e.size (seek4 e.offset)) with
    | .error x => .error x
    | .ok l => .ok { cx with annRefs := some l }
  else if e.type = 0x2006 then     -- ANNOTATIONS_DIRECTORY_ITEM
    match structErr (decSeq decAnnDir file e.size (seek4 e.offset)) with
    | .error x => .error x
    | .ok l => .ok { cx with annDirs := some l }
  else if e.type = 0x0006 then     -- CLASS_DEF_ITEM
    match structErr (decSeq decClassDef file e.size (seek4 e.offset)) with
    | .error x => .error x
    | .ok l =>
      match mapE (fun p => resolveClassFull cx p.2) l with
      | .error x => .error x
      | .ok rs => .ok { cx with base := { cx.base with classDefs := some (rs.map (·.1)) }
                                classX := rs.map (·.2.1)
                                inits := rs.filterMap (·.2.2) }
  else
    match step file cx.base e with
    | .error x => .error x
    | .ok b => .ok { cx with base := b }

def loadEntriesX (file : Bytes) (es : List MapEntry) : Except String CMx :=
  loadWith Gen.MapDeps.loadOrder "KeyError" (stepX file) {} es

/-! ## the extended view -/

/-- the init values of the `n` static fields of the class data item at `off` after the recorded
    set_static_fields calls (EncodedValue.bindStatics: nothing is bound when there are more values
    than fields) -/
def initsOf (log : List (Nat × List Value)) (off n : Nat) : List (Option Value) :=
  log.foldl (fun fields p => if p.1 = off then bindStatics (some p.2) fields else fields)
    (List.replicate n none)

structure ClassVX where
  base : ClassV
  inits : List (Option Value)       -- EncodedField.get_init_value() of every static field
  statics : Option (List Value)     -- ClassDefItem.static_values
  annDir : Option AnnDir            -- ClassDefItem.annotations_directory_item
  annotations : List Bytes          -- ClassDefItem.get_annotations()

structure DexVX where
  base : DexV
  classes : List ClassVX

/-- ClassDefItem.get_annotations(): directory → class annotation set → annotation items → type
    names; every ClassManager lookup raises KeyError without its section, a missing annotation item
    is `None.annotation` (AttributeError) -/
def classAnnotations (cx : CMx) (x : ClassX) : Except String (List Bytes) :=
  match x.annDir with
  | none => .ok []
  | some d =>
    match cx.annSets with
    | none => .error "KeyError"
    | some sets =>
      match lookupOff d.classOff sets with
      | none => .ok []
      | some offs =>
        match mapE (fun off => match cx.annItems with
            | none => .error "KeyError"
            | some items => match lookupOff off items with
              | none => .error "AttributeError"
              | some it => .ok it.typeIdx) offs with
        | .error e => .error e
        | .ok ts => mapE (getType cx.base) ts

def viewClassX (cx : CMx) (p : ClassR × ClassX) : Except String ClassVX :=
  match viewClass cx.base p.1 with
  | .error e => .error e
  | .ok v =>
    match classAnnotations cx p.2 with
    | .error e => .error e
    | .ok anns =>
      let ini := match p.1.data with
        | none => []
        | some d => initsOf cx.inits p.1.raw.dataOff d.sf.length
      .ok ⟨v, ini, p.2.statics, p.2.annDir, anns⟩

def viewOfX (cx : CMx) : Except String DexVX :=
  match viewOf cx.base with
  | .error e => .error e
  | .ok v =>
    match mapE (viewClassX cx) ((cx.base.classDefs.getD []).zip cx.classX) with
    | .error e => .error e
    | .ok cs => .ok ⟨v, cs⟩

/-- DEX.__init__ → _load with the extended item parsers -/
def parseDexX (file : Bytes) : Except String DexVX :=
  match u32 (file.drop 0x34) with
  | none => .error "struct.error"
  | some (mapOff, _) =>
    if mapOff = 0 then .ok ⟨⟨[], []⟩, []⟩ else
    match readMap file mapOff with
    | .error e => .error e
    | .ok es =>
      match loadEntriesX file es with
      | .error e => .error e
      | .ok cx => viewOfX cx

/-! ## debug_info_item

The map entry DEBUG_INFO_ITEM is loaded as one DebugInfoItemEmpty (raw bytes, never interpreted);
the debug info of a method is parsed on demand: EncodedMethod.get_debug() → DalvikCode.get_debug() →
ClassManager.get_debug_off(debug_info_off) = `buff.seek(off); DebugInfoItem(buff, cm)` — also for
debug_info_off = 0 (then the file header is read as a debug info item). -/

inductive DbgKind
  | u      -- readuleb128
  | s      -- readsleb128
  | u1     -- readuleb128p1
  deriving DecidableEq, Repr

/-- the operands DebugInfoItem.__init__ reads after each opcode (the if/elif chain on the DBG_*
    constants; special opcodes 0x0a..0xff and the two flag opcodes have none) -/
def dbgKinds (op : Nat) : List DbgKind :=
  if op = 0x01 then [.u]                        -- DBG_ADVANCE_PC
  else if op = 0x02 then [.s]                   -- DBG_ADVANCE_LINE
  else if op = 0x03 then [.u, .u1, .u1]         -- DBG_START_LOCAL
  else if op = 0x04 then [.u, .u1, .u1, .u1]    -- DBG_START_LOCAL_EXTENDED
  else if op = 0x05 then [.u]                   -- DBG_END_LOCAL
  else if op = 0x06 then [.u]                   -- DBG_RESTART_LOCAL
  else if op = 0x09 then [.u1]                  -- DBG_SET_FILE
  else []

/-- readuleb128p1 -/
def ulebp1 : Dec Int := fun bs => do
  let (v, r) ← uleb bs
  pure ((v : Int) - 1, r)

def decDbgArg : DbgKind → Dec Int
  | .u => fun bs => do
    let (v, r) ← uleb bs
    pure ((v : Int), r)
  | .s => sleb
  | .u1 => ulebp1

def decDbgArgs : List DbgKind → Dec (List Int)
  | [], bs => some ([], bs)
  | k :: ks, bs => do
    let (v, r) ← decDbgArg k bs
    let (vs, r) ← decDbgArgs ks r
    pure (v :: vs, r)

structure DbgOp where
  op : Nat
  args : List Int
  deriving DecidableEq, Repr

/-- the `while bcode.get_op_value() != DBG_END_SEQUENCE` loop; the end opcode is part of the list.
    The first argument bounds the number of opcodes (each takes at least one byte; not a behaviour
    of the code) -/
def decDbgOps : Nat → Dec (List DbgOp)
  | 0, _ => none
  | _ + 1, [] => none                      -- get_byte on an exhausted buffer: struct.error
  | f + 1, op :: r =>
    if op = 0 then some ([⟨0, []⟩], r) else do
      let (args, r) ← decDbgArgs (dbgKinds op) r
      let (rest, r) ← decDbgOps f r
      pure (⟨op, args⟩ :: rest, r)

structure DebugInfo where
  lineStart : Nat
  paramNames : List Int        -- uleb128p1: -1 = no name
  ops : List DbgOp
  deriving DecidableEq, Repr

/-- DebugInfoItem.__init__ -/
def decDebugInfo : Dec DebugInfo := fun bs => do
  let (ls, r) ← uleb bs
  let (n, r) ← uleb r
  let (names, r) ← decN ulebp1 n r
  let (ops, r) ← decDbgOps (r.length + 1) r
  pure (⟨ls, names, ops⟩, r)

/-- ClassManager.get_debug_off(off) -/
def getDebug (file : Bytes) (off : Nat) : Option DebugInfo := (decDebugInfo (file.drop off)).map (·.1)

/-- EncodedMethod.get_debug() of every method with code, in class / direct-then-virtual order -/
def debugOfView (file : Bytes) (d : DexV) : List (Nat × Option DebugInfo) :=
  (allMethods d).filterMap fun m => m.code.map fun c => (c.hdr.debugOff, getDebug file c.hdr.debugOff)

end AgVerif.DexFile
