/-
Model of linear-sweep disassembly in androguard/core/dex/__init__.py:
`LinearSweepAlgorithm.get_instructions`, `PackedSwitch`, `SparseSwitch`, `FillArrayData`
(constructors, `get_length`, `get_raw`), `DCode.off_to_pos`, `DCode.get_ins_off`.
                                                  (imports only Model.Insn and what it imports)

The model describes the code WITH the fixes fixes/C02-*.diff applied:
  * a first code unit `ffXX`, XX ≠ 0, that is not an ODEX opcode is opcode 0xff with register XX;
  * an item (instruction or payload) whose `get_length()` runs past `max_idx` raises InvalidInstruction;
  * `idx + 2 > max_idx` (odd trailing byte) raises InvalidInstruction instead of a bare struct.error.

INTERFACE
  Item                 what the sweep yields: `.insn f x` (class `f`, object `x`), `.packed`, `.sparse`, `.fill`
  Item.length          `get_length()` (bytes)
  Item.raw             `get_raw()` (`none` = struct.error)
  step odex bs maxIdx idx      one loop iteration: the object built at `idx`, or `none` = InvalidInstruction
  sweep odex size bs idx       `list(get_instructions(cm, size, bs, idx))`: the yielded (offset, item) list and the
                               outcome (`.done` | `.invalid off` = InvalidInstruction raised at `off`)
  offToPos / getInsOff         `DCode.off_to_pos` / `DCode.get_ins_off` on the yielded list

Termination of `sweepFrom` is by well-founded recursion on `maxIdx - idx`; Lean accepts it because
`step_len_pos` (every object that is built has positive length — `Instruction00x.length = 0` is harmless
only because its constructor always raises) is proved here, from the GENERATED `length` table.
-/
import AgVerif.Model.Insn
namespace AgVerif.Sweep
open AgVerif.Insn AgVerif.Gen

inductive Item
  | insn (f : Fmt) (x : Insn)
  /-- `PackedSwitch`: `size`, `first_key`, the targets actually read.  (`size`, `element_width` are unpacked
      with `H` / `I`, hence non-negative: stored as `Nat`) -/
  | packed (size : Nat) (firstKey : Int) (targets : List Int)
  /-- `SparseSwitch`: `size`, keys, targets -/
  | sparse (size : Nat) (keys targets : List Int)
  /-- `FillArrayData`: `element_width`, `size`, `data` (possibly truncated slice) -/
  | fill (width size : Nat) (data : List Nat)
  deriving DecidableEq, Repr

/-- `get_length()`:  Instruction: class attribute;  PackedSwitch: `8 + size*4`;
    SparseSwitch: `4 + size*4*2`;  FillArrayData: `((size*width + 1)//2 + 4)*2` -/
def Item.length : Item → Nat
  | .insn f _ => Opcodes.length f
  | .packed size _ _ => 8 + size * 4
  | .sparse size _ _ => 4 + size * 4 * 2
  | .fill w size _ => ((size * w + 1) / 2 + 4) * 2

def packInts : List Int → Option (List Nat)
  | [] => some []
  | v :: vs =>
    match pack [.l] [v], packInts vs with
    | some a, some b => some (a ++ b)
    | _, _ => none

/-- concatenation of two `bytes` results; `none` (struct.error) propagates.  (A separate function rather than a
    `match` on the `pack` call: proofs can then rewrite the `pack` call without the kernel evaluating it.) -/
def cat2 (a b : Option (List Nat)) : Option (List Nat) :=
  match a, b with
  | some a, some b => some (a ++ b)
  | _, _ => none

/-- `get_raw()` -/
def Item.raw : Item → Option (List Nat)
  | .insn _ x => encode x
  | .packed size fk ts => cat2 (pack [.H, .H, .i] [0x0100, size, fk]) (packInts ts)
  | .sparse size ks ts => cat2 (cat2 (pack [.H, .H] [0x0200, size]) (packInts ks)) (packInts ts)
  | .fill w size data => cat2 (pack [.H, .H, .I] [0x0300, w, size]) (some data)

/-- `n` times `packer["l"].unpack(buff[idx:idx+4])`, `idx += 4`; `none` = struct.error -/
def readInts : Nat → List Nat → Option (List Int)
  | 0, _ => some []
  | n + 1, buff =>
    match unpack [.l] (buff.take 4) with
    | some [v] =>
      match readInts n (buff.drop 4) with
      | some r => some (v :: r)
      | none => none
    | _ => none

/-- `PackedSwitch(cm, buff)`; `none` = struct.error ↦ InvalidInstruction -/
def parsePacked (buff : List Nat) : Option (Nat × Int × List Int) :=
  match unpack [.H, .H, .i] (buff.take 8) with
  | some [_, size, fk] =>
    -- max_size = size; if max_size*4 > len(buff): max_size = len(buff) - idx - 8   (idx = 8; may be negative)
    let maxSize : Int := if size * 4 > buff.length then (buff.length : Int) - 8 - 8 else size
    match readInts maxSize.toNat (buff.drop 8) with
    | some ts => some (size.toNat, fk, ts)
    | none => none
  | _ => none

/-- `SparseSwitch(cm, buff)` -/
def parseSparse (buff : List Nat) : Option (Nat × List Int × List Int) :=
  match unpack [.H, .H] (buff.take 4) with
  | some [_, size] =>
    match readInts size.toNat (buff.drop 4) with
    | some ks =>
      match readInts size.toNat (buff.drop (4 + 4 * size.toNat)) with
      | some ts => some (size.toNat, ks, ts)
      | none => none
    | none => none
  | _ => none

/-- `FillArrayData(cm, buff)`: the data slice is silently truncated to what the buffer holds -/
def parseFill (buff : List Nat) : Option (Nat × Nat × List Nat) :=
  match unpack [.H, .H, .I] (buff.take 8) with
  | some [_, w, size] =>
    let bufLen := size * w
    let bufLen := if bufLen % 2 = 1 then bufLen + 1 else bufLen
    some (w.toNat, size.toNat, (buff.drop 8).take bufLen.toNat)
  | _ => none

def insnItem (f : Option Fmt) (buff : List Nat) : Option Item :=
  match f with
  | some f =>
    match decode f buff with
    | .ok x => some (.insn f x)
    | .error _ => none
  | none => none

/-- the object built by one loop iteration, before the end-of-code check -/
def build (odex : Bool) (buff : List Nat) : Option Item :=
  match buff with
  | lo :: hi :: _ =>
    let opv := lo + 256 * hi
    if opv > 0xFF ∧ (opv % 256 = 0x00 ∨ opv % 256 = 0xFF) then
      if opv = 0x0100 then (parsePacked buff).map (fun p => .packed p.1 p.2.1 p.2.2)
      else if opv = 0x0200 then (parseSparse buff).map (fun p => .sparse p.1 p.2.1 p.2.2)
      else if opv = 0x0300 then (parseFill buff).map (fun p => .fill p.1 p.2.1 p.2.2)
      else if odex = true ∧ (optFmtOf opv).isSome then insnItem (optFmtOf opv) buff
      else if opv % 256 = 0xFF then insnItem (fmtOf 0xFF) buff
      else none
    else insnItem (fmtOf (opv % 256)) buff
  | _ => none

/-- one iteration of the `while idx < max_idx` loop; `none` = InvalidInstruction -/
def step (odex : Bool) (bs : List Nat) (maxIdx idx : Nat) : Option Item :=
  if idx + 2 > maxIdx then none
  else
    match build odex (bs.drop idx) with
    | some it => if idx + it.length > maxIdx then none else some it
    | none => none

theorem decode_len_pos {f : Fmt} {bs : List Nat} {x : Insn} (h : decode f bs = .ok x) :
    0 < Opcodes.length f := by
  cases f <;> first
    | (simp [decode] at h; split at h <;> simp at h; done)
    | (simp [Opcodes.length])

theorem insnItem_len_pos {f : Option Fmt} {buff : List Nat} {it : Item} (h : insnItem f buff = some it) :
    0 < it.length := by
  unfold insnItem at h
  split at h
  · split at h
    · rename_i hd
      simp only [Option.some.injEq] at h
      subst h
      exact decode_len_pos hd
    · simp at h
  · simp at h

theorem map_len_pos {α} {o : Option α} {g : α → Item} {it : Item} (hg : ∀ a, 0 < (g a).length)
    (h : o.map g = some it) : 0 < it.length := by
  cases o with
  | none => simp at h
  | some a => simp only [Option.map_some, Option.some.injEq] at h; subst h; exact hg a

/-- every object that is built has positive length: the termination argument of the sweep -/
theorem build_len_pos {odex : Bool} {buff : List Nat} {it : Item} (h : build odex buff = some it) :
    0 < it.length := by
  unfold build at h
  split at h
  · simp only at h
    split at h
    · split at h
      · exact map_len_pos (fun a => by simp only [Item.length]; omega) h
      · split at h
        · exact map_len_pos (fun a => by simp only [Item.length]; omega) h
        · split at h
          · exact map_len_pos (fun a => by simp only [Item.length]; omega) h
          · split at h
            · exact insnItem_len_pos h
            · split at h
              · exact insnItem_len_pos h
              · simp at h
    · exact insnItem_len_pos h
  · simp at h

theorem step_len_pos {odex : Bool} {bs : List Nat} {maxIdx idx : Nat} {it : Item}
    (h : step odex bs maxIdx idx = some it) : 0 < it.length := by
  unfold step at h
  split at h
  · simp at h
  · split at h
    · rename_i hb
      split at h
      · simp at h
      · simp only [Option.some.injEq] at h
        subst h
        exact build_len_pos hb
    · simp at h

inductive Outcome
  | done
  | invalid (idx : Nat)
  deriving DecidableEq, Repr

/-- the `while idx < max_idx` loop -/
def sweepFrom (odex : Bool) (bs : List Nat) (maxIdx : Nat) (idx : Nat) : List (Nat × Item) × Outcome :=
  if hlt : idx < maxIdx then
    match hs : step odex bs maxIdx idx with
    | none => ([], .invalid idx)
    | some it =>
      let r := sweepFrom odex bs maxIdx (idx + it.length)
      ((idx, it) :: r.1, r.2)
  else ([], .done)
termination_by maxIdx - idx
decreasing_by
  have := step_len_pos hs
  omega

/-- `max_idx = size * calcsize('H')`, clipped to `len(insn)` -/
def maxIdxOf (size : Nat) (bs : List Nat) : Nat := if size * 2 > bs.length then bs.length else size * 2

/-- `list(LinearSweepAlgorithm.get_instructions(cm, size, bs, idx))` -/
def sweep (odex : Bool) (size : Nat) (bs : List Nat) (idx : Nat) : List (Nat × Item) × Outcome :=
  sweepFrom odex bs (maxIdxOf size bs) idx

/-- `DCode.off_to_pos(off)`: position of the instruction at byte offset `off`, or -1
    (`DCode` always sweeps from 0, so the running `idx` of the Python loop is the recorded offset) -/
def offToPos (items : List (Nat × Item)) (off : Nat) : Int :=
  match items.findIdx? (fun p => p.1 == off) with
  | some n => n
  | none => -1

/-- `DCode.get_ins_off(off)` -/
def getInsOff (items : List (Nat × Item)) (off : Nat) : Option Item :=
  (items.find? (fun p => p.1 == off)).map (·.2)

end AgVerif.Sweep
