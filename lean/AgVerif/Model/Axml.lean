/-
Model of androguard/core/axml/__init__.py: ARSCHeader, StringBlock, AXMLParser (__init__, _do_next,
name/namespace/text/comment/nsmap, getAttribute*), format_value (the integer / reference flavours),
AXMLPrinter (__init__, _fix_name, _fix_value, _get_attribute_value).
Imports only the generated constants.

Conventions.  Bytes are `Nat` (< 256 at the driver boundary).  A decoded string is the list of its code
points (`Str`).  Python exceptions that leave `AXMLPrinter(...)` are `Except.error "<TypeName>"`
(`error` = struct.error).  `ResParserError` raised by `ARSCHeader` is caught by the parser (-> not valid),
exactly as in the code.  Behaviour the model does not describe (lxml rejecting a prefix or URI, Python's
`str.isalpha` / `str.strip` outside ASCII, `read()` with a negative size, `random.randint` names) is
reported as `Except.error "unmodelled:<why>"`, never guessed.

The printer is the printer of the tree with the two C26 fixes applied (text chunks in document order,
UTF-16 strings decoded as little endian without BOM sniffing).
-/
import AgVerif.Gen.AxmlConsts
namespace AgVerif.Axml
open AgVerif.Gen.AxmlConsts

abbrev Str := List Nat
abbrev Bytes := List Nat

def lit (s : String) : Str := s.toList.map Char.toNat

/-! ## little-endian integers, the file cursor -/

/-- little-endian value of a byte list -/
def le : Bytes → Nat
  | [] => 0
  | b :: r => b + 256 * le r

/-- `io.BufferedReader` over `BytesIO`: the whole buffer, what is left, the position (`tell()`) -/
structure Cur where
  buf : Bytes
  rest : Bytes
  pos : Nat

def Cur.ofBytes (b : Bytes) : Cur := ⟨b, b, 0⟩

/-- `buff.read(n)`: may return fewer bytes at the end of the buffer -/
def Cur.read (c : Cur) (n : Nat) : Bytes × Cur :=
  (c.rest.take n, { c with rest := c.rest.drop n, pos := c.pos + min n c.rest.length })

/-- `buff.seek(p)` (absolute; beyond the end is allowed) -/
def Cur.seek (c : Cur) (p : Nat) : Cur := { c with rest := c.buf.drop p, pos := p }

/-- `unpack('<L' | '<H' …, buff.read(n))[0]`: `struct.error` on a short read -/
def Cur.uint (c : Cur) (n : Nat) : Except String (Nat × Cur) :=
  let (s, c') := c.read n
  if s.length = n then .ok (le s, c') else .error "error"

def Cur.u32 (c : Cur) := c.uint 4
def Cur.u16 (c : Cur) := c.uint 2

/-! ## ARSCHeader -/

structure Hdr where
  start : Nat
  type : Nat
  hs : Nat
  size : Nat

def Hdr.end_ (h : Hdr) : Nat := h.start + h.size

def isNodeType (t : Nat) : Bool := RES_XML_FIRST_CHUNK_TYPE ≤ t && t ≤ RES_XML_LAST_CHUNK_TYPE

/-- the `while True` loop of `ARSCHeader.__init__` ("dummy data between elements"): one more byte is
    skipped while the header is implausible.  `fuel` ≥ bytes remaining. -/
def hdrLoop : Nat → Cur → Except String (Nat × Nat × Nat × Cur)
  | 0, _ => .error "error"
  | fuel + 1, c =>
    let curPos := c.pos
    let (s, c') := c.read 8
    if s.length ≠ 8 then .error "error" else
    let ty := le (s.take 2)
    let hs := le ((s.drop 2).take 2)
    let size0 := le (s.drop 4)
    let size := if size0 < 8 ∧ c.buf.length = curPos + hs + 4 + 4 then 24 else size0
    let ok := decide (hs ≥ 8 ∧ size ≥ hs)
    if curPos = 0 ∨ ok then .ok (ty, hs, size, c')
    else hdrLoop fuel (c.read 1).2

/-- `ARSCHeader(buff, expected_type)`; `.error "ResParserError"` is the exception the callers catch -/
def readHdr (c : Cur) (expected : Option Nat) : Except String (Hdr × Cur) :=
  if c.buf.length < c.pos + 8 then .error "ResParserError" else
  match hdrLoop (c.rest.length + 1) c with
  | .error e => .error e
  | .ok (ty, hs, size, c') =>
    let mismatch : Bool := match expected with | some t => t != 0 && ty != t | none => false
    if mismatch then .error "ResParserError"
    else if hs < 8 ∨ size < 8 ∨ size < hs then .error "ResParserError"
    else .ok (⟨c.pos, ty, hs, size⟩, c')

/-! ## StringBlock -/

structure Pool where
  count : Int
  offsets : List Nat
  utf8 : Bool
  chars : Bytes

def readU32s : Nat → Cur → Except String (List Nat × Cur)
  | 0, c => .ok ([], c)
  | n + 1, c =>
    match c.u32 with
    | .error e => .error e
    | .ok (v, c') =>
      match readU32s n c' with
      | .error e => .error e
      | .ok (vs, c'') => .ok (v :: vs, c'')

/-- `for i in range(n): unpack('<I', buff.read(4))` whose values are not kept -/
def skipU32s (n : Nat) (c : Cur) : Except String Cur :=
  if 4 * n ≤ c.rest.length then .ok (c.read (4 * n)).2 else .error "error"

/-- `StringBlock.__init__` after the 8 header bytes -/
def readPool (h : Hdr) (c : Cur) : Except String (Pool × Cur) := do
  let (stringCount, c) ← c.u32
  let (styleCount, c) ← c.u32
  let (flags, c) ← c.u32
  let (stringsOffset, c) ← c.u32
  let q : Int := (stringsOffset : Int) - ((styleCount : Int) * 4 + 28)
  -- `(a)/4 != stringCount` with true division, then `int(a/4)` truncating toward zero
  let count : Int := if q % 4 = 0 ∧ q / 4 = (stringCount : Int) then stringCount else Int.tdiv q 4
  let (stylesOffset, c) ← c.u32
  if 4 * count.toNat > c.rest.length then .error "error" else
  let (offsets, c) ← readU32s count.toNat c
  let c ← skipU32s styleCount c
  let hasStyles := stylesOffset ≠ 0 ∧ styleCount ≠ 0
  let size : Int := if hasStyles then (stylesOffset : Int) - stringsOffset else (h.size : Int) - stringsOffset
  if size < 0 then .error "unmodelled:negative-read" else
  let (chars, c) := c.read size.toNat
  let c ← (if hasStyles then
      let size2 : Int := (h.size : Int) - stylesOffset
      skipU32s (size2 / 4).toNat c
    else .ok c)
  .ok (⟨count, offsets, flags / UTF8_FLAG % 2 = 1, chars⟩, c)

/-- `_decode_length(offset, sizeof_char)`: (length, bytes of the prefix) -/
def decodeLength (chars : Bytes) (offset : Nat) (wide : Bool) : Except String (Nat × Nat) :=
  let unit := if wide then 2 else 1
  let s := (chars.drop offset).take (2 * unit)
  if s.length ≠ 2 * unit then .error "error" else
  let l1 := le (s.take unit)
  let l2 := le (s.drop unit)
  let high := if wide then 0x8000 else 0x80
  if l1 / high % 2 = 1 then .ok ((l1 % high) * (if wide then 0x10000 else 0x100) + l2, 2 * unit)
  else .ok (l1, unit)

def isCont (b : Nat) : Bool := 0x80 ≤ b && b ≤ 0xBF

/-- `bytes.decode('utf-8', 'replace')` (CPython: one U+FFFD per maximal ill-formed prefix) -/
def dec8F : Nat → Bytes → Str
  | 0, _ => []
  | _, [] => []
  | fuel + 1, b0 :: r =>
    if b0 < 0x80 then b0 :: dec8F fuel r
    else if b0 < 0xC2 then 0xFFFD :: dec8F fuel r
    else if b0 < 0xE0 then
      match r with
      | [] => [0xFFFD]
      | b1 :: r1 => if isCont b1 then ((b0 - 0xC0) * 64 + (b1 - 0x80)) :: dec8F fuel r1 else 0xFFFD :: dec8F fuel r
    else if b0 < 0xF0 then
      match r with
      | [] => [0xFFFD]
      | b1 :: r1 =>
        let ok1 := isCont b1 && (if b0 = 0xE0 then 0xA0 ≤ b1 else true) && (if b0 = 0xED then b1 < 0xA0 else true)
        if !ok1 then 0xFFFD :: dec8F fuel r else
        match r1 with
        | [] => [0xFFFD]
        | b2 :: r2 =>
          if isCont b2 then ((b0 - 0xE0) * 4096 + (b1 - 0x80) * 64 + (b2 - 0x80)) :: dec8F fuel r2
          else 0xFFFD :: dec8F fuel r1
    else if b0 < 0xF5 then
      match r with
      | [] => [0xFFFD]
      | b1 :: r1 =>
        let ok1 := isCont b1 && (if b0 = 0xF0 then 0x90 ≤ b1 else true) && (if b0 = 0xF4 then b1 < 0x90 else true)
        if !ok1 then 0xFFFD :: dec8F fuel r else
        match r1 with
        | [] => [0xFFFD]
        | b2 :: r2 =>
          if !isCont b2 then 0xFFFD :: dec8F fuel r1 else
          match r2 with
          | [] => [0xFFFD]
          | b3 :: r3 =>
            if isCont b3 then
              ((b0 - 0xF0) * 262144 + (b1 - 0x80) * 4096 + (b2 - 0x80) * 64 + (b3 - 0x80)) :: dec8F fuel r3
            else 0xFFFD :: dec8F fuel r2
    else 0xFFFD :: dec8F fuel r

def dec8 (bs : Bytes) : Str := dec8F bs.length bs

/-- `bytes.decode('utf-16-le', 'replace')` on 16-bit units -/
def isHighSur (u : Nat) : Bool := 0xD800 ≤ u && u < 0xDC00
def isLowSur (u : Nat) : Bool := 0xDC00 ≤ u && u < 0xE000

def dec16U : List Nat → Str
  | [] => []
  | [u] => if isHighSur u || isLowSur u then [0xFFFD] else [u]
  | u :: v :: r =>
    if isHighSur u then
      if isLowSur v then (0x10000 + (u - 0xD800) * 1024 + (v - 0xDC00)) :: dec16U r
      else 0xFFFD :: dec16U (v :: r)
    else if isLowSur u then 0xFFFD :: dec16U (v :: r)
    else u :: dec16U (v :: r)

def unitsLE : Bytes → List Nat
  | a :: b :: r => (a + 256 * b) :: unitsLE r
  | [_] => [0x110000]      -- a trailing odd byte ("truncated data"); never produced: lengths are 2·n
  | [] => []

def dec16 (bs : Bytes) : Str := (dec16U (unitsLE bs)).map fun c => if c = 0x110000 then 0xFFFD else c

/-- `_decode8(offset)` -/
def decode8 (chars : Bytes) (offset : Nat) : Except String Str := do
  let (_, skip) ← decodeLength chars offset false
  let offset := offset + skip
  let (nbytes, skip) ← decodeLength chars offset false
  let offset := offset + skip
  if chars.length < offset + nbytes then .ok [] else
  match chars[offset + nbytes]? with
  | none => .error "IndexError"
  | some t => if t ≠ 0 then .ok [] else .ok (dec8 ((chars.drop offset).take nbytes))

/-- `_decode16(offset)` -/
def decode16 (chars : Bytes) (offset : Nat) : Except String Str := do
  let (len, skip) ← decodeLength chars offset true
  let offset := offset + skip
  let nbytes := len * 2
  if chars.length < offset + nbytes then .ok [] else
  if (chars.drop (offset + nbytes)).take 2 ≠ [0, 0] then .error "ResParserError"
  else .ok (dec16 ((chars.drop offset).take nbytes))

/-- `StringBlock.getString(idx)` (idx is an unsigned 32-bit value, never negative) -/
def Pool.get (p : Pool) (idx : Nat) : Except String Str :=
  if p.offsets.isEmpty ∨ (idx : Int) ≥ p.count then .ok [] else
  match p.offsets[idx]? with
  | none => .ok []            -- unreachable: |offsets| = max(count, 0)
  | some off => if p.utf8 then decode8 p.chars off else decode16 p.chars off

/-! ## AXMLParser -/

inductive Ev where
  | start | end_ | text | endDoc | none
  deriving DecidableEq, Repr

/-- one `ResXMLTree_attribute` as stored in `m_attributes` (type already `>> 24`) -/
structure RawAttr where
  ns : Nat
  name : Nat
  valueString : Nat
  type : Nat
  data : Nat
  deriving Repr

structure PState where
  cur : Cur
  valid : Bool
  filesize : Nat
  pool : Pool
  resIds : List Nat
  namespaces : List (Nat × Nat)
  event : Ev
  name : Nat
  nsUri : Nat
  comment : Nat
  attrs : List RawAttr

def noEntry : Nat := 0xFFFFFFFF

def emptyPool : Pool := ⟨0, [], false, []⟩

def invalidState (b : Bytes) : PState :=
  ⟨Cur.ofBytes b, false, 0, emptyPool, [], [], .none, noEntry, noEntry, noEntry, []⟩

/-- `AXMLParser.__init__` -/
def parserInit (b : Bytes) : Except String PState :=
  let bad := invalidState b
  if b.length < 8 then .ok bad else
  match readHdr (Cur.ofBytes b) none with
  | .error "ResParserError" => .ok bad
  | .error e => .error e
  | .ok (ah, c) =>
    if ah.hs ≠ AXML_HEADER_SIZE then .ok bad
    else if ah.size > b.length then .ok bad
    else match readHdr c (some RES_STRING_POOL_TYPE) with
    | .error "ResParserError" => .ok bad
    | .error e => .error e
    | .ok (h, c) =>
      if h.hs ≠ POOL_HEADER_SIZE then .ok bad else
      match readPool h c with
      | .error e => .error e
      | .ok (pool, c) =>
        .ok ⟨c.seek (ah.hs + h.size), true, ah.size, pool, [], [], .none, noEntry, noEntry, noEntry, []⟩

def readAttrs (atSize : Nat) : Nat → Cur → Except String (List RawAttr × Cur)
  | 0, c => .ok ([], c)
  | n + 1, c => do
    let (ns, c) ← c.u32
    let (name, c) ← c.u32
    let (vs, c) ← c.u32
    let (ty, c) ← c.u32
    let (data, c) ← c.u32
    if atSize < ATTRIBUTE_SIZE then .error "unmodelled:negative-read" else
    let c := (c.read (atSize - ATTRIBUTE_SIZE)).2
    let (rest, c) ← readAttrs atSize n c
    .ok (⟨ns, name, vs, ty / 0x1000000, data⟩ :: rest, c)

def removeFirst (x : Nat × Nat) : List (Nat × Nat) → List (Nat × Nat)
  | [] => []
  | y :: r => if x = y then r else y :: removeFirst x r

/-- the `while self._valid` loop of `_do_next` (called with the event fields reset).
    Every iteration reads a chunk header, i.e. at least 8 bytes: `fuel` = bytes remaining + 1. -/
def nextLoop : Nat → PState → Except String PState
  | 0, s => .ok { s with valid := false }
  | fuel + 1, s =>
    if s.cur.pos = s.filesize then .ok { s with event := .endDoc } else
    match readHdr s.cur none with
    | .error "ResParserError" => .ok { s with valid := false }
    | .error e => .error e
    | .ok (h, c) =>
      if h.type = RES_XML_RESOURCE_MAP_TYPE then
        if h.size < 8 ∨ h.size % 4 ≠ 0 then .ok { s with valid := false, cur := c } else
        match readU32s ((h.size - h.hs) / 4) c with
        | .error e => .error e
        | .ok (ids, c) => nextLoop fuel { s with cur := c, resIds := s.resIds ++ ids }
      else if !isNodeType h.type then nextLoop fuel { s with cur := c.seek h.end_ }
      else if h.hs ≠ NODE_HEADER_SIZE then nextLoop fuel { s with cur := c.seek h.end_ }
      else
        match c.u32 with
        | .error e => .error e
        | .ok (_line, c) =>
        match c.u32 with
        | .error e => .error e
        | .ok (comment, c) =>
        let s := { s with comment := comment }
        -- the warning about a comment on a namespace chunk formats `self.sb[comment]`
        match (if comment ≠ noEntry ∧ (h.type = RES_XML_START_NAMESPACE_TYPE ∨ h.type = RES_XML_END_NAMESPACE_TYPE)
               then s.pool.get comment else .ok []) with
        | .error e => .error e
        | .ok _ =>
        if h.type = RES_XML_START_NAMESPACE_TYPE then
          match c.u32 with
          | .error e => .error e
          | .ok (prefix_, c) =>
          match c.u32 with
          | .error e => .error e
          | .ok (uri, c) =>
          -- `self.sb[prefix]`, `self.sb[uri]` are evaluated for the log message
          match s.pool.get prefix_ with
          | .error e => .error e
          | .ok _ =>
          match s.pool.get uri with
          | .error e => .error e
          | .ok _ => nextLoop fuel { s with cur := c, namespaces := s.namespaces ++ [(prefix_, uri)] }
        else if h.type = RES_XML_END_NAMESPACE_TYPE then
          match c.u32 with
          | .error e => .error e
          | .ok (prefix_, c) =>
          match c.u32 with
          | .error e => .error e
          | .ok (uri, c) => nextLoop fuel { s with cur := c, namespaces := removeFirst (prefix_, uri) s.namespaces }
        else if h.type = RES_XML_START_ELEMENT_TYPE then
          (do
            let (ns, c) ← c.u32
            let (name, c) ← c.u32
            let (_atStart, c) ← c.u16
            let (atSize, c) ← c.u16
            let (attrCount, c) ← c.u32
            let (_cls, c) ← c.u32
            let (attrs, c) ← readAttrs atSize (attrCount % 0x10000) c
            .ok { s with cur := c.seek h.end_, event := .start, name := name, nsUri := ns, attrs := attrs })
        else if h.type = RES_XML_END_ELEMENT_TYPE then
          (do
            let (ns, c) ← c.u32
            let (name, c) ← c.u32
            .ok { s with cur := c.seek h.end_, event := .end_, name := name, nsUri := ns })
        else if h.type = RES_XML_CDATA_TYPE then
          (do
            let (name, c) ← c.u32
            let (tv, c) := c.read 8
            if tv.length ≠ 8 then .error "error" else
            .ok { s with cur := c.seek h.end_, event := .text, name := name })
        else nextLoop fuel { s with cur := c.seek h.end_ }

/-- `_do_next` -/
def nextEvent (s : PState) : Except String PState :=
  if s.event = .endDoc then .ok s else
  nextLoop (s.cur.rest.length + 1)
    { s with event := .none, name := noEntry, nsUri := noEntry, attrs := [] }

/-! ## strings used by the printer -/

def inClass (cls : List (Nat × Nat)) (c : Nat) : Bool := cls.any fun (a, b) => a ≤ c && c ≤ b

def isAsciiAlpha (c : Nat) : Bool := (0x41 ≤ c && c ≤ 0x5A) || (0x61 ≤ c && c ≤ 0x7A)

/-- `_fix_value` -/
def fixValue (v : Str) : Str :=
  let v := v.takeWhile (· ≠ 0)
  -- `^[class]*$`: `$` also matches before a final "\n", which is in the class anyway
  if v.all (inClass valueMatchClass) then v
  else v.map fun c => if inClass valueKeepClass c then c else 0x5F

def hexDigitU (n : Nat) : Nat := if n < 10 then 0x30 + n else 0x41 + (n - 10)
def hexDigitL (n : Nat) : Nat := if n < 10 then 0x30 + n else 0x61 + (n - 10)

/-- digits of `n` in base 16, most significant first, at least `w` digits -/
def hexDigits (dig : Nat → Nat) : Nat → Nat → Nat → Str
  | 0, _, _ => []
  | fuel + 1, w, n =>
    if n < 16 ∧ w ≤ 1 then [dig n] else hexDigits dig fuel (w - 1) (n / 16) ++ [dig (n % 16)]

def hex8U (n : Nat) : Str := hexDigits hexDigitU 64 8 n
def hex8L (n : Nat) : Str := hexDigits hexDigitL 64 8 n
def hexU (n : Nat) : Str := hexDigits hexDigitU 64 1 n
def hex2U (n : Nat) : Str := hexDigits hexDigitU 64 2 n

def decDigits : Nat → Nat → Str
  | 0, _ => []
  | fuel + 1, n => if n < 10 then [0x30 + n] else decDigits fuel (n / 10) ++ [0x30 + n % 10]

def decNat (n : Nat) : Str := decDigits 64 n

/-- `"%d" % fmt_int(x)` -/
def fmtIntDec (x : Nat) : Str :=
  if x > 0x7FFFFFFF then
    -- (0x7FFFFFFF & x) - 0x80000000
    0x2D :: decNat (0x80000000 - x % 0x80000000)
  else decNat x

def fmtPackage (x : Nat) : Str := if x / 0x1000000 = 1 then lit "android:" else []

/-- `format_value(_type, _data, lookup_string)`; `opq` stands for the float / dimension / fraction
    renderings, which belong to property C27 -/
def formatValue (opq : Nat → Nat → Str) (ty data : Nat) (str : Str) : Str :=
  if ty = TYPE_STRING then str
  else if ty = TYPE_ATTRIBUTE then 0x3F :: (fmtPackage data ++ hex8U data)
  else if ty = TYPE_REFERENCE then 0x40 :: (fmtPackage data ++ hex8U data)
  else if ty = TYPE_FLOAT then opq ty data
  else if ty = TYPE_INT_HEX then lit "0x" ++ hex8U data
  else if ty = TYPE_INT_BOOLEAN then (if data = 0 then lit "false" else lit "true")
  else if ty = TYPE_DIMENSION then opq ty data
  else if ty = TYPE_FRACTION then opq ty data
  else if TYPE_FIRST_COLOR_INT ≤ ty ∧ ty ≤ TYPE_LAST_COLOR_INT then 0x23 :: hex8U data
  else if TYPE_FIRST_INT ≤ ty ∧ ty ≤ TYPE_LAST_INT then fmtIntDec data
  else lit "<0x" ++ hexU data ++ lit ", type 0x" ++ hex2U ty ++ lit ">"

/-! ## the abstract tree -/

structure Attr where
  ns : Str
  name : Str
  value : Str
  deriving DecidableEq, Repr

inductive Node where
  | elem (tag ns : Str) (attrs : List Attr) (children : List Node)
  | text (s : Str)
  deriving Repr

/-- an element under construction (children newest first) -/
structure Open where
  tag : Str
  ns : Str
  attrs : List Attr
  kids : List Node

def Open.close (o : Open) : Node := .elem o.tag o.ns o.attrs o.kids.reverse

/-- `elem.set(key, value)`: overwrite in place, else append -/
def setAttr (a : Attr) : List Attr → List Attr
  | [] => [a]
  | b :: r => if b.ns = a.ns ∧ b.name = a.name then a :: r else b :: setAttr a r

/-- text in document order: appended to the text that is already there (element text or last child's tail) -/
def addText (t : Str) (kids : List Node) : List Node :=
  if t.isEmpty then kids else
  match kids with
  | .text s :: r => .text (s ++ t) :: r
  | _ => .text t :: kids

/-! ## AXMLPrinter -/

def asciiSpace (c : Nat) : Bool := c = 0x20 || (9 ≤ c && c ≤ 13) || (0x1C ≤ c && c ≤ 0x1F)

/-- what lxml accepts without complaint as a namespace URI / prefix, conservatively -/
def safeUriChar (c : Nat) : Bool :=
  isAsciiAlpha c || (0x30 ≤ c && c ≤ 0x39) || c = 0x2E || c = 0x2F || c = 0x3A || c = 0x2D || c = 0x5F
def isDigit (c : Nat) : Bool := 0x30 ≤ c && c ≤ 0x39
/-- part before the first ":" and part after it -/
def cutAtColon : Str → Option (Str × Str)
  | [] => none
  | c :: r => if c = 0x3A then some ([], r) else (cutAtColon r).map fun (a, b) => (c :: a, b)
/-- the shape libxml2's URI parser (behind lxml's `_uriValidOrRaise`) certainly accepts: no ":" at all (a relative reference), or
    `scheme ":" rest` with a scheme of letters, digits, "-", "." and a non-empty rest which, when it starts with "//", has a
    non-empty authority WITHOUT ":" (a port would have to be digits: `http://host:.com/` is rejected) -/
def uriShape (u : Str) : Bool :=
  match cutAtColon u with
  | none => true
  | some (scheme, rest) =>
    scheme.all (fun c => isAsciiAlpha c || isDigit c || c = 0x2D || c = 0x2E) &&
    (match rest with
     | [] => false
     | 0x2F :: 0x2F :: a => !(a.takeWhile (· ≠ 0x2F)).isEmpty && !(a.takeWhile (· ≠ 0x2F)).contains 0x3A
     | _ => true)
def safeUri (u : Str) : Bool := !u.isEmpty && (u.all safeUriChar && uriShape u) && u.head?.any isAsciiAlpha
def safePrefix (p : Str) : Bool :=
  !p.isEmpty && p.head?.any (fun c => isAsciiAlpha c || c = 0x5F) &&
  p.all (fun c => isAsciiAlpha c || isDigit c || c = 0x5F || c = 0x2D || c = 0x2E) &&
  !(p.take 3 = lit "xml") &&
  !(p.take 2 = lit "ns" && (p.drop 2).all isDigit)

/-- `AXMLParser.nsmap`: prefix → uri for every open namespace whose prefix and uri are not empty -/
def nsmap (s : PState) : Except String (List (Str × Str)) :=
  s.namespaces.foldlM (init := []) fun acc (k, v) => do
    let p ← s.pool.get k
    let u ← s.pool.get v
    if p.isEmpty ∨ u.isEmpty then .ok acc
    else if !(safePrefix p) then .error "unmodelled:prefix"
    else if !(safeUri u) then .error "unmodelled:uri"
    else match acc.find? (·.1 = p) with
      | some (_, u') => if u' = u then .ok acc else .error "unmodelled:prefix-redeclared"
      | none => .ok (acc ++ [(p, u)])

def lookup (m : List (Str × Str)) (p : Str) : Option Str := (m.find? (·.1 = p)).map (·.2)

/-- `name.split(":", 1)` when ":" is in name -/
def splitColon : Str → Option (Str × Str)
  | [] => none
  | c :: r => if c = 0x3A then some ([], r) else (splitColon r).map fun (a, b) => (c :: a, b)

/-- `re.match(r"^[class]*$", name)`: `$` also matches just before a final newline -/
def nameMatches (n : Str) : Bool :=
  n.all (inClass nameMatchClass) || (n.getLast? = some 0x0A && n.dropLast.all (inClass nameMatchClass))

/-- `_fix_name(prefix, name)` where `uri` is the namespace URI ("" = none; `_print_namespace` only adds braces).
    `name` is not empty. -/
def fixName (s : PState) (uri name : Str) : Except String (Str × Str) := do
  let c0 := name.headD 0
  if c0 ≥ 0x80 then .error "unmodelled:isalpha" else
  let name := if !isAsciiAlpha c0 ∧ c0 ≠ 0x5F then 0x5F :: name else name
  let (uri, name) ←
    (if name.take 8 = lit "android:" ∧ uri.isEmpty then do
        let m ← nsmap s
        match lookup m (lit "android") with
        | some u => .ok (u, name.drop 8)
        | none =>
          match splitColon name with
          | some (p, n') => (match lookup m p with | some u => .ok (u, n') | none => .ok (uri, name))
          | none => .ok (uri, name)
      else if uri.isEmpty then
        match splitColon name with
        | some (p, n') => do
          let m ← nsmap s
          match lookup m p with | some u => .ok (u, n') | none => .ok (uri, name)
        | none => .ok (uri, name)
      else .ok (uri, name) : Except String (Str × Str))
  let name := if nameMatches name then name else name.map fun c => if inClass nameKeepClass c then c else 0x5F
  .ok (uri, name)

/-- `AXMLParser.namespace` / `getAttributeNamespace` -/
def nsString (s : PState) (idx : Nat) : Except String Str :=
  if idx = noEntry then .ok [] else s.pool.get idx

def sysAttrName (id : Nat) : Option Str :=
  if id < sysAttrBase then none else
  match sysAttrNames[id - sysAttrBase]? with
  | some n => if n.isEmpty then none else some (lit n)
  | none => none

/-- `getAttributeName(i)` -/
def attrName (s : PState) (a : RawAttr) : Except String Str := do
  let res ← s.pool.get a.name
  let attr := s.resIds[a.name]?
  let res := match attr with
    | some id => (match sysAttrName id with
        | some n => n.map fun c => if c = 0x5F then 0x3A else c
        | none => res)
    | none => res
  if res.isEmpty ∨ res = [0x3A] then
    match attr with
    | some id => if id ≠ 0 then .ok (lit unknownAttrPrefix ++ hex8L id) else .error "unmodelled:random-name"
    | none => .error "unmodelled:random-name"
  else .ok res

/-- what lxml refuses as text / attribute value ("All strings must be XML compatible") -/
def xmlCompatible (t : Str) : Bool :=
  t.all fun c => !(c < 0x20 && c ≠ 9 && c ≠ 0xA && c ≠ 0xD) && c ≠ 0xFFFE && c ≠ 0xFFFF

/-- namespace URI of a tag / attribute as lxml sees it -/
def checkUri (u : Str) : Except String Unit :=
  if u.isEmpty ∨ safeUri u then .ok () else .error "unmodelled:uri"

/-- lxml's tag / attribute name check on a name that `_fix_name` produced -/
def checkName (n : Str) : Except String Unit :=
  if n.isEmpty ∨ n.getLast? = some 0x0A ∨ !(n.head?.any fun c => isAsciiAlpha c || c = 0x5F) then .error "ValueError"
  else .ok ()

structure Printer where
  root : Option Node        -- the root element once it has been closed
  hasRoot : Bool
  stack : List Open         -- `cur`, innermost first
  stop : Bool               -- `break` out of the loop

def Printer.init : Printer := ⟨none, false, [], false⟩

def buildAttrs (opq : Nat → Nat → Str) (s : PState) : List RawAttr → List Attr → Except String (List Attr)
  | [], acc => .ok acc
  | a :: r, acc => do
    let ns ← nsString s a.ns
    let n ← attrName s a
    let (ns, n) ← fixName s ns n
    let str ← (if a.type = TYPE_STRING then s.pool.get a.valueString else .ok [])
    let v := fixValue (formatValue opq a.type a.data str)
    checkUri ns
    checkName n
    buildAttrs opq s r (setAttr ⟨ns, n, v⟩ acc)

/-- a chunk event with its strings resolved.  Fields that the printer evaluates only after looking at its own
    stack are carried as `Except` so that exceptions keep their order. -/
inductive REvent where
  | skip                                                       -- START_TAG with an empty name, or no event
  | start (hasComment commentOk : Bool) (body : Except String (Str × Str × List Attr))   -- (tag, ns, attributes)
  | end_ (nameEmpty : Bool) (nsRes : Except String Unit)
  | text (t : Except String Str)
  | endDoc

/-- the part of one loop iteration that reads the parser (string pool, namespaces, `_fix_name`, `_fix_value`) -/
def resolve (opq : Nat → Nat → Str) (s : PState) : Except String REvent :=
  match s.event with
  | .start => do
    let name ← s.pool.get s.name
    if name.isEmpty then .ok .skip else
    let ns ← nsString s s.nsUri
    let (ns, name) ← fixName s ns name
    let comment ← (if s.comment = noEntry then .ok [] else s.pool.get s.comment)
    let body : Except String (Str × Str × List Attr) := do
      let _ ← nsmap s
      checkUri ns
      checkName name
      let attrs ← buildAttrs opq s s.attrs []
      .ok (name, ns, attrs)
    .ok (.start (!comment.isEmpty) (xmlCompatible comment && !comment.contains 0x2D) body)
  | .end_ => do
    let name ← s.pool.get s.name
    .ok (.end_ name.isEmpty ((nsString s s.nsUri).map fun _ => ()))
  | .text => .ok (.text (s.pool.get s.name))
  | .endDoc => .ok .endDoc
  | .none => .ok .skip

/-- the part of one loop iteration that works on the printer's element stack -/
def applyEv : REvent → Printer → Except String Printer
  | .skip, p => .ok p
  | .start hasComment commentOk body, p =>
    if hasComment ∧ p.hasRoot ∧ p.stack.isEmpty then .error "IndexError" else
    if hasComment ∧ p.hasRoot ∧ !commentOk then .error "unmodelled:comment" else
    match body with
    | .error e => .error e
    | .ok (name, ns, attrs) =>
      let o : Open := ⟨name, ns, attrs, []⟩
      if !p.hasRoot then .ok { p with hasRoot := true, stack := [o] }
      else if p.stack.isEmpty then .ok { p with stop := true }
      else .ok { p with stack := o :: p.stack }
  | .end_ nameEmpty nsRes, p =>
    match p.stack with
    | [] => (match nsRes with | .error e => .error e | .ok _ => .error "IndexError")
    | o :: rest =>
      if nameEmpty then .ok p else
      match nsRes with
      | .error e => .error e
      | .ok _ =>
        match rest with
        | [] => .ok { p with root := some o.close, stack := [] }
        | par :: rest' => .ok { p with stack := { par with kids := o.close :: par.kids } :: rest' }
  | .text t, p =>
    match p.stack with
    | [] => .error "IndexError"
    | o :: rest =>
      match t with
      | .error e => .error e
      | .ok t =>
        if !xmlCompatible t then .error "ValueError" else
        .ok { p with stack := { o with kids := addText t o.kids } :: rest }
  | .endDoc, p => .ok { p with stop := true }

/-- one iteration of the `while self.axml.is_valid()` loop body, after `next(self.axml)` -/
def step (opq : Nat → Nat → Str) (s : PState) (p : Printer) : Except String Printer :=
  match resolve opq s with
  | .error e => .error e
  | .ok ev => applyEv ev p

/-- attach the elements that are still open to their parents (lxml appended them when they were opened) -/
def collapseAux (child : Node) : List Open → Node
  | [] => child
  | par :: rest => collapseAux ({ par with kids := child :: par.kids }).close rest

def collapse : List Open → Option Node
  | [] => none
  | o :: rest => some (collapseAux o.close rest)

def Printer.result (p : Printer) : Option Node :=
  match p.stack with
  | [] => p.root
  | st => collapse st

/-- the `while self.axml.is_valid()` loop: every `next` consumes at least one chunk header -/
def printLoop (opq : Nat → Nat → Str) : Nat → PState → Printer → Except String (PState × Printer)
  | 0, s, p => .ok (s, p)
  | fuel + 1, s, p =>
    if !s.valid then .ok (s, p) else
    match nextEvent s with
    | .error e => .error e
    | .ok s' =>
      match step opq s' p with
      | .error e => .error e
      | .ok p' => if p'.stop then .ok (s', p') else printLoop opq fuel s' p'

/-- `AXMLPrinter(raw)`: (is_valid(), get_xml_obj()) -/
def printAxml (opq : Nat → Nat → Str) (b : Bytes) : Except String (Bool × Option Node) :=
  match parserInit b with
  | .error e => .error e
  | .ok s =>
    match printLoop opq (b.length + 2) s Printer.init with
    | .error e => .error e
    | .ok (s', p) => .ok (s'.valid, p.result)

end AgVerif.Axml
