/-
Model of the DEX object model of androguard/core/dex/__init__.py (C05, and the parser that C07's
`maplist_perm_invariant` is instantiated with).  Imports only AgVerif.Model.* / AgVerif.Gen.*.

Layers
  L0  primitives: little-endian u16/u32 (`cm.packer["H"]`, `["I"]`), uleb128/sleb128 (AgVerif.Leb)
  L1  item decoders, one per *IdItem / ClassDefItem / TypeList / ClassDataItem / DalvikCode /
      EncodedCatchHandlerList / StringDataItem; `Dec α = Bytes → Option (α × Bytes)` (value and
      the unread rest; `none` = struct.error on a short read)
  L2  `parseDex`: header.map_off → MapList (entries, load order, `step` per item type with the
      *eager* resolutions the constructors perform: TypeIdItem, ProtoIdItem, FieldIdItem.reload,
      MethodIdItem.reload, ClassDefItem.reload) → the view (`viewOf`, lazy resolutions of
      EncodedField.load / EncodedMethod.load) → the lookup helpers of class DEX.

Strings are kept as their raw MUTF-8 bytes: `mutf8.decode` is C06's subject; here it is an
injective renaming that commutes with concatenation (harness compares hex of the re-encoded text).
Not modelled (assumed to succeed, never looked at): HeaderItem validation (C09), annotations,
encoded arrays / static values, debug info, method handles, call sites, hidden-api data, hooks.
The lookup helpers describe the code WITH fixes/C05-lookup-helpers.diff applied (tuple cache keys,
`get_name()` in the regex helpers); `keyConcat*` below is the unfixed cache key, kept for the
refutation in Props/C05.lean.
-/
import AgVerif.Model.Leb
import AgVerif.Model.LoadOrder
import AgVerif.Gen.MapDeps
namespace AgVerif.DexFile
open AgVerif.LoadOrder

abbrev Bytes := List Nat
abbrev Dec (α : Type) := Bytes → Option (α × Bytes)

/-! ## L0 -/

def u16 : Dec Nat
  | a :: b :: r => some (a + 256 * b, r)
  | _ => none

def u32 : Dec Nat
  | a :: b :: c :: d :: r => some (a + 256 * b + 65536 * c + 16777216 * d, r)
  | _ => none

def uleb : Dec Nat := fun bs =>
  match Leb.readUleb bs with
  | some (v, n) => some (v, bs.drop n)
  | none => none

def sleb : Dec Int := fun bs =>
  match Leb.readSleb bs with
  | some (v, n) => some (v, bs.drop n)
  | none => none

/-! ## L1 item decoders -/

structure ProtoId where
  shorty : Nat
  ret : Nat
  paramsOff : Nat
  deriving DecidableEq, Repr

structure FieldId where
  cls : Nat
  typ : Nat
  name : Nat
  deriving DecidableEq, Repr

structure MethodId where
  cls : Nat
  proto : Nat
  name : Nat
  deriving DecidableEq, Repr

structure ClassDef where
  cls : Nat
  access : Nat
  super : Nat
  ifacesOff : Nat
  srcIdx : Nat
  annOff : Nat
  dataOff : Nat
  staticOff : Nat
  deriving DecidableEq, Repr

/-- StringIdItem / TypeIdItem: `cm.packer["I"]` -/
def decStringId : Dec Nat := u32
def decTypeId : Dec Nat := u32

/-- ProtoIdItem: `cm.packer["3I"]` -/
def decProtoId : Dec ProtoId := fun bs => do
  let (a, r) ← u32 bs
  let (b, r) ← u32 r
  let (c, r) ← u32 r
  pure (⟨a, b, c⟩, r)

/-- FieldIdItem: `cm.packer["2HI"]` → class_idx, type_idx, name_idx -/
def decFieldId : Dec FieldId := fun bs => do
  let (a, r) ← u16 bs
  let (b, r) ← u16 r
  let (c, r) ← u32 r
  pure (⟨a, b, c⟩, r)

/-- MethodIdItem: `cm.packer["2HI"]` → class_idx, proto_idx, name_idx -/
def decMethodId : Dec MethodId := fun bs => do
  let (a, r) ← u16 bs
  let (b, r) ← u16 r
  let (c, r) ← u32 r
  pure (⟨a, b, c⟩, r)

/-- ClassDefItem: `cm.packer["8I"]` -/
def decClassDef : Dec ClassDef := fun bs => do
  let (a, r) ← u32 bs
  let (b, r) ← u32 r
  let (c, r) ← u32 r
  let (d, r) ← u32 r
  let (e, r) ← u32 r
  let (f, r) ← u32 r
  let (g, r) ← u32 r
  let (h, r) ← u32 r
  pure (⟨a, b, c, d, e, f, g, h⟩, r)

/-- `[X(buff, cm) for _ in range(n)]` -/
def decN {α} (d : Dec α) : Nat → Dec (List α)
  | 0, bs => some ([], bs)
  | n + 1, bs => do
    let (x, r) ← d bs
    let (xs, r) ← decN d n r
    pure (x :: xs, r)

/-- TypeList: size, `size` TypeItems (u16), and `buff.read(2)` of padding when size is odd
    (a plain `read`: a short read at the end of the file is not an error). -/
def decTypeList : Dec (List Nat) := fun bs => do
  let (n, r) ← u32 bs
  let (l, r) ← decN u16 n r
  pure (l, if n % 2 != 0 then r.drop 2 else r)

structure EncField where
  idx : Nat      -- field_idx after adjust_idx (running sum of the diffs)
  flags : Nat
  deriving DecidableEq, Repr

structure EncMethod where
  idx : Nat
  flags : Nat
  codeOff : Nat
  deriving DecidableEq, Repr

/-- ClassDataItem._load_elements for EncodedField: `prev` is the previous absolute index -/
def decFields : Nat → Nat → Dec (List EncField)
  | 0, _, bs => some ([], bs)
  | n + 1, prev, bs => do
    let (d, r) ← uleb bs
    let (fl, r) ← uleb r
    let idx := d + prev            -- adjust_idx: field_idx = field_idx_diff + val
    let (rest, r) ← decFields n idx r
    pure (⟨idx, fl⟩ :: rest, r)

/-- ClassDataItem._load_elements for EncodedMethod -/
def decMethods : Nat → Nat → Dec (List EncMethod)
  | 0, _, bs => some ([], bs)
  | n + 1, prev, bs => do
    let (d, r) ← uleb bs
    let (fl, r) ← uleb r
    let (co, r) ← uleb r
    let idx := d + prev
    let (rest, r) ← decMethods n idx r
    pure (⟨idx, fl, co⟩ :: rest, r)

structure ClassData where
  sf : List EncField
  inf : List EncField
  dm : List EncMethod
  vm : List EncMethod
  deriving DecidableEq, Repr

/-- ClassDataItem.__init__: four sizes, then static, instance, direct, virtual — in this order,
    each list with its own running index starting at 0 -/
def decClassData : Dec ClassData := fun bs => do
  let (nsf, r) ← uleb bs
  let (nif, r) ← uleb r
  let (ndm, r) ← uleb r
  let (nvm, r) ← uleb r
  let (sf, r) ← decFields nsf 0 r
  let (inf, r) ← decFields nif 0 r
  let (dm, r) ← decMethods ndm 0 r
  let (vm, r) ← decMethods nvm 0 r
  pure (⟨sf, inf, dm, vm⟩, r)

structure CodeHdr where
  regs : Nat
  ins : Nat
  outs : Nat
  tries : Nat
  debugOff : Nat
  insnsSize : Nat
  deriving DecidableEq, Repr

/-- DalvikCode header: `cm.packer["4H2I"]` -/
def decCodeHdr : Dec CodeHdr := fun bs => do
  let (a, r) ← u16 bs
  let (b, r) ← u16 r
  let (c, r) ← u16 r
  let (d, r) ← u16 r
  let (e, r) ← u32 r
  let (f, r) ← u32 r
  pure (⟨a, b, c, d, e, f⟩, r)

structure Code where
  hdr : CodeHdr
  insns : Bytes
  deriving DecidableEq, Repr

/-- EncodedCatchHandler: sleb size, |size| (type_idx, addr) pairs, catch_all_addr when size ≤ 0 -/
def decHandler : Dec Unit := fun bs => do
  let (sz, r) ← sleb bs
  let (_, r) ← decN (fun b => do let (_, r) ← uleb b; let (_, r) ← uleb r; pure ((), r)) sz.natAbs r
  if sz ≤ 0 then do
    let (_, r) ← uleb r
    pure ((), r)
  else pure ((), r)

/-- DalvikCode.__init__: header, `buff.read(insns_size * 2)` (plain read), optional padding,
    try items (`I2H`, 8 bytes each) and the EncodedCatchHandlerList (skipped over, C08's subject) -/
def decCode : Dec Code := fun bs => do
  let (h, r) ← decCodeHdr bs
  let insns := r.take (2 * h.insnsSize)
  let r := r.drop (2 * h.insnsSize)
  let (_, r) ← (if h.insnsSize % 2 == 1 && h.tries > 0 then u16 r else some (0, r))
  if h.tries > 0 then do
    let (_, r) ← decN (fun b => do let (_, r) ← u32 b; let (_, r) ← u32 r; pure ((), r)) h.tries r
    let (n, r) ← uleb r
    let (_, r) ← decN decHandler n r
    pure (⟨h, insns⟩, r)
  else pure (⟨h, insns⟩, r)

/-- read_null_terminated_string: bytes up to the first NUL; `none` when there is none (the real
    loop then never returns: C35/D18) -/
def readNT : Bytes → Option (Bytes × Bytes)
  | [] => none
  | b :: r => if b = 0 then some ([], r) else
    match readNT r with
    | some (s, r') => some (b :: s, r')
    | none => none

/-- StringDataItem: utf16_size (uleb), data -/
def decStringData : Dec Bytes := fun bs => do
  let (_, r) ← uleb bs
  readNT r

/-! ## L2 the ClassManager and MapList -/

/-- items parsed sequentially from `off`, each remembered with the offset it started at
    (`self.offset = buff.tell()`) -/
def decSeq {α} (d : Dec α) (file : Bytes) : Nat → Nat → Option (List (Nat × α))
  | 0, _ => some []
  | n + 1, off => do
    let bs := file.drop off
    let (x, r) ← d bs
    let rest ← decSeq d file n (off + (bs.length - r.length))
    pure ((off, x) :: rest)

/-- CodeItem.__init__: every DalvikCode is aligned to 4 before it is read -/
def decCodes (file : Bytes) : Nat → Nat → Option (List (Nat × Code))
  | 0, _ => some []
  | n + 1, off => do
    let off := if off % 4 != 0 then off + (4 - off % 4) else off
    let bs := file.drop off
    let (x, r) ← decCode bs
    let rest ← decCodes file n (off + (bs.length - r.length))
    pure ((off, x) :: rest)

/-- ProtoIdItem after __init__: shorty and return type are resolved eagerly -/
structure ProtoR where
  raw : ProtoId
  shortyS : Bytes
  retS : Bytes
  deriving DecidableEq, Repr

/-- FieldIdItem after reload() -/
structure FieldR where
  raw : FieldId
  clsS : Bytes
  typS : Bytes
  nameS : Bytes
  deriving DecidableEq, Repr

/-- MethodIdItem after reload(): proto_idx_value = [params string, return type string] -/
structure MethodR where
  raw : MethodId
  clsS : Bytes
  paramsS : Bytes
  retS : Bytes
  nameS : Bytes
  deriving DecidableEq, Repr

/-- ClassDefItem after reload() -/
structure ClassR where
  raw : ClassDef
  nameS : Bytes
  superS : Bytes
  ifaces : List Bytes
  data : Option ClassData
  deriving DecidableEq, Repr

/-- what the ClassManager knows (`__manage_item`, `__strings_off`, `__typelists_off`,
    `__classdata_off`); `none` = that map type has not been registered -/
structure CM where
  strData : Option (List (Nat × Bytes)) := none
  stringIds : Option (List Nat) := none
  typeIds : Option (List Nat) := none
  protoIds : Option (List ProtoR) := none
  fieldIds : Option (List FieldR) := none
  methodIds : Option (List MethodR) := none
  typeLists : Option (List (Nat × List Nat)) := none
  classData : Option (List (Nat × ClassData)) := none
  codes : Option (List (Nat × Code)) := none
  classDefs : Option (List ClassR) := none
  deriving DecidableEq, Repr

def ascii (s : String) : Bytes := s.toList.map Char.toNat

def invalidString : Bytes := ascii "AG:IS: invalid string"
def invalidType : Bytes := ascii "AG:ITI: invalid type"

/-- dict lookup by offset -/
def lookupOff {α} (off : Nat) : List (Nat × α) → Option α
  | [] => none
  | (o, x) :: rest => if o = off then some x else lookupOff off rest

/-- ClassManager.get_raw_string (= get_string: no hooks on a fresh parse) -/
def getString (cm : CM) (idx : Nat) : Except String Bytes :=
  match cm.stringIds with
  | none => .error "KeyError"
  | some ids =>
    match ids[idx]? with
    | none => .ok invalidString
    | some off =>
      match lookupOff off (cm.strData.getD []) with   -- `__strings_off` is a dict that always exists
      | none => .ok invalidString
      | some s => .ok s

/-- ClassManager.get_type -/
def getType (cm : CM) (idx : Nat) : Except String Bytes :=
  match cm.typeIds with
  | none => .error "KeyError"
  | some ids =>
    match ids[idx]? with
    | none => .ok invalidType       -- TypeHIdItem.get → -1
    | some s => getString cm s

def mapE {α β ε} (f : α → Except ε β) : List α → Except ε (List β)
  | [] => .ok []
  | x :: xs => match f x with
    | .error e => .error e
    | .ok y => match mapE f xs with
      | .error e => .error e
      | .ok ys => .ok (y :: ys)

/-- ClassManager.get_type_list -/
def getTypeList (cm : CM) (off : Nat) : Except String (List Bytes) :=
  if off = 0 then .ok [] else
  match lookupOff off (cm.typeLists.getD []) with   -- `__typelists_off` always exists
  | none => .error "KeyError"
  | some l => mapE (getType cm) l

def joinSp : List Bytes → Bytes
  | [] => []
  | [x] => x
  | x :: y :: r => x ++ [0x20] ++ joinSp (y :: r)

/-- ProtoIdItem.get_parameters_off_value: '(' + ' '.join(params) + ')' -/
def paramsString (cm : CM) (off : Nat) : Except String Bytes :=
  match getTypeList cm off with
  | .error e => .error e
  | .ok l => .ok ([0x28] ++ joinSp l ++ [0x29])

def resolveProto (cm : CM) (p : ProtoId) : Except String ProtoR := do
  let s ← getString cm p.shorty
  let r ← getType cm p.ret
  pure ⟨p, s, r⟩

def resolveField (cm : CM) (f : FieldId) : Except String FieldR := do
  let c ← getType cm f.cls
  let t ← getType cm f.typ
  let n ← getString cm f.name
  pure ⟨f, c, t, n⟩

/-- MethodIdItem.reload: get_type(class), get_proto(proto_idx) (which evaluates the parameter
    string now), get_string(name).  An out-of-range proto_idx gives a ProtoIdItemInvalid, which
    has no get_parameters_off_value: AttributeError. -/
def resolveMethod (cm : CM) (m : MethodId) : Except String MethodR := do
  let c ← getType cm m.cls
  match cm.protoIds with
  | none => .error "KeyError"
  | some ps =>
    match ps[m.proto]? with
    | none => .error "AttributeError"
    | some p =>
      let params ← paramsString cm p.raw.paramsOff
      let n ← getString cm m.name
      pure ⟨m, c, params, p.retS, n⟩

/-- ClassDefItem.reload (annotations and static values are not modelled) -/
def resolveClass (cm : CM) (c : ClassDef) : Except String ClassR := do
  let n ← getType cm c.cls
  let s ← getType cm c.super
  let i ← getTypeList cm c.ifacesOff
  let d := if c.dataOff != 0 then lookupOff c.dataOff (cm.classData.getD []) else none
  pure ⟨c, n, s, i, d⟩

def structErr {α} : Option α → Except String α
  | some x => .ok x
  | none => .error "struct.error"

/-- `buff.seek(self.offset + (self.offset % 4))` — what MapItem.parse does for the item types it
    calls "4-byte aligned" -/
def seek4 (off : Nat) : Nat := off + off % 4

/-- MapItem.parse + ClassManager.add_type_item for one map entry.  Types that are not modelled
    leave the state unchanged. -/
def step (file : Bytes) (cm : CM) (e : MapEntry) : Except String CM :=
  if e.type = 0x2002 then do          -- STRING_DATA_ITEM, byte aligned
    let l ← structErr (decSeq decStringData file e.size e.offset)
    pure { cm with strData := some l }
  else if e.type = 0x0001 then do     -- STRING_ID_ITEM, byte aligned
    let l ← structErr (decSeq decStringId file e.size e.offset)
    pure { cm with stringIds := some (l.map (·.2)) }
  else if e.type = 0x0002 then do     -- TYPE_ID_ITEM: TypeIdItem.__init__ calls get_string
    let l ← structErr (decSeq decTypeId file e.size (seek4 e.offset))
    let _ ← mapE (fun p => getString cm p.2) l
    pure { cm with typeIds := some (l.map (·.2)) }
  else if e.type = 0x1001 then do     -- TYPE_LIST
    let l ← structErr (decSeq decTypeList file e.size (seek4 e.offset))
    pure { cm with typeLists := some l }
  else if e.type = 0x0003 then do     -- PROTO_ID_ITEM
    let l ← structErr (decSeq decProtoId file e.size (seek4 e.offset))
    let rs ← mapE (fun p => resolveProto cm p.2) l
    pure { cm with protoIds := some rs }
  else if e.type = 0x0004 then do     -- FIELD_ID_ITEM
    let l ← structErr (decSeq decFieldId file e.size (seek4 e.offset))
    let rs ← mapE (fun p => resolveField cm p.2) l
    pure { cm with fieldIds := some rs }
  else if e.type = 0x0005 then do     -- METHOD_ID_ITEM
    let l ← structErr (decSeq decMethodId file e.size (seek4 e.offset))
    let rs ← mapE (fun p => resolveMethod cm p.2) l
    pure { cm with methodIds := some rs }
  else if e.type = 0x2000 then do     -- CLASS_DATA_ITEM, byte aligned
    let l ← structErr (decSeq decClassData file e.size e.offset)
    pure { cm with classData := some l }
  else if e.type = 0x2001 then do     -- CODE_ITEM
    let l ← structErr (decCodes file e.size (seek4 e.offset))
    pure { cm with codes := some l }
  else if e.type = 0x0006 then do     -- CLASS_DEF_ITEM
    let l ← structErr (decSeq decClassDef file e.size (seek4 e.offset))
    let rs ← mapE (fun p => resolveClass cm p.2) l
    pure { cm with classDefs := some rs }
  else .ok cm

/-- MapItem.__init__: `H` type, `H2I` unused/size/offset; TypeMapItem(type) raises ValueError for
    a code that is not a member -/
def decMapEntry : Dec (Except String MapEntry) := fun bs => do
  let (t, r) ← u16 bs
  let (_, r) ← u16 r
  let (sz, r) ← u32 r
  let (off, r) ← u32 r
  if Gen.MapDeps.members.any (·.2 == t) then pure (.ok ⟨t, sz, off⟩, r)
  else pure (.error "ValueError", r)

def readMapEntries : Nat → Bytes → Except String (List MapEntry)
  | 0, _ => .ok []
  | n + 1, bs =>
    match decMapEntry bs with
    | none => .error "struct.error"
    | some (.error e, _) => .error e
    | some (.ok e, r) =>
      match readMapEntries n r with
      | .error x => .error x
      | .ok es => .ok (e :: es)

/-- MapList.__init__ header part -/
def readMap (file : Bytes) (mapOff : Nat) : Except String (List MapEntry) :=
  match u32 (file.drop mapOff) with
  | none => .error "struct.error"
  | some (n, r) => readMapEntries n r

/-- everything MapList.__init__ does, given the entries -/
def loadEntries (file : Bytes) (es : List MapEntry) : Except String CM :=
  loadWith Gen.MapDeps.loadOrder "KeyError" (step file) {} es

/-! ## the view: what DEX / ClassDefItem / EncodedField / EncodedMethod report -/

structure FieldV where
  idx : Nat
  cls : Bytes
  name : Bytes
  typ : Bytes
  flags : Nat
  deriving DecidableEq, Repr

structure MethodV where
  idx : Nat
  cls : Bytes
  name : Bytes
  desc : Bytes
  flags : Nat
  code : Option Code
  deriving DecidableEq, Repr

structure ClassV where
  name : Bytes
  super : Bytes
  ifaces : List Bytes
  flags : Nat
  src : Option Bytes          -- none = NO_INDEX
  sf : List FieldV
  inf : List FieldV
  dm : List MethodV
  vm : List MethodV
  deriving DecidableEq, Repr

structure DexV where
  strings : List Bytes
  classes : List ClassV
  deriving DecidableEq, Repr

/-- EncodedField.reload → ClassManager.get_field(idx).get_list(); FieldIdItemInvalid otherwise -/
def viewField (cm : CM) (f : EncField) : Except String FieldV :=
  match cm.fieldIds with
  | none => .error "KeyError"
  | some fs =>
    match fs[f.idx]? with
    | none => .ok ⟨f.idx, ascii "AG:IFI:invalid_class_name;", ascii "AG:IFI:invalid_name",
                   ascii "(AG:IFI:invalid_type)", f.flags⟩
    | some r => .ok ⟨f.idx, r.clsS, r.nameS, r.typS, f.flags⟩

/-- EncodedMethod.reload → get_method(idx).get_list(), proto = params + return type;
    code = CM.get_code(code_off) (None when there is no CODE_ITEM or no code at that offset) -/
def viewMethod (cm : CM) (m : EncMethod) : Except String MethodV :=
  match cm.methodIds with
  | none => .error "KeyError"
  | some ms =>
    let code := lookupOff m.codeOff (cm.codes.getD [])
    match ms[m.idx]? with
    | none => .ok ⟨m.idx, ascii "AG:IMI:invalid_class_name;", ascii "AG:IMI:invalid_name",
                   ascii "()AG:IMI:invalid_proto", m.flags, code⟩
    | some r => .ok ⟨m.idx, r.clsS, r.nameS, r.paramsS ++ r.retS, m.flags, code⟩

def viewClass (cm : CM) (c : ClassR) : Except String ClassV := do
  let src ← if c.raw.srcIdx = 0xFFFFFFFF then pure none else (getString cm c.raw.srcIdx).map some
  match c.data with
  | none => pure ⟨c.nameS, c.superS, c.ifaces, c.raw.access, src, [], [], [], []⟩
  | some d =>
    let sf ← mapE (viewField cm) d.sf
    let inf ← mapE (viewField cm) d.inf
    let dm ← mapE (viewMethod cm) d.dm
    let vm ← mapE (viewMethod cm) d.vm
    pure ⟨c.nameS, c.superS, c.ifaces, c.raw.access, src, sf, inf, dm, vm⟩

def viewOf (cm : CM) : Except String DexV := do
  let cs ← mapE (viewClass cm) (cm.classDefs.getD [])
  pure ⟨(cm.strData.getD []).map (·.2), cs⟩

/-- DEX.__init__ → _load: header.map_off at 0x34 (validation of the header is C09's subject);
    map_off = 0 → "no map list", an empty DEX object -/
def parseDex (file : Bytes) : Except String DexV :=
  match u32 (file.drop 0x34) with
  | none => .error "struct.error"
  | some (mapOff, _) =>
    if mapOff = 0 then .ok ⟨[], []⟩ else
    match readMap file mapOff with
    | .error e => .error e
    | .ok es =>
      match loadEntries file es with
      | .error e => .error e
      | .ok cm => viewOf cm

/-! ## lookup helpers of class DEX (on the view) -/

def ClassV.methods (c : ClassV) : List MethodV := c.dm ++ c.vm     -- ClassDataItem.get_methods
def ClassV.fields (c : ClassV) : List FieldV := c.sf ++ c.inf      -- ClassDataItem.get_fields

/-- DEX.get_encoded_methods / get_encoded_fields -/
def allMethods (d : DexV) : List MethodV := d.classes.flatMap ClassV.methods
def allFields (d : DexV) : List FieldV := d.classes.flatMap ClassV.fields

/-- DEX.get_class: first class with that name -/
def getClass (d : DexV) (name : Bytes) : Option ClassV := d.classes.find? (·.name == name)

/-- a dict filled in list order: the last item stored under a key is the one found -/
def dictGet {α κ} [BEq κ] (key : α → κ) (k : κ) (l : List α) : Option α :=
  l.reverse.find? (fun x => key x == k)

def MethodV.triple (m : MethodV) : Bytes × Bytes × Bytes := (m.cls, m.name, m.desc)
def FieldV.triple (f : FieldV) : Bytes × Bytes × Bytes := (f.cls, f.name, f.typ)

/-- DEX.get_encoded_method_descriptor (tuple key) -/
def getEncodedMethodDescriptor (d : DexV) (c n ds : Bytes) : Option MethodV :=
  dictGet MethodV.triple (c, n, ds) (allMethods d)

/-- DEX.get_encoded_field_descriptor (tuple key) -/
def getEncodedFieldDescriptor (d : DexV) (c n t : Bytes) : Option FieldV :=
  dictGet FieldV.triple (c, n, t) (allFields d)

/-- the cache key of the UNFIXED code: `class_name + name + descriptor` -/
def keyConcat (t : Bytes × Bytes × Bytes) : Bytes := t.1 ++ t.2.1 ++ t.2.2
def getEncodedFieldDescriptorConcat (d : DexV) (c n t : Bytes) : Option FieldV :=
  dictGet (fun f => keyConcat f.triple) (keyConcat (c, n, t)) (allFields d)

/-- DEX.get_encoded_method_by_idx -/
def getEncodedMethodByIdx (d : DexV) (idx : Nat) : Option MethodV :=
  dictGet MethodV.idx idx (allMethods d)

/-- DEX.get_encoded_methods_class_method: first match -/
def getEncodedMethodsClassMethod (d : DexV) (c n : Bytes) : Option MethodV :=
  (allMethods d).find? (fun m => m.name == n && m.cls == c)

/-- DEX.get_encoded_methods_class / get_encoded_fields_class -/
def getEncodedMethodsClass (d : DexV) (c : Bytes) : List MethodV := (allMethods d).filter (·.cls == c)
def getEncodedFieldsClass (d : DexV) (c : Bytes) : List FieldV := (allFields d).filter (·.cls == c)

/-- DEX.get_encoded_method / get_encoded_field with the pattern `re.escape(name) + r'\Z'` -/
def getEncodedMethodNamed (d : DexV) (n : Bytes) : List MethodV := (allMethods d).filter (·.name == n)
def getEncodedFieldNamed (d : DexV) (n : Bytes) : List FieldV := (allFields d).filter (·.name == n)

end AgVerif.DexFile
