/-
Model of androguard's per-method control-flow graph construction (C10, C11, C12, C40).

Transliterates, reading line by line:
  androguard/core/dex/__init__.py      determineNext, determineException, DCode.get_ins_off,
                                       EncodedMethod.get_instructions_idx
  androguard/core/analysis/analysis.py MethodAnalysis._create_basic_block, DEXBasicBlock.push /
                                       set_childs / set_fathers, BasicBlocks.get_basic_block,
                                       Exceptions.get_exception (as it is: containment test, defect D6),
                                       ExceptionAnalysis, the opcode tests of Analysis._create_xref

The instruction stream is abstract: what the disassembler reported for each instruction
(`get_length()` in bytes, `get_op_value()`, `get_ref_off()`, whether the object is a
PackedSwitch / SparseSwitch / FillArrayData payload and its `get_targets()`).  Offsets are
prefix sums of the lengths, exactly as `get_instructions_idx` computes them.

All opcode sets and ranges come from the generated `AgVerif.Gen.CfgOps`.
Imports nothing but that generated file.
-/
import AgVerif.Gen.CfgOps
namespace AgVerif.Cfg
open AgVerif.Gen.CfgOps

/-- one element of `get_instructions()` -/
structure Ins where
  /-- `get_length()` (bytes) -/
  len : Nat
  /-- `get_op_value()` (0x0100 / 0x0200 / 0x0300 for payload objects) -/
  op : Nat
  /-- `get_ref_off()` (code units, signed); 0 when the instruction has none -/
  refOff : Int
  /-- 0 ordinary instruction, 1 `PackedSwitch`, 2 `SparseSwitch`, 3 `FillArrayData` -/
  kind : Nat
  /-- `get_targets()` of a switch payload -/
  targets : List Int
  /-- `_create_xref` reaches its `add_*xref*` calls for this instruction (none of the
      `continue` statements fires): supplied by the harness from the constant pools -/
  xref : Bool
  deriving Repr, DecidableEq, Inhabited

def lenSum : List Ins → Nat
  | [] => 0
  | i :: r => i.len + lenSum r

/-- `get_instructions_idx` started at offset `o` -/
def withOff : Nat → List Ins → List (Nat × Ins)
  | _, [] => []
  | o, i :: r => (o, i) :: withOff (o + i.len) r

/-- `DCode.get_ins_off(off)` scanning from running offset `o`: the first instruction whose
    running offset equals `off`, else `None` -/
def insOffFrom : Nat → List Ins → Int → Option (Nat × Ins)
  | _, [], _ => none
  | o, i :: r, off => if (o : Int) = off then some (o, i) else insOffFrom (o + i.len) r off

def insOff (m : List Ins) (off : Int) : Option (Nat × Ins) := insOffFrom 0 m off

/-- determineNext: `padding = 0 if remaining == 0 else 4 - remaining`, `remaining = a % 4`
    (Python `%` with a positive modulus is `Int.emod`) -/
def switchPad (a : Int) : Int :=
  let remaining := a % (payloadAlign : Int)
  if remaining = 0 then 0 else (payloadAlign : Int) - remaining

/-- the targets `determineNext` reads from the payload object found at byte offset `a` -/
def payloadTargets (m : List Ins) (a : Int) (idx : Nat) : List Int :=
  match insOff m a with
  | some (_, d) => if d.kind = 1 ∨ d.kind = 2 then d.targets.map (fun t => t * 2 + (idx : Int)) else []
  | none => []

/-- `determineNext(i, idx, m)` -/
def next (m : List Ins) (idx : Nat) (i : Ins) : List Int :=
  if isExit i.op then [-1]
  else if isGoto i.op then [i.refOff * 2 + (idx : Int)]
  else if isIf i.op then [((idx + i.len : Nat) : Int), i.refOff * 2 + (idx : Int)]
  else if isSwitch i.op then
    let a : Int := i.refOff * 2 + (idx : Int)
    ((idx + i.len : Nat) : Int) :: payloadTargets m (a + switchPad a) idx
  else []

/-- `ins.get_op_value() in BasicOPCODES` -/
def isBranch (i : Ins) : Bool := basicOps.contains i.op

/-- `h.get(idx)`: `h[idx] = determineNext(...)` exists only for BasicOPCODES instructions -/
def branchNext (m : List Ins) (idx : Nat) (i : Ins) : Option (List Int) :=
  if isBranch i then some (next m idx i) else none

/-- one element of `determineException`'s result: `[start, end, [type, addr], …]`;
    `stop` is the inclusive last byte; a handler type `none` is the catch-all
    (`"Ljava/lang/Throwable;"`), `some t` the type index -/
structure Exc where
  start : Int
  stop : Int
  handlers : List (Option Nat × Nat)
  deriving Repr, DecidableEq, Inhabited

/-- the list `l` of `_create_basic_block`: every `determineNext` value, then every try start
    and handler address -/
def leaders (m : List Ins) (ex : List Exc) : List Int :=
  (withOff 0 m).flatMap (fun p => match branchNext m p.1 p.2 with | some v => v | none => [])
  ++ ex.flatMap (fun e => e.start :: e.handlers.map (fun h => (h.2 : Int)))

/-- `DEXBasicBlock`: `start`, the pushed instructions; `end`, `last_length`, `nb_instructions`
    are derived exactly as `push` maintains them -/
structure Block where
  start : Nat
  insns : List Ins
  deriving Repr, DecidableEq, Inhabited

/-- `end` -/
def Block.stop (b : Block) : Nat := b.start + lenSum b.insns
/-- `last_length` (0 before the first push) -/
def Block.lastLen (b : Block) : Nat :=
  match b.insns.getLast? with
  | some i => i.len
  | none => 0
/-- `self.end - self.get_last_length()`: offset of the last instruction -/
def Block.lastIdx (b : Block) : Nat := b.stop - b.lastLen

/-- the block-building loop of `_create_basic_block` at instruction offset `pos` with current
    block `cur`; a new block starts at `current_basic.get_end()`; the final empty block is popped -/
def splitAux (isL : Nat → Bool) (isB : Ins → Bool) : Nat → List Ins → Block → List Block
  | _, [], cur => if cur.insns.isEmpty then [] else [cur]
  | pos, i :: r, cur =>
    if isL pos && !cur.insns.isEmpty then
      let cur2 : Block := ⟨cur.stop, [i]⟩
      if isB i then cur :: cur2 :: splitAux isL isB (pos + i.len) r ⟨cur2.stop, []⟩
      else cur :: splitAux isL isB (pos + i.len) r cur2
    else
      let cur2 : Block := ⟨cur.start, cur.insns ++ [i]⟩
      if isB i then cur2 :: splitAux isL isB (pos + i.len) r ⟨cur2.stop, []⟩
      else splitAux isL isB (pos + i.len) r cur2

/-- `idx in l` -/
def isLeader (l : List Int) (pos : Nat) : Bool := l.contains (pos : Int)

/-- `self.basic_blocks` after `_create_basic_block` -/
def blocks (m : List Ins) (ex : List Exc) : List Block :=
  splitAux (isLeader (leaders m ex)) isBranch 0 m ⟨0, []⟩

/-- `BasicBlocks.get_basic_block(idx)` -/
def getBlock (bs : List Block) (idx : Int) : Option Block :=
  bs.find? (fun b => decide ((b.start : Int) ≤ idx ∧ idx < (b.stop : Int)))

/-- `h[i.end - i.get_last_length()]`, `[]` on KeyError -/
def blockValues (m : List Ins) (b : Block) : List Int :=
  match b.insns.getLast? with
  | some i => (match branchNext m b.lastIdx i with | some v => v | none => [])
  | none => []

/-- `set_childs`: entries `(offset of the last instruction, target, child block)`; the child is
    named by its start offset -/
def childs (m : List Ins) (bs : List Block) (b : Block) : List (Nat × Int × Nat) :=
  let vals := blockValues m b
  if vals.isEmpty then
    match getBlock bs ((b.stop : Int) + 1) with
    | some nb => [(b.lastIdx, (b.stop : Int), nb.start)]
    | none => []
  else
    vals.filterMap (fun i =>
      if i = -1 then none
      else match getBlock bs i with
        | some nb => some (b.lastIdx, i, nb.start)
        | none => none)

/-- `set_fathers` as called from every block's `set_childs`, in block order:
    entries `(target, offset of the branching instruction, father block)` -/
def fathers (m : List Ins) (bs : List Block) (c : Block) : List (Int × Nat × Nat) :=
  bs.flatMap (fun b => (childs m bs b).filterMap (fun ch =>
    if ch.2.2 = c.start then some (ch.2.1, ch.1, b.start) else none))

/-- `special_ins` of a block: for 0x26 / 0x2b / 0x2c at `idx`,
    `code.get_ins_off(idx + i.get_ref_off() * 2)` (no alignment padding) -/
def specialIns (m : List Ins) (b : Block) : List (Nat × Option (Nat × Ins)) :=
  (withOff b.start b.insns).filterMap (fun p =>
    if isSpecial p.2.op then some (p.1, insOff m ((p.1 : Int) + p.2.refOff * 2)) else none)

/-- the test of `Exceptions.get_exception(addr_start, addr_end)`: the try range lies inside
    `[addr_start, addr_end]`, or `[addr_start, addr_end]` lies inside the try range.
    (There is no case for a range that starts before `addr_start` and ends before `addr_end`:
    defect D6, recorded as a known finding of C12.) -/
def excMatch (addrStart addrEnd : Int) (e : Exc) : Bool :=
  decide (e.start ≥ addrStart ∧ e.stop ≤ addrEnd) || decide (addrEnd ≤ e.stop ∧ addrStart ≥ e.start)

/-- `Exceptions.get_exception(b.start, b.end - 1)`: the first matching element -/
def excOf (ex : List Exc) (b : Block) : Option Exc :=
  ex.find? (excMatch (b.start : Int) ((b.stop : Int) - 1))

/-- `ExceptionAnalysis.exceptions`: `[type, addr, basic_blocks.get_basic_block(addr)]` -/
def excHandlers (bs : List Block) (e : Exc) : List (Option Nat × Nat × Option Nat) :=
  e.handlers.map (fun h => (h.1, h.2, (getBlock bs (h.2 : Int)).map (·.start)))

/-- offsets at which `_create_xref` records a cross reference, by case -/
def xrefSites (m : List Ins) (test : Nat → Bool) : List Nat :=
  ((withOff 0 m).filter (fun p => test p.2.op && p.2.xref)).map (·.1)

/-! ### determineException -/

/-- `try_item`: start_addr and insn_count in code units, handler_off -/
structure TryItem where
  startAddr : Nat
  count : Nat
  hoff : Nat
  deriving Repr, DecidableEq

/-- `encoded_catch_handler`: offset (relative to the handler list), `size` (sleb: ≤ 0 means a
    catch-all follows), typed pairs (type index, address in code units), catch-all address -/
structure Handler where
  off : Nat
  size : Int
  pairs : List (Nat × Nat)
  catchAll : Nat
  deriving Repr, DecidableEq

/-- keys of the dict `h_off` in insertion order -/
def firstOcc : List Nat → List Nat → List Nat
  | [], acc => acc.reverse
  | k :: r, acc => if acc.contains k then firstOcc r acc else firstOcc r (k :: acc)

def excOfTry (t : TryItem) (h : Handler) : Exc :=
  { start := (t.startAddr * 2 : Nat)
    stop := ((t.startAddr * 2 + t.count * 2 : Nat) : Int) - 1
    handlers := h.pairs.map (fun p => (some p.1, p.2 * 2))
                ++ (if h.size ≤ 0 then [(none, h.catchAll * 2)] else []) }

/-- `determineException`: try items grouped by handler offset (dict insertion order), each with the
    first `encoded_catch_handler` at that offset; `none` models the `IndexError` when there is none -/
def excepts (tries : List TryItem) (hs : List Handler) : Option (List Exc) :=
  if tries.isEmpty then some [] else
  ((firstOcc (tries.map (·.hoff)) []).flatMap (fun k => tries.filter (fun t => t.hoff == k))).mapM
    (fun t => (hs.find? (fun h => h.off == t.hoff)).map (excOfTry t))

end AgVerif.Cfg
