/-
Model of Dalvik instruction decoding in androguard/core/dex/__init__.py:
`Instruction10x … Instruction4rcc`, `Instruction00x`, `get_instruction`,
`get_optimized_instruction`.                      (imports only Model.InsnFmt, Gen.Opcodes)

INTERFACE (for the CFG / xref models and the sweep):

  Fmt, SC                     Model/InsnFmt.lean: one constructor per Python class / struct character
  Gen.Opcodes.length f        `length` class attribute (bytes)          — GENERATED from the source
  Gen.Opcodes.unpackFmt f     struct string of `__init__`               — GENERATED
  Gen.Opcodes.packFmt f       struct string of `get_raw`                — GENERATED
  Gen.Opcodes.opcodeRows      DALVIK_OPCODES_FORMAT rows                — GENERATED
  Insn                        a decoded instruction object: `fmt` (class), `op` (`self.OP`), `v`
                              (the other instance attributes, order documented at `post`)
  Err                         why construction raised (all are `InvalidInstruction` except `indexError`)
  decode f bs                 `Instruction<f>(cm, bs)` wrapped as in get_instruction (struct.error ↦ short)
  fmtOf op / kindOf op / nameOf op          DALVIK_OPCODES_FORMAT[op][0] / [1][1] / [1][0]
  getInstruction bs           `get_instruction(cm, bs[0], bs)`   (what the sweep calls with op_value & 0xff)
  getOptimized bs             `get_optimized_instruction(cm, u16(bs), bs)` for u16 in DALVIK_OPCODES_OPTIMIZED
  x.length                    `get_length()` (bytes)
  encode x                    `get_raw()`; `none` = struct.error
  operands x                  `get_operands()`: `.ok none` = the method returns None (45cc, 4rcc)
  literals x / refOff x / refKind x         `get_literals()` / `get_ref_off()` / `get_ref_kind()`
                              (`none` where the class does not define the method)
  regs x / lit x / off x / idx x            the semantic view used by `fields_spec` (registers in syntax
                              order, the literal, the branch offset, the pool index)

Conventions.  Bytes are `Nat` (the theorems assume `< 256`, the driver supplies bytes).  Python's
unbounded `int` is `Int`.  Bit operations are written in arithmetic normal form, which is what they
mean on Python ints for the operand ranges that occur:  `x & 0xFF` = `x % 256`, `(x >> 8) & 0xF` =
`x / 256 % 16` (also for negative `x`: Python `>>` is floor division and `&` with a non-negative mask is
floor-mod; Lean's `Int` `/` and `%` with a positive literal divisor are exactly these), and
`(a << 8) | op` = `a * 256 + op` because `op < 256` for every object `decode` builds (`encode` is only
meant for such objects; the correspondence run compares `get_raw` on every decoded object).
`struct` is modelled once (`unpack`, `pack`): little-endian, standard sizes, `struct.error` on a buffer
of the wrong size, on a wrong number of values and on a value out of range.
-/
import AgVerif.Model.InsnFmt
import AgVerif.Gen.Opcodes
namespace AgVerif.Insn
open AgVerif.Gen

/-! ## struct -/

/-- little-endian value of a byte list -/
def leNat : List Nat → Nat
  | [] => 0
  | b :: r => b + 256 * leNat r

/-- value of an `n`-byte field read with character `c` from its unsigned little-endian value `u` -/
def SC.value (c : SC) (u : Nat) : Int :=
  match c with
  | .B | .H | .I | .L | .Q => (u : Int)
  | .b => ((u : Int) + 128) % 256 - 128
  | .h => ((u : Int) + 32768) % 65536 - 32768
  | .i | .l => ((u : Int) + 2147483648) % 4294967296 - 2147483648
  | .q => ((u : Int) + 9223372036854775808) % 18446744073709551616 - 9223372036854775808

def unpackGo : List SC → List Nat → List Int
  | [], _ => []
  | c :: cs, bs => c.value (leNat (bs.take c.size)) :: unpackGo cs (bs.drop c.size)

def calcsize (cs : List SC) : Nat := (cs.map SC.size).sum

/-- `struct.Struct('<'+cs).unpack(bs)`; `none` = struct.error (buffer size ≠ calcsize) -/
def unpack (cs : List SC) (bs : List Nat) : Option (List Int) :=
  if bs.length = calcsize cs then some (unpackGo cs bs) else none

/-- range accepted by `struct.pack` for a character -/
def SC.inRange (c : SC) (v : Int) : Bool :=
  match c with
  | .B => 0 ≤ v && v < 256
  | .b => -128 ≤ v && v < 128
  | .H => 0 ≤ v && v < 65536
  | .h => -32768 ≤ v && v < 32768
  | .I | .L => 0 ≤ v && v < 4294967296
  | .i | .l => -2147483648 ≤ v && v < 2147483648
  | .Q => 0 ≤ v && v < 18446744073709551616
  | .q => -9223372036854775808 ≤ v && v < 9223372036854775808

/-- `n` little-endian bytes of `v` (two's complement for negative `v`): byte `k` is `v / 256^k % 256`;
    `d` is the running power of 256 -/
def leBytesFrom : Nat → Int → Int → List Nat
  | 0, _, _ => []
  | n + 1, v, d => (v / d % 256).toNat :: leBytesFrom n v (d * 256)

def leBytes (n : Nat) (v : Int) : List Nat := leBytesFrom n v 1

/-- `struct.Struct('<'+cs).pack(*vs)`; `none` = struct.error -/
def pack : List SC → List Int → Option (List Nat)
  | [], [] => some []
  | c :: cs, v :: vs =>
    if c.inRange v then
      match pack cs vs with
      | some r => some (leBytes c.size v ++ r)
      | none => none
    else none
  | _, _ => none

/-! ## list destructuring helpers (`d` = result when the attribute list has another shape) -/

@[inline] def m0 {α} (d : α) (vs : List Int) (k : α) : α := match vs with | [] => k | _ => d
@[inline] def m1 {α} (d : α) (vs : List Int) (k : Int → α) : α := match vs with | [a] => k a | _ => d
@[inline] def m2 {α} (d : α) (vs : List Int) (k : Int → Int → α) : α := match vs with | [a, b] => k a b | _ => d
@[inline] def m3 {α} (d : α) (vs : List Int) (k : Int → Int → Int → α) : α :=
  match vs with | [a, b, c] => k a b c | _ => d
@[inline] def m4 {α} (d : α) (vs : List Int) (k : Int → Int → Int → Int → α) : α :=
  match vs with | [a, b, c, e] => k a b c e | _ => d
@[inline] def m5 {α} (d : α) (vs : List Int) (k : Int → Int → Int → Int → Int → α) : α :=
  match vs with | [a, b, c, e, f] => k a b c e f | _ => d
@[inline] def m7 {α} (d : α) (vs : List Int) (k : Int → Int → Int → Int → Int → Int → Int → α) : α :=
  match vs with | [a, b, c, e, f, g, h] => k a b c e f g h | _ => d
@[inline] def m8 {α} (d : α) (vs : List Int) (k : Int → Int → Int → Int → Int → Int → Int → Int → α) : α :=
  match vs with | [a, b, c, e, f, g, h, i] => k a b c e f g h i | _ => d

/-! ## instruction objects -/

inductive Err
  | short        -- struct.error in the constructor (buffer shorter than `length`) ↦ InvalidInstruction
  | pad          -- 10x / 20t / 30t / 32x: "High byte of opcode … must be zero!"
  | count        -- 45cc: "A is greater than 5"
  | unused       -- Instruction00x
  | indexError   -- Instruction00x on an empty buffer evaluates `buff[0]` (IndexError, not wrapped)
  | shape        -- the generated struct string no longer has the shape this model was written for
  | noOpcode     -- opcode not in the table (KeyError; cannot happen for op < 256 with the full table)
  deriving DecidableEq, Repr

structure Insn where
  fmt : Fmt
  op : Nat
  v : List Int
  deriving DecidableEq, Repr

/-- the part of each constructor after `unpack`: nibble splitting and checks.
    Attribute order in `v`:
    10x []            12x [A,B]          11n [A,B]           11x [AA]          10t [AA]
    20t [AAAA]        20bc/22x/21c/21t/21s [AA,BBBB]          21h [AA,__BBBB,BBBB]
    23x/22b [AA,BB,CC]                   22t/22s/22c/22cs [A,B,CCCC]
    30t [AAAAAAAA]    32x [AAAA,BBBB]    31i/31t/31c [AA,BBBBBBBB]
    35c/35ms/35mi [A,BBBB,C,D,E,F,G]     3rc/3rms/3rmi [AA,BBBB,CCCC]  (NNNN = CCCC+AA-1 is derived)
    51l [AA,B64]      41c/40sc [BBBBBBBB,AAAA]   52c [CCCCCCCC,AAAA,BBBB]   5rc [BBBBBBBB,AAAA,CCCC]
    45cc [A,BBBB,C,D,E,F,G,HHHH]         4rcc [AA,BBBB,CCCC,HHHH] -/
def post (f : Fmt) (vs : List Int) : Except Err Insn :=
  match f with
  | .f10x => m2 (.error .shape) vs fun op pad => if pad ≠ 0 then .error .pad else .ok ⟨f, op.toNat, []⟩
  | .f12x => m1 (.error .shape) vs fun i16 => .ok ⟨f, (i16 % 256).toNat, [i16 / 256 % 16, i16 / 4096 % 16]⟩
  | .f11n => m2 (.error .shape) vs fun op i8 => .ok ⟨f, op.toNat, [i8 % 16, i8 / 16]⟩
  | .f11x => m2 (.error .shape) vs fun op aa => .ok ⟨f, op.toNat, [aa]⟩
  | .f10t => m2 (.error .shape) vs fun op aa => .ok ⟨f, op.toNat, [aa]⟩
  | .f20t => m3 (.error .shape) vs fun op pad a => if pad ≠ 0 then .error .pad else .ok ⟨f, op.toNat, [a]⟩
  | .f20bc => m3 (.error .shape) vs fun op aa b => .ok ⟨f, op.toNat, [aa, b]⟩
  | .f22x => m3 (.error .shape) vs fun op aa b => .ok ⟨f, op.toNat, [aa, b]⟩
  | .f21c => m3 (.error .shape) vs fun op aa b => .ok ⟨f, op.toNat, [aa, b]⟩
  | .f21t => m3 (.error .shape) vs fun op aa b => .ok ⟨f, op.toNat, [aa, b]⟩
  | .f21s => m3 (.error .shape) vs fun op aa b => .ok ⟨f, op.toNat, [aa, b]⟩
  | .f21h => m3 (.error .shape) vs fun op aa b =>
    .ok ⟨f, op.toNat, [aa, b, if op = 0x15 then b * 65536 else if op = 0x19 then b * 281474976710656 else b]⟩
  | .f23x => m4 (.error .shape) vs fun op aa bb cc => .ok ⟨f, op.toNat, [aa, bb, cc]⟩
  | .f22b => m4 (.error .shape) vs fun op aa bb cc => .ok ⟨f, op.toNat, [aa, bb, cc]⟩
  | .f22t => m2 (.error .shape) vs fun i16 c => .ok ⟨f, (i16 % 256).toNat, [i16 / 256 % 16, i16 / 4096 % 16, c]⟩
  | .f22s => m2 (.error .shape) vs fun i16 c => .ok ⟨f, (i16 % 256).toNat, [i16 / 256 % 16, i16 / 4096 % 16, c]⟩
  | .f22c => m2 (.error .shape) vs fun i16 c => .ok ⟨f, (i16 % 256).toNat, [i16 / 256 % 16, i16 / 4096 % 16, c]⟩
  | .f22cs => m2 (.error .shape) vs fun i16 c => .ok ⟨f, (i16 % 256).toNat, [i16 / 256 % 16, i16 / 4096 % 16, c]⟩
  | .f30t => m3 (.error .shape) vs fun op pad a => if pad ≠ 0 then .error .pad else .ok ⟨f, op.toNat, [a]⟩
  | .f32x => m4 (.error .shape) vs fun op pad a b => if pad ≠ 0 then .error .pad else .ok ⟨f, op.toNat, [a, b]⟩
  | .f31i => m3 (.error .shape) vs fun op aa b => .ok ⟨f, op.toNat, [aa, b]⟩
  | .f31t => m3 (.error .shape) vs fun op aa b => .ok ⟨f, op.toNat, [aa, b]⟩
  | .f31c => m3 (.error .shape) vs fun op aa b => .ok ⟨f, op.toNat, [aa, b]⟩
  | .f35c => m3 (.error .shape) vs fun a b c =>
    .ok ⟨f, (a % 256).toNat, [a / 4096 % 16, b, c % 16, c / 16 % 16, c / 256 % 16, c / 4096 % 16, a / 256 % 16]⟩
  | .f35ms => m3 (.error .shape) vs fun a b c =>
    .ok ⟨f, (a % 256).toNat, [a / 4096 % 16, b, c % 16, c / 16 % 16, c / 256 % 16, c / 4096 % 16, a / 256 % 16]⟩
  | .f35mi => m3 (.error .shape) vs fun a b c =>
    .ok ⟨f, (a % 256).toNat, [a / 4096 % 16, b, c % 16, c / 16 % 16, c / 256 % 16, c / 4096 % 16, a / 256 % 16]⟩
  | .f3rc => m4 (.error .shape) vs fun op aa b c => .ok ⟨f, op.toNat, [aa, b, c]⟩
  | .f3rms => m4 (.error .shape) vs fun op aa b c => .ok ⟨f, op.toNat, [aa, b, c]⟩
  | .f3rmi => m4 (.error .shape) vs fun op aa b c => .ok ⟨f, op.toNat, [aa, b, c]⟩
  | .f51l => m3 (.error .shape) vs fun op aa b => .ok ⟨f, op.toNat, [aa, b]⟩
  | .f41c => m3 (.error .shape) vs fun op b a => .ok ⟨f, op.toNat, [b, a]⟩
  | .f40sc => m3 (.error .shape) vs fun op b a => .ok ⟨f, op.toNat, [b, a]⟩
  | .f52c => m4 (.error .shape) vs fun op c a b => .ok ⟨f, op.toNat, [c, a, b]⟩
  | .f5rc => m4 (.error .shape) vs fun op b a c => .ok ⟨f, op.toNat, [b, a, c]⟩
  | .f45cc => m5 (.error .shape) vs fun op r1 b r2 h =>
    if r1 / 16 % 16 > 5 then .error .count
    else .ok ⟨f, op.toNat, [r1 / 16 % 16, b, r2 % 16, r2 / 16 % 16, r2 / 256 % 16, r2 / 4096 % 16, r1 % 16, h]⟩
  | .f4rcc => m5 (.error .shape) vs fun op aa b c h => .ok ⟨f, op.toNat, [aa, b, c, h]⟩
  | _ => .error .shape

/-- `Instruction<f>(cm, bs)` as called from get_instruction / get_optimized_instruction
    (`buff[: self.length]`, struct.error ↦ InvalidInstruction). -/
def decode (f : Fmt) (bs : List Nat) : Except Err Insn :=
  match f with
  | .f00x => if bs.isEmpty then .error .indexError else .error .unused
  | _ =>
    match unpack (Opcodes.unpackFmt f) (bs.take (Opcodes.length f)) with
    | none => .error .short
    | some vs => post f vs

/-- `get_length()` -/
def Insn.length (x : Insn) : Nat := Opcodes.length x.fmt

/-- the argument tuple of `packer[…].pack(…)` in `get_raw` -/
def packArgs (x : Insn) : Option (List Int) :=
  let op : Int := x.op
  match x.fmt with
  | .f10x => m0 (none) x.v (some [op])
  | .f12x => m2 (none) x.v fun a b => some [b * 4096 + a * 256 + op]
  | .f11n => m2 (none) x.v fun a b => some [b * 4096 + a * 256 + op]
  | .f11x => m1 (none) x.v fun aa => some [aa * 256 + op]
  | .f10t => m1 (none) x.v fun aa => some [op, aa]
  | .f20t => m1 (none) x.v fun a => some [op, a]
  | .f20bc => m2 (none) x.v fun aa b => some [aa * 256 + op, b]
  | .f22x => m2 (none) x.v fun aa b => some [aa * 256 + op, b]
  | .f21c => m2 (none) x.v fun aa b => some [aa * 256 + op, b]
  | .f21t => m2 (none) x.v fun aa b => some [aa * 256 + op, b]
  | .f21s => m2 (none) x.v fun aa b => some [op, aa, b]
  | .f21h => m3 (none) x.v fun aa b _ => some [aa * 256 + op, b]
  | .f23x => m3 (none) x.v fun aa bb cc => some [aa * 256 + op, cc * 256 + bb]
  | .f22b => m3 (none) x.v fun aa bb cc => some [aa * 256 + op, cc * 256 + bb]
  | .f22t => m3 (none) x.v fun a b c => some [b * 4096 + a * 256 + op, c]
  | .f22s => m3 (none) x.v fun a b c => some [b * 4096 + a * 256 + op, c]
  | .f22c => m3 (none) x.v fun a b c => some [b * 4096 + a * 256 + op, c]
  | .f22cs => m3 (none) x.v fun a b c => some [b * 4096 + a * 256 + op, c]
  | .f30t => m1 (none) x.v fun a => some [op, a]
  | .f32x => m2 (none) x.v fun a b => some [op, a, b]
  | .f31i => m2 (none) x.v fun aa b => some [op, aa, b]
  | .f31t => m2 (none) x.v fun aa b => some [aa * 256 + op, b]
  | .f31c => m2 (none) x.v fun aa b => some [aa * 256 + op, b]
  | .f35c => m7 (none) x.v fun a b c d e f g => some [a * 4096 + g * 256 + op, b, f * 4096 + e * 256 + d * 16 + c]
  | .f35ms => m7 (none) x.v fun a b c d e f g => some [a * 4096 + g * 256 + op, b, f * 4096 + e * 256 + d * 16 + c]
  | .f35mi => m7 (none) x.v fun a b c d e f g => some [a * 4096 + g * 256 + op, b, f * 4096 + e * 256 + d * 16 + c]
  | .f3rc => m3 (none) x.v fun aa b c => some [aa * 256 + op, b, c]
  | .f3rms => m3 (none) x.v fun aa b c => some [aa * 256 + op, b, c]
  | .f3rmi => m3 (none) x.v fun aa b c => some [aa * 256 + op, b, c]
  | .f51l => m2 (none) x.v fun aa b => some [op, aa, b]
  | .f41c => m2 (none) x.v fun b a => some [op, b, a]
  | .f40sc => m2 (none) x.v fun b a => some [op, b, a]
  | .f52c => m3 (none) x.v fun c a b => some [op, c, a, b]
  | .f5rc => m3 (none) x.v fun b a c => some [op, b, a, c]
  | .f45cc => m8 (none) x.v fun a b c d e f g h => some [op, a * 16 + g, b, f * 4096 + e * 256 + d * 16 + c, h]
  | .f4rcc => m4 (none) x.v fun aa b c h => some [op, aa, b, c, h]
  | _ => none

/-- `get_raw()`; `none` = struct.error -/
def encode (x : Insn) : Option (List Nat) :=
  match packArgs x with
  | some args => pack (Opcodes.packFmt x.fmt) args
  | none => none

/-! ## tables -/

def lookupRow (rows : List (Nat × Fmt × String × Option Nat)) (op : Nat) : Option (Fmt × String × Option Nat) :=
  match rows.find? (fun r => r.1 == op) with
  | some r => some r.2
  | none => none

def rowOf (op : Nat) : Option (Fmt × String × Option Nat) :=
  if op ≥ 0xF2FF then lookupRow Opcodes.optimizedRows op else lookupRow Opcodes.opcodeRows op

/-- `DALVIK_OPCODES_FORMAT[op][0]` -/
def fmtOf (op : Nat) : Option Fmt := (lookupRow Opcodes.opcodeRows op).map (·.1)
/-- `DALVIK_OPCODES_OPTIMIZED[u][0]` -/
def optFmtOf (u : Nat) : Option Fmt := (lookupRow Opcodes.optimizedRows u).map (·.1)
/-- `Instruction.get_name()` (table chosen by `self.OP >= 0xF2FF`) -/
def nameOf (op : Nat) : Option String := (rowOf op).map (·.2.1)
/-- `Instruction.get_kind()`; `none` = the row has no kind (IndexError) or no row -/
def kindOf (op : Nat) : Option Nat := match rowOf op with
  | some (_, _, k) => k
  | none => none

/-- `get_instruction(cm, bs[0], bs)` -/
def getInstruction (bs : List Nat) : Except Err Insn :=
  match bs with
  | [] => .error .short
  | b :: _ =>
    match fmtOf b with
    | some f => decode f bs
    | none => .error .noOpcode

/-- `get_optimized_instruction(cm, u, bs)` with `u` the first code unit -/
def getOptimized (bs : List Nat) : Except Err Insn :=
  match optFmtOf (leNat (bs.take 2)) with
  | some f => decode f bs
  | none => .error .noOpcode

/-! ## observers -/

inductive Operand
  | reg (n : Int) | lit (v : Int) | off (v : Int) | kind (k : Nat) (idx : Int)
  deriving DecidableEq, Repr

/-- `range(lo, hi)` on Python ints -/
def pyRange (lo hi : Int) : List Int :=
  (List.range (hi - lo).toNat).map (fun (i : Nat) => lo + (i : Int))

inductive OpErr | noKind   -- get_kind() raised (row without a kind)
  deriving DecidableEq, Repr

/-- `get_operands()`.  `.ok none`: the method returns None (45cc, 4rcc: unimplemented upstream). -/
def operands (x : Insn) : Except OpErr (Option (List Operand)) :=
  let k : Except OpErr Nat := match kindOf x.op with
    | some k => .ok (k + Opcodes.operandKIND) | none => .error .noKind
  match x.fmt with
  | .f10x => .ok (some [])
  | .f12x => m2 (.ok (some [])) x.v fun a b => .ok (some [.reg a, .reg b])
  | .f11n => m2 (.ok (some [])) x.v fun a b => .ok (some [.reg a, .lit b])
  | .f11x => m1 (.ok (some [])) x.v fun aa => .ok (some [.reg aa])
  | .f10t => m1 (.ok (some [])) x.v fun aa => .ok (some [.off aa])
  | .f20t => m1 (.ok (some [])) x.v fun a => .ok (some [.off a])
  | .f20bc => m2 (.ok (some [])) x.v fun aa b => .ok (some [.lit aa, .lit b])
  | .f22x => m2 (.ok (some [])) x.v fun aa b => .ok (some [.reg aa, .reg b])
  | .f21c => m2 (.ok (some [])) x.v fun aa b => do let k ← k; .ok (some [.reg aa, .kind k b])
  | .f21t => m2 (.ok (some [])) x.v fun aa b => .ok (some [.reg aa, .off b])
  | .f21s => m2 (.ok (some [])) x.v fun aa b => .ok (some [.reg aa, .lit b])
  | .f21h => m3 (.ok (some [])) x.v fun aa _ s => .ok (some [.reg aa, .lit s])
  | .f23x => m3 (.ok (some [])) x.v fun aa bb cc => .ok (some [.reg aa, .reg bb, .reg cc])
  | .f22b => m3 (.ok (some [])) x.v fun aa bb cc => .ok (some [.reg aa, .reg bb, .lit cc])
  | .f22t => m3 (.ok (some [])) x.v fun a b c => .ok (some [.reg a, .reg b, .off c])
  | .f22s => m3 (.ok (some [])) x.v fun a b c => .ok (some [.reg a, .reg b, .lit c])
  | .f22c => m3 (.ok (some [])) x.v fun a b c => do let k ← k; .ok (some [.reg a, .reg b, .kind k c])
  | .f22cs => m3 (.ok (some [])) x.v fun a b c => do let k ← k; .ok (some [.reg a, .reg b, .kind k c])
  | .f30t => m1 (.ok (some [])) x.v fun a => .ok (some [.off a])
  | .f32x => m2 (.ok (some [])) x.v fun a b => .ok (some [.reg a, .reg b])
  | .f31i => m2 (.ok (some [])) x.v fun aa b => .ok (some [.reg aa, .lit b])
  | .f31t => m2 (.ok (some [])) x.v fun aa b => .ok (some [.reg aa, .off b])
  | .f31c => m2 (.ok (some [])) x.v fun aa b => do let k ← k; .ok (some [.reg aa, .kind k b])
  | .f35c => m7 (.ok (some [])) x.v fun a b c d e f g => do
    let k ← k
    -- A = 0 … 5: the first A of C, D, E, F, G then the kind; any other A: the empty list
    if 0 ≤ a ∧ a ≤ 5 then .ok (some ((([c, d, e, f, g].take a.toNat).map .reg) ++ [.kind k b]))
    else .ok (some [])
  | .f35ms => m7 (.ok (some [])) x.v fun a b c d e f g => do
    let k ← k
    -- no A = 0 branch in 35ms / 35mi
    if 1 ≤ a ∧ a ≤ 5 then .ok (some ((([c, d, e, f, g].take a.toNat).map .reg) ++ [.kind k b]))
    else .ok (some [])
  | .f35mi => m7 (.ok (some [])) x.v fun a b c d e f g => do
    let k ← k
    if 1 ≤ a ∧ a ≤ 5 then .ok (some ((([c, d, e, f, g].take a.toNat).map .reg) ++ [.kind k b]))
    else .ok (some [])
  | .f3rc => m3 (.ok (some [])) x.v fun aa b c => do
    let k ← k
    .ok (some (((pyRange c (c + aa - 1 + 1)).map .reg) ++ [.kind k b]))
  | .f3rms => m3 (.ok (some [])) x.v fun aa b c => do
    let k ← k
    -- `if CCCC == NNNN: [C] else range(CCCC, NNNN)` — drops the last register when AA ≥ 2
    if c = c + aa - 1 then .ok (some [.reg c, .kind k b])
    else .ok (some (((pyRange c (c + aa - 1)).map .reg) ++ [.kind k b]))
  | .f3rmi => m3 (.ok (some [])) x.v fun aa b c => do
    let k ← k
    if c = c + aa - 1 then .ok (some [.reg c, .kind k b])
    else .ok (some (((pyRange c (c + aa - 1)).map .reg) ++ [.kind k b]))
  | .f51l => m2 (.ok (some [])) x.v fun aa b => .ok (some [.reg aa, .lit b])
  | .f41c => m2 (.ok (some [])) x.v fun b a => do let k ← k; .ok (some [.reg a, .kind k b])
  | .f40sc => m2 (.ok (some [])) x.v fun b a => do let k ← k; .ok (some [.lit a, .kind k b])
  | .f52c => m3 (.ok (some [])) x.v fun c a b => do let k ← k; .ok (some [.lit a, .lit b, .kind k c])
  | .f5rc => m3 (.ok (some [])) x.v fun b a c => do
    let k ← k
    if c = c + a - 1 then .ok (some [.reg c, .kind k b])
    else .ok (some (((pyRange c (c + a - 1)).map .reg) ++ [.kind k b]))
  | .f45cc => .ok none
  | .f4rcc => .ok none
  | _ => .ok (some [])

/-- `get_literals()` -/
def literals (x : Insn) : List Int :=
  match x.fmt with
  | .f11n => m2 ([]) x.v fun _ b => [b]
  | .f21s => m2 ([]) x.v fun _ b => [b]
  | .f21h => m3 ([]) x.v fun _ _ s => [s]
  | .f22b => m3 ([]) x.v fun _ _ cc => [cc]
  | .f22s => m3 ([]) x.v fun _ _ c => [c]
  | .f31i => m2 ([]) x.v fun _ b => [b]
  | .f51l => m2 ([]) x.v fun _ b => [b]
  | _ => []

/-- `get_ref_off()`; `none`: the class has no such method -/
def refOff (x : Insn) : Option Int :=
  match x.fmt with
  | .f10t => m1 (none) x.v fun aa => some aa
  | .f20t => m1 (none) x.v fun a => some a
  | .f21t => m2 (none) x.v fun _ b => some b
  | .f22t => m3 (none) x.v fun _ _ c => some c
  | .f30t => m1 (none) x.v fun a => some a
  | .f31t => m2 (none) x.v fun _ b => some b
  | _ => none

/-- `get_ref_kind()`; `none`: the base class method raises "not implemented" -/
def refKind (x : Insn) : Option Int :=
  match x.fmt with
  | .f21c => m2 (none) x.v fun _ b => some b
  | .f22c => m3 (none) x.v fun _ _ c => some c
  | .f22cs => m3 (none) x.v fun _ _ c => some c
  | .f31c => m2 (none) x.v fun _ b => some b
  | .f35c => m7 (none) x.v fun _ b _ _ _ _ _ => some b
  | .f35ms => m7 (none) x.v fun _ b _ _ _ _ _ => some b
  | .f35mi => m7 (none) x.v fun _ b _ _ _ _ _ => some b
  | .f3rc => m3 (none) x.v fun _ b _ => some b
  | .f3rms => m3 (none) x.v fun _ b _ => some b
  | .f3rmi => m3 (none) x.v fun _ b _ => some b
  | .f41c => m2 (none) x.v fun b _ => some b
  | .f40sc => m2 (none) x.v fun b _ => some b
  | .f52c => m3 (none) x.v fun c _ _ => some c
  | .f5rc => m3 (none) x.v fun b _ _ => some b
  | _ => none

/-! ## semantic view (what `fields_spec` compares with the specification) -/

/-- register operands in syntax order.  For 45cc / 4rcc, whose `get_operands` is unimplemented,
    the registers are taken from the instance attributes (A, C…G / AA, CCCC) the way `get_output` prints them. -/
def regsOfOperands (x : Insn) : List Int :=
  match operands x with
  | .ok (some ops) => ops.filterMap (fun o => match o with | .reg n => some n | _ => none)
  | _ => []

def regs (x : Insn) : List Int :=
  match x.fmt with
  | .f45cc => m8 [] x.v fun a _ c d e f g _ => [c, d, e, f, g].take a.toNat
  | .f4rcc => m4 [] x.v fun aa _ c _ => pyRange c (c + aa - 1 + 1)
  | _ => regsOfOperands x

/-- the literal (`get_literals()[0]`) -/
def lit (x : Insn) : Option Int := (literals x).head?
/-- the branch offset -/
def off (x : Insn) : Option Int := refOff x
/-- the pool index (`get_ref_kind()`, for 45cc / 4rcc the attribute BBBB) -/
def idx (x : Insn) : Option Int :=
  match x.fmt with
  | .f45cc => m8 none x.v fun _ b _ _ _ _ _ _ => some b
  | .f4rcc => m4 none x.v fun _ b _ _ => some b
  | _ => refKind x
/-- the second index HHHH of 45cc / 4rcc -/
def idx2 (x : Insn) : Option Int :=
  match x.fmt with
  | .f45cc => m8 none x.v fun _ _ _ _ _ _ _ h => some h
  | .f4rcc => m4 none x.v fun _ _ _ h => some h
  | _ => none

end AgVerif.Insn
