/-
Base types shared by the generated opcode tables (`AgVerif.Gen.Opcodes`) and the
instruction model (`AgVerif.Model.Insn`).   (imports nothing)

* `Fmt`  — one constructor per `Instruction*` class of androguard/core/dex/__init__.py
           (`Instruction35c` ↦ `Fmt.f35c`, …, `Instruction00x` ↦ `Fmt.f00x`).  37 classes.
* `SC`   — the `struct` format characters that occur in `cm.packer["…"]` strings.  The packer
           prepends `<`: little-endian, standard sizes, no alignment.
-/
namespace AgVerif.Insn

inductive Fmt
  | f10x | f12x | f11n | f11x | f10t | f20t | f20bc | f22x | f21t | f21s | f21h | f21c
  | f23x | f22b | f22t | f22s | f22c | f22cs | f30t | f32x | f31i | f31t | f31c
  | f35c | f35ms | f35mi | f3rc | f3rms | f3rmi | f51l
  | f41c | f40sc | f52c | f5rc | f45cc | f4rcc | f00x
  deriving DecidableEq, Repr, Inhabited

/-- every class, in the order of the constructor list -/
def Fmt.all : List Fmt :=
  [.f10x, .f12x, .f11n, .f11x, .f10t, .f20t, .f20bc, .f22x, .f21t, .f21s, .f21h, .f21c,
   .f23x, .f22b, .f22t, .f22s, .f22c, .f22cs, .f30t, .f32x, .f31i, .f31t, .f31c,
   .f35c, .f35ms, .f35mi, .f3rc, .f3rms, .f3rmi, .f51l,
   .f41c, .f40sc, .f52c, .f5rc, .f45cc, .f4rcc, .f00x]

/-- the suffix of the Python class name (`"35c"` for `Instruction35c`) -/
def Fmt.name : Fmt → String
  | .f10x => "10x" | .f12x => "12x" | .f11n => "11n" | .f11x => "11x" | .f10t => "10t"
  | .f20t => "20t" | .f20bc => "20bc" | .f22x => "22x" | .f21t => "21t" | .f21s => "21s"
  | .f21h => "21h" | .f21c => "21c" | .f23x => "23x" | .f22b => "22b" | .f22t => "22t"
  | .f22s => "22s" | .f22c => "22c" | .f22cs => "22cs" | .f30t => "30t" | .f32x => "32x"
  | .f31i => "31i" | .f31t => "31t" | .f31c => "31c" | .f35c => "35c" | .f35ms => "35ms"
  | .f35mi => "35mi" | .f3rc => "3rc" | .f3rms => "3rms" | .f3rmi => "3rmi" | .f51l => "51l"
  | .f41c => "41c" | .f40sc => "40sc" | .f52c => "52c" | .f5rc => "5rc" | .f45cc => "45cc"
  | .f4rcc => "4rcc" | .f00x => "00x"

def Fmt.ofName (s : String) : Option Fmt := Fmt.all.find? (fun f => f.name == s)

/-- `struct` format characters (after `<`): B/b 1 byte, H/h 2, I/i/L/l 4, Q/q 8;
    lower case = signed (two's complement). -/
inductive SC
  | B | b | H | h | I | i | L | l | Q | q
  deriving DecidableEq, Repr, Inhabited

def SC.size : SC → Nat
  | .B | .b => 1
  | .H | .h => 2
  | .I | .i | .L | .l => 4
  | .Q | .q => 8

def SC.signed : SC → Bool
  | .b | .h | .i | .l | .q => true
  | _ => false

end AgVerif.Insn
