/-
C25 — model of the decompiler's short-circuit merging and of the way the writer prints merged conditions.
Transliterates (reading line by line, quirks included):
  androguard/decompiler/instruction.py   CONDS, ConditionalExpression.neg, ConditionalZExpression.neg
  androguard/decompiler/basic_blocks.py  CondBlock.neg/visit_cond, Condition.neg/visit, ShortCircuitBlock.neg/visit_cond
  androguard/decompiler/control_flow.py  short_circuit_struct (the body of the loop for one `node`) and MergeNodes
  androguard/decompiler/writer.py        visit_cond_node (negate and swap), visit_short_circuit_condition (which
                                         MUTATES cond1 with neg() when the `isnot` flag is set),
                                         visit_cond_expression, visit_condz_expression
Imports only the generated CONDS table.
-/
import AgVerif.Gen.Conds

namespace AgVerif.ShortCircuit
open AgVerif.Gen.Conds

/-! ## comparison operators and CONDS -/

inductive Op | eq | ne | lt | le | ge | gt
  deriving DecidableEq, Repr, Inhabited

def Op.str : Op → String
  | .eq => "==" | .ne => "!=" | .lt => "<" | .le => "<=" | .ge => ">=" | .gt => ">"

def Op.ofStr? (s : String) : Option Op :=
  if s == "==" then some .eq else if s == "!=" then some .ne else if s == "<" then some .lt
  else if s == "<=" then some .le else if s == ">=" then some .ge else if s == ">" then some .gt else none

/-- what the Dalvik `if-<op>` test / the Java operator means on integers -/
def Op.sem : Op → Int → Int → Bool
  | .eq, a, b => decide (a = b)
  | .ne, a, b => decide (a ≠ b)
  | .lt, a, b => decide (a < b)
  | .le, a, b => decide (a ≤ b)
  | .ge, a, b => decide (a ≥ b)
  | .gt, a, b => decide (a > b)

/-- `CONDS[op]`; `none` is Python's KeyError (or a value that is not an operator) -/
def negOp? (o : Op) : Option Op := (condsTable.lookup o.str).bind Op.ofStr?

/-- `self.op = CONDS[self.op]`. The `none` branch is never taken for the table in the repository
    (theorem `conds_complete` in Props/C25), it is not a silent default. -/
def negOp (o : Op) : Op := match negOp? o with | some o' => o' | none => o

/-! ## conditions -/

/-- the three stub leaves: `ConditionalExpression(op, a, b)`, `ConditionalZExpression(op, a)` on an int,
    `ConditionalZExpression(op, a)` on a boolean (type 'Z') -/
inductive Kind | bin | zint | zbool
  deriving DecidableEq, Repr, Inhabited

/-- `leaf` = a CondBlock with one conditional instruction (id = the original branch);
    `sc` = ShortCircuitBlock(Condition(cond1, cond2, isand, isnot)) -/
inductive Cond
  | leaf (id : Nat) (kind : Kind) (op : Op)
  | sc (isnot isand : Bool) (c1 c2 : Cond)
  deriving Repr, Inhabited, DecidableEq

/-- CondBlock.neg → ins.neg(): op = CONDS[op];  Condition.neg: isand = not isand; cond1.neg(); cond2.neg()
    (the `isnot` flag is left alone) -/
def Cond.neg : Cond → Cond
  | .leaf i k op => .leaf i k (negOp op)
  | .sc n a c1 c2 => .sc n (!a) c1.neg c2.neg

def Cond.size : Cond → Nat
  | .leaf _ _ _ => 1
  | .sc _ _ c1 c2 => 1 + c1.size + c2.size

theorem Cond.size_neg (c : Cond) : c.neg.size = c.size := by
  induction c with
  | leaf => rfl
  | sc n a c1 c2 ih1 ih2 => simp [Cond.neg, Cond.size, ih1, ih2]

/-- operand values of the original branch `id`: (first operand, second operand); Z-forms compare the first with 0 -/
abbrev Env := Nat → Int × Int

def leafSem (k : Kind) (op : Op) (v : Int × Int) : Bool :=
  match k with
  | .bin => op.sem v.1 v.2
  | .zint => op.sem v.1 0
  | .zbool => op.sem v.1 0

/-- which way the (merged) node branches: `true` = to its `true` successor.  For `sc`: the meaning the four merge
    rules intend, `(isnot ? !c1 : c1) (isand ? && : ||) c2` with short-circuit evaluation (all leaves are pure) -/
def Cond.eval (env : Env) : Cond → Bool
  | .leaf i k op => leafSem k op (env i)
  | .sc n a c1 c2 =>
    let v1 := if n then !(c1.eval env) else c1.eval env
    if a then v1 && c2.eval env else v1 || c2.eval env

/-! ## what the writer prints -/

inductive BExpr
  | atom (id : Nat) (kind : Kind) (op : Op)
  | and (a b : BExpr)
  | or (a b : BExpr)
  deriving Repr, Inhabited, DecidableEq

/-- the meaning of the printed Java text:
    bin   `p<2i> op p<2i+1>`,   zint  `p<2i> op 0`,
    zbool `!p<2i>` when op is `==`, otherwise just `p<2i>` (visit_condz_expression on type 'Z') -/
def BExpr.eval (env : Env) : BExpr → Bool
  | .atom i .bin op => op.sem (env i).1 (env i).2
  | .atom i .zint op => op.sem (env i).1 0
  | .atom i .zbool op => if op = .eq then !(decide ((env i).1 ≠ 0)) else decide ((env i).1 ≠ 0)
  | .and a b => a.eval env && b.eval env
  | .or a b => a.eval env || b.eval env

def BExpr.render : BExpr → String
  | .atom i .bin op => s!"p{2 * i} {op.str} p{2 * i + 1}"
  | .atom i .zint op => s!"p{2 * i} {op.str} 0"
  | .atom i .zbool op => if op = .eq then s!"!p{2 * i}" else s!"p{2 * i}"
  | .and a b => s!"({a.render}) && ({b.render})"
  | .or a b => s!"({a.render}) || ({b.render})"

/-- `node.visit_cond(writer)`.  Returns the condition as it stands AFTER printing as well, because
    visit_short_circuit_condition does `if nnot: cond1.neg()` on the live object and leaves `isnot` set. -/
def print : Cond → Cond × BExpr
  | .leaf i k op => (.leaf i k op, .atom i k op)
  | .sc n a c1 c2 =>
    let r1 := print (if n then c1.neg else c1)
    let r2 := print c2
    (.sc n a r1.1 r2.1, if a then .and r1.2 r2.2 else .or r1.2 r2.2)
termination_by c => c.size
decreasing_by
  all_goals simp_wf
  · split <;> simp [Cond.size, Cond.size_neg] <;> omega
  · simp [Cond.size]; omega

/-! ## the graph and one merge -/

/-- a conditional node of the decompiler graph -/
structure CNode where
  id : Nat
  c : Cond
  t : Nat
  f : Nat
  deriving Repr, Inhabited, DecidableEq

/-- conditional nodes, statement nodes (id, successor); every other id is an exit -/
structure CGraph where
  entry : Nat
  nodes : List CNode
  stmts : List (Nat × Nat)
  deriving Repr, Inhabited, DecidableEq

def CGraph.look (G : CGraph) (n : Nat) : Option CNode := G.nodes.find? (fun x => x.id == n)

/-- `graph.preds(n)` (as a list of ids; one entry per predecessor node) -/
def CGraph.preds (G : CGraph) (n : Nat) : List Nat :=
  ((G.nodes.filter (fun x => x.t == n || x.f == n)).map (·.id)) ++
  ((G.stmts.filter (fun s => s.2 == n)).map (·.1))

/-- MergeNodes(node1, node2, is_and, is_not) followed by the assignment of `true`/`false`:
    node2 disappears, node1 is replaced by the ShortCircuitBlock (which keeps node1's place: every predecessor is
    redirected to it by update_attribute_with(node_map)); `entry` follows if it was one of the two. -/
def CGraph.merged (G : CGraph) (n1 n2 : Nat) (m : CNode) : CGraph :=
  { entry := if G.entry == n2 then n1 else G.entry
    nodes := (G.nodes.filter (fun x => x.id != n2)).map (fun x => if x.id == n1 then m else x)
    stmts := G.stmts }

def Cond.isLeaf : Cond → Bool
  | .leaf _ _ _ => true
  | .sc _ _ _ _ => false

/-- the third conjunct of "may this node become the second operand": a test on the CURRENT graph, the candidate's
    id and the candidate node -/
abbrev Guard := CGraph → Nat → CNode → Bool

/-- the repaired code: `… and then is not graph.entry`, `graph.entry` read at the point of the test.  MergeNodes
    reassigns `graph.entry` to the merged node (which keeps the first operand's place, `CGraph.merged`), so the
    comparison is with the entry as it is after every earlier merge. -/
def guardCurrent : Guard := fun G n _ => n != G.entry
/-- the code as it was: no test -/
def guardNone : Guard := fun _ _ _ => true
/-- a variant that compares with the entry OBJECT captured before the loop (`e0`): the original entry object is a
    plain CondBlock; once it has been merged as first operand the node in its place is a new ShortCircuitBlock,
    which is not that object, so the test lets it through (kept for the refutation `stale_entry_guard_refuted`) -/
def guardInitial (e0 : Nat) : Guard := fun _ n x => !(n == e0 && x.c.isLeaf)

/-- second half of the loop body: try to merge `node` with its `false` successor -/
def mergeElsG (ok : Guard) (G : CGraph) (n1 : Nat) (nd : CNode) : Option (Nat × CGraph) :=
  let thn := nd.t
  let els := nd.f
  match G.look els with
  | none => none
  | some en =>
    if (G.preds els).length == 1 && ok G els en then
      if n1 == en.f || n1 == en.t then none
      else if en.f == thn then      -- !node && e
        some (els, G.merged n1 els ⟨n1, .sc true true nd.c en.c, en.t, thn⟩)
      else if en.t == thn then      -- node || e
        some (els, G.merged n1 els ⟨n1, .sc false false nd.c en.c, thn, en.f⟩)
      else none
    else none

/-- the body of `for node in graph.post_order()` in short_circuit_struct for `node = n1`:
    `some (n2, G')` when it merges n1 with n2.  `guardEntry` = the repaired code (`… and then is not graph.entry`);
    `false` = the code as it was (kept for the refutation theorem). -/
def mergeAtG (ok : Guard) (G : CGraph) (n1 : Nat) : Option (Nat × CGraph) :=
  match G.look n1 with
  | none => none
  | some nd =>
    let thn := nd.t
    let els := nd.f
    if n1 == thn || n1 == els then none
    else
      match G.look thn with
      | some tn =>
        if (G.preds thn).length == 1 && ok G thn tn then
          if n1 == tn.t || n1 == tn.f then none
          else if tn.f == els then        -- node && t
            some (thn, G.merged n1 thn ⟨n1, .sc false true nd.c tn.c, tn.t, els⟩)
          else if tn.t == els then        -- !node || t
            some (thn, G.merged n1 thn ⟨n1, .sc true false nd.c tn.c, els, tn.f⟩)
          else none
        else mergeElsG ok G n1 nd
      | none => mergeElsG ok G n1 nd

/-- replay a sequence of merges (first operand, second operand) as observed on the real run;
    `none` = the model would not have merged there (or not with that node) -/
def replayG (ok : Guard) (G : CGraph) : List (Nat × Nat) → Option CGraph
  | [] => some G
  | (n1, n2) :: rest =>
    match mergeAtG ok G n1 with
    | some (m2, G') => if m2 == n2 then replayG ok G' rest else none
    | none => none

/-- `true` = the repaired code (guard against the current entry), `false` = the code as it was -/
abbrev mergeAt (guardEntry : Bool) := mergeAtG (if guardEntry then guardCurrent else guardNone)
abbrev replay (guardEntry : Bool) := replayG (if guardEntry then guardCurrent else guardNone)

/-! ## routing -/

/-- one step of control: `none` at an exit -/
def CGraph.next (G : CGraph) (env : Env) (n : Nat) : Option Nat :=
  match G.look n with
  | some x => some (if x.c.eval env then x.t else x.f)
  | none => G.stmts.lookup n

/-- control started at `n` leaves the graph at exit `e` -/
inductive Reach (G : CGraph) (env : Env) : Nat → Nat → Prop
  | stop {n} : G.next env n = none → Reach G env n n
  | step {n m e} : G.next env n = some m → Reach G env m e → Reach G env n e

/-- executable version with fuel, for the driver -/
def CGraph.run (G : CGraph) (env : Env) : Nat → Nat → Option Nat
  | 0, _ => none
  | fuel + 1, n => match G.next env n with
    | none => some n
    | some m => G.run env fuel m

/-! ## the writer's negate-and-swap -/

/-- `cond.neg(); cond.true, cond.false = cond.false, cond.true` (visit_cond_node, twice; visit_loop_node) -/
def CNode.swap (x : CNode) : CNode := { x with c := x.c.neg, t := x.f, f := x.t }

def CNode.swaps : Nat → CNode → CNode
  | 0, x => x
  | k + 1, x => CNode.swaps k x.swap

/-- what visit_cond_node leaves behind and writes: `k` negate-and-swap steps, then `visit_cond` -/
def writerPrint (k : Nat) (x : CNode) : CNode × BExpr :=
  let y := CNode.swaps k x
  let r := print y.c
  ({ y with c := r.1 }, r.2)

end AgVerif.ShortCircuit
