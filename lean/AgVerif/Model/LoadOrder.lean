/-
Model of androguard/core/dex/dex_types.py `TypeMapItem.determine_load_order` (Kahn's algorithm on
an ordered dict) and of the ordering logic of androguard/core/dex/__init__.py `MapList.__init__`
(read the map entries, `sorted(self.map_item, key=lambda mi: load_order[mi.get_type()])` — a
*stable* sort —, then parse each item in that order and register it with the ClassManager).
Imports nothing.  Map type codes are `Nat`.
-/
namespace AgVerif.LoadOrder

/-- `_get_dependencies()`: ordered association list type ↦ not-yet-loaded dependencies -/
abbrev Deps := List (Nat × List Nat)

/-- `for type_name, unloaded in dependencies.items(): if not unloaded: … break` -/
def findReady : Deps → Option Nat
  | [] => none
  | (k, u) :: rest => if u.isEmpty then some k else findReady rest

/-- `dependencies.pop(type_name)` -/
def popKey (k : Nat) (d : Deps) : Deps := d.filter (fun e => e.1 != k)

/-- `for unloaded in dependencies.values(): unloaded.discard(type_name)` -/
def discard (k : Nat) (d : Deps) : Deps := d.map (fun e => (e.1, e.2.filter (· != k)))

inductive Result where
  | ok (order : List (Nat × Nat))   -- the returned dict, insertion order
  | recursive                        -- raise Exception('recursive loading dependency')
  | outOfFuel                        -- artefact of the fuel; proved unreachable (kahn_fuel_sufficient)
  deriving DecidableEq, Repr

/-- the `while dependencies:` loop; `acc` is `ordered` reversed, `len(ordered) = acc.length` -/
def kahnLoop : Nat → Deps → List (Nat × Nat) → Result
  | _, [], acc => .ok acc.reverse
  | 0, _ :: _, _ => .outOfFuel
  | fuel + 1, e :: d, acc =>
    match findReady (e :: d) with
    | none => .recursive
    | some k => kahnLoop fuel (discard k (popKey k (e :: d))) ((k, acc.length) :: acc)

/-- determine_load_order(): one key leaves the dict per iteration, so `d.length` iterations suffice -/
def kahn (d : Deps) : Result := kahnLoop d.length d []

/-- `load_order[t]` (none = KeyError) -/
def rank (order : List (Nat × Nat)) (t : Nat) : Option Nat :=
  match order with
  | [] => none
  | (k, r) :: rest => if k = t then some r else rank rest t

/-! ### stable sort by key (Python `sorted(xs, key=…)`) -/

/-- `x` stood to the left of everything already in the list: it goes before the first element
    whose key is ≥ its own, which keeps equal keys in input order (stability). -/
def insertByKey {α} (key : α → Nat) (x : α) : List α → List α
  | [] => [x]
  | y :: ys => if key x ≤ key y then x :: y :: ys else y :: insertByKey key x ys

def sortByKey {α} (key : α → Nat) : List α → List α
  | [] => []
  | x :: xs => insertByKey key x (sortByKey key xs)

/-! ### the map list -/

structure MapEntry where
  type : Nat
  size : Nat
  offset : Nat
  deriving DecidableEq, Repr

/-- the list `ordered` of MapList.__init__; `none` = KeyError in `load_order[mi.get_type()]`
    (cannot happen for the real table, where every member of TypeMapItem has a rank:
    `C07.kahn_total`).  The `getD` is guarded by the `all` test on the line above it. -/
def orderEntries (order : List (Nat × Nat)) (es : List MapEntry) : Option (List MapEntry) :=
  if es.all (fun e => (rank order e.type).isSome) then
    some (sortByKey (fun e => (rank order e.type).getD 0) es)
  else none

/-- `for mi in ordered: mi.parse(); CM.add_type_item(...)` for an arbitrary item parser `step`
    working on an arbitrary ClassManager state `σ` (errors propagate, as exceptions do). -/
def foldSteps {σ ε} (step : σ → MapEntry → Except ε σ) : σ → List MapEntry → Except ε σ
  | s, [] => .ok s
  | s, e :: es => match step s e with
    | .error x => .error x
    | .ok s' => foldSteps step s' es

/-- MapList.__init__ after the entries were read -/
def loadWith {σ ε} (order : List (Nat × Nat)) (keyErr : ε) (step : σ → MapEntry → Except ε σ)
    (init : σ) (es : List MapEntry) : Except ε σ :=
  match orderEntries order es with
  | none => .error keyErr
  | some ordered => foldSteps step init ordered

end AgVerif.LoadOrder
