/-
C35 — models of the position-driven loops of the parsers (imports only generated constants and the
string-reader model).  Each loop is a Lean function that the termination checker accepts with an
explicit measure in bytes remaining; Proof/Loops.lean bounds the number of iterations by the input size.

A file is `List Nat` (bytes).  A read of `n` bytes at `pos` succeeds only when `pos + n ≤ |file|`
(`struct.unpack` on a short read raises `struct.error`).  `seek` may move beyond the end.

Generic scheme (`run`): one iteration of a loop is a function `body pos st` that either leaves the
loop (`stop r`: break / return / exception) or continues at a new position (`next pos' st'`).
`run` executes it while `pos < limit`.  An iteration that does not move forward makes the *real* loop
spin; the model reports it as `stuck`, and for every concrete body a progress lemma shows that `stuck`
cannot happen (Proof/Loops.lean).

  hdrSkip        ARSCHeader.__init__            "dummy data between elements" loop  (axml 2811-2832)
  doNextBody     AXMLParser._do_next            chunk loop                           (axml 599-822)
  arscOuterBody  ARSCParser.__init__            `while tell <= header.end - 8`        (axml 1713)
  arscInnerBody  ARSCParser.__init__            `while tell <= res_header.end - 8`    (axml 1810)
  dbgBody        DebugInfoItem.__init__         `while bcode != DBG_END_SEQUENCE`     (dex 1607)
  hiddenBody     HiddenApiClassDataItem.__init__ `while tell - offset < section_size` (dex 1346)
  mapListBody    MapList.__init__               `for _ in range(size)` over 12-byte map items
  readNT         read_null_terminated_string    AgVerif.Mutf8.ntLoop (Model/Mutf8.lean)
-/
import AgVerif.Gen.Loops
import AgVerif.Model.Mutf8
namespace AgVerif.Loops
open AgVerif.Gen.Loops

/-! ### generic position-driven loop -/

inductive Iter (σ ρ : Type) where
  | stop (r : ρ)                        -- break / return / raise inside the body
  | next (pos : Nat) (st : σ)           -- next iteration at file position `pos`

inductive Outcome (σ ρ : Type) where
  | exit (steps : Nat) (r : ρ)              -- left from inside the body
  | cond (steps : Nat) (pos : Nat) (st : σ) -- loop condition `pos < limit` became false
  | stuck (steps : Nat) (pos : Nat)         -- an iteration without progress: the real loop never ends

def Outcome.steps {σ ρ : Type} : Outcome σ ρ → Nat
  | .exit n _ => n | .cond n _ _ => n | .stuck n _ => n

def Outcome.isStuck {σ ρ : Type} : Outcome σ ρ → Bool
  | .stuck _ _ => true | _ => false

def run {σ ρ : Type} (body : Nat → σ → Iter σ ρ) (limit : Nat) (pos : Nat) (st : σ) (n : Nat) :
    Outcome σ ρ :=
  if _h : pos < limit then
    match body pos st with
    | .stop r => .exit (n + 1) r
    | .next p st' => if hp : pos < p then run body limit p st' (n + 1) else .stuck (n + 1) p
  else .cond n pos st
termination_by limit - pos
decreasing_by omega

/-! ### byte access -/

def rd (f : List Nat) (pos n : Nat) : Option (List Nat) :=
  if pos + n ≤ f.length then some ((f.drop pos).take n) else none

def le : List Nat → Nat
  | [] => 0
  | b :: bs => b + 256 * le bs

def u32 (f : List Nat) (pos : Nat) : Option Nat := (rd f pos 4).map le

/-! ### ARSCHeader -/

inductive HErr where
  | parser     -- ResParserError
  | struct     -- struct.error (short read)
  deriving DecidableEq, Repr

structure Hdr where
  type : Nat
  hsize : Nat
  size : Nat
  start : Nat     -- position before the dummy-data skip: `end = start + size`
  after : Nat     -- file position after the 8 header bytes that were accepted
  deriving DecidableEq, Repr

/-- the body of the `while True:` loop of ARSCHeader.__init__ once eight bytes could be read at `cur`:
    the (type, header size, size) triple and whether the loop is left (`break`) -/
def hdrAt (f : List Nat) (cur : Nat) : (Nat × Nat × Nat) × Bool :=
  let b := (f.drop cur).take ARSC_HEADER_SIZE
  let type := le (b.take 2)
  let hs := le ((b.drop 2).take 2)
  let size0 := le (b.drop 4)
  -- "packers set the EndNamespace with zero size"
  let size := if size0 < ARSC_HEADER_SIZE ∧ f.length = cur + hs + 4 + 4 then 24 else size0
  let headerOk := decide (hs ≥ ARSC_HEADER_SIZE ∧ size ≥ hs)
  -- `if (type outside XML range) and header_ok: break` / `if cur_pos == 0 or header_ok: break`
  ((type, hs, size), headerOk || cur == 0)

/-- the `while True:` loop of ARSCHeader.__init__ from `cur`; returns the raw triple and the position
    after it (or struct.error) and the number of iterations -/
def hdrSkip (f : List Nat) (cur : Nat) (n : Nat) : Except HErr (Nat × Nat × Nat × Nat) × Nat :=
  if h : cur + ARSC_HEADER_SIZE ≤ f.length then
    if (hdrAt f cur).2 then
      (.ok ((hdrAt f cur).1.1, (hdrAt f cur).1.2.1, (hdrAt f cur).1.2.2, cur + ARSC_HEADER_SIZE), n + 1)
    else hdrSkip f (cur + 1) (n + 1)         -- buff.seek(cur_pos); buff.read(1)
  else (.error .struct, n + 1)
termination_by f.length - cur
decreasing_by simp only [ARSC_HEADER_SIZE] at h; omega

/-- ARSCHeader(buff) with `buff.tell() = start` (no expected_type) -/
def arscHeader (f : List Nat) (start : Nat) : Except HErr Hdr :=
  if f.length < start + ARSC_HEADER_SIZE then .error .parser
  else match (hdrSkip f start 0).1 with
    | .error e => .error e
    | .ok (type, hs, size, after) =>
      if hs < ARSC_HEADER_SIZE then .error .parser
      else if size < ARSC_HEADER_SIZE then .error .parser
      else if size < hs then .error .parser
      else .ok ⟨type, hs, size, start, after⟩

def arscHeaderSteps (f : List Nat) (start : Nat) : Nat :=
  if f.length < start + ARSC_HEADER_SIZE then 0 else (hdrSkip f start 0).2

/-! ### AXMLParser._do_next -/

inductive Ev where
  | endDocument | invalid | raised | startTag | endTag | text
  deriving DecidableEq, Repr

/-- one iteration of `while self._valid:` with `buff.tell() = pos`; `filesize` is the declared size.
    String-pool lookups (`self.sb[...]`) can only raise, which is a `stop`; they are not modelled. -/
def doNextBody (f : List Nat) (filesize : Nat) (pos : Nat) (_ : Unit) : Iter Unit (Ev × Nat) :=
  if pos = filesize then .stop (.endDocument, pos)
  else match arscHeader f pos with
  | .error .parser => .stop (.invalid, pos)
  | .error .struct => .stop (.raised, pos)
  | .ok h =>
    if h.type = RES_XML_RESOURCE_MAP_TYPE then
      if h.size < 8 ∨ h.size % 4 ≠ 0 then .stop (.invalid, pos)
      else if h.after + 4 * ((h.size - h.hsize) / 4) ≤ f.length
        then .next (h.after + 4 * ((h.size - h.hsize) / 4)) () else .stop (.raised, pos)
    else if h.type < RES_XML_FIRST_CHUNK_TYPE ∨ h.type > RES_XML_LAST_CHUNK_TYPE then
      .next (h.start + h.size) ()                      -- buff.seek(h.end)
    else if h.hsize ≠ 0x10 then .next (h.start + h.size) ()
    else if f.length < h.after + 8 then .stop (.raised, pos)    -- line number, comment index
    else if h.type = RES_XML_START_NAMESPACE_TYPE ∨ h.type = RES_XML_END_NAMESPACE_TYPE then
      if f.length < h.after + 16 then .stop (.raised, pos) else .next (h.after + 16) ()
    -- the three `break`s; after the loop `buff.seek(h.end)`: the second component
    else if h.type = RES_XML_START_ELEMENT_TYPE then .stop (.startTag, h.start + h.size)
    else if h.type = RES_XML_END_ELEMENT_TYPE then .stop (.endTag, h.start + h.size)
    else if h.type = RES_XML_CDATA_TYPE then .stop (.text, h.start + h.size)
    else .next (h.start + h.size) ()

/-- the chunk loop of one `_do_next` call started at `pos` -/
def doNext (f : List Nat) (filesize pos : Nat) : Outcome Unit (Ev × Nat) :=
  run (doNextBody f filesize) f.length pos () 0

/-! ### ARSCParser.__init__ chunk loops

`parse` stands for everything done with a chunk before `buff.seek(chunk.end)` (string pools, packages,
type specs, entries): it can raise or not, and cannot influence the next position. -/

inductive ArscStop where
  | crossesOuter | raised (e : HErr) | parseRaised
  deriving DecidableEq, Repr

/-- `while self.buff.tell() <= self.header.end - ARSCHeader.SIZE:` — `outerEnd` is `header.end`.
    The loop condition is checked by the body so that `run`'s limit can be the file length. -/
def arscOuterBody (f : List Nat) (outerEnd : Nat) (parse : Hdr → Bool) (pos : Nat) (_ : Unit) :
    Iter Unit (Option ArscStop) :=
  if ¬ (pos + ARSC_HEADER_SIZE ≤ outerEnd) then .stop none           -- loop condition false
  else match arscHeader f pos with
  | .error e => .stop (some (.raised e))
  | .ok h =>
    if h.start + h.size > outerEnd then .stop (some .crossesOuter)    -- `break`
    else if parse h then .stop (some .parseRaised)
    else .next (h.start + h.size) ()                                 -- buff.seek(res_header.end)

/-- the inner loop over the chunks of one package has the same shape (`res_header.end` as bound) -/
def arscInnerBody := arscOuterBody

def arscChunks (f : List Nat) (outerEnd : Nat) (parse : Hdr → Bool) (pos : Nat) :=
  run (arscOuterBody f outerEnd parse) (f.length + 1) pos () 0

/-! ### DebugInfoItem -/

/-- number of bytes readuleb128 / readuleb128p1 / readsleb128 consume at the head of `bs`
    (at most five, the last one taken unconditionally); `none` = struct.error at the end of the buffer -/
def lebLen : Nat → List Nat → Option Nat
  | 0, _ => some 0
  | _ + 1, [] => none
  | k + 1, b :: bs =>
    if b > 0x7F then (lebLen k bs).map (· + 1) else some 1

def lebSkip (f : List Nat) (pos : Nat) : Option Nat :=
  (lebLen 5 (f.drop pos)).map (pos + ·)

def lebSkipN (f : List Nat) : Nat → Nat → Option Nat
  | 0, pos => some pos
  | k + 1, pos => match lebSkip f pos with
    | none => none
    | some p => lebSkipN f k p

def dbgOperandCount (op : Nat) : Nat :=
  match dbgOperands.find? (·.1 == op) with
  | some (_, n) => n
  | none => dbgDefaultOperands

/-- one iteration of `while bcode.get_op_value() != DBG_END_SEQUENCE:`; the state is the current opcode,
    `pos` the position after it. result: `true` = end of sequence reached, `false` = struct.error -/
def dbgBody (f : List Nat) (pos : Nat) (op : Nat) : Iter Nat Bool :=
  if op = DBG_END_SEQUENCE then .stop true
  else match lebSkipN f (dbgOperandCount op) pos with
    | none => .stop false
    | some p => match f[p]? with              -- get_byte: the next opcode
      | none => .stop false
      | some op' => .next (p + 1) op'

/-- the loop after the first opcode byte was read at `pos - 1` -/
def dbgLoop (f : List Nat) (pos op : Nat) := run (dbgBody f) (f.length + 1) pos op 0

/-! ### HiddenApiClassDataItem -/

/-- state: (offsets_size, i). `offset` is the item's start, `sectionSize` the declared size.
    `offsets_size = (offset - 4) // 4` is a Python integer: an offset entry below 4 makes it negative
    (floor division), which ends the loop at the next test `i >= offsets_size`. -/
def hiddenBody (f : List Nat) (offset sectionSize : Nat) (pos : Nat) (st : Int × Nat) :
    Iter (Int × Nat) (Option (Int × Nat)) :=
  if ¬ (pos - offset < sectionSize) then .stop (some (st.1, pos))     -- loop condition
  else if st.1 ≠ 0 ∧ (st.2 : Int) ≥ st.1 then .stop (some (st.1, pos)) -- break
  else match u32 f pos with
    | none => .stop none                                             -- struct.error
    | some off =>
      let os : Int := if off ≠ 0 ∧ st.1 = 0 then ((off : Int) - 4) / 4 else st.1
      .next (pos + 4) (os, st.2 + 1)

def hiddenLoop (f : List Nat) (offset sectionSize : Nat) :=
  run (hiddenBody f offset sectionSize) (f.length + 1) (offset + 4) ((0 : Int), 0) 0

/-! ### MapList: `for _ in range(size)`: read a 12-byte map item at `idx`, `seek(idx + 12)` -/

def mapListBody (f : List Nat) (pos : Nat) (left : Nat) : Iter Nat Bool :=
  if left = 0 then .stop true
  else match rd f pos 12 with
    | none => .stop false                    -- struct.error
    | some _ => .next (pos + 12) (left - 1)

def mapListLoop (f : List Nat) (pos size : Nat) := run (mapListBody f) (f.length + 1) pos size 0

/-! ### whole parsers: the loops composed

`axmlDoc`: every `_do_next` call of a document, as `AXMLPrinter.__init__` / `get_apkid` drive them
(`while self.axml.is_valid(): next(self.axml)`): after a tag / text event the next call starts at the
position the previous one sought to (`h.end`); any other outcome (END_DOCUMENT, invalid parser, exception)
ends the printer's loop.  The printer may leave its loop earlier (`break`, exception in the tree building);
that only shortens the run.  Result: total number of chunk-loop iterations over all calls, and whether the
sequence would never end (`true` = a call that does not move forward). -/

def isTag : Ev → Bool
  | .startTag | .endTag | .text => true
  | _ => false

def axmlDoc (f : List Nat) (filesize : Nat) (pos : Nat) (acc : Nat) : Nat × Bool :=
  match doNext f filesize pos with
  | .exit n (ev, p) =>
    if isTag ev then
      if _h : pos < p ∧ p < f.length then axmlDoc f filesize p (acc + n)
      else if p ≤ pos then (acc + n, true)        -- the next call would start no further: never ends
      else (acc + n + 1, false)                    -- at / beyond the end of the file the next call stops in its first iteration
    else (acc + n, false)
  | .cond n _ _ => (acc + n + 1, false)            -- `doNext`'s limit is the file length: one stopping iteration follows
  | .stuck n _ => (acc + n, true)
termination_by f.length - pos
decreasing_by omega

/-- `ARSCParser.__init__`: the outer chunk loop with, for every package chunk, the inner chunk loop.
    `parse h` = the per-chunk work before the inner loop raises (string pools, package header, "more packages
    than expected"); `extra h` = `type_sp_header.size + key_sp_header.size`, so that the inner loop starts at
    `next_idx = res_header.start + res_header.header_size + extra`; `parseIn` = the per-chunk work of the inner loop
    (type specs, types, entries) raises.  State: iterations of all inner loops so far. -/
def arscParseBody (f : List Nat) (outerEnd : Nat) (parse parseIn : Hdr → Bool) (extra : Hdr → Nat)
    (pos : Nat) (acc : Nat) : Iter Nat Nat :=
  if ¬ (pos + ARSC_HEADER_SIZE ≤ outerEnd) then .stop acc               -- loop condition false
  else match arscHeader f pos with
  | .error _ => .stop acc
  | .ok h =>
    if h.start + h.size > outerEnd then .stop acc                       -- `break`
    else if parse h then .stop acc
    else if h.type = RES_TABLE_PACKAGE_TYPE then
      match arscChunks f (h.start + h.size) parseIn (h.start + h.hsize + extra h) with
      | .exit n (some (.raised _)) => .stop (acc + n)                  -- ResParserError / struct.error propagates
      | .exit n (some .parseRaised) => .stop (acc + n)
      | .exit n _ => .next (h.start + h.size) (acc + n)                -- inner `break` or condition: seek(res_header.end)
      | .cond n _ _ => .next (h.start + h.size) (acc + n)
      | .stuck n _ => .stop (acc + n)
    else .next (h.start + h.size) acc

/-- total iterations (outer + all inner) of `ARSCParser.__init__` from `pos`, and whether a loop is stuck -/
def arscParse (f : List Nat) (outerEnd : Nat) (parse parseIn : Hdr → Bool) (extra : Hdr → Nat) (pos : Nat) :
    Nat × Bool :=
  match run (arscParseBody f outerEnd parse parseIn extra) (f.length + 1) pos 0 0 with
  | .exit n acc => (n + acc, false)
  | .cond n _ acc => (n + acc, false)
  | .stuck n _ => (n, true)

/-! ### regular expressions used by the parser modules

The hand-audited list of pattern texts (as gen/loops.py prints them: non-ASCII and backslashes escaped by
Python's `unicode_escape`) that are matched in time linear in the subject, each with the reason.
`AgVerif.C35.regexes_linear` requires every pattern the translator finds in the working tree to be in this
list and to pass the translator's syntactic test for catastrophic shapes. -/
def auditedRegexes : List (String × String) := [
  ("<dynamic:name>",
    "caller-supplied pattern of an explicit lookup API (DEX.get_field/get_method/...), not on a parse path"),
  ("<dynamic:regular_expressions>",
    "caller-supplied pattern of DEX.get_regex_strings, not on a parse path"),
  ("^[a-zA-Z0-9._-]*$",
    "one starred character class between anchors: a single greedy scan, no choice point"),
  ("[^a-zA-Z0-9._-]",
    "a single character class (re.sub scans the string once)"),
  ("^[ -\\ud7ff\\t\\n\\r\\ue000-\\ufffd\\U00010000-\\U0010ffff]*$",
    "one starred character class between anchors: a single greedy scan"),
  ("[^ -\\ud7ff\\t\\n\\r\\ue000-\\ufffd\\U00010000-\\U0010ffff]",
    "a single character class"),
  ("classes([0-9]*)\\\\.dex",
    "literal prefix, one starred digit class, literal suffix whose first character is not a digit; fullmatch"),
  ("classes([0-9]+)?\\\\.dex",
    "optional group (at most once) around one digit run, followed by a non-digit literal; fullmatch"),
  (" +",
    "one repeated literal"),
  ("<dynamic:deleted_files>",
    "caller-supplied pattern of APK.new_zip (writer), not on a parse path"),
  ("\\\\AMETA-INF/(?s:.)*\\\\.(DSA|EC|RSA)\\\\Z",
    "anchored literal prefix, one greedy `.*`, then a literal '.' and three alternatives with distinct first letters before \\Z: each backtrack position of `.*` fails in constant time, linear overall")
]

end AgVerif.Loops
