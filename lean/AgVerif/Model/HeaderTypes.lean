/-
Vocabulary shared by the generated `AgVerif.Gen.Header` (written by gen/header.py from
`HeaderItem.__init__` / `DalvikPacker.__init__`) and the model `AgVerif.Model.Header`.
(imports nothing)
-/
namespace AgVerif.Header

/-- comparison operator of a guard `if <lhs> <op> <rhs>: raise …` -/
inductive Cmp | lt | le | gt | ge | eq | ne
  deriving DecidableEq, Repr

def Cmp.eval : Cmp → Nat → Nat → Bool
  | .lt, a, b => decide (a < b)
  | .le, a, b => decide (a ≤ b)
  | .gt, a, b => decide (a > b)
  | .ge, a, b => decide (a ≥ b)
  | .eq, a, b => decide (a = b)
  | .ne, a, b => decide (a ≠ b)

/-- what a branch of `DalvikPacker.__init__` does with a matching endian tag -/
inductive EndianAction
  | notImplemented      -- raise NotImplementedError
  | valueError          -- raise ValueError
  | little              -- self.endian_tag = '<'
  deriving DecidableEq, Repr

/-- one disjunct of the magic test; any disjunct that holds raises -/
inductive MagicClause
  | sliceNe (lo hi : Nat) (v : List Nat)     -- self.magic[lo:hi] != b'..'
  | byteNotIn (i : Nat) (vs : List Nat)      -- self.magic[i] not in [..]   /  self.magic[i] != c
  deriving DecidableEq, Repr

/-- the statements of `HeaderItem.__init__` that can raise, named; the generated
    `checkOrder` lists them in source order -/
inductive Check
  | size         -- buff.raw.getbuffer().nbytes < self.get_length()
  | endian       -- unpack('<I', read_at(buff, 40, 4)); DalvikPacker(endian_tag)
  | unpack       -- cm.packer['8sI20s20I'].unpack(buff.read(112))
  | magic
  | checksum     -- zlib.adler32(read_at(buff, self.offset + 12)) != self.checksum
  | headerSize
  | typeIds
  | protoIds
  deriving DecidableEq, Repr

/-- the errors `HeaderItem.__init__` can raise (`structError` = `struct.error` on a short read) -/
inductive Err
  | tooShort | endianSwapped | badEndian | structError | badMagic | badChecksum
  | badHeaderSize | tooManyTypes | tooManyProtos
  deriving DecidableEq, Repr

end AgVerif.Header
