/-
Wire format of the C37/C38 drivers: a string is its code points in hex joined by '.', "-" is the
empty string (request lines cannot carry control characters, spaces or newlines verbatim).
-/
import AgVerif.Model.Proto
import AgVerif.Model.Paths
namespace AgVerif.PathsProto
open AgVerif.Proto AgVerif.Paths

def hexVal (s : List Char) : Option Nat :=
  if s.isEmpty then none else
  s.foldl (fun acc c => match acc, hexDigit c with
    | some a, some d => some (a * 16 + d)
    | _, _ => none) (some 0)

def decodeStr (w : String) : Option (List Char) :=
  if w == "-" then some [] else
  (w.splitOn ".").foldr (fun part acc => match acc, hexVal part.toList with
    | some cs, some n => some (Char.ofNat n :: cs)
    | _, _ => none) (some [])

def hexOf (n : Nat) : List Char :=
  let rec go : Nat → Nat → List Char → List Char
    | 0, _, acc => acc
    | fuel + 1, n, acc =>
      let acc' := hexNibble (n % 16) :: acc
      if n < 16 then acc' else go fuel (n / 16) acc'
  go 8 n []

def encodeStr (s : List Char) : String :=
  if s.isEmpty then "-" else
  String.ofList ((s.map fun c => hexOf c.toNat).intersperse ['.']).flatten

def decodeAll (ws : List String) : Option (List (List Char)) :=
  ws.foldr (fun w acc => match acc, decodeStr w with
    | some l, some s => some (s :: l)
    | _, _ => none) (some [])

def showResult : Result → String
  | .ok p => s!"ok {encodeStr p}"
  | .valueError => "valueerror"
  | .outOfFuel => "fuel"

end AgVerif.PathsProto
