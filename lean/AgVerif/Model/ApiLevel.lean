/-
Model of androguard/core/api_specific_resources/__init__.py (load_permissions,
load_permission_mappings) and androguard/core/androconf.py
(load_api_specific_resource_module).   (imports nothing)

The directory is abstracted to what the code looks at:
  `levels`  the integers obtained from os.listdir with the regex ^permissions_\d+\.json$
  `files`   the n for which os.path.isfile("permissions_{}.json".format(n)) holds
The two differ when a name is not canonical ("permissions_04.json" is level 4 but not file 4);
then the code can end in `max()` of an empty sequence (`Pick.valueError`).
Python's recursion is modelled with fuel (`Pick.recursion` = fuel exhausted); `choose_terminates`
shows two frames suffice for a canonical listing.

The model describes the code WITH fixes/C39-api-level-zero.diff (`api is None or api == ""`);
`missingOld` (`not api`) is kept to state what the fix prevents.
-/
namespace AgVerif.ApiLevel

/-- Python `max(levels)` for a non-empty list (0 on the empty list is never used: the code returns
    `{}` before, and the model returns `noLevels`). -/
def maxL : List Nat → Nat
  | [] => 0
  | x :: xs => if xs.isEmpty then x else max x (maxL xs)

/-- Python `min(levels)` -/
def minL : List Nat → Nat
  | [] => 0
  | x :: xs => if xs.isEmpty then x else min x (minL xs)

/-- os.path.isfile(".../permissions_{n}.json") -/
def isFile (files : List Nat) (n : Int) : Bool :=
  decide (0 ≤ n) && files.contains n.toNat

/-- which JSON load_permissions ends up opening -/
inductive Pick where
  | level (l : Nat)     -- open(permissions_l.json)
  | noLevels            -- "No Permissions available" → {}
  | valueError          -- max() of an empty filter
  | recursion           -- RecursionError (fuel exhausted)
  deriving DecidableEq, Repr

/-- load_permissions(apilevel) after `apilevel = int(apilevel)`, with `fuel` stack frames -/
def chooseFuel : Nat → List Nat → List Nat → Int → Pick
  | 0, _, _, _ => .recursion
  | fuel + 1, files, levels, n =>
    if levels.isEmpty then .noLevels
    else if isFile files n then .level n.toNat
    else if n > (maxL levels : Int) then chooseFuel fuel files levels (maxL levels)
    else if n < (minL levels : Int) then chooseFuel fuel files levels (minL levels)
    else
      let lower := levels.filter (fun (x : Nat) => decide ((x : Int) < n))
      if lower.isEmpty then .valueError
      else chooseFuel fuel files levels (maxL lower)

/-- CPython's default recursion limit is 1000 frames -/
def chooseLevel (files levels : List Nat) (n : Int) : Pick := chooseFuel 1000 files levels n

/-- the `api` argument of load_api_specific_resource_module -/
inductive Api where
  | none
  | int (n : Int)
  | str (s : String)
  deriving DecidableEq, Repr

inductive Resource where
  | perms      -- 'aosp_permissions'
  | maps       -- 'api_permission_mappings'
  deriving DecidableEq, Repr

/-- what is returned, identified by the file it was loaded from -/
inductive Res where
  | perm (l : Nat)          -- json(aosp_permissions/permissions_l.json)['permissions']
  | map (name : String)     -- json(api_permission_mappings/permissions_<name>.json)
  | empty                   -- {}
  | error (e : String)      -- exception type name
  deriving DecidableEq, Repr

structure Repo where
  permFiles : List Nat
  permLevels : List Nat
  permEmpty : List Nat
  mapNames : List String
  mapEmpty : List String
  defaultApi : Int
  deriving Repr

/-- `int(apilevel)`; for strings: the decimal renderings Lean's `String.toInt?` accepts
    (every `str(n)`; the correspondence only sends those) -/
def Api.toInt? : Api → Option Int
  | .none => Option.none        -- int(None): TypeError
  | .int n => some n
  | .str s => s.toInt?

/-- `"{}".format(apilevel)` -/
def Api.fmt : Api → String
  | .none => "None"
  | .int n => toString n
  | .str s => s

/-- fixed code: `api is None or api == ""` -/
def Api.missing : Api → Bool
  | .none => true
  | .int _ => false
  | .str s => s == ""

/-- unfixed code: `not api` — the integer 0 is falsy (defect D22) -/
def Api.missingOld : Api → Bool
  | .none => true
  | .int n => n == 0
  | .str s => s == ""

/-- load_permissions(api) (permtype 'permissions') -/
def loadPermissions (r : Repo) (a : Api) : Res :=
  match a.toInt? with
  | Option.none => .error (match a with | .none => "TypeError" | _ => "ValueError")
  | some n =>
    match chooseLevel r.permFiles r.permLevels n with
    | .level l => if r.permEmpty.contains l then .empty else .perm l
    | .noLevels => .empty
    | .valueError => .error "ValueError"
    | .recursion => .error "RecursionError"

/-- load_permission_mappings(api): no int(), the file name is formatted from the argument as given -/
def loadMappings (r : Repo) (a : Api) : Res :=
  if r.mapNames.contains a.fmt then
    (if r.mapEmpty.contains a.fmt then .empty else .map a.fmt)
  else .empty

/-- a non-empty mapping file permissions_<s>.json exists -/
def Repo.hasMap (r : Repo) (s : String) : Bool := r.mapNames.contains s && !r.mapEmpty.contains s

/-- the level actually requested: the default when none was given (fixed code) -/
def Repo.effective (r : Repo) (a : Api) : Api := if a.missing then Api.int r.defaultApi else a

def load (r : Repo) : Resource → Api → Res
  | .perms, a => loadPermissions r a
  | .maps, a => loadMappings r a

/-- body of load_api_specific_resource_module after the resource-name check, parameterised by the
    "no level given" test -/
def chooseModuleWith (missing : Api → Bool) (r : Repo) (res : Resource) (a : Api) : Res :=
  let a' := if missing a then Api.int r.defaultApi else a
  match load r res a' with
  | .empty => load r res (Api.int r.defaultApi)
  | ret => ret

/-- the fixed code -/
def chooseModule (r : Repo) (res : Resource) (a : Api) : Res := chooseModuleWith Api.missing r res a

/-- the unfixed code -/
def chooseModuleOld (r : Repo) (res : Resource) (a : Api) : Res := chooseModuleWith Api.missingOld r res a

end AgVerif.ApiLevel
