/-
Model of androguard/session.py `Session.__init__` — the part that assigns the session
identifier — for N processes creating sessions on one database.   (imports nothing)

Shared state: `ids`, the primary keys stored in table `session`.  `len(table_session)` is
`ids.length`; `table_session.insert(dict(id=k))` appends k, or fails (IntegrityError, UNIQUE
constraint on the primary key) when k is already stored.  Each single SQL statement is atomic
(SQLite; trusted base); nothing else is.

Three protocols, each given as the step function of one session:
  `stepOld`     the unfixed code: read the count; insert id=count; an IntegrityError propagates
                out of the constructor (`PC.failed`).
  `stepRetry`   the code WITH fixes/C36-session-id-retry.diff: read; insert; on IntegrityError
                roll back and read again.
  `stepAtomic`  identifier assigned inside one atomic statement (the design's reference repair).
A schedule is a list of session indices: the i-th entry says which session takes its next step.
Ghost fields (not part of the database): `retries` counts a session's failed inserts — observable
on the real code through hook H1 (number of re-counts) — and `log` lists, in order, which session
made each successful insert.
-/
namespace AgVerif.Session

/-- program counter of one session -/
inductive PC where
  | idle                  -- constructor not yet at the count
  | counted (k : Nat)     -- has read len(table_session) = k, insert pending
  | done (k : Nat)        -- insert succeeded, session_id = k
  | failed (k : Nat)      -- insert of id=k raised IntegrityError out of the constructor
  deriving DecidableEq, Repr

structure St where
  ids : List Nat
  pc : Nat → PC
  retries : Nat → Nat
  log : List Nat

/-- function update -/
def upd {α : Type} (f : Nat → α) (i : Nat) (v : α) : Nat → α := fun j => if j = i then v else f j

/-- a database that already holds b sessions created by this protocol: ids 0..b-1 -/
def St.init (b : Nat) : St :=
  { ids := List.range b, pc := fun _ => .idle, retries := fun _ => 0, log := [] }

/-- sessions starting on a table with ARBITRARY primary keys `ids₀` (possibly with gaps) -/
def St.start (ids₀ : List Nat) : St :=
  { ids := ids₀, pc := fun _ => .idle, retries := fun _ => 0, log := [] }

/-- unfixed code, one step of session i -/
def stepOld (s : St) (i : Nat) : St :=
  match s.pc i with
  | .idle => { s with pc := upd s.pc i (.counted s.ids.length) }
  | .counted k =>
    if s.ids.contains k then { s with pc := upd s.pc i (.failed k) }
    else { s with ids := s.ids ++ [k], pc := upd s.pc i (.done k), log := s.log ++ [i] }
  | .done _ => s
  | .failed _ => s

/-- fixed code (retry on IntegrityError), one step of session i -/
def stepRetry (s : St) (i : Nat) : St :=
  match s.pc i with
  | .idle => { s with pc := upd s.pc i (.counted s.ids.length) }
  | .counted k =>
    if s.ids.contains k then
      { s with pc := upd s.pc i .idle, retries := upd s.retries i (s.retries i + 1) }
    else { s with ids := s.ids ++ [k], pc := upd s.pc i (.done k), log := s.log ++ [i] }
  | .done _ => s
  | .failed _ => s

/-- a variant whose loop gives up after `budget` attempts (`for _ in range(budget)` … `else: raise`):
    the `budget`-th rejected insert leaves the constructor with an exception (`PC.failed`) -/
def stepBounded (budget : Nat) (s : St) (i : Nat) : St :=
  match s.pc i with
  | .idle => { s with pc := upd s.pc i (.counted s.ids.length) }
  | .counted k =>
    if s.ids.contains k then
      if s.retries i + 1 < budget then
        { s with pc := upd s.pc i .idle, retries := upd s.retries i (s.retries i + 1) }
      else
        { s with pc := upd s.pc i (.failed k), retries := upd s.retries i (s.retries i + 1) }
    else { s with ids := s.ids ++ [k], pc := upd s.pc i (.done k), log := s.log ++ [i] }
  | .done _ => s
  | .failed _ => s

/-- the adversarial schedule: session 0 (the victim) is parked between its count and its insert while
    rival m runs to completion, for m = 1 … rounds:  0 1 1 0 | 0 2 2 0 | … -/
def victim : Nat → List Nat
  | 0 => []
  | m + 1 => victim m ++ [0, m + 1, m + 1, 0]

/-- identifier assigned by one atomic statement -/
def stepAtomic (s : St) (i : Nat) : St :=
  match s.pc i with
  | .idle => { s with ids := s.ids ++ [s.ids.length], pc := upd s.pc i (.done s.ids.length),
                      log := s.log ++ [i] }
  | _ => s

def run (step : St → Nat → St) (σ : List Nat) (s : St) : St := σ.foldl step s

/-- sessions one after the other: 0 0 1 1 … N-1 N-1 -/
def sequential : Nat → List Nat
  | 0 => []
  | n + 1 => sequential n ++ [n, n]

/-- what the caller of `Session()` gets: `some k` = a session with session_id k, `none` = no session -/
def St.outcome (s : St) (i : Nat) : Option Nat :=
  match s.pc i with
  | .done k => some k
  | _ => none

def PC.isDone : PC → Bool
  | .done _ => true
  | _ => false

def PC.isFailed : PC → Bool
  | .failed _ => true
  | _ => false

end AgVerif.Session
