/-
C22 (part 4) — model of `control_flow.intervals` (androguard/decompiler/control_flow.py:34-90), the
interval partition used by `derived_sequence`.  Imports nothing.

The function iterates only over lists (`graph.rpo[1:]`, `for node in graph` = `graph.nodes`, the
adjacency lists) and insertion-ordered dicts, never over a hash set; the two list orders are explicit
parameters here so that one can state what depends on them:

  * `order`  = `graph.rpo[1:]`   (the nodes sorted by `num`, without the first)
  * `nodes`  = `graph.nodes`     (insertion order of the graph)
  * `preds`  = `graph.all_preds`

`Interval.content` is an insertion-ordered dict (repair of defect D10): the model keeps the content
as a list in insertion order; `Interval.__contains__` on a first-level graph is list membership.
-/
namespace AgVerif.Intervals

/-- `all(p in I for p in graph.all_preds(node))`  (true for a node without predecessors) -/
def allPredsIn (preds : Nat → List Nat) (I : List Nat) (n : Nat) : Bool :=
  (preds n).all (fun p => I.contains p)

/-- `any(p in I for p in graph.all_preds(node))` -/
def anyPredIn (preds : Nat → List Nat) (I : List Nat) (n : Nat) : Bool :=
  (preds n).any (fun p => I.contains p)

/-- one `for node in graph.rpo[1:]` sweep: `if all(…): change |= I.add_node(node)` -/
def sweep (preds : Nat → List Nat) (order : List Nat) (I : List Nat) : List Nat :=
  order.foldl (fun I n => if allPredsIn preds I n && !I.contains n then I ++ [n] else I) I

/-- `while change:` — repeat the sweep until nothing is added; `none` = out of fuel -/
def grow (preds : Nat → List Nat) (order : List Nat) : Nat → List Nat → Option (List Nat)
  | 0, _ => none
  | f + 1, I =>
    let I' := sweep preds order I
    if I'.length = I.length then some I else grow preds order f I'

/-- the interval of header `h` -/
def intervalOf (preds : Nat → List Nat) (order : List Nat) (fuel : Nat) (h : Nat) : Option (List Nat) :=
  grow preds order fuel [h]

/-- `for node in graph: if node not in I and node not in heads: if any(p in I …): heads.append(node)` -/
def newHeads (preds : Nat → List Nat) (nodes : List Nat) (I : List Nat) (heads : List Nat) : List Nat :=
  nodes.foldl (fun hs n => if !I.contains n && !hs.contains n && anyPredIn preds I n then hs ++ [n] else hs) heads

/-- `while heads:` with fuel; state = pending `heads`, `processed`, `interv_heads` (insertion order) -/
def loop (preds : Nat → List Nat) (order nodes : List Nat) (ifuel : Nat) :
    Nat → List Nat → List Nat → List (Nat × List Nat) → Option (List (Nat × List Nat))
  | 0, _, _, _ => none
  | _ + 1, [], _, out => some out
  | f + 1, h :: heads, processed, out =>
    if processed.contains h then loop preds order nodes ifuel f heads processed out
    else
      match intervalOf preds order ifuel h with
      | none => none
      | some I =>
        loop preds order nodes ifuel f (newHeads preds nodes I heads) (h :: processed) (out ++ [(h, I)])

/-- `intervals(graph)`: the dict `interv_heads` as an association list in insertion order;
    every node becomes a header at most once, and each header appends at most `|nodes|` pending entries -/
def intervals (preds : Nat → List Nat) (order nodes : List Nat) (entry : Nat) : Option (List (Nat × List Nat)) :=
  loop preds order nodes (order.length + 2) ((nodes.length + 1) * (nodes.length + 1) + 2) [entry] [] []

end AgVerif.Intervals
