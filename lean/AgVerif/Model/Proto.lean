/-
Line-protocol helpers shared by all drivers (imports nothing).
One request per line: `<cmd> <arg> <arg> …`; one reply line per request.
-/
namespace AgVerif.Proto

def hexDigit (c : Char) : Option Nat :=
  if '0' ≤ c ∧ c ≤ '9' then some (c.toNat - '0'.toNat)
  else if 'a' ≤ c ∧ c ≤ 'f' then some (c.toNat - 'a'.toNat + 10)
  else if 'A' ≤ c ∧ c ≤ 'F' then some (c.toNat - 'A'.toNat + 10)
  else none

/-- "e58e26" → [0xe5, 0x8e, 0x26]; "-" or "" → [] -/
def parseHex (s : String) : Option (List Nat) :=
  let rec go : List Char → List Nat → Option (List Nat)
    | [], acc => some acc.reverse
    | [_], _ => none
    | a :: b :: rest, acc =>
      match hexDigit a, hexDigit b with
      | some x, some y => go rest ((x * 16 + y) :: acc)
      | _, _ => none
  if s == "-" then some [] else go s.toList []

def hexNibble (n : Nat) : Char :=
  if n < 10 then Char.ofNat (n + '0'.toNat) else Char.ofNat (n - 10 + 'a'.toNat)

def toHex (bs : List Nat) : String :=
  if bs.isEmpty then "-" else
  String.ofList (bs.flatMap fun b => [hexNibble (b / 16 % 16), hexNibble (b % 16)])

def words (line : String) : List String :=
  (line.splitOn " ").filter (· ≠ "")

/-- generic stdin→stdout loop -/
partial def loop (h : IO.FS.Stream) (out : IO.FS.Stream) (handle : String → String) : IO Unit := do
  let line ← h.getLine
  if line.isEmpty then return ()
  let l := String.ofList (line.toList.filter (fun c => c != '\n' && c != '\r'))
  out.putStrLn (handle l)
  loop h out handle

def runMain (handle : String → String) : IO Unit := do
  let i ← IO.getStdin
  let o ← IO.getStdout
  loop i o handle
  o.flush

end AgVerif.Proto
