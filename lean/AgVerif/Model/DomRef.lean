/-
A deliberately simple reference for dominators and an executable certificate checker.
Imports only the graph model and the definition of dominance (for `IsDomTree`).  Everything here is verified against the textbook definitions of
Spec/Dominance.lean in Proof/DomRef.lean (`mem_reachAvoid`, `idomRef_correct`,
`cert_sound_complete`), for all well-formed graphs.

* `reachAvoid g avoid`  the vertices reachable from the entry in the graph without the vertices
                        satisfying `avoid` (iterative DFS over a candidate list, fuel n+|E|+2)
* `domTable g`          row d = characteristic vector of `reachAvoid g (· == d)`
* `isIdom`              "d ≠ v, v unreachable without d, every other strict dominator of v dominates d"
* `idomRef g v`         the first d < n with `isIdom`
* `checkDomTree g t`    t(entry) = none, t(v) = none for unreachable v, `isIdom (t v) v` otherwise
-/
import AgVerif.Model.Digraph
import AgVerif.Spec.Dominance
namespace AgVerif.DomRef
open AgVerif

/-- iterative DFS: `cs` = candidates still to look at, `vis` = visited so far -/
def go (g : Digraph) (avoid : Nat → Bool) : Nat → List Nat → List Nat → List Nat
  | 0, _, vis => vis
  | _ + 1, [], vis => vis
  | f + 1, c :: cs, vis =>
    if avoid c = true ∨ c ∈ vis then go g avoid f cs vis
    else go g avoid f (g.allSucs c ++ cs) (c :: vis)

def fuel (g : Digraph) : Nat := g.n + g.degSum g.n + 2

def reachAvoid (g : Digraph) (avoid : Nat → Bool) : List Nat :=
  go g avoid (fuel g) [g.entry] []

/-- the vertices reachable from the entry -/
def reachable (g : Digraph) : List Nat := reachAvoid g (fun _ => false)

/-- characteristic vector over 0..n-1 -/
def charVec (n : Nat) (l : List Nat) : Array Bool := ((List.range n).map fun v => decide (v ∈ l)).toArray

structure Table where
  /-- `reach[v]`: v is reachable from the entry -/
  reach : Array Bool
  /-- `avoid[d][v]`: v is reachable from the entry without passing through d -/
  avoid : Array (Array Bool)

def domTable (g : Digraph) : Table :=
  { reach := charVec g.n (reachable g),
    avoid := ((List.range g.n).map fun d => charVec g.n (reachAvoid g (fun x => x == d))).toArray }

def Table.isReach (t : Table) (v : Nat) : Bool := (t.reach[v]?).getD false

/-- d dominates v (for d, v < n): v cannot be reached without d -/
def Table.doms (t : Table) (d v : Nat) : Bool :=
  match t.avoid[d]? with
  | some row => !((row[v]?).getD false)
  | none => false

/-- d is the immediate dominator of v, by the definition -/
def isIdom (n : Nat) (t : Table) (d v : Nat) : Bool :=
  decide (d < n) && d != v && t.doms d v &&
  (List.range n).all fun d' => !(d' != v && t.doms d' v) || t.doms d' d

/-- reference immediate dominator: the first vertex satisfying the definition -/
def idomRefT (g : Digraph) (t : Table) (v : Nat) : Option Nat :=
  if v ≠ g.entry ∧ t.isReach v = true then (List.range g.n).find? (fun d => isIdom g.n t d v) else none

def idomRef (g : Digraph) (v : Nat) : Option Nat := idomRefT g (domTable g) v

/-- certificate check of a claimed dominator tree `tree` (parent function) -/
def checkDomTreeT (g : Digraph) (t : Table) (tree : Nat → Option Nat) : Bool :=
  (List.range g.n).all fun v =>
    if v = g.entry ∨ t.isReach v = false then (tree v).isNone
    else match tree v with
      | some d => isIdom g.n t d v
      | none => false

def checkDomTree (g : Digraph) (tree : Nat → Option Nat) : Bool :=
  checkDomTreeT g (domTable g) tree

/-- what it means for a parent function to be the dominator tree of `g` -/
def IsDomTree (g : Digraph) (tree : Nat → Option Nat) : Prop :=
  ∀ v, v < g.n →
    ((v = g.entry ∨ ¬ Spec.Reach g.Edge g.entry v) → tree v = none) ∧
    (v ≠ g.entry → Spec.Reach g.Edge g.entry v → ∃ d, tree v = some d ∧ Spec.IDom g.Edge g.entry d v)

end AgVerif.DomRef
