/-
C21, `print_parse`: the Java EXPRESSION text DAD's Writer prints, as a token list, and a parser for
Java expressions written from the JLS grammar (imports nothing).

* `DExpr`  – DAD's IR expressions (androguard/decompiler/instruction.py), one constructor per class /
             per branch of the `visit_*` function that prints it.
* `print`  – `Writer.visit_*` (androguard/decompiler/writer.py) transliterated: where the Writer puts
             parentheses, where it does not (`visit_cond_expression`, `visit_condz_expression`,
             `visit_get_instance`, `visit_aload`, `visit_invoke` print their operands bare).
             The result is the list of Java lexemes of the text (JLS 3: `-3` is the two tokens `-` `3`,
             `a.b` is three tokens).
* `JExpr`  – Java expression syntax trees (JLS 15; shape of javac's `JCTree`: parentheses are a node,
             `a.b` is one `select` node whatever `a` is — JLS 6.5 classifies the name later).
* `parseExpr …` – precedence-climbing parser of JLS 15.8–15.24: 19 binary operators on 10 levels, all
             left associative; unary `- + ~ !`; casts; primary with `.f`, `[i]`, `(args)` suffixes; `new`.
             Cast versus parenthesised expression (JLS 15.16): `( PrimitiveType ) UnaryExpression`,
             `( Name ) UnaryExpressionNotPlusMinus`; a parenthesised name followed by anything else
             (in particular by `-`/`+`) is a parenthesised expression.
* `toJava` – the Java tree an IR expression stands for.
-/
namespace AgVerif.JExpr

/-! ## Java tokens -/

/-- the binary operators of JLS 15.17–15.24 -/
inductive BinOp where
  | mul | div | rem | add | sub | shl | shr | ushr
  | lt | gt | le | ge | eq | ne | band | bxor | bor | land | lor
  deriving DecidableEq, Repr

/-- JLS 15.17–15.24, higher binds tighter; every level is left associative -/
def BinOp.prec : BinOp → Nat
  | .mul | .div | .rem => 12
  | .add | .sub => 11
  | .shl | .shr | .ushr => 10
  | .lt | .gt | .le | .ge => 9
  | .eq | .ne => 8
  | .band => 7
  | .bxor => 6
  | .bor => 5
  | .land => 4
  | .lor => 3

def BinOp.text : BinOp → String
  | .mul => "*" | .div => "/" | .rem => "%" | .add => "+" | .sub => "-"
  | .shl => "<<" | .shr => ">>" | .ushr => ">>>"
  | .lt => "<" | .gt => ">" | .le => "<=" | .ge => ">=" | .eq => "==" | .ne => "!="
  | .band => "&" | .bxor => "^" | .bor => "|" | .land => "&&" | .lor => "||"

def BinOp.all : List BinOp :=
  [.mul, .div, .rem, .add, .sub, .shl, .shr, .ushr, .lt, .gt, .le, .ge, .eq, .ne, .band, .bxor, .bor, .land, .lor]

inductive Prim where
  | int | long | byte | short | char | float | double | boolean
  deriving DecidableEq, Repr

def Prim.text : Prim → String
  | .int => "int" | .long => "long" | .byte => "byte" | .short => "short" | .char => "char"
  | .float => "float" | .double => "double" | .boolean => "boolean"

def Prim.all : List Prim := [.int, .long, .byte, .short, .char, .float, .double, .boolean]

/-- Java lexemes (JLS 3.5). `+` and `-` are the tokens `bin .add`, `bin .sub` whether they are used as
    unary or binary operators. -/
inductive Tok where
  | id (s : String)
  | int (n : Nat)
  | long (n : Nat)
  | kwNew | kwThis | kwNull
  | prim (p : Prim)
  | lp | rp | lb | rb | dot | comma
  | tilde | bang
  | bin (o : BinOp)
  deriving DecidableEq, Repr

def Tok.text : Tok → String
  | .id s => s
  | .int n => toString n
  | .long n => toString n ++ "L"
  | .kwNew => "new" | .kwThis => "this" | .kwNull => "null"
  | .prim p => p.text
  | .lp => "(" | .rp => ")" | .lb => "[" | .rb => "]" | .dot => "." | .comma => ","
  | .tilde => "~" | .bang => "!"
  | .bin o => o.text

/-! ## Java expression trees -/

inductive UnOp where
  | neg | plus | compl | not
  deriving DecidableEq, Repr

/-- a type as it can occur in a cast or after `new`: primitive or (qualified) class name -/
inductive JType where
  | prim (p : Prim)
  | ref (q : List String)
  deriving DecidableEq, Repr

inductive JExpr where
  | intLit (n : Nat)
  | longLit (n : Nat)
  | null
  | this
  | name (s : String)
  | paren (e : JExpr)
  | select (e : JExpr) (f : String)
  | index (a i : JExpr)
  | call (fn : JExpr) (args : List JExpr)
  | newObj (q : List String) (args : List JExpr)
  | newArr (t : JType) (size : JExpr)
  | unary (o : UnOp) (e : JExpr)
  | cast (t : JType) (e : JExpr)
  | bin (o : BinOp) (a b : JExpr)
  deriving Repr

/-- the qualified name a tree spells, when it is one (`a.b.c`) -/
def asQName : JExpr → Option (List String)
  | .name s => some [s]
  | .select e f => (asQName e).map (· ++ [f])
  | _ => none

/-! ## the parser -/

/-- `. Identifier` repetitions of a qualified name after `new` -/
def scanQTail : List Tok → List String × List Tok
  | .dot :: .id s :: r => let (l, r') := scanQTail r; (s :: l, r')
  | r => ([], r)

/-- can the token start a `UnaryExpressionNotPlusMinus` (JLS 15.15)? -/
def starts : List Tok → Bool
  | .id _ :: _ | .int _ :: _ | .long _ :: _ | .kwNew :: _ | .kwThis :: _ | .kwNull :: _
  | .lp :: _ | .tilde :: _ | .bang :: _ => true
  | _ => false

/-- `PrimitiveType )` after `(` -/
def primCast : List Tok → Option (Prim × List Tok)
  | .prim t :: .rp :: r => some (t, r)
  | _ => none

def headIsLb : List Tok → Bool
  | .lb :: _ => true
  | _ => false

mutual
/-- `parseExpr fuel p ts`: an expression whose binary operators all have precedence ≥ `p` -/
def parseExpr : Nat → Nat → List Tok → Option (JExpr × List Tok)
  | 0, _, _ => none
  | f + 1, p, ts =>
    match parseUnary f ts with
    | some (l, r) => climb f p l r
    | none => none

/-- left operand `l` read; continue with operators of precedence ≥ `p` (left associative: the right
    operand of an operator of precedence `q` is an expression of precedence ≥ `q + 1`) -/
def climb : Nat → Nat → JExpr → List Tok → Option (JExpr × List Tok)
  | 0, _, _, _ => none
  | f + 1, p, l, ts =>
    match ts with
    | .bin o :: r =>
      if p ≤ o.prec then
        match parseExpr f (o.prec + 1) r with
        | some (rhs, r') => climb f p (.bin o l rhs) r'
        | none => none
      else some (l, ts)
    | _ => some (l, ts)

/-- JLS 15.15 UnaryExpression, 15.16 CastExpression -/
def parseUnary : Nat → List Tok → Option (JExpr × List Tok)
  | 0, _ => none
  | f + 1, ts =>
    match ts with
    | .bin .sub :: r => (parseUnary f r).map fun (e, r') => (.unary .neg e, r')
    | .bin .add :: r => (parseUnary f r).map fun (e, r') => (.unary .plus e, r')
    | .tilde :: r => (parseUnary f r).map fun (e, r') => (.unary .compl e, r')
    | .bang :: r => (parseUnary f r).map fun (e, r') => (.unary .not e, r')
    | .lp :: r =>
      (match primCast r with
       | some (t, r1) =>
         -- ( PrimitiveType ) UnaryExpression
         (parseUnary f r1).map fun (e, r') => (.cast (.prim t) e, r')
       | none =>
         match parseExpr f 0 r with
         | some (e, .rp :: r') => afterParen f e r'
         | _ => none)
    | .int n :: r => suffixes f (.intLit n) r
    | .long n :: r => suffixes f (.longLit n) r
    | .kwNull :: r => suffixes f .null r
    | .kwThis :: r => suffixes f .this r
    | .id s :: r => suffixes f (.name s) r
    | .kwNew :: r => parseNew f r
    | _ => none

/-- `( e )` read: a cast `( ReferenceType ) UnaryExpressionNotPlusMinus` when `e` spells a name and an
    operand follows, a parenthesised expression (with its suffixes) otherwise -/
def afterParen : Nat → JExpr → List Tok → Option (JExpr × List Tok)
  | 0, _, _ => none
  | f + 1, e, r =>
    match asQName e with
    | some q =>
      if starts r then (parseUnary f r).map fun (a, r') => (.cast (.ref q) a, r')
      else suffixes f (.paren e) r
    | none => suffixes f (.paren e) r

/-- after `new`: class instance creation `T ( args )` (JLS 15.9) or array creation `T [ n ]` (15.10)
    with one dimension expression (more dimensions are not supported: rejected) -/
def parseNew : Nat → List Tok → Option (JExpr × List Tok)
  | 0, _ => none
  | f + 1, ts =>
    match ts with
    | .prim t :: .lb :: r =>
      (match parseExpr f 0 r with
       | some (n, .rb :: r') => if headIsLb r' then none else some (.newArr (.prim t) n, r')
       | _ => none)
    | .id s :: r =>
      (match scanQTail r with
       | (l, .lp :: r2) =>
         (match parseArgs f r2 with
          | some (as, r3) => suffixes f (.newObj (s :: l) as) r3
          | none => none)
       | (l, .lb :: r2) =>
         (match parseExpr f 0 r2 with
          | some (n, .rb :: r') => if headIsLb r' then none else some (.newArr (.ref (s :: l)) n, r')
          | _ => none)
       | _ => none)
    | _ => none

/-- JLS 15.8–15.12 suffixes of a primary: `.f`, `[i]`, `(args)` -/
def suffixes : Nat → JExpr → List Tok → Option (JExpr × List Tok)
  | 0, _, _ => none
  | f + 1, e, ts =>
    match ts with
    | .dot :: .id s :: r => suffixes f (.select e s) r
    | .lb :: r =>
      (match parseExpr f 0 r with
       | some (i, .rb :: r') => suffixes f (.index e i) r'
       | _ => none)
    | .lp :: r =>
      (match e with
       | .name _ | .select _ _ =>
         -- MethodInvocation: MethodName ( … ) or Primary . Identifier ( … )
         (match parseArgs f r with
          | some (as, r') => suffixes f (.call e as) r'
          | none => none)
       | _ => none)
    | _ => some (e, ts)

/-- the argument list after `(`, up to and including `)` -/
def parseArgs : Nat → List Tok → Option (List JExpr × List Tok)
  | 0, _ => none
  | f + 1, ts =>
    match ts with
    | .rp :: r => some ([], r)
    | _ =>
      match parseExpr f 0 ts with
      | some (a, r) => (parseArgsTail f r).map fun (as, r') => (a :: as, r')
      | none => none

def parseArgsTail : Nat → List Tok → Option (List JExpr × List Tok)
  | 0, _ => none
  | f + 1, ts =>
    match ts with
    | .rp :: r => some ([], r)
    | .comma :: r =>
      (match parseExpr f 0 r with
       | some (a, r') => (parseArgsTail f r').map fun (as, r'') => (a :: as, r'')
       | none => none)
    | _ => none
end

/-! ## DAD's IR expressions and the Writer -/

/-- the operators of `Op` (opcode_ins.py) as they occur in `UnaryExpression` -/
inductive DUnOp where
  | neg     -- Op.NEG '-'
  | not     -- Op.NOT '~'
  deriving DecidableEq, Repr

inductive DExpr where
  /-- `Constant` of type I/B/S/C… (`%r`) or J (`%dL`) -/
  | const (v : Int) (long : Bool)
  /-- a declared `Variable`: `v<name>` -/
  | var (name : String)
  /-- `Param`: `p<name>` -/
  | param (name : String)
  /-- `ThisParam` -/
  | this
  /-- `BaseClass` / class `Constant`: the dotted class name -/
  | baseClass (h : String) (t : List String)
  /-- `BinaryExpression` (also 2addr, lit): `(a op b)` -/
  | bin (o : BinOp) (a b : DExpr)
  /-- `UnaryExpression`: `(op a)` -/
  | un (o : DUnOp) (a : DExpr)
  /-- `CastExpression`, `op` is `(int)` …: `((int) a)` -/
  | cast (t : Prim) (a : DExpr)
  /-- `CheckCastExpression`: `((T) a)` -/
  | checkCast (h : String) (t : List String) (a : DExpr)
  /-- `ConditionalExpression`, and `BinaryCompExpression` whose `op` was replaced by `visit_condz_expression`: `a op b`, no parentheses -/
  | cond (o : BinOp) (a b : DExpr)
  /-- `BinaryCompExpression` with `op == 'cmp'`: `Long.compare(a, b)` for long operands, `a cmp b` otherwise -/
  | cmp (long : Bool) (a b : DExpr)
  /-- `ConditionalZExpression` whose operand is a `BinaryCompExpression` (`visit_condz_expression` replaces
      its `op` and prints it): `a op b` -/
  | condzCmp (o : BinOp) (a b : DExpr)
  /-- `ConditionalZExpression` on an operand of type 'Z': `!a` for `==`, `a` otherwise -/
  | condzBool (o : BinOp) (a : DExpr)
  /-- `ConditionalZExpression` on an operand of a type in 'VBSCIJFD': `a op 0` -/
  | condzNum (o : BinOp) (a : DExpr)
  /-- `ConditionalZExpression` on any other operand: `a op null` -/
  | condzRef (o : BinOp) (a : DExpr)
  /-- `Condition` (basic_blocks.py) as `visit_short_circuit_condition` prints it, after its `cond1.neg()`:
      `(a) && (b)` / `(a) || (b)` -/
  | scc (isand : Bool) (a b : DExpr)
  /-- `InstanceExpression`: `a.name` -/
  | getField (a : DExpr) (name : String)
  /-- `StaticExpression`: `cls.name` -/
  | getStatic (h : String) (t : List String) (name : String)
  /-- `ArrayLoadExpression`: `a[i]` -/
  | aload (a i : DExpr)
  /-- `ArrayLengthExpression`: `a.length` -/
  | alength (a : DExpr)
  /-- `NewArrayExpression`: `new T[size]` -/
  | newArray (t : JType) (size : DExpr)
  /-- `InvokeInstruction` with `name != '<init>'`: `base.name(args)` -/
  | invoke (base : DExpr) (name : String) (args : List DExpr)
  /-- `InvokeInstruction` `<init>` on a `NewInstance` base: `new T(args)` -/
  | newObj (h : String) (t : List String) (args : List DExpr)
  deriving Repr

def qnToks (h : String) (t : List String) : List Tok :=
  .id h :: t.flatMap fun s => [.dot, .id s]

def typeToks : JType → List Tok
  | .prim p => [.prim p]
  | .ref [] => []
  | .ref (h :: t) => qnToks h t

/-- `visit_constant`: Python prints a negative number with a sign, which Java reads as unary minus -/
def constToks (v : Int) (long : Bool) : List Tok :=
  let lit : Tok := if long then .long v.natAbs else .int v.natAbs
  if v < 0 then [.bin .sub, lit] else [lit]

mutual
/-- the lexemes of what `Writer.visit_*` writes -/
def print : DExpr → List Tok
  | .const v long => constToks v long
  | .var n => [.id ("v" ++ n)]
  | .param n => [.id ("p" ++ n)]
  | .this => [.kwThis]
  | .baseClass h t => qnToks h t
  | .bin o a b => [.lp] ++ print a ++ [.bin o] ++ print b ++ [.rp]
  | .un .neg a => [.lp, .bin .sub] ++ print a ++ [.rp]
  | .un .not a => [.lp, .tilde] ++ print a ++ [.rp]
  | .cast t a => [.lp, .lp, .prim t, .rp] ++ print a ++ [.rp]
  | .checkCast h t a => [.lp, .lp] ++ qnToks h t ++ [.rp] ++ print a ++ [.rp]
  | .cond o a b => print a ++ [.bin o] ++ print b
  | .cmp true a b => [.id "Long", .dot, .id "compare", .lp] ++ print a ++ [.comma] ++ print b ++ [.rp]
  | .cmp false a b => print a ++ [.id "cmp"] ++ print b
  | .condzCmp o a b => print a ++ [.bin o] ++ print b
  | .condzBool o a => if o = .eq then .bang :: print a else print a
  | .condzNum o a => print a ++ [.bin o, .int 0]
  | .condzRef o a => print a ++ [.bin o, .kwNull]
  | .scc i a b => [.lp] ++ print a ++ [.rp, .bin (if i then .land else .lor), .lp] ++ print b ++ [.rp]
  | .getField a n => print a ++ [.dot, .id n]
  | .getStatic h t n => qnToks h t ++ [.dot, .id n]
  | .aload a i => print a ++ [.lb] ++ print i ++ [.rb]
  | .alength a => print a ++ [.dot, .id "length"]
  | .newArray t n => [.kwNew] ++ typeToks t ++ [.lb] ++ print n ++ [.rb]
  | .invoke b n as => print b ++ [.dot, .id n, .lp] ++ printArgs as ++ [.rp]
  | .newObj h t as => [.kwNew] ++ qnToks h t ++ [.lp] ++ printArgs as ++ [.rp]

def printArgs : List DExpr → List Tok
  | [] => []
  | a :: as => print a ++ printTail as

def printTail : List DExpr → List Tok
  | [] => []
  | a :: as => .comma :: print a ++ printTail as
end

def qnExpr (h : String) (t : List String) : JExpr :=
  t.foldl .select (.name h)

def constJava (v : Int) (long : Bool) : JExpr :=
  let lit : JExpr := if long then .longLit v.natAbs else .intLit v.natAbs
  if v < 0 then .unary .neg lit else lit

mutual
/-- the Java expression an IR expression stands for -/
def toJava : DExpr → JExpr
  | .const v long => constJava v long
  | .var n => .name ("v" ++ n)
  | .param n => .name ("p" ++ n)
  | .this => .this
  | .baseClass h t => qnExpr h t
  | .bin o a b => .paren (.bin o (toJava a) (toJava b))
  | .un .neg a => .paren (.unary .neg (toJava a))
  | .un .not a => .paren (.unary .compl (toJava a))
  | .cast t a => .paren (.cast (.prim t) (toJava a))
  | .checkCast h t a => .paren (.cast (.ref (h :: t)) (toJava a))
  | .cond o a b => .bin o (toJava a) (toJava b)
  | .cmp _ a b => .call (.select (.name "Long") "compare") [toJava a, toJava b]
  | .condzCmp o a b => .bin o (toJava a) (toJava b)
  | .condzBool o a => if o = .eq then .unary .not (toJava a) else toJava a
  | .condzNum o a => .bin o (toJava a) (.intLit 0)
  | .condzRef o a => .bin o (toJava a) .null
  | .scc i a b => .bin (if i then .land else .lor) (.paren (toJava a)) (.paren (toJava b))
  | .getField a n => .select (toJava a) n
  | .getStatic h t n => .select (qnExpr h t) n
  | .aload a i => .index (toJava a) (toJava i)
  | .alength a => .select (toJava a) "length"
  | .newArray t n => .newArr t (toJava n)
  | .invoke b n as => .call (.select (toJava b) n) (toJavaList as)
  | .newObj h t as => .newObj (h :: t) (toJavaList as)

def toJavaList : List DExpr → List JExpr
  | [] => []
  | a :: as => toJava a :: toJavaList as
end

/-! ## which IR trees the Writer prints unambiguously -/

/-- how tightly the printed form binds, on the scale of `BinOp.prec`: 15 a primary that can take a
    suffix, 14 an array creation, 13 a unary expression, `prec o` a bare binary expression -/
def level : DExpr → Nat
  | .const v _ => if v < 0 then 13 else 15
  | .cond o _ _ => o.prec
  | .cmp long _ _ => if long then 15 else 0
  | .condzCmp o _ _ | .condzNum o _ | .condzRef o _ => o.prec
  | .condzBool o _ => if o = .eq then 13 else 15
  | .newArray _ _ => 14
  | .scc i _ _ => if i then 4 else 3
  | _ => 15

mutual
/-- every operand is printed in a form that binds at least as tightly as its position requires
    (JLS 15.15–15.24): the left operand of `o` at level ≥ `prec o`, the right one above it, the operand of
    a unary operator or primitive cast at unary level, the operand of a reference cast not starting with
    `-`, what a suffix is attached to a primary. DAD's own trees satisfy this: bare comparisons occur
    only at the top of a condition. -/
def wf : DExpr → Bool
  | .const _ _ | .var _ | .param _ | .this | .baseClass _ _ | .getStatic _ _ _ => true
  | .bin o a b => wf a && wf b && decide (o.prec ≤ level a) && decide (o.prec < level b)
  | .un _ a => wf a && decide (13 ≤ level a)
  | .cast _ a => wf a && decide (13 ≤ level a)
  | .checkCast _ _ a => wf a && decide (14 ≤ level a)
  | .cond o a b => wf a && wf b && decide (o.prec ≤ level a) && decide (o.prec < level b)
  | .cmp long a b => long && wf a && wf b
  | .scc _ a b => wf a && wf b
  | .condzCmp o a b => wf a && wf b && decide (o.prec ≤ level a) && decide (o.prec < level b)
  | .condzBool o a => wf a && decide ((if o = .eq then 13 else 15) ≤ level a)
  | .condzNum o a | .condzRef o a => wf a && decide (o.prec ≤ level a)
  | .getField a _ => wf a && decide (15 ≤ level a)
  | .aload a i => wf a && wf i && decide (15 ≤ level a)
  | .alength a => wf a && decide (15 ≤ level a)
  | .newArray t n => wf n && t != .ref []
  | .invoke b _ as => wf b && decide (15 ≤ level b) && wfList as
  | .newObj _ _ as => wfList as

def wfList : List DExpr → Bool
  | [] => true
  | a :: as => wf a && wfList as
end

/-- well-formedness as a proposition -/
def WF (e : DExpr) : Prop := wf e = true

instance (e : DExpr) : Decidable (WF e) := inferInstanceAs (Decidable (wf e = true))

/-! ## printer variants that drop parentheses (for the refutations) -/

/-- a `BinaryExpression` without its parentheses -/
def printBare : DExpr → List Tok
  | .bin o a b => print a ++ [.bin o] ++ print b
  | e => print e

/-- like `print`, but the right operand of the outer `BinaryExpression` loses its parentheses -/
def printDropRight : DExpr → List Tok
  | .bin o a b => [.lp] ++ print a ++ [.bin o] ++ printBare b ++ [.rp]
  | e => print e

/-- like `print`, but the left operand of the outer `BinaryExpression` loses its parentheses -/
def printDropLeft : DExpr → List Tok
  | .bin o a b => [.lp] ++ printBare a ++ [.bin o] ++ print b ++ [.rp]
  | e => print e

/-- a whole token list as one expression -/
def parse (ts : List Tok) : Option JExpr :=
  match parseExpr (8 * ts.length + 16) 0 ts with
  | some (e, []) => some e
  | _ => none

end AgVerif.JExpr
