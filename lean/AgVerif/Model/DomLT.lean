/-
Model of `dom_lt` (androguard/decompiler/graph.py:352-412), the Lengauer–Tarjan dominator
algorithm with simple path compression.  Imports only the graph model.

Python dicts are functions `Nat → Option _` (`none` = key absent; a lookup of an absent key is a
`KeyError`, modelled as the result `none` of the whole run).  `ancestor[v]` holds `0` or a node,
modelled as `some none` / `some (some u)`.  `pred` and `bucket` are `defaultdict(set)`: modelled as
duplicate-free lists in insertion order; Python iterates / pops them in hash order, so the enumeration
order is a parameter (`Order`) of the main loop: the driver runs insertion order, the correctness
theorem (Props/C18.lean, `domlt_correct_any_order`) holds for every order.  Recursion (`_dfs`, `_compress`) is structural on fuel;
exhausted fuel is the result `none`.

    def _dfs(v, n):
        semi[v] = n = n + 1
        vertex[n] = label[v] = v
        ancestor[v] = 0
        for w in graph.all_sucs(v):
            if not semi[w]:
                parent[w] = v
                n = _dfs(w, n)
            pred[w].add(v)
        return n
-/
import AgVerif.Model.Digraph
namespace AgVerif.DomLT
open AgVerif

/-- `d[k] = v` -/
def upd {β : Type} (m : Nat → β) (k : Nat) (v : β) : Nat → β := fun x => if x = k then v else m x

structure St where
  /-- `semi = {v: 0 for v in graph.nodes}`; 0 = not yet numbered -/
  semi : Nat → Nat
  vertex : Nat → Option Nat
  label : Nat → Option Nat
  ancestor : Nat → Option (Option Nat)
  parent : Nat → Option Nat
  pred : Nat → List Nat
  bucket : Nat → List Nat
  dom : Nat → Option Nat

def St.init : St :=
  { semi := fun _ => 0, vertex := fun _ => none, label := fun _ => none, ancestor := fun _ => none,
    parent := fun _ => none, pred := fun _ => [], bucket := fun _ => [], dom := fun _ => none }

/-- `s.add(v)` on an insertion-ordered set -/
def setAdd (l : List Nat) (v : Nat) : List Nat := if v ∈ l then l else l ++ [v]

/-- first three lines of `_dfs(v, n)` with `k = n + 1` -/
def St.enter (s : St) (v k : Nat) : St :=
  { s with semi := upd s.semi v k, vertex := upd s.vertex k (some v), label := upd s.label v (some v),
           ancestor := upd s.ancestor v (some none) }

/-- `pred[w].add(v)` -/
def St.addPred (s : St) (w v : Nat) : St := { s with pred := upd s.pred w (setAdd (s.pred w) v) }

/-- the `for w in graph.all_sucs(v)` loop of `_dfs(v, …)` over the remaining successors `ws`,
    with the recursive call inlined; carries the counter `n` -/
def dfsLoop (g : Digraph) : Nat → Nat → List Nat → St × Nat → Option (St × Nat)
  | 0, _, _, _ => none
  | _ + 1, _, [], sn => some sn
  | f + 1, v, w :: ws, (s, n) =>
    if s.semi w = 0 then
      let s1 := { s with parent := upd s.parent w (some v) }
      match dfsLoop g f w (g.allSucs w) (s1.enter w (n + 1), n + 1) with
      | none => none
      | some (s2, n2) => dfsLoop g f v ws (s2.addPred w v, n2)
    else dfsLoop g f v ws (s.addPred w v, n)

/-- `n = _dfs(graph.entry, 0)` -/
def dfs (g : Digraph) (fuel : Nat) : Option (St × Nat) :=
  dfsLoop g fuel g.entry (g.allSucs g.entry) (St.init.enter g.entry 1, 1)

/-
    def _compress(v):
        u = ancestor[v]
        if ancestor[u]:
            _compress(u)
            if semi[label[u]] < semi[label[v]]:
                label[v] = label[u]
            ancestor[v] = ancestor[u]
-/
def compress : Nat → St → Nat → Option St
  | 0, _, _ => none
  | f + 1, s, v =>
    match s.ancestor v with
    | some (some u) =>
      match s.ancestor u with
      | none => none
      | some none => some s
      | some (some _) =>
        match compress f s u with
        | none => none
        | some s1 =>
          match s1.label u, s1.label v, s1.ancestor u with
          | some lu, some lv, some au =>
            let s2 := if s1.semi lu < s1.semi lv then { s1 with label := upd s1.label v (some lu) } else s1
            some { s2 with ancestor := upd s2.ancestor v (some au) }
          | _, _, _ => none
    | _ => none

/-
    def _eval(v):
        if ancestor[v]:
            _compress(v)
            return label[v]
        return v
-/
def eval (f : Nat) (s : St) (v : Nat) : Option (St × Nat) :=
  match s.ancestor v with
  | none => none
  | some none => some (s, v)
  | some (some _) =>
    match compress f s v with
    | none => none
    | some s1 => match s1.label v with
      | none => none
      | some l => some (s1, l)

/-- Step 2: `for v in pred[w]: u = _eval(v); y = semi[w] = min(semi[w], semi[u])` -/
def step2 (f : Nat) (w : Nat) : List Nat → St → Option Nat → Option (St × Option Nat)
  | [], s, y => some (s, y)
  | v :: vs, s, _ =>
    match eval f s v with
    | none => none
    | some (s1, u) =>
      let y := min (s1.semi w) (s1.semi u)
      step2 f w vs { s1 with semi := upd s1.semi w y } (some y)

/-- Step 3: `while bpw: v = bpw.pop(); u = _eval(v); dom[v] = u if semi[u] < semi[v] else pw` -/
def step3 (f : Nat) (pw : Nat) : List Nat → St → Option St
  | [], s => some s
  | v :: vs, s =>
    match eval f s v with
    | none => none
    | some (s1, u) =>
      step3 f pw vs { s1 with dom := upd s1.dom v (some (if s1.semi u < s1.semi v then u else pw)) }

/-- Iteration order of the two Python sets.  `for v in pred[w]` and `bucket[pw].pop()` enumerate a
    `set` in hash order, which the model cannot know: `o.pred i l` / `o.bucket i l` is the order in
    which the set with insertion-ordered content `l` is enumerated in iteration `i` of the main loop.
    `Order.ins` (insertion order) is what the driver runs; the correctness theorem holds for every
    order that enumerates exactly the elements of the set (`Order.Adm`). -/
structure Order where
  pred : Nat → List Nat → List Nat
  bucket : Nat → List Nat → List Nat

def Order.ins : Order := { pred := fun _ l => l, bucket := fun _ l => l }

/-- admissible: the enumeration yields exactly the elements of the set -/
def Order.Adm (o : Order) : Prop :=
  ∀ (i : Nat) (l : List Nat) (x : Nat), (x ∈ o.pred i l ↔ x ∈ l) ∧ (x ∈ o.bucket i l ↔ x ∈ l)

/-- one iteration of `for i in range(n, 1, -1)`; `y` survives from the previous iteration as in Python -/
def iter23 (o : Order) (f : Nat) (i : Nat) (s : St) (y : Option Nat) : Option (St × Option Nat) :=
  match s.vertex i with
  | none => none
  | some w =>
    match step2 f w (o.pred i (s.pred w)) s y with
    | none => none
    | some (s1, y1) =>
      match y1 with
      | none => none                                  -- UnboundLocalError: `y`
      | some yv =>
        match s1.vertex yv, s1.parent w with
        | some vy, some pw =>
          -- bucket[vertex[y]].add(w);  _link(pw, w): ancestor[w] = pw
          let s2 := { s1 with bucket := upd s1.bucket vy (setAdd (s1.bucket vy) w),
                              ancestor := upd s1.ancestor w (some (some pw)) }
          match step3 f pw (o.bucket i (s2.bucket pw)) s2 with
          | none => none
          | some s3 => some ({ s3 with bucket := upd s3.bucket pw [] }, y1)
        | _, _ => none

/-- `for i in range(n, 1, -1)`: called with `i = n` -/
def steps23 (o : Order) (f : Nat) : Nat → St → Option Nat → Option St
  | 0, s, _ => some s
  | 1, s, _ => some s
  | i + 2, s, y =>
    match iter23 o f (i + 2) s y with
    | none => none
    | some (s1, y1) => steps23 o f (i + 1) s1 y1

/-- Step 4: `for i in range(2, n + 1)`: `k` iterations starting at `i` -/
def step4 : Nat → Nat → St → Option St
  | 0, _, s => some s
  | k + 1, i, s =>
    match s.vertex i with
    | none => none
    | some w =>
      match s.dom w with
      | none => none
      | some dw =>
        match s.vertex (s.semi w) with
        | none => none
        | some vs =>
          if dw ≠ vs then
            match s.dom dw with
            | none => none
            | some ddw => step4 k (i + 1) { s with dom := upd s.dom w (some ddw) }
          else step4 k (i + 1) s

structure Result where
  /-- the returned dict: `none` = no key, `some none` = `None` (entry), `some (some d)` -/
  dom : Nat → Option (Option Nat)
  /-- DFS numbering: `vertex[1..n]` -/
  order : List Nat
  /-- `semi` as left by Step 1 (the DFS number) and the DFS-tree parent -/
  dfnum : Nat → Nat
  parent : Nat → Option Nat
  pred : Nat → List Nat

def dfsFuel (g : Digraph) : Nat := g.n + g.degSum g.n + 2

/-- `dom_lt(graph)` with the sets enumerated in the order `o` -/
def domLTWith (o : Order) (g : Digraph) : Option Result :=
  match dfs g (dfsFuel g) with
  | none => none
  | some (s, n) =>
    match steps23 o (g.n + 1) n s none with
    | none => none
    | some s1 =>
      match step4 (n - 1) 2 s1 with
      | none => none
      | some s2 =>
        some { dom := fun v => if v = g.entry then some none else (s2.dom v).map some,
               order := (List.range' 1 n).filterMap s.vertex,
               dfnum := s.semi, parent := s.parent, pred := s.pred }

/-- `dom_lt(graph)`, sets enumerated in insertion order (what the driver runs) -/
def domLT (g : Digraph) : Option Result := domLTWith Order.ins g

/-- the dominator tree as a parent function (entry and unreachable nodes ↦ none) -/
def Result.idom (r : Result) (v : Nat) : Option Nat := (r.dom v).join

end AgVerif.DomLT
