/-
C22 (part 8) — the bodies of the remaining set-iterating loops whose order irrelevance rests on "the body reads
and writes only the state of the visited element" (class "independent" of `Order.modelled`), written out so that
the frame is a property of a model and not of a label.  Imports only Model/Order.lean (`applyEach`, `dedup`).

1. `graph.py` `split_if_nodes` / `simplify`:  `for node in to_update: node.update_attribute_with(node_map)`

       Node.update_attribute_with(self, n_map):                                   (node.py:108-116)
           self.latch = n_map.get(self.latch, self.latch)
           for follow_type, value in self.follow.items():
               self.follow[follow_type] = n_map.get(value, value)
           self.loop_nodes = list(dict.fromkeys(n_map.get(n, n) for n in self.loop_nodes))
       CondBlock: … ; self.true = n_map.get(self.true, self.true); self.false = n_map.get(self.false, self.false)
       SwitchBlock: … ; self.cases = [n_map.get(n, n) for n in self.cases]
                    for node1, node2 in n_map.items():
                        if node1 in self.node_to_case:
                            self.node_to_case[node2] = self.node_to_case.pop(node1)

   Every assignment is to an attribute of `self`; `n_map` is only read.  (LoopBlock additionally updates the
   CondBlock it wraps, `self.cond`, an object that is not a node of the graph any more; not modelled.)

2. `control_flow.py` `identify_structures`:

       for node in if_unresolved:
           follows = [n for n in (node.follow['loop'], node.follow['switch']) if n]
           if len(follows) >= 1:
               follow = min(follows, key=lambda x: x.num)
               node.follow['if'] = follow

   reads `follow['loop']`, `follow['switch']` of the visited node and the numbers, writes its `follow['if']`.

The third member of the class, the bucket loop of `dom_lt`, is covered by the full model of C18
(`dom_lt_order_irrelevant`); `if_struct` and `switch_struct` have their own models (Model/IfStruct.lean,
Model/SwitchStruct.lean).
-/
import AgVerif.Model.Order
namespace AgVerif.LoopBodies
open AgVerif.Order

/-- `n_map.get(k, k)` on the dict given as its item list -/
def mget (nmap : List (Nat × Nat)) (k : Nat) : Nat :=
  match nmap.find? (fun p => p.1 == k) with
  | some p => p.2
  | none => k

inductive Kind | base | cond | switch
  deriving DecidableEq, Repr

/-- the attributes `update_attribute_with` touches -/
structure Attr where
  latch : Option Nat
  /-- the values of `self.follow` in dict order (`if`, `loop`, `switch`) -/
  follow : List (Option Nat)
  loopNodes : List Nat
  tru : Option Nat
  fls : Option Nat
  cases : List Nat
  /-- `node_to_case` as its item list in insertion order -/
  nodeToCase : List (Nat × List Nat)
  deriving DecidableEq, Repr

/-- `d.pop(k)` -/
def dpop (d : List (Nat × List Nat)) (k : Nat) : List (Nat × List Nat) := d.filter (fun p => !(p.1 == k))

/-- `d[k] = v`: in place when the key exists, appended otherwise -/
def dset (d : List (Nat × List Nat)) (k : Nat) (v : List Nat) : List (Nat × List Nat) :=
  if d.any (fun p => p.1 == k) then d.map (fun p => if p.1 == k then (k, v) else p) else d ++ [(k, v)]

/-- the `for node1, node2 in n_map.items()` loop of `SwitchBlock.update_attribute_with` -/
def renameCases (nmap : List (Nat × Nat)) (d : List (Nat × List Nat)) : List (Nat × List Nat) :=
  nmap.foldl (fun d p =>
    match d.find? (fun q => q.1 == p.1) with
    | some q => dset (dpop d p.1) p.2 q.2
    | none => d) d

/-- `node.update_attribute_with(n_map)` as a function of the node's own attributes -/
def updateAttr (kind : Kind) (nmap : List (Nat × Nat)) (r : Attr) : Attr :=
  let r := { r with latch := r.latch.map (mget nmap)
                    follow := r.follow.map (fun v => v.map (mget nmap))
                    loopNodes := dedup (r.loopNodes.map (mget nmap)) }
  match kind with
  | .base => r
  | .cond => { r with tru := r.tru.map (mget nmap), fls := r.fls.map (mget nmap) }
  | .switch => { r with cases := r.cases.map (mget nmap), nodeToCase := renameCases nmap r.nodeToCase }

/-- `for node in to_update: node.update_attribute_with(node_map)`, `σ` = the enumeration of the set -/
def toUpdateLoop (kind : Nat → Kind) (nmap : List (Nat × Nat)) (st : Nat → Attr) (σ : List Nat) : Nat → Attr :=
  applyEach (fun x r => updateAttr (kind x) nmap r) st σ

/-- `min([n for n in (loop, switch) if n], key=num)`: the first minimal one; `none` when both are `None` -/
def minFollow (num : Nat → Nat) (loopF switchF : Option Nat) : Option Nat :=
  match loopF, switchF with
  | none, none => none
  | some a, none => some a
  | none, some b => some b
  | some a, some b => if num b < num a then some b else some a

/-- the `for node in if_unresolved` loop of `identify_structures`; state = the `follow['if']` attributes -/
def finishUnresolved (num : Nat → Nat) (loopF switchF ifF : Nat → Option Nat) (σ : List Nat) : Nat → Option Nat :=
  applyEach (fun x old => match minFollow num (loopF x) (switchF x) with
                          | some v => some v
                          | none => old) ifF σ

end AgVerif.LoopBodies
