/-
C17 — how a history of the model is read by the specification (AgVerif.Spec.Rename):
which item each operation renames / queries, and what the file says the original names and the
string-constant texts are. Part of the *statement* of the refinement theorem.
-/
import AgVerif.Model.Rename
import AgVerif.Spec.Rename
namespace AgVerif.Rename
open AgVerif.Spec.Rename (Item Ev World)

/-- original names and constant texts, straight from the tables of the file (no hook, no cache) -/
def world (d : Dex) : World :=
  { orig := fun
      | .cls t => rawType d t
      | .meth m => match d.methods[m]? with
        | some mid => rawString d mid.name
        | none => ""
      | .fld f => match d.fields[f]? with
        | some fid => rawString d fid.name
        | none => "",
    const := fun k => match d.consts[k]? with
      | some (reg, si) => "v" ++ toString reg ++ ", \"" ++ rawString d si ++ "\""
      | none => "" }

/-- the meaning of an operation for the property. The observation points of C17 are
    ClassDefItem.get_name, EncodedMethod.get_name, EncodedField.get_name (and the id items'
    get_name) and the const-string output; descriptors, class names of members and reloads are
    `other` (they are compared with the real code by the correspondence, not judged here). -/
def view (d : Dex) : Op → Ev
  | .renameClass c v => match d.classes[c]? with
    | some cd => .rename (.cls cd.cls) v
    | none => .other
  | .renameMethod e v => match d.encMethods[e]? with
    | some (m, _) => if m < d.methods.length then .rename (.meth m) v else .other
    | none => .other
  | .renameField e v => match d.encFields[e]? with
    | some (f, _) => if f < d.fields.length then .rename (.fld f) v else .other
    | none => .other
  | .className c => match d.classes[c]? with
    | some cd => .name (.cls cd.cls)
    | none => .other
  | .methodName e => match d.encMethods[e]? with
    | some (m, _) => .name (.meth m)
    | none => .other
  | .fieldName e => match d.encFields[e]? with
    | some (f, _) => .name (.fld f)
    | none => .other
  | .midName m => if m < d.methods.length then .name (.meth m) else .other
  | .fidName f => if f < d.fields.length then .name (.fld f) else .other
  | .constString k => if k < d.consts.length then .const k else .other
  | _ => .other

/-- the operation addresses an existing class_def / encoded member / id item / const-string.
    Operations outside this range are outside the model: `step` answers `Out.err` and changes
    nothing (`out_of_range_is_err`), `view` reads them as `other`, the harness never sends them
    (the real code answers its `AG:I?I:invalid_*` placeholder objects or raises AttributeError). -/
def opInRange (d : Dex) : Op → Bool
  | .renameClass c _ | .reloadClass c | .className c | .superName c => c < d.classes.length
  | .renameMethod e _ | .reloadEncMethod e | .methodName e | .methodClass e | .methodDesc e =>
    e < d.encMethods.length
  | .renameField e _ | .reloadEncField e | .fieldName e | .fieldClass e | .fieldDesc e =>
    e < d.encFields.length
  | .reloadMethodId m | .midName m | .midClass m | .midDesc m | .invokeText m => m < d.methods.length
  | .reloadFieldId f | .fidName f | .fidClass f | .fidDesc f | .fieldText f => f < d.fields.length
  | .constString k => k < d.consts.length

/-- `o` answers what the specification demands (`none` demands nothing) -/
def agree1 (o : Out) : Option String → Bool
  | none => true
  | some x => o == .str x

def agreeB : List Out → List (Option String) → Bool
  | [], [] => true
  | o :: os, e :: es => agree1 o e && agreeB os es
  | _, _ => false

end AgVerif.Rename
