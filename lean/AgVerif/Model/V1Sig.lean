/-
Model of androguard's v1 (JAR) signature logic, androguard/core/apk/__init__.py:
  APK.get_certificate_der, verify_signer_info_against_sig_file, verify_signature,
  get_hash_algorithm, find_certificate, get_signature_names, get_certificates_v1.

The cryptography is a PARAMETER (`Crypto`): public-key verification, message digests.  ASN.1
decoding is outside the model: the input is the parsed PKCS#7 structure as an abstract record.
Every constant, table and comparison operator comes from the generated AgVerif.Gen.V1SigTables.

Python exceptions are modelled explicitly: an exception is the list of class names of its MRO;
an `except (A, B, …)` clause catches it iff one of the names is listed.
-/
import AgVerif.Gen.V1SigTables
namespace AgVerif.V1Sig
open AgVerif.Gen

abbrev Bytes := List Nat

/-- MRO of a raised exception, most specific first, e.g. ["UnicodeDecodeError","UnicodeError","ValueError","Exception"] -/
abbrev Exc := List String

/-- what `load_der_public_key(...)` followed by `public_key.verify(...)` does -/
inductive VRes where
  | ok
  | exc (e : Exc)
deriving DecidableEq, Repr

/-- the cryptographic primitives, parameters of the model.
    `verify key sig msg hashClass`, `digest hashlibFunction msg` -/
structure Crypto where
  verify : Nat → Bytes → Bytes → String → VRes
  digest : String → Bytes → Bytes

/-- `.native` of an attribute value: a name / dotted OID, or an octet string -/
inductive AVal where
  | str (s : String)
  | oct (b : Bytes)
deriving DecidableEq, Repr

structure Attr where
  oid : String
  values : List AVal
deriving DecidableEq, Repr

/-- one element of SignedData.certificates -/
structure Cert where
  isCert : Bool      -- CertificateChoices alternative is `certificate`
  issuer : Nat       -- canonical_name(tbs_certificate.issuer), interned
  serial : Int
  key : Nat          -- the subject public key, interned
  id : Nat           -- the DER encoding, interned (what get_certificate_der returns)
deriving DecidableEq, Repr

structure SignerInfo where
  issuer : Nat                    -- canonical_name(sid.issuer), interned
  serial : Int
  digestAlg : String              -- signer_info['digest_algorithm']['algorithm'].native
  attrs : Option (List Attr)      -- none: the optional field is absent
  attrsDump : Bytes               -- signed_attrs.dump() (as in the file, tag [0])
  sigAlg : String                 -- present in the file, never consulted by the code
  sig : Bytes
deriving DecidableEq, Repr

/-- `get_min_sdk_version()`: None, a string `int()` accepts, or any other string -/
inductive Sdk where
  | absent
  | num (n : Int)
  | bad
deriving DecidableEq, Repr

structure Input where
  encap : AVal                    -- encap_content_info.content_type.native
  certs : List Cert
  signers : List SignerInfo
  sf : Bytes
  minSdk : Sdk
  maxSdk : Option Int             -- the max_sdk_version argument (callers in androguard pass None)
deriving Repr

def valueError : Exc := ["ValueError", "Exception", "BaseException", "object"]
def indexError : Exc := ["IndexError", "LookupError", "Exception", "BaseException", "object"]

/-- does `except (names…)` catch an exception with this MRO -/
def catches (names : List String) (e : Exc) : Bool := e.any (fun c => names.contains c)

def evalCmp (op : String) (a b : Int) : Bool :=
  if op = "lt" then a < b else if op = "le" then a ≤ b else if op = "gt" then a > b
  else if op = "ge" then a ≥ b else if op = "eq" then a = b else a ≠ b

/-- find_certificate: first `certificate` element with equal canonical issuer and serial -/
def findCert (certs : List Cert) (si : SignerInfo) : Option Cert :=
  certs.find? (fun c => c.isCert && c.issuer == si.issuer && c.serial == si.serial)

/-- get_hash_algorithm -/
def hashLookup (alg : String) : Option (String × String) :=
  match V1SigTables.hashAlgorithms.find? (fun e => e.1 == alg) with
  | some (_, fn, cls) => some (fn, cls)
  | none => none

/-- `if signer_info['signed_attrs'].native:` -/
def attrsOf (si : SignerInfo) : List Attr :=
  match si.attrs with
  | some l => l
  | none => []

/-- the loop filling `signed_attrs_dict`; none = "Duplicate signed attribute" -/
def attrsDict : List Attr → List (String × List AVal) → Option (List (String × List AVal))
  | [], acc => some acc
  | a :: rest, acc =>
    if acc.any (fun p => p.1 == a.oid) then none else attrsDict rest (acc ++ [(a.oid, a.values)])

def dictGet (d : List (String × List AVal)) (oid : String) : Option (List AVal) :=
  match d.find? (fun p => p.1 == oid) with
  | some p => some p.2
  | none => none

/-- `b'\x31' + signed_attrs_dump[1:]` -/
def retag (dump : Bytes) : Bytes := V1SigTables.retagByte :: dump.drop 1

/-- outcome of verify_signer_info_against_sig_file -/
inductive SIRes where
  | verified (c : Cert)
  | notVerified
  | raised (e : Exc)
deriving DecidableEq, Repr

/-- verify_signature -/
def verifyWith (cr : Crypto) (c : Cert) (si : SignerInfo) (msg : Bytes) (cls : String) : SIRes :=
  match cr.verify c.key si.sig msg cls with
  | .ok => .verified c
  | .exc e => if catches V1SigTables.innerCaught e then .notVerified else .raised e

/-- `max_sdk_version is None or int(max_sdk_version) >= 24` -/
def contentTypeChecked (maxSdk : Option Int) : Bool :=
  match maxSdk with
  | none => true
  | some n => evalCmp V1SigTables.maxOp n V1SigTables.maxConst

/-- the signed-attributes branch after the dictionary has been built -/
def verifyAttrs (cr : Crypto) (inp : Input) (c : Cert) (si : SignerInfo) (fn cls : String)
    (d : List (String × List AVal)) : SIRes :=
  let ct : Option SIRes :=
    if contentTypeChecked inp.maxSdk then
      match dictGet d V1SigTables.contentTypeOid with
      | none => some (.raised valueError)               -- "No Content Type in signed attributes"
      | some [] => some (.raised indexError)            -- values[0] of an empty SET
      | some (v :: _) => if v = inp.encap then none else some .notVerified   -- `!=` → "Content Type mismatch"
    else none
  match ct with
  | some r => r
  | none =>
    match dictGet d V1SigTables.messageDigestOid with
    | none => .raised valueError                        -- "No content digest in signed attributes"
    | some [] => .raised indexError
    | some (v :: _) =>
      if AVal.oct (cr.digest fn inp.sf) = v then verifyWith cr c si (retag si.attrsDump) cls
      else .notVerified                                 -- `!=` → "Digest mismatch"

/-- verify_signer_info_against_sig_file -/
def verifySI (cr : Crypto) (inp : Input) (si : SignerInfo) : SIRes :=
  match hashLookup si.digestAlg with
  | none => .raised valueError                          -- "Unsupported hash algorithm" (raised first)
  | some (fn, cls) =>
    match findCert inp.certs si with
    | none => .raised valueError                        -- "Signing certificate referenced in SignerInfo not found"
    | some c =>
      match attrsOf si with
      | [] => verifyWith cr c si inp.sf cls
      | a :: as =>
        match attrsDict (a :: as) [] with
        | none => .raised valueError
        | some d => verifyAttrs cr inp c si fn cls d

/-- result of get_certificate_der -/
inductive Outcome where
  | cert (c : Cert)
  | none
  | raised (e : Exc)
deriving DecidableEq, Repr

/-- the signer selection test `min_sdk_version is None or int(min_sdk_version) < 24`; none = int() raises -/
def selTest (s : Sdk) : Option Bool :=
  match s with
  | .absent => some true
  | .num n => some (evalCmp V1SigTables.minOp n V1SigTables.minConst)
  | .bad => none

/-- `unverified_signer_infos_to_try` (for a non-empty SignerInfos) -/
def tried (inp : Input) : Option (List SignerInfo) :=
  match selTest inp.minSdk with
  | none => none
  | some t => if t = V1SigTables.thenFirstOnly then some (inp.signers.take 1) else some inp.signers

/-- the `for signer_info in unverified_signer_infos_to_try` loop; `acc` is list_certificates_verified -/
def loop (cr : Crypto) (inp : Input) : List SignerInfo → List Cert → Outcome
  | [], acc =>
    match acc with
    | [] => .none
    | c :: _ => .cert c
  | si :: rest, acc =>
    match verifySI cr inp si with
    | .raised e => if catches V1SigTables.outerCaught e then .none else .raised e
    | .verified c => loop cr inp rest (acc ++ [c])
    | .notVerified => loop cr inp rest acc

/-- APK.get_certificate_der, after the PKCS#7 file and the .SF file have been read and decoded -/
def getCert (cr : Crypto) (inp : Input) : Outcome :=
  match inp.signers with
  | [] => .none
  | _ :: _ =>
    match tried inp with
    | none => .raised valueError
    | some l => loop cr inp l []

/-! ### file names: get_signature_names, the .SF name, get_certificates_v1 -/

/-- `re.compile(r'\AMETA-INF/(?s:.)*\.(DSA|EC|RSA)\Z').search(name)` -/
def isSigName (name : String) : Bool :=
  let cs := name.toList
  let p := V1SigTables.sigPrefix.toList
  p.isPrefixOf cs &&
    V1SigTables.sigExts.any (fun e => ('.' :: e.toList).isSuffixOf (cs.drop p.length))

/-- index just after the last occurrence of `c`, if any -/
def lastIdx (c : Char) (cs : List Char) : Option Nat :=
  let rec go : List Char → Nat → Option Nat → Option Nat
    | [], _, r => r
    | x :: xs, i, r => go xs (i + 1) (if x = c then some i else r)
  go cs 0 none

/-- `name.rsplit(".", 1)[0]` -/
def rsplitDot (cs : List Char) : List Char :=
  match lastIdx '.' cs with
  | some i => cs.take i
  | none => cs

/-- `os.path.splitext(name)[0]` (posixpath: sep '/', no altsep) -/
def splitextRoot (cs : List Char) : List Char :=
  let sepIdx : Int := match lastIdx '/' cs with | some i => (i : Int) | none => -1
  match lastIdx '.' cs with
  | none => cs
  | some d =>
    if (d : Int) > sepIdx then
      -- skip all leading dots of the base name
      let base := (cs.take d).drop (sepIdx + 1).toNat
      if base.all (· = '.') then cs else cs.take d
    else cs

def sfNameBy (rule : String) (name : String) : String :=
  let cs := name.toList
  String.ofList ((if rule = "splitext" then splitextRoot cs else rsplitDot cs) ++ ".SF".toList)

/-- the .SF name get_signature_names looks for -/
def sfNameNames (name : String) : String := sfNameBy V1SigTables.sfRuleNames name
/-- the .SF name get_certificate_der reads -/
def sfNameDer (name : String) : String := sfNameBy V1SigTables.sfRuleDer name

/-- get_signature_names over the archive's file names (in archive order) -/
def signatureNames (files : List String) : List String :=
  files.filter (fun n => isSigName n && files.contains (sfNameNames n))

/-- get_certificates_v1, given what get_certificate_der returns for each name.
    An exception escaping from one block aborts the whole call. -/
def certificatesV1 (per : String → Outcome) (files : List String) : Except Exc (List Cert) :=
  let rec go : List String → List Cert → Except Exc (List Cert)
    | [], acc => .ok acc
    | n :: ns, acc =>
      match per n with
      | .cert c => go ns (acc ++ [c])
      | .none => go ns acc
      | .raised e => .error e
  go (signatureNames files) []

end AgVerif.V1Sig
