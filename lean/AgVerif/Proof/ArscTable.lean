/-
C28 deepening, step 5c: the chunk loop of `ARSCParser.__init__` over the global pool and the
packages, and `parseTable (encTable l t) = parsedOf l t`.  Core Lean only.
-/
import AgVerif.Proof.ArscPackage
namespace AgVerif.Arsc
open AgVerif.Gen.ArscConsts AgVerif.Spec.Arsc
attribute [local irreducible] enc16 enc32

def packagesOf (pl : Nat → PkgLayout) : Nat → List Spec.Arsc.Package → List Package
  | _, [] => []
  | i, p :: r => packageOf (pl i) p :: packagesOf pl (i + 1) r

/-- what `ARSCParser.__init__` builds from an encoded table -/
def parsedOf (l : Layout) (t : Table) : Parsed :=
  ⟨some (poolOf l.globalUtf8 t.strings), packagesOf l.pkg 0 t.packages⟩

theorem eraseDups_length_le {α : Type} [BEq α] (l : List α) : l.eraseDups.length ≤ l.length := by
  generalize hn : l.length = n
  induction n using Nat.strongRecOn generalizing l with
  | _ n ih =>
    cases l with
    | nil => simp
    | cons a r =>
      rw [List.eraseDups_cons]
      simp only [List.length_cons] at hn ⊢
      have hf : (r.filter fun b => !b == a).length ≤ r.length := List.length_filter_le _ _
      have := ih _ (by omega) (r.filter fun b => !b == a) rfl
      omega

theorem tableChunks_end {b : Buf} {tableEnd pc fuel p : Nat} {acc : Parsed} (h1 : p + 8 > tableEnd) :
    tableChunks b tableEnd pc (fuel + 1) p acc = some acc := by
  simp only [tableChunks, h1, if_true]

theorem tableChunks_pool {b : Buf} {tableEnd pc fuel p : Nat} {acc : Parsed} {h : Hdr} {pl : Pool}
    (h1 : ¬ p + 8 > tableEnd) (h2 : readHdr b p none = some h) (h3 : ¬ h.end_ > tableEnd)
    (h4 : h.type = resStringPoolType) (h5 : acc.main = none) (h6 : readPool b h = some pl) :
    tableChunks b tableEnd pc (fuel + 1) p acc = tableChunks b tableEnd pc fuel h.end_ { acc with main := some pl } := by
  simp only [tableChunks, h1, if_false, h2, h3, h4, if_true, h5, h6]

theorem tableChunks_pkg {b : Buf} {tableEnd pc fuel p : Nat} {acc : Parsed} {h : Hdr} {pk : Package}
    (h1 : ¬ p + 8 > tableEnd) (h2 : readHdr b p none = some h) (h3 : ¬ h.end_ > tableEnd)
    (h4 : h.type = resTablePackageType) (h5 : ¬ (acc.packages.map (·.name)).eraseDups.length > pc)
    (h6 : readPackage b h = some pk) :
    tableChunks b tableEnd pc (fuel + 1) p acc
      = tableChunks b tableEnd pc fuel h.end_ { acc with packages := acc.packages ++ [pk] } := by
  have h4' : ¬ resTablePackageType = resStringPoolType := by decide
  simp only [tableChunks, h1, if_false, h2, h3, h4, h4', if_true, h5, h6]

theorem wfPackages_cons (pl : Nat → PkgLayout) (i : Nat) (p : Spec.Arsc.Package) (r : List Spec.Arsc.Package) :
    wfPackages pl i (p :: r) = true ↔ wfPackage (pl i) p = true ∧ wfPackages pl (i + 1) r = true := by
  simp [wfPackages]

theorem tableChunks_pkgs {bs r : List Nat} (pl : Nat → PkgLayout) (pkgs : List Spec.Arsc.Package)
    (i p fuel pc : Nat) (acc : Parsed)
    (h : bs.drop p = encPackages pl i pkgs ++ r) (hwf : wfPackages pl i pkgs = true)
    (hlen : (encPackages pl i pkgs).length < 4294967296)
    (hpc : acc.packages.length + pkgs.length ≤ pc) (hfuel : pkgs.length + 1 ≤ fuel) :
    tableChunks bs.toArray (p + (encPackages pl i pkgs).length) pc fuel p acc
      = some ⟨acc.main, acc.packages ++ packagesOf pl i pkgs⟩ := by
  induction pkgs generalizing i p fuel acc with
  | nil =>
    obtain ⟨f, rfl⟩ : ∃ f, fuel = f + 1 := ⟨fuel - 1, by omega⟩
    rw [tableChunks_end (by simp [encPackages])]
    simp [packagesOf]
  | cons pk rest ih =>
    obtain ⟨hw1, hw2⟩ := (wfPackages_cons pl i pk rest).mp hwf
    obtain ⟨f, rfl⟩ : ∃ f, fuel = f + 1 := ⟨fuel - 1, by omega⟩
    simp only [encPackages, List.length_append, List.length_cons] at h hlen hpc hfuel ⊢
    rw [List.append_assoc] at h
    obtain ⟨hhdr, hpk⟩ := readPackage_at (pl i) pk h hw1 (by omega)
    have hge : 288 ≤ (encPackage (pl i) pk).length := by
      rw [encPackage_length _ _ ((wfName_iff pk.name).mp ((wfPackage_iff (pl i) pk).mp hw1).2.1).1]; omega
    have hdup := eraseDups_length_le (acc.packages.map (·.name))
    simp only [List.length_map] at hdup
    rw [tableChunks_pkg (by omega) hhdr (by simp only [Hdr.end_]; omega) rfl (by omega) hpk]
    have := ih (i + 1) (p + (encPackage (pl i) pk).length) f { acc with packages := acc.packages ++ [packageOf (pl i) pk] }
      (drop_at h) hw2 (by omega) (by simp only [List.length_append, List.length_cons, List.length_nil]; omega) (by omega)
    simp only [Hdr.end_]
    rw [Nat.add_assoc] at this
    rw [this]
    simp [packagesOf]


theorem encPackages_length_ge (pl : Nat → PkgLayout) (i : Nat) (pkgs : List Spec.Arsc.Package)
    (hwf : wfPackages pl i pkgs = true) : 288 * pkgs.length ≤ (encPackages pl i pkgs).length := by
  induction pkgs generalizing i with
  | nil => simp
  | cons pk r ih =>
    obtain ⟨hw1, hw2⟩ := (wfPackages_cons pl i pk r).mp hwf
    have := ih (i + 1) hw2
    simp only [encPackages, List.length_append, List.length_cons]
    rw [encPackage_length _ _ ((wfName_iff pk.name).mp ((wfPackage_iff (pl i) pk).mp hw1).2.1).1]
    omega

theorem parseTable_of {b : Buf} {h : Hdr} {pc : Nat} {ps : Parsed}
    (h0 : ¬ (b.size < 8 ∨ b.size > 0xFFFFFFFF)) (h1 : readHdr b 0 (some resTableType) = some h)
    (h2 : ¬ h.size > b.size) (h3 : rd32 b 8 = some pc)
    (h4 : tableChunks b h.end_ pc (b.size + 1) (h.start + h.headerSize) ⟨none, []⟩ = some ps) :
    parseTable b = some ps := by
  simp only [parseTable, h0, if_false, h1, h2, h3, h4]

/-- (5) parsing an encoded table, followed by any trailing bytes `tr` (which the parser never
    looks at), gives exactly what the encoder was given -/
theorem parseTable_enc_trailing (l : Layout) (t : Table) (tr : List Nat) (hwf : wfTable l t = true)
    (htr : (encTable l t).length + tr.length < 4294967296) :
    parseTable (encTable l t ++ tr).toArray = some (parsedOf l t) := by
  simp only [wfTable, Bool.and_eq_true, decide_eq_true_eq] at hwf
  obtain ⟨⟨hlen, hstr⟩, hpk⟩ := hwf
  have hge := encPackages_length_ge l.pkg 0 t.packages hpk
  have hpg := encPool_length_ge l.globalUtf8 t.strings
  have hL0 : (encTable l t).length = 12 + (encPool l.globalUtf8 t.strings).length + (encPackages l.pkg 0 t.packages).length := by
    simp only [encTable, chunk_length, List.length_append, enc32_length]; omega
  generalize hbs : encTable l t ++ tr = bs at *
  have h0 : bs.drop 0 = chunk 2 (enc32 t.packages.length)
      (encPool l.globalUtf8 t.strings ++ encPackages l.pkg 0 t.packages) ++ tr := by
    rw [← hbs]; simp [encTable]
  have hL : bs.length = 12 + (encPool l.globalUtf8 t.strings).length + (encPackages l.pkg 0 t.packages).length + tr.length := by
    rw [← hbs, List.length_append, hL0]
  have hhdr := readHdr_at (some resTableType) h0 (Or.inl (by omega))
    (by simp only [enc32_length]; omega)
    (by simp only [enc32_length, List.length_append]; omega)
    (by intro x hx; simp only [resTableType] at hx; injection hx with hx; exact hx.symm)
  simp only [enc32_length, List.length_append] at hhdr
  have a8 : bs.drop (0 + 8) = enc32 t.packages.length ++ (encPool l.globalUtf8 t.strings ++
      (encPackages l.pkg 0 t.packages ++ tr)) := by
    rw [chunk_body_at h0]; simp only [List.append_assoc]
  have a12 : bs.drop 12 = encPool l.globalUtf8 t.strings ++ (encPackages l.pkg 0 t.packages ++ tr) :=
    drop_at' 4 a8 (enc32_length _)
  have apk : bs.drop (12 + (encPool l.globalUtf8 t.strings).length) = encPackages l.pkg 0 t.packages ++ tr :=
    drop_at a12
  obtain ⟨_, p2, p3⟩ := readPool_at l.globalUtf8 t.strings a12 (by omega)
  have hloop := tableChunks_pkgs l.pkg t.packages 0 (12 + (encPool l.globalUtf8 t.strings).length)
    (bs.toArray : Buf).size t.packages.length ⟨some (poolOf l.globalUtf8 t.strings), []⟩ apk hpk (by omega)
    (by simp) (by simp only [List.size_toArray]; omega)
  apply parseTable_of (h := ⟨0, 0, 2, 8 + 4, 8 + 4 + ((encPool l.globalUtf8 t.strings).length +
      (encPackages l.pkg 0 t.packages).length)⟩) (pc := t.packages.length)
  · simp only [List.size_toArray]; omega
  · exact hhdr
  · simp only [List.size_toArray]; omega
  · exact rd32_at (p := 8) a8 (by omega)
  · simp only [Hdr.end_]
    rw [tableChunks_pool (h := ⟨12, 12, 1, 28, (encPool l.globalUtf8 t.strings).length⟩) (by omega) p2
      (by simp only [Hdr.end_]; omega) rfl rfl p3]
    simp only [Hdr.end_]
    rw [show 0 + (8 + 4 + ((encPool l.globalUtf8 t.strings).length + (encPackages l.pkg 0 t.packages).length))
      = 12 + (encPool l.globalUtf8 t.strings).length + (encPackages l.pkg 0 t.packages).length by omega]
    rw [hloop]
    simp [parsedOf]

/-- (5) parsing an encoded table gives exactly what the encoder was given -/
theorem parseTable_enc (l : Layout) (t : Table) (hwf : wfTable l t = true) :
    parseTable (encTable l t).toArray = some (parsedOf l t) := by
  have hlen : (encTable l t).length < 4294967296 := by
    simp only [wfTable, Bool.and_eq_true, decide_eq_true_eq] at hwf; exact hwf.1.1
  have := parseTable_enc_trailing l t [] hwf (by simpa using hlen)
  simpa using this

end AgVerif.Arsc
