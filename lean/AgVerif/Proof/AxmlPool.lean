/- C26, file level: the cursor on encoded fields, ARSCHeader on an encoded chunk header, StringBlock on an encoded pool. -/
import AgVerif.Proof.AxmlInv
import AgVerif.Proof.AxmlUtf
namespace AgVerif.Proof.Axml
open AgVerif.Axml AgVerif.Spec.Axml AgVerif.Gen.AxmlConsts

/-! ### little-endian fields -/

theorem leBytes_length (n v : Nat) : (leBytes n v).length = n := by
  induction n generalizing v with
  | zero => rfl
  | succ n ih => simp [leBytes, ih]

theorem le_leBytes (n v : Nat) (h : v < 256 ^ n) : le (leBytes n v) = v := by
  induction n generalizing v with
  | zero => simp at h; simp [leBytes, le, h]
  | succ n ih =>
    have h2 : v / 256 < 256 ^ n := by
      apply Nat.div_lt_of_lt_mul; rw [Nat.pow_succ, Nat.mul_comm] at h; exact h
    simp only [leBytes, le, ih _ h2]; omega

@[simp] theorem w16_length (v : Nat) : (w16 v).length = 2 := leBytes_length 2 v
@[simp] theorem w32_length (v : Nat) : (w32 v).length = 4 := leBytes_length 4 v

theorem uint_mk (B : Bytes) (n v p : Nat) (tail : Bytes) (hv : v < 256 ^ n) :
    (Cur.mk B (leBytes n v ++ tail) p).uint n = .ok (v, ⟨B, tail, p + n⟩) := by
  have hl := leBytes_length n v
  simp [Cur.uint, Cur.read, hl, le_leBytes n v hv]

theorem u32_mk (B : Bytes) (v p : Nat) (tail : Bytes) (hv : v < 2 ^ 32) :
    (Cur.mk B (w32 v ++ tail) p).u32 = .ok (v, ⟨B, tail, p + 4⟩) := uint_mk B 4 v p tail (by omega)

theorem u16_mk (B : Bytes) (v p : Nat) (tail : Bytes) (hv : v < 2 ^ 16) :
    (Cur.mk B (w16 v ++ tail) p).u16 = .ok (v, ⟨B, tail, p + 2⟩) := uint_mk B 2 v p tail (by omega)

theorem read_mk (B : Bytes) (x : Bytes) (p : Nat) (tail : Bytes) :
    (Cur.mk B (x ++ tail) p).read x.length = (x, ⟨B, tail, p + x.length⟩) := by
  simp [Cur.read]

/-! ### ARSCHeader -/

theorem hdrLoop_mk (f : Nat) (B : Bytes) (p ty hs size : Nat) (tail : Bytes)
    (hty : ty < 2 ^ 16) (hhs : hs < 2 ^ 16) (hsz : size < 2 ^ 32) (h8 : 8 ≤ hs) (hle : hs ≤ size) :
    hdrLoop (f + 1) ⟨B, w16 ty ++ (w16 hs ++ (w32 size ++ tail)), p⟩ = .ok (ty, hs, size, ⟨B, tail, p + 8⟩) := by
  have e1 : ty % 256 + 256 * (ty / 256 % 256) = ty := by omega
  have e2 : hs % 256 + 256 * (hs / 256 % 256) = hs := by omega
  have e3 : size % 256 + 256 * (size / 256 % 256 + 256 * (size / 256 / 256 % 256 + 256 * (size / 256 / 256 / 256 % 256))) = size := by omega
  have hr : (Cur.mk B (w16 ty ++ (w16 hs ++ (w32 size ++ tail))) p).read 8
      = (w16 ty ++ (w16 hs ++ w32 size), ⟨B, tail, p + 8⟩) := by
    have := read_mk B (w16 ty ++ (w16 hs ++ w32 size)) p tail
    simpa using this
  rw [hdrLoop]
  simp only [hr]
  have hs8 : ¬ size < 8 := by omega
  simp [w16, w32, leBytes, le, e1, e2, e3, hs8, h8, hle]

theorem readHdr_mk (B : Bytes) (p ty hs size : Nat) (tail : Bytes) (exp : Option Nat)
    (hB : p + 8 ≤ B.length) (hty : ty < 2 ^ 16) (hhs : hs < 2 ^ 16) (hsz : size < 2 ^ 32) (h8 : 8 ≤ hs) (hle : hs ≤ size)
    (hexp : ∀ t, exp = some t → t = 0 ∨ ty = t) :
    readHdr ⟨B, w16 ty ++ (w16 hs ++ (w32 size ++ tail)), p⟩ exp = .ok (⟨p, ty, hs, size⟩, ⟨B, tail, p + 8⟩) := by
  have hlt : ¬ B.length < p + 8 := by omega
  have h1 : ¬ hs < 8 := by omega
  have h2 : ¬ size < 8 := by omega
  have h3 : ¬ size < hs := by omega
  unfold readHdr
  simp only [hlt, if_false, hdrLoop_mk _ B p ty hs size tail hty hhs hsz h8 hle]
  cases exp with
  | none => simp [h1, h2, h3]
  | some t => rcases hexp t rfl with h | h <;> simp [h, h1, h2, h3]

/-! ### one pool string -/

theorem drop_add_of_drop_eq {l x y : Bytes} {p : Nat} (h : l.drop p = x ++ y) : l.drop (p + x.length) = y := by
  rw [← List.drop_drop, h]; simp

theorem length_of_drop_eq {l x : Bytes} {p : Nat} (h : l.drop p = x) (hx : x ≠ []) : p + x.length = l.length := by
  have h1 : (l.drop p).length = x.length := by rw [h]
  have h2 : x.length ≠ 0 := by simpa using hx
  simp at h1; omega

theorem decodeLength8 (chars : Bytes) (off n : Nat) (wide : Bool) (more' : Bytes)
    (h : chars.drop off = len8 wide n ++ more') (hm : more' ≠ []) (hn : n ≤ 0x7FFF) :
    decodeLength chars off false = .ok (n, (len8 wide n).length) := by
  obtain ⟨y, more, rfl⟩ : ∃ y more, more' = y :: more := by
    cases more' with
    | nil => exact absurd rfl hm
    | cons y m => exact ⟨y, m, rfl⟩
  unfold decodeLength
  by_cases hw : wide = true ∨ 0x7F < n
  · simp only [len8, hw, if_true, len8Wide] at h ⊢
    have a : (n / 256 / 128 + 1) % 2 = 1 := by omega
    have b : n / 256 % 128 * 256 + n % 256 = n := by omega
    simp [h, le, a, b]
  · simp only [len8, hw, if_false, len8Narrow] at h ⊢
    have a : n / 128 % 2 = 0 := by omega
    simp [h, le, a]

theorem decodeLength16 (chars : Bytes) (off n : Nat) (wide : Bool) (more' : Bytes)
    (h : chars.drop off = len16 wide n ++ more') (hm : 2 ≤ more'.length) (hn : n ≤ 0x7FFFFFFF) :
    decodeLength chars off true = .ok (n, (len16 wide n).length) := by
  obtain ⟨y, z, more, rfl⟩ : ∃ y z more, more' = y :: z :: more := by
    match more', hm with
    | y :: z :: m, _ => exact ⟨y, z, m, rfl⟩
  unfold decodeLength
  by_cases hw : wide = true ∨ 0x7FFF < n
  · simp only [len16, hw, if_true, len16Wide] at h ⊢
    have h1 : (n / 65536 % 256 + 256 * (128 + n / 65536 / 256)) / 32768 % 2 = 1 := by omega
    have h2 : (n / 65536 % 256 + 256 * (128 + n / 65536 / 256)) % 32768 * 65536 + (n % 256 + 256 * (n / 256 % 256)) = n := by omega
    simp [h, le, h1, h2]
  · simp only [len16, hw, if_false, len16Narrow] at h ⊢
    have h2 : n % 256 + 256 * (n / 256) = n := by omega
    have h3 : n / 32768 % 2 = 0 := by omega
    simp [h, le, h2, h3]

theorem decode8_enc (chars : Bytes) (off : Nat) (wide : Bool) (s : Str) (rest : Bytes)
    (h : chars.drop off = encPoolString true wide s ++ rest) (hs : StrOk true s) : decode8 chars off = .ok s := by
  obtain ⟨hsc, hl⟩ := hs
  simp only [if_true] at hl
  simp only [encPoolString, if_true, List.append_assoc, List.cons_append, List.nil_append] at h
  have d1 := decodeLength8 chars off _ wide _ h (by simp) hl.1
  have h2 := drop_add_of_drop_eq h
  have d2 := decodeLength8 chars _ _ wide _ h2 (by simp) hl.2
  have h3 := drop_add_of_drop_eq h2
  have hlen : chars.length = off + (len8 wide (units16s s).length).length + (len8 wide (enc8 s).length).length
      + ((enc8 s).length + 1 + rest.length) := by
    have := congrArg List.length h3
    simp at this; omega
  have hge : ¬ chars.length < off + (len8 wide (units16s s).length).length + (len8 wide (enc8 s).length).length
      + (enc8 s).length := by omega
  have hget : chars[off + (len8 wide (units16s s).length).length + (len8 wide (enc8 s).length).length + (enc8 s).length]?
      = some 0 := by
    rw [← List.getElem?_drop, h3]; simp
  simp only [decode8, d1, d2, bind, Except.bind, hge, if_false, hget, h3]
  simp [dec8_enc8 s hsc]

theorem decode16_enc (chars : Bytes) (off : Nat) (wide : Bool) (s : Str) (rest : Bytes)
    (h : chars.drop off = encPoolString false wide s ++ rest) (hs : StrOk false s) : decode16 chars off = .ok s := by
  obtain ⟨hsc, hl⟩ := hs
  simp only [Bool.false_eq_true, if_false] at hl
  simp only [encPoolString, Bool.false_eq_true, if_false, List.append_assoc, List.cons_append, List.nil_append] at h
  have d1 := decodeLength16 chars off _ wide _ h (by simp; omega) hl
  have h2 := drop_add_of_drop_eq h
  have hel := enc16_length s
  have hlen : chars.length = off + (len16 wide (units16s s).length).length + ((enc16 s).length + 2 + rest.length) := by
    have := congrArg List.length h2
    simp at this; omega
  have hge : ¬ chars.length < off + (len16 wide (units16s s).length).length + (units16s s).length * 2 := by omega
  have h3 : chars.drop (off + (len16 wide (units16s s).length).length + (units16s s).length * 2) = 0 :: 0 :: rest := by
    have := drop_add_of_drop_eq h2
    rw [hel, Nat.mul_comm] at this; exact this
  simp only [decode16, d1, bind, Except.bind, hge, if_false, h3, h2]
  have e : (units16s s).length * 2 = (enc16 s).length := by omega
  simp [e, dec16_enc16 s hsc]

/-! ### the offset table, `StringBlock.getString` -/

theorem poolOffsets_get (u w : Bool) (strings : List Str) (base i : Nat) (x : Str) (hi : strings[i]? = some x) :
    ∃ off rest, (poolOffsets u w strings base)[i]? = some (base + off) ∧
      (poolData u w strings).drop off = encPoolString u w x ++ rest := by
  induction strings generalizing base i with
  | nil => simp at hi
  | cons s r ih =>
    cases i with
    | zero =>
      simp at hi; subst hi
      exact ⟨0, poolData u w r, by simp [poolOffsets], by simp [poolData]⟩
    | succ j =>
      simp at hi
      obtain ⟨off, rest, h1, h2⟩ := ih (base + (encPoolString u w s).length) j hi
      refine ⟨(encPoolString u w s).length + off, rest, ?_, ?_⟩
      · simp [poolOffsets, h1]; omega
      · have : poolData u w (s :: r) = encPoolString u w s ++ poolData u w r := by simp [poolData]
        rw [this, ← List.drop_drop]; simpa using h2

theorem poolOffsets_length (u w : Bool) (strings : List Str) (base : Nat) :
    (poolOffsets u w strings base).length = strings.length := by
  induction strings generalizing base with
  | nil => rfl
  | cons s r ih => simp [poolOffsets, ih]

theorem poolOffsets_le (u w : Bool) (strings : List Str) (base : Nat) :
    ∀ o ∈ poolOffsets u w strings base, o ≤ base + (poolData u w strings).length := by
  induction strings generalizing base with
  | nil => simp [poolOffsets]
  | cons s r ih =>
    intro o ho
    have e : (poolData u w (s :: r)).length = (encPoolString u w s).length + (poolData u w r).length := by simp [poolData]
    simp only [poolOffsets, List.mem_cons] at ho
    rcases ho with rfl | ho
    · omega
    · have := ih _ o ho; omega

/-- the `StringBlock` of an encoded pool -/
def poolOf (u w : Bool) (strings : List Str) : Pool :=
  ⟨strings.length, poolOffsets u w strings 0, u, poolBody u w strings⟩

theorem poolOf_get (u w : Bool) (strings : List Str) (hs : ∀ s ∈ strings, StrOk u s) (i : Nat) (x : Str)
    (hi : strings[i]? = some x) : (poolOf u w strings).get i = .ok x := by
  obtain ⟨off, rest, h1, h2⟩ := poolOffsets_get u w strings 0 i x hi
  have hlt : i < strings.length := by
    rcases Nat.lt_or_ge i strings.length with h | h
    · exact h
    · rw [List.getElem?_eq_none h] at hi; cases hi
  have hx : x ∈ strings := List.mem_of_getElem? hi
  have hne : (poolOffsets u w strings 0).isEmpty = false := by
    have := poolOffsets_length u w strings 0
    cases hp : poolOffsets u w strings 0 with
    | nil => rw [hp] at this; simp at this; omega
    | cons a b => rfl
  have hcnt : ¬ ((i : Int) ≥ (strings.length : Int)) := by omega
  have hd : (poolBody u w strings).drop off = encPoolString u w x ++ (rest ++ padding (poolData u w strings).length) := by
    have hle : off ≤ (poolData u w strings).length := by
      rcases Nat.le_total off (poolData u w strings).length with h | h
      · exact h
      · have := congrArg List.length h2
        rw [List.drop_eq_nil_of_le h] at this
        cases u <;> simp [encPoolString] at this
    rw [poolBody, List.drop_append_of_le_length hle, h2, List.append_assoc]
  simp only [Nat.zero_add] at h1
  simp only [Pool.get, poolOf, hne, hcnt, h1, Bool.false_eq_true, false_or, if_false]
  cases u with
  | true => simpa using decode8_enc _ off w x _ hd (hs x hx)
  | false => simpa using decode16_enc _ off w x _ hd (hs x hx)

/-! ### `StringBlock.__init__` -/

theorem flatMap_w32_length (l : List Nat) : (l.flatMap w32).length = 4 * l.length := by
  induction l with
  | nil => rfl
  | cons a r ih => simp [ih]; omega

theorem readU32s_mk (B : Bytes) (vs : List Nat) (p : Nat) (tail : Bytes) (hv : ∀ v ∈ vs, v < 2 ^ 32) :
    readU32s vs.length ⟨B, vs.flatMap w32 ++ tail, p⟩ = .ok (vs, ⟨B, tail, p + 4 * vs.length⟩) := by
  induction vs generalizing p with
  | nil => simp [readU32s]
  | cons v r ih =>
    have h1 := u32_mk B v p (r.flatMap w32 ++ tail) (hv v (by simp))
    have h2 := ih (p + 4) (fun x hx => hv x (by simp [hx]))
    simp only [List.flatMap_cons, List.append_assoc, List.length_cons, readU32s, h1, h2]
    simp; omega

theorem readPool_mk (B : Bytes) (p : Nat) (u w : Bool) (strings : List Str) (tail : Bytes) (h : Hdr)
    (hh : h.size = 28 + 4 * strings.length + (poolBody u w strings).length) (hsz : h.size < 2 ^ 32) :
    readPool h ⟨B, w32 strings.length ++ (w32 0 ++ (w32 (if u then 0x100 else 0) ++ (w32 (28 + 4 * strings.length) ++ (w32 0
      ++ ((poolOffsets u w strings 0).flatMap w32 ++ (poolBody u w strings ++ tail)))))), p⟩
      = .ok (poolOf u w strings, ⟨B, tail, p + 20 + 4 * strings.length + (poolBody u w strings).length⟩) := by
  have hoff : ∀ v ∈ poolOffsets u w strings 0, v < 2 ^ 32 := by
    intro v hv
    have := poolOffsets_le u w strings 0 v hv
    have : (poolData u w strings).length ≤ (poolBody u w strings).length := by simp [poolBody]
    omega
  have hro := readU32s_mk B (poolOffsets u w strings 0) (p + 4 + 4 + 4 + 4 + 4) (poolBody u w strings ++ tail) hoff
  rw [poolOffsets_length] at hro
  have hfl : (if u then 0x100 else 0) < 2 ^ 32 := by cases u <;> simp
  unfold readPool
  simp only [bind, Except.bind, u32_mk B strings.length p _ (by omega), u32_mk B 0 _ _ (by omega),
    u32_mk B (if u then 0x100 else 0) _ _ hfl, u32_mk B (28 + 4 * strings.length) _ _ (by omega)]
  have hq : ((28 + 4 * strings.length : Nat) : Int) - (((0 : Nat) : Int) * 4 + 28) = 4 * (strings.length : Int) := by omega
  have hq1 : (4 * (strings.length : Int)) % 4 = 0 := by omega
  have hq2 : (4 * (strings.length : Int)) / 4 = (strings.length : Int) := by omega
  simp only [hq, hq1, hq2, true_and, if_true, Int.toNat_natCast]
  have hlen : ¬ (4 * strings.length > ((poolOffsets u w strings 0).flatMap w32 ++ (poolBody u w strings ++ tail)).length) := by
    rw [List.length_append, flatMap_w32_length, poolOffsets_length]; omega
  simp only [hlen, if_false, hro]
  have hsk : skipU32s 0 ⟨B, poolBody u w strings ++ tail, p + 4 + 4 + 4 + 4 + 4 + 4 * strings.length⟩
      = .ok ⟨B, poolBody u w strings ++ tail, p + 4 + 4 + 4 + 4 + 4 + 4 * strings.length⟩ := by
    simp [skipU32s, Cur.read]
  simp only [hsk]
  have hsize : ((h.size : Int) - ((28 + 4 * strings.length : Nat) : Int)) = ((poolBody u w strings).length : Int) := by omega
  simp only [ne_eq, not_true_eq_false, and_false, if_false, hsize, Int.toNat_natCast,
    read_mk B (poolBody u w strings) _ tail]
  have hneg : ¬ (((poolBody u w strings).length : Int) < 0) := by omega
  simp only [hneg, if_false, poolOf]
  cases u <;> simp [UTF8_FLAG] <;> omega

theorem encodePool_length (u w : Bool) (strings : List Str) :
    (encodePool u w strings).length = 28 + 4 * strings.length + (poolBody u w strings).length := by
  simp only [encodePool, List.length_append, w16_length, w32_length, flatMap_w32_length, poolOffsets_length]; omega

/-- `StringBlock(buff, ARSCHeader(buff, RES_STRING_POOL_TYPE))` on an encoded pool chunk anywhere in a buffer -/
theorem parse_pool (B : Bytes) (p : Nat) (u w : Bool) (strings : List Str) (tail : Bytes)
    (hsz : (encodePool u w strings).length < 2 ^ 32) (hB : p + 8 ≤ B.length) :
    ∃ h c0, readHdr ⟨B, encodePool u w strings ++ tail, p⟩ (some RES_STRING_POOL_TYPE) = .ok (h, c0) ∧
      h.hs = POOL_HEADER_SIZE ∧ h.size = (encodePool u w strings).length ∧
      readPool h c0 = .ok (poolOf u w strings, ⟨B, tail, p + (encodePool u w strings).length⟩) := by
  have hl := encodePool_length u w strings
  rw [hl] at hsz
  refine ⟨⟨p, 1, 28, 28 + 4 * strings.length + (poolBody u w strings).length⟩,
    ⟨B, w32 strings.length ++ (w32 0 ++ (w32 (if u then 0x100 else 0) ++ (w32 (28 + 4 * strings.length) ++ (w32 0
      ++ ((poolOffsets u w strings 0).flatMap w32 ++ (poolBody u w strings ++ tail)))))), p + 8⟩, ?_, rfl, hl.symm, ?_⟩
  · simp only [encodePool, List.append_assoc]
    exact readHdr_mk B p 1 28 _ _ _ hB (by omega) (by omega) hsz (by omega) (by omega) (by simp [RES_STRING_POOL_TYPE])
  · have := readPool_mk B (p + 8) u w strings tail ⟨p, 1, 28, 28 + 4 * strings.length + (poolBody u w strings).length⟩ rfl hsz
    rw [this, hl]
    congr 3; omega

end AgVerif.Proof.Axml
