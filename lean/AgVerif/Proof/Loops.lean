/-
Lemmas for C35: every modelled loop makes progress in every iteration, hence is never `stuck`
and runs at most (bytes left) + 1 iterations.  Core Lean only.
-/
import AgVerif.Model.Loops
namespace AgVerif.Loops
open AgVerif.Gen.Loops

/-! ### the generic loop -/

/-- If every continuing iteration moves the position forward, the loop is never stuck and the number
    of iterations is at most the distance to the limit. -/
theorem run_bound {σ ρ : Type} (body : Nat → σ → Iter σ ρ) (limit : Nat)
    (hprog : ∀ pos st p st', pos < limit → body pos st = .next p st' → pos < p) :
    ∀ (m pos : Nat) (st : σ) (n : Nat), limit - pos ≤ m →
      (run body limit pos st n).isStuck = false ∧ (run body limit pos st n).steps ≤ n + (limit - pos) := by
  intro m
  induction m with
  | zero =>
    intro pos st n hm
    rw [run]
    have : ¬ pos < limit := by omega
    simp [this, Outcome.isStuck, Outcome.steps]
  | succ m ih =>
    intro pos st n hm
    rw [run]
    by_cases h : pos < limit
    · simp only [h, dite_true]
      cases hb : body pos st with
      | stop r => simp [Outcome.isStuck, Outcome.steps]; omega
      | next p st' =>
        have hp := hprog pos st p st' h hb
        simp only [hp, dite_true]
        have := ih p st' (n + 1) (by omega)
        refine ⟨this.1, ?_⟩
        have := this.2
        omega
    · simp [h, Outcome.isStuck, Outcome.steps]

/-- sharper: with progress of at least `k` bytes per iteration, `k · (iterations − 1) ≤ bytes left` -/
theorem run_bound_k {σ ρ : Type} (body : Nat → σ → Iter σ ρ) (limit k : Nat)
    (hprog : ∀ pos st p st', pos < limit → body pos st = .next p st' → pos + k ≤ p) :
    ∀ (m pos : Nat) (st : σ) (n : Nat), limit - pos ≤ m →
      k * ((run body limit pos st n).steps - n) ≤ (limit - pos) + k := by
  intro m
  induction m with
  | zero =>
    intro pos st n hm
    rw [run]
    have : ¬ pos < limit := by omega
    simp [this, Outcome.steps]
  | succ m ih =>
    intro pos st n hm
    rw [run]
    by_cases h : pos < limit
    · simp only [h, dite_true]
      cases hb : body pos st with
      | stop r => simp [Outcome.steps]
      | next p st' =>
        have hp := hprog pos st p st' h hb
        by_cases hpp : pos < p
        · simp only [hpp, dite_true]
          have := ih p st' (n + 1) (by omega)
          by_cases hpl : p < limit
          · -- k * (s - (n+1)) ≤ limit - p + k, and limit - p + k ≤ limit - pos
            have hs : (run body limit p st' (n + 1)).steps - n
                ≤ ((run body limit p st' (n + 1)).steps - (n + 1)) + 1 := by omega
            calc k * ((run body limit p st' (n + 1)).steps - n)
                ≤ k * (((run body limit p st' (n + 1)).steps - (n + 1)) + 1) := Nat.mul_le_mul_left k hs
              _ = k * ((run body limit p st' (n + 1)).steps - (n + 1)) + k := by rw [Nat.mul_succ]
              _ ≤ (limit - p + k) + k := Nat.add_le_add_right this k
              _ ≤ (limit - pos) + k := by omega
          · -- the next call leaves by the loop condition at once
            have hr : run body limit p st' (n + 1) = .cond (n + 1) p st' := by
              rw [run]; simp [hpl]
            rw [hr]
            simp only [Outcome.steps]
            have : n + 1 - n = 1 := by omega
            rw [this, Nat.mul_one]; omega
        · simp only [hpp, dite_false, Outcome.steps]
          have : n + 1 - n = 1 := by omega
          rw [this, Nat.mul_one]; omega
    · simp [h, Outcome.steps]

/-! ### ARSCHeader -/

theorem hdrSkip_spec (f : List Nat) :
    ∀ (m cur n : Nat), f.length - cur ≤ m →
      (hdrSkip f cur n).2 ≤ n + (f.length - cur) + 1 ∧
      (∀ t hs sz after, (hdrSkip f cur n).1 = .ok (t, hs, sz, after) →
         cur + 8 ≤ after ∧ after ≤ f.length) := by
  intro m
  induction m with
  | zero =>
    intro cur n hm
    rw [hdrSkip]
    have : ¬ cur + ARSC_HEADER_SIZE ≤ f.length := by simp only [ARSC_HEADER_SIZE]; omega
    simp only [this, dite_false]
    exact ⟨by omega, by intro t hs sz after h; cases h⟩
  | succ m ih =>
    intro cur n hm
    rw [hdrSkip]
    by_cases h : cur + ARSC_HEADER_SIZE ≤ f.length
    · simp only [h, dite_true]
      have h8 : cur + 8 ≤ f.length := by simpa [ARSC_HEADER_SIZE] using h
      split
      · refine ⟨by omega, ?_⟩
        intro t hs sz after he
        injection he with he
        simp only [Prod.mk.injEq, ARSC_HEADER_SIZE] at he
        omega
      · have := ih (cur + 1) (n + 1) (by omega)
        refine ⟨by have := this.1; omega, ?_⟩
        intro t hs sz after he
        have := this.2 t hs sz after he
        omega
    · simp only [h, dite_false]
      exact ⟨by omega, by intro t hs sz after h; cases h⟩

theorem arscHeader_ok (f : List Nat) (start : Nat) (h : Hdr) (hk : arscHeader f start = .ok h) :
    h.start = start ∧ start + 8 ≤ h.after ∧ h.after ≤ f.length ∧ 8 ≤ h.hsize ∧ h.hsize ≤ h.size := by
  unfold arscHeader at hk
  split at hk
  · cases hk
  · split at hk
    · cases hk
    · rename_i type hs size after hres
      have hsp := (hdrSkip_spec f (f.length - start) start 0 (Nat.le_refl _)).2 type hs size after hres
      have e8 : ARSC_HEADER_SIZE = 8 := rfl
      by_cases c1 : hs < ARSC_HEADER_SIZE
      · rw [if_pos c1] at hk; cases hk
      · rw [if_neg c1] at hk
        by_cases c2 : size < ARSC_HEADER_SIZE
        · rw [if_pos c2] at hk; cases hk
        · rw [if_neg c2] at hk
          by_cases c3 : size < hs
          · rw [if_pos c3] at hk; cases hk
          · rw [if_neg c3] at hk
            injection hk with hk
            subst hk
            exact ⟨rfl, hsp.1, hsp.2, by show 8 ≤ hs; omega, by show hs ≤ size; omega⟩

theorem arscHeader_short (f : List Nat) (start : Nat) (h : f.length < start + 8) :
    arscHeader f start = .error .parser := by
  unfold arscHeader
  simp only [ARSC_HEADER_SIZE]
  simp [h]

theorem arscHeaderSteps_le (f : List Nat) (start : Nat) :
    arscHeaderSteps f start ≤ (f.length - start) + 1 := by
  unfold arscHeaderSteps
  split
  · omega
  · have := (hdrSkip_spec f (f.length - start) start 0 (Nat.le_refl _)).1
    omega

/-! ### progress of each loop body -/

theorem doNextBody_progress (f : List Nat) (fs pos p : Nat) (st : Unit)
    (h : doNextBody f fs pos () = .next p st) : pos + 8 ≤ p := by
  unfold doNextBody at h
  split at h
  · cases h
  · split at h
    · cases h
    · cases h
    · rename_i hd hok
      have ⟨h1, h2, h3, h4, h5⟩ := arscHeader_ok f pos hd hok
      repeat' split at h
      all_goals first
        | (injection h with h _; omega)
        | cases h

theorem doNextBody_stops_at_end (f : List Nat) (fs pos : Nat) (h : f.length ≤ pos) :
    ∃ r, doNextBody f fs pos () = .stop r := by
  unfold doNextBody
  split
  · exact ⟨_, rfl⟩
  · rw [arscHeader_short f pos (by omega)]
    exact ⟨_, rfl⟩

theorem arscOuterBody_progress (f : List Nat) (outerEnd : Nat) (parse : Hdr → Bool) (pos p : Nat)
    (st : Unit) (h : arscOuterBody f outerEnd parse pos () = .next p st) : pos + 8 ≤ p := by
  unfold arscOuterBody at h
  split at h
  · cases h
  · split at h
    · cases h
    · rename_i hd hok
      have ⟨h1, h2, h3, h4, h5⟩ := arscHeader_ok f pos hd hok
      repeat' split at h
      all_goals first
        | (injection h with h _; omega)
        | cases h

theorem lebLen_pos : ∀ (k : Nat) (bs : List Nat) (n : Nat), lebLen (k + 1) bs = some n → 1 ≤ n
  | _, [], n, h => by simp [lebLen] at h
  | k, b :: bs, n, h => by
    simp only [lebLen] at h
    split at h
    · cases hl : lebLen k bs with
      | none => rw [hl] at h; simp at h
      | some v => rw [hl] at h; simp at h; omega
    · injection h with h; omega

theorem lebSkipN_ge (f : List Nat) : ∀ (k pos p : Nat), lebSkipN f k pos = some p → pos ≤ p
  | 0, pos, p, h => by simp [lebSkipN] at h; omega
  | k + 1, pos, p, h => by
    simp only [lebSkipN] at h
    split at h
    · cases h
    · rename_i q hq
      have := lebSkipN_ge f k q p h
      unfold lebSkip at hq
      cases hl : lebLen 5 (f.drop pos) with
      | none => rw [hl] at hq; simp at hq
      | some v => rw [hl] at hq; simp at hq; omega

theorem dbgBody_progress (f : List Nat) (pos op p op' : Nat)
    (h : dbgBody f pos op = .next p op') : pos + 1 ≤ p := by
  unfold dbgBody at h
  split at h
  · cases h
  · split at h
    · cases h
    · rename_i q hq
      have := lebSkipN_ge f _ pos q hq
      split at h
      · cases h
      · injection h with h _; omega

theorem hiddenBody_progress (f : List Nat) (offset ss pos p : Nat) (st st' : Int × Nat)
    (h : hiddenBody f offset ss pos st = .next p st') : pos + 4 ≤ p := by
  unfold hiddenBody at h
  repeat' split at h
  all_goals first
    | (injection h with h _; omega)
    | cases h

theorem mapListBody_progress (f : List Nat) (pos left p left' : Nat)
    (h : mapListBody f pos left = .next p left') : pos + 12 ≤ p := by
  unfold mapListBody at h
  repeat' split at h
  all_goals first
    | (injection h with h _; omega)
    | cases h

end AgVerif.Loops
