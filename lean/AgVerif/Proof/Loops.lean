/-
Lemmas for C35: every modelled loop makes progress in every iteration, hence is never `stuck`
and runs at most (bytes left) + 1 iterations.  Core Lean only.
-/
import AgVerif.Model.Loops
namespace AgVerif.Loops
open AgVerif.Gen.Loops

/-! ### the generic loop -/

/-- If every continuing iteration moves the position forward, the loop is never stuck and the number
    of iterations is at most the distance to the limit. -/
theorem run_bound {σ ρ : Type} (body : Nat → σ → Iter σ ρ) (limit : Nat)
    (hprog : ∀ pos st p st', pos < limit → body pos st = .next p st' → pos < p) :
    ∀ (m pos : Nat) (st : σ) (n : Nat), limit - pos ≤ m →
      (run body limit pos st n).isStuck = false ∧ (run body limit pos st n).steps ≤ n + (limit - pos) := by
  intro m
  induction m with
  | zero =>
    intro pos st n hm
    rw [run]
    have : ¬ pos < limit := by omega
    simp [this, Outcome.isStuck, Outcome.steps]
  | succ m ih =>
    intro pos st n hm
    rw [run]
    by_cases h : pos < limit
    · simp only [h, dite_true]
      cases hb : body pos st with
      | stop r => simp [Outcome.isStuck, Outcome.steps]; omega
      | next p st' =>
        have hp := hprog pos st p st' h hb
        simp only [hp, dite_true]
        have := ih p st' (n + 1) (by omega)
        refine ⟨this.1, ?_⟩
        have := this.2
        omega
    · simp [h, Outcome.isStuck, Outcome.steps]

/-- sharper: with progress of at least `k` bytes per iteration, `k · (iterations − 1) ≤ bytes left` -/
theorem run_bound_k {σ ρ : Type} (body : Nat → σ → Iter σ ρ) (limit k : Nat)
    (hprog : ∀ pos st p st', pos < limit → body pos st = .next p st' → pos + k ≤ p) :
    ∀ (m pos : Nat) (st : σ) (n : Nat), limit - pos ≤ m →
      k * ((run body limit pos st n).steps - n) ≤ (limit - pos) + k := by
  intro m
  induction m with
  | zero =>
    intro pos st n hm
    rw [run]
    have : ¬ pos < limit := by omega
    simp [this, Outcome.steps]
  | succ m ih =>
    intro pos st n hm
    rw [run]
    by_cases h : pos < limit
    · simp only [h, dite_true]
      cases hb : body pos st with
      | stop r => simp [Outcome.steps]
      | next p st' =>
        have hp := hprog pos st p st' h hb
        by_cases hpp : pos < p
        · simp only [hpp, dite_true]
          have := ih p st' (n + 1) (by omega)
          by_cases hpl : p < limit
          · -- k * (s - (n+1)) ≤ limit - p + k, and limit - p + k ≤ limit - pos
            have hs : (run body limit p st' (n + 1)).steps - n
                ≤ ((run body limit p st' (n + 1)).steps - (n + 1)) + 1 := by omega
            calc k * ((run body limit p st' (n + 1)).steps - n)
                ≤ k * (((run body limit p st' (n + 1)).steps - (n + 1)) + 1) := Nat.mul_le_mul_left k hs
              _ = k * ((run body limit p st' (n + 1)).steps - (n + 1)) + k := by rw [Nat.mul_succ]
              _ ≤ (limit - p + k) + k := Nat.add_le_add_right this k
              _ ≤ (limit - pos) + k := by omega
          · -- the next call leaves by the loop condition at once
            have hr : run body limit p st' (n + 1) = .cond (n + 1) p st' := by
              rw [run]; simp [hpl]
            rw [hr]
            simp only [Outcome.steps]
            have : n + 1 - n = 1 := by omega
            rw [this, Nat.mul_one]; omega
        · simp only [hpp, dite_false, Outcome.steps]
          have : n + 1 - n = 1 := by omega
          rw [this, Nat.mul_one]; omega
    · simp [h, Outcome.steps]

/-! ### ARSCHeader -/

theorem hdrSkip_spec (f : List Nat) :
    ∀ (m cur n : Nat), f.length - cur ≤ m →
      (hdrSkip f cur n).2 ≤ n + (f.length - cur) + 1 ∧
      (∀ t hs sz after, (hdrSkip f cur n).1 = .ok (t, hs, sz, after) →
         cur + 8 ≤ after ∧ after ≤ f.length) := by
  intro m
  induction m with
  | zero =>
    intro cur n hm
    rw [hdrSkip]
    have : ¬ cur + ARSC_HEADER_SIZE ≤ f.length := by simp only [ARSC_HEADER_SIZE]; omega
    simp only [this, dite_false]
    exact ⟨by omega, by intro t hs sz after h; cases h⟩
  | succ m ih =>
    intro cur n hm
    rw [hdrSkip]
    by_cases h : cur + ARSC_HEADER_SIZE ≤ f.length
    · simp only [h, dite_true]
      have h8 : cur + 8 ≤ f.length := by simpa [ARSC_HEADER_SIZE] using h
      split
      · refine ⟨by omega, ?_⟩
        intro t hs sz after he
        injection he with he
        simp only [Prod.mk.injEq, ARSC_HEADER_SIZE] at he
        omega
      · have := ih (cur + 1) (n + 1) (by omega)
        refine ⟨by have := this.1; omega, ?_⟩
        intro t hs sz after he
        have := this.2 t hs sz after he
        omega
    · simp only [h, dite_false]
      exact ⟨by omega, by intro t hs sz after h; cases h⟩

theorem arscHeader_ok (f : List Nat) (start : Nat) (h : Hdr) (hk : arscHeader f start = .ok h) :
    h.start = start ∧ start + 8 ≤ h.after ∧ h.after ≤ f.length ∧ 8 ≤ h.hsize ∧ h.hsize ≤ h.size := by
  unfold arscHeader at hk
  split at hk
  · cases hk
  · split at hk
    · cases hk
    · rename_i type hs size after hres
      have hsp := (hdrSkip_spec f (f.length - start) start 0 (Nat.le_refl _)).2 type hs size after hres
      have e8 : ARSC_HEADER_SIZE = 8 := rfl
      by_cases c1 : hs < ARSC_HEADER_SIZE
      · rw [if_pos c1] at hk; cases hk
      · rw [if_neg c1] at hk
        by_cases c2 : size < ARSC_HEADER_SIZE
        · rw [if_pos c2] at hk; cases hk
        · rw [if_neg c2] at hk
          by_cases c3 : size < hs
          · rw [if_pos c3] at hk; cases hk
          · rw [if_neg c3] at hk
            injection hk with hk
            subst hk
            exact ⟨rfl, hsp.1, hsp.2, by show 8 ≤ hs; omega, by show hs ≤ size; omega⟩

theorem arscHeader_short (f : List Nat) (start : Nat) (h : f.length < start + 8) :
    arscHeader f start = .error .parser := by
  unfold arscHeader
  simp only [ARSC_HEADER_SIZE]
  simp [h]

theorem arscHeaderSteps_le (f : List Nat) (start : Nat) :
    arscHeaderSteps f start ≤ (f.length - start) + 1 := by
  unfold arscHeaderSteps
  split
  · omega
  · have := (hdrSkip_spec f (f.length - start) start 0 (Nat.le_refl _)).1
    omega

/-! ### progress of each loop body -/

theorem doNextBody_progress (f : List Nat) (fs pos p : Nat) (st : Unit)
    (h : doNextBody f fs pos () = .next p st) : pos + 8 ≤ p := by
  unfold doNextBody at h
  split at h
  · cases h
  · split at h
    · cases h
    · cases h
    · rename_i hd hok
      have ⟨h1, h2, h3, h4, h5⟩ := arscHeader_ok f pos hd hok
      repeat' split at h
      all_goals first
        | (injection h with h _; omega)
        | cases h

theorem doNextBody_stops_at_end (f : List Nat) (fs pos : Nat) (h : f.length ≤ pos) :
    ∃ r, doNextBody f fs pos () = .stop r := by
  unfold doNextBody
  split
  · exact ⟨_, rfl⟩
  · rw [arscHeader_short f pos (by omega)]
    exact ⟨_, rfl⟩

theorem arscOuterBody_progress (f : List Nat) (outerEnd : Nat) (parse : Hdr → Bool) (pos p : Nat)
    (st : Unit) (h : arscOuterBody f outerEnd parse pos () = .next p st) : pos + 8 ≤ p := by
  unfold arscOuterBody at h
  split at h
  · cases h
  · split at h
    · cases h
    · rename_i hd hok
      have ⟨h1, h2, h3, h4, h5⟩ := arscHeader_ok f pos hd hok
      repeat' split at h
      all_goals first
        | (injection h with h _; omega)
        | cases h

theorem lebLen_pos : ∀ (k : Nat) (bs : List Nat) (n : Nat), lebLen (k + 1) bs = some n → 1 ≤ n
  | _, [], n, h => by simp [lebLen] at h
  | k, b :: bs, n, h => by
    simp only [lebLen] at h
    split at h
    · cases hl : lebLen k bs with
      | none => rw [hl] at h; simp at h
      | some v => rw [hl] at h; simp at h; omega
    · injection h with h; omega

theorem lebSkipN_ge (f : List Nat) : ∀ (k pos p : Nat), lebSkipN f k pos = some p → pos ≤ p
  | 0, pos, p, h => by simp [lebSkipN] at h; omega
  | k + 1, pos, p, h => by
    simp only [lebSkipN] at h
    split at h
    · cases h
    · rename_i q hq
      have := lebSkipN_ge f k q p h
      unfold lebSkip at hq
      cases hl : lebLen 5 (f.drop pos) with
      | none => rw [hl] at hq; simp at hq
      | some v => rw [hl] at hq; simp at hq; omega

theorem dbgBody_progress (f : List Nat) (pos op p op' : Nat)
    (h : dbgBody f pos op = .next p op') : pos + 1 ≤ p := by
  unfold dbgBody at h
  split at h
  · cases h
  · split at h
    · cases h
    · rename_i q hq
      have := lebSkipN_ge f _ pos q hq
      split at h
      · cases h
      · injection h with h _; omega

theorem hiddenBody_progress (f : List Nat) (offset ss pos p : Nat) (st st' : Int × Nat)
    (h : hiddenBody f offset ss pos st = .next p st') : pos + 4 ≤ p := by
  unfold hiddenBody at h
  repeat' split at h
  all_goals first
    | (injection h with h _; omega)
    | cases h

theorem mapListBody_progress (f : List Nat) (pos left p left' : Nat)
    (h : mapListBody f pos left = .next p left') : pos + 12 ≤ p := by
  unfold mapListBody at h
  repeat' split at h
  all_goals first
    | (injection h with h _; omega)
    | cases h

/-! ### composition: whole parsers -/

/-- bound relative to an upper bound `B` on the positions at which the body continues -/
theorem run_bound_kB {σ ρ : Type} (body : Nat → σ → Iter σ ρ) (limit k B : Nat)
    (hprog : ∀ pos st p st', pos < limit → body pos st = .next p st' → pos + k ≤ p ∧ p ≤ B) :
    ∀ (m pos : Nat) (st : σ) (n : Nat), limit - pos ≤ m →
      k * ((run body limit pos st n).steps - n) ≤ (B - pos) + k := by
  intro m
  induction m with
  | zero =>
    intro pos st n hm
    rw [run]
    have : ¬ pos < limit := by omega
    simp [this, Outcome.steps]
  | succ m ih =>
    intro pos st n hm
    rw [run]
    by_cases h : pos < limit
    · simp only [h, dite_true]
      cases hb : body pos st with
      | stop r => simp [Outcome.steps]
      | next p st' =>
        have hp := hprog pos st p st' h hb
        by_cases hpp : pos < p
        · simp only [hpp, dite_true]
          have := ih p st' (n + 1) (by omega)
          have hs : (run body limit p st' (n + 1)).steps - n
              ≤ ((run body limit p st' (n + 1)).steps - (n + 1)) + 1 := by omega
          calc k * ((run body limit p st' (n + 1)).steps - n)
              ≤ k * (((run body limit p st' (n + 1)).steps - (n + 1)) + 1) := Nat.mul_le_mul_left k hs
            _ = k * ((run body limit p st' (n + 1)).steps - (n + 1)) + k := by rw [Nat.mul_succ]
            _ ≤ (B - p + k) + k := Nat.add_le_add_right this k
            _ ≤ (B - pos) + k := by omega
        · simp only [hpp, dite_false, Outcome.steps]
          have : n + 1 - n = 1 := by omega
          rw [this, Nat.mul_one]; omega
    · simp [h, Outcome.steps]

theorem doNextBody_stop_tag (f : List Nat) (fs pos : Nat) (ev : Ev) (p : Nat)
    (h : doNextBody f fs pos () = .stop (ev, p)) (ht : isTag ev = true) : pos + 8 ≤ p := by
  unfold doNextBody at h
  split at h
  · simp only [Iter.stop.injEq, Prod.mk.injEq] at h; obtain ⟨rfl, rfl⟩ := h; simp [isTag] at ht
  · split at h
    · simp only [Iter.stop.injEq, Prod.mk.injEq] at h; obtain ⟨rfl, rfl⟩ := h; simp [isTag] at ht
    · simp only [Iter.stop.injEq, Prod.mk.injEq] at h; obtain ⟨rfl, rfl⟩ := h; simp [isTag] at ht
    · rename_i hd hok
      have ⟨h1, h2, h3, h4, h5⟩ := arscHeader_ok f pos hd hok
      repeat' split at h
      all_goals first
        | (simp only [Iter.stop.injEq, Prod.mk.injEq] at h; obtain ⟨rfl, rfl⟩ := h
           first | (simp [isTag] at ht; done) | omega)
        | cases h

/-- a `_do_next` call that ends with a tag / text event after `s` iterations leaves the position at
    least `8·s` bytes further -/
theorem doNext_exit_tag (f : List Nat) (fs : Nat) :
    ∀ (m pos n s : Nat) (ev : Ev) (p : Nat), f.length - pos ≤ m →
      run (doNextBody f fs) f.length pos () n = .exit s (ev, p) → isTag ev = true →
      pos + 8 * (s - n) ≤ p ∧ n < s := by
  intro m
  induction m with
  | zero =>
    intro pos n s ev p hm h _
    rw [run] at h
    have : ¬ pos < f.length := by omega
    simp [this] at h
  | succ m ih =>
    intro pos n s ev p hm h ht
    rw [run] at h
    by_cases hl : pos < f.length
    · simp only [hl, dite_true] at h
      cases hb : doNextBody f fs pos () with
      | stop r =>
        rw [hb] at h
        simp only [Outcome.exit.injEq] at h
        obtain ⟨rfl, rfl⟩ := h
        have := doNextBody_stop_tag f fs pos ev p hb ht
        omega
      | next q st' =>
        rw [hb] at h
        cases st'
        have hq := doNextBody_progress f fs pos q () hb
        have hpq : pos < q := by omega
        simp only [hpq, dite_true] at h
        have := ih q (n + 1) s ev p (by omega) h ht
        omega
    · simp [hl] at h

theorem doNext_steps_le (f : List Nat) (fs pos : Nat) :
    8 * (doNext f fs pos).steps ≤ (f.length - pos) + 8 := by
  have := run_bound_k (doNextBody f fs) f.length 8
    (fun p st q st' _ h => doNextBody_progress f fs p q st' h)
    (f.length - pos) pos () 0 (Nat.le_refl _)
  simpa [doNext] using this

theorem doNext_not_stuck (f : List Nat) (fs pos : Nat) : (doNext f fs pos).isStuck = false :=
  (run_bound (doNextBody f fs) f.length
    (fun p st q st' _ h => by have := doNextBody_progress f fs p q st' h; omega)
    (f.length - pos) pos () 0 (Nat.le_refl _)).1

/-- the whole document: never stuck, and `8 · (all iterations of all calls) ≤ bytes left + 16` -/
theorem axmlDoc_bound (f : List Nat) (fs : Nat) :
    ∀ (m pos acc : Nat), f.length - pos ≤ m →
      (axmlDoc f fs pos acc).2 = false ∧
      8 * (axmlDoc f fs pos acc).1 ≤ 8 * acc + (f.length - pos) + 16 := by
  intro m
  induction m with
  | zero =>
    intro pos acc hm
    have hs := doNext_steps_le f fs pos
    have hns := doNext_not_stuck f fs pos
    rw [axmlDoc]
    cases hd : doNext f fs pos with
    | exit n r =>
      obtain ⟨ev, p⟩ := r
      rw [hd] at hs; simp only [Outcome.steps] at hs
      simp only []
      by_cases ht : isTag ev = true
      · have := (doNext_exit_tag f fs (f.length - pos) pos 0 n ev p (Nat.le_refl _)
          (by simpa [doNext] using hd) ht)
        rw [if_pos ht]
        have h1 : ¬ (pos < p ∧ p < f.length) := by omega
        have h2 : ¬ p ≤ pos := by omega
        rw [dif_neg h1, if_neg h2]
        refine ⟨rfl, ?_⟩
        show 8 * (acc + n + 1) ≤ _
        omega
      · rw [if_neg ht]
        refine ⟨rfl, ?_⟩
        show 8 * (acc + n) ≤ _
        omega
    | cond n p st =>
      rw [hd] at hs; simp only [Outcome.steps] at hs
      refine ⟨rfl, ?_⟩
      show 8 * (acc + n + 1) ≤ _
      omega
    | stuck n p => rw [hd] at hns; simp [Outcome.isStuck] at hns
  | succ m ih =>
    intro pos acc hm
    have hs := doNext_steps_le f fs pos
    have hns := doNext_not_stuck f fs pos
    rw [axmlDoc]
    cases hd : doNext f fs pos with
    | exit n r =>
      obtain ⟨ev, p⟩ := r
      rw [hd] at hs; simp only [Outcome.steps] at hs
      simp only []
      by_cases ht : isTag ev = true
      · have hx := (doNext_exit_tag f fs (f.length - pos) pos 0 n ev p (Nat.le_refl _)
          (by simpa [doNext] using hd) ht)
        rw [if_pos ht]
        by_cases h1 : pos < p ∧ p < f.length
        · rw [dif_pos h1]
          have := ih p (acc + n) (by omega)
          exact ⟨this.1, by have := this.2; omega⟩
        · have h2 : ¬ p ≤ pos := by omega
          rw [dif_neg h1, if_neg h2]
          refine ⟨rfl, ?_⟩
          show 8 * (acc + n + 1) ≤ _
          omega
      · rw [if_neg ht]
        refine ⟨rfl, ?_⟩
        show 8 * (acc + n) ≤ _
        omega
    | cond n p st =>
      rw [hd] at hs; simp only [Outcome.steps] at hs
      refine ⟨rfl, ?_⟩
      show 8 * (acc + n + 1) ≤ _
      omega
    | stuck n p => rw [hd] at hns; simp [Outcome.isStuck] at hns

/-! ### ARSC: outer loop × inner loops -/

theorem arscOuterBody_next (f : List Nat) (outerEnd : Nat) (parse : Hdr → Bool) (pos p : Nat)
    (st : Unit) (h : arscOuterBody f outerEnd parse pos () = .next p st) :
    pos + 8 ≤ p ∧ p ≤ outerEnd := by
  unfold arscOuterBody at h
  split at h
  · cases h
  · split at h
    · cases h
    · rename_i hd hok
      have ⟨h1, h2, h3, h4, h5⟩ := arscHeader_ok f pos hd hok
      repeat' split at h
      all_goals first
        | (injection h with h _; omega)
        | cases h

/-- one chunk loop bounded by its own end: `8 · iterations ≤ (end − start) + 8` -/
theorem arscChunks_steps_end (f : List Nat) (e : Nat) (parse : Hdr → Bool) (pos : Nat) :
    8 * (arscChunks f e parse pos).steps ≤ (e - pos) + 8 := by
  have := run_bound_kB (arscOuterBody f e parse) (f.length + 1) 8 e
    (fun p st q st' _ h => arscOuterBody_next f e parse p q st' h)
    (f.length + 1 - pos) pos () 0 (Nat.le_refl _)
  simpa [arscChunks] using this

/-- total of an outcome of the composed loop: outer iterations + accumulated inner iterations -/
def tot : Outcome Nat Nat → Nat
  | .exit n a => n + a
  | .cond n _ a => n + a
  | .stuck n _ => n

theorem arscParseBody_next (f : List Nat) (outerEnd : Nat) (parse parseIn : Hdr → Bool)
    (extra : Hdr → Nat) (pos acc q acc' : Nat)
    (h : arscParseBody f outerEnd parse parseIn extra pos acc = .next q acc') :
    pos + 8 ≤ q ∧ q ≤ outerEnd ∧ acc ≤ acc' ∧ 8 * (acc' - acc) ≤ q - pos := by
  unfold arscParseBody at h
  split at h
  · cases h
  · split at h
    · cases h
    · rename_i hd hok
      have ⟨h1, h2, h3, h4, h5⟩ := arscHeader_ok f pos hd hok
      have hin := arscChunks_steps_end f (hd.start + hd.size) parseIn (hd.start + hd.hsize + extra hd)
      split at h
      · cases h
      · split at h
        · cases h
        · split at h
          · split at h
            all_goals first
              | (rename_i hc; rw [hc] at hin; simp only [Outcome.steps] at hin
                 injection h with hq ha; omega)
              | cases h
          · injection h with hq ha; omega

theorem arscParseBody_stop (f : List Nat) (outerEnd : Nat) (parse parseIn : Hdr → Bool)
    (extra : Hdr → Nat) (pos acc r : Nat)
    (h : arscParseBody f outerEnd parse parseIn extra pos acc = .stop r) :
    acc ≤ r ∧ 8 * (r - acc) ≤ outerEnd - pos := by
  unfold arscParseBody at h
  split at h
  · injection h with h; omega
  · split at h
    · injection h with h; omega
    · rename_i hd hok
      have ⟨h1, h2, h3, h4, h5⟩ := arscHeader_ok f pos hd hok
      have hin := arscChunks_steps_end f (hd.start + hd.size) parseIn (hd.start + hd.hsize + extra hd)
      split at h
      · injection h with h; omega
      · split at h
        · injection h with h; omega
        · split at h
          · split at h
            all_goals first
              | (rename_i hc; rw [hc] at hin; simp only [Outcome.steps] at hin
                 injection h with h; omega)
              | cases h
          · cases h

theorem arscParse_run_bound (f : List Nat) (outerEnd : Nat) (parse parseIn : Hdr → Bool)
    (extra : Hdr → Nat) :
    ∀ (m pos acc n : Nat), f.length + 1 - pos ≤ m →
      (run (arscParseBody f outerEnd parse parseIn extra) (f.length + 1) pos acc n).isStuck = false ∧
      8 * tot (run (arscParseBody f outerEnd parse parseIn extra) (f.length + 1) pos acc n)
        ≤ 8 * (n + acc) + 2 * (outerEnd - pos) + 16 := by
  intro m
  induction m with
  | zero =>
    intro pos acc n hm
    rw [run]
    have : ¬ pos < f.length + 1 := by omega
    simp only [this, dite_false, Outcome.isStuck, tot]
    exact ⟨trivial, by omega⟩
  | succ m ih =>
    intro pos acc n hm
    rw [run]
    by_cases hl : pos < f.length + 1
    · simp only [hl, dite_true]
      cases hb : arscParseBody f outerEnd parse parseIn extra pos acc with
      | stop r =>
        have := arscParseBody_stop f outerEnd parse parseIn extra pos acc r hb
        simp only [Outcome.isStuck, tot]
        exact ⟨trivial, by omega⟩
      | next q acc' =>
        have hn := arscParseBody_next f outerEnd parse parseIn extra pos acc q acc' hb
        have hpq : pos < q := by omega
        simp only [hpq, dite_true]
        have := ih q acc' (n + 1) (by omega)
        exact ⟨this.1, by have := this.2; omega⟩
    · simp only [hl, dite_false, Outcome.isStuck, tot]
      exact ⟨trivial, by omega⟩

theorem arscParse_bound (f : List Nat) (outerEnd : Nat) (parse parseIn : Hdr → Bool)
    (extra : Hdr → Nat) (pos : Nat) :
    (arscParse f outerEnd parse parseIn extra pos).2 = false ∧
    8 * (arscParse f outerEnd parse parseIn extra pos).1 ≤ 2 * (outerEnd - pos) + 16 := by
  have := arscParse_run_bound f outerEnd parse parseIn extra (f.length + 1 - pos) pos 0 0 (Nat.le_refl _)
  unfold arscParse
  cases hr : run (arscParseBody f outerEnd parse parseIn extra) (f.length + 1) pos 0 0 with
  | exit n a => rw [hr] at this; simp only [tot] at this; exact ⟨rfl, by show 8 * (n + a) ≤ _; omega⟩
  | cond n p a => rw [hr] at this; simp only [tot] at this; exact ⟨rfl, by show 8 * (n + a) ≤ _; omega⟩
  | stuck n p => rw [hr] at this; simp [Outcome.isStuck] at this

end AgVerif.Loops
