/-
The definitions generated from the Python source by gen/py2lean.py (AgVerif.Gen.PyLeb) equal
the hand-written model AgVerif.Leb that the C03 property theorems are about.
-/
import AgVerif.Gen.PyLeb
import AgVerif.Model.Leb
import AgVerif.Proof.PyInt
import AgVerif.Proof.Leb
set_option linter.unusedSimpArgs false
namespace AgVerif.PyLeb
open AgVerif.Leb AgVerif.Py AgVerif.Gen.PyLeb

/-- canonical form of a reader result of the hand model: the value as a Python int and the
    bytes that remain -/
def rd {α : Type} (cast : α → Int) (bs : List Nat) : Option (α × Nat) → Option (Int × List Nat)
  | none => none
  | some (v, n) => some (cast v, bs.drop n)

theorem gen_readuleb128_eq (bs : List Nat) :
    readuleb128 bs = rd (fun v : Nat => (v : Int)) bs (readUleb bs) := by
  match bs with
  | [] => rfl
  | [b0] =>
    simp only [readuleb128, readUleb, getByte, band_cast_lit, bor_cast, shl_cast, gt_cast_lit]
    by_cases h0 : b0 > 127 <;> simp [h0, rd]
  | [b0, b1] =>
    simp only [readuleb128, readUleb, getByte, band_cast_lit, bor_cast, shl_cast, gt_cast_lit]
    by_cases h0 : b0 > 127 <;> by_cases h1 : b1 > 127 <;> simp [h0, h1, rd]
  | [b0, b1, b2] =>
    simp only [readuleb128, readUleb, getByte, band_cast_lit, bor_cast, shl_cast, gt_cast_lit]
    by_cases h0 : b0 > 127 <;> by_cases h1 : b1 > 127 <;> by_cases h2 : b2 > 127 <;>
      simp [h0, h1, h2, rd]
  | [b0, b1, b2, b3] =>
    simp only [readuleb128, readUleb, getByte, band_cast_lit, bor_cast, shl_cast, gt_cast_lit]
    by_cases h0 : b0 > 127 <;> by_cases h1 : b1 > 127 <;> by_cases h2 : b2 > 127 <;>
      by_cases h3 : b3 > 127 <;> simp [h0, h1, h2, h3, rd]
  | b0 :: b1 :: b2 :: b3 :: b4 :: r =>
    simp only [readuleb128, readUleb, getByte, band_cast_lit, bor_cast, shl_cast, gt_cast_lit]
    by_cases h0 : b0 > 127 <;> by_cases h1 : b1 > 127 <;> by_cases h2 : b2 > 127 <;>
      by_cases h3 : b3 > 127 <;> simp [h0, h1, h2, h3, rd]

theorem gen_readuleb128p1_eq (bs : List Nat) :
    readuleb128p1 bs = rd id bs (readUlebP1 bs) := by
  simp only [readuleb128p1, readUlebP1, gen_readuleb128_eq]
  cases readUleb bs with
  | none => rfl
  | some p => rfl

theorem gen_readsleb128_eq (bs : List Nat) :
    readsleb128 bs = rd id bs (readSleb bs) := by
  match bs with
  | [] => rfl
  | [b0] =>
    simp only [readsleb128, readSleb, readSlebLoop, slebFix, getByte]
    simp [-Int.natCast_shiftLeft, Int.max_def, band_cast_lit, band_lit_cast, bor_cast, bor_lit_cast,
      shl_cast, shr_eq, gt_cast_lit, ne_cast_lit, rd]
    by_cases h0 : b0 &&& 128 = 0 <;>
      simp [-Int.natCast_shiftLeft, h0, rd] <;>
      (try (split <;> simp_all [-Int.natCast_shiftLeft]))
  | [b0, b1] =>
    simp only [readsleb128, readSleb, readSlebLoop, slebFix, getByte]
    simp [-Int.natCast_shiftLeft, Int.max_def, band_cast_lit, band_lit_cast, bor_cast, bor_lit_cast,
      shl_cast, shr_eq, gt_cast_lit, ne_cast_lit, rd]
    by_cases h0 : b0 &&& 128 = 0 <;> by_cases h1 : b1 &&& 128 = 0 <;>
      simp [-Int.natCast_shiftLeft, h0, h1, rd] <;>
      (try (split <;> simp_all [-Int.natCast_shiftLeft]))
  | [b0, b1, b2] =>
    simp only [readsleb128, readSleb, readSlebLoop, slebFix, getByte]
    simp [-Int.natCast_shiftLeft, Int.max_def, band_cast_lit, band_lit_cast, bor_cast, bor_lit_cast,
      shl_cast, shr_eq, gt_cast_lit, ne_cast_lit, rd]
    by_cases h0 : b0 &&& 128 = 0 <;> by_cases h1 : b1 &&& 128 = 0 <;> by_cases h2 : b2 &&& 128 = 0 <;>
      simp [-Int.natCast_shiftLeft, h0, h1, h2, rd] <;>
      (try (split <;> simp_all [-Int.natCast_shiftLeft]))
  | [b0, b1, b2, b3] =>
    simp only [readsleb128, readSleb, readSlebLoop, slebFix, getByte]
    simp [-Int.natCast_shiftLeft, Int.max_def, band_cast_lit, band_lit_cast, bor_cast, bor_lit_cast,
      shl_cast, shr_eq, gt_cast_lit, ne_cast_lit, rd]
    by_cases h0 : b0 &&& 128 = 0 <;> by_cases h1 : b1 &&& 128 = 0 <;> by_cases h2 : b2 &&& 128 = 0 <;> by_cases h3 : b3 &&& 128 = 0 <;>
      simp [-Int.natCast_shiftLeft, h0, h1, h2, h3, rd] <;>
      (try (split <;> simp_all [-Int.natCast_shiftLeft]))
  | b0 :: b1 :: b2 :: b3 :: b4 :: r =>
    simp only [readsleb128, readSleb, readSlebLoop, slebFix, getByte]
    simp [-Int.natCast_shiftLeft, Int.max_def, band_cast_lit, band_lit_cast, bor_cast, bor_lit_cast,
      shl_cast, shr_eq, gt_cast_lit, ne_cast_lit, rd]
    by_cases h0 : b0 &&& 128 = 0 <;> by_cases h1 : b1 &&& 128 = 0 <;> by_cases h2 : b2 &&& 128 = 0 <;> by_cases h3 : b3 &&& 128 = 0 <;> by_cases h4 : b4 &&& 128 = 0 <;>
      simp [-Int.natCast_shiftLeft, h0, h1, h2, h3, h4, rd] <;>
      (try (split <;> simp_all [-Int.natCast_shiftLeft]))

/-- canonical form of a writer result of the hand model: the bytes as Python ints -/
def wr : Option (List Nat) → Option (List Int)
  | none => none
  | some l => some (l.map (fun b : Nat => (b : Int)))

theorem packBOk_cast (m : Nat) (h : m < 256) : packBOk (m : Int) = true := by
  simp [packBOk]; omega

theorem writeuleb128_while1_eq (fuel : Nat) : ∀ (n : Nat) (buff : List Int), n >>> 7 < fuel →
    writeuleb128_while1 fuel (n : Int) ((n >>> 7 : Nat) : Int) buff
      = some (buff ++ (writeUlebNat n).map (fun b : Nat => (b : Int))) := by
  induction fuel with
  | zero => intro n buff h; omega
  | succ fuel ih =>
    intro n buff h
    have hm : n &&& 127 < 128 := by rw [Bits.and_7F]; omega
    unfold writeuleb128_while1
    simp only [band_cast_lit, bor_cast_lit, shr_cast, gt_cast_lit]
    by_cases hr : n >>> 7 > 0
    · have hlt : (n >>> 7) >>> 7 < fuel := by
        simp only [Nat.shiftRight_eq_div_pow] at *; omega
      have hb : (n &&& 127 ||| 128) < 256 := by rw [or_80 _ hm]; omega
      rw [writeUlebNat, dif_pos hr]
      simp [-Int.natCast_shiftRight, hr, packBOk_cast _ hb, ih (n >>> 7) _ hlt]
    · have hb : (n &&& 127) < 256 := by omega
      rw [writeUlebNat, dif_neg hr]
      simp [hr, packBOk_cast _ hb]

theorem gen_writeuleb128_eq (value : Int) : writeuleb128 value = wr (writeUleb value) := by
  unfold writeuleb128 writeUleb
  by_cases hneg : value < 0
  · simp [hneg, wr]
  · obtain ⟨n, rfl⟩ := Int.eq_ofNat_of_zero_le (by omega : 0 ≤ value)
    have hlt : n >>> 7 < n + 1 := by simp only [Nat.shiftRight_eq_div_pow]; omega
    simp [-Int.natCast_shiftRight, hneg, wr, shr_cast, writeuleb128_while1_eq (n + 1) n [] hlt]

theorem decide_ne_bne (a b : Int) : decide (a ≠ b) = (a != b) := by
  by_cases h : a = b <;> simp [h]

theorem writesleb128_while1_eq (fuel : Nat) : ∀ (value remaining : Int) (buff : List Int) (e : Int),
    writesleb128_while1 (fuel + 1) value remaining true buff e
      = (match writeSlebLoop fuel value remaining e with
         | none => none
         | some l => some (buff ++ l.map (fun b : Nat => (b : Int)))) := by
  induction fuel with
  | zero =>
    intro value remaining buff e
    simp [writesleb128_while1, writeSlebLoop]
  | succ fuel ih =>
    intro value remaining buff e
    obtain ⟨m, hc, hm⟩ : ∃ m : Nat, value % 128 = (m : Int) ∧ m < 128 :=
      ⟨(value % 128).toNat, by omega, by omega⟩
    rw [writesleb128_while1, writeSlebLoop]
    simp only [band_7F, band_1, shr_eq]
    rw [hc]
    simp only [bor_cast_lit, Int.toNat_natCast]
    have e1 : (decide (remaining ≠ e) || decide (remaining % 2 ≠ value / 2 ^ 6 % 2))
        = (remaining != e || remaining % 2 != value / 64 % 2) := by
      have : (2 : Int) ^ 6 = 64 := by decide
      rw [this]
      simp only [decide_ne_bne]
    have hb1 : (m ||| 128) < 256 := by rw [or_80 _ hm]; omega
    have e2 : remaining / 2 ^ 7 = remaining / 128 := by
      have : (2 : Int) ^ 7 = 128 := by decide
      rw [this]
    rw [e1, e2]
    generalize (remaining != e || remaining % 2 != value / 64 % 2) = hM
    cases hM
    · simp [packBOk_cast m (by omega), writesleb128_while1]
    · simp [packBOk_cast _ hb1, ih]
      cases writeSlebLoop fuel remaining (remaining / 128) e <;> simp

theorem band_minInt64' (x : Int) :
    band x (-9223372036854775808) = 0 ↔ (0 ≤ x ∧ x < 9223372036854775808) := by
  have := band_minInt64_eq_zero x
  simpa using this

theorem gen_writesleb128_eq (value : Int) : writesleb128 value = wr (writeSleb value) := by
  unfold writesleb128 writeSleb
  have e2 : value / 2 ^ 7 = value / 128 := by
    have : (2 : Int) ^ 7 = 128 := by decide
    rw [this]
  simp only [shr_eq, e2]
  by_cases h : 0 ≤ value ∧ value < 9223372036854775808
  · have hb := (band_minInt64' value).2 h
    simp [h, hb, writesleb128_while1_eq, wr]
  · have hb : ¬ band value (-9223372036854775808) = 0 := fun hh => h ((band_minInt64' value).1 hh)
    simp [h, hb, writesleb128_while1_eq, wr]

end AgVerif.PyLeb
