/-
The definitions generated from the Python source by gen/py2lean.py (AgVerif.Gen.PyLeb) equal
the hand-written model AgVerif.Leb that the C03 property theorems are about.

The proofs are written to survive behaviour-preserving rewrites of the source: generated definitions
(helpers included) are unfolded through the simp set `pygen` instead of by name, every comparison of a
byte is decided by `omega` from a case split on the byte, and both sides are brought to ARITHMETIC normal
form (`x & 0x7F` = `x % 128`, `x << k` = `x * 2^k`, `a | b` = `a + b` when `a < 2^k ∣ b`), so operand
order, `|=` against `= … |`, hoisted constants, renamed locals and inlined/outlined helpers do not matter.
-/
import AgVerif.Gen.PyLeb
import AgVerif.Model.Leb
import AgVerif.Proof.PyArith
import AgVerif.Proof.Leb
set_option linter.unusedSimpArgs false
namespace AgVerif.PyLeb
open AgVerif.Leb AgVerif.Py AgVerif.Gen.PyLeb

/-- canonical form of a reader result of the hand model: the value as a Python int and the
    bytes that remain -/
def rd {α : Type} (cast : α → Int) (bs : List Nat) : Option (α × Nat) → Option (Int × List Nat)
  | none => none
  | some (v, n) => some (cast v, bs.drop n)

/-! ### arithmetic normal form -/

theorem nat_or_add (a b k : Nat) (ha : a < 2 ^ k) (hb : b % 2 ^ k = 0) : a ||| b = a + b := by
  have e : b = 2 ^ k * (b / 2 ^ k) := by have := Nat.div_add_mod b (2 ^ k); omega
  rw [e, Nat.or_comm, ← Nat.two_pow_add_eq_or_of_lt ha]; omega
theorem nat_or_add' (a b k : Nat) (ha : a < 2 ^ k) (hb : b % 2 ^ k = 0) : b ||| a = b + a := by
  rw [Nat.or_comm, nat_or_add a b k ha hb]; omega

theorem or7 (a b : Nat) (ha : a < 128) (hb : b % 128 = 0) : a ||| b = a + b := nat_or_add a b 7 ha hb
theorem or7' (a b : Nat) (ha : a < 128) (hb : b % 128 = 0) : b ||| a = b + a := nat_or_add' a b 7 ha hb
theorem or14 (a b : Nat) (ha : a < 16384) (hb : b % 16384 = 0) : a ||| b = a + b := nat_or_add a b 14 ha hb
theorem or14' (a b : Nat) (ha : a < 16384) (hb : b % 16384 = 0) : b ||| a = b + a := nat_or_add' a b 14 ha hb
theorem or21 (a b : Nat) (ha : a < 2097152) (hb : b % 2097152 = 0) : a ||| b = a + b := nat_or_add a b 21 ha hb
theorem or21' (a b : Nat) (ha : a < 2097152) (hb : b % 2097152 = 0) : b ||| a = b + a := nat_or_add' a b 21 ha hb
theorem or28 (a b : Nat) (ha : a < 268435456) (hb : b % 268435456 = 0) : a ||| b = a + b := nat_or_add a b 28 ha hb
theorem or28' (a b : Nat) (ha : a < 268435456) (hb : b % 268435456 = 0) : b ||| a = b + a := nat_or_add' a b 28 ha hb

theorem and7F (x : Nat) : x &&& 127 = x % 128 := Bits.and_7F x
theorem and7F' (x : Nat) : 127 &&& x = x % 128 := by rw [Nat.and_comm]; exact Bits.and_7F x
theorem andM31 (x : Nat) : x &&& 2147483647 = x % 2147483648 := by
  have := Nat.and_two_pow_sub_one_eq_mod x 31; simpa using this
theorem andM31' (x : Nat) : 2147483647 &&& x = x % 2147483648 := by rw [Nat.and_comm]; exact andM31 x
theorem shl_mul (x k : Nat) : x <<< k = x * 2 ^ k := Nat.shiftLeft_eq x k
theorem zero_or (x : Nat) : 0 ||| x = x := Nat.zero_or x
theorem or_zero (x : Nat) : x ||| 0 = x := Nat.or_zero x

theorem le_cast_lit (a n : Nat) : ((a : Int) ≤ (no_index (OfNat.ofNat n) : Int)) ↔ a ≤ n := by
  show ((a : Int) ≤ ((n : Nat) : Int)) ↔ _
  omega
theorem lt_cast_lit (a n : Nat) : ((a : Int) < (no_index (OfNat.ofNat n) : Int)) ↔ a < n := by
  show ((a : Int) < ((n : Nat) : Int)) ↔ _
  omega
theorem ge_cast_lit (a n : Nat) : ((a : Int) ≥ (no_index (OfNat.ofNat n) : Int)) ↔ a ≥ n := by
  show ((a : Int) ≥ ((n : Nat) : Int)) ↔ _
  omega
theorem eq_cast_lit (a n : Nat) : ((a : Int) = (no_index (OfNat.ofNat n) : Int)) ↔ a = n := by
  show ((a : Int) = ((n : Nat) : Int)) ↔ _
  omega

/-- unfold what was generated and bring it to arithmetic; `omega` decides the tests -/
macro "gen_norm" : tactic => `(tactic|
  simp (disch := omega) [pygen, getByte, rd, Spec.Leb.payload, -Int.natCast_shiftLeft, -Int.natCast_shiftRight,
    Int.max_def, band_7F, band_7F', band_M31, band_M31', shl_eq, shr_eq,
    borA7, borB7, borA14, borB14, borA21, borB21, borA28, borB28, bor_zero, zero_bor,
    if_pos, if_neg])

theorem readUleb_trunc1 (b0 : Nat) (h0 : 128 ≤ b0) : readUleb [b0] = none := by
  have : b0 > 0x7F := by omega
  simp [readUleb, this]
theorem readUleb_trunc2 (b0 b1 : Nat) (h0 : 128 ≤ b0) (h1 : 128 ≤ b1) : readUleb [b0, b1] = none := by
  have : b0 > 0x7F := by omega
  have : b1 > 0x7F := by omega
  simp [readUleb, *]
theorem readUleb_trunc3 (b0 b1 b2 : Nat) (h0 : 128 ≤ b0) (h1 : 128 ≤ b1) (h2 : 128 ≤ b2) :
    readUleb [b0, b1, b2] = none := by
  have : b0 > 0x7F := by omega
  have : b1 > 0x7F := by omega
  have : b2 > 0x7F := by omega
  simp [readUleb, *]
theorem readUleb_trunc4 (b0 b1 b2 b3 : Nat) (h0 : 128 ≤ b0) (h1 : 128 ≤ b1) (h2 : 128 ≤ b2) (h3 : 128 ≤ b3) :
    readUleb [b0, b1, b2, b3] = none := by
  have : b0 > 0x7F := by omega
  have : b1 > 0x7F := by omega
  have : b2 > 0x7F := by omega
  have : b3 > 0x7F := by omega
  simp [readUleb, *]

set_option maxHeartbeats 1000000 in
theorem gen_readuleb128_eq (bs : List Nat) :
    readuleb128 bs = rd (fun v : Nat => (v : Int)) bs (readUleb bs) := by
  match bs with
  | [] => simp [pygen, getByte, rd, readUleb]
  | b0 :: r0 =>
    by_cases h0 : b0 < 128
    · rw [readUleb_1 b0 r0 h0]; gen_norm <;> omega
    · match r0 with
      | [] => rw [readUleb_trunc1 b0 (by omega)]; gen_norm
      | b1 :: r1 =>
        by_cases h1 : b1 < 128
        · rw [readUleb_2 b0 b1 r1 (by omega) h1]; gen_norm <;> omega
        · match r1 with
          | [] => rw [readUleb_trunc2 b0 b1 (by omega) (by omega)]; gen_norm
          | b2 :: r2 =>
            by_cases h2 : b2 < 128
            · rw [readUleb_3 b0 b1 b2 r2 (by omega) (by omega) h2]; gen_norm <;> omega
            · match r2 with
              | [] => rw [readUleb_trunc3 b0 b1 b2 (by omega) (by omega) (by omega)]; gen_norm
              | b3 :: r3 =>
                by_cases h3 : b3 < 128
                · rw [readUleb_4 b0 b1 b2 b3 r3 (by omega) (by omega) (by omega) h3]; gen_norm <;> omega
                · match r3 with
                  | [] => rw [readUleb_trunc4 b0 b1 b2 b3 (by omega) (by omega) (by omega) (by omega)]; gen_norm
                  | b4 :: r4 =>
                    rw [readUleb_5_raw b0 b1 b2 b3 b4 r4 (by omega) (by omega) (by omega) (by omega)]
                    gen_norm <;> omega

theorem gen_readuleb128p1_eq (bs : List Nat) :
    readuleb128p1 bs = rd id bs (readUlebP1 bs) := by
  have h := gen_readuleb128_eq bs
  simp only [readuleb128p1, readUlebP1, h]
  cases readUleb bs with
  | none => rfl
  | some p => rfl

theorem gen_readsleb128_eq (bs : List Nat) :
    readsleb128 bs = rd id bs (readSleb bs) := by
  match bs with
  | [] => simp [pygen, getByte, rd, readSleb, readSlebLoop]
  | [b0] =>
    simp only [pygen, readSleb, readSlebLoop, slebFix, getByte]
    simp [-Int.natCast_shiftLeft, Int.max_def, band_cast_lit, band_lit_cast, bor_cast, bor_lit_cast, bor_cast_lit,
      shl_cast, shr_eq, gt_cast_lit, ne_cast_lit, eq_cast_lit, le_cast_lit, andM31, andM31', rd]
    by_cases h0 : b0 &&& 128 = 0 <;>
      simp [-Int.natCast_shiftLeft, h0, rd] <;>
      (try (split <;> simp_all [-Int.natCast_shiftLeft])) <;>
      (try (rename_i hq; split at hq <;> simp_all [-Int.natCast_shiftLeft]))
  | [b0, b1] =>
    simp only [pygen, readSleb, readSlebLoop, slebFix, getByte]
    simp [-Int.natCast_shiftLeft, Int.max_def, band_cast_lit, band_lit_cast, bor_cast, bor_lit_cast, bor_cast_lit,
      shl_cast, shr_eq, gt_cast_lit, ne_cast_lit, eq_cast_lit, le_cast_lit, andM31, andM31', rd]
    by_cases h0 : b0 &&& 128 = 0 <;> by_cases h1 : b1 &&& 128 = 0 <;>
      simp [-Int.natCast_shiftLeft, h0, h1, rd] <;>
      (try (split <;> simp_all [-Int.natCast_shiftLeft])) <;>
      (try (rename_i hq; split at hq <;> simp_all [-Int.natCast_shiftLeft]))
  | [b0, b1, b2] =>
    simp only [pygen, readSleb, readSlebLoop, slebFix, getByte]
    simp [-Int.natCast_shiftLeft, Int.max_def, band_cast_lit, band_lit_cast, bor_cast, bor_lit_cast, bor_cast_lit,
      shl_cast, shr_eq, gt_cast_lit, ne_cast_lit, eq_cast_lit, le_cast_lit, andM31, andM31', rd]
    by_cases h0 : b0 &&& 128 = 0 <;> by_cases h1 : b1 &&& 128 = 0 <;> by_cases h2 : b2 &&& 128 = 0 <;>
      simp [-Int.natCast_shiftLeft, h0, h1, h2, rd] <;>
      (try (split <;> simp_all [-Int.natCast_shiftLeft])) <;>
      (try (rename_i hq; split at hq <;> simp_all [-Int.natCast_shiftLeft]))
  | [b0, b1, b2, b3] =>
    simp only [pygen, readSleb, readSlebLoop, slebFix, getByte]
    simp [-Int.natCast_shiftLeft, Int.max_def, band_cast_lit, band_lit_cast, bor_cast, bor_lit_cast, bor_cast_lit,
      shl_cast, shr_eq, gt_cast_lit, ne_cast_lit, eq_cast_lit, le_cast_lit, andM31, andM31', rd]
    by_cases h0 : b0 &&& 128 = 0 <;> by_cases h1 : b1 &&& 128 = 0 <;> by_cases h2 : b2 &&& 128 = 0 <;> by_cases h3 : b3 &&& 128 = 0 <;>
      simp [-Int.natCast_shiftLeft, h0, h1, h2, h3, rd] <;>
      (try (split <;> simp_all [-Int.natCast_shiftLeft])) <;>
      (try (rename_i hq; split at hq <;> simp_all [-Int.natCast_shiftLeft]))
  | b0 :: b1 :: b2 :: b3 :: b4 :: r =>
    simp only [pygen, readSleb, readSlebLoop, slebFix, getByte]
    simp [-Int.natCast_shiftLeft, Int.max_def, band_cast_lit, band_lit_cast, bor_cast, bor_lit_cast, bor_cast_lit,
      shl_cast, shr_eq, gt_cast_lit, ne_cast_lit, eq_cast_lit, le_cast_lit, andM31, andM31', rd]
    by_cases h0 : b0 &&& 128 = 0 <;> by_cases h1 : b1 &&& 128 = 0 <;> by_cases h2 : b2 &&& 128 = 0 <;> by_cases h3 : b3 &&& 128 = 0 <;> by_cases h4 : b4 &&& 128 = 0 <;>
      simp [-Int.natCast_shiftLeft, h0, h1, h2, h3, h4, rd] <;>
      (try (split <;> simp_all [-Int.natCast_shiftLeft])) <;>
      (try (rename_i hq; split at hq <;> simp_all [-Int.natCast_shiftLeft]))

/-- canonical form of a writer result of the hand model: the bytes as Python ints -/
def wr : Option (List Nat) → Option (List Int)
  | none => none
  | some l => some (l.map (fun b : Nat => (b : Int)))

theorem packBOk_cast (m : Nat) (h : m < 256) : packBOk (m : Int) = true := by
  simp [packBOk]; omega

theorem lit_or_80 (x : Nat) : 128 ||| x = x ||| 128 := Nat.or_comm _ _
theorem lit_and_7F (x : Nat) : 127 &&& x = x &&& 127 := Nat.and_comm _ _

theorem writeuleb128_while1_eq (fuel : Nat) : ∀ (n : Nat) (buff : List Int), n >>> 7 < fuel →
    writeuleb128_while1 fuel buff ((n >>> 7 : Nat) : Int) (n : Int)
      = some (buff ++ (writeUlebNat n).map (fun b : Nat => (b : Int))) := by
  induction fuel with
  | zero => intro n buff h; omega
  | succ fuel ih =>
    intro n buff h
    have hm : n &&& 127 < 128 := by rw [Bits.and_7F]; omega
    unfold writeuleb128_while1
    simp only [pygen, band_cast_lit, band_lit_cast, bor_cast_lit, bor_lit_cast, shr_cast, gt_cast_lit, lt_cast_lit,
      lit_or_80, lit_and_7F]
    by_cases hr : n >>> 7 > 0
    · have hlt : (n >>> 7) >>> 7 < fuel := by
        simp only [Nat.shiftRight_eq_div_pow] at *; omega
      have hb : (n &&& 127 ||| 128) < 256 := by rw [or_80 _ hm]; omega
      rw [writeUlebNat, dif_pos hr]
      simp [-Int.natCast_shiftRight, hr, packBOk_cast _ hb, ih (n >>> 7) _ hlt]
    · have hb : (n &&& 127) < 256 := by omega
      rw [writeUlebNat, dif_neg hr]
      simp [-Int.natCast_shiftRight, hr, packBOk_cast _ hb]

theorem gen_writeuleb128_eq (value : Int) : writeuleb128 value = wr (writeUleb value) := by
  unfold writeuleb128 writeUleb
  by_cases hneg : value < 0
  · simp [hneg, wr]
  · obtain ⟨n, rfl⟩ := Int.eq_ofNat_of_zero_le (by omega : 0 ≤ value)
    have hlt : n >>> 7 < n + 1 := by simp only [Nat.shiftRight_eq_div_pow]; omega
    simp [-Int.natCast_shiftRight, hneg, wr, shr_cast, writeuleb128_while1_eq (n + 1) n [] hlt]

theorem decide_ne_bne (a b : Int) : decide (a ≠ b) = (a != b) := by
  by_cases h : a = b <;> simp [h]

theorem writesleb128_while1_eq (fuel : Nat) : ∀ (value remaining : Int) (buff : List Int) (e : Int),
    writesleb128_while1 (fuel + 1) buff e true remaining value
      = (match writeSlebLoop fuel value remaining e with
         | none => none
         | some l => some (buff ++ l.map (fun b : Nat => (b : Int)))) := by
  induction fuel with
  | zero =>
    intro value remaining buff e
    simp [writesleb128_while1, writeSlebLoop]
  | succ fuel ih =>
    intro value remaining buff e
    obtain ⟨m, hc, hm⟩ : ∃ m : Nat, value % 128 = (m : Int) ∧ m < 128 :=
      ⟨(value % 128).toNat, by omega, by omega⟩
    rw [writesleb128_while1, writeSlebLoop]
    simp only [band_7F, band_7F', band_1, shr_eq]
    rw [hc]
    simp only [bor_cast_lit, bor_lit_cast, Int.toNat_natCast, lit_or_80]
    have e1 : (decide (remaining ≠ e) || decide (remaining % 2 ≠ value / 2 ^ 6 % 2))
        = (remaining != e || remaining % 2 != value / 64 % 2) := by
      have : (2 : Int) ^ 6 = 64 := by decide
      rw [this]
      simp only [decide_ne_bne]
    have hb1 : (m ||| 128) < 256 := by rw [or_80 _ hm]; omega
    have e2 : remaining / 2 ^ 7 = remaining / 128 := by
      have : (2 : Int) ^ 7 = 128 := by decide
      rw [this]
    rw [e1, e2]
    generalize (remaining != e || remaining % 2 != value / 64 % 2) = hM
    cases hM
    · simp [packBOk_cast m (by omega), writesleb128_while1, bor_cast_lit]
    · simp [packBOk_cast _ hb1, ih, bor_cast_lit]
      cases writeSlebLoop fuel remaining (remaining / 128) e <;> simp

theorem band_minInt64' (x : Int) :
    band x (-9223372036854775808) = 0 ↔ (0 ≤ x ∧ x < 9223372036854775808) := by
  have := band_minInt64_eq_zero x
  simpa using this

theorem gen_writesleb128_eq (value : Int) : writesleb128 value = wr (writeSleb value) := by
  unfold writesleb128 writeSleb
  have e2 : value / 2 ^ 7 = value / 128 := by
    have : (2 : Int) ^ 7 = 128 := by decide
    rw [this]
  simp only [shr_eq, e2]
  by_cases h : 0 ≤ value ∧ value < 9223372036854775808
  · have hb := (band_minInt64' value).2 h
    simp [h, hb, writesleb128_while1_eq, wr]
  · have hb : ¬ band value (-9223372036854775808) = 0 := fun hh => h ((band_minInt64' value).1 hh)
    simp [h, hb, writesleb128_while1_eq, wr]

end AgVerif.PyLeb
