/-
Lemmas for C24: the two get_type models against the descriptor specification.
-/
import AgVerif.Model.TypeName
import AgVerif.Spec.TypeName
namespace AgVerif.TypeName
open AgVerif.Spec.TypeName AgVerif.Gen.TypeDesc

/-! ### what the generated literals are (re-checked whenever the code's literals change) -/

theorem util_lits :
    utilHeadIdx = 0 ∧ utilHeadIdx2 = 0 ∧ utilClassTag = 'L' ∧ utilPrefix = 'L' :: "java/lang/".toList ∧ utilSep = '/'
    ∧ utilMemberFrom = ('L' :: "java/lang/".toList).length ∧ utilShortLo = ('L' :: "java/lang/".toList).length
    ∧ utilShortHiNeg = 1 ∧ utilFullLo = 1 ∧ utilFullHiNeg = 1 ∧ utilReplaceOld = '/' ∧ utilReplaceNew = '.'
    ∧ utilArrayTag = '[' ∧ utilArrFmt = "%s[]".toList ∧ utilElemFrom = 1 ∧ utilArrSizeFmt = "{}[{}]".toList := by
  decide

theorem dex_lits :
    dexHeadIdx = 0 ∧ dexHeadIdx2 = 0 ∧ dexClassTag = 'L' ∧ dexFullLo = 1 ∧ dexFullHiNeg = 1
    ∧ dexReplaceOld = '/' ∧ dexReplaceNew = '.' ∧ dexArrayTag = '[' ∧ dexArrFmt = "%s[]".toList
    ∧ dexElemFrom = 1 ∧ dexArrSizeFmt = "{}[{}]".toList := by
  decide

/-- the characters a well-formed descriptor can start with -/
def headChars : List Char := ['V', 'Z', 'B', 'S', 'C', 'I', 'J', 'F', 'D', 'L', '[']

/-- `startswith('java.lang')` is false and `lstrip('java.lang')` strips nothing when the string starts
    with one of these characters -/
theorem dex_head_facts : ∀ c ∈ headChars, c ∉ dexLstrip ∧ dexStartsWith.head? ≠ some c := by
  decide

/-- both tables map exactly the primitive descriptors to their keywords, and `V` to `void` -/
theorem util_table_prim (p : Prim) : pyGet utilTable [p.desc] = some p.keyword := by cases p <;> rfl
theorem dex_table_prim (p : Prim) : pyGet dexTable [p.desc] = some p.keyword := by cases p <;> rfl
theorem util_table_void : pyGet utilTable ['V'] = some "void".toList := by rfl
theorem dex_table_void : pyGet dexTable ['V'] = some "void".toList := by rfl
theorem util_table_keys : ∀ kv ∈ utilTable, kv.1.length = 1 := by decide
theorem dex_table_keys : ∀ kv ∈ dexTable, kv.1.length = 1 := by decide

theorem pyGet_none_of_length (tbl : List (List Char × List Char)) (k : List Char)
    (hk : ∀ kv ∈ tbl, kv.1.length = 1) (h : k.length ≠ 1) : pyGet tbl k = none := by
  unfold pyGet
  induction tbl with
  | nil => rfl
  | cons kv t ih =>
    have h1 := hk kv (by simp)
    have ht : ∀ kv ∈ t, kv.1.length = 1 := fun x hx => hk x (by simp [hx])
    obtain ⟨a, b⟩ := kv
    have hne : (k == a) = false := by
      apply beq_false_of_ne
      intro e; subst e; exact h h1
    simp only [List.lookup, hne]
    exact ih ht

/-! ### Python slices -/

theorem pyFrom_append (p r : List Char) : pyFrom (p ++ r) (p.length : Int) = r := by
  unfold pyFrom pyBound
  have h : ¬ ((p.length : Int) < 0) := by omega
  simp only [h, if_false, Int.toNat_natCast, List.length_append]
  rw [Nat.min_eq_left (by omega)]
  exact List.drop_left

theorem pyFrom_one (c : Char) (r : List Char) : pyFrom (c :: r) 1 = r := by
  have := pyFrom_append [c] r
  simpa using this

theorem pySlice_mid (p x : List Char) (e : Char) : pySlice (p ++ (x ++ [e])) (p.length : Int) (-1) = x := by
  unfold pySlice pyBound
  have h : ¬ ((p.length : Int) < 0) := by omega
  have h2 : ((-1 : Int) < 0) := by omega
  simp only [h, h2, if_false, if_true, Int.toNat_natCast, List.length_append, List.length_cons, List.length_nil]
  have e1 : Int.toNat (((p.length + (x.length + (0 + 1)) : Nat) : Int) + -1) = (p ++ x).length := by
    simp only [List.length_append]; omega
  rw [e1, Nat.min_eq_left (by omega)]
  rw [← List.append_assoc, List.take_left, List.drop_left]

theorem pySlice_one (c : Char) (x : List Char) (e : Char) : pySlice (c :: (x ++ [e])) 1 (-1) = x := by
  have := pySlice_mid [c] x e
  simpa using this

/-! ### split / join -/

theorem splitOn_append (sep : Char) (s r h : List Char) (t : List (List Char))
    (hs : sep ∉ s) (hr : splitOn sep r = h :: t) : splitOn sep (s ++ r) = (s ++ h) :: t := by
  induction s with
  | nil => simpa using hr
  | cons c s' ih =>
    have hc : c ≠ sep := fun e => hs (by simp [e])
    have hs' : sep ∉ s' := fun m => hs (by simp [m])
    simp only [List.cons_append, splitOn, hc, if_false, ih hs']

theorem splitOn_nosep (sep : Char) (s : List Char) (hs : sep ∉ s) : splitOn sep s = [s] := by
  have := splitOn_append sep s [] [] [] hs (by simp [splitOn])
  simpa using this

theorem splitOn_join (sep : Char) (segs : List (List Char)) (hne : segs ≠ [])
    (hs : ∀ s ∈ segs, sep ∉ s) : splitOn sep (joinWith sep segs) = segs := by
  induction segs with
  | nil => exact absurd rfl hne
  | cons s ss ih =>
    cases ss with
    | nil => simpa [joinWith] using splitOn_nosep sep s (hs s (by simp))
    | cons s' ss' =>
      have ih' := ih (by simp) (fun x hx => hs x (by simp [hx]))
      have h1 : splitOn sep (sep :: joinWith sep (s' :: ss')) = [] :: s' :: ss' := by
        simp [splitOn, ih']
      have := splitOn_append sep s _ _ _ (hs s (by simp)) h1
      simpa [joinWith] using this

theorem splitOn_ne_nil (sep : Char) (s : List Char) : splitOn sep s ≠ [] := by
  cases s with
  | nil => simp [splitOn]
  | cons c r =>
    simp only [splitOn]
    split
    · simp
    · split <;> simp

theorem join_splitOn (sep : Char) (s : List Char) : joinWith sep (splitOn sep s) = s := by
  induction s with
  | nil => simp [splitOn, joinWith]
  | cons c r ih =>
    by_cases hc : c = sep
    · subst hc
      simp only [splitOn, if_true]
      cases hsp : splitOn c r with
      | nil => exact absurd hsp (splitOn_ne_nil c r)
      | cons h t => rw [hsp] at ih; simp only [joinWith, List.nil_append]; rw [ih]
    · simp only [splitOn, hc, if_false]
      cases hsp : splitOn sep r with
      | nil => exact absurd hsp (splitOn_ne_nil sep r)
      | cons h t =>
        rw [hsp] at ih
        cases t with
        | nil => simp [joinWith] at ih ⊢; exact ih
        | cons h' t' => simp only [joinWith, List.cons_append] at ih ⊢; rw [ih]

theorem replace_nosep (s : List Char) (old new : Char) (h : old ∉ s) : pyReplaceChar s old new = s := by
  unfold pyReplaceChar
  induction s with
  | nil => rfl
  | cons c r ih =>
    have hc : c ≠ old := fun e => h (by simp [e])
    simp [hc, ih (fun m => h (by simp [m]))]

theorem replace_append (a b : List Char) (old new : Char) :
    pyReplaceChar (a ++ b) old new = pyReplaceChar a old new ++ pyReplaceChar b old new := by
  simp [pyReplaceChar]

theorem replace_join (segs : List (List Char)) (old new : Char) (hs : ∀ s ∈ segs, old ∉ s) :
    pyReplaceChar (joinWith old segs) old new = joinWith new segs := by
  induction segs with
  | nil => rfl
  | cons s ss ih =>
    cases ss with
    | nil => simpa [joinWith] using replace_nosep s old new (hs s (by simp))
    | cons s' ss' =>
      have ih' := ih (fun x hx => hs x (by simp [hx]))
      simp only [joinWith]
      rw [replace_append, replace_nosep s old new (hs s (by simp))]
      simp only [pyReplaceChar, List.map_cons, if_true] at ih' ⊢
      rw [ih']

/-! ### simple names contain no separator -/

theorem simpleName_nosep (s : List Char) (h : simpleName s = true) (c : Char) (hc : simpleNameChar c = false) :
    c ∉ s := by
  intro m
  simp only [simpleName, Bool.and_eq_true, List.all_eq_true] at h
  have := h.2 c m
  rw [hc] at this; exact absurd this (by simp)

theorem slash_not_name : simpleNameChar '/' = false := by decide
theorem semi_not_name : simpleNameChar ';' = false := by decide

theorem fullClassName_facts (segs : List (List Char)) (h : fullClassName segs = true) :
    segs ≠ [] ∧ (∀ s ∈ segs, simpleName s = true) := by
  simp only [fullClassName, Bool.and_eq_true, List.all_eq_true] at h
  refine ⟨?_, h.2⟩
  intro e; subst e; simp at h

theorem join_ne_nil (sep : Char) (segs : List (List Char)) (h : fullClassName segs = true) :
    joinWith sep segs ≠ [] := by
  obtain ⟨hne, hs⟩ := fullClassName_facts segs h
  cases segs with
  | nil => exact absurd rfl hne
  | cons s ss =>
    have : simpleName s = true := hs s (by simp)
    have hs0 : s ≠ [] := by
      intro e; subst e; simp [simpleName] at this
    cases ss with
    | nil => simpa [joinWith] using hs0
    | cons s' ss' => simp [joinWith, hs0]

/-! ### names -/

def JAVA : List Char := ['j', 'a', 'v', 'a']
def LANG : List Char := ['l', 'a', 'n', 'g']
def JLPREFIX : List Char := ['j', 'a', 'v', 'a', '/', 'l', 'a', 'n', 'g', '/']

theorem shortName_cls (segs : List (List Char)) (r : List Char) :
    shortName (.cls segs) = some r ↔ segs = [JAVA, LANG, r] := by
  have hj : "java".toList = JAVA := rfl
  have hl : "lang".toList = LANG := rfl
  match segs with
  | [] => simp [shortName]
  | [_] => simp [shortName]
  | [_, _] => simp [shortName]
  | [p, q, x] =>
    simp only [shortName, hj, hl]
    constructor
    · intro h
      split at h
      · rename_i hc; simp at h; subst h; rw [hc.1, hc.2]
      · simp at h
    · intro h
      simp only [List.cons.injEq, and_true] at h
      obtain ⟨h1, h2, h3⟩ := h
      subst h1 h2 h3; simp
  | _ :: _ :: _ :: _ :: _ => simp [shortName]

theorem split_java_lang (x : List Char) (h : '/' ∉ x) :
    splitOn '/' (JLPREFIX ++ x) = [JAVA, LANG, x] := by
  have hx := splitOn_nosep '/' x h
  simp [JLPREFIX, JAVA, LANG, splitOn, hx]

theorem join_java_lang (x : List Char) : joinWith '/' [JAVA, LANG, x] = JLPREFIX ++ x := by
  simp [joinWith, JAVA, LANG, JLPREFIX]

theorem canonical_short (x : List Char) : canonicalName (.cls [JAVA, LANG, x]) = x := by
  have := (shortName_cls [JAVA, LANG, x] x).2 rfl
  simp [canonicalName, this]

theorem canonical_full (segs : List (List Char)) (h : ¬ ∃ x, segs = [JAVA, LANG, x]) :
    canonicalName (.cls segs) = joinWith '.' segs := by
  cases hs : shortName (.cls segs) with
  | none => simp [canonicalName, hs, javaName]
  | some r => exact absurd ⟨r, (shortName_cls segs r).1 hs⟩ h

theorem canonical_arr (t : Ty) : canonicalName (.arr t) = canonicalName t ++ ['[', ']'] := by
  simp only [canonicalName, shortName, javaName]
  cases shortName t <;> simp

theorem denotes_canonical (t : Ty) : Denotes (canonicalName t) t := by
  unfold Denotes canonicalName
  cases h : shortName t with
  | none => left; rfl
  | some r => right; rfl

/-! ### decompiler/util.get_type on a class descriptor -/

theorem desc_cls_length (segs : List (List Char)) : (descOf (.cls segs)).length ≠ 1 := by
  simp [descOf]

/-- the `java.lang` test of the fixed code holds exactly for direct members of java.lang -/
theorem util_cond_iff (segs : List (List Char)) (h : fullClassName segs = true) :
    (pyStartsWith (descOf (.cls segs)) ('L' :: JLPREFIX) = true
      ∧ (pyFrom (descOf (.cls segs)) (('L' :: JLPREFIX).length : Int)).contains '/' = false)
    ↔ ∃ x, segs = [JAVA, LANG, x] := by
  obtain ⟨hne, hs⟩ := fullClassName_facts segs h
  have hslash : ∀ s ∈ segs, '/' ∉ s := fun s m => simpleName_nosep s (hs s m) '/' slash_not_name
  constructor
  · rintro ⟨h1, h2⟩
    unfold pyStartsWith at h1
    rw [List.isPrefixOf_iff_prefix] at h1
    obtain ⟨r, hr⟩ := h1
    rw [← hr, pyFrom_append] at h2
    simp only [descOf, List.cons_append, List.cons.injEq, true_and] at hr
    have h2' : '/' ∉ r := by
      intro m
      have : r.contains '/' = true := by simpa using m
      rw [this] at h2; simp at h2
    rcases List.eq_nil_or_concat r with hr0 | ⟨x, b, hxb⟩
    · subst hr0
      have := congrArg List.getLast? hr
      simp [JLPREFIX] at this
    · subst hxb
      rw [List.concat_eq_append] at hr h2'
      rw [← List.append_assoc] at hr
      have hh := List.append_inj' hr (by simp)
      have hj : joinWith '/' segs = JLPREFIX ++ x := hh.1.symm
      have hx : '/' ∉ x := fun m => h2' (by simp [m])
      refine ⟨x, ?_⟩
      rw [← splitOn_join '/' segs hne hslash, hj, split_java_lang x hx]
  · rintro ⟨x, hx⟩
    subst hx
    have hxs : '/' ∉ x := hslash x (by simp)
    have hd : descOf (.cls [JAVA, LANG, x]) = ('L' :: JLPREFIX) ++ (x ++ [';']) := by
      simp [descOf, join_java_lang]
    rw [hd, pyFrom_append]
    refine ⟨?_, ?_⟩
    · unfold pyStartsWith; rw [List.isPrefixOf_iff_prefix]; exact List.prefix_append _ _
    · have : '/' ∉ x ++ [';'] := by simp [hxs]
      simpa using this

theorem util_class (fuel : Nat) (segs : List (List Char)) (size : Option Nat) (h : fullClassName segs = true) :
    utilGetTypeAux (fuel + 1) (descOf (.cls segs)) size = .ok (canonicalName (.cls segs)) := by
  obtain ⟨hne, hs⟩ := fullClassName_facts segs h
  have hslash : ∀ s ∈ segs, '/' ∉ s := fun s m => simpleName_nosep s (hs s m) '/' slash_not_name
  obtain ⟨l1, l2, l3, l4, l5, l6, l7, l8, l9, l10, l11, l12, l13, l14, l15, l16⟩ := util_lits
  have hget := pyGet_none_of_length utilTable _ util_table_keys (desc_cls_length segs)
  have hidx : pyIndex (descOf (.cls segs)) 0 = .ok 'L' := by simp [descOf, pyIndex]
  unfold utilGetTypeAux
  simp only [hget, l1, l3, l4, l5, l6, l7, l8, l9, l10, l11, l12, hidx, bind, Except.bind, if_true]
  have hc := util_cond_iff segs h
  have hjl : "java/lang/".toList = JLPREFIX := rfl
  rw [hjl]
  by_cases hform : ∃ x, segs = [JAVA, LANG, x]
  · have hcond := hc.2 hform
    obtain ⟨x, hx⟩ := hform
    rw [if_pos (by simpa using hcond)]
    subst hx
    have hd : descOf (.cls [JAVA, LANG, x]) = ('L' :: JLPREFIX) ++ (x ++ [';']) := by
      simp [descOf, join_java_lang]
    rw [hd, canonical_short]
    have := pySlice_mid ('L' :: JLPREFIX) x ';'
    simp only [Int.natCast_one, Int.reduceNeg] at this ⊢
    rw [this]
  · have hcond : ¬ (pyStartsWith (descOf (.cls segs)) ('L' :: JLPREFIX) = true
        ∧ (pyFrom (descOf (.cls segs)) (('L' :: JLPREFIX).length : Int)).contains '/' = false) :=
      fun c => hform (hc.1 c)
    rw [if_neg (by simpa using hcond)]
    rw [canonical_full segs hform]
    simp only [descOf, Int.natCast_one, Int.reduceNeg]
    rw [pySlice_one, replace_join segs '/' '.' hslash]

/-! ### heads and lengths of descriptors -/

theorem prim_head (p : Prim) : p.desc ∈ headChars := by cases p <;> decide

theorem descOf_head (t : Ty) : ∃ c r, descOf t = c :: r ∧ c ∈ headChars := by
  cases t with
  | void => exact ⟨'V', [], rfl, by decide⟩
  | prim p => exact ⟨p.desc, [], rfl, prim_head p⟩
  | cls segs => exact ⟨'L', _, rfl, by decide⟩
  | arr t => exact ⟨'[', _, rfl, by decide⟩

theorem descOf_ne_nil (t : Ty) : descOf t ≠ [] := by
  obtain ⟨c, r, h, _⟩ := descOf_head t
  rw [h]; simp

theorem dims_lt_length (t : Ty) : t.dims < (descOf t).length := by
  induction t with
  | void => simp [Ty.dims, descOf]
  | prim p => simp [Ty.dims, descOf]
  | cls segs => simp [Ty.dims, descOf]
  | arr t ih => simp only [Ty.dims, descOf, List.length_cons]; omega

theorem desc_arr_length (t : Ty) : (descOf (.arr t)).length ≠ 1 := by
  have := List.length_pos_iff.mpr (descOf_ne_nil t)
  simp only [descOf, List.length_cons]; omega

theorem percent_arr (x : List Char) : pyPercentS "%s[]".toList x = x ++ ['[', ']'] := by
  show pyPercentS ['%', 's', '[', ']'] x = _
  simp [pyPercentS]

theorem format_arr (x n : List Char) : pyFormat "{}[{}]".toList [x, n] = x ++ '[' :: (n ++ [']']) := by
  show pyFormat ['{', '}', '[', '{', '}', ']'] [x, n] = _
  simp [pyFormat]

/-! ### decompiler/util.get_type: all well-formed descriptors -/

theorem util_prim (fuel : Nat) (p : Prim) (size : Option Nat) :
    utilGetTypeAux (fuel + 1) (descOf (.prim p)) size = .ok p.keyword := by
  unfold utilGetTypeAux
  simp only [descOf, util_table_prim]

theorem util_void (fuel : Nat) (size : Option Nat) :
    utilGetTypeAux (fuel + 1) (descOf .void) size = .ok "void".toList := by
  unfold utilGetTypeAux
  simp only [descOf, util_table_void]

/-- one array dimension: the element is rendered by the recursive call, then the suffix is added -/
theorem util_arr_step (fuel : Nat) (t : Ty) (size : Option Nat) (r : List Char)
    (h : utilGetTypeAux fuel (descOf t) none = .ok r) :
    utilGetTypeAux (fuel + 1) (descOf (.arr t)) size
      = .ok (match size with
             | none => r ++ ['[', ']']
             | some n => r ++ '[' :: (pyStrNat n ++ [']'])) := by
  obtain ⟨l1, l2, l3, l4, l5, l6, l7, l8, l9, l10, l11, l12, l13, l14, l15, l16⟩ := util_lits
  have hget := pyGet_none_of_length utilTable _ util_table_keys (desc_arr_length t)
  have hidx : pyIndex (descOf (.arr t)) 0 = .ok '[' := by simp [descOf, pyIndex]
  have hne : ¬ ('[' = 'L') := by decide
  have hfrom : pyFrom (descOf (.arr t)) ((1 : Nat) : Int) = descOf t := by
    simpa [descOf] using pyFrom_one '[' (descOf t)
  unfold utilGetTypeAux
  simp only [hget, l1, l2, l3, l13, l14, l15, l16, hidx, bind, Except.bind, hne, if_false, if_true, hfrom, h]
  cases size with
  | none => simp only [percent_arr]
  | some n => simp only [format_arr]

theorem util_field (t : Ty) (h : t.wfField = true) :
    ∀ fuel, t.dims < fuel → utilGetTypeAux fuel (descOf t) none = .ok (canonicalName t) := by
  induction t with
  | void => simp [Ty.wfField] at h
  | prim p =>
    intro fuel hf
    obtain ⟨f, rfl⟩ : ∃ f, fuel = f + 1 := ⟨fuel - 1, by omega⟩
    rw [util_prim]; rfl
  | cls segs =>
    intro fuel hf
    obtain ⟨f, rfl⟩ : ∃ f, fuel = f + 1 := ⟨fuel - 1, by omega⟩
    exact util_class f segs none h
  | arr t ih =>
    intro fuel hf
    simp only [Ty.dims] at hf
    obtain ⟨f, rfl⟩ : ∃ f, fuel = f + 1 := ⟨fuel - 1, by omega⟩
    have := ih (by simpa [Ty.wfField] using h) f (by omega)
    rw [util_arr_step f t none _ this, canonical_arr]

/-! ### core/dex get_type -/

theorem dex_starts (c : Char) (hc : c ∈ headChars) (r : List Char) : pyStartsWith (c :: r) dexStartsWith = false := by
  have : ∃ a t, dexStartsWith = a :: t ∧ a ∉ headChars := ⟨'j', _, rfl, by decide⟩
  obtain ⟨a, t, e, ha⟩ := this
  rw [e]
  have hne : ¬ (a = c) := fun h => ha (h ▸ hc)
  simp [pyStartsWith, List.isPrefixOf, hne]

theorem dex_lstrip (c : Char) (hc : c ∈ headChars) (r : List Char) : pyLstrip (c :: r) dexLstrip = c :: r := by
  have := (dex_head_facts c hc).1
  simp [pyLstrip, List.dropWhile, this]

theorem dex_prim (fuel : Nat) (p : Prim) (size : Option Nat) :
    dexGetTypeAux (fuel + 1) (descOf (.prim p)) size = .ok p.keyword := by
  unfold dexGetTypeAux
  simp only [descOf, dex_starts _ (prim_head p), Bool.false_eq_true, if_false, dex_lstrip _ (prim_head p),
    dex_table_prim]

theorem dex_void (fuel : Nat) (size : Option Nat) :
    dexGetTypeAux (fuel + 1) (descOf .void) size = .ok "void".toList := by
  have hv : 'V' ∈ headChars := by decide
  unfold dexGetTypeAux
  simp only [descOf, dex_starts _ hv, Bool.false_eq_true, if_false, dex_lstrip _ hv, dex_table_void]

theorem dex_class (fuel : Nat) (segs : List (List Char)) (size : Option Nat) (h : fullClassName segs = true) :
    dexGetTypeAux (fuel + 1) (descOf (.cls segs)) size = .ok (joinWith '.' segs) := by
  obtain ⟨hne, hs⟩ := fullClassName_facts segs h
  have hslash : ∀ s ∈ segs, '/' ∉ s := fun s m => simpleName_nosep s (hs s m) '/' slash_not_name
  obtain ⟨l1, l2, l3, l4, l5, l6, l7, l8, l9, l10, l11⟩ := dex_lits
  have hL : 'L' ∈ headChars := by decide
  have hget := pyGet_none_of_length dexTable _ dex_table_keys (desc_cls_length segs)
  have hidx : pyIndex (descOf (.cls segs)) 0 = .ok 'L' := by simp [descOf, pyIndex]
  simp only [descOf] at hget hidx
  unfold dexGetTypeAux
  simp only [descOf, dex_starts _ hL, Bool.false_eq_true, if_false, dex_lstrip _ hL, hget, l1, l3, l4, l5, l6, l7,
    hidx, bind, Except.bind, if_true, Int.natCast_one, Int.reduceNeg]
  rw [pySlice_one, replace_join segs '/' '.' hslash]

theorem dex_arr_step (fuel : Nat) (t : Ty) (size : Option Nat) (r : List Char)
    (h : dexGetTypeAux fuel (descOf t) none = .ok r) :
    dexGetTypeAux (fuel + 1) (descOf (.arr t)) size
      = .ok (match size with
             | none => r ++ ['[', ']']
             | some n => r ++ '[' :: (pyStrNat n ++ [']'])) := by
  obtain ⟨l1, l2, l3, l4, l5, l6, l7, l8, l9, l10, l11⟩ := dex_lits
  have hB : '[' ∈ headChars := by decide
  have hget := pyGet_none_of_length dexTable _ dex_table_keys (desc_arr_length t)
  have hidx : pyIndex (descOf (.arr t)) 0 = .ok '[' := by simp [descOf, pyIndex]
  have hne : ¬ ('[' = 'L') := by decide
  have hfrom : pyFrom (descOf (.arr t)) ((1 : Nat) : Int) = descOf t := by
    simpa [descOf] using pyFrom_one '[' (descOf t)
  simp only [descOf] at hget hidx hfrom
  unfold dexGetTypeAux
  simp only [descOf, dex_starts _ hB, Bool.false_eq_true, if_false, dex_lstrip _ hB, hget, l1, l2, l3, l8, l9, l10,
    l11, hidx, bind, Except.bind, hne, if_true, hfrom, h]
  cases size with
  | none => simp only [percent_arr]
  | some n => simp only [format_arr]

theorem dex_field (t : Ty) (h : t.wfField = true) :
    ∀ fuel, t.dims < fuel → dexGetTypeAux fuel (descOf t) none = .ok (javaName t) := by
  induction t with
  | void => simp [Ty.wfField] at h
  | prim p =>
    intro fuel hf
    obtain ⟨f, rfl⟩ : ∃ f, fuel = f + 1 := ⟨fuel - 1, by omega⟩
    rw [dex_prim]; rfl
  | cls segs =>
    intro fuel hf
    obtain ⟨f, rfl⟩ : ∃ f, fuel = f + 1 := ⟨fuel - 1, by omega⟩
    exact dex_class f segs none h
  | arr t ih =>
    intro fuel hf
    simp only [Ty.dims] at hf
    obtain ⟨f, rfl⟩ : ∃ f, fuel = f + 1 := ⟨fuel - 1, by omega⟩
    have := ih (by simpa [Ty.wfField] using h) f (by omega)
    rw [dex_arr_step f t none _ this]; rfl

/-! ### the descriptor reader of the specification is sound and complete for `descOf` -/

theorem dropLast_semi (r : List Char) (h : r.getLast? = some ';') : r.dropLast ++ [';'] = r := by
  have hne : r ≠ [] := by intro e; subst e; simp at h
  have h2 := List.dropLast_concat_getLast hne
  rw [List.getLast?_eq_some_getLast hne] at h
  simp only [Option.some.injEq] at h
  rw [h] at h2; exact h2

theorem primOf_desc (c : Char) (p : Prim) (h : primOf c = some p) : p.desc = c := by
  unfold primOf at h
  repeat' split at h
  all_goals first
    | (simp only [Option.some.injEq] at h; subst h; subst_vars; rfl)
    | simp at h

theorem parseField_sound (d : List Char) : ∀ t, parseField d = some t → t.wfField = true ∧ descOf t = d := by
  induction d with
  | nil => intro t h; simp [parseField] at h
  | cons c r ih =>
    intro t h
    simp only [parseField] at h
    by_cases hb : c = '['
    · subst hb
      simp only [if_true, Option.map_eq_some_iff] at h
      obtain ⟨t', ht', rfl⟩ := h
      have := ih t' ht'
      exact ⟨by simpa [Ty.wfField] using this.1, by simp [descOf, this.2]⟩
    · simp only [hb, if_false] at h
      by_cases hl : c = 'L'
      · subst hl
        simp only [if_true, parseClass] at h
        split at h
        · rename_i hlast
          split at h
          · rename_i hfull
            simp only [Option.some.injEq] at h
            subst h
            refine ⟨by simpa [Ty.wfField] using hfull, ?_⟩
            simp only [descOf, join_splitOn]
            rw [dropLast_semi r hlast]
          · simp at h
        · simp at h
      · simp only [hl, if_false] at h
        split at h
        · rename_i p hp
          split at h
          · rename_i hr
            simp only [Option.some.injEq] at h
            subst h
            have : r = [] := by simpa using hr
            subst this
            exact ⟨rfl, by simp [descOf, primOf_desc c p hp]⟩
          · simp at h
        · simp at h

theorem parseField_complete (t : Ty) (h : t.wfField = true) : parseField (descOf t) = some t := by
  induction t with
  | void => simp [Ty.wfField] at h
  | prim p => cases p <;> rfl
  | cls segs =>
    have hfull : fullClassName segs = true := by simpa [Ty.wfField] using h
    obtain ⟨hne, hs⟩ := fullClassName_facts segs hfull
    have hslash : ∀ s ∈ segs, '/' ∉ s := fun s m => simpleName_nosep s (hs s m) '/' slash_not_name
    have hb : ¬ ('L' = '[') := by decide
    simp only [descOf, parseField, hb, if_false, if_true, parseClass, List.getLast?_append, List.getLast?_singleton,
      Option.some_or, List.dropLast_concat, splitOn_join '/' segs hne hslash, hfull]
  | arr t ih =>
    have := ih (by simpa [Ty.wfField] using h)
    simp [descOf, parseField, this]

theorem parseDesc_sound (d : List Char) (t : Ty) (h : parseDesc d = some t) : t.wf = true ∧ descOf t = d := by
  unfold parseDesc at h
  split at h
  · rename_i hv
    simp only [Option.some.injEq] at h
    subst h; subst hv; exact ⟨rfl, rfl⟩
  · have := parseField_sound d t h
    refine ⟨?_, this.2⟩
    cases t <;> simp_all [Ty.wf]

theorem parseDesc_complete (t : Ty) (h : t.wf = true) : parseDesc (descOf t) = some t := by
  cases t with
  | void => rfl
  | prim p => cases p <;> rfl
  | cls segs =>
    have := parseField_complete (.cls segs) (by simpa [Ty.wf] using h)
    simpa [parseDesc, descOf] using this
  | arr t =>
    have := parseField_complete (.arr t) (by simpa [Ty.wf] using h)
    have hne : descOf (.arr t) ≠ ['V'] := by simp [descOf]
    simp only [parseDesc, hne, if_false, this]

end AgVerif.TypeName
