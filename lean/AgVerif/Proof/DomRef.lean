/-
Lemmas for C18: the reference reachability / dominator functions of Model/DomRef.lean meet the
textbook definitions of Spec/Dominance.lean, on every well-formed graph.
-/
import AgVerif.Model.DomRef
import AgVerif.Spec.Dominance
import AgVerif.Proof.Rpo
namespace AgVerif.DomRef
open AgVerif AgVerif.Spec

/-- the removed vertices, as a predicate -/
def Av (avoid : Nat → Bool) : Nat → Prop := fun x => avoid x = true

/-! ### `go` computes reachability in the graph without the avoided vertices -/

theorem go_sound (g : Digraph) (avoid : Nat → Bool) : ∀ (f : Nat) (cs vis : List Nat),
    (∀ x ∈ vis, ReachAvoiding g.Edge (Av avoid) g.entry x) →
    (∀ c ∈ cs, avoid c ≠ true → ReachAvoiding g.Edge (Av avoid) g.entry c) →
    ∀ x ∈ go g avoid f cs vis, ReachAvoiding g.Edge (Av avoid) g.entry x
  | 0, _, vis, hv, _ => by simpa [go] using hv
  | f + 1, [], vis, hv, _ => by simpa [go] using hv
  | f + 1, c :: cs, vis, hv, hc => by
    simp only [go]
    have hcs : ∀ c' ∈ cs, avoid c' ≠ true → ReachAvoiding g.Edge (Av avoid) g.entry c' :=
      fun c' h => hc c' (List.mem_cons_of_mem _ h)
    split
    · exact go_sound g avoid f cs vis hv hcs
    · next hn =>
      have hna : avoid c ≠ true := fun h => hn (Or.inl h)
      have hrc := hc c (List.mem_cons_self ..) hna
      apply go_sound g avoid f
      · intro x hx
        rcases List.mem_cons.mp hx with hx | hx
        · subst hx; exact hrc
        · exact hv x hx
      · intro y hy hya
        rcases List.mem_append.mp hy with hy | hy
        · exact ReachAvoiding.tail hrc hy hya
        · exact hcs y hy hya

theorem go_closed (g : Digraph) (avoid : Nat → Bool) (hwf : ∀ u, ∀ v ∈ g.allSucs u, v < g.n) :
    ∀ (f : Nat) (cs vis : List Nat), (∀ c ∈ cs, c < g.n) → cs.length + Rpo.W g vis g.n < f →
    (∀ x ∈ vis, ∀ y ∈ g.allSucs x, avoid y ≠ true → y ∈ vis ∨ y ∈ cs) →
    (∀ x ∈ vis, x ∈ go g avoid f cs vis) ∧
    (∀ c ∈ cs, avoid c ≠ true → c ∈ go g avoid f cs vis) ∧
    (∀ x ∈ go g avoid f cs vis, ∀ y ∈ g.allSucs x, avoid y ≠ true → y ∈ go g avoid f cs vis)
  | 0, _, _, _, hf, _ => by omega
  | f + 1, [], vis, _, _, hinv => by
    simp only [go]
    refine ⟨fun _ h => h, by simp, ?_⟩
    intro x hx y hy hya
    rcases hinv x hx y hy hya with h | h
    · exact h
    · simp at h
  | f + 1, c :: cs, vis, hb, hf, hinv => by
    simp only [go]
    simp only [List.length_cons] at hf
    have hb' : ∀ c' ∈ cs, c' < g.n := fun c' h => hb c' (List.mem_cons_of_mem _ h)
    split
    · next hsk =>
      have ih := go_closed g avoid hwf f cs vis hb' (by omega) (by
        intro x hx y hy hya
        rcases hinv x hx y hy hya with h | h
        · exact Or.inl h
        · rcases List.mem_cons.mp h with h | h
          · subst h
            rcases hsk with h1 | h1
            · exact absurd h1 hya
            · exact Or.inl h1
          · exact Or.inr h)
      refine ⟨ih.1, ?_, ih.2.2⟩
      intro c' hc' hca
      rcases List.mem_cons.mp hc' with h | h
      · subst h
        rcases hsk with h1 | h1
        · exact absurd h1 hca
        · exact ih.1 _ h1
      · exact ih.2.1 c' h hca
    · next hn =>
      have hcv : c ∉ vis := fun h => hn (Or.inr h)
      have hcn : c < g.n := hb c (List.mem_cons_self ..)
      have hd := Rpo.W_drop (g := g) (V' := c :: vis) hcv (fun _ h => h) g.n hcn
      have ih := go_closed g avoid hwf f (g.allSucs c ++ cs) (c :: vis)
        (by
          intro c' hc'
          rcases List.mem_append.mp hc' with h | h
          · exact hwf c c' h
          · exact hb' c' h)
        (by simp only [List.length_append]; omega)
        (by
          intro x hx y hy hya
          rcases List.mem_cons.mp hx with hx | hx
          · subst hx; exact Or.inr (List.mem_append_left _ hy)
          · rcases hinv x hx y hy hya with h | h
            · exact Or.inl (List.mem_cons_of_mem _ h)
            · rcases List.mem_cons.mp h with h | h
              · subst h; exact Or.inl (List.mem_cons_self ..)
              · exact Or.inr (List.mem_append_right _ h))
      refine ⟨fun x hx => ih.1 x (List.mem_cons_of_mem _ hx), ?_, ih.2.2⟩
      intro c' hc' hca
      rcases List.mem_cons.mp hc' with h | h
      · subst h; exact ih.1 _ (List.mem_cons_self ..)
      · exact ih.2.1 c' (List.mem_append_right _ h) hca

/-- `reachAvoid` is reachability in the graph without the avoided vertices -/
theorem mem_reachAvoid (g : Digraph) (hwf : g.WF) (avoid : Nat → Bool) (x : Nat) :
    x ∈ reachAvoid g avoid ↔ ReachAvoiding g.Edge (Av avoid) g.entry x := by
  constructor
  · intro hx
    refine go_sound g avoid (fuel g) [g.entry] [] (by simp) ?_ x hx
    intro c hc hca
    simp at hc; subst hc
    exact ReachAvoiding.refl hca
  · intro hr
    have hcl := go_closed g avoid hwf.2 (fuel g) [g.entry] []
      (by intro c hc; simp at hc; subst hc; exact hwf.1)
      (by simp only [List.length_cons, List.length_nil, Rpo.W_nil, fuel]; omega)
      (by simp)
    induction hr with
    | refl h => exact hcl.2.1 g.entry (List.mem_cons_self ..) h
    | tail _ e h ih => exact hcl.2.2 _ ih _ e h

theorem mem_reachable (g : Digraph) (hwf : g.WF) (x : Nat) :
    x ∈ reachable g ↔ Reach g.Edge g.entry x := by
  rw [reachable, mem_reachAvoid g hwf, reach_iff_avoiding_empty]
  constructor <;> intro h <;> exact h.mono (by intro x hx; simp [Av] at hx ⊢; try exact hx)

theorem mem_reachAvoid_vertex (g : Digraph) (hwf : g.WF) (d x : Nat) :
    x ∈ reachAvoid g (fun y => y == d) ↔ ReachAvoiding g.Edge (fun y => y = d) g.entry x := by
  rw [mem_reachAvoid g hwf]
  constructor <;> intro h <;> exact h.mono (by intro x hx; simpa [Av] using hx)

theorem reach_lt {g : Digraph} (hwf : g.WF) {x : Nat} (hr : Reach g.Edge g.entry x) : x < g.n :=
  Rpo.reach_lt hwf hr

/-! ### the table -/

theorem charVec_get (n : Nat) (l : List Nat) (v : Nat) (hv : v < n) :
    ((charVec n l)[v]?).getD false = decide (v ∈ l) := by
  simp [charVec, hv]

theorem isReach_domTable (g : Digraph) (hwf : g.WF) (v : Nat) (hv : v < g.n) :
    (domTable g).isReach v = true ↔ Reach g.Edge g.entry v := by
  simp only [Table.isReach, domTable, charVec_get g.n _ v hv, decide_eq_true_eq]
  exact mem_reachable g hwf v

theorem doms_domTable (g : Digraph) (hwf : g.WF) (d v : Nat) (hd : d < g.n) (hv : v < g.n) :
    (domTable g).doms d v = true ↔ Dominates g.Edge g.entry d v := by
  have hrow : (domTable g).avoid[d]? = some (charVec g.n (reachAvoid g (fun x => x == d))) := by
    simp [domTable, hd]
  simp only [Table.doms, hrow, charVec_get g.n _ v hv, Bool.not_eq_true', decide_eq_false_iff_not]
  rw [dominates_iff, mem_reachAvoid_vertex g hwf]

/-! ### `isIdom` is the definition -/

theorem isIdom_iff (g : Digraph) (hwf : g.WF) (d v : Nat) (hv : Reach g.Edge g.entry v) :
    isIdom g.n (domTable g) d v = true ↔ IDom g.Edge g.entry d v := by
  have hvn := reach_lt hwf hv
  constructor
  · intro h
    simp only [isIdom, Bool.and_eq_true, decide_eq_true_eq, bne_iff_ne, ne_eq, List.all_eq_true,
      List.mem_range, Bool.or_eq_true, Bool.not_eq_true', Bool.and_eq_false_iff] at h
    obtain ⟨⟨⟨hdn, hne⟩, hdom⟩, hall⟩ := h
    have hdv := (doms_domTable g hwf d v hdn hvn).mp hdom
    refine ⟨⟨hdv, hne⟩, ?_⟩
    intro d' ⟨hd'v, hd'ne⟩
    have hd'n : d' < g.n := reach_lt hwf (hd'v.reach hv)
    rcases hall d' hd'n with h1 | h1
    · rcases h1 with h1 | h1
      · simp at h1; exact absurd h1 hd'ne
      · have := (doms_domTable g hwf d' v hd'n hvn).mpr hd'v
        rw [this] at h1; simp at h1
    · exact (doms_domTable g hwf d' d hd'n hdn).mp h1
  · intro ⟨⟨hdv, hne⟩, himm⟩
    have hdn : d < g.n := reach_lt hwf (hdv.reach hv)
    simp only [isIdom, Bool.and_eq_true, decide_eq_true_eq, bne_iff_ne, ne_eq, List.all_eq_true,
      List.mem_range, Bool.or_eq_true, Bool.not_eq_true', Bool.and_eq_false_iff]
    refine ⟨⟨⟨hdn, hne⟩, (doms_domTable g hwf d v hdn hvn).mpr hdv⟩, ?_⟩
    intro d' hd'n
    by_cases h1 : d' = v
    · left; left; simp [h1]
    · by_cases h2 : (domTable g).doms d' v = true
      · right
        have := (doms_domTable g hwf d' v hd'n hvn).mp h2
        exact (doms_domTable g hwf d' d hd'n hdn).mpr (himm d' ⟨this, h1⟩)
      · left; right; simpa using h2

/-- the reference immediate dominator is the immediate dominator of the definition -/
theorem idomRef_correct (g : Digraph) (hwf : g.WF) (v d : Nat) (hv : Reach g.Edge g.entry v)
    (hne : v ≠ g.entry) : idomRef g v = some d ↔ IDom g.Edge g.entry d v := by
  have hvn := reach_lt hwf hv
  have hr := (isReach_domTable g hwf v hvn).mpr hv
  simp only [idomRef, idomRefT, hne, hr, ne_eq, not_false_eq_true, and_self, if_true]
  constructor
  · intro h
    have := List.find?_some h
    exact (isIdom_iff g hwf d v hv).mp this
  · intro h
    have hi := (isIdom_iff g hwf d v hv).mpr h
    have hdn : d < g.n := reach_lt hwf (h.1.1.reach hv)
    cases hf : (List.range g.n).find? (fun d => isIdom g.n (domTable g) d v) with
    | none =>
      rw [List.find?_eq_none] at hf
      exact absurd hi (hf d (List.mem_range.mpr hdn))
    | some d' =>
      have hd' : isIdom g.n (domTable g) d' v = true :=
        List.find?_some (p := fun d => isIdom g.n (domTable g) d v) hf
      have := (isIdom_iff g hwf d' v hv).mp hd'
      rw [idom_unique hv this h]

theorem idomRef_none (g : Digraph) (hwf : g.WF) (v : Nat) (hvn : v < g.n)
    (h : v = g.entry ∨ ¬ Reach g.Edge g.entry v) : idomRef g v = none := by
  simp only [idomRef, idomRefT]
  split
  · next hc =>
    rcases h with h | h
    · exact absurd h hc.1
    · exact absurd ((isReach_domTable g hwf v hvn).mp hc.2) h
  · rfl

theorem checkDomTree_iff (g : Digraph) (hwf : g.WF) (tree : Nat → Option Nat) :
    checkDomTree g tree = true ↔ IsDomTree g tree := by
  simp only [checkDomTree, checkDomTreeT, List.all_eq_true, List.mem_range, IsDomTree]
  constructor
  · intro h v hvn
    have hv := h v hvn
    by_cases hc : v = g.entry ∨ (domTable g).isReach v = false
    · rw [if_pos hc] at hv
      constructor
      · intro _; simpa using hv
      · intro hne hr
        rcases hc with hc | hc
        · exact absurd hc hne
        · rw [(isReach_domTable g hwf v hvn).mpr hr] at hc; simp at hc
    · rw [if_neg hc] at hv
      have hr : Reach g.Edge g.entry v := by
        apply (isReach_domTable g hwf v hvn).mp
        cases hh : (domTable g).isReach v with
        | true => rfl
        | false => exact absurd (Or.inr hh) hc
      constructor
      · intro h'
        rcases h' with h' | h'
        · exact absurd (Or.inl h') hc
        · exact absurd hr h'
      · intro _ _
        cases ht : tree v with
        | none => rw [ht] at hv; simp at hv
        | some d => rw [ht] at hv; exact ⟨d, rfl, (isIdom_iff g hwf d v hr).mp hv⟩
  · intro h v hvn
    obtain ⟨h1, h2⟩ := h v hvn
    split
    · next hc =>
      have : tree v = none := by
        apply h1
        rcases hc with hc | hc
        · exact Or.inl hc
        · right; intro hr
          rw [(isReach_domTable g hwf v hvn).mpr hr] at hc; simp at hc
      simp [this]
    · next hc =>
      have hne : v ≠ g.entry := fun h => hc (Or.inl h)
      have hr : Reach g.Edge g.entry v := by
        apply (isReach_domTable g hwf v hvn).mp
        cases hh : (domTable g).isReach v with
        | true => rfl
        | false => exact absurd (Or.inr hh) hc
      obtain ⟨d, hd, hi⟩ := h2 hne hr
      rw [hd]
      exact (isIdom_iff g hwf d v hr).mpr hi

/-- the reference computes a dominator tree on every well-formed graph (existence) -/
theorem isDomTree_idomRef (g : Digraph) (hwf : g.WF) : IsDomTree g (idomRef g) := by
  intro v hvn
  refine ⟨idomRef_none g hwf v hvn, ?_⟩
  intro hne hr
  obtain ⟨d, hd⟩ := idom_exists hr hne
  exact ⟨d, (idomRef_correct g hwf v d hr hne).mpr hd, hd⟩

theorem isDomTree_unique {g : Digraph} {t₁ t₂ : Nat → Option Nat}
    (h1 : IsDomTree g t₁) (h2 : IsDomTree g t₂) (v : Nat) (hv : v < g.n) : t₁ v = t₂ v := by
  by_cases hc : v = g.entry ∨ ¬ Reach g.Edge g.entry v
  · rw [(h1 v hv).1 hc, (h2 v hv).1 hc]
  · have hne : v ≠ g.entry := fun h => hc (Or.inl h)
    have hr : Reach g.Edge g.entry v := Classical.byContradiction (fun h => hc (Or.inr h))
    obtain ⟨d1, e1, i1⟩ := (h1 v hv).2 hne hr
    obtain ⟨d2, e2, i2⟩ := (h2 v hv).2 hne hr
    rw [e1, e2, idom_unique hr i1 i2]

/-- the checker accepts `t` iff `t` agrees with the reference on every node -/
theorem checkDomTree_iff_ref (g : Digraph) (hwf : g.WF) (t : Nat → Option Nat) :
    checkDomTree g t = true ↔ ∀ v, v < g.n → t v = idomRef g v := by
  rw [checkDomTree_iff g hwf]
  constructor
  · intro h v hv; exact isDomTree_unique h (isDomTree_idomRef g hwf) v hv
  · intro h v hv
    have := isDomTree_idomRef g hwf v hv
    rw [← h v hv] at this
    exact this

end AgVerif.DomRef
