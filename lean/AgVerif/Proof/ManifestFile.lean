/- C31, file level: the tree of the manifest's binary XML document is `AppManifest.toXml`; composition with C26. -/
import AgVerif.Spec.ManifestFile
import AgVerif.Proof.ManifestLauncher
import AgVerif.Props.C26
set_option linter.unusedSimpArgs false
namespace AgVerif.Proof.Manifest
open AgVerif.Manifest AgVerif.Spec.Manifest AgVerif.Gen.AxmlConsts AgVerif.Spec.Axml
open AgVerif.Axml (Str Bytes Node Attr lit setAttr printAxml)

/-! ### attributes -/

theorem AName.str_inj (t u : AName) : t.str = u.str ↔ t = u := by
  have := AName.str_beq t u
  constructor
  · intro h; rw [h] at this; simpa using this
  · intro h; rw [h]

theorem sattr_name (n : AName) (v : Val) : (v.sattr n).name = n.str := by cases v <;> rfl
theorem sattr_ns (n : AName) (v : Val) : (v.sattr n).ns = some nsAndroid := by cases v <;> rfl

/-- the printer's string for a typed value is `Val.render` (Props/C26 `attr_value_*`) -/
theorem attrOf_sattr (opq : Nat → Nat → Str) (n : AName) (v : Val) (hf : v.fits = true) :
    attrOf opq (v.sattr n) = att n v.render := by
  cases v with
  | str s => simp only [attrOf, Val.sattr, att, Val.render, Option.getD]; rw [show (3 : Nat) = TYPE_STRING from rfl, C26.attr_value_string]
  | int d =>
    have hd : d < 2 ^ 32 := by simpa [Val.fits] using hf
    simp only [attrOf, Val.sattr, att, Val.render, Option.getD]
    rw [show (0x10 : Nat) = TYPE_INT_DEC from rfl, C26.attr_value_int_dec opq d [] hd]
  | bool b =>
    simp only [attrOf, Val.sattr, att, Val.render, Option.getD]
    rw [show (0x12 : Nat) = TYPE_INT_BOOLEAN from rfl, C26.attr_value_boolean]
    cases b <;> simp
  | ref id =>
    simp only [attrOf, Val.sattr, att, Val.render, Option.getD]
    rw [show (1 : Nat) = TYPE_REFERENCE from rfl, C26.attr_value_reference]
    rfl

/-- different (namespace, name) -/
def distinctKey (a b : SAttr) : Prop := ¬ (a.ns.getD [] = b.ns.getD [] ∧ a.name = b.name)

theorem foldl_setAttr (opq : Nat → Nat → Str) (l : List SAttr) (acc : List Attr)
    (h1 : ∀ a ∈ l, ∀ b ∈ acc, ¬ (b.ns = a.ns.getD [] ∧ b.name = a.name)) (h2 : l.Pairwise distinctKey) :
    l.foldl (fun acc a => setAttr (attrOf opq a) acc) acc = acc ++ l.map (attrOf opq) := by
  induction l generalizing acc with
  | nil => simp
  | cons a r ih =>
    rw [List.pairwise_cons] at h2
    simp only [List.foldl_cons, List.map_cons]
    rw [C26.attrs_distinct_kept (attrOf opq a) acc (fun b hb => by simpa [attrOf] using h1 a (by simp) b hb)]
    rw [ih]
    · simp
    · intro x hx b hb
      simp only [List.mem_append, List.mem_singleton] at hb
      rcases hb with hb | rfl
      · exact h1 x (by simp [hx]) b hb
      · have := h2.1 x hx
        simpa [distinctKey, attrOf] using this
    · exact h2.2

theorem attrsOf_distinct (opq : Nat → Nat → Str) (l : List SAttr) (h : l.Pairwise distinctKey) :
    attrsOf opq l = l.map (attrOf opq) := by
  unfold attrsOf
  rw [foldl_setAttr opq l [] (by simp) h]; simp

theorem map_optSAttr (opq : Nat → Nat → Str) (n : AName) (o : Option Val) (h : ∀ v ∈ o.toList, v.fits = true) :
    (optSAttr n o).map (attrOf opq) = optAtt n (o.map Val.render) := by
  cases o with
  | none => rfl
  | some v => simp [optSAttr, optAtt, attrOf_sattr opq n v (h v (by simp))]

theorem map_optSAttr_str (opq : Nat → Nat → Str) (n : AName) (o : Option Str) :
    (optSAttr n (o.map .str)).map (attrOf opq) = optAtt n o := by
  cases o with
  | none => rfl
  | some v => simp [optSAttr, optAtt, attrOf_sattr opq n (.str v) rfl, Val.render]

theorem distinct_sattr (n n' : AName) (v v' : Val) (h : n ≠ n') : distinctKey (v.sattr n) (v'.sattr n') := by
  simp [distinctKey, sattr_name, sattr_ns, AName.str_inj, h]

theorem pairwise_opts (l : List (AName × Option Val)) (h : (l.map (·.1)).Nodup) :
    (l.flatMap fun p => optSAttr p.1 p.2).Pairwise distinctKey := by
  induction l with
  | nil => simp
  | cons p r ih =>
    simp only [List.map_cons, List.nodup_cons] at h
    simp only [List.flatMap_cons, List.pairwise_append]
    refine ⟨?_, ih h.2, ?_⟩
    · cases p.2 <;> simp [optSAttr]
    · intro a ha b hb
      simp only [List.mem_flatMap] at hb
      obtain ⟨q, hq, hb⟩ := hb
      cases hp : p.2 with
      | none => simp [optSAttr, hp] at ha
      | some v =>
        cases hq2 : q.2 with
        | none => simp [optSAttr, hq2] at hb
        | some w =>
          simp only [optSAttr, hp, hq2, List.mem_singleton] at ha hb
          subst ha; subst hb
          apply distinct_sattr
          intro e; apply h.1; rw [e]; exact List.mem_map_of_mem hq

/-! ### the tree of the document -/

theorem treeOfL_map {α : Type} (opq : Nat → Nat → Str) (f : α → SNode) (g : α → Node) (h : ∀ x, treeOf opq (f x) = g x)
    (l : List α) : treeOfL opq (l.map f) = l.map g := by
  induction l with
  | nil => simp [treeOfL]
  | cons x r ih => simp [treeOfL, h, ih]

theorem treeOfL_append (opq : Nat → Nat → Str) (a b : List SNode) : treeOfL opq (a ++ b) = treeOfL opq a ++ treeOfL opq b := by
  induction a with
  | nil => simp [treeOfL]
  | cons x r ih => simp [treeOfL, ih]

theorem treeOf_sEl (opq : Nat → Nat → Str) (ln : Nat) (t : Tag) (attrs : List SAttr) (kids : List SNode) :
    treeOf opq (sEl ln t attrs kids) = el t (attrsOf opq attrs) (treeOfL opq kids) := by
  simp [sEl, treeOf, el]

theorem treeOf_named (opq : Nat → Nat → Str) (ln : Nat) (t : Tag) (n : Str) : treeOf opq (namedDoc ln t n) = named t n := by
  simp only [namedDoc, treeOf_sEl, named, treeOfL]
  rw [attrsOf_distinct _ _ (by simp)]
  simp [attrOf_sattr opq .name (.str n) rfl, Val.render]

theorem treeOf_filter (opq : Nat → Nat → Str) (ln : Nat) (f : Filter) : treeOf opq (f.doc ln) = f.toXml := by
  simp only [Filter.doc, treeOf_sEl, Filter.toXml, treeOfL_append, treeOfL_map opq _ _ (treeOf_named opq ln _)]
  rfl

theorem treeOf_activity (opq : Nat → Nat → Str) (ln : Nat) (a : Activity) (hf : ∀ v ∈ a.enabled.toList, v.fits = true) :
    treeOf opq (a.doc ln) = a.toXml := by
  simp only [Activity.doc, treeOf_sEl, Activity.toXml, treeOfL_map opq _ _ (treeOf_filter opq ln)]
  rw [attrsOf_distinct _ _ (by cases a.enabled <;> cases a.target <;> simp [optSAttr, distinct_sattr])]
  simp [List.map_append, map_optSAttr opq _ _ hf, map_optSAttr_str, attrOf_sattr opq .name (.str a.name) rfl, Val.render]

theorem treeOf_permission (opq : Nat → Nat → Str) (ln : Nat) (p : UsesPermission) (hf : ∀ v ∈ p.maxSdk.toList, v.fits = true) :
    treeOf opq (p.doc ln) = p.toXml := by
  simp only [UsesPermission.doc, treeOf_sEl, UsesPermission.toXml, treeOfL]
  rw [attrsOf_distinct _ _ (by cases p.maxSdk <;> simp [optSAttr, distinct_sattr])]
  simp [map_optSAttr opq _ _ hf, attrOf_sattr opq .name (.str p.name) rfl, Val.render]

theorem treeOf_usesSdk (opq : Nat → Nat → Str) (ln : Nat) (s : UsesSdk) (hf : ∀ v ∈ s.vals, v.fits = true) :
    treeOf opq (s.doc ln) = s.toXml := by
  simp only [UsesSdk.doc, treeOf_sEl, UsesSdk.toXml, treeOfL]
  rw [attrsOf_distinct _ _ (by cases s.min <;> cases s.target <;> cases s.max <;> simp [optSAttr, distinct_sattr])]
  simp only [List.map_append]
  rw [map_optSAttr opq _ _ (fun v hv => hf v (by simp [UsesSdk.vals, hv])),
    map_optSAttr opq _ _ (fun v hv => hf v (by simp [UsesSdk.vals, hv])),
    map_optSAttr opq _ _ (fun v hv => hf v (by simp [UsesSdk.vals, hv]))]

theorem distinct_package (p : Str) (n : AName) (v : Val) :
    distinctKey ⟨none, lit attrPackage, 0xFFFFFFFF, 3, 0, p⟩ (v.sattr n) := by
  simp [distinctKey, sattr_ns]
  intro h; exact absurd h (by decide)

/-- the tree of the manifest's document is the XML of the manifest -/
theorem treeOf_docOf (opq : Nat → Nat → Str) (ln : Nat) (m : AppManifest) (hf : m.fits = true) :
    treeOf opq (docOf ln m) = m.toXml := by
  simp only [AppManifest.fits, AppManifest.vals, List.all_eq_true, List.mem_append, List.mem_flatMap] at hf
  have h1 : treeOfL opq (m.usesSdk.toList.map (UsesSdk.doc ln)) = m.usesSdk.toList.map UsesSdk.toXml := by
    cases hs : m.usesSdk with
    | none => simp [treeOfL]
    | some s =>
      simp only [Option.toList, List.map_cons, List.map_nil, treeOfL]
      rw [treeOf_usesSdk opq ln s (fun v hv => hf v (Or.inr (Or.inl ⟨s, by simp [hs], hv⟩)))]
  have h2 : ∀ l : List UsesPermission, (∀ p ∈ l, p ∈ m.permissions) →
      treeOfL opq (l.map (UsesPermission.doc ln)) = l.map UsesPermission.toXml := by
    intro l
    induction l with
    | nil => intro _; simp [treeOfL]
    | cons p r ih =>
      intro hl
      simp only [List.map_cons, treeOfL]
      rw [treeOf_permission opq ln p (fun v hv => hf v (Or.inr (Or.inr (Or.inl ⟨p, hl p (by simp), hv⟩)))),
        ih (fun q hq => hl q (by simp [hq]))]
  have h3 : ∀ l : List Activity, (∀ a ∈ l, a ∈ m.activities) → treeOfL opq (l.map (Activity.doc ln)) = l.map Activity.toXml := by
    intro l
    induction l with
    | nil => intro _; simp [treeOfL]
    | cons a r ih =>
      intro hl
      simp only [List.map_cons, treeOfL]
      rw [treeOf_activity opq ln a (fun v hv => hf v (Or.inr (Or.inr (Or.inr ⟨a, hl a (by simp), hv⟩)))),
        ih (fun q hq => hl q (by simp [hq]))]
  simp only [docOf, treeOf, AppManifest.toXml, treeOfL_append, h1, h2 _ (fun _ h => h), h3 _ (fun _ h => h),
    treeOfL_map opq _ _ (treeOf_named opq ln _), treeOfL, treeOf_sEl, el, Option.getD]
  congr 1
  rw [attrsOf_distinct _ _ (by cases m.versionCode <;> cases m.versionName <;> simp [optSAttr, distinct_sattr, distinct_package])]
  simp only [List.map_cons, List.map_append, map_optSAttr_str,
    map_optSAttr opq _ _ (fun v hv => hf v (Or.inl hv))]
  simp [attrOf, C26.attr_value_string]
  rw [show (3 : Nat) = TYPE_STRING from rfl, C26.attr_value_string]

/-! ### the XML of a manifest has no text nodes: it is in normal form -/

theorem normal_elems (kids : List Node) (h : ∀ k ∈ kids, Normal k ∧ isText k = false) :
    NormalL kids ∧ noAdjText kids = true ∧ kids.all nonEmptyText = true := by
  induction kids with
  | nil => simp [NormalL, noAdjText]
  | cons k r ih =>
    obtain ⟨i1, i2, i3⟩ := ih (fun x hx => h x (by simp [hx]))
    obtain ⟨hk, ht⟩ := h k (by simp)
    have hne : nonEmptyText k = true := by cases k <;> simp_all [isText, nonEmptyText]
    refine ⟨⟨hk, i1⟩, ?_, by simp [hne, i3]⟩
    cases r with
    | nil => simp [noAdjText]
    | cons b q => simp [noAdjText, ht, i2]

theorem normal_el (t : Tag) (attrs : List Attr) (kids : List Node) (h : ∀ k ∈ kids, Normal k ∧ isText k = false) :
    Normal (el t attrs kids) ∧ isText (el t attrs kids) = false := by
  refine ⟨?_, rfl⟩
  simp only [el, Normal]
  exact normal_elems kids h

theorem normal_named (t : Tag) (n : Str) : Normal (named t n) ∧ isText (named t n) = false :=
  normal_el _ _ _ (by simp)

theorem normal_filter (f : Filter) : Normal f.toXml ∧ isText f.toXml = false := by
  apply normal_el
  intro k hk
  simp only [List.mem_append, List.mem_map] at hk
  rcases hk with ⟨x, _, rfl⟩ | ⟨x, _, rfl⟩ <;> exact normal_named _ _

theorem normal_activity (a : Activity) : Normal a.toXml ∧ isText a.toXml = false := by
  apply normal_el
  intro k hk
  simp only [List.mem_map] at hk
  obtain ⟨f, _, rfl⟩ := hk
  exact normal_filter f

theorem normal_toXml (m : AppManifest) : Normal m.toXml := by
  refine (normal_el _ _ _ ?_).1
  intro k hk
  simp only [List.mem_append, List.mem_map, List.mem_singleton] at hk
  rcases hk with ⟨s, _, rfl⟩ | ⟨p, _, rfl⟩ | ⟨x, _, rfl⟩ | rfl
  · exact normal_el _ _ _ (by simp)
  · exact normal_el _ _ _ (by simp)
  · exact normal_named _ _
  · apply normal_el
    intro k hk
    simp only [List.mem_append, List.mem_map] at hk
    rcases hk with ⟨a, _, rfl⟩ | ⟨x, _, rfl⟩ | ⟨x, _, rfl⟩ | ⟨x, _, rfl⟩ | ⟨x, _, rfl⟩
    · exact normal_activity a
    all_goals exact normal_named _ _

/-! ### composition with C26 -/

/-- the printer on the manifest's file returns the XML of the manifest -/
theorem print_manifest (opq : Nat → Nat → Str) (E : Enc) (ln : Nat) (m : AppManifest) (hf : m.fits = true)
    (hwf : wfDoc opq E (docOf ln m) = true) :
    printAxml opq (encodeAxml E (docOf ln m)) = .ok (true, some m.toXml) := by
  rw [C26.axml_roundtrip_norm opq E _ hwf, treeOf_docOf opq ln m hf, AgVerif.Proof.Axml.norm_normal _ (normal_toXml m)]

end AgVerif.Proof.Manifest
