/-
C22 (part 5) — `control_flow.derived_sequence` (model: Model/DerivedSeq.lean).

A. `loopG` is `Intervals.loop` plus the records of the dict `edges`.
B. ORDER IRRELEVANCE: the derived sequence reads the numbering of the first graph (`rpo[1:]`) and the order
   of its predecessor lists only as SETS: two runs whose `rpo[1:]` and predecessor lists are permutations of
   one another produce the same sequence, except that each `Interval.content` of the first level is a
   permutation; every later level is identical.  (The order of `graph.nodes` is different: it decides which
   interval-graph edges are recorded, see `nodes_order_matters` in Props/C22.lean.)
-/
import AgVerif.Model.DerivedSeq
import AgVerif.Proof.Intervals
import AgVerif.Props.C19
import Mathlib.Data.List.Forall2
import Mathlib.Data.List.Nodup
import Mathlib.Data.List.ProdSigma
import Mathlib.Data.List.Perm.Subperm
namespace AgVerif.DerivedSeq
open List AgVerif.Intervals

/-! ### A. `loopG` and `loop` -/

theorem loopG_loop (preds : Nat → List Nat) (order nodes : List Nat) (ifuel : Nat) :
    ∀ (f : Nat) (heads processed : List Nat) (out : List (Nat × List Nat)) (recs : List (Nat × Nat))
      (o : List (Nat × List Nat)) (r : List (Nat × Nat)),
    loopG preds order nodes ifuel f heads processed out recs = some (o, r) →
    loop preds order nodes ifuel f heads processed out = some o := by
  intro f
  induction f with
  | zero => intro heads processed out recs o r h; simp [loopG] at h
  | succ f ih =>
    intro heads processed out recs o r h
    cases heads with
    | nil => simp [loopG] at h; simp [loop, h.1]
    | cons a t =>
      simp only [loopG] at h
      simp only [loop]
      split at h
      · next hc => rw [if_pos hc]; exact ih _ _ _ _ _ _ h
      · next hc =>
        rw [if_neg hc]
        split at h
        · simp at h
        · next I hI => simp only [hI]; exact ih _ _ _ _ _ _ h

theorem loop_loopG (preds : Nat → List Nat) (order nodes : List Nat) (ifuel : Nat) :
    ∀ (f : Nat) (heads processed : List Nat) (out : List (Nat × List Nat)) (recs : List (Nat × Nat))
      (o : List (Nat × List Nat)),
    loop preds order nodes ifuel f heads processed out = some o →
    ∃ r, loopG preds order nodes ifuel f heads processed out recs = some (o, r) := by
  intro f
  induction f with
  | zero => intro heads processed out recs o h; simp [loop] at h
  | succ f ih =>
    intro heads processed out recs o h
    cases heads with
    | nil => simp [loop] at h; exact ⟨recs, by simp [loopG, h]⟩
    | cons a t =>
      simp only [loop] at h
      simp only [loopG]
      split at h
      · next hc => rw [if_pos hc]; exact ih _ _ _ _ _ h
      · next hc =>
        rw [if_neg hc]
        split at h
        · simp at h
        · next I hI => simp only [hI]; exact ih _ _ _ _ _ h

/-- `intervalsG` returns the `interv_heads` of `Intervals.intervals` -/
theorem intervalsG_intervals (L : Level) (o : List (Nat × List Nat)) (r : List (Nat × Nat))
    (h : intervalsG L = some (o, r)) : intervals L.preds L.order L.nodes L.entry = some o :=
  loopG_loop _ _ _ _ _ _ _ _ _ _ _ h

/-- the model of `intervals` with the edge records terminates on every input -/
theorem intervalsG_total (L : Level) : ∃ o r, intervalsG L = some (o, r) := by
  obtain ⟨o, ho⟩ := intervals_total L.preds L.order L.nodes L.entry
  obtain ⟨r, hr⟩ := loop_loopG _ _ _ _ _ _ _ _ [] _ ho
  exact ⟨o, r, hr⟩

/-! ### B. order irrelevance -/

/-- same header, content up to a permutation -/
def CRel (a b : Nat × List Nat) : Prop := a.1 = b.1 ∧ a.2 ~ b.2

theorem contains_congr {I₁ I₂ : List Nat} (h : ∀ x, x ∈ I₁ ↔ x ∈ I₂) (n : Nat) :
    I₁.contains n = I₂.contains n := by
  rw [Bool.eq_iff_iff]; simp [h n]

theorem anyPredIn_congr {p₁ p₂ : Nat → List Nat} (hp : ∀ n x, x ∈ p₁ n ↔ x ∈ p₂ n) {I₁ I₂ : List Nat}
    (hI : ∀ x, x ∈ I₁ ↔ x ∈ I₂) (n : Nat) : anyPredIn p₁ I₁ n = anyPredIn p₂ I₂ n := by
  rw [Bool.eq_iff_iff, anyPredIn_iff, anyPredIn_iff]
  constructor
  · rintro ⟨p, h1, h2⟩; exact ⟨p, (hp n p).mp h1, (hI p).mp h2⟩
  · rintro ⟨p, h1, h2⟩; exact ⟨p, (hp n p).mpr h1, (hI p).mpr h2⟩

theorem newHeads_congr {p₁ p₂ : Nat → List Nat} (hp : ∀ n x, x ∈ p₁ n ↔ x ∈ p₂ n) {I₁ I₂ : List Nat}
    (hI : ∀ x, x ∈ I₁ ↔ x ∈ I₂) (nodes heads : List Nat) :
    newHeads p₁ nodes I₁ heads = newHeads p₂ nodes I₂ heads := by
  have : (fun (hs : List Nat) n => if !I₁.contains n && !hs.contains n && anyPredIn p₁ I₁ n then hs ++ [n] else hs)
      = (fun (hs : List Nat) n => if !I₂.contains n && !hs.contains n && anyPredIn p₂ I₂ n then hs ++ [n] else hs) := by
    funext hs n
    rw [contains_congr hI n, anyPredIn_congr hp hI n]
  unfold newHeads
  rw [this]

/-- the node set of an interval depends on `rpo[1:]` and on the predecessor lists only as sets -/
theorem intervalOf_perm2 {p₁ p₂ : Nat → List Nat} (hp : ∀ n x, x ∈ p₁ n ↔ x ∈ p₂ n) {o₁ o₂ : List Nat}
    (ho : ∀ n, n ∈ o₁ ↔ n ∈ o₂) (f₁ f₂ h : Nat) (R₁ R₂ : List Nat)
    (h1 : intervalOf p₁ o₁ f₁ h = some R₁) (h2 : intervalOf p₂ o₂ f₂ h = some R₂) : R₁ ~ R₂ := by
  obtain ⟨a1, a2, a3, a4⟩ := grow_spec p₁ o₁ f₁ [h] R₁ h1
  obtain ⟨b1, b2, b3, b4⟩ := grow_spec p₂ o₂ f₂ [h] R₂ h2
  have c12 : Closed p₁ o₁ (· ∈ R₂) :=
    fun n hn hpr => b2 n ((ho n).mp hn) (fun p hp' => hpr p ((hp n p).mpr hp'))
  have c21 : Closed p₂ o₂ (· ∈ R₁) :=
    fun n hn hpr => a2 n ((ho n).mpr hn) (fun p hp' => hpr p ((hp n p).mp hp'))
  exact (perm_ext_iff_of_nodup (a4 (by simp)) (b4 (by simp))).mpr
    (fun x => ⟨a3 _ c12 b1 x, b3 _ c21 a1 x⟩)

theorem forall₂_snoc {α β} {R : α → β → Prop} {l₁ : List α} {l₂ : List β} {a : α} {b : β}
    (h : Forall₂ R l₁ l₂) (hab : R a b) : Forall₂ R (l₁ ++ [a]) (l₂ ++ [b]) := by
  induction h with
  | nil => exact .cons hab .nil
  | cons h _ ih => exact .cons h ih

/-- two runs of the header loop on permuted `rpo[1:]` / predecessor lists go through the same states -/
theorem loopG_sim {p₁ p₂ : Nat → List Nat} (hp : ∀ n x, x ∈ p₁ n ↔ x ∈ p₂ n) {o₁ o₂ : List Nat}
    (ho : o₁ ~ o₂) (nodes : List Nat) :
    ∀ (f : Nat) (heads processed : List Nat) (out₁ out₂ : List (Nat × List Nat)) (recs : List (Nat × Nat))
      (res₁ : List (Nat × List Nat)) (r₁ : List (Nat × Nat)), Forall₂ CRel out₁ out₂ →
    loopG p₁ o₁ nodes (o₁.length + 2) f heads processed out₁ recs = some (res₁, r₁) →
    ∃ res₂, loopG p₂ o₂ nodes (o₂.length + 2) f heads processed out₂ recs = some (res₂, r₁) ∧
      Forall₂ CRel res₁ res₂ := by
  intro f
  induction f with
  | zero => intro heads processed out₁ out₂ recs res₁ r₁ _ h; simp [loopG] at h
  | succ f ih =>
    intro heads processed out₁ out₂ recs res₁ r₁ hrel h
    cases heads with
    | nil =>
      simp [loopG] at h
      exact ⟨out₂, by simp [loopG, h.2], h.1 ▸ hrel⟩
    | cons a t =>
      simp only [loopG] at h ⊢
      split at h
      · next hc => rw [if_pos hc]; exact ih _ _ _ _ _ _ _ hrel h
      · next hc =>
        rw [if_neg hc]
        split at h
        · simp at h
        · next I₁ hI₁ =>
          obtain ⟨I₂, hI₂⟩ := intervalOf_total p₂ o₂ a
          have hperm : I₁ ~ I₂ := intervalOf_perm2 hp (fun _ => ho.mem_iff) _ _ a I₁ I₂ hI₁ hI₂
          simp only [hI₂]
          rw [← newHeads_congr hp (fun _ => hperm.mem_iff) nodes t]
          exact ih _ _ _ _ _ _ _ (forall₂_snoc (a := (a, I₁)) (b := (a, I₂)) hrel ⟨rfl, hperm⟩) h

theorem crel_map_fst {o₁ o₂ : List (Nat × List Nat)} (h : Forall₂ CRel o₁ o₂) :
    o₁.map Prod.fst = o₂.map Prod.fst := by
  induction h with
  | nil => rfl
  | cons hab _ ih => simp [hab.1, ih]

theorem crel_entryIdx_aux {o₁ o₂ : List (Nat × List Nat)} (h : Forall₂ CRel o₁ o₂) (e : Nat) :
    ∀ (k acc : Nat),
    (o₁.zipIdx k).foldl (fun acc p => if p.1.2.contains e then p.2 else acc) acc =
    (o₂.zipIdx k).foldl (fun acc p => if p.1.2.contains e then p.2 else acc) acc := by
  induction h with
  | nil => intro k acc; rfl
  | cons hab _ ih =>
    intro k acc
    simp only [zipIdx_cons, foldl_cons]
    rw [contains_congr (fun _ => hab.2.mem_iff) e]
    exact ih _ _

theorem crel_entryIdx {o₁ o₂ : List (Nat × List Nat)} (h : Forall₂ CRel o₁ o₂) (e : Nat) :
    entryIdx o₁ e = entryIdx o₂ e := crel_entryIdx_aux h e 0 0

/-- the interval graph and its numbering read `interv_heads` only through the headers, their order, and
    which contents have the entry -/
theorem nextLevel_congr {o₁ o₂ : List (Nat × List Nat)} (h : Forall₂ CRel o₁ o₂) (r : List (Nat × Nat))
    (e : Nat) : nextLevel o₁ r e = nextLevel o₂ r e := by
  unfold nextLevel intervalDigraph
  rw [crel_map_fst h, crel_entryIdx h e, h.length_eq]

/-- the accumulator of `derive` is only appended to -/
theorem derive_acc : ∀ (f : Nat) (L : Level) (acc : List Step),
    derive f L acc = (derive f L []).map (fun t => acc ++ t) := by
  intro f
  induction f with
  | zero => intro L acc; simp [derive]
  | succ f ih =>
    intro L acc
    simp only [derive]
    split
    · simp
    · split
      · simp
      · next out recs L' rpo _ =>
        simp only [nil_append]
        split
        · simp
        · rw [ih L' (acc ++ _), ih L' [_]]
          simp [Option.map_map, Function.comp_def]

/-- the steps of two runs: `interv_heads` with contents up to a permutation, everything else equal -/
def StepRel (s₁ s₂ : Step) : Prop :=
  Forall₂ CRel s₁.heads s₂.heads ∧ s₁.recs = s₂.recs ∧ s₁.rpo = s₂.rpo ∧ s₁.entry = s₂.entry

theorem predSum_congr {L₁ L₂ : Level} (hn : L₁.nodes = L₂.nodes) (hp : ∀ n, L₁.preds n ~ L₂.preds n) :
    predSum L₁ = predSum L₂ := by
  unfold predSum
  rw [hn]
  congr 1
  apply map_congr_left
  intro n _
  exact (hp n).length_eq

/-- ORDER IRRELEVANCE of `derived_sequence`: permuting `rpo[1:]` (renumbering the first graph) and the
    predecessor lists changes nothing but the insertion order inside the contents of the first level -/
theorem derive_order_irrelevant (L₁ L₂ : Level) (hn : L₁.nodes = L₂.nodes) (he : L₁.entry = L₂.entry)
    (ho : L₁.order ~ L₂.order) (hp : ∀ n, L₁.preds n ~ L₂.preds n) (f : Nat) (r₁ : List Step)
    (h : derive f L₁ [] = some r₁) :
    ∃ s₁ s₂ t, r₁ = s₁ :: t ∧ derive f L₂ [] = some (s₂ :: t) ∧ StepRel s₁ s₂ := by
  cases f with
  | zero => simp [derive] at h
  | succ f =>
    simp only [derive] at h ⊢
    split at h
    · simp at h
    · next out₁ recs hI =>
      unfold intervalsG at hI
      obtain ⟨out₂, h2, hrel⟩ := loopG_sim (fun n _ => (hp n).mem_iff) ho L₁.nodes _ _ _ [] [] _ _ _ .nil hI
      have hI2 : intervalsG L₂ = some (out₂, recs) := by
        unfold intervalsG
        rw [← hn, ← he]
        exact h2
      simp only [hI2]
      rw [← he, ← nextLevel_congr hrel]
      split at h
      · simp at h
      · next L' rpo hN =>
        simp only [nil_append] at h ⊢
        rw [← hrel.length_eq]
        split at h
        · next hl =>
          simp at h
          rw [if_pos (by simpa using hl)]
          exact ⟨⟨out₁, recs, rpo, L'.entry⟩, ⟨out₂, recs, rpo, L'.entry⟩, [], h.symm, rfl, hrel, rfl, rfl, rfl⟩
        · next hl =>
          rw [derive_acc] at h ⊢
          cases hd : derive f L' [] with
          | none => simp [hd] at h
          | some t =>
            simp [hd] at h
            rw [if_neg (by simpa using hl)]
            simp only [Option.map_some]
            exact ⟨⟨out₁, recs, rpo, L'.entry⟩, ⟨out₂, recs, rpo, L'.entry⟩, t, h.symm, rfl, hrel, rfl, rfl, rfl⟩

theorem derivedSequence_order_irrelevant (L₁ L₂ : Level) (hn : L₁.nodes = L₂.nodes) (he : L₁.entry = L₂.entry)
    (ho : L₁.order ~ L₂.order) (hp : ∀ n, L₁.preds n ~ L₂.preds n) (r₁ : List Step)
    (h : derivedSequence L₁ = some r₁) :
    ∃ s₁ s₂ t, r₁ = s₁ :: t ∧ derivedSequence L₂ = some (s₂ :: t) ∧ StepRel s₁ s₂ := by
  unfold derivedSequence fuel at h ⊢
  rw [← predSum_congr hn hp]
  exact derive_order_irrelevant L₁ L₂ hn he ho hp _ r₁ h

/-! ### C. termination: invariants of the header loop with the edge records -/

theorem least_self (preds : Nat → List Nat) (order : List Nat) (h : Nat) : Least preds order h h :=
  fun _ _ hh => hh

theorem least_closed (preds : Nat → List Nat) (order : List Nat) (h : Nat) :
    Closed preds order (Least preds order h) :=
  fun n hn hp S hS hh => hS n hn (fun p hpp => hp p hpp S hS hh)

/-- a node of an interval is its header, or a node of `rpo[1:]` all of whose predecessors are inside -/
theorem least_inv (preds : Nat → List Nat) (order : List Nat) (h x : Nat) (hx : Least preds order h x) :
    x = h ∨ (x ∈ order ∧ ∀ p ∈ preds x, Least preds order h p) := by
  apply hx (fun x => x = h ∨ (x ∈ order ∧ ∀ p ∈ preds x, Least preds order h p))
  · intro n hn hp
    refine Or.inr ⟨hn, fun p hpp => ?_⟩
    rcases hp p hpp with e | ⟨ho, hall⟩
    · exact e ▸ least_self preds order h
    · exact least_closed preds order h p ho hall
  · exact Or.inl rfl

/-- shape of `newHeads`: the old work list followed by the appended nodes -/
theorem nh_struct (preds : Nat → List Nat) (I : List Nat) : ∀ (l hs : List Nat),
    ∃ added, l.foldl (nhStep preds I) hs = hs ++ added ∧ added.Nodup ∧
      ∀ n ∈ added, n ∈ l ∧ n ∉ I ∧ n ∉ hs ∧ ∃ p ∈ preds n, p ∈ I := by
  intro l
  induction l with
  | nil => intro hs; exact ⟨[], by simp, by simp, by simp⟩
  | cons n l ih =>
    intro hs
    simp only [foldl_cons]
    by_cases hc : (!I.contains n && !hs.contains n && anyPredIn preds I n) = true
    · have e : nhStep preds I hs n = hs ++ [n] := by simp only [nhStep, hc, if_true]
      rw [e]
      obtain ⟨added, h1, h2, h3⟩ := ih (hs ++ [n])
      simp only [Bool.and_eq_true, Bool.not_eq_true', contains_eq_mem, decide_eq_false_iff_not] at hc
      refine ⟨n :: added, by rw [h1]; simp, ?_, ?_⟩
      · refine nodup_cons.mpr ⟨fun hm => ?_, h2⟩
        have := (h3 n hm).2.2.1
        simp at this
      · intro m hm
        rcases mem_cons.mp hm with e | hm
        · subst e
          exact ⟨mem_cons_self, hc.1.1, hc.1.2, (anyPredIn_iff preds I m).mp hc.2⟩
        · obtain ⟨a, b, c, d⟩ := h3 m hm
          exact ⟨mem_cons_of_mem _ a, b, fun hh => c (mem_append_left _ hh), d⟩
    · have e : nhStep preds I hs n = hs := by simp only [nhStep, hc]; simp
      rw [e]
      obtain ⟨added, h1, h2, h3⟩ := ih hs
      exact ⟨added, h1, h2, fun m hm => ⟨mem_cons_of_mem _ (h3 m hm).1, (h3 m hm).2⟩⟩

/-- number of records `(·, n)` -/
def cnt (recs : List (Nat × Nat)) (n : Nat) : Nat := recs.countP (fun r => r.2 == n)

theorem cnt_append_map (recs : List (Nat × Nat)) (h : Nat) (added : List Nat) (m : Nat) :
    cnt (recs ++ added.map (fun n => (h, n))) m = cnt recs m + added.count m := by
  unfold cnt
  rw [countP_append, countP_map]
  rfl

theorem idxOf_snoc_lt {l : List Nat} {a n : Nat} (h : Nat) (ha : a ∈ l) (hlt : idxOf a l < idxOf n l) :
    idxOf a (l ++ [h]) < idxOf n (l ++ [h]) := by
  rw [idxOf_append_of_mem ha]
  by_cases hn : n ∈ l
  · rw [idxOf_append_of_mem hn]; exact hlt
  · rw [idxOf_append_of_notMem hn]
    have := idxOf_lt_length_iff.mpr ha
    omega

/-- invariant of `loopG` (no hypothesis on the graph): `processed` in reverse is the header list of `out`,
    every record `(h, n)` was made while `h` was processed and `n` was not pending, every header but the
    entry has a record from an EARLIER header, an unprocessed node has at most one record -/
structure GI (preds : Nat → List Nat) (order nodes : List Nat) (entry : Nat)
    (heads processed : List Nat) (out : List (Nat × List Nat)) (recs : List (Nat × Nat)) : Prop where
  outP : out.map Prod.fst = processed.reverse
  pN : processed.Nodup
  outI : ∀ p ∈ out, ∀ x, x ∈ p.2 ↔ Least preds order p.1 x
  hN : heads.Nodup
  rec1 : ∀ r ∈ recs, r.1 ∈ processed ∧ r.2 ∈ nodes ∧ ¬ Least preds order r.1 r.2 ∧
    ∃ p ∈ preds r.2, Least preds order r.1 p
  rec2 : ∀ r ∈ recs, r.2 ∈ heads ∨ r.2 ∈ processed
  recN : recs.Nodup
  first : ∀ n, (n ∈ heads ∨ n ∈ processed) → n = entry ∨
    ∃ h, (h, n) ∈ recs ∧ h ∈ processed ∧ idxOf h processed.reverse < idxOf n processed.reverse
  ent : entry ∈ processed ∨ (heads = [entry] ∧ recs = [])
  j1 : ∀ n, n ∉ processed → cnt recs n ≤ 1 ∧ (1 ≤ cnt recs n → n ∈ heads)
  j2 : ∀ z, processed.head? = some z → cnt recs z ≤ 1

theorem GI.init (preds : Nat → List Nat) (order nodes : List Nat) (entry : Nat) :
    GI preds order nodes entry [entry] [] [] [] where
  outP := rfl
  pN := nodup_nil
  outI := by simp
  hN := by simp
  rec1 := by simp
  rec2 := by simp
  recN := nodup_nil
  first := by intro n hn; simp at hn; exact Or.inl hn
  ent := Or.inr ⟨rfl, rfl⟩
  j1 := by intro n _; simp [cnt]
  j2 := by simp

theorem GI.skip {preds : Nat → List Nat} {order nodes : List Nat} {entry h : Nat} {t processed : List Nat}
    {out : List (Nat × List Nat)} {recs : List (Nat × Nat)}
    (g : GI preds order nodes entry (h :: t) processed out recs) (hp : h ∈ processed) :
    GI preds order nodes entry t processed out recs where
  outP := g.outP
  pN := g.pN
  outI := g.outI
  hN := (nodup_cons.mp g.hN).2
  rec1 := g.rec1
  rec2 := by
    intro r hr
    rcases g.rec2 r hr with h1 | h1
    · rcases mem_cons.mp h1 with e | h2
      · exact Or.inr (e ▸ hp)
      · exact Or.inl h2
    · exact Or.inr h1
  recN := g.recN
  first := by
    intro n hn
    exact g.first n (hn.imp (mem_cons_of_mem _) id)
  ent := by
    rcases g.ent with h1 | ⟨h1, _⟩
    · exact Or.inl h1
    · simp at h1; exact Or.inl (h1.1 ▸ hp)
  j1 := by
    intro n hn
    refine ⟨(g.j1 n hn).1, fun hc => ?_⟩
    rcases mem_cons.mp ((g.j1 n hn).2 hc) with e | h2
    · exact absurd (e ▸ hp) hn
    · exact h2
  j2 := g.j2

theorem GI.proc {preds : Nat → List Nat} {order nodes : List Nat} {entry h : Nat} {t processed : List Nat}
    {out : List (Nat × List Nat)} {recs : List (Nat × Nat)}
    (g : GI preds order nodes entry (h :: t) processed out recs) (hp : h ∉ processed)
    {I : List Nat} (hI : ∀ x, x ∈ I ↔ Least preds order h x) :
    GI preds order nodes entry (newHeads preds nodes I t) (h :: processed) (out ++ [(h, I)])
      (recs ++ ((newHeads preds nodes I t).drop t.length).map (fun n => (h, n))) := by
  obtain ⟨added, e, aN, aP⟩ := nh_struct preds I nodes t
  rw [newHeads_eq, e, drop_left]
  have hhI : h ∈ I := (hI h).mpr (least_self _ _ _)
  have hna : h ∉ added := fun hm => (aP h hm).2.1 hhI
  have tN : t.Nodup := (nodup_cons.mp g.hN).2
  have hnt : h ∉ t := (nodup_cons.mp g.hN).1
  refine
    { outP := by simp [g.outP]
      pN := nodup_cons.mpr ⟨hp, g.pN⟩
      outI := ?_, hN := ?_, rec1 := ?_, rec2 := ?_, recN := ?_, first := ?_
      ent := ?_, j1 := ?_, j2 := ?_ }
  · intro p hpm x
    rcases mem_append.mp hpm with h1 | h1
    · exact g.outI p h1 x
    · simp at h1; subst h1; exact hI x
  · refine nodup_append.mpr ⟨tN, aN, ?_⟩
    intro a ha b hb hab
    exact (aP b hb).2.2.1 (hab ▸ ha)
  · intro r hr
    rcases mem_append.mp hr with h1 | h1
    · obtain ⟨a, b, c, d⟩ := g.rec1 r h1
      exact ⟨mem_cons_of_mem _ a, b, c, d⟩
    · obtain ⟨n, hn, rfl⟩ := mem_map.mp h1
      obtain ⟨a, b, _, p, hp1, hp2⟩ := aP n hn
      exact ⟨mem_cons_self, a, fun hl => b ((hI n).mpr hl), p, hp1, (hI p).mp hp2⟩
  · intro r hr
    rcases mem_append.mp hr with h1 | h1
    · rcases g.rec2 r h1 with h2 | h2
      · rcases mem_cons.mp h2 with e2 | h3
        · exact Or.inr (e2 ▸ mem_cons_self)
        · exact Or.inl (mem_append_left _ h3)
      · exact Or.inr (mem_cons_of_mem _ h2)
    · obtain ⟨n, hn, rfl⟩ := mem_map.mp h1
      exact Or.inl (mem_append_right _ hn)
  · refine nodup_append.mpr ⟨g.recN, ?_, ?_⟩
    · exact List.Nodup.map (f := fun n => (h, n)) (fun a b hab => by simpa using hab) aN
    · intro a ha b hb hab
      obtain ⟨n, _, rfl⟩ := mem_map.mp hb
      have h5 := (g.rec1 a ha).1
      rw [hab] at h5
      exact hp h5
  · intro n hn
    by_cases hold : n ∈ h :: t ∨ n ∈ processed
    · rcases g.first n hold with h1 | ⟨a, ha1, ha2, ha3⟩
      · exact Or.inl h1
      · refine Or.inr ⟨a, mem_append_left _ ha1, mem_cons_of_mem _ ha2, ?_⟩
        rw [reverse_cons]
        exact idxOf_snoc_lt h (mem_reverse.mpr ha2) ha3
    · have hnp : n ∉ processed := fun c => hold (Or.inr c)
      have hnh : n ≠ h := fun c => hold (Or.inl (c ▸ mem_cons_self))
      have hnt' : n ∉ t := fun c => hold (Or.inl (mem_cons_of_mem _ c))
      have hna' : n ∈ added := by
        rcases hn with h1 | h1
        · exact (mem_append.mp h1).resolve_left hnt'
        · exact absurd h1 (by simp [hnh, hnp])
      refine Or.inr ⟨h, mem_append_right _ (mem_map.mpr ⟨n, hna', rfl⟩), mem_cons_self, ?_⟩
      rw [reverse_cons]
      have h1 : h ∉ processed.reverse := fun c => hp (mem_reverse.mp c)
      have h2 : n ∉ processed.reverse := fun c => hnp (mem_reverse.mp c)
      rw [idxOf_append_of_notMem h1, idxOf_append_of_notMem h2]
      simp [hnh]
  · rcases g.ent with h1 | ⟨h1, _⟩
    · exact Or.inl (mem_cons_of_mem _ h1)
    · simp at h1; exact Or.inl (h1.1 ▸ mem_cons_self)
  · intro n hn
    have hnp : n ∉ processed := fun c => hn (mem_cons_of_mem _ c)
    have hnh : n ≠ h := fun c => hn (c ▸ mem_cons_self)
    obtain ⟨c1, c2⟩ := g.j1 n hnp
    rw [cnt_append_map]
    by_cases hna' : n ∈ added
    · have hnt' : n ∉ t := (aP n hna').2.2.1
      have c0 : cnt recs n = 0 := by
        by_contra hc
        rcases mem_cons.mp (c2 (by omega)) with e2 | h3
        · exact hnh e2
        · exact hnt' h3
      rw [c0, count_eq_one_of_mem aN hna']
      exact ⟨by omega, fun _ => mem_append_right _ hna'⟩
    · rw [count_eq_zero_of_not_mem hna']
      refine ⟨by omega, fun hc => ?_⟩
      rcases mem_cons.mp (c2 (by omega)) with e2 | h3
      · exact absurd e2 hnh
      · exact mem_append_left _ h3
  · intro z hz
    simp at hz; subst hz
    rw [cnt_append_map, count_eq_zero_of_not_mem hna]
    exact (g.j1 h hp).1

/-- DISJOINTNESS invariant (needs: the entry is not in `rpo[1:]`, every node of `rpo[1:]` has a predecessor):
    the intervals of two processed headers share no node, a pending node is in no processed interval -/
structure DI (preds : Nat → List Nat) (order : List Nat) (heads processed : List Nat) : Prop where
  d1 : ∀ a ∈ processed, ∀ b ∈ processed, a ≠ b → ∀ x, Least preds order a x → ¬ Least preds order b x
  d2 : ∀ n ∈ heads, n ∈ processed ∨ ∀ a ∈ processed, ¬ Least preds order a n

theorem DI.init (preds : Nat → List Nat) (order : List Nat) (entry : Nat) : DI preds order [entry] [] :=
  ⟨by simp, by simp⟩

theorem DI.skip {preds : Nat → List Nat} {order : List Nat} {h : Nat} {t processed : List Nat}
    (d : DI preds order (h :: t) processed) : DI preds order t processed :=
  ⟨d.d1, fun n hn => d.d2 n (mem_cons_of_mem _ hn)⟩

theorem DI.proc {preds : Nat → List Nat} {order nodes : List Nat} {entry h : Nat} {t processed : List Nat}
    {out : List (Nat × List Nat)} {recs : List (Nat × Nat)}
    (hN1 : entry ∉ order) (hN2 : ∀ n ∈ order, preds n ≠ [])
    (g : GI preds order nodes entry (h :: t) processed out recs) (d : DI preds order (h :: t) processed)
    (hp : h ∉ processed) {I : List Nat} (hI : ∀ x, x ∈ I ↔ Least preds order h x) :
    DI preds order (newHeads preds nodes I t) (h :: processed) := by
  obtain ⟨added, e, aN, aP⟩ := nh_struct preds I nodes t
  rw [newHeads_eq, e]
  have hnt : h ∉ t := (nodup_cons.mp g.hN).1
  -- a processed header that lies in `rpo[1:]` has a predecessor in an earlier processed interval
  have hrec : ∀ n, (n ∈ h :: t ∨ n ∈ processed) → n ∈ order →
      ∃ b ∈ processed, ∃ q ∈ preds n, Least preds order b q := by
    intro n hn hno
    rcases g.first n hn with e1 | ⟨b, hb1, hb2, _⟩
    · exact absurd (e1 ▸ hno) hN1
    · obtain ⟨_, _, _, q, hq1, hq2⟩ := g.rec1 _ hb1
      exact ⟨b, hb2, q, hq1, hq2⟩
  -- the new interval meets no processed interval
  have K : ∀ x, Least preds order h x → ∀ a ∈ processed, ¬ Least preds order a x := by
    intro x hx
    apply hx (fun x => ∀ a ∈ processed, ¬ Least preds order a x)
    · intro n hno hpn a ha hl
      rcases least_inv preds order a n hl with e1 | ⟨_, hall⟩
      · subst e1
        obtain ⟨b, hb, q, hq1, hq2⟩ := hrec n (Or.inr ha) hno
        exact hpn q hq1 b hb hq2
      · obtain ⟨p, hpm⟩ := exists_mem_of_ne_nil _ (hN2 n hno)
        exact hpn p hpm a ha (hall p hpm)
    · rcases d.d2 h mem_cons_self with h1 | h1
      · exact absurd h1 hp
      · exact h1
  refine ⟨?_, ?_⟩
  · intro a ha b hb hab x hxa hxb
    rcases mem_cons.mp ha with ea | ha'
    · rcases mem_cons.mp hb with eb | hb'
      · exact hab (ea.trans eb.symm)
      · subst ea; exact K x hxa b hb' hxb
    · rcases mem_cons.mp hb with eb | hb'
      · subst eb; exact K x hxb a ha' hxa
      · exact d.d1 a ha' b hb' hab x hxa hxb
  · intro n hn
    by_cases hnp : n ∈ processed
    · exact Or.inl (mem_cons_of_mem _ hnp)
    · by_cases hnh : n = h
      · exact Or.inl (hnh ▸ mem_cons_self)
      · right
        intro a ha hl
        rcases mem_append.mp hn with hnt' | hna
        · -- an old pending node: it has a predecessor in an earlier interval
          rcases mem_cons.mp ha with ea | ha'
          · subst ea
            rcases least_inv preds order a n hl with e1 | ⟨hno, hall⟩
            · exact hnh e1
            · obtain ⟨b, hb, q, hq1, hq2⟩ := hrec n (Or.inl (mem_cons_of_mem _ hnt')) hno
              exact K q (hall q hq1) b hb hq2
          · rcases d.d2 n (mem_cons_of_mem _ hnt') with h1 | h1
            · exact hnp h1
            · exact h1 a ha' hl
        · -- a node appended now: outside the new interval, with a predecessor inside
          obtain ⟨_, hnI, _, p, hp1, hp2⟩ := aP n hna
          rcases mem_cons.mp ha with ea | ha'
          · subst ea; exact hnI ((hI n).mpr hl)
          · rcases least_inv preds order a n hl with e1 | ⟨_, hall⟩
            · exact hnp (e1 ▸ ha')
            · exact K p ((hI p).mp hp2) a ha' (hall p hp1)

/-- the invariants hold when `loopG` returns -/
theorem loopG_inv (preds : Nat → List Nat) (order nodes : List Nat) (entry ifuel : Nat) :
    ∀ (f : Nat) (heads processed : List Nat) (out : List (Nat × List Nat)) (recs : List (Nat × Nat))
      (o : List (Nat × List Nat)) (r : List (Nat × Nat)),
    loopG preds order nodes ifuel f heads processed out recs = some (o, r) →
    GI preds order nodes entry heads processed out recs →
    ∃ P, GI preds order nodes entry [] P o r ∧
      ((entry ∉ order) → (∀ n ∈ order, preds n ≠ []) → DI preds order heads processed → DI preds order [] P) := by
  intro f
  induction f with
  | zero => intro heads processed out recs o r h; simp [loopG] at h
  | succ f ih =>
    intro heads processed out recs o r h g
    cases heads with
    | nil =>
      simp [loopG] at h
      obtain ⟨rfl, rfl⟩ := h
      exact ⟨processed, g, fun _ _ d => d⟩
    | cons a t =>
      simp only [loopG] at h
      split at h
      · next hc =>
        have hc' : a ∈ processed := by simpa using hc
        obtain ⟨P, g', dd⟩ := ih _ _ _ _ _ _ h (g.skip hc')
        exact ⟨P, g', fun h1 h2 d => dd h1 h2 d.skip⟩
      · next hc =>
        have hc' : a ∉ processed := by simpa using hc
        split at h
        · simp at h
        · next I hI =>
          have hI' := intervalOf_least preds order ifuel a I hI
          obtain ⟨P, g', dd⟩ := ih _ _ _ _ _ _ h (g.proc hc' hI')
          exact ⟨P, g', fun h1 h2 d => dd h1 h2 (DI.proc h1 h2 g d hc' hI')⟩

/-! ### the number of recorded edges is smaller than the number of predecessor slots -/

/-- well-formedness of a level: `rpo[0]` is the entry, every other node of `rpo` has a predecessor, every
    node of the graph other than the entry is in `rpo[1:]`, `graph.nodes` lists no node twice.
    (True of every graph all of whose nodes are reachable from the entry, after `compute_rpo`.) -/
structure Nice (L : Level) : Prop where
  n1 : L.entry ∉ L.order
  n2 : ∀ n ∈ L.order, L.preds n ≠ []
  n3 : ∀ n ∈ L.nodes, n ≠ L.entry → n ∈ L.order
  n4 : L.nodes.Nodup

/-- an injective relation from a duplicate-free list into a list bounds the length -/
theorem length_le_of_inj_rel {R : Nat → Nat → Prop} : ∀ (hs P : List Nat), hs.Nodup →
    (∀ h ∈ hs, ∃ p ∈ P, R h p) → (∀ h ∈ hs, ∀ h' ∈ hs, ∀ p, R h p → R h' p → h = h') →
    hs.length ≤ P.length := by
  intro hs
  induction hs with
  | nil => intro P _ _ _; simp
  | cons h t ih =>
    intro P hN hex hinj
    obtain ⟨p, hpP, hRp⟩ := hex h mem_cons_self
    have hN' := nodup_cons.mp hN
    have := ih (P.erase p) hN'.2
      (fun h' hh' => by
        obtain ⟨p', hp'P, hRp'⟩ := hex h' (mem_cons_of_mem _ hh')
        refine ⟨p', (mem_erase_of_ne ?_).mpr hp'P, hRp'⟩
        intro e
        subst e
        exact hN'.1 ((hinj h mem_cons_self h' (mem_cons_of_mem _ hh') p' hRp hRp') ▸ hh'))
      (fun a ha b hb q => hinj a (mem_cons_of_mem _ ha) b (mem_cons_of_mem _ hb) q)
    rw [length_erase_of_mem hpP] at this
    have : 0 < P.length := length_pos_of_mem hpP
    simp only [length_cons]
    omega

theorem sum_map_le (f g : Nat → Nat) : ∀ (l : List Nat), (∀ n ∈ l, f n ≤ g n) →
    (l.map f).sum ≤ (l.map g).sum := by
  intro l
  induction l with
  | nil => intro _; simp
  | cons a l ih =>
    intro h
    simp only [map_cons, sum_cons]
    have := ih (fun n hn => h n (mem_cons_of_mem _ hn))
    have := h a mem_cons_self
    omega

theorem sum_map_lt (f g : Nat → Nat) : ∀ (l : List Nat), (∀ n ∈ l, f n ≤ g n) → (∃ z ∈ l, f z < g z) →
    (l.map f).sum < (l.map g).sum := by
  intro l
  induction l with
  | nil => intro _ ⟨z, hz, _⟩; simp at hz
  | cons a l ih =>
    intro h ⟨z, hz, hlt⟩
    simp only [map_cons, sum_cons]
    have h1 := h a mem_cons_self
    have h2 := sum_map_le f g l (fun n hn => h n (mem_cons_of_mem _ hn))
    rcases mem_cons.mp hz with e | hz'
    · subst e; omega
    · have := ih (fun n hn => h n (mem_cons_of_mem _ hn)) ⟨z, hz', hlt⟩
      omega

theorem sum_cnt_cons (x : Nat × Nat) (r : List (Nat × Nat)) : ∀ (nodes : List Nat),
    (nodes.map (cnt (x :: r))).sum = (nodes.map (cnt r)).sum + nodes.count x.2 := by
  intro nodes
  induction nodes with
  | nil => simp
  | cons m nodes ih =>
    simp only [map_cons, sum_cons, ih, count_cons]
    have : cnt (x :: r) m = cnt r m + if (m == x.2) = true then 1 else 0 := by
      unfold cnt
      rw [countP_cons]
      by_cases e : x.2 = m
      · simp [e]
      · have : ¬ m = x.2 := fun c => e c.symm
        simp [e, this]
    rw [this]
    omega

/-- every record counted at its target -/
theorem length_eq_sum_cnt (nodes : List Nat) (hN : nodes.Nodup) : ∀ (r : List (Nat × Nat)),
    (∀ x ∈ r, x.2 ∈ nodes) → r.length = (nodes.map (cnt r)).sum := by
  intro r
  induction r with
  | nil =>
    intro _
    have : cnt [] = fun _ => 0 := by funext n; simp [cnt]
    simp [this]
  | cons x r ih =>
    intro h
    rw [sum_cnt_cons, ← ih (fun y hy => h y (mem_cons_of_mem _ hy)),
      count_eq_one_of_mem hN (h x mem_cons_self)]
    simp

/-- THE MEASURE DECREASES: on a well-formed level whose interval graph has more than one node, fewer edges
    are recorded for the interval graph than the level has predecessor slots.  (The last processed header has
    at most one recorded predecessor but at least two predecessors; the intervals are disjoint, so every other
    header has at most as many recorded predecessors as predecessors.) -/
theorem recs_lt_predSum (L : Level) (hL : Nice L) (o : List (Nat × List Nat)) (r : List (Nat × Nat))
    (h : intervalsG L = some (o, r)) (hlen : o.length ≠ 1) : r.length < predSum L := by
  obtain ⟨P, g, dd⟩ := loopG_inv L.preds L.order L.nodes L.entry _ _ _ _ _ _ _ _ h (GI.init _ _ _ _)
  have d := dd hL.n1 hL.n2 (DI.init _ _ _)
  have hent : L.entry ∈ P := by
    rcases g.ent with h1 | ⟨h1, _⟩
    · exact h1
    · simp at h1
  have hlenP : P.length = o.length := by
    have := congrArg length g.outP
    simpa using this.symm
  cases P with
  | nil => simp at hent
  | cons z P' =>
    have hP' : P' ≠ [] := by
      intro e; subst e; simp at hlenP; exact hlen hlenP.symm
    have hz : z ≠ L.entry := by
      intro e
      obtain ⟨n₀, tl, htl⟩ : ∃ n₀ tl, P'.reverse = n₀ :: tl := by
        cases hr : P'.reverse with
        | nil => simp at hr; exact absurd hr hP'
        | cons a b => exact ⟨a, b, rfl⟩
      have hn₀ : n₀ ∈ P' := by
        have : n₀ ∈ P'.reverse := by rw [htl]; exact mem_cons_self
        exact mem_reverse.mp this
      rcases g.first n₀ (Or.inr (mem_cons_of_mem _ hn₀)) with e1 | ⟨a, _, _, hlt⟩
      · exact (nodup_cons.mp g.pN).1 (e ▸ e1 ▸ hn₀)
      · rw [reverse_cons, htl] at hlt
        simp at hlt
    rcases g.first z (Or.inr mem_cons_self) with e | ⟨h₀, hr, _, _⟩
    · exact absurd e hz
    · obtain ⟨_, hznodes, hnl, p, hp1, hp2⟩ := g.rec1 _ hr
      have hzo : z ∈ L.order := hL.n3 z hznodes hz
      have hq : ∃ q ∈ L.preds z, ¬ Least L.preds L.order h₀ q := by
        by_contra hc
        exact hnl (least_closed _ _ h₀ z hzo (fun p' hp' => by
          by_contra hn
          exact hc ⟨p', hp', hn⟩))
      obtain ⟨q, hq1, hq2⟩ := hq
      have hpq : p ≠ q := fun e => hq2 (e ▸ hp2)
      have h2 : 2 ≤ (L.preds z).length := by
        have := length_le_of_inj_rel (R := fun a b => a = b) [p, q] (L.preds z) (by simp [hpq])
          (by
            intro x hx
            simp at hx
            rcases hx with rfl | rfl
            · exact ⟨_, hp1, rfl⟩
            · exact ⟨_, hq1, rfl⟩)
          (by intro a _ b _ c h1 h2; exact h1.trans h2.symm)
        simpa using this
      have hcz : cnt r z ≤ 1 := g.j2 z rfl
      have hper : ∀ n ∈ L.nodes, cnt r n ≤ (L.preds n).length := by
        intro n _
        have e1 : cnt r n = ((r.filter (fun x => x.2 == n)).map Prod.fst).length := by
          simp [cnt, countP_eq_length_filter]
        rw [e1]
        apply length_le_of_inj_rel (R := fun a p => p ∈ L.preds n ∧ Least L.preds L.order a p)
        · apply Nodup.map_on _ (g.recN.filter _)
          intro x hx y hy hxy
          simp at hx hy
          exact Prod.ext hxy (hx.2.trans hy.2.symm)
        · intro a ha
          obtain ⟨x, hx, rfl⟩ := mem_map.mp ha
          simp at hx
          obtain ⟨_, _, _, p', hp1', hp2'⟩ := g.rec1 x hx.1
          exact ⟨p', hx.2 ▸ hp1', hx.2 ▸ hp1', hp2'⟩
        · intro a ha b hb p' ⟨_, hpa⟩ ⟨_, hpb⟩
          obtain ⟨x, hx, rfl⟩ := mem_map.mp ha
          obtain ⟨y, hy, rfl⟩ := mem_map.mp hb
          simp at hx hy
          by_contra hab
          exact d.d1 _ (g.rec1 x hx.1).1 _ (g.rec1 y hy.1).1 hab p' hpa hpb
      rw [length_eq_sum_cnt L.nodes hL.n4 r (fun x hx => (g.rec1 x hx).2.1)]
      unfold predSum
      exact sum_map_lt _ _ _ hper ⟨z, hznodes, by omega⟩

/-! ### the stable sort of `compute_rpo` -/

theorem insertBy_perm (num : Nat → Nat) (x : Nat) : ∀ (l : List Nat), insertBy num x l ~ x :: l := by
  intro l
  induction l with
  | nil => exact Perm.refl _
  | cons y ys ih =>
    simp only [insertBy]
    split
    · exact Perm.refl _
    · exact (Perm.cons y ih).trans (Perm.swap x y ys)

theorem insertBy_sorted (num : Nat → Nat) (x : Nat) : ∀ (l : List Nat),
    l.Pairwise (fun a b => num a ≤ num b) → (insertBy num x l).Pairwise (fun a b => num a ≤ num b) := by
  intro l
  induction l with
  | nil => intro _; simp [insertBy]
  | cons y ys ih =>
    intro h
    have h' := pairwise_cons.mp h
    simp only [insertBy]
    split
    · next hlt =>
      refine pairwise_cons.mpr ⟨fun z hz => ?_, h⟩
      rcases mem_cons.mp hz with e | hz'
      · subst e; omega
      · have := h'.1 z hz'; omega
    · next hge =>
      refine pairwise_cons.mpr ⟨fun z hz => ?_, ih h'.2⟩
      rcases mem_cons.mp ((insertBy_perm num x ys).mem_iff.mp hz) with e | hz'
      · subst e; omega
      · exact h'.1 z hz'

theorem sortBy_aux (num : Nat → Nat) : ∀ (l acc : List Nat), acc.Pairwise (fun a b => num a ≤ num b) →
    (l.foldl (fun acc x => insertBy num x acc) acc) ~ l ++ acc ∧
    (l.foldl (fun acc x => insertBy num x acc) acc).Pairwise (fun a b => num a ≤ num b) := by
  intro l
  induction l with
  | nil => intro acc h; exact ⟨Perm.refl _, h⟩
  | cons x l ih =>
    intro acc h
    simp only [foldl_cons]
    obtain ⟨p, s⟩ := ih (insertBy num x acc) (insertBy_sorted num x acc h)
    refine ⟨p.trans ?_, s⟩
    exact ((insertBy_perm num x acc).append_left l).trans perm_middle

theorem sortBy_perm (num : Nat → Nat) (l : List Nat) : sortBy num l ~ l := by
  have := (sortBy_aux num l [] Pairwise.nil).1
  simpa [sortBy] using this

theorem sortBy_sorted (num : Nat → Nat) (l : List Nat) :
    (sortBy num l).Pairwise (fun a b => num a ≤ num b) :=
  (sortBy_aux num l [] Pairwise.nil).2

/-- when one element has the strictly smallest key it comes first -/
theorem sortBy_head (num : Nat → Nat) (l : List Nat) (e : Nat) (he : e ∈ l)
    (hmin : ∀ x ∈ l, x ≠ e → num e < num x) : ∃ tl, sortBy num l = e :: tl := by
  have hp := sortBy_perm num l
  have hs := sortBy_sorted num l
  cases hsl : sortBy num l with
  | nil =>
    rw [hsl] at hp
    exact absurd (hp.mem_iff.mpr he) (by simp)
  | cons a tl =>
    rw [hsl] at hp hs
    by_cases hae : a = e
    · exact ⟨tl, by rw [hae]⟩
    · have ha : a ∈ l := hp.mem_iff.mp mem_cons_self
      have he' : e ∈ tl := by
        rcases mem_cons.mp (hp.mem_iff.mpr he) with e1 | e1
        · exact absurd e1.symm hae
        · exact e1
      have h1 := (pairwise_cons.mp hs).1 e he'
      have h2 := hmin a ha hae
      omega

/-! ### the interval graph is a rooted graph whose entry is node 0 -/

theorem GI.first_entry {preds : Nat → List Nat} {order nodes : List Nat} {entry : Nat}
    {heads processed : List Nat} {out : List (Nat × List Nat)} {recs : List (Nat × Nat)}
    (g : GI preds order nodes entry heads processed out recs) (hne : processed ≠ []) :
    ∃ tl, processed.reverse = entry :: tl := by
  cases hr : processed.reverse with
  | nil => simp at hr; exact absurd hr hne
  | cons n₀ tl =>
    have hn₀ : n₀ ∈ processed := by
      have : n₀ ∈ processed.reverse := by rw [hr]; exact mem_cons_self
      exact mem_reverse.mp this
    rcases g.first n₀ (Or.inr hn₀) with e1 | ⟨a, _, _, hlt⟩
    · exact ⟨tl, by rw [e1]⟩
    · rw [hr] at hlt
      simp at hlt

theorem entryIdx_aux (e : Nat) : ∀ (rest : List (Nat × List Nat)) (k acc : Nat),
    (∀ y ∈ rest, y.2.contains e = false) →
    (rest.zipIdx k).foldl (fun acc p => if p.1.2.contains e then p.2 else acc) acc = acc := by
  intro rest
  induction rest with
  | nil => intro k acc _; rfl
  | cons y rest ih =>
    intro k acc h
    simp only [zipIdx_cons, foldl_cons]
    rw [h y mem_cons_self]
    exact ih _ _ (fun z hz => h z (mem_cons_of_mem _ hz))

/-- what the final state of `loopG` says about the interval graph -/
structure IG (entry : Nat) (o : List (Nat × List Nat)) (r : List (Nat × Nat)) : Prop where
  hd : ∃ tl, o.map Prod.fst = entry :: tl
  nd : (o.map Prod.fst).Nodup
  eidx : entryIdx o entry = 0
  tgt : ∀ x ∈ r, x.2 ∈ o.map Prod.fst
  src : ∀ x ∈ r, x.1 ∈ o.map Prod.fst
  first : ∀ n ∈ o.map Prod.fst, n ≠ entry →
    ∃ a, (a, n) ∈ r ∧ a ∈ o.map Prod.fst ∧ idxOf a (o.map Prod.fst) < idxOf n (o.map Prod.fst)

theorem GI.toIG {preds : Nat → List Nat} {order nodes : List Nat} {entry : Nat} {P : List Nat}
    {o : List (Nat × List Nat)} {r : List (Nat × Nat)} (g : GI preds order nodes entry [] P o r)
    (h1 : entry ∉ order) : IG entry o r := by
  have hent : entry ∈ P := by
    rcases g.ent with h | ⟨h, _⟩
    · exact h
    · simp at h
  have hne : P ≠ [] := ne_nil_of_mem hent
  obtain ⟨tl, htl⟩ := g.first_entry hne
  have hh : o.map Prod.fst = entry :: tl := g.outP.trans htl
  have hnd : (o.map Prod.fst).Nodup := by rw [g.outP]; exact nodup_reverse.mpr g.pN
  have memP : ∀ x, x ∈ o.map Prod.fst ↔ x ∈ P := by intro x; rw [g.outP]; exact mem_reverse
  have hnt : entry ∉ tl := by
    have := hnd
    rw [hh] at this
    exact (nodup_cons.mp this).1
  refine ⟨⟨tl, hh⟩, hnd, ?_, ?_, ?_, ?_⟩
  · cases o with
    | nil => simp at hh
    | cons x₀ rest =>
      simp only [map_cons, cons.injEq] at hh
      unfold entryIdx
      simp only [zipIdx_cons, foldl_cons, ite_self]
      apply entryIdx_aux
      intro y hy
      rw [Bool.eq_false_iff]
      intro hc
      have hc' : entry ∈ y.2 := by simpa using hc
      have hl := (g.outI y (mem_cons_of_mem _ hy) entry).mp hc'
      rcases least_inv preds order y.1 entry hl with e1 | ⟨e2, _⟩
      · have : y.1 ∈ tl := by rw [← hh.2]; exact mem_map.mpr ⟨y, hy, rfl⟩
        exact hnt (e1 ▸ this)
      · exact h1 e2
  · intro x hx
    rcases g.rec2 x hx with h | h
    · simp at h
    · exact (memP _).mpr h
  · intro x hx
    exact (memP _).mpr (g.rec1 x hx).1
  · intro n hn hne'
    rcases g.first n (Or.inr ((memP n).mp hn)) with e1 | ⟨a, ha1, ha2, ha3⟩
    · exact absurd e1 hne'
    · refine ⟨a, ha1, (memP a).mpr ha2, ?_⟩
      rw [g.outP]; exact ha3

theorem intervalDigraph_allSucs (o : List (Nat × List Nat)) (r : List (Nat × Nat)) (e u : Nat) :
    (intervalDigraph o r e).allSucs u =
      match (o.map Prod.fst)[u]? with
      | some h => (r.filter (fun x => x.1 == h)).map (fun x => idx (o.map Prod.fst) x.2)
      | none => [] := by
  simp only [Digraph.allSucs, intervalDigraph, getElem?_map]
  cases o[u]? <;> simp

theorem IG.wf {entry : Nat} {o : List (Nat × List Nat)} {r : List (Nat × Nat)} (g : IG entry o r) :
    (intervalDigraph o r entry).WF := by
  obtain ⟨tl, hh⟩ := g.hd
  refine ⟨?_, ?_⟩
  · have : (intervalDigraph o r entry).entry = 0 := g.eidx
    rw [this]
    have : (o.map Prod.fst).length = o.length := length_map _
    show 0 < o.length
    rw [← this, hh]; simp
  · intro u v hv
    rw [intervalDigraph_allSucs] at hv
    split at hv
    · obtain ⟨x, hx, rfl⟩ := mem_map.mp hv
      have := g.tgt x (mem_filter.mp hx).1
      show idx (o.map Prod.fst) x.2 < o.length
      have hl : (o.map Prod.fst).length = o.length := length_map _
      rw [← hl]
      exact idxOf_lt_length_iff.mpr this
    · simp at hv

theorem IG.edge {entry : Nat} {o : List (Nat × List Nat)} {r : List (Nat × Nat)} (g : IG entry o r)
    {a n : Nat} (h : (a, n) ∈ r) :
    (intervalDigraph o r entry).Edge (idx (o.map Prod.fst) a) (idx (o.map Prod.fst) n) := by
  show idx (o.map Prod.fst) n ∈ (intervalDigraph o r entry).allSucs (idx (o.map Prod.fst) a)
  rw [intervalDigraph_allSucs]
  have ha := g.src _ h
  have hlt : idxOf a (o.map Prod.fst) < (o.map Prod.fst).length := idxOf_lt_length_iff.mpr ha
  have : (o.map Prod.fst)[idx (o.map Prod.fst) a]? = some a := by
    unfold idx
    rw [getElem?_eq_getElem hlt]
    simp
  rw [this]
  exact mem_map.mpr ⟨(a, n), mem_filter.mpr ⟨h, by simp⟩, rfl⟩

theorem IG.rooted {entry : Nat} {o : List (Nat × List Nat)} {r : List (Nat × Nat)} (g : IG entry o r) :
    (intervalDigraph o r entry).Rooted := by
  intro v hv
  have he : (intervalDigraph o r entry).entry = 0 := g.eidx
  rw [he]
  have hl : (o.map Prod.fst).length = o.length := length_map _
  have hv' : v < (o.map Prod.fst).length := by rw [hl]; exact hv
  clear hv
  induction v using Nat.strongRecOn with
  | _ v ih =>
    by_cases h0 : v = 0
    · subst h0; exact Spec.Reach.refl _
    · obtain ⟨tl, hh⟩ := g.hd
      have hmem : (o.map Prod.fst)[v] ∈ o.map Prod.fst := getElem_mem hv'
      have hidx : idxOf ((o.map Prod.fst)[v]) (o.map Prod.fst) = v := g.nd.idxOf_getElem v hv'
      have hne : (o.map Prod.fst)[v] ≠ entry := by
        intro e
        rw [e] at hidx
        rw [hh] at hidx
        simp at hidx
        exact h0 hidx.symm
      obtain ⟨a, ha1, ha2, ha3⟩ := g.first _ hmem hne
      rw [hidx] at ha3
      have := ih _ ha3 (idxOf_lt_length_iff.mpr ha2)
      have e := g.edge ha1
      unfold idx at e
      rw [hidx] at e
      exact Spec.Reach.tail this e

theorem rpo_head_zero (dg : Digraph) (hwf : dg.WF) (hr : dg.Rooted) (he : dg.entry = 0) (res : Rpo.Result)
    (h : Rpo.computeRpo dg = some res) : ∃ tl, sortBy res.num (List.range dg.n) = 0 :: tl := by
  have hperm := C19.rpo_perm dg hwf hr res h
  have hone := C19.entry_is_one dg hwf hr res h
  rw [he] at hone
  have h0 : 0 < dg.n := by have := hwf.1; omega
  apply sortBy_head
  · exact mem_range.mpr h0
  · intro x hx hx0
    have hx' : res.num x ∈ List.range' 1 dg.n := hperm.mem_iff.mp (mem_map.mpr ⟨x, hx, rfl⟩)
    have h1 : 1 ≤ res.num x := by
      rw [mem_range'_1] at hx'; exact hx'.1
    have hnd : ((List.range dg.n).map res.num).Nodup := hperm.nodup_iff.mpr (nodup_range' (step := 1) (by omega))
    have hinj := inj_on_of_nodup_map hnd
    have : res.num x ≠ 1 := fun e => hx0 (hinj hx (mem_range.mpr h0) (e.trans hone.symm))
    omega

theorem IG.rec_at {entry : Nat} {o : List (Nat × List Nat)} {r : List (Nat × Nat)} (g : IG entry o r)
    (v : Nat) (hv : v < (o.map Prod.fst).length) (h0 : v ≠ 0) :
    ∃ a n, (a, n) ∈ r ∧ idxOf n (o.map Prod.fst) = v := by
  obtain ⟨tl, hh⟩ := g.hd
  have hmem : (o.map Prod.fst)[v] ∈ o.map Prod.fst := getElem_mem hv
  have hidx : idxOf ((o.map Prod.fst)[v]) (o.map Prod.fst) = v := g.nd.idxOf_getElem v hv
  have hne : (o.map Prod.fst)[v] ≠ entry := by
    intro e
    rw [e] at hidx
    rw [hh] at hidx
    simp at hidx
    exact h0 hidx.symm
  obtain ⟨a, ha1, _, _⟩ := g.first _ hmem hne
  exact ⟨a, _, ha1, hidx⟩

/-- THE NEXT LEVEL IS WELL-FORMED (whatever the level was, as long as its `rpo[0]` is the entry): the interval
    graph is rooted at node 0, `compute_rpo` succeeds on it and numbers node 0 first, every other node has a
    recorded predecessor, and the number of predecessor slots is the number of records -/
theorem nextLevel_nice (L : Level) (h1 : L.entry ∉ L.order) (o : List (Nat × List Nat)) (r : List (Nat × Nat))
    (h : intervalsG L = some (o, r)) :
    ∃ L' rpo, nextLevel o r L.entry = some (L', rpo) ∧ Nice L' ∧ predSum L' = r.length := by
  obtain ⟨P, g, _⟩ := loopG_inv L.preds L.order L.nodes L.entry _ _ _ _ _ _ _ _ h (GI.init _ _ _ _)
  have ig := g.toIG h1
  have hwf := ig.wf
  have hrt := ig.rooted
  obtain ⟨res, hres⟩ := C19.rpo_total _ hwf
  obtain ⟨tl, htl⟩ := rpo_head_zero _ hwf hrt ig.eidx res hres
  have hn : (intervalDigraph o r L.entry).n = o.length := rfl
  rw [hn] at htl
  have hl : (o.map Prod.fst).length = o.length := length_map _
  have hp : (0 :: tl) ~ List.range o.length := htl ▸ sortBy_perm _ _
  have hnd : (0 :: tl).Nodup := hp.nodup_iff.mpr nodup_range
  have he0 : (intervalDigraph o r L.entry).entry = 0 := ig.eidx
  refine ⟨{ preds := intervalPreds (o.map Prod.fst) r
            order := (sortBy res.num (List.range o.length)).drop 1
            nodes := List.range o.length
            entry := (intervalDigraph o r L.entry).entry }, sortBy res.num (List.range o.length),
    by simp only [nextLevel, hres], ?_, ?_⟩
  · constructor
    · show (intervalDigraph o r L.entry).entry ∉ (sortBy res.num (List.range o.length)).drop 1
      rw [htl, he0]
      simpa using (nodup_cons.mp hnd).1
    · intro i hi
      show intervalPreds (o.map Prod.fst) r i ≠ []
      have hi' : i ∈ tl := by
        have : i ∈ (sortBy res.num (List.range o.length)).drop 1 := hi
        rw [htl] at this
        simpa using this
      have hik : i < o.length := mem_range.mp (hp.mem_iff.mp (mem_cons_of_mem _ hi'))
      have hi0 : i ≠ 0 := fun e => (nodup_cons.mp hnd).1 (e ▸ hi')
      obtain ⟨a, n, han, hidx⟩ := ig.rec_at i (by rw [hl]; exact hik) hi0
      apply ne_nil_of_mem (a := idx (o.map Prod.fst) a)
      unfold intervalPreds
      exact mem_map.mpr ⟨(a, n), mem_filter.mpr ⟨han, by simp [idx, hidx]⟩, rfl⟩
    · intro i hi hi0
      show i ∈ (sortBy res.num (List.range o.length)).drop 1
      rw [htl]
      have : i ∈ 0 :: tl := hp.mem_iff.mpr hi
      rcases mem_cons.mp this with e | e
      · have hi0' : i ≠ (intervalDigraph o r L.entry).entry := hi0
        rw [he0] at hi0'
        exact absurd e hi0'
      · simpa using e
    · exact nodup_range
  · show ((List.range o.length).map (fun i => (intervalPreds (o.map Prod.fst) r i).length)).sum = r.length
    have key := length_eq_sum_cnt (List.range o.length) nodup_range
      (r.map (fun x => (idx (o.map Prod.fst) x.1, idx (o.map Prod.fst) x.2)))
      (by
        intro x hx
        obtain ⟨y, hy, rfl⟩ := mem_map.mp hx
        apply mem_range.mpr
        show idxOf y.2 (o.map Prod.fst) < o.length
        rw [← hl]
        exact idxOf_lt_length_iff.mpr (ig.tgt y hy))
    rw [length_map] at key
    rw [key]
    congr 1
    apply map_congr_left
    intro i _
    unfold intervalPreds cnt
    rw [length_map, countP_map, countP_eq_length_filter]
    rfl

/-! ### termination -/

/-- `derived_sequence` terminates: on a well-formed level, `predSum + 1` iterations are enough -/
theorem derive_total : ∀ (f : Nat) (L : Level) (acc : List Step), Nice L → predSum L < f →
    ∃ res, derive f L acc = some res := by
  intro f
  induction f with
  | zero => intro L acc _ h; omega
  | succ f ih =>
    intro L acc hL hf
    obtain ⟨o, r, hI⟩ := intervalsG_total L
    obtain ⟨L', rpo, hN, hnice, hps⟩ := nextLevel_nice L hL.n1 o r hI
    simp only [derive, hI, hN]
    by_cases hlen : (o.length == 1) = true
    · rw [if_pos hlen]; exact ⟨_, rfl⟩
    · rw [if_neg hlen]
      have := recs_lt_predSum L hL o r hI (by simpa using hlen)
      exact ih L' _ hnice (by omega)

theorem derivedSequence_total (L : Level) (hL : Nice L) : ∃ res, derivedSequence L = some res :=
  derive_total _ L [] hL (by unfold fuel; omega)

/-- one step per iteration: the derived sequence has at most `fuel` levels -/
theorem derive_length : ∀ (f : Nat) (L : Level) (acc res : List Step), derive f L acc = some res →
    res.length ≤ acc.length + f := by
  intro f
  induction f with
  | zero => intro L acc res h; simp [derive] at h
  | succ f ih =>
    intro L acc res h
    simp only [derive] at h
    split at h
    · simp at h
    · split at h
      · simp at h
      · split at h
        · simp at h; subst h; simp
        · have := ih _ _ _ h
          simp at this
          omega

/-! ### decidable well-formedness, and the statements used in Props/C22.lean -/

/-- `Nice` as a check -/
def niceb (L : Level) : Bool :=
  !L.order.contains L.entry && L.order.all (fun n => !(L.preds n).isEmpty) &&
  L.nodes.all (fun n => n == L.entry || L.order.contains n) && decide L.nodes.Nodup

theorem nice_of_niceb {L : Level} (h : niceb L = true) : Nice L := by
  simp only [niceb, Bool.and_eq_true, Bool.not_eq_true', all_eq_true, Bool.or_eq_true,
    decide_eq_true_eq, beq_iff_eq, contains_eq_mem, decide_eq_false_iff_not] at h
  obtain ⟨⟨⟨a, b⟩, c⟩, d⟩ := h
  refine ⟨a, fun n hn e => ?_, fun n hn hne => ?_, d⟩
  · have := b n hn
    simp [e] at this
  · rcases c n hn with e | e
    · exact absurd e hne
    · exact e

theorem niceb_of_nice {L : Level} (h : Nice L) : niceb L = true := by
  simp only [niceb, Bool.and_eq_true, Bool.not_eq_true', all_eq_true, Bool.or_eq_true,
    decide_eq_true_eq, beq_iff_eq, contains_eq_mem, decide_eq_false_iff_not]
  refine ⟨⟨⟨h.n1, fun n hn => ?_⟩, fun n hn => ?_⟩, h.n4⟩
  · have := h.n2 n hn
    cases hp : L.preds n with
    | nil => exact absurd hp this
    | cons a b => rfl
  · by_cases e : n = L.entry
    · exact Or.inl e
    · exact Or.inr (h.n3 n hn e)

/-- on a well-formed level the intervals of two different headers share no node -/
theorem intervals_disjoint (L : Level) (hL : Nice L) (o : List (Nat × List Nat)) (r : List (Nat × Nat))
    (h : intervalsG L = some (o, r)) :
    ∀ p ∈ o, ∀ q ∈ o, p.1 ≠ q.1 → ∀ x ∈ p.2, x ∉ q.2 := by
  obtain ⟨P, g, dd⟩ := loopG_inv L.preds L.order L.nodes L.entry _ _ _ _ _ _ _ _ h (GI.init _ _ _ _)
  have d := dd hL.n1 hL.n2 (DI.init _ _ _)
  have memP : ∀ p ∈ o, p.1 ∈ P := by
    intro p hp
    have : p.1 ∈ o.map Prod.fst := mem_map.mpr ⟨p, hp, rfl⟩
    rw [g.outP] at this
    exact mem_reverse.mp this
  intro p hp q hq hne x hx hxq
  exact d.d1 _ (memP p hp) _ (memP q hq) hne x ((g.outI p hp x).mp hx) ((g.outI q hq x).mp hxq)

/-- termination with the explicit bound -/
theorem derivedSequence_terminates (L : Level) (hL : niceb L = true) :
    ∃ res, derivedSequence L = some res ∧ res.length ≤ predSum L + 1 := by
  obtain ⟨res, h⟩ := derivedSequence_total L (nice_of_niceb hL)
  refine ⟨res, h, ?_⟩
  have := derive_length _ _ _ _ h
  simpa [fuel] using this

/-- the recorded edges are pairwise different: the test `if e2 not in lsucs` of `Graph.add_edge`, which the
    model leaves out, never skips an edge of an interval graph -/
theorem records_nodup (L : Level) (o : List (Nat × List Nat)) (r : List (Nat × Nat))
    (h : intervalsG L = some (o, r)) : r.Nodup := by
  obtain ⟨P, g, _⟩ := loopG_inv L.preds L.order L.nodes L.entry _ _ _ _ _ _ _ _ h (GI.init _ _ _ _)
  exact g.recN

/-- shape of the result: the loop stops at the first level with a single interval -/
theorem derive_shape : ∀ (f : Nat) (L : Level) (acc res : List Step), derive f L acc = some res →
    ∃ steps last, res = acc ++ steps ++ [last] ∧ last.heads.length = 1 ∧ ∀ s ∈ steps, s.heads.length ≠ 1 := by
  intro f
  induction f with
  | zero => intro L acc res h; simp [derive] at h
  | succ f ih =>
    intro L acc res h
    simp only [derive] at h
    split at h
    · simp at h
    · next out recs hI =>
      split at h
      · simp at h
      · next L' rpo hN =>
        split at h
        · next hl =>
          simp at h
          subst h
          exact ⟨[], ⟨out, recs, rpo, L'.entry⟩, by simp, by simpa using hl, by simp⟩
        · next hl =>
          obtain ⟨steps, last, e, h1, h2⟩ := ih _ _ _ h
          refine ⟨⟨out, recs, rpo, L'.entry⟩ :: steps, last, by rw [e]; simp, h1, ?_⟩
          intro s hs
          rcases mem_cons.mp hs with e' | e'
          · subst e'; simpa using hl
          · exact h2 s e'

/-! ### termination without well-formedness of the first level -/

/-- at most `(|nodes| + 1) · |nodes|` edges are recorded, whatever the level looks like -/
theorem recs_length_le (L : Level) (o : List (Nat × List Nat)) (r : List (Nat × Nat))
    (h : intervalsG L = some (o, r)) : r.length ≤ (L.nodes.length + 1) * L.nodes.length := by
  obtain ⟨P, g, _⟩ := loopG_inv L.preds L.order L.nodes L.entry _ _ _ _ _ _ _ _ h (GI.init _ _ _ _)
  have hP : P.length ≤ L.nodes.length + 1 := by
    have hsub : P ⊆ L.entry :: L.nodes := by
      intro n hn
      rcases g.first n (Or.inr hn) with e | ⟨a, ha, _, _⟩
      · exact e ▸ mem_cons_self
      · exact mem_cons_of_mem _ (g.rec1 _ ha).2.1
    have := (subperm_of_subset g.pN hsub).length_le
    simpa using this
  have hr : r ⊆ P ×ˢ L.nodes := by
    intro x hx
    obtain ⟨a, b, _, _⟩ := g.rec1 x hx
    exact mem_product.mpr ⟨a, b⟩
  have := (subperm_of_subset g.recN hr).length_le
  rw [length_product] at this
  exact Nat.le_trans this (Nat.mul_le_mul_right _ hP)

/-- fuel that is enough for every level whose `rpo[0]` is the entry -/
def generalFuel (L : Level) : Nat := (L.nodes.length + 1) * L.nodes.length + 2

/-- `derived_sequence` terminates on EVERY graph whose `rpo[0]` is the entry (unreachable nodes, nodes
    without predecessors, duplicates in `graph.nodes` allowed): the first interval graph is well-formed and
    has at most `(|nodes| + 1) · |nodes|` edges -/
theorem derive_total_general (L : Level) (h1 : L.entry ∉ L.order) (acc : List Step) :
    ∃ res, derive (generalFuel L) L acc = some res ∧ res.length ≤ acc.length + generalFuel L := by
  obtain ⟨o, r, hI⟩ := intervalsG_total L
  obtain ⟨L', rpo, hN, hnice, hps⟩ := nextLevel_nice L h1 o r hI
  have hle := recs_length_le L o r hI
  have key : ∃ res, derive (generalFuel L) L acc = some res := by
    unfold generalFuel
    simp only [derive, hI, hN]
    by_cases hlen : (o.length == 1) = true
    · rw [if_pos hlen]; exact ⟨_, rfl⟩
    · rw [if_neg hlen]
      exact derive_total ((L.nodes.length + 1) * L.nodes.length + 1) L' _ hnice (by rw [hps]; omega)
  obtain ⟨res, hres⟩ := key
  exact ⟨res, hres, derive_length _ _ _ _ hres⟩

end AgVerif.DerivedSeq
