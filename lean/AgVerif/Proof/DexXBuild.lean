/-
C05, extension: the layout-parametric writer with the encoded_array_item section.
`buildX TX L size` = the base regions plus the section 0x2005 poked into `size` zero bytes;
`ConsistentX` (decidable) + valid item encodings ⇒ `EncodesX (buildX TX L size) L TX`.
-/
import AgVerif.Proof.DexBuild
import AgVerif.Proof.DexXView
namespace AgVerif.C05
open AgVerif.DexFile AgVerif.LoadOrder AgVerif.DexX
open AgVerif.Spec.DexFile (ushort uint ULeb protoId fieldId methodId classDef typeListBody codeHdr EncClassData)

/-- the base writer's correctness only needs its regions to be where they should be -/
theorem section_of_regions {file : Bytes} {T : Tables} {L : Layout}
    (hat : ∀ r ∈ regions T L, At file r.1 r.2)
    (hsecs : ∀ s ∈ T.secs, ((L.sec s.1).isNone → s.2.1 = 0) ∧
      ∀ e ∈ L.sec s.1, e.size = s.2.1 ∧ (s.2.2.2 = true → e.offset % 4 = 0))
    (s : Nat × Nat × Bytes × Bool) (hs : s ∈ T.secs) : Section file L s.1 s.2.1 s.2.2.1 s.2.2.2 := by
  obtain ⟨h0, h1⟩ := hsecs s hs
  unfold Section
  cases hq : L.sec s.1 with
  | none => exact h0 (by simp [hq])
  | some e =>
    obtain ⟨h2, h3⟩ := h1 e (Option.mem_def.mpr hq)
    refine ⟨h2, h3, hat (e.offset, s.2.2.1) ?_⟩
    refine List.mem_cons_of_mem _ (List.mem_cons_of_mem _ (List.mem_filterMap.mpr ⟨s, hs, ?_⟩))
    simp [hq]

/-- the extended regions: the base ones and the array section when it is in the map -/
def regionsX (TX : TablesX) (L : Layout) : List (Nat × Bytes) :=
  regions TX.base L ++ ((L.sec 0x2005).map fun e => (e.offset, bytesOf TX.encArrays)).toList

def buildX (TX : TablesX) (L : Layout) (size : Nat) : Bytes :=
  pokeAll (List.replicate size 0) (regionsX TX L)

structure ConsistentX (TX : TablesX) (L : Layout) (size : Nat) : Prop where
  mapOff_ne : L.mapOff ≠ 0
  mapOff_lt : L.mapOff < 2 ^ 32
  mapLen : L.map.length < 2 ^ 32
  nodup : (L.map.map (·.type)).Nodup
  members : ∀ e ∈ L.map, e.type ∈ Gen.MapDeps.members.map (·.2)
  ranges : ∀ e ∈ L.map, e.size < 2 ^ 32 ∧ e.offset < 2 ^ 32
  fit : ∀ r ∈ regionsX TX L, r.1 + r.2.length ≤ size
  disjoint : (regionsX TX L).Pairwise Disjoint
  secs : ∀ s ∈ TX.base.secs, ((L.sec s.1).isNone → s.2.1 = 0) ∧
    ∀ e ∈ L.sec s.1, e.size = s.2.1 ∧ (s.2.2.2 = true → e.offset % 4 = 0)
  arrays : ((L.sec 0x2005).isNone → TX.encArrays.length = 0) ∧ ∀ e ∈ L.sec 0x2005, e.size = TX.encArrays.length
  noAnn : NoAnn L

instance (TX : TablesX) (L : Layout) (size : Nat) : Decidable (ConsistentX TX L size) :=
  decidable_of_iff
    (L.mapOff ≠ 0 ∧ L.mapOff < 2 ^ 32 ∧ L.map.length < 2 ^ 32 ∧ (L.map.map (·.type)).Nodup ∧
     (∀ e ∈ L.map, e.type ∈ Gen.MapDeps.members.map (·.2)) ∧ (∀ e ∈ L.map, e.size < 2 ^ 32 ∧ e.offset < 2 ^ 32) ∧
     (∀ r ∈ regionsX TX L, r.1 + r.2.length ≤ size) ∧ (regionsX TX L).Pairwise Disjoint ∧
     (∀ s ∈ TX.base.secs, ((L.sec s.1).isNone → s.2.1 = 0) ∧
        ∀ e ∈ L.sec s.1, e.size = s.2.1 ∧ (s.2.2.2 = true → e.offset % 4 = 0)) ∧
     (((L.sec 0x2005).isNone → TX.encArrays.length = 0) ∧ ∀ e ∈ L.sec 0x2005, e.size = TX.encArrays.length) ∧
     NoAnn L)
    ⟨fun ⟨h1, h2, h3, h4, h5, h6, h7, h8, h9, h10, h11⟩ => ⟨h1, h2, h3, h4, h5, h6, h7, h8, h9, h10, h11⟩,
     fun h => ⟨h.mapOff_ne, h.mapOff_lt, h.mapLen, h.nodup, h.members, h.ranges, h.fit, h.disjoint, h.secs,
       h.arrays, h.noAnn⟩⟩

variable {TX : TablesX} {L : Layout} {size : Nat}

theorem buildX_at (hc : ConsistentX TX L size) (r : Nat × Bytes) (hr : r ∈ regionsX TX L) :
    At (buildX TX L size) r.1 r.2 :=
  pokeAll_at _ _ (by simpa using hc.fit) hc.disjoint r hr

/-- the extended writer's output encodes the extended tables in the layout it was given -/
theorem encodesX_buildX (hc : ConsistentX TX L size) (hi : ItemsOk TX.base)
    (ha : ∀ p ∈ TX.encArrays, EncArray p.2 p.1) : EncodesX (buildX TX L size) L TX where
  base := by
    have hat : ∀ r ∈ regions TX.base L, At (buildX TX L size) r.1 r.2 :=
      fun r hr => buildX_at hc r (List.mem_append_left _ hr)
    have hsec := fun s hs => section_of_regions hat hc.secs s hs
    exact
      { mapOff_ne := hc.mapOff_ne
        mapOff_lt := hc.mapOff_lt
        header := hat (0x34, uint L.mapOff) List.mem_cons_self
        mapLen := hc.mapLen
        mapAt := hat (L.mapOff, _) (List.mem_cons_of_mem _ List.mem_cons_self)
        nodup := hc.nodup
        members := hc.members
        ranges := hc.ranges
        strItem := hi.strItem
        tlPad := hi.tlPad
        cdEnc := hi.cdEnc
        codeRest := hi.codeRest
        strings := hsec (0x2002, _, _, false) (by unfold Tables.secs; repeat (first | exact List.mem_cons_self | apply List.mem_cons_of_mem))
        stringIds := hsec (0x0001, _, _, false) (by unfold Tables.secs; repeat (first | exact List.mem_cons_self | apply List.mem_cons_of_mem))
        typeIds := hsec (0x0002, _, _, true) (by unfold Tables.secs; repeat (first | exact List.mem_cons_self | apply List.mem_cons_of_mem))
        protoIds := hsec (0x0003, _, _, true) (by unfold Tables.secs; repeat (first | exact List.mem_cons_self | apply List.mem_cons_of_mem))
        fieldIds := hsec (0x0004, _, _, true) (by unfold Tables.secs; repeat (first | exact List.mem_cons_self | apply List.mem_cons_of_mem))
        methodIds := hsec (0x0005, _, _, true) (by unfold Tables.secs; repeat (first | exact List.mem_cons_self | apply List.mem_cons_of_mem))
        typeLists := hsec (0x1001, _, _, true) (by unfold Tables.secs; repeat (first | exact List.mem_cons_self | apply List.mem_cons_of_mem))
        classData := hsec (0x2000, _, _, false) (by unfold Tables.secs; repeat (first | exact List.mem_cons_self | apply List.mem_cons_of_mem))
        codes := hsec (0x2001, _, _, true) (by unfold Tables.secs; repeat (first | exact List.mem_cons_self | apply List.mem_cons_of_mem))
        classDefs := hsec (0x0006, _, _, true) (by unfold Tables.secs; repeat (first | exact List.mem_cons_self | apply List.mem_cons_of_mem)) }
  arrays := ha
  encArrays := by
    unfold Section
    cases hq : L.sec 0x2005 with
    | none => exact hc.arrays.1 (by simp [hq])
    | some e =>
      refine ⟨hc.arrays.2 e (Option.mem_def.mpr hq), by simp, buildX_at hc (e.offset, _) ?_⟩
      exact List.mem_append_right _ (by simp [hq, bytesOf, List.flatMap])
  noAnn := hc.noAnn

/-- parse ∘ write for the extended loader -/
theorem parseDexX_buildX (hwf : WFX TX L) (hc : ConsistentX TX L size) (hi : ItemsOk TX.base)
    (ha : ∀ p ∈ TX.encArrays, EncArray p.2 p.1) :
    parseDexX (buildX TX L size) = .ok (declaredX TX L) :=
  parseDexX_declared (encodesX_buildX hc hi ha) hwf

end AgVerif.C05
