/-
C05, extension: the layout-parametric writer with the encoded_array_item section.
`buildX TX L size` = the base regions plus the section 0x2005 poked into `size` zero bytes;
`ConsistentX` (decidable) + valid item encodings ⇒ `EncodesX (buildX TX L size) L TX`.
-/
import AgVerif.Proof.DexBuild
import AgVerif.Proof.DexXView
namespace AgVerif.C05
open AgVerif.DexFile AgVerif.LoadOrder AgVerif.DexX
open AgVerif.Spec.DexFile (ushort uint ULeb protoId fieldId methodId classDef typeListBody codeHdr EncClassData)

/-- the base writer's correctness only needs its regions to be where they should be -/
theorem section_of_regions {file : Bytes} {T : Tables} {L : Layout}
    (hat : ∀ r ∈ regions T L, At file r.1 r.2)
    (hsecs : ∀ s ∈ T.secs, ((L.sec s.1).isNone → s.2.1 = 0) ∧
      ∀ e ∈ L.sec s.1, e.size = s.2.1 ∧ (s.2.2.2 = true → e.offset % 4 = 0))
    (s : Nat × Nat × Bytes × Bool) (hs : s ∈ T.secs) : Section file L s.1 s.2.1 s.2.2.1 s.2.2.2 := by
  obtain ⟨h0, h1⟩ := hsecs s hs
  unfold Section
  cases hq : L.sec s.1 with
  | none => exact h0 (by simp [hq])
  | some e =>
    obtain ⟨h2, h3⟩ := h1 e (Option.mem_def.mpr hq)
    refine ⟨h2, h3, hat (e.offset, s.2.2.1) ?_⟩
    refine List.mem_cons_of_mem _ (List.mem_cons_of_mem _ (List.mem_filterMap.mpr ⟨s, hs, ?_⟩))
    simp [hq]

/-- the five sections of the extension: map type, number of rows, bytes, 4-aligned -/
def TablesX.secsX (TX : TablesX) : List (Nat × Nat × Bytes × Bool) :=
  [(0x2005, TX.encArrays.length, bytesOf TX.encArrays, false),
   (0x2004, TX.annItems.length, bytesOf TX.annItems, false),
   (0x1003, TX.annSets.length, bytesOf TX.setItems, true),
   (0x1002, TX.annRefs.length, bytesOf TX.refItems, true),
   (0x2006, TX.annDirs.length, bytesOf TX.dirItems, true)]

/-- the extended regions: the base ones and the sections of the extension that are in the map -/
def regionsX (TX : TablesX) (L : Layout) : List (Nat × Bytes) :=
  regions TX.base L ++ TX.secsX.filterMap fun s => (L.sec s.1).map fun e => (e.offset, s.2.2.1)

def buildX (TX : TablesX) (L : Layout) (size : Nat) : Bytes :=
  pokeAll (List.replicate size 0) (regionsX TX L)

structure ConsistentX (TX : TablesX) (L : Layout) (size : Nat) : Prop where
  mapOff_ne : L.mapOff ≠ 0
  mapOff_lt : L.mapOff < 2 ^ 32
  mapLen : L.map.length < 2 ^ 32
  nodup : (L.map.map (·.type)).Nodup
  members : ∀ e ∈ L.map, e.type ∈ Gen.MapDeps.members.map (·.2)
  ranges : ∀ e ∈ L.map, e.size < 2 ^ 32 ∧ e.offset < 2 ^ 32
  fit : ∀ r ∈ regionsX TX L, r.1 + r.2.length ≤ size
  disjoint : (regionsX TX L).Pairwise Disjoint
  secs : ∀ s ∈ TX.base.secs, ((L.sec s.1).isNone → s.2.1 = 0) ∧
    ∀ e ∈ L.sec s.1, e.size = s.2.1 ∧ (s.2.2.2 = true → e.offset % 4 = 0)
  secsX : ∀ s ∈ TX.secsX, ((L.sec s.1).isNone → s.2.1 = 0) ∧
    ∀ e ∈ L.sec s.1, e.size = s.2.1 ∧ (s.2.2.2 = true → e.offset % 4 = 0)

instance (TX : TablesX) (L : Layout) (size : Nat) : Decidable (ConsistentX TX L size) :=
  decidable_of_iff
    (L.mapOff ≠ 0 ∧ L.mapOff < 2 ^ 32 ∧ L.map.length < 2 ^ 32 ∧ (L.map.map (·.type)).Nodup ∧
     (∀ e ∈ L.map, e.type ∈ Gen.MapDeps.members.map (·.2)) ∧ (∀ e ∈ L.map, e.size < 2 ^ 32 ∧ e.offset < 2 ^ 32) ∧
     (∀ r ∈ regionsX TX L, r.1 + r.2.length ≤ size) ∧ (regionsX TX L).Pairwise Disjoint ∧
     (∀ s ∈ TX.base.secs, ((L.sec s.1).isNone → s.2.1 = 0) ∧
        ∀ e ∈ L.sec s.1, e.size = s.2.1 ∧ (s.2.2.2 = true → e.offset % 4 = 0)) ∧
     (∀ s ∈ TX.secsX, ((L.sec s.1).isNone → s.2.1 = 0) ∧
        ∀ e ∈ L.sec s.1, e.size = s.2.1 ∧ (s.2.2.2 = true → e.offset % 4 = 0)))
    ⟨fun ⟨h1, h2, h3, h4, h5, h6, h7, h8, h9, h10⟩ => ⟨h1, h2, h3, h4, h5, h6, h7, h8, h9, h10⟩,
     fun h => ⟨h.mapOff_ne, h.mapOff_lt, h.mapLen, h.nodup, h.members, h.ranges, h.fit, h.disjoint, h.secs,
       h.secsX⟩⟩

variable {TX : TablesX} {L : Layout} {size : Nat}

theorem buildX_at (hc : ConsistentX TX L size) (r : Nat × Bytes) (hr : r ∈ regionsX TX L) :
    At (buildX TX L size) r.1 r.2 :=
  pokeAll_at _ _ (by simpa using hc.fit) hc.disjoint r hr

theorem sectionX_of_buildX (hc : ConsistentX TX L size) (s : Nat × Nat × Bytes × Bool) (hs : s ∈ TX.secsX) :
    Section (buildX TX L size) L s.1 s.2.1 s.2.2.1 s.2.2.2 := by
  obtain ⟨h0, h1⟩ := hc.secsX s hs
  unfold Section
  cases hq : L.sec s.1 with
  | none => exact h0 (by simp [hq])
  | some e =>
    obtain ⟨h2, h3⟩ := h1 e (Option.mem_def.mpr hq)
    refine ⟨h2, h3, buildX_at hc (e.offset, s.2.2.1) ?_⟩
    refine List.mem_append_right _ (List.mem_filterMap.mpr ⟨s, hs, ?_⟩)
    simp [hq]

/-- the rows of the extension are written with valid encodings -/
structure ItemsOkX (TX : TablesX) : Prop where
  base : ItemsOk TX.base
  arrays : ∀ p ∈ TX.encArrays, EncArray p.2 p.1
  items : ∀ p ∈ TX.annItems, EncAnnItem p.2 p.1.visibility p.1.typeIdx p.1.elems

/-- the extended writer's output encodes the extended tables in the layout it was given -/
theorem encodesX_buildX (hc : ConsistentX TX L size) (hi : ItemsOkX TX) : EncodesX (buildX TX L size) L TX where
  base := by
    have hat : ∀ r ∈ regions TX.base L, At (buildX TX L size) r.1 r.2 :=
      fun r hr => buildX_at hc r (List.mem_append_left _ hr)
    have hsec := fun s hs => section_of_regions hat hc.secs s hs
    exact
      { mapOff_ne := hc.mapOff_ne
        mapOff_lt := hc.mapOff_lt
        header := hat (0x34, uint L.mapOff) List.mem_cons_self
        mapLen := hc.mapLen
        mapAt := hat (L.mapOff, _) (List.mem_cons_of_mem _ List.mem_cons_self)
        nodup := hc.nodup
        members := hc.members
        ranges := hc.ranges
        strItem := hi.base.strItem
        tlPad := hi.base.tlPad
        cdEnc := hi.base.cdEnc
        codeRest := hi.base.codeRest
        strings := hsec (0x2002, _, _, false) (by unfold Tables.secs; repeat (first | exact List.mem_cons_self | apply List.mem_cons_of_mem))
        stringIds := hsec (0x0001, _, _, false) (by unfold Tables.secs; repeat (first | exact List.mem_cons_self | apply List.mem_cons_of_mem))
        typeIds := hsec (0x0002, _, _, true) (by unfold Tables.secs; repeat (first | exact List.mem_cons_self | apply List.mem_cons_of_mem))
        protoIds := hsec (0x0003, _, _, true) (by unfold Tables.secs; repeat (first | exact List.mem_cons_self | apply List.mem_cons_of_mem))
        fieldIds := hsec (0x0004, _, _, true) (by unfold Tables.secs; repeat (first | exact List.mem_cons_self | apply List.mem_cons_of_mem))
        methodIds := hsec (0x0005, _, _, true) (by unfold Tables.secs; repeat (first | exact List.mem_cons_self | apply List.mem_cons_of_mem))
        typeLists := hsec (0x1001, _, _, true) (by unfold Tables.secs; repeat (first | exact List.mem_cons_self | apply List.mem_cons_of_mem))
        classData := hsec (0x2000, _, _, false) (by unfold Tables.secs; repeat (first | exact List.mem_cons_self | apply List.mem_cons_of_mem))
        codes := hsec (0x2001, _, _, true) (by unfold Tables.secs; repeat (first | exact List.mem_cons_self | apply List.mem_cons_of_mem))
        classDefs := hsec (0x0006, _, _, true) (by unfold Tables.secs; repeat (first | exact List.mem_cons_self | apply List.mem_cons_of_mem)) }
  arrays := hi.arrays
  items := hi.items
  encArrays := sectionX_of_buildX hc (0x2005, _, _, false) (by unfold TablesX.secsX; repeat (first | exact List.mem_cons_self | apply List.mem_cons_of_mem))
  annItems := sectionX_of_buildX hc (0x2004, _, _, false) (by unfold TablesX.secsX; repeat (first | exact List.mem_cons_self | apply List.mem_cons_of_mem))
  annSets := sectionX_of_buildX hc (0x1003, _, _, true) (by unfold TablesX.secsX; repeat (first | exact List.mem_cons_self | apply List.mem_cons_of_mem))
  annRefs := sectionX_of_buildX hc (0x1002, _, _, true) (by unfold TablesX.secsX; repeat (first | exact List.mem_cons_self | apply List.mem_cons_of_mem))
  annDirs := sectionX_of_buildX hc (0x2006, _, _, true) (by unfold TablesX.secsX; repeat (first | exact List.mem_cons_self | apply List.mem_cons_of_mem))

/-- parse ∘ write for the extended loader -/
theorem parseDexX_buildX (hwf : WFX TX L) (hc : ConsistentX TX L size) (hi : ItemsOkX TX) :
    parseDexX (buildX TX L size) = .ok (declaredX TX L) :=
  parseDexX_declared (encodesX_buildX hc hi) hwf

end AgVerif.C05
