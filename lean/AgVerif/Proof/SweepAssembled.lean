/-
C02: exact recovery of every validly assembled program.
-/
import AgVerif.Proof.SweepAsmPayload
set_option linter.unusedSimpArgs false
set_option linter.unusedVariables false
namespace AgVerif.Sweep
open AgVerif.Insn AgVerif.Gen

/-- an item of a valid program: a valid instruction (nop padding is the instruction `nop`) or a well-formed payload -/
def ValidItem : Item → Bool
  | .insn f x => ValidInsn f x
  | it => ValidPayload it

/-- every item valid.  No alignment condition: the theorem holds for payloads at any offset, in particular at the
    4-byte aligned offsets (reached by nop padding) that the Dalvik format requires. -/
def Valid (prog : List Item) : Bool := prog.all ValidItem

/-- the assembler: the items' bytes, concatenated (`none` if some `get_raw()` raises) -/
def assemble : List Item → Option (List Nat)
  | [] => some []
  | it :: r => cat2 it.raw (assemble r)

theorem build_raw (it : Item) (hv : ValidItem it = true) :
    ∃ bytes, it.raw = some bytes ∧ bytes.length = it.length ∧ AllBytes bytes ∧ 2 ≤ bytes.length ∧
      ∀ rest, build false (bytes ++ rest) = some it := by
  cases it with
  | insn f x => exact build_insn_raw f x hv
  | packed size fk ts => exact build_packed_raw size fk ts hv
  | sparse size ks ts => exact build_sparse_raw size ks ts hv
  | fill w size data => exact build_fill_raw w size data hv

theorem assemble_valid : ∀ (prog : List Item), Valid prog = true →
    ∃ bytes, assemble prog = some bytes ∧ bytes.length = totalLen prog ∧ AllBytes bytes ∧
      ∀ (pre post : List Nat),
        StepsOK false (pre ++ bytes ++ post) (pre.length + totalLen prog) pre.length prog := by
  intro prog
  induction prog with
  | nil =>
    intro _
    exact ⟨[], rfl, rfl, allBytes_nil, fun _ _ => trivial⟩
  | cons it r ih =>
    intro hv
    simp only [Valid, List.all_cons, Bool.and_eq_true] at hv
    obtain ⟨hit, hr⟩ := hv
    obtain ⟨a, hraw, hla, hba, h2, hbuild⟩ := build_raw it hit
    obtain ⟨b, hasm, hlb, hbb, hsteps⟩ := ih hr
    refine ⟨a ++ b, ?_, ?_, allBytes_append.mpr ⟨hba, hbb⟩, ?_⟩
    · show cat2 it.raw (assemble r) = some (a ++ b)
      rw [hraw, hasm]; rfl
    · simp only [List.length_append, hla, hlb, totalLen]
    · intro pre post
      simp only [StepsOK, totalLen]
      refine ⟨by omega, ?_, ?_⟩
      · unfold step
        rw [if_neg (by omega)]
        have hdrop : List.drop pre.length (pre ++ (a ++ b) ++ post) = a ++ (b ++ post) := by
          rw [List.append_assoc, List.drop_left, List.append_assoc]
        rw [hdrop, hbuild (b ++ post)]
        simp only
        rw [if_neg (by omega)]
      · have := hsteps (pre ++ a) post
        simp only [List.length_append, hla] at this
        have e : pre ++ a ++ b ++ post = pre ++ (a ++ b) ++ post := by simp only [List.append_assoc]
        rw [e] at this
        have e2 : pre.length + it.length + totalLen r = pre.length + (it.length + totalLen r) := by omega
        rw [e2] at this
        exact this

/-- item lengths are even -/
theorem valid_len_even (it : Item) (hv : ValidItem it = true) : it.length % 2 = 0 := by
  cases it with
  | insn f x =>
    simp only [ValidItem, ValidInsn, Bool.and_eq_true, beq_iff_eq] at hv
    obtain ⟨_, _, _, hok⟩ := hv
    simp only [Item.length]
    cases f <;> simp [Opcodes.length]
  | packed size fk ts => simp only [Item.length]; omega
  | sparse size ks ts => simp only [Item.length]; omega
  | fill w size data => simp only [Item.length]; omega

theorem valid_total_even : ∀ (prog : List Item), Valid prog = true → totalLen prog % 2 = 0 := by
  intro prog
  induction prog with
  | nil => intro _; rfl
  | cons it r ih =>
    intro hv
    simp only [Valid, List.all_cons, Bool.and_eq_true] at hv
    have h1 := valid_len_even it hv.1
    have h2 := ih hv.2
    simp only [totalLen]; omega

/-- Exact recovery: the sweep over the bytes of a valid program (followed by any further bytes), with the declared
    size equal to the assembled length in code units, yields exactly the program's items at their prefix-sum offsets
    and ends normally — it consumes exactly the declared size. -/
theorem sweep_assembled_all (prog : List Item) (hv : Valid prog = true) :
    ∃ bs, assemble prog = some bs ∧ AllBytes bs ∧ bs.length = totalLen prog ∧ totalLen prog % 2 = 0 ∧
      ∀ post, sweep false (totalLen prog / 2) (bs ++ post) 0 = (withOffsets 0 prog, .done) := by
  obtain ⟨bs, hasm, hl, hb, hsteps⟩ := assemble_valid prog hv
  have hev := valid_total_even prog hv
  refine ⟨bs, hasm, hb, hl, hev, ?_⟩
  intro post
  have hmax : maxIdxOf (totalLen prog / 2) (bs ++ post) = totalLen prog := by
    unfold maxIdxOf
    simp only [List.length_append]
    split <;> omega
  have := hsteps [] post
  simp only [List.nil_append, List.length_nil, Nat.zero_add] at this
  unfold sweep
  rw [hmax]
  exact sweepFrom_exact false (bs ++ post) (totalLen prog) prog 0 this (by omega)

end AgVerif.Sweep
