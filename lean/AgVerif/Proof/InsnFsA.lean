/- C01: field meaning (model view = specification meaning) of the classes 10x 12x 11n 11x 10t -/
import AgVerif.Proof.InsnView
set_option linter.unusedSimpArgs false
set_option linter.unusedVariables false
namespace AgVerif.Insn
open AgVerif.Gen AgVerif.Spec

theorem fs_10x (bs : List Nat) (hb : AllBytes bs) (x : Insn) (h : decode .f10x bs = .ok x)
    (hk : needsKind .f10x = true → ∃ k, kindOf x.op = some k) :
    View.ofInsn x = View.ofMeaning (Dalvik.meaning .f10x x.op (leNat (bs.take (Opcodes.length .f10x)))) ∧
      x.op = Dalvik.bits (leNat (bs.take (Opcodes.length .f10x))) 0 8 := by
  have hl := decode_ok_length h
  obtain ⟨b0, b1, r, rfl⟩ := ex2 _ (by simpa [Opcodes.length] using hl)
  simp only [allBytes_cons] at hb
  obtain ⟨h0, h1, _⟩ := hb
  dec_simp at h
  fs_finish

theorem fs_12x (bs : List Nat) (hb : AllBytes bs) (x : Insn) (h : decode .f12x bs = .ok x)
    (hk : needsKind .f12x = true → ∃ k, kindOf x.op = some k) :
    View.ofInsn x = View.ofMeaning (Dalvik.meaning .f12x x.op (leNat (bs.take (Opcodes.length .f12x)))) ∧
      x.op = Dalvik.bits (leNat (bs.take (Opcodes.length .f12x))) 0 8 := by
  have hl := decode_ok_length h
  obtain ⟨b0, b1, r, rfl⟩ := ex2 _ (by simpa [Opcodes.length] using hl)
  simp only [allBytes_cons] at hb
  obtain ⟨h0, h1, _⟩ := hb
  dec_simp at h
  fs_finish

theorem fs_11n (bs : List Nat) (hb : AllBytes bs) (x : Insn) (h : decode .f11n bs = .ok x)
    (hk : needsKind .f11n = true → ∃ k, kindOf x.op = some k) :
    View.ofInsn x = View.ofMeaning (Dalvik.meaning .f11n x.op (leNat (bs.take (Opcodes.length .f11n)))) ∧
      x.op = Dalvik.bits (leNat (bs.take (Opcodes.length .f11n))) 0 8 := by
  have hl := decode_ok_length h
  obtain ⟨b0, b1, r, rfl⟩ := ex2 _ (by simpa [Opcodes.length] using hl)
  simp only [allBytes_cons] at hb
  obtain ⟨h0, h1, _⟩ := hb
  dec_simp at h
  fs_finish

theorem fs_11x (bs : List Nat) (hb : AllBytes bs) (x : Insn) (h : decode .f11x bs = .ok x)
    (hk : needsKind .f11x = true → ∃ k, kindOf x.op = some k) :
    View.ofInsn x = View.ofMeaning (Dalvik.meaning .f11x x.op (leNat (bs.take (Opcodes.length .f11x)))) ∧
      x.op = Dalvik.bits (leNat (bs.take (Opcodes.length .f11x))) 0 8 := by
  have hl := decode_ok_length h
  obtain ⟨b0, b1, r, rfl⟩ := ex2 _ (by simpa [Opcodes.length] using hl)
  simp only [allBytes_cons] at hb
  obtain ⟨h0, h1, _⟩ := hb
  dec_simp at h
  fs_finish

theorem fs_10t (bs : List Nat) (hb : AllBytes bs) (x : Insn) (h : decode .f10t bs = .ok x)
    (hk : needsKind .f10t = true → ∃ k, kindOf x.op = some k) :
    View.ofInsn x = View.ofMeaning (Dalvik.meaning .f10t x.op (leNat (bs.take (Opcodes.length .f10t)))) ∧
      x.op = Dalvik.bits (leNat (bs.take (Opcodes.length .f10t))) 0 8 := by
  have hl := decode_ok_length h
  obtain ⟨b0, b1, r, rfl⟩ := ex2 _ (by simpa [Opcodes.length] using hl)
  simp only [allBytes_cons] at hb
  obtain ⟨h0, h1, _⟩ := hb
  dec_simp at h
  fs_finish

end AgVerif.Insn
