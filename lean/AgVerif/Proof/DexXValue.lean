/-
C05/C07 extension (Model/DexFileX.lean): the encoded_value decoder with raising lookups is C04's
decoder whenever the lookups do not raise (`decValueX_lift`), hence inherits C04's round trip
(`decodeValue_encodes`): an encoded_array / annotation_item of the format document is decoded to
the values it denotes (`decArrayX_enc`, `decAnnItemX_enc`).
-/
import AgVerif.Model.DexFileX
import AgVerif.Proof.EncodedValue
import AgVerif.Spec.DexFile
namespace AgVerif.DexX
open AgVerif.DexFile AgVerif.EncodedValue AgVerif.Gen.ValueTypes
open AgVerif.Spec.EncodedValue (SValue Pools Elem)
open AgVerif.Spec.Leb (IsItem unsignedValue)

/-- lookups that never raise -/
def okLook (c : EncodedValue.CM) : Look :=
  ⟨fun i => .ok (c.rawString i), fun i => .ok (c.type i), fun i => .ok (c.field i), fun i => .ok (c.method i)⟩

def errStr : Err → String
  | .struct => "struct.error"
  | .fuel => "fuel"

def liftE {α : Type} : Except Err α → Except String α
  | .ok a => .ok a
  | .error e => .error (errStr e)

theorem decManyX_lift {α : Type} (dec : List Nat → Except Err (α × Nat)) (decX : DecX α)
    (h : ∀ bs, decX bs = liftE (dec bs)) : ∀ n bs, decManyX decX n bs = liftE (decodeMany dec n bs)
  | 0, _ => rfl
  | n + 1, bs => by
    simp only [decManyX, decodeMany, h bs]
    cases dec bs with
    | error e => rfl
    | ok p =>
      obtain ⟨v, k⟩ := p
      simp only [liftE, decManyX_lift dec decX h n (bs.drop k)]
      cases decodeMany dec n (bs.drop k) with
      | error e => rfl
      | ok q => rfl

theorem decElemX_lift (dec : List Nat → Except Err (Value × Nat)) (decX : DecX Value)
    (h : ∀ bs, decX bs = liftE (dec bs)) (bs : Bytes) : decElemX decX bs = liftE (decodeElem dec bs) := by
  simp only [decElemX, decodeElem]
  cases Leb.readUleb bs with
  | none => rfl
  | some p =>
    obtain ⟨name, kn⟩ := p
    simp only [h]
    cases dec (bs.drop kn) with
    | error e => rfl
    | ok q => rfl

theorem decStepX_lift (c : EncodedValue.CM) (dec : List Nat → Except Err (Value × Nat)) (decX : DecX Value)
    (h : ∀ bs, decX bs = liftE (dec bs)) (val : Nat) (rest : Bytes) :
    decStepX (okLook c) decX val rest = liftE (decodeStep c dec val rest) := by
  simp only [decStepX, decodeStep]
  cases kindOf (val &&& typeMask) with
  | intS => rfl
  | intU => rfl
  | float32 => rfl
  | float64 => rfl
  | str => rfl
  | type => rfl
  | field => rfl
  | method => rfl
  | array =>
    simp only
    cases Leb.readUleb rest with
    | none => rfl
    | some p =>
      obtain ⟨size, k⟩ := p
      simp only [decManyX_lift dec decX h]
      cases decodeMany dec size (rest.drop k) with
      | error e => rfl
      | ok q => rfl
  | annotation =>
    simp only
    cases Leb.readUleb rest with
    | none => rfl
    | some p =>
      obtain ⟨t, k0⟩ := p
      simp only
      cases Leb.readUleb (rest.drop k0) with
      | none => rfl
      | some p1 =>
        obtain ⟨size, k1⟩ := p1
        simp only [decManyX_lift (decodeElem dec) (decElemX decX) (decElemX_lift dec decX h)]
        cases decodeMany (decodeElem dec) size (rest.drop (k0 + k1)) with
        | error e => rfl
        | ok q => rfl
  | sbyte => cases rest <;> rfl
  | ubyte => cases rest <;> rfl
  | null => rfl
  | bool => rfl
  | unknown => rfl

theorem decValueX_lift (c : EncodedValue.CM) : ∀ (f : Nat) (bs : Bytes),
    decValueX (okLook c) f bs = liftE (decodeValue c f bs)
  | 0, _ => rfl
  | _ + 1, [] => rfl
  | f + 1, val :: rest => by
    simp only [decValueX, decodeValue]
    exact decStepX_lift c (decodeValue c f) (decValueX (okLook c) f) (decValueX_lift c f) val rest

theorem decArrayX_lift (c : EncodedValue.CM) (bs : Bytes) :
    decArrayX (okLook c) bs = liftE (decodeArray c bs) := by
  simp only [decArrayX, decodeArray]
  cases Leb.readUleb bs with
  | none => rfl
  | some p =>
    obtain ⟨size, k⟩ := p
    simp only [decManyX_lift _ _ (decValueX_lift c (bs.length + 1))]
    cases decodeMany (decodeValue c (bs.length + 1)) size (bs.drop k) with
    | error e => rfl
    | ok q => rfl

/-! ### the format document's encoded_array and annotation_item -/

/-- `ab` is an encoded_array (uleb128 size, then `size` encoded_values) denoting `vs` -/
def EncArray (ab : Bytes) (vs : List SValue) : Prop :=
  ∃ (item : Bytes) (parts : List (Bytes × SValue)),
    IsItem item ∧ item.length ≤ 5 ∧ unsignedValue item = some parts.length ∧
    (∀ p ∈ parts, Spec.EncodedValue.Encodes p.1 p.2) ∧
    ab = item ++ (parts.map (·.1)).flatten ∧ vs = parts.map (·.2)

theorem decodeArray_enc (P : Pools) (ab : Bytes) (vs : List SValue) (rest : Bytes) (h : EncArray ab vs) :
    decodeArray (toCM P) (ab ++ rest) = .ok (vs.map (embed P), ab.length) := by
  obtain ⟨item, parts, hi, hl, hv, hp, rfl, rfl⟩ := h
  have key : ∀ F, (∀ p ∈ parts, p.1.length ≤ F) →
      decodeMany (decodeValue (toCM P) F) parts.length ((parts.map (·.1)).flatten ++ rest)
        = .ok (parts.map (fun p => embed P p.2), ((parts.map (·.1)).flatten).length) :=
    fun F hF => decodeMany_parts _ parts (·.1) (fun p => embed P p.2)
      (fun p hpm r => decodeValue_encodes P p.1 p.2 (hp p hpm) r F (hF p hpm)) rest
  unfold decodeArray
  rw [List.append_assoc, readUleb_item item _ _ hi hl hv]
  simp only [List.drop_left]
  rw [key _ (fun p hpm => by
    have := length_le_flatten parts (·.1) p hpm
    simp only [List.length_append]
    omega)]
  simp only [List.map_map, List.length_append]
  rfl

theorem decArrayX_enc (P : Pools) (ab : Bytes) (vs : List SValue) (rest : Bytes) (h : EncArray ab vs) :
    decArrayX (okLook (toCM P)) (ab ++ rest) = .ok (vs.map (embed P), ab.length) := by
  rw [decArrayX_lift, decodeArray_enc P ab vs rest h]
  rfl

/-- `ab` is an annotation_item: visibility byte, then an encoded_annotation -/
def EncAnnItem (ab : Bytes) (vis t : Nat) (elems : List (Nat × SValue)) : Prop :=
  ∃ body, ab = vis :: body ∧ Spec.EncodedValue.Encodes (0x1d :: body) (.annotation t elems)

theorem decAnnItemX_enc (P : Pools) (ab : Bytes) (vis t : Nat) (elems : List (Nat × SValue)) (rest : Bytes)
    (h : EncAnnItem ab vis t elems) :
    decAnnItemX (okLook (toCM P)) (ab ++ rest) =
      .ok (⟨vis, t, elems.map (fun e => (e.1, embed P e.2))⟩, ab.length) := by
  obtain ⟨body, rfl, henc⟩ := h
  have hv := decodeValue_encodes P _ _ henc rest ((body ++ rest).length + 2) (by simp only [List.length_cons, List.length_append]; omega)
  have hx := decValueX_lift (toCM P) ((body ++ rest).length + 2) ((0x1d :: body) ++ rest)
  rw [hv] at hx
  simp only [List.cons_append, decValueX, liftE, embed, embedElems_eq_map] at hx
  simp only [decAnnItemX, List.cons_append, hx, List.length_cons]

/-! ### the offset records -/

open AgVerif.Spec.DexFile (uint) in
/-- annotation_set_item / annotation_set_ref_list: size, then the offsets -/
def encOffList (l : List Nat) : Bytes := uint l.length ++ l.flatMap uint

open AgVerif.Spec.DexFile (uint) in
def encPairs (l : List (Nat × Nat)) : Bytes := l.flatMap fun p => uint p.1 ++ uint p.2

open AgVerif.Spec.DexFile (uint) in
/-- annotations_directory_item -/
def encAnnDir (d : AnnDir) : Bytes :=
  uint d.classOff ++ uint d.fields.length ++ uint d.methods.length ++ uint d.params.length ++
    encPairs d.fields ++ encPairs d.methods ++ encPairs d.params

end AgVerif.DexX
