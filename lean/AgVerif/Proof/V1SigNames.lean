/-
Lemmas about signature block names: the shape accepted by get_signature_names' regular expression and
the derivation of the .SF name (`rsplit(".", 1)[0] + ".SF"`).
-/
import AgVerif.Model.V1Sig
namespace AgVerif.V1Sig
open AgVerif.Gen

theorem lastIdx_go_none (c : Char) : ∀ (b : List Char) (i : Nat) (r : Option Nat), c ∉ b → lastIdx.go c b i r = r
  | [], _, _, _ => rfl
  | x :: xs, i, r, h => by
    have hx : ¬ x = c := fun e => h (by simp [e])
    have hxs : c ∉ xs := fun e => h (List.mem_cons_of_mem _ e)
    simp only [lastIdx.go, hx, if_false]
    exact lastIdx_go_none c xs (i + 1) r hxs

theorem lastIdx_go_append (c : Char) : ∀ (a b : List Char) (i : Nat) (r : Option Nat), c ∉ b →
    lastIdx.go c (a ++ c :: b) i r = some (i + a.length)
  | [], b, i, r, h => by
    simp only [List.nil_append, lastIdx.go, if_true, List.length_nil, Nat.add_zero]
    exact lastIdx_go_none c b (i + 1) (some i) h
  | x :: xs, b, i, r, h => by
    simp only [List.cons_append, lastIdx.go, List.length_cons]
    rw [lastIdx_go_append c xs b (i + 1) _ h]
    congr 1; omega

theorem lastIdx_append (c : Char) (a b : List Char) (h : c ∉ b) : lastIdx c (a ++ c :: b) = some a.length := by
  unfold lastIdx; rw [lastIdx_go_append c a b 0 none h]; simp

/-- `name.rsplit(".", 1)[0]` cuts at the last dot -/
theorem rsplitDot_spec (stem ext : List Char) (h : '.' ∉ ext) : rsplitDot (stem ++ '.' :: ext) = stem := by
  unfold rsplitDot; rw [lastIdx_append '.' stem ext h]; simp

theorem isSigName_iff (n : String) :
    isSigName n = true ↔ ∃ mid ext, ext ∈ V1SigTables.sigExts ∧
      n.toList = V1SigTables.sigPrefix.toList ++ mid ++ '.' :: ext.toList := by
  unfold isSigName
  simp only [Bool.and_eq_true, List.any_eq_true, List.isPrefixOf_iff_prefix, List.isSuffixOf_iff_suffix]
  constructor
  · rintro ⟨⟨t, ht⟩, e, he, ⟨m, hm⟩⟩
    refine ⟨m, e, he, ?_⟩
    rw [← ht] at hm ⊢
    simp only [List.drop_left'] at hm
    rw [List.append_assoc, ← hm]
  · rintro ⟨mid, e, he, hn⟩
    refine ⟨⟨mid ++ '.' :: e.toList, by rw [hn]; simp⟩, e, he, ⟨mid, ?_⟩⟩
    rw [hn]; simp

/-- with the "rsplit" rule the .SF name of a block `stem.ext` (no dot in `ext`) is `stem.SF` -/
theorem sfNameBy_rsplit (stem ext : List Char) (h : '.' ∉ ext) :
    sfNameBy "rsplit" (String.ofList (stem ++ '.' :: ext)) = String.ofList (stem ++ ".SF".toList) := by
  unfold sfNameBy
  have : ("rsplit" = "splitext") = False := by decide
  simp only [String.toList_ofList, this, if_false, rsplitDot_spec stem ext h]
end AgVerif.V1Sig
