/-
C18, Lengauer–Tarjan correctness, layer 5c: one iteration of the main loop (`iter23`) takes the
invariant `LInv` from level `i + 1` to level `i`, and so `steps23` reaches level 1.
-/
import AgVerif.Proof.DomLT_Loop3
namespace AgVerif.DomLT
open AgVerif AgVerif.Spec

/-- the child of `pw` towards a vertex `v` numbered at least like the child `w` of `pw`, if numbered at
    most like `w`, is `w` -/
theorem child_eq {E : Nat → Nat → Prop} {r : Nat} {num : Nat → Nat} {par : Nat → Option Nat}
    (T : DTree E r num par) {pw w c v : Nat} (hp : par w = some pw) (hc : par c = some pw)
    (hcv : Anc par c v) (hle : num c ≤ num w) (hwv : num w ≤ num v) : c = w := by
  have hw0 : num w ≠ 0 := by have := (T.par_edge w pw hp).2.2; omega
  have h := T.anc_intv hcv hw0 hle hwv
  cases h with
  | refl => rfl
  | step hp' h' =>
    rw [hp] at hp'; cases hp'
    have := T.anc_le h'
    have := (T.par_edge c pw hc).2.2
    omega

/-- state after Step 2, `bucket[vertex[semi[w]]].add(w)` and `_link(pw, w)`: ready for Step 3 -/
theorem p3_after_link {g : Digraph} {s0 : St} {n : Nat} (C : Ctx g s0 n) {i w pw sw : Nat}
    {s s1 s2 : St} {Q : Nat → Prop} (hw : s0.semi w = i + 1) (hp : s0.parent w = some pw)
    (h : LInv g s0 (i + 1) s) (hP : P2 g s0 (i + 1) w s1 Q) (hfr : Fr2 w s s1)
    (hsw : IsSemi g.Edge s0.semi sw w) (hsw2 : s1.semi w = s0.semi sw)
    (e1 : s2.semi = s1.semi) (e2 : s2.vertex = s1.vertex) (e3 : s2.parent = s1.parent)
    (e4 : s2.pred = s1.pred) (e5 : s2.dom = s1.dom) (e6 : s2.label = s1.label)
    (e7 : s2.ancestor = upd s1.ancestor w (some (some pw)))
    (e8 : s2.bucket = upd s1.bucket sw (setAdd (s1.bucket sw) w)) :
    P3 g s0 i w pw s2 (s2.bucket pw) := by
  have T := C.tree
  obtain ⟨_, hp0, hplt⟩ := T.par_edge w pw hp
  have hw0 : s0.semi w ≠ 0 := by omega
  have hwr : w ≠ g.entry := fun e => by have := C.facts.entry_one; rw [← e] at this; omega
  have hswlt := T.semi_lt hw0 hwr hsw
  have hswanc := T.semi_anc hsw.1 hswlt
  have hne : ∀ x, s0.semi x ≠ i + 1 → x ≠ w := fun x hx e => hx (e ▸ hw)
  -- membership in the new buckets
  have hmem : ∀ u v, v ∈ s2.bucket u → v ∈ s.bucket u ∨ (u = sw ∧ v = w) := by
    intro u v hv
    rw [e8] at hv
    simp only [upd] at hv
    split at hv
    · next hu =>
      rcases mem_setAdd.mp hv with h1 | h1
      · left; rw [← hfr.bucket, hu]; exact h1
      · exact Or.inr ⟨hu, h1⟩
    · left; rw [← hfr.bucket]; exact hv
  have hmem' : ∀ u v, v ∈ s.bucket u → v ∈ s2.bucket u := by
    intro u v hv
    rw [← hfr.bucket] at hv
    rw [e8]; simp only [upd]
    split
    · next hu => subst hu; exact mem_setAdd.mpr (Or.inl hv)
    · exact hv
  have hwmem : w ∈ s2.bucket sw := by rw [e8]; simp [upd, mem_setAdd]
  -- semi of processed vertices
  have hsemi_old : ∀ v, i + 1 < s0.semi v → s2.semi v = s.semi v := by
    intro v hv; rw [e1]; exact hfr.semi v (hne v (by omega))
  refine ⟨⟨⟨e2.trans hP.core.stat.vertex, e3.trans hP.core.stat.parent, e4.trans hP.core.stat.pred⟩,
    ?_, by rw [e5]; exact hP.core.dom_none⟩, hP.finv.link T hw hp e7 e6 e1, ?_, ?_, ?_, ?_⟩
  · intro v hv
    by_cases hvw : v = w
    · subst hvw; exact ⟨sw, hsw, by rw [e1]; exact hsw2⟩
    · have : s0.semi v ≠ i + 1 := fun e => hvw (T.inj v w (by omega) (by omega))
      obtain ⟨sv, h1, h2⟩ := hP.core.semi_hi v (by omega)
      exact ⟨sv, h1, by rw [e1]; exact h2⟩
  · intro v hv
    rw [e1]; exact hP.semi_lo v (by omega) (hne v (by omega))
  · intro u v hu hv
    rcases hmem u v hv with h1 | ⟨h1, h2⟩
    · obtain ⟨b1, b2, b3, b4, b5, b6⟩ := h.bucket u v h1
      refine ⟨by omega, by rw [hsemi_old v b1]; exact b2, b3, b4, b5, ?_⟩
      intro c hc hcv
      have := b6 c hc hcv
      have : s0.semi c ≠ i + 1 := fun e => by
        have := T.inj c w (by omega) (by omega); subst this
        rw [hp] at hc; exact hu (Option.some.inj hc).symm
      omega
    · subst h1; subst h2
      refine ⟨by omega, by rw [e1]; exact hsw2, hsw.1.1, hswanc, fun e => by subst e; omega, ?_⟩
      intro c hc hcv
      have := T.anc_le hcv
      have : s0.semi c ≠ i + 1 := fun e => by
        have := T.inj c v (by omega) (by omega); subst this
        rw [hp] at hc; exact hu (Option.some.inj hc).symm
      omega
  · intro v hv
    rcases hmem pw v hv with h1 | ⟨h1, h2⟩
    · obtain ⟨b1, b2, b3, b4, b5, b6⟩ := h.bucket pw v h1
      refine ⟨by rw [hsemi_old v b1]; exact b2, ?_⟩
      obtain ⟨c, hc, hcv⟩ := b4.child b5
      have := child_eq T hp hc hcv (by rw [hw]; exact b6 c hc hcv) (by omega)
      subst this; exact hcv
    · subst h2; exact ⟨by rw [e1, hsw2, h1], Anc.refl _⟩
  · intro v hv
    by_cases hvw : v = w
    · subst hvw
      by_cases hsp : sw = pw
      · exact Or.inr (Or.inl (hsp ▸ hwmem))
      · exact Or.inl ⟨sw, hsp, hwmem⟩
    · have : s0.semi v ≠ i + 1 := fun e => hvw (T.inj v w (by omega) (by omega))
      rcases h.dom v (by omega) with ⟨u, hu⟩ | ⟨d, hd, hr⟩
      · by_cases hup : u = pw
        · exact Or.inr (Or.inl (hup ▸ hmem' u v hu))
        · exact Or.inl ⟨u, hup, hmem' u v hu⟩
      · exact Or.inr (Or.inr ⟨d, by rw [e5, hfr.dom]; exact hd, hr⟩)

end AgVerif.DomLT
