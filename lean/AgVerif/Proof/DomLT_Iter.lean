/-
C18, Lengauer–Tarjan correctness, layer 5c: one iteration of the main loop (`iter23`) takes the
invariant `LInv` from level `i + 1` to level `i`, and so `steps23` reaches level 1.
-/
import AgVerif.Proof.DomLT_Loop3
namespace AgVerif.DomLT
open AgVerif AgVerif.Spec

/-- the child of `pw` towards a vertex `v` numbered at least like the child `w` of `pw`, if numbered at
    most like `w`, is `w` -/
theorem child_eq {E : Nat → Nat → Prop} {r : Nat} {num : Nat → Nat} {par : Nat → Option Nat}
    (T : DTree E r num par) {pw w c v : Nat} (hp : par w = some pw) (hc : par c = some pw)
    (hcv : Anc par c v) (hle : num c ≤ num w) (hwv : num w ≤ num v) : c = w := by
  have hw0 : num w ≠ 0 := by have := (T.par_edge w pw hp).2.2; omega
  have h := T.anc_intv hcv hw0 hle hwv
  cases h with
  | refl => rfl
  | step hp' h' =>
    rw [hp] at hp'; cases hp'
    have := T.anc_le h'
    have := (T.par_edge c pw hc).2.2
    omega

/-- state after Step 2, `bucket[vertex[semi[w]]].add(w)` and `_link(pw, w)`: ready for Step 3 -/
theorem p3_after_link {g : Digraph} {s0 : St} {n : Nat} (C : Ctx g s0 n) {i w pw sw : Nat}
    {s s1 s2 : St} {Q : Nat → Prop} (hw : s0.semi w = i + 1) (hp : s0.parent w = some pw)
    (h : LInv g s0 (i + 1) s) (hP : P2 g s0 (i + 1) w s1 Q) (hfr : Fr2 w s s1)
    (hsw : IsSemi g.Edge s0.semi sw w) (hsw2 : s1.semi w = s0.semi sw)
    (e1 : s2.semi = s1.semi) (e2 : s2.vertex = s1.vertex) (e3 : s2.parent = s1.parent)
    (e4 : s2.pred = s1.pred) (e5 : s2.dom = s1.dom) (e6 : s2.label = s1.label)
    (e7 : s2.ancestor = upd s1.ancestor w (some (some pw)))
    (e8 : s2.bucket = upd s1.bucket sw (setAdd (s1.bucket sw) w)) :
    P3 g s0 i w pw s2 (s2.bucket pw) := by
  have T := C.tree
  obtain ⟨_, hp0, hplt⟩ := T.par_edge w pw hp
  have hw0 : s0.semi w ≠ 0 := by omega
  have hwr : w ≠ g.entry := fun e => by have := C.facts.entry_one; rw [← e] at this; omega
  have hswlt := T.semi_lt hw0 hwr hsw
  have hswanc := T.semi_anc hsw.1 hswlt
  have hne : ∀ x, s0.semi x ≠ i + 1 → x ≠ w := fun x hx e => hx (e ▸ hw)
  -- membership in the new buckets
  have hmem : ∀ u v, v ∈ s2.bucket u → v ∈ s.bucket u ∨ (u = sw ∧ v = w) := by
    intro u v hv
    rw [e8] at hv
    simp only [upd] at hv
    split at hv
    · next hu =>
      rcases mem_setAdd.mp hv with h1 | h1
      · left; rw [← hfr.bucket, hu]; exact h1
      · exact Or.inr ⟨hu, h1⟩
    · left; rw [← hfr.bucket]; exact hv
  have hmem' : ∀ u v, v ∈ s.bucket u → v ∈ s2.bucket u := by
    intro u v hv
    rw [← hfr.bucket] at hv
    rw [e8]; simp only [upd]
    split
    · next hu => subst hu; exact mem_setAdd.mpr (Or.inl hv)
    · exact hv
  have hwmem : w ∈ s2.bucket sw := by rw [e8]; simp [upd, mem_setAdd]
  -- semi of processed vertices
  have hsemi_old : ∀ v, i + 1 < s0.semi v → s2.semi v = s.semi v := by
    intro v hv; rw [e1]; exact hfr.semi v (hne v (by omega))
  refine ⟨⟨⟨e2.trans hP.core.stat.vertex, e3.trans hP.core.stat.parent, e4.trans hP.core.stat.pred⟩,
    ?_, by rw [e5]; exact hP.core.dom_none⟩, hP.finv.link T hw hp e7 e6 e1, ?_, ?_, ?_, ?_⟩
  · intro v hv
    by_cases hvw : v = w
    · subst hvw; exact ⟨sw, hsw, by rw [e1]; exact hsw2⟩
    · have : s0.semi v ≠ i + 1 := fun e => hvw (T.inj v w (by omega) (by omega))
      obtain ⟨sv, h1, h2⟩ := hP.core.semi_hi v (by omega)
      exact ⟨sv, h1, by rw [e1]; exact h2⟩
  · intro v hv
    rw [e1]; exact hP.semi_lo v (by omega) (hne v (by omega))
  · intro u v hu hv
    rcases hmem u v hv with h1 | ⟨h1, h2⟩
    · obtain ⟨b1, b2, b3, b4, b5, b6⟩ := h.bucket u v h1
      refine ⟨by omega, by rw [hsemi_old v b1]; exact b2, b3, b4, b5, ?_⟩
      intro c hc hcv
      have := b6 c hc hcv
      have : s0.semi c ≠ i + 1 := fun e => by
        have := T.inj c w (by omega) (by omega); subst this
        rw [hp] at hc; exact hu (Option.some.inj hc).symm
      omega
    · subst h1; subst h2
      refine ⟨by omega, by rw [e1]; exact hsw2, hsw.1.1, hswanc, fun e => by subst e; omega, ?_⟩
      intro c hc hcv
      have := T.anc_le hcv
      have : s0.semi c ≠ i + 1 := fun e => by
        have := T.inj c v (by omega) (by omega); subst this
        rw [hp] at hc; exact hu (Option.some.inj hc).symm
      omega
  · intro v hv
    rcases hmem pw v hv with h1 | ⟨h1, h2⟩
    · obtain ⟨b1, b2, b3, b4, b5, b6⟩ := h.bucket pw v h1
      refine ⟨by rw [hsemi_old v b1]; exact b2, ?_⟩
      obtain ⟨c, hc, hcv⟩ := b4.child b5
      have := child_eq T hp hc hcv (by rw [hw]; exact b6 c hc hcv) (by omega)
      subst this; exact hcv
    · subst h2; exact ⟨by rw [e1, hsw2, h1], Anc.refl _⟩
  · intro v hv
    by_cases hvw : v = w
    · subst hvw
      by_cases hsp : sw = pw
      · exact Or.inr (Or.inl (hsp ▸ hwmem))
      · exact Or.inl ⟨sw, hsp, hwmem⟩
    · have : s0.semi v ≠ i + 1 := fun e => hvw (T.inj v w (by omega) (by omega))
      rcases h.dom v (by omega) with ⟨u, hu⟩ | ⟨d, hd, hr⟩
      · by_cases hup : u = pw
        · exact Or.inr (Or.inl (hup ▸ hmem' u v hu))
        · exact Or.inl ⟨u, hup, hmem' u v hu⟩
      · exact Or.inr (Or.inr ⟨d, by rw [e5, hfr.dom]; exact hd, hr⟩)

/-- after Step 3 and `bucket[pw]` being emptied the invariant holds one level down -/
theorem linv_after_step3 {g : Digraph} {s0 : St} {i w pw : Nat} {s3 s4 : St}
    (h : P3 g s0 i w pw s3 [])
    (e1 : s4.semi = s3.semi) (e2 : s4.vertex = s3.vertex) (e3 : s4.parent = s3.parent)
    (e4 : s4.pred = s3.pred) (e5 : s4.dom = s3.dom) (e6 : s4.label = s3.label)
    (e7 : s4.ancestor = s3.ancestor) (e8 : s4.bucket = upd s3.bucket pw []) :
    LInv g s0 i s4 := by
  refine ⟨⟨⟨e2.trans h.core.stat.vertex, e3.trans h.core.stat.parent, e4.trans h.core.stat.pred⟩,
    by rw [e1]; exact h.core.semi_hi, by rw [e5]; exact h.core.dom_none⟩,
    h.finv.congr e7 e6 (fun x _ => by rw [e1]), by rw [e1]; exact h.semi_lo, ?_, ?_⟩
  · intro u v hv
    rw [e8] at hv; simp only [upd] at hv
    split at hv
    · simp at hv
    · next hu => rw [e1]; exact h.bucket_o u v hu hv
  · intro v hv
    rcases h.dom v hv with ⟨u, hu, hm⟩ | hm | hd
    · exact Or.inl ⟨u, by rw [e8]; simp only [upd, if_neg hu]; exact hm⟩
    · simp at hm
    · rw [e5]; exact Or.inr hd

/-- the Step 3 invariant only depends on the elements of the remaining list -/
theorem P3.rem_congr {g : Digraph} {s0 : St} {i w pw : Nat} {s : St} {rem rem' : List Nat}
    (h : P3 g s0 i w pw s rem) (hm : ∀ x, x ∈ rem' ↔ x ∈ rem) : P3 g s0 i w pw s rem' :=
  ⟨h.core, h.finv, h.semi_lo, h.bucket_o, fun v hv => h.rem_ok v ((hm v).mp hv), fun v hv => by
    rcases h.dom v hv with h1 | h1 | h1
    · exact Or.inl h1
    · exact Or.inr (Or.inl ((hm v).mpr h1))
    · exact Or.inr (Or.inr h1)⟩

/-- one iteration of `for i in range(n, 1, -1)`, the sets enumerated in any admissible order -/
theorem iter23_spec {g : Digraph} {s0 : St} {n : Nat} (C : Ctx g s0 n) {o : Order} (ho : o.Adm)
    {i f : Nat} (hi : 1 ≤ i)
    (hin : i + 1 ≤ n) (hf : ∀ v, s0.semi v < f) {s : St} (y : Option Nat) (h : LInv g s0 (i + 1) s) :
    ∃ s' y', iter23 o f (i + 1) s y = some (s', y') ∧ LInv g s0 i s' := by
  have T := C.tree
  obtain ⟨w, hvw, hw⟩ := C.facts.vertex_semi (i + 1) (by omega) hin
  have hw0 : s0.semi w ≠ 0 := by omega
  have hwr : w ≠ g.entry := fun e => by have := C.facts.entry_one; rw [← e] at this; omega
  obtain ⟨pw, hp⟩ := T.par_ex w hw0 hwr
  obtain ⟨ep, hp0, hplt⟩ := T.par_edge w pw hp
  have hP0 : P2 g s0 (i + 1) w s (fun _ => False) :=
    ⟨h.core, h.finv, fun v hv _ => h.semi_lo v hv, by rw [h.semi_lo w (by omega)]; exact Nat.le_refl _,
     Or.inl (h.semi_lo w (by omega)), fun _ hf => hf.elim⟩
  have hpreds : ∀ v ∈ o.pred (i + 1) (s.pred w), s0.semi v ≠ 0 ∧ g.Edge v w := by
    intro v hv
    have hv := ((ho (i + 1) (s.pred w) v).1).mp hv
    rw [h.core.stat.pred] at hv; exact (C.facts.pred_complete w v).mp hv
  obtain ⟨s1, y1, hst, hP, hfr, hy⟩ :=
    step2_spec C hw (by omega) hf (o.pred (i + 1) (s.pred w)) s y _ hP0 hpreds
  have hpwmem : pw ∈ o.pred (i + 1) (s.pred w) := by
    apply ((ho (i + 1) (s.pred w) pw).1).mpr
    rw [h.core.stat.pred]; exact (C.facts.pred_complete w pw).mpr ⟨hp0, ep⟩
  have hy1 : y1 = some (s1.semi w) := by
    rcases hy with ⟨h1, _⟩ | h1
    · rw [h1] at hpwmem; simp at hpwmem
    · exact h1
  obtain ⟨sw, hsw, hsw2⟩ := hP.semi_final C hw (by omega) (fun v hv e => by
    right; apply ((ho (i + 1) (s.pred w) v).1).mpr
    rw [h.core.stat.pred]; exact (C.facts.pred_complete w v).mpr ⟨hv, e⟩)
  have hvsw : s1.vertex (s1.semi w) = some sw := by
    rw [hP.core.stat.vertex, hsw2]; exact (C.facts.semi_vertex sw hsw.1.1).2.2
  have hpar1 : s1.parent w = some pw := by rw [hP.core.stat.parent]; exact hp
  have hP3 : P3 g s0 i w pw
      { s1 with bucket := upd s1.bucket sw (setAdd (s1.bucket sw) w)
                ancestor := upd s1.ancestor w (some (some pw)) }
      (upd s1.bucket sw (setAdd (s1.bucket sw) w) pw) :=
    p3_after_link C hw hp h hP hfr hsw hsw2 rfl rfl rfl rfl rfl rfl rfl rfl
  obtain ⟨s3, hst3, hP3', hb3⟩ := step3_spec C hi hw hp hf _ _
    (hP3.rem_congr (fun x => (ho (i + 1) (upd s1.bucket sw (setAdd (s1.bucket sw) w) pw) x).2))
  refine ⟨{ s3 with bucket := upd s3.bucket pw [] }, y1, ?_,
    linv_after_step3 hP3' rfl rfl rfl rfl rfl rfl rfl rfl⟩
  simp only [iter23]
  rw [h.core.stat.vertex, hvw]
  simp only [hst, hy1, hvsw, hpar1, hst3]

/-- the main loop reaches level 1 -/
theorem steps23_spec {g : Digraph} {s0 : St} {n : Nat} (C : Ctx g s0 n) {o : Order} (ho : o.Adm)
    {f : Nat} (hf : ∀ v, s0.semi v < f) : ∀ (i : Nat) (s : St) (y : Option Nat), 1 ≤ i → i ≤ n →
      LInv g s0 i s → ∃ s', steps23 o f i s y = some s' ∧ LInv g s0 1 s'
  | 0, _, _, h, _, _ => by omega
  | 1, s, _, _, _, h => ⟨s, rfl, h⟩
  | i + 2, s, y, _, hin, h => by
    obtain ⟨s1, y1, hit, h1⟩ := iter23_spec C ho (i := i + 1) (by omega) hin hf y h
    obtain ⟨s', hst, h'⟩ := steps23_spec C ho hf (i + 1) s1 y1 (by omega) (by omega) h1
    exact ⟨s', by simp only [steps23, hit]; exact hst, h'⟩

/-- the state left by Step 1 satisfies the invariant at level `n` -/
theorem linv_init {g : Digraph} {s0 : St} {n : Nat} (C : Ctx g s0 n) : LInv g s0 n s0 := by
  have hle : ∀ v, s0.semi v ≤ n := by
    intro v
    by_cases hv : s0.semi v = 0
    · omega
    · exact (C.facts.semi_vertex v hv).2.1
  refine ⟨⟨⟨rfl, rfl, rfl⟩, fun v hv => by have := hle v; omega, fun v _ => C.dom0 v⟩,
    ⟨?_, fun v hv _ => (C.facts.label_self v hv).2, fun v hv _ => (C.facts.label_self v hv).1,
      fun v hv => by have := hle v; omega⟩,
    fun _ _ => rfl, fun u v hv => by rw [C.bucket0 u] at hv; simp at hv,
    fun v hv => by have := hle v; omega⟩
  intro v hv
  apply Classical.byContradiction
  intro hn
  exact C.facts.anc_dom v hn hv

end AgVerif.DomLT
