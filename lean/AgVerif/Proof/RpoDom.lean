/-
C22 (B2) — the numbering hypothesis of Proof/CommonDom.lean holds for the real numbering:
in the reverse post-order computed by `compute_rpo` (model `Rpo.computeRpo`, property C19) every
strict dominator of a reachable node is numbered before the node.  (A dominator lies on the DFS-tree
path from the entry, and tree parents are numbered before their children.)
Together with C18 (`domLTWith_correct`: `dom_lt` returns the dominator tree for every enumeration
order of its sets) this gives the context `Ctx g r.idom rp.num` for the real `idom` and the real `num`.
-/
import AgVerif.Props.C19
import AgVerif.Proof.DomLT_Final
import AgVerif.Proof.CommonDom
import AgVerif.Proof.DomRef
namespace AgVerif.CommonDom
open AgVerif AgVerif.Spec AgVerif.Rpo AgVerif.DomRef

/-- a parent pointer that closes a cycle is impossible in a tree whose root has no parent -/
theorem no_cycle {par : Nat → Option Nat} {r u p : Nat} (hr : par r = none) (hp : par u = some p)
    (hup : Anc par u p) : ∀ y, Anc par r y → Anc par u y → False := by
  intro y hy
  induction hy with
  | refl =>
    intro h
    cases h with
    | refl => rw [hr] at hp; cases hp
    | step h' _ => rw [hr] at h'; cases h'
  | @step y q hq _ ih =>
    intro h
    apply ih
    cases h with
    | refl => rw [hq] at hp; cases hp; exact hup
    | step h' a => rw [hq] at h'; cases h'; exact a

variable {g : Digraph}

/-- a DFS-tree parent is reachable and numbered before its child -/
theorem par_num (hwf : g.WF) {r : Rpo.Result} (h : computeRpo g = some r) {u p : Nat}
    (hu : Reach g.Edge g.entry u) (hp : r.par u = some p) :
    r.num p < r.num u ∧ Reach g.Edge g.entry p := by
  obtain ⟨hedge, hroot, hanc, hreach⟩ := C19.dfs_tree g r h
  have hau : Anc r.par g.entry u := hanc u hu
  have hap : Anc r.par g.entry p := by
    cases hau with
    | refl => rw [hroot] at hp; cases hp
    | step h' a => rw [hp] at h'; cases h'; exact a
  have hpr : Reach g.Edge g.entry p := hreach _ _ hap
  refine ⟨?_, hpr⟩
  rcases C19.rpo_forward g hwf r h p u hpr (hedge u p hp) with h1 | h1
  · exact h1
  · exact (no_cycle hroot hp h1 u hau (Anc.refl u)).elim

theorem anc_num (hwf : g.WF) {r : Rpo.Result} (h : computeRpo g = some r) {d v : Nat}
    (ha : Anc r.par d v) : Reach g.Edge g.entry v → d = v ∨ r.num d < r.num v := by
  induction ha with
  | refl => intro _; exact Or.inl rfl
  | @step u p hp _ ih =>
    intro hu
    obtain ⟨hlt, hpr⟩ := par_num hwf h hu hp
    rcases ih hpr with e | e
    · subst e; exact Or.inr hlt
    · exact Or.inr (by omega)

/-- the DFS-tree path from the entry: all its vertices are tree ancestors of its end point -/
theorem tree_path {r : Rpo.Result} (h : computeRpo g = some r) {v : Nat}
    (ha : Anc r.par g.entry v) : ∃ p, Path g.Edge g.entry p v ∧ ∀ x ∈ p, Anc r.par x v := by
  obtain ⟨hedge, _, _, _⟩ := C19.dfs_tree g r h
  induction ha with
  | refl => exact ⟨[g.entry], Path.single _, by intro x hx; simp at hx; subst hx; exact Anc.refl _⟩
  | @step u q hq _ ih =>
    obtain ⟨p, hp, hall⟩ := ih
    refine ⟨p ++ [u], hp.snoc (hedge u q hq), ?_⟩
    intro x hx
    rcases List.mem_append.mp hx with hx | hx
    · exact Anc.step hq (hall x hx)
    · simp at hx; subst hx; exact Anc.refl _

/-- in the reverse post-order a strict dominator is numbered before the node it dominates -/
theorem rpo_dom_num (hwf : g.WF) {r : Rpo.Result} (h : computeRpo g = some r) {d v : Nat}
    (hv : Reach g.Edge g.entry v) (hd : SDom g.Edge g.entry d v) : r.num d < r.num v := by
  obtain ⟨_, _, hanc, _⟩ := C19.dfs_tree g r h
  obtain ⟨p, hp, hall⟩ := tree_path h (hanc v hv)
  rcases anc_num hwf h (hall d (hd.1 p hp)) hv with e | e
  · exact absurd e hd.2
  · exact e

/-- the dominator tree returned by `dom_lt` (any enumeration order of its sets) and the numbers assigned
    by `compute_rpo` satisfy the hypotheses of the `common_dom` theorems -/
theorem ctx_real (hwf : g.WF) (o : DomLT.Order) (ho : o.Adm) {r : DomLT.Result}
    (hr : DomLT.domLTWith o g = some r) {rp : Rpo.Result} (hp : computeRpo g = some rp) :
    Ctx g r.idom rp.num := by
  obtain ⟨r', h1, h2, h3, h4⟩ := DomLT.domLTWith_correct o ho g hwf
  rw [hr] at h1; cases h1
  have htree : IsDomTree g r.idom := by
    intro v _
    constructor
    · rintro (hv | hv)
      · simp [DomLT.Result.idom, hv, h2]
      · simp [DomLT.Result.idom, h4 v hv]
    · intro hne hre
      obtain ⟨d, hd, hi⟩ := h3 v hne hre
      exact ⟨d, by simp [DomLT.Result.idom, hd], hi⟩
  refine ⟨hwf, htree, ?_, ?_⟩
  · intro v hv d hd
    by_cases hne : v = g.entry
    · rw [(htree v hv).1 (Or.inl hne)] at hd; cases hd
    · by_cases hre : Reach g.Edge g.entry v
      · obtain ⟨d', hd', hi⟩ := (htree v hv).2 hne hre
        rw [hd] at hd'; cases hd'
        exact rpo_dom_num hwf hp hre hi.1
      · rw [(htree v hv).1 (Or.inr hre)] at hd; cases hd
  · intro u v _ _ hu hv he
    exact (C19.rpo_general g hwf rp hp).2.1 u v hu hv he

/-- the same context from decidable checks on an arbitrary claimed tree and numbering -/
theorem ctx_of_checks {t : Nat → Option Nat} {num : Nat → Nat} (hwf : g.wfb = true)
    (ht : checkDomTree g t = true) (hup : ∀ v, v < g.n → ∀ d, t v = some d → num d < num v)
    (hinj : ∀ u v, u < g.n → v < g.n → Reach g.Edge g.entry u → Reach g.Edge g.entry v →
      num u = num v → u = v) : Ctx g t num :=
  ⟨Rpo.wf_of_wfb hwf, (checkDomTree_iff g (Rpo.wf_of_wfb hwf) t).mp ht, hup, hinj⟩

/-- two runs of the pipeline on the same graph — `dom_lt` enumerating its sets in the orders `o₁`, `o₂`
    and `place_declarations` enumerating `def_nodes` as `σ₁`, `σ₂` — choose the same declaration node -/
theorem popFoldM_real (hwf : g.WF) (o₁ o₂ : DomLT.Order) (h₁ : o₁.Adm) (h₂ : o₂.Adm)
    {r₁ r₂ : DomLT.Result} (hr₁ : DomLT.domLTWith o₁ g = some r₁) (hr₂ : DomLT.domLTWith o₂ g = some r₂)
    {rp : Rpo.Result} (hp : computeRpo g = some rp) (fuel : Nat) {σ₁ σ₂ : List Nat} (h : σ₁.Perm σ₂)
    (hr : ∀ a ∈ σ₁, Reach g.Edge g.entry a) (hf : ∀ a ∈ σ₁, 2 * rp.num a < fuel) :
    Order.popFoldM (Order.commonDomG r₁.idom rp.num fuel) σ₁
      = Order.popFoldM (Order.commonDomG r₂.idom rp.num fuel) σ₂ := by
  have C1 := ctx_real hwf o₁ h₁ hr₁ hp
  have C2 := ctx_real hwf o₂ h₂ hr₂ hp
  by_cases hne : σ₁ = []
  · subst hne; rw [h.symm.eq_nil]; rfl
  · have hne2 : σ₂ ≠ [] := fun e => hne (by rw [e] at h; exact h.eq_nil)
    obtain ⟨c1, e1, n1⟩ := C1.popFoldM_spec fuel σ₁ hne hr hf
    obtain ⟨c2, e2, n2⟩ := C2.popFoldM_spec fuel σ₂ hne2
      (fun a ha => hr a (h.mem_iff.mpr ha)) (fun a ha => hf a (h.mem_iff.mpr ha))
    obtain ⟨a, ha⟩ := List.exists_mem_of_ne_nil σ₁ hne
    rw [e1, e2, n1.unique (n2.congr (fun x => h.mem_iff.symm)) ha (hr a ha)]

end AgVerif.CommonDom
