/- C01/C02: encode-then-decode (`get_raw()` bytes of an in-range object decode back to the same object) for the classes
   21t 21s 21h 21c 23x 22b.  GENERATED text (one lemma per class; tactic `ed_tac` of Proof/InsnEncDec.lean). -/
import AgVerif.Proof.InsnEncDec
set_option linter.unusedSimpArgs false
set_option linter.unusedVariables false
namespace AgVerif.Insn
open AgVerif.Gen

theorem ed_21t (op : Nat) (v0 v1 : Int) (hop : op < 256) (h0 : 0 ≤ v0 ∧ v0 < 256) (h1 : -32768 ≤ v1 ∧ v1 < 32768) :
    EncDec ⟨.f21t, op, [v0, v1]⟩ := by
  ed_tac

theorem ed_21s (op : Nat) (v0 v1 : Int) (hop : op < 256) (h0 : 0 ≤ v0 ∧ v0 < 256) (h1 : -32768 ≤ v1 ∧ v1 < 32768) :
    EncDec ⟨.f21s, op, [v0, v1]⟩ := by
  ed_tac

theorem ed_21h (op : Nat) (v0 v1 : Int) (hop : op < 256) (h0 : 0 ≤ v0 ∧ v0 < 256) (h1 : -32768 ≤ v1 ∧ v1 < 32768) :
    EncDec ⟨.f21h, op, [v0, v1, if (op : Int) = 0x15 then v1 * 65536 else if (op : Int) = 0x19 then v1 * 281474976710656 else v1]⟩ := by
  ed_tac

theorem ed_21c (op : Nat) (v0 v1 : Int) (hop : op < 256) (h0 : 0 ≤ v0 ∧ v0 < 256) (h1 : 0 ≤ v1 ∧ v1 < 65536) :
    EncDec ⟨.f21c, op, [v0, v1]⟩ := by
  ed_tac

theorem ed_23x (op : Nat) (v0 v1 v2 : Int) (hop : op < 256) (h0 : 0 ≤ v0 ∧ v0 < 256) (h1 : 0 ≤ v1 ∧ v1 < 256) (h2 : 0 ≤ v2 ∧ v2 < 256) :
    EncDec ⟨.f23x, op, [v0, v1, v2]⟩ := by
  ed_tac

theorem ed_22b (op : Nat) (v0 v1 v2 : Int) (hop : op < 256) (h0 : 0 ≤ v0 ∧ v0 < 256) (h1 : 0 ≤ v1 ∧ v1 < 256) (h2 : -128 ≤ v2 ∧ v2 < 128) :
    EncDec ⟨.f22b, op, [v0, v1, v2]⟩ := by
  ed_tac

end AgVerif.Insn
