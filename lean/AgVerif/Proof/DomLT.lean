/-
Lemmas for C18: facts about Step 1 of the model of `dom_lt` (the recursive DFS `DomLT.dfsLoop`):
it terminates with the model's fuel, numbers exactly the reachable vertices 1..n injectively
(`vertex` inverts `semi`), `parent` is a spanning tree of graph edges numbered increasingly,
`pred[w]` holds exactly the reachable predecessors of w, and the forest is initialised.
-/
import AgVerif.Model.DomLT
import AgVerif.Spec.Digraph
namespace AgVerif.DomLT
open AgVerif AgVerif.Spec

theorem mem_setAdd {l : List Nat} {v x : Nat} : x ∈ setAdd l v ↔ x ∈ l ∨ x = v := by
  simp only [setAdd]
  split
  · next h => constructor
              · exact Or.inl
              · rintro (h' | h')
                · exact h'
                · exact h' ▸ h
  · simp

/-- invariant of Step 1 that does not mention the vertex whose loop is running -/
structure DInv (g : Digraph) (r : Nat) (s : St) (n : Nat) : Prop where
  root_num : s.semi r = 1
  num_range : ∀ v, s.semi v ≠ 0 → s.semi v ≤ n ∧ s.vertex (s.semi v) = some v
  vertex_inv : ∀ i v, s.vertex i = some v → s.semi v = i ∧ 1 ≤ i ∧ i ≤ n
  vertex_surj : ∀ i, 1 ≤ i → i ≤ n → ∃ v, s.vertex i = some v
  parent_root : s.parent r = none
  parent_edge : ∀ w p, s.parent w = some p → g.Edge p w ∧ s.semi p ≠ 0 ∧ s.semi p < s.semi w
  parent_ex : ∀ w, s.semi w ≠ 0 → w ≠ r → ∃ p, s.parent w = some p
  reach : ∀ v, s.semi v ≠ 0 → Reach g.Edge r v
  label_self : ∀ v, s.semi v ≠ 0 → s.label v = some v ∧ s.ancestor v = some none
  pred_sound : ∀ w v, v ∈ s.pred w → s.semi v ≠ 0 ∧ g.Edge v w
  anc_dom : ∀ v, s.ancestor v ≠ none → s.semi v ≠ 0

structure Mono (s s' : St) : Prop where
  semi : ∀ v, s.semi v ≠ 0 → s'.semi v = s.semi v
  pred : ∀ w v, v ∈ s.pred w → v ∈ s'.pred w

theorem Mono.refl (s : St) : Mono s s := ⟨fun _ _ => rfl, fun _ _ h => h⟩

theorem Mono.trans {a b c : St} (h1 : Mono a b) (h2 : Mono b c) : Mono a c :=
  ⟨fun v hv => by rw [h2.semi v (by rw [h1.semi v hv]; exact hv), h1.semi v hv],
   fun w v h => h2.pred w v (h1.pred w v h)⟩

theorem Mono.vis {s s' : St} (h : Mono s s') {v : Nat} (hv : s.semi v ≠ 0) : s'.semi v ≠ 0 := by
  rw [h.semi v hv]; exact hv

/-- the vertices in `D` are finished: all successors numbered and recorded in `pred` -/
def Done (g : Digraph) (D : List Nat) (s : St) : Prop :=
  ∀ u ∈ D, ∀ w ∈ g.allSucs u, s.semi w ≠ 0 ∧ u ∈ s.pred w

theorem Done.mono {g : Digraph} {D : List Nat} {s s' : St} (h : Done g D s) (m : Mono s s') :
    Done g D s' :=
  fun u hu w hw => ⟨m.vis (h u hu w hw).1, m.pred w u (h u hu w hw).2⟩

theorem dinv_addPred {g : Digraph} {r : Nat} {s : St} {n w v : Nat} (h : DInv g r s n)
    (hv : s.semi v ≠ 0) (he : w ∈ g.allSucs v) : DInv g r (s.addPred w v) n ∧ Mono s (s.addPred w v) ∧
      v ∈ (s.addPred w v).pred w := by
  refine ⟨⟨h.root_num, h.num_range, h.vertex_inv, h.vertex_surj, h.parent_root, h.parent_edge,
    h.parent_ex, h.reach, h.label_self, ?_, h.anc_dom⟩, ⟨fun _ _ => rfl, ?_⟩, ?_⟩
  · intro w' v' hv'
    simp only [St.addPred, upd] at hv'
    split at hv'
    · next hw =>
      rcases mem_setAdd.mp hv' with h1 | h1
      · exact hw ▸ h.pred_sound w v' h1
      · subst h1; subst hw; exact ⟨hv, he⟩
    · exact h.pred_sound w' v' hv'
  · intro w' v' hv'
    simp only [St.addPred, upd]
    split
    · next hw => subst hw; exact mem_setAdd.mpr (Or.inl hv')
    · exact hv'
  · simp [St.addPred, upd, mem_setAdd]

theorem dinv_enter {g : Digraph} {r : Nat} {s : St} {n cur w : Nat} (h : DInv g r s n)
    (hcur : s.semi cur ≠ 0) (hw : s.semi w = 0) (he : w ∈ g.allSucs cur) :
    DInv g r (({ s with parent := upd s.parent w (some cur) } : St).enter w (n + 1)) (n + 1) ∧
    Mono s (({ s with parent := upd s.parent w (some cur) } : St).enter w (n + 1)) := by
  have hne : ∀ v, s.semi v ≠ 0 → v ≠ w := fun v hv e => hv (e ▸ hw)
  have hrw : r ≠ w := hne r (by rw [h.root_num]; omega)
  refine ⟨⟨?_, ?_, ?_, ?_, ?_, ?_, ?_, ?_, ?_, ?_, ?_⟩, ⟨?_, fun _ _ h => h⟩⟩
  · simp [St.enter, upd, hrw, h.root_num]
  · intro v hv
    simp only [St.enter, upd] at hv ⊢
    by_cases hvw : v = w
    · subst hvw; simp
    · simp only [hvw, if_false] at hv ⊢
      have := h.num_range v hv
      have hne' : s.semi v ≠ n + 1 := by omega
      simp [hne', this.2]; omega
  · intro i v hv
    simp only [St.enter, upd] at hv ⊢
    by_cases hi : i = n + 1
    · subst hi; simp at hv; subst hv; simp
    · simp only [hi, if_false] at hv
      have := h.vertex_inv i v hv
      have hvw : v ≠ w := hne v (by omega)
      simp [hvw, this.1]; omega
  · intro i h1 h2
    simp only [St.enter, upd]
    by_cases hi : i = n + 1
    · exact ⟨w, by simp [hi]⟩
    · obtain ⟨v, hv⟩ := h.vertex_surj i h1 (by omega)
      exact ⟨v, by simp [hi, hv]⟩
  · simp [St.enter, upd, hrw, h.parent_root]
  · intro x p hp
    simp only [St.enter, upd] at hp ⊢
    by_cases hx : x = w
    · subst hx
      simp at hp; subst hp
      have hcw : cur ≠ x := hne cur hcur
      have := h.num_range cur hcur
      simp only [hcw, if_false, if_true]
      exact ⟨he, hcur, by omega⟩
    · simp only [hx, if_false] at hp ⊢
      obtain ⟨h1, h2, h3⟩ := h.parent_edge x p hp
      have hpw : p ≠ w := hne p h2
      simp [hpw]; exact ⟨h1, h2, h3⟩
  · intro x hx hxr
    simp only [St.enter, upd] at hx ⊢
    by_cases hxw : x = w
    · exact ⟨cur, by simp [hxw]⟩
    · simp only [hxw, if_false] at hx ⊢
      exact h.parent_ex x hx hxr
  · intro v hv
    simp only [St.enter, upd] at hv
    by_cases hvw : v = w
    · subst hvw; exact Reach.tail (h.reach cur hcur) he
    · simp only [hvw, if_false] at hv; exact h.reach v hv
  · intro v hv
    simp only [St.enter, upd] at hv ⊢
    by_cases hvw : v = w
    · simp [hvw]
    · simp only [hvw, if_false] at hv ⊢
      exact h.label_self v hv
  · intro w' v' hv'
    simp only [St.enter] at hv'
    obtain ⟨h1, h2⟩ := h.pred_sound w' v' hv'
    refine ⟨?_, h2⟩
    simp [St.enter, upd, hne v' h1, h1]
  · intro v hv
    simp only [St.enter, upd] at hv ⊢
    by_cases hvw : v = w
    · simp [hvw]
    · simp only [hvw, if_false] at hv ⊢
      exact h.anc_dom v hv
  · intro v hv
    simp [St.enter, upd, hne v hv]

/-- the invariant of the successor loop of Step 1 -/
theorem dfsLoop_inv (g : Digraph) (r : Nat) : ∀ (f cur : Nat) (ws : List Nat) (s : St) (n : Nat)
    (s' : St) (n' : Nat) (D : List Nat),
    dfsLoop g f cur ws (s, n) = some (s', n') → DInv g r s n → s.semi cur ≠ 0 →
    (∀ w ∈ ws, w ∈ g.allSucs cur) → Done g D s →
    DInv g r s' n' ∧ Mono s s' ∧ (∀ w ∈ ws, s'.semi w ≠ 0 ∧ cur ∈ s'.pred w) ∧
    ∃ D', (∀ x ∈ D, x ∈ D') ∧ Done g D' s' ∧ (∀ v, s'.semi v ≠ 0 → s.semi v ≠ 0 ∨ v ∈ D')
  | 0, _, _, _, _, _, _, _, h, _, _, _, _ => by simp [dfsLoop] at h
  | f + 1, cur, [], s, n, s', n', D, h, hi, _, _, hd => by
    simp [dfsLoop] at h
    obtain ⟨h1, h2⟩ := h; subst h1; subst h2
    exact ⟨hi, Mono.refl s, by simp, D, fun _ h => h, hd, fun v hv => Or.inl hv⟩
  | f + 1, cur, w :: ws, s, n, s', n', D, h, hi, hcur, hws, hd => by
    simp only [dfsLoop] at h
    have hws' : ∀ x ∈ ws, x ∈ g.allSucs cur := fun x hx => hws x (List.mem_cons_of_mem _ hx)
    have he : w ∈ g.allSucs cur := hws w (List.mem_cons_self ..)
    split at h
    · next hw0 =>
      -- w is new: enter it, run its loop, record the predecessor, continue
      split at h
      · simp at h
      · next s2 n2 h1 =>
        obtain ⟨hi1, hm1⟩ := dinv_enter hi hcur hw0 he
        have hw1 : (({ s with parent := upd s.parent w (some cur) } : St).enter w (n + 1)).semi w ≠ 0 := by
          simp [St.enter, upd]
        obtain ⟨hi2, hm2, hs2, D1, hD1, hd1, hnew1⟩ :=
          dfsLoop_inv g r f w (g.allSucs w) _ (n + 1) s2 n2 D h1 hi1 hw1 (fun _ h => h) (hd.mono hm1)
        have hcur2 : s2.semi cur ≠ 0 := hm2.vis (hm1.vis hcur)
        obtain ⟨hi3, hm3, hp3⟩ := dinv_addPred (w := w) hi2 hcur2 he
        have hd3 : Done g (w :: D1) (s2.addPred w cur) := by
          intro u hu x hx
          rcases List.mem_cons.mp hu with hu | hu
          · subst hu
            exact ⟨hm3.vis (hs2 x hx).1, hm3.pred x _ (hs2 x hx).2⟩
          · exact (hd1.mono hm3) u hu x hx
        obtain ⟨hi4, hm4, hs4, D', hD', hd', hnew'⟩ :=
          dfsLoop_inv g r f cur ws _ n2 s' n' (w :: D1) h hi3 (hm3.vis hcur2) hws' hd3
        have hm : Mono s s' := ((hm1.trans hm2).trans hm3).trans hm4
        refine ⟨hi4, hm, ?_, D', fun x hx => hD' x (List.mem_cons_of_mem _ (hD1 x hx)), hd', ?_⟩
        · intro x hx
          rcases List.mem_cons.mp hx with hx | hx
          · subst hx
            exact ⟨hm4.vis (hm3.vis (hm2.vis hw1)), hm4.pred _ _ hp3⟩
          · exact hs4 x hx
        · intro v hv
          rcases hnew' v hv with h' | h'
          · have h'' : s2.semi v ≠ 0 := by simpa [St.addPred] using h'
            rcases hnew1 v h'' with h3 | h3
            · by_cases hvw : v = w
              · exact Or.inr (hD' v (hvw ▸ List.mem_cons_self ..))
              · left; simpa [St.enter, upd, hvw] using h3
            · exact Or.inr (hD' v (List.mem_cons_of_mem _ h3))
          · exact Or.inr h'
    · next hw0 =>
      obtain ⟨hi1, hm1, hp1⟩ := dinv_addPred (w := w) hi hcur he
      obtain ⟨hi2, hm2, hs2, D', hD', hd', hnew'⟩ :=
        dfsLoop_inv g r f cur ws _ n s' n' D h hi1 (hm1.vis hcur) hws' (hd.mono hm1)
      refine ⟨hi2, hm1.trans hm2, ?_, D', hD', hd', ?_⟩
      · intro x hx
        rcases List.mem_cons.mp hx with hx | hx
        · subst hx
          exact ⟨hm2.vis (hm1.vis hw0), hm2.pred _ _ hp1⟩
        · exact hs2 x hx
      · intro v hv
        rcases hnew' v hv with h' | h'
        · left; simpa [St.addPred] using h'
        · exact Or.inr h'

/-! ### fuel -/

/-- potential: one unit per unnumbered vertex among the first `k`, plus its out-degree -/
def Wp (g : Digraph) (semi : Nat → Nat) : Nat → Nat
  | 0 => 0
  | k + 1 => Wp g semi k + (if semi k ≠ 0 then 0 else 1 + (g.allSucs k).length)

theorem Wp_mono {g : Digraph} {a b : Nat → Nat} (h : ∀ v, a v ≠ 0 → b v ≠ 0) :
    ∀ k, Wp g b k ≤ Wp g a k
  | 0 => by simp [Wp]
  | k + 1 => by
    have ih := Wp_mono (g := g) h k
    simp only [Wp]
    by_cases hk : a k ≠ 0
    · simp [hk, h k hk]; exact ih
    · by_cases hk' : b k ≠ 0 <;> simp [hk, hk'] <;> omega

theorem Wp_drop {g : Digraph} {a b : Nat → Nat} {w : Nat} (hw : a w = 0) (hw' : b w ≠ 0)
    (h : ∀ v, a v ≠ 0 → b v ≠ 0) : ∀ k, w < k → Wp g b k + 1 + (g.allSucs w).length ≤ Wp g a k
  | 0, hk => by omega
  | k + 1, hk => by
    simp only [Wp]
    by_cases hwk : w = k
    · subst hwk
      have h1 := Wp_mono (g := g) h w
      simp [hw, hw']; omega
    · have ih := Wp_drop (g := g) hw hw' h k (by omega)
      by_cases hk1 : a k ≠ 0
      · simp [hk1, h k hk1]; omega
      · by_cases hk' : b k ≠ 0 <;> simp [hk1, hk'] <;> omega

theorem Wp_zero (g : Digraph) : ∀ k, Wp g (fun _ => 0) k = k + g.degSum k
  | 0 => by simp [Wp, Digraph.degSum]
  | k + 1 => by simp [Wp, Digraph.degSum, Wp_zero g k]; omega

theorem dfsLoop_vis_mono (g : Digraph) : ∀ (f cur : Nat) (ws : List Nat) (s : St) (n : Nat)
    (s' : St) (n' : Nat), dfsLoop g f cur ws (s, n) = some (s', n') →
    ∀ v, s.semi v ≠ 0 → s'.semi v ≠ 0
  | 0, _, _, _, _, _, _, h => by simp [dfsLoop] at h
  | f + 1, cur, [], s, n, s', n', h => by
    simp [dfsLoop] at h; obtain ⟨h1, _⟩ := h; subst h1; exact fun _ h => h
  | f + 1, cur, w :: ws, s, n, s', n', h => by
    simp only [dfsLoop] at h
    split at h
    · next hw0 =>
      split at h
      · simp at h
      · next s2 n2 h1 =>
        intro v hv
        have hvw : v ≠ w := fun e => hv (e ▸ hw0)
        have h2 := dfsLoop_vis_mono g f w (g.allSucs w) _ _ s2 n2 h1 v
          (by simpa [St.enter, upd, hvw] using hv)
        exact dfsLoop_vis_mono g f cur ws _ _ s' n' h v (by simpa [St.addPred] using h2)
    · intro v hv
      exact dfsLoop_vis_mono g f cur ws _ _ s' n' h v (by simpa [St.addPred] using hv)

theorem dfsLoop_some (g : Digraph) (hwf : ∀ u, ∀ v ∈ g.allSucs u, v < g.n) :
    ∀ (f cur : Nat) (ws : List Nat) (s : St) (n : Nat), (∀ w ∈ ws, w < g.n) →
      Wp g s.semi g.n + ws.length < f → ∃ r, dfsLoop g f cur ws (s, n) = some r
  | 0, _, _, _, _, _, h => by omega
  | f + 1, cur, [], s, n, _, _ => ⟨(s, n), by simp [dfsLoop]⟩
  | f + 1, cur, w :: ws, s, n, hws, hf => by
    have hws' : ∀ x ∈ ws, x < g.n := fun x hx => hws x (List.mem_cons_of_mem _ hx)
    simp only [List.length_cons] at hf
    simp only [dfsLoop]
    split
    · next hw0 =>
      have hwn : w < g.n := hws w (List.mem_cons_self ..)
      have hmono1 : ∀ v, s.semi v ≠ 0 →
          (({ s with parent := upd s.parent w (some cur) } : St).enter w (n + 1)).semi v ≠ 0 := by
        intro v hv
        have hvw : v ≠ w := fun e => hv (e ▸ hw0)
        simpa [St.enter, upd, hvw] using hv
      have hw1 : (({ s with parent := upd s.parent w (some cur) } : St).enter w (n + 1)).semi w ≠ 0 := by
        simp [St.enter, upd]
      have hd1 := Wp_drop (g := g) hw0 hw1 hmono1 g.n hwn
      obtain ⟨⟨s2, n2⟩, h2⟩ := dfsLoop_some g hwf f w (g.allSucs w)
        (({ s with parent := upd s.parent w (some cur) } : St).enter w (n + 1)) (n + 1) (hwf w) (by omega)
      rw [h2]
      have hm2 := dfsLoop_vis_mono g f w (g.allSucs w) _ _ s2 n2 h2
      have hd2 := Wp_drop (g := g) (b := (s2.addPred w cur).semi) hw0
        (by simpa [St.addPred] using hm2 w hw1)
        (fun v hv => by simpa [St.addPred] using hm2 v (hmono1 v hv)) g.n hwn
      exact dfsLoop_some g hwf f cur ws _ n2 hws' (by omega)
    · exact dfsLoop_some g hwf f cur ws _ n hws' (by simp only [St.addPred]; omega)

/-- Step 1 terminates with the model's fuel on every well-formed graph -/
theorem dfs_total (g : Digraph) (hwf : g.WF) : ∃ s n, dfs g (dfsFuel g) = some (s, n) := by
  have h0 : (St.init.enter g.entry 1).semi g.entry ≠ 0 := by simp [St.enter, upd]
  have hd := Wp_drop (g := g) (a := fun _ => 0) (b := (St.init.enter g.entry 1).semi) (w := g.entry)
    rfl h0 (fun v hv => absurd rfl hv) g.n hwf.1
  rw [Wp_zero] at hd
  obtain ⟨⟨s, n⟩, h⟩ := dfsLoop_some g hwf.2 (dfsFuel g) g.entry (g.allSucs g.entry)
    (St.init.enter g.entry 1) 1 (hwf.2 g.entry) (by simp only [dfsFuel]; omega)
  exact ⟨s, n, h⟩

/-! ### the state after Step 1 -/

theorem dinv_init (g : Digraph) (r : Nat) : DInv g r (St.init.enter r 1) 1 := by
  have hs : ∀ v, (St.init.enter r 1).semi v ≠ 0 → v = r := by
    intro v hv
    simp only [St.enter, St.init, upd] at hv
    by_cases h : v = r
    · exact h
    · simp [h] at hv
  refine ⟨by simp [St.enter, upd], ?_, ?_, ?_, by simp [St.enter, St.init], ?_, ?_, ?_, ?_, ?_, ?_⟩
  · intro v hv; have := hs v hv; subst this; simp [St.enter, upd]
  · intro i v hv
    simp only [St.enter, St.init, upd] at hv
    by_cases hi : i = 1
    · subst hi; simp at hv; subst hv; simp [St.enter, upd]
    · simp [hi] at hv
  · intro i h1 h2
    have : i = 1 := by omega
    subst this; exact ⟨r, by simp [St.enter, upd]⟩
  · intro w p hp; simp [St.enter, St.init] at hp
  · intro w hw hwr; exact absurd (hs w hw) hwr
  · intro v hv; have := hs v hv; subst this; exact Reach.refl _
  · intro v hv; have := hs v hv; subst this; simp [St.enter, upd]
  · intro w v hv; simp [St.enter, St.init] at hv
  · intro v hv
    simp only [St.enter, St.init, upd] at hv ⊢
    by_cases h : v = r
    · simp [h]
    · simp [h] at hv

/-- facts about the state after Step 1 (`n = _dfs(graph.entry, 0)`) -/
structure DfsFacts (g : Digraph) (s : St) (n : Nat) : Prop where
  /-- exactly the reachable vertices are numbered -/
  semi_reach : ∀ v, s.semi v ≠ 0 ↔ Reach g.Edge g.entry v
  /-- the numbers are 1..n and `vertex` inverts `semi` (so `semi` is injective on numbered vertices) -/
  semi_vertex : ∀ v, s.semi v ≠ 0 → 1 ≤ s.semi v ∧ s.semi v ≤ n ∧ s.vertex (s.semi v) = some v
  vertex_semi : ∀ i, 1 ≤ i → i ≤ n → ∃ v, s.vertex i = some v ∧ s.semi v = i
  entry_one : s.semi g.entry = 1
  /-- `parent` is a spanning tree of graph edges, numbered increasingly -/
  parent_entry : s.parent g.entry = none
  parent_tree : ∀ w, s.semi w ≠ 0 → w ≠ g.entry →
    ∃ p, s.parent w = some p ∧ g.Edge p w ∧ s.semi p ≠ 0 ∧ s.semi p < s.semi w
  /-- `pred[w]` holds exactly the reachable predecessors of w -/
  pred_complete : ∀ w v, v ∈ s.pred w ↔ (s.semi v ≠ 0 ∧ g.Edge v w)
  /-- the forest is initialised: every vertex is its own label and has no ancestor -/
  label_self : ∀ v, s.semi v ≠ 0 → s.label v = some v ∧ s.ancestor v = some none
  anc_dom : ∀ v, s.ancestor v ≠ none → s.semi v ≠ 0
  /-- every recorded parent is a numbered predecessor with a smaller number -/
  parent_lt : ∀ w p, s.parent w = some p → g.Edge p w ∧ s.semi p ≠ 0 ∧ s.semi p < s.semi w

theorem dfs_facts (g : Digraph) (f : Nat) (s : St) (n : Nat) (h : dfs g f = some (s, n)) :
    DfsFacts g s n := by
  have h0 : (St.init.enter g.entry 1).semi g.entry ≠ 0 := by simp [St.enter, upd]
  obtain ⟨hi, hm, hs, D, _, hd, hnew⟩ :=
    dfsLoop_inv g g.entry f g.entry (g.allSucs g.entry) _ 1 s n [] h (dinv_init g g.entry) h0
      (fun _ h => h) (by intro u hu; simp at hu)
  have hclosed : ∀ v, s.semi v ≠ 0 → ∀ w ∈ g.allSucs v, s.semi w ≠ 0 ∧ v ∈ s.pred w := by
    intro v hv w hw
    rcases hnew v hv with h1 | h1
    · have : v = g.entry := by
        simp only [St.enter, St.init, upd] at h1
        by_cases h : v = g.entry
        · exact h
        · simp [h] at h1
      subst this; exact hs w hw
    · exact hd v h1 w hw
  refine ⟨?_, ?_, ?_, hi.root_num, hi.parent_root, ?_, ?_, hi.label_self, hi.anc_dom, hi.parent_edge⟩
  · intro v
    constructor
    · exact hi.reach v
    · intro hr
      induction hr with
      | refl => rw [hi.root_num]; omega
      | tail _ e ih => exact (hclosed _ ih _ e).1
  · intro v hv
    have := hi.num_range v hv
    exact ⟨by omega, this.1, this.2⟩
  · intro i h1 h2
    obtain ⟨v, hv⟩ := hi.vertex_surj i h1 h2
    exact ⟨v, hv, (hi.vertex_inv i v hv).1⟩
  · intro w hw hne
    obtain ⟨p, hp⟩ := hi.parent_ex w hw hne
    exact ⟨p, hp, hi.parent_edge w p hp⟩
  · intro w v
    constructor
    · exact hi.pred_sound w v
    · intro ⟨hv, he⟩; exact (hclosed v hv w he).2

/-- `semi` (the DFS number) is injective on numbered vertices -/
theorem DfsFacts.semi_inj {g : Digraph} {s : St} {n : Nat} (h : DfsFacts g s n) {u v : Nat}
    (hu : s.semi u ≠ 0) (he : s.semi u = s.semi v) : u = v := by
  have h1 := (h.semi_vertex u hu).2.2
  have h2 := (h.semi_vertex v (he ▸ hu)).2.2
  rw [he, h2] at h1
  exact (Option.some.inj h1).symm

/-! ### `_compress` / `_eval` terminate: ancestor chains strictly decrease in a rank (the DFS number) -/

/-- the link-eval forest is well formed w.r.t. a rank function: every `ancestor` pointer goes to a
    vertex of strictly smaller rank whose own `ancestor` key exists, and labelled keys exist -/
structure Forest (rank : Nat → Nat) (s : St) : Prop where
  anc_lt : ∀ v u, s.ancestor v = some (some u) → rank u < rank v
  anc_key : ∀ v u, s.ancestor v = some (some u) → s.ancestor u ≠ none
  label_key : ∀ v, s.ancestor v ≠ none → s.label v ≠ none

/-- what `_compress` leaves alone -/
structure Frame (s s' : St) : Prop where
  semi : s'.semi = s.semi
  vertex : s'.vertex = s.vertex
  parent : s'.parent = s.parent
  pred : s'.pred = s.pred
  bucket : s'.bucket = s.bucket
  dom : s'.dom = s.dom
  anc_keys : ∀ x, s.ancestor x ≠ none → s'.ancestor x ≠ none
  label_keys : ∀ x, s.label x ≠ none → s'.label x ≠ none

theorem Frame.refl (s : St) : Frame s s := ⟨rfl, rfl, rfl, rfl, rfl, rfl, fun _ h => h, fun _ h => h⟩

/-- `_compress(v)` returns (no `KeyError`, fuel `> rank v` suffices) and keeps the forest well formed -/
theorem compress_total (rank : Nat → Nat) : ∀ (f : Nat) (s : St) (v : Nat), Forest rank s →
    rank v < f → (∃ u, s.ancestor v = some (some u)) →
    ∃ s', compress f s v = some s' ∧ Forest rank s' ∧ Frame s s'
  | 0, _, _, _, h, _ => by omega
  | f + 1, s, v, hF, hf, ⟨u, hu⟩ => by
    simp only [compress, hu]
    have hlt := hF.anc_lt v u hu
    cases hau : s.ancestor u with
    | none => exact absurd hau (hF.anc_key v u hu)
    | some o =>
      cases o with
      | none => exact ⟨s, rfl, hF, Frame.refl s⟩
      | some a =>
        obtain ⟨s1, h1, hF1, hfr⟩ := compress_total rank f s u hF (by omega) ⟨a, hau⟩
        simp only [h1]
        have hku : s.ancestor u ≠ none := by rw [hau]; simp
        have hkv : s.ancestor v ≠ none := by rw [hu]; simp
        obtain ⟨lu, hlu⟩ := Option.ne_none_iff_exists'.mp (hfr.label_keys u (hF.label_key u hku))
        obtain ⟨lv, hlv⟩ := Option.ne_none_iff_exists'.mp (hfr.label_keys v (hF.label_key v hkv))
        obtain ⟨au, hau1⟩ := Option.ne_none_iff_exists'.mp (hfr.anc_keys u hku)
        simp only [hlu, hlv, hau1]
        refine ⟨_, rfl, ?_, ?_⟩
        · -- forest
          have hanc : ∀ x, x ≠ v →
              (({ (if s1.semi lu < s1.semi lv then { s1 with label := upd s1.label v (some lu) } else s1) with
                  ancestor := upd (if s1.semi lu < s1.semi lv then { s1 with label := upd s1.label v (some lu) } else s1).ancestor v (some au) } : St).ancestor x)
                = s1.ancestor x := by
            intro x hx; split <;> simp [upd, hx]
          have hancv :
              (({ (if s1.semi lu < s1.semi lv then { s1 with label := upd s1.label v (some lu) } else s1) with
                  ancestor := upd (if s1.semi lu < s1.semi lv then { s1 with label := upd s1.label v (some lu) } else s1).ancestor v (some au) } : St).ancestor v)
                = some au := by
            split <;> simp [upd]
          constructor
          · intro x y hxy
            by_cases hx : x = v
            · subst hx
              rw [hancv] at hxy
              have : au = some y := by simpa using hxy
              subst this
              have := hF1.anc_lt u y hau1
              omega
            · rw [hanc x hx] at hxy; exact hF1.anc_lt x y hxy
          · intro x y hxy
            have hy : s1.ancestor y ≠ none := by
              by_cases hx : x = v
              · subst hx
                rw [hancv] at hxy
                have : au = some y := by simpa using hxy
                subst this
                exact hF1.anc_key u y hau1
              · rw [hanc x hx] at hxy; exact hF1.anc_key x y hxy
            by_cases hyv : y = v
            · subst hyv; rw [hancv]; simp
            · rw [hanc y hyv]; exact hy
          · intro x hx
            have hx1 : s1.ancestor x ≠ none := by
              by_cases hxv : x = v
              · subst hxv; exact hfr.anc_keys x hkv
              · rw [hanc x hxv] at hx; exact hx
            have := hF1.label_key x hx1
            split
            · simp only [upd]; split
              · simp
              · exact this
            · exact this
        · -- frame
          have hk1 := hfr.anc_keys
          have hl1 := hfr.label_keys
          split
          · refine ⟨hfr.semi, hfr.vertex, hfr.parent, hfr.pred, hfr.bucket, hfr.dom, ?_, ?_⟩
            · intro x hx; simp only [upd]; split
              · simp
              · exact hk1 x hx
            · intro x hx; simp only [upd]; split
              · simp
              · exact hl1 x hx
          · refine ⟨hfr.semi, hfr.vertex, hfr.parent, hfr.pred, hfr.bucket, hfr.dom, ?_, hl1⟩
            intro x hx; simp only [upd]; split
            · simp
            · exact hk1 x hx

/-- `_eval(v)` returns on every vertex that has an `ancestor` key -/
theorem eval_total (rank : Nat → Nat) (f : Nat) (s : St) (v : Nat) (hF : Forest rank s)
    (hf : rank v < f) (hk : s.ancestor v ≠ none) :
    ∃ s' u, eval f s v = some (s', u) ∧ Forest rank s' ∧ Frame s s' := by
  simp only [eval]
  cases hav : s.ancestor v with
  | none => exact absurd hav hk
  | some o =>
    cases o with
    | none => exact ⟨s, v, rfl, hF, Frame.refl s⟩
    | some a =>
      obtain ⟨s1, h1, hF1, hfr⟩ := compress_total rank f s v hF hf ⟨a, hav⟩
      simp only [h1]
      obtain ⟨l, hl⟩ := Option.ne_none_iff_exists'.mp (hfr.label_keys v (hF.label_key v hk))
      simp only [hl]
      exact ⟨s1, l, rfl, hF1, hfr⟩

/-- `_link(pw, w)` keeps the forest well formed when `pw` has a smaller rank -/
theorem forest_link {rank : Nat → Nat} {s : St} {w pw : Nat} (hF : Forest rank s)
    (hlt : rank pw < rank w) (hpw : s.ancestor pw ≠ none) (hw : s.ancestor w ≠ none) :
    Forest rank { s with ancestor := upd s.ancestor w (some (some pw)) } := by
  constructor
  · intro x y hxy
    simp only [upd] at hxy
    split at hxy
    · next hx => simp at hxy; subst hxy; subst hx; exact hlt
    · exact hF.anc_lt x y hxy
  · intro x y hxy
    have hy : s.ancestor y ≠ none := by
      simp only [upd] at hxy
      split at hxy
      · simp at hxy; subst hxy; exact hpw
      · exact hF.anc_key x y hxy
    simp only [upd]; split
    · simp
    · exact hy
  · intro x hx
    have : s.ancestor x ≠ none := by
      simp only [upd] at hx
      split at hx
      · next hxw => subst hxw; exact hw
      · exact hx
    exact hF.label_key x this

/-- after Step 1 the forest is well formed for rank = DFS number, and linking a vertex to its DFS
    parent respects the rank -/
theorem forest_after_dfs {g : Digraph} {s : St} {n : Nat} (h : DfsFacts g s n) : Forest s.semi s := by
  constructor
  · intro v u hvu
    have := (h.label_self v (h.anc_dom v (by rw [hvu]; simp))).2
    rw [this] at hvu; simp at hvu
  · intro v u hvu
    have := (h.label_self v (h.anc_dom v (by rw [hvu]; simp))).2
    rw [this] at hvu; simp at hvu
  · intro v hv
    rw [(h.label_self v (h.anc_dom v hv)).1]; simp

end AgVerif.DomLT
