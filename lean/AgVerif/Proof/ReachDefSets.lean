/-
C20 helper lemmas, part 1: Python containers as lists (sets by membership, dicts as association lists),
sums over node ranges, the "missing elements" measure.  Core Lean only.
-/
import AgVerif.Model.ReachDef
namespace AgVerif.ReachDef
open AgVerif.Spec.ReachDef

theorem mem_uni {a b : List Int} {x : Int} : x ∈ uni a b ↔ x ∈ a ∨ x ∈ b := by
  unfold uni
  simp only [List.mem_append, List.mem_filter, List.contains_eq_mem, Bool.not_eq_eq_eq_not,
    Bool.not_true, decide_eq_false_iff_not]
  constructor
  · rintro (h | ⟨h, _⟩)
    · exact Or.inl h
    · exact Or.inr h
  · intro h
    by_cases ha : x ∈ a
    · exact Or.inl ha
    · rcases h with h | h
      · exact Or.inl h
      · exact Or.inr ⟨h, ha⟩

theorem subset_iff {a b : List Int} : subset a b = true ↔ ∀ x, x ∈ a → x ∈ b := by
  simp [subset]

theorem setEq_iff {a b : List Int} : setEq a b = true ↔ ∀ x, x ∈ a ↔ x ∈ b := by
  simp only [setEq, Bool.and_eq_true, subset_iff]
  constructor
  · rintro ⟨h1, h2⟩ x; exact ⟨h1 x, h2 x⟩
  · intro h; exact ⟨fun x => (h x).1, fun x => (h x).2⟩

theorem mem_foldl_uni (A : Nat → List Int) (l : List Nat) (acc : List Int) (d : Int) :
    d ∈ l.foldl (fun acc p => uni acc (A p)) acc ↔ d ∈ acc ∨ ∃ p, p ∈ l ∧ d ∈ A p := by
  induction l generalizing acc with
  | nil => simp
  | cons p l ih =>
    simp only [List.foldl_cons, ih, mem_uni, List.mem_cons]
    constructor
    · rintro ((h | h) | ⟨q, hq, hd⟩)
      · exact Or.inl h
      · exact Or.inr ⟨p, Or.inl rfl, h⟩
      · exact Or.inr ⟨q, Or.inr hq, hd⟩
    · rintro (h | ⟨q, rfl | hq, hd⟩)
      · exact Or.inl (Or.inl h)
      · exact Or.inl (Or.inr hd)
      · exact Or.inr ⟨q, hq, hd⟩

theorem mem_pushAll (ss : List Nat) (wl : List Nat) (x : Nat) :
    x ∈ pushAll wl ss ↔ x ∈ wl ∨ x ∈ ss := by
  unfold pushAll
  induction ss generalizing wl with
  | nil => simp
  | cons s ss ih =>
    simp only [List.foldl_cons, ih, List.mem_cons]
    by_cases hs : wl.contains s = true
    · rw [if_pos hs]
      have : s ∈ wl := by simpa using hs
      constructor
      · rintro (h | h)
        · exact Or.inl h
        · exact Or.inr (Or.inr h)
      · rintro (h | rfl | h)
        · exact Or.inl h
        · exact Or.inl this
        · exact Or.inr h
    · rw [if_neg hs]
      simp only [List.mem_append, List.mem_singleton]
      constructor
      · rintro ((h | rfl) | h)
        · exact Or.inl h
        · exact Or.inr (Or.inl rfl)
        · exact Or.inr (Or.inr h)
      · rintro (h | rfl | h)
        · exact Or.inl (Or.inl h)
        · exact Or.inl (Or.inr rfl)
        · exact Or.inr h

theorem length_pushAll_le (ss : List Nat) (wl : List Nat) :
    (pushAll wl ss).length ≤ wl.length + ss.length := by
  unfold pushAll
  induction ss generalizing wl with
  | nil => simp
  | cons s ss ih =>
    simp only [List.foldl_cons, List.length_cons]
    refine Nat.le_trans (ih _) ?_
    split
    · omega
    · simp only [List.length_append, List.length_singleton]; omega

/-! ### sums over `0 … n-1` -/

def sumTo : Nat → (Nat → Nat) → Nat
  | 0, _ => 0
  | n + 1, f => sumTo n f + f n

theorem sumTo_le {n : Nat} {f f' : Nat → Nat} (h : ∀ w, w < n → f' w ≤ f w) : sumTo n f' ≤ sumTo n f := by
  induction n with
  | zero => simp [sumTo]
  | succ n ih =>
    simp only [sumTo]
    have := ih (fun w hw => h w (by omega))
    have := h n (by omega)
    omega

theorem sumTo_lt {n : Nat} {f f' : Nat → Nat} (h : ∀ w, w < n → f' w ≤ f w) {v : Nat} (hv : v < n)
    (hlt : f' v < f v) : sumTo n f' < sumTo n f := by
  induction n with
  | zero => omega
  | succ n ih =>
    simp only [sumTo]
    have hle := h n (by omega)
    by_cases hvn : v = n
    · subst hvn
      have := sumTo_le (n := v) (f := f) (f' := f') (fun w hw => h w (by omega))
      omega
    · have := ih (fun w hw => h w (by omega)) (by omega)
      omega

theorem sumTo_le_const {n c : Nat} {f : Nat → Nat} (h : ∀ w, w < n → f w ≤ c) : sumTo n f ≤ n * c := by
  induction n with
  | zero => simp [sumTo]
  | succ n ih =>
    simp only [sumTo]
    have := ih (fun w hw => h w (by omega))
    have := h n (by omega)
    rw [Nat.succ_mul]; omega

/-! ### number of elements of `U` missing from a set -/

def miss (U l : List Int) : Nat := (U.filter (fun d => !l.contains d)).length

theorem miss_le_length (U l : List Int) : miss U l ≤ U.length := List.length_filter_le _ _

theorem filter_length_mono {α} (U : List α) (p q : α → Bool) (h : ∀ x, x ∈ U → p x = true → q x = true) :
    (U.filter p).length ≤ (U.filter q).length := by
  induction U with
  | nil => simp
  | cons a U ih =>
    have ih' := ih (fun x hx => h x (List.mem_cons_of_mem _ hx))
    have ha := h a (List.mem_cons_self ..)
    simp only [List.filter_cons]
    cases hp : p a <;> cases hq : q a <;> simp_all <;> omega

theorem filter_length_lt {α} (U : List α) (p q : α → Bool) (h : ∀ x, x ∈ U → p x = true → q x = true)
    (hex : ∃ x, x ∈ U ∧ q x = true ∧ p x = false) : (U.filter p).length < (U.filter q).length := by
  induction U with
  | nil => obtain ⟨x, hx, _⟩ := hex; simp at hx
  | cons a U ih =>
    have hmono := filter_length_mono U p q (fun x hx => h x (List.mem_cons_of_mem _ hx))
    have ha := h a (List.mem_cons_self ..)
    obtain ⟨x, hx, hqx, hpx⟩ := hex
    simp only [List.filter_cons]
    rcases List.mem_cons.1 hx with rfl | hxU
    · simp only [hpx, hqx, if_true, List.length_cons]
      simp at *; omega
    · have ih' := ih (fun x hx => h x (List.mem_cons_of_mem _ hx)) ⟨x, hxU, hqx, hpx⟩
      cases hp : p a <;> cases hq : q a <;> simp_all <;> omega

theorem miss_mono {U l l' : List Int} (h : ∀ d, d ∈ l → d ∈ l') : miss U l' ≤ miss U l := by
  unfold miss
  apply filter_length_mono
  intro x _ hx
  simp only [List.contains_eq_mem, Bool.not_eq_eq_eq_not, Bool.not_true, decide_eq_false_iff_not] at hx ⊢
  exact fun hl => hx (h x hl)

theorem miss_lt {U l l' : List Int} (h : ∀ d, d ∈ l → d ∈ l') {d : Int} (hU : d ∈ U) (hd' : d ∈ l')
    (hd : d ∉ l) : miss U l' < miss U l := by
  unfold miss
  apply filter_length_lt
  · intro x _ hx
    simp only [List.contains_eq_mem, Bool.not_eq_eq_eq_not, Bool.not_true, decide_eq_false_iff_not] at hx ⊢
    exact fun hl => hx (h x hl)
  · refine ⟨d, hU, ?_, ?_⟩ <;> simp [hd, hd']

/-! ### dictionaries -/

section dict
variable {K V : Type} [DecidableEq K]

theorem mem_dictGet_extend (D : List (K × List V)) (k : K) (vs : List V) (k' : K) (x : V) :
    x ∈ dictGet (dictExtend D k vs) k' ↔ x ∈ dictGet D k' ∨ (k = k' ∧ x ∈ vs) := by
  induction D with
  | nil =>
    simp only [dictExtend, dictGet]
    split <;> simp_all
  | cons e D ih =>
    obtain ⟨k0, l⟩ := e
    simp only [dictExtend]
    by_cases h0 : k0 = k
    · subst h0
      simp only [if_true, dictGet]
      by_cases h1 : k0 = k'
      · simp [h1]
      · simp [h1]
    · simp only [h0, if_false, dictGet]
      by_cases h1 : k0 = k'
      · subst h1
        simp only [if_true]
        constructor
        · exact Or.inl
        · rintro (h | ⟨h, _⟩)
          · exact h
          · exact absurd h.symm h0
      · simp only [h1, if_false, ih]

end dict

end AgVerif.ReachDef
