/- C01: field meaning (model view = specification meaning) of the classes 30t 32x 31i 31t 31c 51l -/
import AgVerif.Proof.InsnView
set_option linter.unusedSimpArgs false
set_option linter.unusedVariables false
namespace AgVerif.Insn
open AgVerif.Gen AgVerif.Spec

theorem fs_30t (bs : List Nat) (hb : AllBytes bs) (x : Insn) (h : decode .f30t bs = .ok x)
    (hk : needsKind .f30t = true → ∃ k, kindOf x.op = some k) :
    View.ofInsn x = View.ofMeaning (Dalvik.meaning .f30t x.op (leNat (bs.take (Opcodes.length .f30t)))) ∧
      x.op = Dalvik.bits (leNat (bs.take (Opcodes.length .f30t))) 0 8 := by
  have hl := decode_ok_length h
  obtain ⟨b0, b1, b2, b3, b4, b5, r, rfl⟩ := ex6 _ (by simpa [Opcodes.length] using hl)
  simp only [allBytes_cons] at hb
  obtain ⟨h0, h1, h2, h3, h4, h5, _⟩ := hb
  dec_simp at h
  fs_finish

theorem fs_32x (bs : List Nat) (hb : AllBytes bs) (x : Insn) (h : decode .f32x bs = .ok x)
    (hk : needsKind .f32x = true → ∃ k, kindOf x.op = some k) :
    View.ofInsn x = View.ofMeaning (Dalvik.meaning .f32x x.op (leNat (bs.take (Opcodes.length .f32x)))) ∧
      x.op = Dalvik.bits (leNat (bs.take (Opcodes.length .f32x))) 0 8 := by
  have hl := decode_ok_length h
  obtain ⟨b0, b1, b2, b3, b4, b5, r, rfl⟩ := ex6 _ (by simpa [Opcodes.length] using hl)
  simp only [allBytes_cons] at hb
  obtain ⟨h0, h1, h2, h3, h4, h5, _⟩ := hb
  dec_simp at h
  fs_finish

theorem fs_31i (bs : List Nat) (hb : AllBytes bs) (x : Insn) (h : decode .f31i bs = .ok x)
    (hk : needsKind .f31i = true → ∃ k, kindOf x.op = some k) :
    View.ofInsn x = View.ofMeaning (Dalvik.meaning .f31i x.op (leNat (bs.take (Opcodes.length .f31i)))) ∧
      x.op = Dalvik.bits (leNat (bs.take (Opcodes.length .f31i))) 0 8 := by
  have hl := decode_ok_length h
  obtain ⟨b0, b1, b2, b3, b4, b5, r, rfl⟩ := ex6 _ (by simpa [Opcodes.length] using hl)
  simp only [allBytes_cons] at hb
  obtain ⟨h0, h1, h2, h3, h4, h5, _⟩ := hb
  dec_simp at h
  fs_finish

theorem fs_31t (bs : List Nat) (hb : AllBytes bs) (x : Insn) (h : decode .f31t bs = .ok x)
    (hk : needsKind .f31t = true → ∃ k, kindOf x.op = some k) :
    View.ofInsn x = View.ofMeaning (Dalvik.meaning .f31t x.op (leNat (bs.take (Opcodes.length .f31t)))) ∧
      x.op = Dalvik.bits (leNat (bs.take (Opcodes.length .f31t))) 0 8 := by
  have hl := decode_ok_length h
  obtain ⟨b0, b1, b2, b3, b4, b5, r, rfl⟩ := ex6 _ (by simpa [Opcodes.length] using hl)
  simp only [allBytes_cons] at hb
  obtain ⟨h0, h1, h2, h3, h4, h5, _⟩ := hb
  dec_simp at h
  fs_finish

theorem fs_31c (bs : List Nat) (hb : AllBytes bs) (x : Insn) (h : decode .f31c bs = .ok x)
    (hk : needsKind .f31c = true → ∃ k, kindOf x.op = some k) :
    View.ofInsn x = View.ofMeaning (Dalvik.meaning .f31c x.op (leNat (bs.take (Opcodes.length .f31c)))) ∧
      x.op = Dalvik.bits (leNat (bs.take (Opcodes.length .f31c))) 0 8 := by
  have hl := decode_ok_length h
  obtain ⟨b0, b1, b2, b3, b4, b5, r, rfl⟩ := ex6 _ (by simpa [Opcodes.length] using hl)
  simp only [allBytes_cons] at hb
  obtain ⟨h0, h1, h2, h3, h4, h5, _⟩ := hb
  dec_simp at h
  fs_finish

theorem fs_51l (bs : List Nat) (hb : AllBytes bs) (x : Insn) (h : decode .f51l bs = .ok x)
    (hk : needsKind .f51l = true → ∃ k, kindOf x.op = some k) :
    View.ofInsn x = View.ofMeaning (Dalvik.meaning .f51l x.op (leNat (bs.take (Opcodes.length .f51l)))) ∧
      x.op = Dalvik.bits (leNat (bs.take (Opcodes.length .f51l))) 0 8 := by
  have hl := decode_ok_length h
  obtain ⟨b0, b1, b2, b3, b4, b5, b6, b7, b8, b9, r, rfl⟩ := ex10 _ (by simpa [Opcodes.length] using hl)
  simp only [allBytes_cons] at hb
  obtain ⟨h0, h1, h2, h3, h4, h5, h6, h7, h8, h9, _⟩ := hb
  dec_simp at h
  fs_finish

end AgVerif.Insn
