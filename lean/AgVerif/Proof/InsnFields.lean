/- C01: field meaning assembled over the specification formats with a fixed operand layout
   (the variable-register formats 35c / 3rc / 45cc / 4rcc are not covered by this lemma). -/
import AgVerif.Proof.InsnAll
import AgVerif.Proof.InsnFsA
import AgVerif.Proof.InsnFsB
import AgVerif.Proof.InsnFsC
import AgVerif.Proof.InsnFsD
set_option linter.unusedSimpArgs false
set_option linter.unusedVariables false
namespace AgVerif.Insn
open AgVerif.Gen AgVerif.Spec

/-- formats whose register list has a variable length -/
def varRegs : Fmt → Bool
  | .f35c | .f3rc | .f45cc | .f4rcc | .f35ms | .f35mi | .f3rms | .f3rmi | .f5rc => true
  | _ => false

theorem fields_spec_all (f : Fmt) (sf : Dalvik.Format) (hsf : toSpec f = some sf) (hv : varRegs f = false)
    (bs : List Nat) (hb : AllBytes bs) (x : Insn) (h : decode f bs = .ok x)
    (hk : needsKind f = true → ∃ k, kindOf x.op = some k)
    (h21 : f = .f21h → x.op = 0x15 ∨ x.op = 0x19) :
    View.ofInsn x = View.ofMeaning (Dalvik.meaning sf x.op (leNat (bs.take (Opcodes.length f)))) ∧
      x.op = Dalvik.bits (leNat (bs.take (Opcodes.length f))) 0 8 := by
  cases f
  case f10x => simp [toSpec] at hsf; subst hsf; exact fs_10x bs hb x h hk
  case f12x => simp [toSpec] at hsf; subst hsf; exact fs_12x bs hb x h hk
  case f11n => simp [toSpec] at hsf; subst hsf; exact fs_11n bs hb x h hk
  case f11x => simp [toSpec] at hsf; subst hsf; exact fs_11x bs hb x h hk
  case f10t => simp [toSpec] at hsf; subst hsf; exact fs_10t bs hb x h hk
  case f20t => simp [toSpec] at hsf; subst hsf; exact fs_20t bs hb x h hk
  case f22x => simp [toSpec] at hsf; subst hsf; exact fs_22x bs hb x h hk
  case f21t => simp [toSpec] at hsf; subst hsf; exact fs_21t bs hb x h hk
  case f21s => simp [toSpec] at hsf; subst hsf; exact fs_21s bs hb x h hk
  case f21c => simp [toSpec] at hsf; subst hsf; exact fs_21c bs hb x h hk
  case f21h => simp [toSpec] at hsf; subst hsf; exact fs_21h bs hb x h (h21 rfl)
  case f23x => simp [toSpec] at hsf; subst hsf; exact fs_23x bs hb x h hk
  case f22b => simp [toSpec] at hsf; subst hsf; exact fs_22b bs hb x h hk
  case f22t => simp [toSpec] at hsf; subst hsf; exact fs_22t bs hb x h hk
  case f22s => simp [toSpec] at hsf; subst hsf; exact fs_22s bs hb x h hk
  case f22c => simp [toSpec] at hsf; subst hsf; exact fs_22c bs hb x h hk
  case f30t => simp [toSpec] at hsf; subst hsf; exact fs_30t bs hb x h hk
  case f32x => simp [toSpec] at hsf; subst hsf; exact fs_32x bs hb x h hk
  case f31i => simp [toSpec] at hsf; subst hsf; exact fs_31i bs hb x h hk
  case f31t => simp [toSpec] at hsf; subst hsf; exact fs_31t bs hb x h hk
  case f31c => simp [toSpec] at hsf; subst hsf; exact fs_31c bs hb x h hk
  case f51l => simp [toSpec] at hsf; subst hsf; exact fs_51l bs hb x h hk
  all_goals first | (simp [toSpec] at hsf; done) | (simp [varRegs] at hv; done)

end AgVerif.Insn
