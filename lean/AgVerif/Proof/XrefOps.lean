/-
Lemmas for C13..C16, part 3: the generated opcode tests of `_create_xref` agree with the opcode
lists of the Dalvik bytecode document (complete tables over all 256 opcodes), and which branch of
the `if / elif` chain an instruction takes.
-/
import AgVerif.Model.Xref
import AgVerif.Spec.Xref

namespace AgVerif.Xref
open AgVerif.Gen

/-- the branch the bytecode document assigns to an opcode -/
def Spec.kindOf (op : Nat) : Nat :=
  if op = Spec.constClassOp ∨ op = Spec.newInstanceOp then 1
  else if op ∈ Spec.invokeOps then 2
  else if op ∈ Spec.constStringOps then 3
  else if op ∈ Spec.fieldReadOps ∨ op ∈ Spec.fieldWriteOps then 4
  else 0

theorem kind_agrees : ∀ op : Fin 256, XrefOps.kind op.val = Spec.kindOf op.val := by decide +kernel

theorem fieldRead_agrees : ∀ op : Fin 256, XrefOps.kind op.val = 4 →
    (XrefOps.isFieldRead op.val = true ↔ op.val ∈ Spec.fieldReadOps) ∧
    (XrefOps.isFieldRead op.val = false ↔ op.val ∈ Spec.fieldWriteOps) := by decide +kernel

theorem classUse_agrees : ∀ op : Fin 256,
    (XrefOps.isConstClass op.val = true ↔ op.val = Spec.constClassOp) ∧
    (XrefOps.isNewInstance op.val = true ↔ op.val = Spec.newInstanceOp) := by decide +kernel

theorem kind1_iff : ∀ op : Fin 256, XrefOps.kind op.val = 1 ↔
    (op.val = Spec.constClassOp ∨ op.val = Spec.newInstanceOp) := by decide +kernel
theorem kind2_iff : ∀ op : Fin 256, XrefOps.kind op.val = 2 ↔ op.val ∈ Spec.invokeOps := by decide +kernel
theorem kind3_iff : ∀ op : Fin 256, XrefOps.kind op.val = 3 ↔ op.val ∈ Spec.constStringOps := by decide +kernel
theorem kind4_iff : ∀ op : Fin 256, XrefOps.kind op.val = 4 ↔
    (op.val ∈ Spec.fieldReadOps ∨ op.val ∈ Spec.fieldWriteOps) := by decide +kernel

/-- `REF_TYPE(op_value)` is defined for every opcode the class-usage and invoke branches pass to it -/
theorem refType_total : ∀ op : Fin 256, (XrefOps.kind op.val = 1 ∨ XrefOps.kind op.val = 2) →
    op.val ∈ XrefOps.refTypes.map (·.2) := by decide +kernel

theorem act_classUse_iff (op : Nat) (ref : Ref) (t : String) :
    act op ref = .classUse t ↔ XrefOps.kind op = 1 ∧ ref = .type t := by
  unfold act; split <;> simp_all

theorem act_invoke_iff (op : Nat) (ref : Ref) (c n d : String) :
    act op ref = .invoke c n d ↔ XrefOps.kind op = 2 ∧ ref = .meth c n d := by
  unfold act; split <;> simp_all

theorem act_str_iff (op : Nat) (ref : Ref) (s : String) :
    act op ref = .str s ↔ XrefOps.kind op = 3 ∧ ref = .str s := by
  unfold act; split <;> simp_all

theorem act_field_iff (op : Nat) (ref : Ref) (c n t : String) :
    act op ref = .field c n t ↔ XrefOps.kind op = 4 ∧ ref = .field c n t := by
  unfold act; split <;> simp_all

/-! ### `lstrip('[')` + first character vs. the specification's element class -/

theorem elemClassChars_eq (l : List Char) :
    Spec.elemClassChars l =
      if (l.dropWhile (· == '[')).head? == some 'L' then some (l.dropWhile (· == '[')) else none := by
  induction l with
  | nil => simp [Spec.elemClassChars]
  | cons c r ih =>
    by_cases h : c = '['
    · subst h; simp [Spec.elemClassChars, List.dropWhile_cons, ih]
    · have hb : (c == '[') = false := by simp [h]
      by_cases h2 : c = 'L'
      · subst h2; simp [Spec.elemClassChars, List.dropWhile_cons]
      · simp [Spec.elemClassChars, List.dropWhile_cons, h, h2, hb]

theorem elemClass_eq (t : String) :
    Spec.elemClass t = if startsL (lstripBr t) then some (lstripBr t) else none := by
  unfold Spec.elemClass startsL lstripBr
  rw [elemClassChars_eq]
  simp only [String.toList_ofList]
  split <;> simp_all

end AgVerif.Xref
