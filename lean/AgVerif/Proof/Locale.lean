/-
Helper lemmas for C30: the byte-level bit operations of the locale packing brought to
arithmetic normal form; the word assembly/disassembly of `self.locale`; `split("-r")` on the
strings the getter produces.
-/
import AgVerif.Model.Locale
import AgVerif.Spec.Locale
import AgVerif.Proof.Bits
namespace AgVerif.Locale
open AgVerif.Bits

/-! ### single-byte facts (complete 256-case tables) -/

theorem and80_ne_zero (x : Nat) (h : x < 256) : (x &&& 0x80 ≠ 0) ↔ 128 ≤ x := by
  have key : ∀ y : Fin 256, (y.val &&& 0x80 ≠ 0) ↔ 128 ≤ y.val := by decide +kernel
  exact key ⟨x, h⟩

theorem and1F (x : Nat) : x &&& 0x1F = x % 32 := by simpa using and_mask x 5

theorem andE0_shr (x : Nat) (h : x < 256) : (x &&& 0xE0) >>> 5 = x / 32 := by
  have key : ∀ y : Fin 256, (y.val &&& 0xE0) >>> 5 = y.val / 32 := by decide +kernel
  exact key ⟨x, h⟩

theorem and03_shl (x : Nat) : (x &&& 0x03) <<< 3 = x % 4 * 8 := by
  have : x &&& 0x03 = x % 4 := by simpa using and_mask x 2
  rw [this, shl]

theorem and7C_shr (x : Nat) (h : x < 256) : (x &&& 0x7C) >>> 2 = x / 4 % 32 := by
  have key : ∀ y : Fin 256, (y.val &&& 0x7C) >>> 2 = y.val / 4 % 32 := by decide +kernel
  exact key ⟨x, h⟩

/-- the first packed byte, for 5-bit fields (complete 32×32 table) -/
theorem pack0_arith (t s : Nat) (ht : t < 32) (hs : s < 32) :
    (0x80 ||| (t <<< 2) ||| (s >>> 3)) &&& 0xFF = 128 + t * 4 + s / 8 := by
  have key : ∀ a b : Fin 32,
      (0x80 ||| (a.val <<< 2) ||| (b.val >>> 3)) &&& 0xFF = 128 + a.val * 4 + b.val / 8 := by
    decide +kernel
  exact key ⟨t, ht⟩ ⟨s, hs⟩

/-- the second packed byte, for 5-bit fields (complete 32×32 table) -/
theorem pack1_arith (s f : Nat) (hs : s < 32) (hf : f < 32) :
    ((s <<< 5) ||| f) &&& 0xFF = s % 8 * 32 + f := by
  have key : ∀ a b : Fin 32, ((a.val <<< 5) ||| b.val) &&& 0xFF = a.val % 8 * 32 + b.val := by
    decide +kernel
  exact key ⟨s, hs⟩ ⟨f, hf⟩

theorem sub7_add (a base : Nat) (h : a < 128) : sub7 (a + base) base = a := by
  unfold sub7; omega

/-! ### arithmetic normal forms of `unpack` and `pack` -/

/-- packed branch of `unpack` in arithmetic form -/
theorem unpack_packed (c0 c1 base : Nat) (h0 : 128 ≤ c0) (h0' : c0 < 256) (h1 : c1 < 256) :
    unpack c0 c1 base = [c1 % 32 + base, c1 / 32 + c0 % 4 * 8 + base, c0 / 4 % 32 + base] := by
  unfold unpack
  rw [if_pos ((and80_ne_zero c0 h0').2 h0)]
  simp only [and1F, andE0_shr c1 h1, and03_shl, and7C_shr c0 h0']

/-- plain branch of `unpack` -/
theorem unpack_plain (c0 c1 base : Nat) (h0 : c0 < 128) :
    unpack c0 c1 base = (if c0 ≠ 0 then [c0] else []) ++ (if c1 ≠ 0 then [c1] else []) := by
  unfold unpack
  have : ¬ (c0 &&& 0x80 ≠ 0) := by
    rw [and80_ne_zero c0 (by omega)]; omega
  rw [if_neg this]

/-- `pack` of three characters that are 5-bit offsets from the base, in arithmetic form -/
theorem pack_three (a b c base : Nat) (ha : a < 32) (hb : b < 32) (hc : c < 32) :
    pack [a + base, b + base, c + base] base = (128 + c * 4 + b / 8, b % 8 * 32 + a) := by
  simp only [pack, sub7_add a base (by omega), sub7_add b base (by omega), sub7_add c base (by omega),
    pack0_arith c b hc hb, pack1_arith b a hb ha]

/-! ### the locale word -/

theorem word_or (l0 l1 r0 r1 : Nat) (h0 : l0 < 256) (h1 : l1 < 256) (h2 : r0 < 256) :
    l0 ||| (l1 <<< 8) ||| (r0 <<< 16) ||| (r1 <<< 24)
      = l0 + l1 * 2 ^ 8 + r0 * 2 ^ 16 + r1 * 2 ^ 24 := by
  rw [or_shl l0 l1 8 (by omega), or_shl _ r0 16 (by omega), or_shl _ r1 24 (by omega)]

theorem and_shr_byte (x : Nat) (m k : Nat) (hm : m >>> k = 0xFF) :
    (x &&& m) >>> k = x / 2 ^ k % 256 := by
  rw [Nat.shiftRight_and_distrib, hm, and_FF, shr]

theorem word_b0 (x : Nat) : x &&& 0xFF = x % 256 := and_FF x
theorem word_b1 (x : Nat) : (x &&& 0xFF00) >>> 8 = x / 2 ^ 8 % 256 :=
  and_shr_byte x 0xFF00 8 (by decide)
theorem word_b2 (x : Nat) : (x &&& 0xFF0000) >>> 16 = x / 2 ^ 16 % 256 :=
  and_shr_byte x 0xFF0000 16 (by decide)
theorem word_b3 (x : Nat) : (x &&& 0xFF000000) >>> 24 = x / 2 ^ 24 % 256 :=
  and_shr_byte x 0xFF000000 24 (by decide)

/-- `getLocale` on a word given by its four bytes -/
theorem getLocale_bytes (l0 l1 r0 r1 : Nat) (h0 : l0 < 256) (h1 : l1 < 256) (h2 : r0 < 256)
    (h3 : r1 < 256) (hne : l0 + l1 * 2 ^ 8 + r0 * 2 ^ 16 + r1 * 2 ^ 24 ≠ 0) :
    getLocale (l0 + l1 * 2 ^ 8 + r0 * 2 ^ 16 + r1 * 2 ^ 24)
      = (if unpack r0 r1 48 ≠ [] then unpack l0 l1 97 ++ [45, 114] ++ unpack r0 r1 48
         else unpack l0 l1 97) := by
  unfold getLocale
  rw [if_pos hne]
  simp only [word_b0, word_b1, word_b2, word_b3]
  have e0 : (l0 + l1 * 2 ^ 8 + r0 * 2 ^ 16 + r1 * 2 ^ 24) % 256 = l0 := by omega
  have e1 : (l0 + l1 * 2 ^ 8 + r0 * 2 ^ 16 + r1 * 2 ^ 24) / 2 ^ 8 % 256 = l1 := by omega
  have e2 : (l0 + l1 * 2 ^ 8 + r0 * 2 ^ 16 + r1 * 2 ^ 24) / 2 ^ 16 % 256 = r0 := by omega
  have e3 : (l0 + l1 * 2 ^ 8 + r0 * 2 ^ 16 + r1 * 2 ^ 24) / 2 ^ 24 % 256 = r1 := by omega
  rw [e0, e1, e2, e3]

/-! ### `split("-r")` -/

/-- no `-` in the string: one piece -/
theorem splitAux_noDash (s cur : List Nat) (h : ∀ c ∈ s, c ≠ 45) :
    splitAux s cur = [cur.reverse ++ s] := by
  induction s generalizing cur with
  | nil => simp [splitAux]
  | cons c t ih =>
    cases t with
    | nil => simp [splitAux]
    | cons d rest =>
      have hc : c ≠ 45 := h c (by simp)
      rw [splitAux, if_neg (by intro hh; exact hc hh.1), ih (c :: cur) (fun x hx => h x (by simp [hx]))]
      simp

/-- `language ++ "-r" ++ region` with no `-` in either part splits into exactly the two parts -/
theorem splitAux_two (l r cur : List Nat) (hl : ∀ c ∈ l, c ≠ 45) (hr : ∀ c ∈ r, c ≠ 45) :
    splitAux (l ++ [45, 114] ++ r) cur = [cur.reverse ++ l, r] := by
  induction l generalizing cur with
  | nil =>
    simp only [List.nil_append, List.cons_append, List.append_nil]
    rw [splitAux, if_pos ⟨rfl, rfl⟩, splitAux_noDash r [] hr]
    simp
  | cons c t ih =>
    have hc : c ≠ 45 := hl c (by simp)
    have ht : ∀ x ∈ t, x ≠ 45 := fun x hx => hl x (by simp [hx])
    have hshape : ∃ d rest, t ++ [45, 114] ++ r = d :: rest := by
      cases t with
      | nil => exact ⟨45, 114 :: r, by simp⟩
      | cons d t' => exact ⟨d, t' ++ [45, 114] ++ r, by simp⟩
    obtain ⟨d, rest, hdr⟩ := hshape
    have : (c :: t) ++ [45, 114] ++ r = c :: d :: rest := by
      simp only [List.cons_append]; rw [← hdr]
    rw [this, splitAux, if_neg (by intro hh; exact hc hh.1), ← hdr, ih (c :: cur) ht]
    simp

theorem split_one (s : List Nat) (h : ∀ c ∈ s, c ≠ 45) : splitDashR s = [s] := by
  unfold splitDashR; rw [splitAux_noDash s [] h]; simp

theorem split_two (l r : List Nat) (hl : ∀ c ∈ l, c ≠ 45) (hr : ∀ c ∈ r, c ≠ 45) :
    splitDashR (l ++ [45, 114] ++ r) = [l, r] := by
  unfold splitDashR; rw [splitAux_two l r [] hl hr]; simp

/-- `setLocale` of a string without `-`: language only -/
theorem setLocale_lang (l : List Nat) (hl : ∀ c ∈ l, c ≠ 45) :
    setLocale l = (pack l 97).1 ||| ((pack l 97).2 <<< 8) ||| (0 <<< 16) ||| (0 <<< 24) := by
  unfold setLocale; rw [split_one l hl]

/-- `setLocale` of `language-rregion` -/
theorem setLocale_lang_region (l r : List Nat) (hl : ∀ c ∈ l, c ≠ 45) (hr : ∀ c ∈ r, c ≠ 45)
    (hne : r ≠ []) :
    setLocale (l ++ [45, 114] ++ r)
      = (pack l 97).1 ||| ((pack l 97).2 <<< 8) ||| ((pack r 48).1 <<< 16) ||| ((pack r 48).2 <<< 24) := by
  unfold setLocale; rw [split_two l r hl hr]; simp [hne]

/-! ### halves of the locale word and codes -/
open AgVerif.Spec.Locale

theorem unpack_zero (base : Nat) : unpack 0 0 base = [] := by
  rw [unpack_plain 0 0 base (by omega)]; simp

theorem unpack_of_plain (c0 c1 base : Nat) (h : Plain c0 c1) : unpack c0 c1 base = [c0, c1] := by
  obtain ⟨h1, h2, h3, _, _, _⟩ := h
  rw [unpack_plain c0 c1 base h2, if_pos (by omega), if_pos (by omega)]; rfl

theorem unpack_of_packed (c0 c1 base : Nat) (h : Packed c0 c1) :
    unpack c0 c1 base = [c1 % 32 + base, c1 / 32 + c0 % 4 * 8 + base, c0 / 4 % 32 + base] :=
  unpack_packed c0 c1 base h.1 h.2.1 h.2.2

/-- every valid half is re-encoded to itself -/
theorem half_pack_unpack (c0 c1 base : Nat) (h : Half c0 c1) :
    pack (unpack c0 c1 base) base = (c0, c1) := by
  rcases h with ⟨rfl, rfl⟩ | hp | hp
  · rw [unpack_zero]; rfl
  · rw [unpack_of_packed c0 c1 base hp,
      pack_three (c1 % 32) (c1 / 32 + c0 % 4 * 8) (c0 / 4 % 32) base (by omega)
        (by have := hp.2.2; omega) (by omega)]
    obtain ⟨h1, h2, h3⟩ := hp
    refine Prod.ext ?_ ?_ <;> simp only <;> omega
  · rw [unpack_of_plain c0 c1 base hp]; rfl

theorem half_noDash (c0 c1 base : Nat) (hb : 45 < base) (h : Half c0 c1) :
    ∀ c ∈ unpack c0 c1 base, c ≠ 45 := by
  rcases h with ⟨rfl, rfl⟩ | hp | hp
  · rw [unpack_zero]; simp
  · rw [unpack_of_packed c0 c1 base hp]
    intro c hc
    simp only [List.mem_cons, List.not_mem_nil, or_false] at hc
    omega
  · rw [unpack_of_plain c0 c1 base hp]
    intro c hc
    obtain ⟨_, _, _, _, h5, h6⟩ := hp
    simp only [List.mem_cons, List.not_mem_nil, or_false] at hc
    rcases hc with rfl | rfl <;> assumption

theorem half_nil_iff (c0 c1 base : Nat) (h : Half c0 c1) :
    unpack c0 c1 base = [] ↔ (c0 = 0 ∧ c1 = 0) := by
  rcases h with ⟨rfl, rfl⟩ | hp | hp
  · simp [unpack_zero]
  · rw [unpack_of_packed c0 c1 base hp]
    have := hp.1
    simp; omega
  · rw [unpack_of_plain c0 c1 base hp]
    have := hp.1
    simp; omega

/-- the bytes a code is packed to form a non-absent valid half … -/
theorem code_half (base : Nat) (s : List Nat) (h : Code base s) :
    Packed (pack s base).1 (pack s base).2 ∨ Plain (pack s base).1 (pack s base).2 := by
  rcases h with ⟨a, b, rfl, hp⟩ | ⟨a, b, c, rfl, ha, hb, hc⟩
  · exact Or.inr hp
  · left
    rw [pack_three a b c base ha hb hc]
    refine ⟨?_, ?_, ?_⟩ <;> simp only <;> omega

/-- … which unpacks to the code -/
theorem code_unpack_pack (base : Nat) (s : List Nat) (h : Code base s) :
    unpack (pack s base).1 (pack s base).2 base = s := by
  rcases h with ⟨a, b, rfl, hp⟩ | ⟨a, b, c, rfl, ha, hb, hc⟩
  · exact unpack_of_plain a b base hp
  · rw [pack_three a b c base ha hb hc]
    rw [unpack_packed _ _ base (by simp only; omega) (by simp only; omega) (by simp only; omega)]
    simp only [List.cons.injEq, and_true]
    refine ⟨?_, ?_, ?_⟩ <;> omega

theorem code_noDash (base : Nat) (hb : 45 < base) (s : List Nat) (h : Code base s) :
    ∀ c ∈ s, c ≠ 45 := by
  have := half_noDash (pack s base).1 (pack s base).2 base hb
    (Or.inr (code_half base s h))
  rwa [code_unpack_pack base s h] at this

theorem code_ne_nil (base : Nat) (s : List Nat) (h : Code base s) : s ≠ [] := by
  rcases h with ⟨a, b, rfl, _⟩ | ⟨a, b, c, rfl, _⟩ <;> simp

theorem half_bytes (c0 c1 : Nat) (h : Half c0 c1) : c0 < 256 ∧ c1 < 256 := by
  rcases h with ⟨rfl, rfl⟩ | ⟨_, _, _⟩ | ⟨_, _, _, _, _, _⟩ <;> omega

end AgVerif.Locale
