/-
C28 deepening, step 4b: the parts of a type chunk: the body of `readTypeChunk` against abstract
hypotheses, the slots (offsets → entries with ids, closing `OffsetsResolve` of
`table_roundtrip_partial`), the entry-offset array in its three layouts.  Core Lean only.
-/
import AgVerif.Proof.ArscEntryAt
namespace AgVerif.Arsc
open AgVerif.Gen.ArscConsts AgVerif.Spec.Arsc
attribute [local irreducible] enc16 enc32

/-- the value `current_package.mResId` is left at after a type chunk -/
def lastId (flags count cur : Nat) (ids : List (Nat × Nat)) : Nat :=
  if flags &&& flagSparse ≠ 0 then (match ids.getLast? with | some x => x.2 | none => cur)
  else if count = 0 then cur else entryResId cur (count - 1)

theorem readTypeChunk_of {b : Buf} {h : Hdr} {cur id flags x count entriesStart q : Nat}
    {cfg : ConfigWords} {offs : List (Nat × Nat)} {rem : List Nat} {ates : List Ate}
    (h1 : rd8 b (h.pos + 8) = some id) (h2 : rd8 b (h.pos + 8 + 1) = some flags)
    (h3 : rd16 b (h.pos + 8 + 2) = some x) (h4 : rd32 b (h.pos + 8 + 4) = some count)
    (h5 : rd32 b (h.pos + 8 + 8) = some entriesStart)
    (hcfg : readConfig b (h.pos + 8 + 12) = some (cfg, q))
    (hw : ¬ count * (if flags &&& flagSparse ≠ 0 then 4 else if flags &&& flagOffset16 ≠ 0 then 2 else 4) > b.size)
    (harr : entryArray flags count (slice b q (count *
      (if flags &&& flagSparse ≠ 0 then 4 else if flags &&& flagOffset16 ≠ 0 then 2 else 4))) = some (offs, rem))
    (hates : readAtes b (h.pos + entriesStart) (h.pos + h.size)
      (offs.map fun oi => (oi.1, entryResId (typeResId cur id) oi.2)) = some ates) :
    readTypeChunk b h cur = some (⟨id, cfg, ates⟩,
      lastId flags count (typeResId cur id) (offs.map fun oi => (oi.1, entryResId (typeResId cur id) oi.2))) := by
  unfold readTypeChunk
  simp only [h1, h2, h3, h4, h5, hcfg, Option.bind_eq_bind, Option.bind_some, Option.pure_def]
  rw [if_neg hw]
  simp only [harr, hates, Option.bind_some, lastId]
  rfl

/-! ### the slots of a type chunk -/

def atesFrom (cur : Nat) : Nat → List (Option Entry) → List Ate
  | _, [] => []
  | i, none :: r => atesFrom cur (i + 1) r
  | i, some e :: r => ⟨entryResId cur i, rawOf e⟩ :: atesFrom cur (i + 1) r

theorem slotOffsets_length (o : Nat) (slots : List (Option Entry)) : (slotOffsets o slots).length = slots.length := by
  induction slots generalizing o with
  | nil => rfl
  | cons s r ih => cases s <;> simp [slotOffsets, ih]

theorem slotOffsets_bounds (slots : List (Option Entry)) (o off : Nat) (h : some off ∈ slotOffsets o slots) :
    o ≤ off ∧ off + 8 ≤ o + (bodies slots).length ∧ off % 4 = o % 4 := by
  induction slots generalizing o with
  | nil => simp [slotOffsets] at h
  | cons s r ih =>
    cases s with
    | none =>
      simp only [slotOffsets, List.mem_cons, reduceCtorEq, false_or] at h
      exact ih o h
    | some e =>
      have hm := encEntry_length_mod e
      simp only [slotOffsets, List.mem_cons, Option.some.injEq] at h
      simp only [bodies, List.length_append]
      rcases h with rfl | h
      · omega
      · have := ih _ h; omega

theorem present_bounds (offs : List (Option Nat)) (i : Nat) (p : Nat × Nat) (h : p ∈ present offs i) :
    i ≤ p.2 ∧ p.2 < i + offs.length ∧ some p.1 ∈ offs := by
  induction offs generalizing i with
  | nil => simp [present] at h
  | cons s r ih =>
    cases s with
    | none =>
      simp only [present] at h
      obtain ⟨a1, a2, a3⟩ := ih _ h
      simp only [List.length_cons, List.mem_cons, reduceCtorEq, false_or]
      exact ⟨by omega, by omega, a3⟩
    | some off =>
      simp only [present, List.mem_cons] at h
      simp only [List.length_cons, List.mem_cons, Option.some.injEq]
      rcases h with rfl | h
      · simp
      · have := ih _ h
        refine ⟨by omega, by omega, Or.inr this.2.2⟩

theorem wfSlots_cons (s : Option Entry) (r : List (Option Entry)) :
    wfSlots (s :: r) = true ↔ (∀ e, s = some e → wfEntry e = true) ∧ wfSlots r = true := by
  cases s <;> simp [wfSlots]

theorem readAtes_slots {bs r : List Nat} {base eoc cur : Nat} (slots : List (Option Entry)) (o i : Nat)
    (h : bs.drop (base + o) = bodies slots ++ r) (hwf : wfSlots slots = true)
    (hin : base + o + (bodies slots).length ≤ eoc) :
    readAtes bs.toArray base eoc
      ((present (slotOffsets o slots) i).map fun oi => (oi.1, entryResId cur oi.2)) = some (atesFrom cur i slots) := by
  induction slots generalizing o i with
  | nil => rfl
  | cons s rest ih =>
    obtain ⟨hs, hrest⟩ := (wfSlots_cons s rest).mp hwf
    cases s with
    | none =>
      simp only [slotOffsets, present, atesFrom]
      exact ih o (i + 1) (by simpa [bodies] using h) hrest (by simpa [bodies] using hin)
    | some e =>
      have hwe := hs e rfl
      have h' : bs.drop (base + o) = encEntry e ++ (bodies rest ++ r) := by
        rw [h]; simp only [bodies, List.append_assoc]
      simp only [bodies, List.length_append] at hin
      have hre := readEntry_at (eoc := eoc) e h' hwe (by omega)
      have hnext := drop_at h'
      rw [Nat.add_assoc] at hnext
      have := ih (o + (encEntry e).length) (i + 1) hnext hrest (by omega)
      simp only [slotOffsets, present, atesFrom, List.map_cons, readAtes, hre, this, Option.bind_eq_bind,
        Option.bind_some, Option.pure_def]


/-! ### the entry-offset array, in the three layouts -/

theorem encPlain_length (offs : List (Option Nat)) : (encPlain offs).length = 4 * offs.length := by
  induction offs with
  | nil => rfl
  | cons s r ih => cases s <;> simp only [encPlain, List.length_append, enc32_length, ih, List.length_cons] <;> omega

theorem encOffset16_length (offs : List (Option Nat)) : (encOffset16 offs).length = 2 * offs.length := by
  induction offs with
  | nil => rfl
  | cons s r ih => cases s <;> simp only [encOffset16, List.length_append, enc16_length, ih, List.length_cons] <;> omega

theorem encSparse_length (pairs : List (Nat × Nat)) : (encSparse pairs).length = 4 * pairs.length := by
  induction pairs with
  | nil => rfl
  | cons s r ih =>
    obtain ⟨a, b⟩ := s
    simp only [encSparse, List.length_append, enc16_length, ih, List.length_cons]; omega

def arrWidth : ArrLayout → Nat
  | .plain => 4
  | .offset16 => 2
  | .sparse => 4

theorem arrWidth_eq (l : ArrLayout) :
    (if arrFlags l &&& flagSparse ≠ 0 then 4 else if arrFlags l &&& flagOffset16 ≠ 0 then 2 else 4) = arrWidth l := by
  cases l <;> decide

theorem encArr_length (l : ArrLayout) (offs : List (Option Nat)) :
    arrCount l offs * arrWidth l ≤ (encArr l offs).length ∧ (encArr l offs).length ≤ arrCount l offs * arrWidth l + 2 := by
  cases l with
  | plain => simp only [arrCount, arrWidth, encArr, encPlain_length]; omega
  | offset16 =>
    simp only [arrCount, arrWidth, encArr, List.length_append, encOffset16_length]
    split <;> simp <;> omega
  | sparse => simp only [arrCount, arrWidth, encArr, encSparse_length, List.length_map]; omega

theorem entryArray_at (l : ArrLayout) (slots : List (Option Entry)) (rest : List Nat)
    (hn : slots.length < 65536) (hwf : wfArr l slots = true) :
    entryArray (arrFlags l) (arrCount l (slotOffsets 0 slots))
      ((encArr l (slotOffsets 0 slots) ++ rest).take (arrCount l (slotOffsets 0 slots) * arrWidth l))
      = some (present (slotOffsets 0 slots) 0, []) := by
  generalize hoffs : slotOffsets 0 slots = offs
  have hb : ∀ off, some off ∈ offs → off + 8 ≤ (bodies slots).length ∧ off % 4 = 0 := by
    intro off ho
    rw [← hoffs] at ho
    have := slotOffsets_bounds slots 0 off ho
    omega
  have hlen : offs.length = slots.length := by rw [← hoffs, slotOffsets_length]
  cases l with
  | plain =>
    simp only [wfArr, decide_eq_true_eq] at hwf
    have ht : (encPlain offs ++ rest).take (offs.length * 4) = encPlain offs ++ [] := by
      rw [show offs.length * 4 = (encPlain offs).length by rw [encPlain_length]; omega, List.take_left]; simp
    simp only [arrFlags, arrCount, arrWidth, encArr, ht]
    unfold entryArray
    rw [if_neg (by decide), if_neg (by decide)]
    exact plain_roundtrip offs 0 [] (fun off ho => by have := hb off ho; omega)
  | offset16 =>
    simp only [wfArr, decide_eq_true_eq] at hwf
    have ht : (encOffset16 offs ++ (if offs.length % 2 = 1 then [0, 0] else []) ++ rest).take (offs.length * 2)
        = encOffset16 offs ++ [] := by
      rw [List.append_assoc, show offs.length * 2 = (encOffset16 offs).length by rw [encOffset16_length]; omega,
        List.take_left]; simp
    simp only [arrFlags, arrCount, arrWidth, encArr, ht]
    unfold entryArray
    rw [if_neg (by decide), if_pos (by decide)]
    exact offset16_roundtrip offs 0 [] (fun off ho => by have := hb off ho; omega)
  | sparse =>
    simp only [wfArr, decide_eq_true_eq] at hwf
    generalize hpairs : (present offs 0).map (fun p => (p.2, p.1)) = pairs
    have hpl : pairs.length = (present offs 0).length := by rw [← hpairs]; simp
    have ht : (encSparse pairs ++ rest).take ((present offs 0).length * 4) = encSparse pairs ++ [] := by
      rw [show (present offs 0).length * 4 = (encSparse pairs).length by rw [encSparse_length]; omega,
        List.take_left]; simp
    simp only [arrFlags, arrCount, arrWidth, encArr, hpairs, ht]
    unfold entryArray
    rw [if_pos (by decide), ← hpl]
    have hp : ∀ p ∈ pairs, p.1 < 65536 ∧ p.2 % 4 = 0 ∧ p.2 / 4 < 65536 := by
      intro p hp
      rw [← hpairs] at hp
      simp only [List.mem_map] at hp
      obtain ⟨q, hq, rfl⟩ := hp
      have hq' := present_bounds offs 0 q hq
      have := hb q.1 hq'.2.2
      simp only
      omega
    rw [sparse_roundtrip pairs [] hp, ← hpairs]
    simp [List.map_map, Function.comp_def]

end AgVerif.Arsc
