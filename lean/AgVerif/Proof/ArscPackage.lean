/-
C28 deepening, step 5b: a whole package chunk at a cursor (`readPackage_at`).  Core Lean only.
-/
import AgVerif.Proof.ArscPkgLoop
namespace AgVerif.Arsc
open AgVerif.Gen.ArscConsts AgVerif.Spec.Arsc
attribute [local irreducible] enc16 enc32

/-- what `ARSCParser` keeps of a package -/
def packageOf (l : PkgLayout) (pk : Spec.Arsc.Package) : Package :=
  ⟨utf8s pk.name, poolOf l.typeUtf8 pk.typeNames, poolOf l.keyUtf8 pk.keyNames, pk.chunks.map (chunkOf pk.id)⟩

theorem encChunks_length_ge (arr : Nat → ArrLayout) (spec : Nat → Bool) (i : Nat) (chunks : List Spec.Arsc.TypeChunk) :
    84 * chunks.length ≤ (encChunks arr spec i chunks).length := by
  induction chunks generalizing i with
  | nil => simp
  | cons tc r ih =>
    rw [encChunks_cons]
    simp only [List.length_append, List.length_cons, encTypeChunk_length]
    have := ih (i + 1)
    omega

theorem wfPackage_iff (l : PkgLayout) (pk : Spec.Arsc.Package) : wfPackage l pk = true ↔
    pk.id < 256 ∧ wfName pk.name = true ∧ pk.typeNames.all wfStr = true ∧ pk.keyNames.all wfStr = true ∧
      wfChunks l.arr 0 pk.chunks = true := by
  simp [wfPackage, and_assoc]

theorem encPackage_length (l : PkgLayout) (pk : Spec.Arsc.Package) (hn : pk.name.length < 128) :
    (encPackage l pk).length = 288 + (encPool l.typeUtf8 pk.typeNames).length + (encPool l.keyUtf8 pk.keyNames).length
      + (encChunks l.arr l.spec 0 pk.chunks).length := by
  simp only [encPackage, chunk_length, List.length_append, enc32_length, encName_length _ hn]
  omega

theorem inv_pkg {id : Nat} (h : id < 256) : IdInv id (pkgResId id) := by
  unfold IdInv
  rw [pkgResId_eq]
  simp only [Nat.reducePow]
  omega

theorem encPool_length_ge (u8 : Bool) (strs : List (List Nat)) : 28 + 4 * strs.length ≤ (encPool u8 strs).length := by
  simp only [encPool, chunk_length, List.length_append, enc32_length, encWords_length, offsetsFrom_length,
    List.length_map]
  omega

theorem drop_at_k {bs x r : List Nat} {p a n : Nat} (k : Nat) (h : bs.drop (p + a) = x ++ r) (hn : x.length = n)
    (hk : a + n = k) : bs.drop (p + k) = r := by
  have := drop_at' n h hn
  rwa [Nat.add_assoc, hk] at this

theorem readPackage_at {bs r : List Nat} {p : Nat} (l : PkgLayout) (pk : Spec.Arsc.Package)
    (h : bs.drop p = encPackage l pk ++ r) (hwf : wfPackage l pk = true)
    (hlen : (encPackage l pk).length < 4294967296) :
    readHdr bs.toArray p none = some ⟨p, p, 512, 288, (encPackage l pk).length⟩ ∧
    readPackage bs.toArray ⟨p, p, 512, 288, (encPackage l pk).length⟩ = some (packageOf l pk) := by
  obtain ⟨hid, hname, htn, hkn, hch⟩ := (wfPackage_iff l pk).mp hwf
  have hnl := ((wfName_iff pk.name).mp hname).1
  have hL := encPackage_length l pk hnl
  have hg1 := encPool_length_ge l.typeUtf8 pk.typeNames
  have hg2 := encPool_length_ge l.keyUtf8 pk.keyNames
  generalize htp : encPool l.typeUtf8 pk.typeNames = tp at *
  generalize hkp : encPool l.keyUtf8 pk.keyNames = kp at *
  generalize hcs : encChunks l.arr l.spec 0 pk.chunks = cs at *
  have h0 : bs.drop p = chunk 512 (enc32 pk.id ++ encName pk.name ++ enc32 288 ++ enc32 pk.typeNames.length
      ++ enc32 (288 + tp.length) ++ enc32 pk.keyNames.length ++ enc32 0) (tp ++ kp ++ cs) ++ r := by
    rw [h]; simp only [encPackage, htp, hkp, hcs]
  have hhdr : readHdr bs.toArray p none = some ⟨p, p, 512, 288, (encPackage l pk).length⟩ := by
    have := readHdr_at none h0 (Or.inr (by omega))
      (by simp only [List.length_append, enc32_length, encName_length _ hnl]; omega)
      (by simp only [List.length_append, enc32_length, encName_length _ hnl]; omega)
      (by intro x hx; cases hx)
    rw [this, hL]
    simp only [List.length_append, enc32_length, encName_length _ hnl]
    congr 2; omega
  refine ⟨hhdr, ?_⟩
  have a8 : bs.drop (p + 8) = enc32 pk.id ++ (encName pk.name ++ (enc32 288 ++ (enc32 pk.typeNames.length
      ++ (enc32 (288 + tp.length) ++ (enc32 pk.keyNames.length ++ (enc32 0 ++ (tp ++ (kp ++ (cs ++ r))))))))) := by
    rw [chunk_body_at h0]; simp only [List.append_assoc]
  have a12 := drop_at' 4 a8 (enc32_length _)
  have a268 := drop_at_k 260 a12 (encName_length _ hnl) rfl
  have a272 := drop_at_k 264 a268 (enc32_length _) rfl
  have a276 := drop_at_k 268 a272 (enc32_length _) rfl
  have a280 := drop_at_k 272 a276 (enc32_length _) rfl
  have a284 := drop_at_k 276 a280 (enc32_length _) rfl
  have a288 : bs.drop (p + 288) = tp ++ (kp ++ (cs ++ r)) := by
    have := drop_at_k 280 a284 (enc32_length _) rfl; rwa [Nat.add_assoc] at this
  have akp : bs.drop (p + (288 + tp.length)) = kp ++ (cs ++ r) := by
    have := drop_at a288; rwa [Nat.add_assoc] at this
  have acs : bs.drop (p + 288 + tp.length + kp.length) = cs ++ r := by
    have := drop_at akp; rwa [← Nat.add_assoc] at this
  rw [← htp] at a288
  rw [← hkp] at akp
  obtain ⟨t1, _, t3⟩ := readPool_at l.typeUtf8 pk.typeNames a288 (by rw [htp]; omega)
  obtain ⟨k1, _, k3⟩ := readPool_at l.keyUtf8 pk.keyNames akp (by rw [hkp]; omega)
  rw [htp] at t1 t3
  rw [hkp] at k1 k3
  have hsz : p + 288 + tp.length + kp.length + cs.length + r.length = bs.length := by
    have h2 := congrArg List.length a284
    simp only [List.length_drop, List.length_append, enc32_length] at h2
    omega
  have hge := encChunks_length_ge l.arr l.spec 0 pk.chunks
  rw [hcs] at hge
  rw [← hcs] at acs
  have hloop := pkgChunks_at l.arr l.spec pk.id pk.chunks 0 (p + 288 + tp.length + kp.length) (pkgResId pk.id)
    ((bs.toArray : Buf).size + 1) acs hch (by rw [hcs]; omega) (inv_pkg hid)
    (by simp only [List.size_toArray]; omega)
  rw [hcs] at hloop
  have hend : (⟨p, p, 512, 288, (encPackage l pk).length⟩ : Hdr).end_ = p + 288 + tp.length + kp.length + cs.length := by
    simp only [Hdr.end_, hL]; omega
  have := readPackage_of (b := bs.toArray) (h := ⟨p, p, 512, 288, (encPackage l pk).length⟩)
    (th := ⟨p + 288, p + 288, 1, 28, tp.length⟩) (kh := ⟨p + (288 + tp.length), p + (288 + tp.length), 1, 28, kp.length⟩)
    (rd32_at a8 (by omega)) (rd32_at a268 (by omega)) (rd32_at a272 (by omega)) (rd32_at a276 (by omega))
    (rd32_at a280 (by omega)) t1 t3 k1 k3 (by rw [hend]; exact hloop)
  rw [this]
  simp only [packageOf, slice_eq, a12]
  rw [show (256 : Nat) = (encName pk.name).length from (encName_length _ hnl).symm, List.take_left,
    packageName_enc _ hname]

end AgVerif.Arsc
