/-
Lemmas for C05: the model's item decoders invert the specification's encodings; index
differences; dictionary-style lookups.
-/
import AgVerif.Model.DexFile
import AgVerif.Spec.DexFile
import AgVerif.Props.C03
namespace AgVerif.DexFile
open AgVerif.Spec.DexFile AgVerif.Spec.Leb

/-! ### L0 -/

theorem u16_enc (v : Nat) (rest : Bytes) (h : v < 65536) : u16 (ushort v ++ rest) = some (v, rest) := by
  simp only [ushort, List.cons_append, List.nil_append, u16, Option.some.injEq, Prod.mk.injEq, and_true]
  omega

theorem u32_enc (v : Nat) (rest : Bytes) (h : v < 2 ^ 32) : u32 (uint v ++ rest) = some (v, rest) := by
  simp only [uint, List.cons_append, List.nil_append, u32, Option.some.injEq, Prod.mk.injEq, and_true]
  omega

theorem uleb_enc (item : Bytes) (v : Nat) (rest : Bytes) (h : ULeb item v) :
    uleb (item ++ rest) = some (v, rest) := by
  unfold uleb
  rw [AgVerif.C03.uleb_decode_spec item rest v h.1 h.2.1 h.2.2]
  simp

/-! ### fixed-layout items -/

theorem decProtoId_enc (a b c : Nat) (rest : Bytes) (ha : a < 2 ^ 32) (hb : b < 2 ^ 32) (hc : c < 2 ^ 32) :
    decProtoId (protoId a b c ++ rest) = some (⟨a, b, c⟩, rest) := by
  simp only [decProtoId, protoId, List.append_assoc, bind, Option.bind, u32_enc _ _ ha, u32_enc _ _ hb,
    u32_enc _ _ hc, pure]

theorem decFieldId_enc (a b c : Nat) (rest : Bytes) (ha : a < 65536) (hb : b < 65536) (hc : c < 2 ^ 32) :
    decFieldId (fieldId a b c ++ rest) = some (⟨a, b, c⟩, rest) := by
  simp only [decFieldId, fieldId, List.append_assoc, bind, Option.bind, u16_enc _ _ ha, u16_enc _ _ hb,
    u32_enc _ _ hc, pure]

theorem decMethodId_enc (a b c : Nat) (rest : Bytes) (ha : a < 65536) (hb : b < 65536) (hc : c < 2 ^ 32) :
    decMethodId (methodId a b c ++ rest) = some (⟨a, b, c⟩, rest) := by
  simp only [decMethodId, methodId, List.append_assoc, bind, Option.bind, u16_enc _ _ ha, u16_enc _ _ hb,
    u32_enc _ _ hc, pure]

theorem decClassDef_enc (a b c d e f g h : Nat) (rest : Bytes)
    (ha : a < 2 ^ 32) (hb : b < 2 ^ 32) (hc : c < 2 ^ 32) (hd : d < 2 ^ 32)
    (he : e < 2 ^ 32) (hf : f < 2 ^ 32) (hg : g < 2 ^ 32) (hh : h < 2 ^ 32) :
    decClassDef (classDef a b c d e f g h ++ rest) = some (⟨a, b, c, d, e, f, g, h⟩, rest) := by
  simp only [decClassDef, classDef, List.append_assoc, bind, Option.bind, u32_enc _ _ ha, u32_enc _ _ hb,
    u32_enc _ _ hc, u32_enc _ _ hd, u32_enc _ _ he, u32_enc _ _ hf, u32_enc _ _ hg, u32_enc _ _ hh, pure]

theorem decCodeHdr_enc (a b c d e f : Nat) (rest : Bytes)
    (ha : a < 65536) (hb : b < 65536) (hc : c < 65536) (hd : d < 65536) (he : e < 2 ^ 32) (hf : f < 2 ^ 32) :
    decCodeHdr (codeHdr a b c d e f ++ rest) = some (⟨a, b, c, d, e, f⟩, rest) := by
  simp only [decCodeHdr, codeHdr, List.append_assoc, bind, Option.bind, u16_enc _ _ ha, u16_enc _ _ hb,
    u16_enc _ _ hc, u16_enc _ _ hd, u32_enc _ _ he, u32_enc _ _ hf, pure]

/-! ### type_list -/

theorem decN_u16_enc : ∀ (l : List Nat) (rest : Bytes), (∀ x ∈ l, x < 65536) →
    decN u16 l.length (l.flatMap ushort ++ rest) = some (l, rest)
  | [], rest, _ => by simp [decN]
  | x :: xs, rest, h => by
    have hx := h x List.mem_cons_self
    have hxs : ∀ y ∈ xs, y < 65536 := fun y hy => h y (List.mem_cons_of_mem _ hy)
    simp only [List.length_cons, decN, List.flatMap_cons, List.append_assoc, bind, Option.bind,
      u16_enc _ _ hx, decN_u16_enc xs rest hxs, pure]

/-- even number of entries: nothing else is read; odd: the two bytes that follow are skipped -/
theorem decTypeList_enc (l : List Nat) (rest : Bytes) (hl : l.length < 2 ^ 32) (h : ∀ x ∈ l, x < 65536) :
    decTypeList (typeListBody l ++ rest) =
      some (l, if l.length % 2 != 0 then rest.drop 2 else rest) := by
  simp only [decTypeList, typeListBody, List.append_assoc, bind, Option.bind, u32_enc _ _ hl,
    decN_u16_enc l rest h, pure]

/-! ### class_data_item -/

theorem decFields_enc : ∀ (rows : List (Nat × Nat)) (prev : Nat) (bs rest : Bytes),
    EncFields prev rows bs →
    decFields rows.length prev (bs ++ rest) = some (rows.map (fun r => ⟨r.1, r.2⟩), rest)
  | [], prev, bs, rest, h => by
    cases h
    simp [decFields]
  | (idx, fl) :: rows, prev, bs, rest, h => by
    cases h with
    | cons _ _ _ di fi bs' _ hle hd hf hrest =>
      have ih := decFields_enc rows idx bs' rest hrest
      have e : idx - prev + prev = idx := by omega
      simp only [List.length_cons, decFields, List.append_assoc, bind, Option.bind,
        uleb_enc di _ _ hd, uleb_enc fi _ _ hf, e, ih, pure, List.map_cons]

theorem decMethods_enc : ∀ (rows : List (Nat × Nat × Nat)) (prev : Nat) (bs rest : Bytes),
    EncMethods prev rows bs →
    decMethods rows.length prev (bs ++ rest) = some (rows.map (fun r => ⟨r.1, r.2.1, r.2.2⟩), rest)
  | [], prev, bs, rest, h => by
    cases h
    simp [decMethods]
  | (idx, fl, co) :: rows, prev, bs, rest, h => by
    cases h with
    | cons _ _ _ _ di fi ci bs' _ hle hd hf hc hrest =>
      have ih := decMethods_enc rows idx bs' rest hrest
      have e : idx - prev + prev = idx := by omega
      simp only [List.length_cons, decMethods, List.append_assoc, bind, Option.bind,
        uleb_enc di _ _ hd, uleb_enc fi _ _ hf, uleb_enc ci _ _ hc, e, ih, pure, List.map_cons]

theorem decClassData_enc (sf inf : List (Nat × Nat)) (dm vm : List (Nat × Nat × Nat)) (bytes rest : Bytes)
    (h : EncClassData sf inf dm vm bytes) :
    decClassData (bytes ++ rest) =
      some (⟨sf.map (fun r => ⟨r.1, r.2⟩), inf.map (fun r => ⟨r.1, r.2⟩),
             dm.map (fun r => ⟨r.1, r.2.1, r.2.2⟩), vm.map (fun r => ⟨r.1, r.2.1, r.2.2⟩)⟩, rest) := by
  obtain ⟨n1, n2, n3, n4, b1, b2, b3, b4, h1, h2, h3, h4, f1, f2, m1, m2, rfl⟩ := h
  simp only [decClassData, List.append_assoc, bind, Option.bind, uleb_enc n1 _ _ h1, uleb_enc n2 _ _ h2,
    uleb_enc n3 _ _ h3, uleb_enc n4 _ _ h4, decFields_enc sf 0 b1 _ f1, decFields_enc inf 0 b2 _ f2,
    decMethods_enc dm 0 b3 _ m1, decMethods_enc vm 0 b4 _ m2, pure]

/-! ### index differences -/

theorem undiffs_diffs : ∀ (xs : List Nat) (prev : Nat), Ascending prev xs → undiffs prev (diffs prev xs) = xs
  | [], _, _ => rfl
  | x :: xs, prev, h => by
    have e : x - prev + prev = x := by have := h.1; omega
    simp only [diffs, undiffs, e, undiffs_diffs xs x h.2]

/-- the running index of decFields is `undiffs` of the differences read -/
theorem decFields_idx : ∀ (n prev : Nat) (bs rest : Bytes) (l : List EncField),
    decFields n prev bs = some (l, rest) →
    ∃ ds : List Nat, ds.length = n ∧ l.map (·.idx) = undiffs prev ds
  | 0, prev, bs, rest, l, h => by
    simp only [decFields, Option.some.injEq, Prod.mk.injEq] at h
    exact ⟨[], rfl, by rw [← h.1]; rfl⟩
  | n + 1, prev, bs, rest, l, h => by
    simp only [decFields, bind, Option.bind_eq_some_iff, pure, Option.some.injEq, Prod.mk.injEq,
      Prod.exists] at h
    obtain ⟨d, r1, _, fl, r2, _, tl, r3, htl, hl, _⟩ := h
    obtain ⟨ds, hlen, hds⟩ := decFields_idx n (d + prev) _ _ _ htl
    refine ⟨d :: ds, by simp [hlen], ?_⟩
    rw [← hl]
    simp only [List.map_cons, undiffs, hds]

/-! ### dictionary lookups -/

theorem find?_reverse_some {α} (p : α → Bool) : ∀ (l : List α) (x : α),
    l.reverse.find? p = some x → x ∈ l ∧ p x = true := by
  intro l x h
  have := List.find?_some h
  exact ⟨List.mem_reverse.mp (List.mem_of_find?_eq_some h), this⟩

theorem dictGet_some {α κ} [BEq κ] [LawfulBEq κ] (key : α → κ) (k : κ) (l : List α) (x : α)
    (h : dictGet key k l = some x) : x ∈ l ∧ key x = k := by
  obtain ⟨hm, hp⟩ := find?_reverse_some _ l x h
  exact ⟨hm, by simpa using hp⟩

theorem dictGet_none {α κ} [BEq κ] [LawfulBEq κ] (key : α → κ) (k : κ) (l : List α) :
    dictGet key k l = none ↔ ∀ x ∈ l, key x ≠ k := by
  unfold dictGet
  rw [List.find?_eq_none]
  simp only [List.mem_reverse, beq_iff_eq]

/-- distinct keys: the item stored under `key x` is `x` itself -/
theorem dictGet_unique {α κ} [BEq κ] [LawfulBEq κ] (key : α → κ) (l : List α)
    (hd : (l.map key).Nodup) (x : α) (hx : x ∈ l) : dictGet key (key x) l = some x := by
  cases h : dictGet key (key x) l with
  | none => exact absurd rfl ((dictGet_none key (key x) l).mp h x hx)
  | some y =>
    obtain ⟨hy, hk⟩ := dictGet_some key (key x) l y h
    congr
    rw [List.Nodup, List.pairwise_map] at hd
    have : ∀ (l : List α), l.Pairwise (fun a b => key a ≠ key b) → x ∈ l → y ∈ l → y = x := by
      intro l hp hx hy
      induction hp with
      | nil => simp at hx
      | cons hhead _ ih =>
        rename_i a tl
        rcases List.mem_cons.mp hx with rfl | hx' <;> rcases List.mem_cons.mp hy with rfl | hy'
        · rfl
        · exact absurd hk.symm (hhead y hy')
        · exact absurd hk (hhead x hx')
        · exact ih hx' hy'
    exact this l hd hx hy

/-! ### the concatenated cache key of the unfixed code -/

/-- split a byte string at the first occurrence of `c` (the separator goes to the left part) -/
def splitAfter (c : Nat) : Bytes → Option (Bytes × Bytes)
  | [] => none
  | b :: r => if b = c then some ([b], r) else
    match splitAfter c r with
    | some (l, r') => some (b :: l, r')
    | none => none

theorem splitAfter_append (c : Nat) : ∀ (pre : Bytes) (rest : Bytes), c ∉ pre →
    splitAfter c (pre ++ c :: rest) = some (pre ++ [c], rest)
  | [], rest, _ => by simp [splitAfter]
  | b :: pre, rest, h => by
    have hb : b ≠ c := fun e => h (by simp [e])
    have hp : c ∉ pre := fun m => h (List.mem_cons_of_mem _ m)
    simp only [List.cons_append, splitAfter, hb, ↓reduceIte, splitAfter_append c pre rest hp]

/-- split before the first `c` -/
def splitBefore (c : Nat) : Bytes → Bytes × Bytes
  | [] => ([], [])
  | b :: r => if b = c then ([], b :: r) else ((splitBefore c r).1.cons b, (splitBefore c r).2)

theorem splitBefore_append (c : Nat) : ∀ (pre rest : Bytes), c ∉ pre →
    splitBefore c (pre ++ c :: rest) = (pre, c :: rest)
  | [], rest, _ => by simp [splitBefore]
  | b :: pre, rest, h => by
    have hb : b ≠ c := fun e => h (by simp [e])
    have hp : c ∉ pre := fun m => h (List.mem_cons_of_mem _ m)
    simp [splitBefore, hb, splitBefore_append c pre rest hp]

end AgVerif.DexFile
