/-
C07, extended loader (Model/DexFileX.lean): frame lemmas for `stepX`.

`readsX T` = the ClassManager tables the item parser of map type `T` looks at, now including
ENCODED_ARRAY_ITEM / ANNOTATION_ITEM (the eager lookups of EncodedValue: string ids and data, type
ids, field ids, method ids) and the full ClassDefItem.reload (also the encoded arrays and the
annotations directories).  `stepX_frame_reads`: `stepX file cx e` depends on `cx` only through the
tables in `readsX e.type`, writes only the table(s) of `e.type`, leaves every other table as it was.
`readsX_adequate`: every such read is a (transitively) declared dependency in the table of the source.
-/
import AgVerif.Model.DexFileX
import AgVerif.Proof.DexDeps
namespace AgVerif.DexFrame
open AgVerif.DexFile AgVerif.LoadOrder

/-- the map types with an item parser in the extended model -/
def modelledX : List Nat := modelled ++ [0x2005, 0x2004, 0x1003, 0x1002, 0x2006]

/-- `a` and `b` hold the same table for map type `t`; the CLASS_DEF parser also owns the
    per-class extension and the record of set_static_fields calls -/
def sameTableX (t : Nat) (a b : CMx) : Prop :=
  sameTable t a.base b.base ∧ (t = 0x2005 → a.encArrays = b.encArrays) ∧ (t = 0x2004 → a.annItems = b.annItems) ∧
  (t = 0x1003 → a.annSets = b.annSets) ∧ (t = 0x1002 → a.annRefs = b.annRefs) ∧
  (t = 0x2006 → a.annDirs = b.annDirs) ∧ (t = 0x0006 → a.classX = b.classX ∧ a.inits = b.inits)

def agreeOnX (D : List Nat) (a b : CMx) : Prop := ∀ t ∈ D, sameTableX t a b

theorem agreeOnX_base {D : List Nat} {a b : CMx} (h : agreeOnX D a b) : agreeOn D a.base b.base :=
  fun t ht => (h t ht).1

def readsX (t : Nat) : List Nat :=
  if t = 0x2005 then [0x0001, 0x2002, 0x0002, 0x0004, 0x0005]      -- get_raw_string, get_type, get_field, get_method
  else if t = 0x2004 then [0x0001, 0x2002, 0x0002, 0x0004, 0x0005]
  else if t = 0x0006 then reads 0x0006 ++ [0x2006, 0x2005]         -- + get_annotations_directory_item, get_encoded_array_item
  else reads t

def Rel2X (P : CMx → CMx → Prop) : Except String CMx → Except String CMx → Prop
  | .ok a, .ok b => P a b
  | .error x, .error y => x = y
  | _, _ => False

/-- the two runs of the extended item parser of `e` fail alike, or both succeed, write the same
    table for `e.type`, and leave every other table as it was -/
def FrameOKX (file : Bytes) (e : MapEntry) (cx₁ cx₂ : CMx) : Prop :=
  Rel2X (fun a b => sameTableX e.type a b ∧ ∀ t, t ≠ e.type → sameTableX t a cx₁ ∧ sameTableX t b cx₂)
    (stepX file cx₁ e) (stepX file cx₂ e)

theorem sameTableX_refl (t : Nat) (a : CMx) : sameTableX t a a := by simp [sameTableX, sameTable_refl]

/-! ### the lookups depend only on their tables -/

theorem lookOf_congr {a b : CM} (h1 : a.stringIds = b.stringIds) (h2 : a.strData = b.strData)
    (h3 : a.typeIds = b.typeIds) (h4 : a.fieldIds = b.fieldIds) (h5 : a.methodIds = b.methodIds) :
    lookOf a = lookOf b := by
  simp only [lookOf, getString_congr h1 h2, getType_congr h1 h2 h3, Look.mk.injEq, true_and]
  constructor
  · funext i; simp only [getFieldList, h4]
  · funext i; simp only [getMethodList, h5]

theorem lookOf_of_agree {cx₁ cx₂ : CMx} (h : agreeOnX [0x0001, 0x2002, 0x0002, 0x0004, 0x0005] cx₁ cx₂) :
    lookOf cx₁.base = lookOf cx₂.base := by
  have h1 := (h 0x0001 (by decide)).1.2.1 rfl
  have h2 := (h 0x2002 (by decide)).1.1 rfl
  have h3 := (h 0x0002 (by decide)).1.2.2.1 rfl
  have h4 := (h 0x0004 (by decide)).1.2.2.2.2.2.1 rfl
  have h5 := (h 0x0005 (by decide)).1.2.2.2.2.2.2.1 rfl
  exact lookOf_congr h1 h2 h3 h4 h5

theorem resolveClassFull_congr {a b : CMx} (hr : resolveClass a.base = resolveClass b.base)
    (h1 : a.annDirs = b.annDirs) (h2 : a.encArrays = b.encArrays) :
    resolveClassFull a = resolveClassFull b := by
  funext c
  simp only [resolveClassFull, resolveClassX, hr, h1, h2]

/-! ### the frame property, type by type -/

/-- the five item types that write one table of the extension and leave the base alone -/
theorem frameX_write {α : Type} (file : Bytes) (e : MapEntry) (cx₁ cx₂ : CMx)
    (raw : Except String α) (w : CMx → α → CMx)
    (h₁ : (∀ x, raw = .error x → stepX file cx₁ e = .error x) ∧ ∀ l, raw = .ok l → stepX file cx₁ e = .ok (w cx₁ l))
    (h₂ : (∀ x, raw = .error x → stepX file cx₂ e = .error x) ∧ ∀ l, raw = .ok l → stepX file cx₂ e = .ok (w cx₂ l))
    (hw : ∀ l, sameTableX e.type (w cx₁ l) (w cx₂ l) ∧
      ∀ t, t ≠ e.type → sameTableX t (w cx₁ l) cx₁ ∧ sameTableX t (w cx₂ l) cx₂) :
    FrameOKX file e cx₁ cx₂ := by
  unfold FrameOKX
  cases hr : raw with
  | error x => rw [h₁.1 x hr, h₂.1 x hr]; simp [Rel2X]
  | ok l => rw [h₁.2 l hr, h₂.2 l hr]; simpa [Rel2X] using hw l

theorem frameX_2005 (file : Bytes) (e : MapEntry) (cx₁ cx₂ : CMx) (ht : e.type = 0x2005)
    (h : agreeOnX (readsX 0x2005) cx₁ cx₂) : FrameOKX file e cx₁ cx₂ := by
  have hl := lookOf_of_agree h
  refine frameX_write file e cx₁ cx₂ (decSeqX (decArrayX (lookOf cx₂.base)) file e.size e.offset)
    (fun cx l => { cx with encArrays := some l }) ?_ ?_ ?_
  · constructor <;> intro x hx <;> simp only [stepX, ht, ↓reduceIte, hl, hx]
  · constructor <;> intro x hx <;> simp only [stepX, ht, ↓reduceIte, hx]
  · intro l
    simp +contextual [sameTableX, sameTable, ht]

theorem frameX_2004 (file : Bytes) (e : MapEntry) (cx₁ cx₂ : CMx) (ht : e.type = 0x2004)
    (h : agreeOnX (readsX 0x2004) cx₁ cx₂) : FrameOKX file e cx₁ cx₂ := by
  have hl := lookOf_of_agree h
  refine frameX_write file e cx₁ cx₂ (decSeqX (decAnnItemX (lookOf cx₂.base)) file e.size e.offset)
    (fun cx l => { cx with annItems := some l }) ?_ ?_ ?_
  · constructor <;> intro x hx <;> simp only [stepX, ht, Nat.reduceEqDiff, ↓reduceIte, hl, hx]
  · constructor <;> intro x hx <;> simp only [stepX, ht, Nat.reduceEqDiff, ↓reduceIte, hx]
  · intro l
    simp +contextual [sameTableX, sameTable, ht]

theorem frameX_1003 (file : Bytes) (e : MapEntry) (cx₁ cx₂ : CMx) (ht : e.type = 0x1003) :
    FrameOKX file e cx₁ cx₂ := by
  refine frameX_write file e cx₁ cx₂ (structErr (decSeq decOffList file e.size (seek4 e.offset)))
    (fun cx l => { cx with annSets := some l }) ?_ ?_ ?_
  · constructor <;> intro x hx <;> simp only [stepX, ht, Nat.reduceEqDiff, ↓reduceIte, hx]
  · constructor <;> intro x hx <;> simp only [stepX, ht, Nat.reduceEqDiff, ↓reduceIte, hx]
  · intro l
    simp +contextual [sameTableX, sameTable, ht]

theorem frameX_1002 (file : Bytes) (e : MapEntry) (cx₁ cx₂ : CMx) (ht : e.type = 0x1002) :
    FrameOKX file e cx₁ cx₂ := by
  refine frameX_write file e cx₁ cx₂ (structErr (decSeq decOffList file e.size (seek4 e.offset)))
    (fun cx l => { cx with annRefs := some l }) ?_ ?_ ?_
  · constructor <;> intro x hx <;> simp only [stepX, ht, Nat.reduceEqDiff, ↓reduceIte, hx]
  · constructor <;> intro x hx <;> simp only [stepX, ht, Nat.reduceEqDiff, ↓reduceIte, hx]
  · intro l
    simp +contextual [sameTableX, sameTable, ht]

theorem frameX_2006 (file : Bytes) (e : MapEntry) (cx₁ cx₂ : CMx) (ht : e.type = 0x2006) :
    FrameOKX file e cx₁ cx₂ := by
  refine frameX_write file e cx₁ cx₂ (structErr (decSeq decAnnDir file e.size (seek4 e.offset)))
    (fun cx l => { cx with annDirs := some l }) ?_ ?_ ?_
  · constructor <;> intro x hx <;> simp only [stepX, ht, Nat.reduceEqDiff, ↓reduceIte, hx]
  · constructor <;> intro x hx <;> simp only [stepX, ht, Nat.reduceEqDiff, ↓reduceIte, hx]
  · intro l
    simp +contextual [sameTableX, sameTable, ht]

theorem frameX_6 (file : Bytes) (e : MapEntry) (cx₁ cx₂ : CMx) (ht : e.type = 0x0006)
    (h : agreeOnX (readsX 0x0006) cx₁ cx₂) : FrameOKX file e cx₁ cx₂ := by
  have hb : agreeOn (reads 0x0006) cx₁.base cx₂.base :=
    fun t ht' => (h t (by simp only [readsX]; exact List.mem_append_left _ ht')).1
  have h1 := (hb 0x0001 (by decide)).2.1 rfl
  have h2 := (hb 0x2002 (by decide)).1 rfl
  have h3 := (hb 0x0002 (by decide)).2.2.1 rfl
  have h4 := (hb 0x1001 (by decide)).2.2.2.1 rfl
  have h5 := (hb 0x2000 (by decide)).2.2.2.2.2.2.2.1 rfl
  have h6 := (h 0x2006 (by decide)).2.2.2.2.2.1 rfl
  have h7 := (h 0x2005 (by decide)).2.1 rfl
  have hc := resolveClassFull_congr (resolveClass_congr h1 h2 h3 h4 h5) h6 h7
  unfold FrameOKX
  simp only [stepX, ht, Nat.reduceEqDiff, ↓reduceIte, hc]
  cases structErr (decSeq decClassDef file e.size (seek4 e.offset)) with
  | error x => simp [Rel2X]
  | ok l =>
    simp only
    cases mapE (fun p : Nat × ClassDef => resolveClassFull cx₂ p.2) l with
    | error x => simp [Rel2X]
    | ok rs => simp +contextual [Rel2X, sameTableX, sameTable]

/-- every other type: `stepX` is the base `step` on the base component -/
theorem frameX_base (file : Bytes) (e : MapEntry) (cx₁ cx₂ : CMx)
    (h1 : e.type ≠ 0x2005) (h2 : e.type ≠ 0x2004) (h3 : e.type ≠ 0x1003) (h4 : e.type ≠ 0x1002)
    (h5 : e.type ≠ 0x2006) (h6 : e.type ≠ 0x0006) (hf : FrameOK file e cx₁.base cx₂.base) :
    FrameOKX file e cx₁ cx₂ := by
  unfold FrameOKX
  unfold FrameOK at hf
  simp only [stepX, h1, h2, h3, h4, h5, h6, ↓reduceIte]
  cases hs₁ : step file cx₁.base e <;> cases hs₂ : step file cx₂.base e <;>
    simp only [hs₁, hs₂, Rel2] at hf <;> simp only [Rel2X]
  · exact hf
  · obtain ⟨hw, ho⟩ := hf
    refine ⟨⟨hw, ?_⟩, fun t ht => ⟨⟨(ho t ht).1, ?_⟩, ⟨(ho t ht).2, ?_⟩⟩⟩ <;> simp [h1, h2, h3, h4, h5, h6]

/-- frame for the extended loader: the item parser of `e` depends on the ClassManager only through
    the tables in `readsX e.type`; it writes the table of `e.type` and nothing else. -/
theorem stepX_frame_reads (file : Bytes) (e : MapEntry) (cx₁ cx₂ : CMx)
    (h : agreeOnX (readsX e.type) cx₁ cx₂) : FrameOKX file e cx₁ cx₂ := by
  by_cases h1 : e.type = 0x2005; · exact frameX_2005 file e cx₁ cx₂ h1 (h1 ▸ h)
  by_cases h2 : e.type = 0x2004; · exact frameX_2004 file e cx₁ cx₂ h2 (h2 ▸ h)
  by_cases h3 : e.type = 0x1003; · exact frameX_1003 file e cx₁ cx₂ h3
  by_cases h4 : e.type = 0x1002; · exact frameX_1002 file e cx₁ cx₂ h4
  by_cases h5 : e.type = 0x2006; · exact frameX_2006 file e cx₁ cx₂ h5
  by_cases h6 : e.type = 0x0006; · exact frameX_6 file e cx₁ cx₂ h6 (h6 ▸ h)
  refine frameX_base file e cx₁ cx₂ h1 h2 h3 h4 h5 h6 (step_frame_reads file e _ _ ?_)
  have : readsX e.type = reads e.type := by simp [readsX, h1, h2, h6]
  exact agreeOnX_base (this ▸ h)

/-- the dependency table of the source covers, up to transitivity, everything the extended item
    parsers read -/
def adequateX (deps : Deps) : Prop := ∀ T ∈ modelledX, ∀ D ∈ readsX T, D ∈ closure deps T

instance (deps : Deps) : Decidable (adequateX deps) := by unfold adequateX; infer_instance

theorem readsX_adequate : adequateX Gen.MapDeps.deps := by decide +kernel

theorem readsX_nil_of_not_modelled {t : Nat} (h : t ∉ modelledX) : readsX t = [] := by
  simp only [modelledX, modelled, List.cons_append, List.nil_append, List.mem_cons, List.not_mem_nil,
    or_false, not_or] at h
  simp [readsX, reads, h]

/-- frame against the table of the source: states that agree on the tables of the (transitively)
    declared dependencies of `e.type` give the same result, for every adequate table -/
theorem stepX_frame_of_adequate (deps : Deps) (had : adequateX deps) (file : Bytes) (e : MapEntry)
    (cx₁ cx₂ : CMx) (h : agreeOnX (closure deps e.type) cx₁ cx₂) : FrameOKX file e cx₁ cx₂ := by
  apply stepX_frame_reads
  by_cases hm : e.type ∈ modelledX
  · exact fun t ht => h t (had _ hm t ht)
  · rw [readsX_nil_of_not_modelled hm]; intro t ht; cases ht

end AgVerif.DexFrame
