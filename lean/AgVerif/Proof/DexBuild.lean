/-
C05, file level, part 5: a layout-parametric writer.  For every table set `T` and every layout `L`
whose regions (the map_off field of the header, the map list, the sections) fit into `size` bytes
and are pairwise disjoint, `build T L size` is a file that `Encodes` `T` in `L` — so the hypotheses
of `parse_encode` are satisfiable for every consistent layout, and the loader reads back what
this writer wrote.
-/
import AgVerif.Proof.DexLoadView
namespace AgVerif.C05
open AgVerif.DexFile AgVerif.LoadOrder
open AgVerif.Spec.DexFile (ushort uint ULeb protoId fieldId methodId classDef typeListBody codeHdr EncClassData)

/-! ### overwriting bytes -/

/-- overwrite `bs` at `off` -/
def poke (file : Bytes) (off : Nat) (bs : Bytes) : Bytes :=
  file.take off ++ bs ++ file.drop (off + bs.length)

theorem poke_length (file : Bytes) (off : Nat) (bs : Bytes) (h : off + bs.length ≤ file.length) :
    (poke file off bs).length = file.length := by
  simp only [poke, List.length_append, List.length_take, List.length_drop]; omega

theorem at_iff (file : Bytes) (off : Nat) (bs : Bytes) :
    At file off bs ↔ off + bs.length ≤ file.length ∧ ∀ i, i < bs.length → file[off + i]? = bs[i]? := by
  constructor
  · rintro ⟨pre, post, rfl, rfl⟩
    refine ⟨by simp only [List.length_append]; omega, fun i hi => ?_⟩
    rw [List.append_assoc, List.getElem?_append_right (by omega)]
    simp only [Nat.add_sub_cancel_left]
    rw [List.getElem?_append_left hi]
  · rintro ⟨hlen, hget⟩
    refine ⟨file.take off, file.drop (off + bs.length), ?_, by simp only [List.length_take]; omega⟩
    have h1 : (file.drop off).take bs.length = bs := by
      apply List.ext_getElem?
      intro i
      by_cases hi : i < bs.length
      · rw [List.getElem?_take_of_lt hi, List.getElem?_drop, hget i hi]
      · rw [List.getElem?_eq_none (by simp only [List.length_take, List.length_drop]; omega),
          List.getElem?_eq_none (by omega)]
    have h2 : file.drop off = bs ++ file.drop (off + bs.length) := by
      conv => lhs; rw [← List.take_append_drop bs.length (file.drop off), h1, List.drop_drop]
    conv => lhs; rw [← List.take_append_drop off file, h2]
    rw [List.append_assoc]

theorem poke_get (file : Bytes) (off : Nat) (bs : Bytes) (h : off + bs.length ≤ file.length) (j : Nat) :
    (poke file off bs)[j]? = if off ≤ j ∧ j < off + bs.length then bs[j - off]? else file[j]? := by
  unfold poke
  have hl : (file.take off).length = off := by simp only [List.length_take]; omega
  by_cases h1 : j < off
  · rw [List.append_assoc, List.getElem?_append_left (by omega), List.getElem?_take_of_lt h1]
    rw [if_neg (by omega)]
  · by_cases h2 : j < off + bs.length
    · rw [List.getElem?_append_left (by simp only [List.length_append]; omega),
        List.getElem?_append_right (by omega), hl, if_pos (by omega)]
    · rw [List.getElem?_append_right (by simp only [List.length_append]; omega), List.getElem?_drop,
        if_neg (by omega)]
      congr 1
      simp only [List.length_append]; omega

theorem poke_at (file : Bytes) (off : Nat) (bs : Bytes) (h : off + bs.length ≤ file.length) :
    At (poke file off bs) off bs := by
  rw [at_iff]
  refine ⟨by rw [poke_length _ _ _ h]; exact h, fun i hi => ?_⟩
  rw [poke_get _ _ _ h, if_pos (by omega), Nat.add_sub_cancel_left]

def Disjoint (r s : Nat × Bytes) : Prop := r.1 + r.2.length ≤ s.1 ∨ s.1 + s.2.length ≤ r.1

instance (r s : Nat × Bytes) : Decidable (Disjoint r s) := by unfold Disjoint; exact inferInstance

theorem poke_preserves (file : Bytes) (off : Nat) (bs : Bytes) (h : off + bs.length ≤ file.length)
    (o2 : Nat) (b2 : Bytes) (hat : At file o2 b2) (hd : Disjoint (off, bs) (o2, b2)) :
    At (poke file off bs) o2 b2 := by
  rw [at_iff] at hat ⊢
  refine ⟨by rw [poke_length _ _ _ h]; exact hat.1, fun i hi => ?_⟩
  rw [poke_get _ _ _ h, if_neg, hat.2 i hi]
  unfold Disjoint at hd
  simp only at hd
  omega

/-- write the regions, the first one last -/
def pokeAll (base : Bytes) : List (Nat × Bytes) → Bytes
  | [] => base
  | r :: rs => poke (pokeAll base rs) r.1 r.2

theorem pokeAll_length (base : Bytes) : ∀ (rs : List (Nat × Bytes)), (∀ r ∈ rs, r.1 + r.2.length ≤ base.length) →
    (pokeAll base rs).length = base.length
  | [], _ => rfl
  | r :: rs, h => by
    have ih := pokeAll_length base rs (fun x hx => h x (List.mem_cons_of_mem _ hx))
    simp only [pokeAll]
    rw [poke_length _ _ _ (by rw [ih]; exact h r List.mem_cons_self), ih]

theorem pokeAll_at (base : Bytes) : ∀ (rs : List (Nat × Bytes)), (∀ r ∈ rs, r.1 + r.2.length ≤ base.length) →
    rs.Pairwise Disjoint → ∀ r ∈ rs, At (pokeAll base rs) r.1 r.2
  | [], _, _, r, hr => by cases hr
  | x :: rs, h, hp, r, hr => by
    have hlen := pokeAll_length base rs (fun y hy => h y (List.mem_cons_of_mem _ hy))
    have hx : x.1 + x.2.length ≤ (pokeAll base rs).length := by rw [hlen]; exact h x List.mem_cons_self
    simp only [pokeAll]
    rcases List.mem_cons.mp hr with rfl | hr'
    · exact poke_at _ _ _ hx
    · exact poke_preserves _ _ _ hx _ _
        (pokeAll_at base rs (fun y hy => h y (List.mem_cons_of_mem _ hy)) hp.tail r hr')
        (List.rel_of_pairwise_cons hp hr')

/-! ### the writer -/

/-- the ten sections the loader reads: map type, number of rows, bytes, 4-aligned -/
def Tables.secs (T : Tables) : List (Nat × Nat × Bytes × Bool) :=
  [(0x2002, T.strings.length, bytesOf T.strItems, false),
   (0x0001, T.stringIds.length, T.stringIds.flatMap uint, false),
   (0x0002, T.typeIds.length, T.typeIds.flatMap uint, true),
   (0x0003, T.protoIds.length, T.protoIds.flatMap fun p => protoId p.shorty p.ret p.paramsOff, true),
   (0x0004, T.fieldIds.length, T.fieldIds.flatMap fun f => fieldId f.cls f.typ f.name, true),
   (0x0005, T.methodIds.length, T.methodIds.flatMap fun m => methodId m.cls m.proto m.name, true),
   (0x1001, T.typeLists.length, bytesOf T.tlItems, true),
   (0x2000, T.classData.length, bytesOf T.cdItems, false),
   (0x2001, T.codes.length, bytesOf T.codeItems, true),
   (0x0006, T.classDefs.length, T.classDefs.flatMap fun c =>
      classDef c.cls c.access c.super c.ifacesOff c.srcIdx c.annOff c.dataOff c.staticOff, true)]

/-- what has to be written where: header.map_off, the map list, every section that is in the map -/
def regions (T : Tables) (L : Layout) : List (Nat × Bytes) :=
  (0x34, uint L.mapOff) :: (L.mapOff, uint L.map.length ++ L.map.flatMap mapEntryBytes) ::
  T.secs.filterMap fun s => (L.sec s.1).map fun e => (e.offset, s.2.2.1)

/-- `size` zero bytes with the regions written into them -/
def build (T : Tables) (L : Layout) (size : Nat) : Bytes := pokeAll (List.replicate size 0) (regions T L)

/-- the layout is a possible one for the tables (decidable) -/
structure Consistent (T : Tables) (L : Layout) (size : Nat) : Prop where
  mapOff_ne : L.mapOff ≠ 0
  mapOff_lt : L.mapOff < 2 ^ 32
  mapLen : L.map.length < 2 ^ 32
  nodup : (L.map.map (·.type)).Nodup
  members : ∀ e ∈ L.map, e.type ∈ Gen.MapDeps.members.map (·.2)
  ranges : ∀ e ∈ L.map, e.size < 2 ^ 32 ∧ e.offset < 2 ^ 32
  fit : ∀ r ∈ regions T L, r.1 + r.2.length ≤ size
  disjoint : (regions T L).Pairwise Disjoint
  secs : ∀ s ∈ T.secs, ((L.sec s.1).isNone → s.2.1 = 0) ∧
    ∀ e ∈ L.sec s.1, e.size = s.2.1 ∧ (s.2.2.2 = true → e.offset % 4 = 0)

instance (T : Tables) (L : Layout) (size : Nat) : Decidable (Consistent T L size) :=
  decidable_of_iff
    (L.mapOff ≠ 0 ∧ L.mapOff < 2 ^ 32 ∧ L.map.length < 2 ^ 32 ∧ (L.map.map (·.type)).Nodup ∧
     (∀ e ∈ L.map, e.type ∈ Gen.MapDeps.members.map (·.2)) ∧ (∀ e ∈ L.map, e.size < 2 ^ 32 ∧ e.offset < 2 ^ 32) ∧
     (∀ r ∈ regions T L, r.1 + r.2.length ≤ size) ∧ (regions T L).Pairwise Disjoint ∧
     (∀ s ∈ T.secs, ((L.sec s.1).isNone → s.2.1 = 0) ∧
        ∀ e ∈ L.sec s.1, e.size = s.2.1 ∧ (s.2.2.2 = true → e.offset % 4 = 0)))
    ⟨fun ⟨h1, h2, h3, h4, h5, h6, h7, h8, h9⟩ => ⟨h1, h2, h3, h4, h5, h6, h7, h8, h9⟩,
     fun h => ⟨h.mapOff_ne, h.mapOff_lt, h.mapLen, h.nodup, h.members, h.ranges, h.fit, h.disjoint, h.secs⟩⟩

/-- the rows are written with valid encodings (LEB128 items, padding, class data, code tails) -/
structure ItemsOk (T : Tables) : Prop where
  strItem : ∀ s ∈ T.strings, (∃ n, ULeb s.1 n) ∧ 0 ∉ s.2
  tlPad : ∀ p ∈ T.typeLists, p.2.length = if p.1.length % 2 = 1 then 2 else 0
  cdEnc : ∀ c ∈ T.classData,
    EncClassData (c.1.sf.map fun f => (f.idx, f.flags)) (c.1.inf.map fun f => (f.idx, f.flags))
      (c.1.dm.map fun m => (m.idx, m.flags, m.codeOff)) (c.1.vm.map fun m => (m.idx, m.flags, m.codeOff)) c.2
  codeRest : ∀ p ∈ T.codes, ∃ tail pad, p.2 = tail ++ pad ∧ CodeTail p.1 tail ∧
    pad.length = (4 - (encCode p.1 ++ tail).length % 4) % 4

variable {T : Tables} {L : Layout} {size : Nat}

theorem build_at (hc : Consistent T L size) (r : Nat × Bytes) (hr : r ∈ regions T L) :
    At (build T L size) r.1 r.2 :=
  pokeAll_at _ _ (by simpa using hc.fit) hc.disjoint r hr

theorem section_of_build (hc : Consistent T L size) (s : Nat × Nat × Bytes × Bool) (hs : s ∈ T.secs) :
    Section (build T L size) L s.1 s.2.1 s.2.2.1 s.2.2.2 := by
  obtain ⟨h0, h1⟩ := hc.secs s hs
  unfold Section
  cases hq : L.sec s.1 with
  | none => exact h0 (by simp [hq])
  | some e =>
    obtain ⟨h2, h3⟩ := h1 e (Option.mem_def.mpr hq)
    refine ⟨h2, h3, build_at hc (e.offset, s.2.2.1) ?_⟩
    refine List.mem_cons_of_mem _ (List.mem_cons_of_mem _ (List.mem_filterMap.mpr ⟨s, hs, ?_⟩))
    simp [hq]

/-- the writer's output encodes the tables in the layout it was given -/
theorem encodes_build (hc : Consistent T L size) (hi : ItemsOk T) : Encodes (build T L size) L T where
  mapOff_ne := hc.mapOff_ne
  mapOff_lt := hc.mapOff_lt
  header := build_at hc (0x34, uint L.mapOff) List.mem_cons_self
  mapLen := hc.mapLen
  mapAt := build_at hc (L.mapOff, _) (List.mem_cons_of_mem _ List.mem_cons_self)
  nodup := hc.nodup
  members := hc.members
  ranges := hc.ranges
  strItem := hi.strItem
  tlPad := hi.tlPad
  cdEnc := hi.cdEnc
  codeRest := hi.codeRest
  strings := section_of_build hc (0x2002, _, _, false) (by unfold Tables.secs; repeat (first | exact List.mem_cons_self | apply List.mem_cons_of_mem))
  stringIds := section_of_build hc (0x0001, _, _, false) (by unfold Tables.secs; repeat (first | exact List.mem_cons_self | apply List.mem_cons_of_mem))
  typeIds := section_of_build hc (0x0002, _, _, true) (by unfold Tables.secs; repeat (first | exact List.mem_cons_self | apply List.mem_cons_of_mem))
  protoIds := section_of_build hc (0x0003, _, _, true) (by unfold Tables.secs; repeat (first | exact List.mem_cons_self | apply List.mem_cons_of_mem))
  fieldIds := section_of_build hc (0x0004, _, _, true) (by unfold Tables.secs; repeat (first | exact List.mem_cons_self | apply List.mem_cons_of_mem))
  methodIds := section_of_build hc (0x0005, _, _, true) (by unfold Tables.secs; repeat (first | exact List.mem_cons_self | apply List.mem_cons_of_mem))
  typeLists := section_of_build hc (0x1001, _, _, true) (by unfold Tables.secs; repeat (first | exact List.mem_cons_self | apply List.mem_cons_of_mem))
  classData := section_of_build hc (0x2000, _, _, false) (by unfold Tables.secs; repeat (first | exact List.mem_cons_self | apply List.mem_cons_of_mem))
  codes := section_of_build hc (0x2001, _, _, true) (by unfold Tables.secs; repeat (first | exact List.mem_cons_self | apply List.mem_cons_of_mem))
  classDefs := section_of_build hc (0x0006, _, _, true) (by unfold Tables.secs; repeat (first | exact List.mem_cons_self | apply List.mem_cons_of_mem))

/-- parse ∘ write: the loader reads back what the layout-parametric writer wrote -/
theorem parseDex_build (hwf : WF T L) (hc : Consistent T L size) (hi : ItemsOk T) :
    parseDex (build T L size) = .ok (declared T L) :=
  parseDex_declared (encodes_build hc hi) hwf

/-! ### the well-formedness hypotheses cannot be dropped -/

namespace NoStrings

/-- one type id, no string_ids section -/
def tabs : Tables :=
  { strings := [], stringIds := [], typeIds := [0], protoIds := [], fieldIds := [], methodIds := [],
    typeLists := [], classData := [], codes := [], classDefs := [] }

def lay : Layout := ⟨0x80, [⟨0x0002, 1, 0x70⟩, ⟨0x1000, 1, 0x80⟩]⟩

theorem itemsOk : ItemsOk tabs where
  strItem := by intro x h; cases h
  tlPad := by intro x h; cases h
  cdEnc := by intro x h; cases h
  codeRest := by intro x h; cases h

theorem consistent : Consistent tabs lay 0xa0 := by decide +kernel

def isErr (msg : String) : Except String DexV → Bool
  | .error e => e == msg
  | .ok _ => false

theorem isErr_eq {msg : String} {r : Except String DexV} (h : isErr msg r = true) : r = .error msg := by
  cases r with
  | error e => simp only [isErr, beq_iff_eq] at h; rw [h]
  | ok _ => simp [isErr] at h

theorem fails : parseDex (build tabs lay 0xa0) = .error "KeyError" := isErr_eq (by decide +kernel)

end NoStrings

/-- a file that encodes tables which are not well-formed (a type_ids section without a string_ids
    section): the loader raises KeyError (as the real one does: TypeIdItem.__init__ → get_string) -/
theorem encodes_not_enough :
    ∃ file L T, Encodes file L T ∧ parseDex file = .error "KeyError" :=
  ⟨_, NoStrings.lay, NoStrings.tabs, encodes_build NoStrings.consistent NoStrings.itemsOk, NoStrings.fails⟩

end AgVerif.C05
