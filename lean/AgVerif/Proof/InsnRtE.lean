/- C01: byte round trip of the classes 35c 35ms 35mi (generated layout; tactic `rt6` of Proof/InsnRoundtrip.lean) -/
import AgVerif.Proof.InsnRoundtrip
set_option linter.unusedSimpArgs false
set_option linter.unusedVariables false
namespace AgVerif.Insn
open AgVerif.Gen

theorem rt_35c (bs : List Nat) (hb : AllBytes bs) (x : Insn) (h : decode .f35c bs = .ok x) :
    encode x = some (bs.take (Opcodes.length .f35c)) := by
  have hl := decode_ok_length h
  rt6

theorem rt_35ms (bs : List Nat) (hb : AllBytes bs) (x : Insn) (h : decode .f35ms bs = .ok x) :
    encode x = some (bs.take (Opcodes.length .f35ms)) := by
  have hl := decode_ok_length h
  rt6

theorem rt_35mi (bs : List Nat) (hb : AllBytes bs) (x : Insn) (h : decode .f35mi bs = .ok x) :
    encode x = some (bs.take (Opcodes.length .f35mi)) := by
  have hl := decode_ok_length h
  rt6

end AgVerif.Insn
