/-
C20 helper lemmas, part 5: `build_def_use` — the UD dictionary holds, for every use, the prior definition in
the node or `def_to_loc[x] ∩ R[node]`; DU is the inverse of UD.  Core Lean only.
-/
import AgVerif.Proof.ReachDefSpec
namespace AgVerif.ReachDef
open AgVerif.Spec.ReachDef

theorem foldl_dict_mem {β : Type} (f : Dict → β → Dict) (P : β → (Reg × Int) → Int → Prop)
    (hf : ∀ D b k d, d ∈ dictGet (f D b) k ↔ d ∈ dictGet D k ∨ P b k d) (l : List β) (D : Dict)
    (k : Reg × Int) (d : Int) :
    d ∈ dictGet (l.foldl f D) k ↔ d ∈ dictGet D k ∨ ∃ b, b ∈ l ∧ P b k d := by
  induction l generalizing D with
  | nil => simp
  | cons b l ih =>
    simp only [List.foldl_cons, ih, hf, List.mem_cons]
    constructor
    · rintro ((h | h) | ⟨c, hc, h⟩)
      · exact Or.inl h
      · exact Or.inr ⟨b, Or.inl rfl, h⟩
      · exact Or.inr ⟨c, Or.inr hc, h⟩
    · rintro (h | ⟨c, rfl | hc, h⟩)
      · exact Or.inl (Or.inl h)
      · exact Or.inl (Or.inr h)
      · exact Or.inr ⟨c, hc, h⟩

theorem priorDef_fold (i : Int) (ds : List Int) (pd r : Int)
    (hr : ds.foldl (fun pd v => if pd < v ∧ v < i then v else pd) pd = r) :
    (r = pd ∨ (r ∈ ds ∧ r < i)) ∧ pd ≤ r ∧ ∀ d, d ∈ ds → d < i → d ≤ r := by
  induction ds generalizing pd with
  | nil => simp at hr; subst hr; simp
  | cons b l ih =>
    simp only [List.foldl_cons] at hr
    obtain ⟨h1, h2, h3⟩ := ih _ hr
    by_cases hb : pd < b ∧ b < i
    · simp only [hb, and_self, if_true] at h1 h2
      refine ⟨?_, by omega, ?_⟩
      · rcases h1 with h | ⟨h, h'⟩
        · rw [h]; exact Or.inr ⟨List.mem_cons_self .., hb.2⟩
        · exact Or.inr ⟨List.mem_cons_of_mem _ h, h'⟩
      · intro d hd hdi
        rcases List.mem_cons.1 hd with rfl | hd
        · exact h2
        · exact h3 d hd hdi
    · rw [if_neg hb] at h1 h2
      refine ⟨?_, h2, ?_⟩
      · rcases h1 with h | ⟨h, h'⟩
        · exact Or.inl h
        · exact Or.inr ⟨List.mem_cons_of_mem _ h, h'⟩
      · intro d hd hdi
        rcases List.mem_cons.1 hd with rfl | hd
        · have : ¬ pd < d := fun h => hb ⟨h, hdi⟩
          omega
        · exact h3 d hd hdi

/-- the list `build_def_use` appends to `UD[x, i]` for one use of `x` by the statement `i` of node `v` -/
def useDefs (g : Prog) (R : Nat → List Int) (v : Nat) (i : Int) (x : Reg) : List Int :=
  if (defToLoc g x).isEmpty then []
  else if priorDef (defsOfNode g v x) i ≥ 0 then [priorDef (defsOfNode g v x) i]
  else (defToLoc g x).filter (fun d => (R v).contains d)

theorem udVar_mem (g : Prog) (R : Nat → List Int) (v : Nat) (i : Int) (UD : Dict) (x : Reg) (k : Reg × Int)
    (d : Int) :
    d ∈ dictGet (udVar g R v i UD x) k ↔ d ∈ dictGet UD k ∨ ((x, i) = k ∧ d ∈ useDefs g R v i x) := by
  unfold udVar useDefs
  by_cases he : (defToLoc g x).isEmpty = true
  · simp [he]
  · simp only [if_neg he]
    by_cases hp : priorDef (defsOfNode g v x) i ≥ 0
    · simp only [if_pos hp, mem_dictGet_extend]
    · simp only [if_neg hp, mem_dictGet_extend]

theorem buildUD_mem (g : Prog) (R : Nat → List Int) (k : Reg × Int) (d : Int) :
    d ∈ dictGet (buildUD g R) k ↔
      ∃ v, v < nOrig g ∧ ∃ p, p ∈ locIns g v ∧ ∃ x, x ∈ p.2.uses ∧ (x, p.1) = k ∧ d ∈ useDefs g R v p.1 x := by
  have hstmt : ∀ v D (p : Int × Stmt) k d, d ∈ dictGet (udStmt g R v D p) k ↔
      d ∈ dictGet D k ∨ ∃ x, x ∈ p.2.uses ∧ (x, p.1) = k ∧ d ∈ useDefs g R v p.1 x := by
    intro v D p k d
    unfold udStmt
    exact foldl_dict_mem (udVar g R v p.1) (fun x k d => (x, p.1) = k ∧ d ∈ useDefs g R v p.1 x)
      (fun D x k d => udVar_mem g R v p.1 D x k d) p.2.uses D k d
  have hnode : ∀ D v k d, d ∈ dictGet (udNode g R D v) k ↔
      d ∈ dictGet D k ∨ ∃ p, p ∈ locIns g v ∧ ∃ x, x ∈ p.2.uses ∧ (x, p.1) = k ∧ d ∈ useDefs g R v p.1 x := by
    intro D v k d
    unfold udNode
    exact foldl_dict_mem (udStmt g R v)
      (fun p k d => ∃ x, x ∈ p.2.uses ∧ (x, p.1) = k ∧ d ∈ useDefs g R v p.1 x) (hstmt v) (locIns g v) D k d
  unfold buildUD
  rw [foldl_dict_mem (udNode g R)
    (fun v k d => ∃ p, p ∈ locIns g v ∧ ∃ x, x ∈ p.2.uses ∧ (x, p.1) = k ∧ d ∈ useDefs g R v p.1 x) hnode]
  simp only [dictGet, List.not_mem_nil, false_or, List.mem_range]

theorem useDefs_spec (g : Prog) (R : Nat → List Int) (v : Nat) (u : Int) (x : Reg) (d : Int) :
    d ∈ useDefs g R v u x ↔
      (DefinesAt g v d x ∧ d < u ∧ ∀ l, d < l → l < u → ¬ DefinesAt g v l x) ∨
      ((∀ l, l < u → ¬ DefinesAt g v l x) ∧ (x, d) ∈ allDefs g ∧ d ∈ R v) := by
  have hds : ∀ l, l ∈ defsOfNode g v x ↔ DefinesAt g v l x := fun l => by rw [mem_defsOfNode, mem_nodeDefs]
  unfold useDefs
  by_cases he : (defToLoc g x).isEmpty = true
  · have hnil : defToLoc g x = [] := by simpa using he
    have hno : ∀ d, (x, d) ∉ allDefs g := by intro d h; have := mem_defToLoc.2 h; rw [hnil] at this; simp at this
    simp only [he, if_true, List.not_mem_nil, false_iff]
    rintro (⟨h, _⟩ | ⟨_, h, _⟩)
    · exact hno d (mem_allDefs.2 (Or.inr ⟨v, h⟩))
    · exact hno d h
  · simp only [if_neg he]
    obtain ⟨h1, _, h3⟩ := priorDef_fold u (defsOfNode g v x) (-1) (priorDef (defsOfNode g v x) u) rfl
    by_cases hp : priorDef (defsOfNode g v x) u ≥ 0
    · simp only [if_pos hp, List.mem_singleton]
      have hr : priorDef (defsOfNode g v x) u ∈ defsOfNode g v x ∧ priorDef (defsOfNode g v x) u < u := by
        rcases h1 with h | h
        · omega
        · exact h
      constructor
      · rintro rfl
        left
        refine ⟨(hds _).1 hr.1, hr.2, ?_⟩
        intro l hl hlu hdef
        have := h3 l ((hds l).2 hdef) hlu
        omega
      · rintro (⟨hdef, hdu, hbetween⟩ | ⟨hnone, _, _⟩)
        · have hle := h3 d ((hds d).2 hdef) hdu
          by_cases hlt : d < priorDef (defsOfNode g v x) u
          · exact absurd ((hds _).1 hr.1) (hbetween _ hlt hr.2)
          · omega
        · exact absurd ((hds _).1 hr.1) (hnone _ hr.2)
    · simp only [if_neg hp, List.mem_filter, List.contains_eq_mem, decide_eq_true_eq, mem_defToLoc]
      have hr : priorDef (defsOfNode g v x) u = -1 := by
        rcases h1 with h | h
        · exact h
        · have := definesAt_nonneg ((hds _).1 h.1); omega
      have hnone : ∀ l, l < u → ¬ DefinesAt g v l x := by
        intro l hlu hdef
        have := h3 l ((hds l).2 hdef) hlu
        have := definesAt_nonneg hdef
        omega
      constructor
      · rintro ⟨h, hR⟩; exact Or.inr ⟨hnone, h, hR⟩
      · rintro (⟨hdef, hdu, _⟩ | ⟨_, h, hR⟩)
        · exact absurd hdef (hnone d hdu)
        · exact ⟨h, hR⟩

theorem reachesEntry_def {g : Prog} {d : Int} {x : Reg} {v : Nat} (h : ReachesEntry g d x v) :
    (x, d) ∈ allDefs g := by
  obtain ⟨_, _, ⟨m, hm, _⟩ | ⟨hp, _⟩⟩ := h
  · exact mem_allDefs.2 (Or.inr ⟨m, hm.1⟩)
  · exact mem_allDefs.2 (Or.inl hp)

/-! ### DU is the inverse of UD -/

theorem buildDU_mem (UD : Dict) (x : Reg) (d u : Int) :
    u ∈ dictGet (buildDU UD) (x, d) ↔ ∃ e, e ∈ UD ∧ e.1 = (x, u) ∧ d ∈ e.2 := by
  have hinner : ∀ (e : (Reg × Int) × List Int) (l : List Int) (D : Dict) (k : Reg × Int) (u' : Int),
      u' ∈ dictGet (l.foldl (fun DU d => dictExtend DU (e.1.1, d) [e.1.2]) D) k ↔
        u' ∈ dictGet D k ∨ ∃ d', d' ∈ l ∧ ((e.1.1, d') = k ∧ u' = e.1.2) := by
    intro e l D k u'
    exact foldl_dict_mem (fun DU d => dictExtend DU (e.1.1, d) [e.1.2]) (fun d' k u' => (e.1.1, d') = k ∧ u' = e.1.2)
      (fun D b k d => by simp only [mem_dictGet_extend, List.mem_singleton]) l D k u'
  unfold buildDU
  rw [foldl_dict_mem (fun DU e => e.2.foldl (fun DU d => dictExtend DU (e.1.1, d) [e.1.2]) DU)
    (fun e k u' => ∃ d', d' ∈ e.2 ∧ ((e.1.1, d') = k ∧ u' = e.1.2)) (fun D e k u' => hinner e e.2 D k u')]
  simp only [dictGet, List.not_mem_nil, false_or, Prod.mk.injEq]
  constructor
  · rintro ⟨e, he, d', hd', ⟨h1, h2⟩, h3⟩
    subst h2
    exact ⟨e, he, by rw [← h1, h3], hd'⟩
  · rintro ⟨e, he, h1, h2⟩
    exact ⟨e, he, d, h2, ⟨by rw [h1], rfl⟩, by rw [h1]⟩

/-- keys of a dictionary are pairwise distinct -/
def KeysNodup (D : Dict) : Prop := (D.map (·.1)).Nodup

theorem keys_dictExtend (D : Dict) (k : Reg × Int) (vs : List Int) :
    (dictExtend D k vs).map (·.1) = if k ∈ D.map (·.1) then D.map (·.1) else D.map (·.1) ++ [k] := by
  induction D with
  | nil => simp [dictExtend]
  | cons e D ih =>
    obtain ⟨k0, l⟩ := e
    simp only [dictExtend]
    by_cases h0 : k0 = k
    · subst h0; simp
    · simp only [h0, if_false, List.map_cons, ih, List.mem_cons]
      have : ¬ k = k0 := fun h => h0 h.symm
      by_cases hm : k ∈ D.map (·.1)
      · simp [hm]
      · simp [hm, this]

theorem keysNodup_dictExtend {D : Dict} (h : KeysNodup D) (k : Reg × Int) (vs : List Int) :
    KeysNodup (dictExtend D k vs) := by
  unfold KeysNodup at *
  rw [keys_dictExtend]
  split
  · exact h
  · rename_i hk
    rw [List.nodup_append]
    refine ⟨h, by simp, ?_⟩
    intro a ha b hb
    simp only [List.mem_singleton] at hb
    subst hb
    intro hab; subst hab; exact hk ha

theorem foldl_inv {α β : Type} (P : α → Prop) (f : α → β → α) (hf : ∀ a b, P a → P (f a b)) (l : List β) (a : α)
    (h : P a) : P (l.foldl f a) := by
  induction l generalizing a with
  | nil => exact h
  | cons b l ih => exact ih _ (hf a b h)

theorem keysNodup_buildUD (g : Prog) (R : Nat → List Int) : KeysNodup (buildUD g R) := by
  unfold buildUD
  apply foldl_inv KeysNodup
  · intro D v hD
    unfold udNode
    apply foldl_inv KeysNodup _ _ _ _ hD
    intro D p hD
    unfold udStmt
    apply foldl_inv KeysNodup _ _ _ _ hD
    intro D x hD
    unfold udVar
    split
    · exact hD
    · simp only []
      split
      · exact keysNodup_dictExtend hD _ _
      · exact keysNodup_dictExtend hD _ _
  · simp [KeysNodup]

theorem dictGet_entry {D : Dict} (h : KeysNodup D) {e : (Reg × Int) × List Int} (he : e ∈ D) :
    dictGet D e.1 = e.2 := by
  induction D with
  | nil => simp at he
  | cons a D ih =>
    obtain ⟨k0, l⟩ := a
    unfold KeysNodup at h
    simp only [List.map_cons, List.nodup_cons] at h
    rcases List.mem_cons.1 he with rfl | he'
    · simp [dictGet]
    · have hne : ¬ k0 = e.1 := by
        intro hk; apply h.1; rw [hk]; exact List.mem_map.2 ⟨e, he', rfl⟩
      simp only [dictGet, hne, if_false]
      exact ih h.2 he'

theorem dictGet_mem_entry {D : Dict} {k : Reg × Int} {d : Int} (h : d ∈ dictGet D k) :
    ∃ e, e ∈ D ∧ e.1 = k ∧ d ∈ e.2 := by
  induction D with
  | nil => simp [dictGet] at h
  | cons a D ih =>
    obtain ⟨k0, l⟩ := a
    simp only [dictGet] at h
    by_cases hk : k0 = k
    · rw [if_pos hk] at h; exact ⟨(k0, l), List.mem_cons_self .., hk, h⟩
    · rw [if_neg hk] at h
      obtain ⟨e, he, h1, h2⟩ := ih h
      exact ⟨e, List.mem_cons_of_mem _ he, h1, h2⟩

theorem du_inverse_of_nodup {UD : Dict} (h : KeysNodup UD) (x : Reg) (d u : Int) :
    u ∈ dictGet (buildDU UD) (x, d) ↔ d ∈ dictGet UD (x, u) := by
  rw [buildDU_mem]
  constructor
  · rintro ⟨e, he, h1, h2⟩
    rw [← h1, dictGet_entry h he]; exact h2
  · intro hd; exact dictGet_mem_entry hd

end AgVerif.ReachDef
