/-
C05, file level, part 3: the map list, the load order, and the fold of `step` over the ordered
entries; `loadEntries file L.map = ok (tablesCM T L)` and `parseDex file = viewOf (tablesCM T L)`.
-/
import AgVerif.Proof.DexLoadStep
import AgVerif.Proof.LoadOrder
namespace AgVerif.C05
open AgVerif.DexFile AgVerif.LoadOrder
open AgVerif.Spec.DexFile (ushort uint ULeb protoId fieldId methodId classDef typeListBody codeHdr EncClassData)

/-- an entry of item type `t` is among `pre` -/
def has (pre : List MapEntry) (t : Nat) : Bool := pre.any (fun e => e.type == t)

/-- the ClassManager state after the entries `pre` were loaded -/
def cmP (T : Tables) (L : Layout) (pre : List MapEntry) : CM :=
  { strData := if has pre 0x2002 then (tablesCM T L).strData else none
    stringIds := if has pre 0x0001 then (tablesCM T L).stringIds else none
    typeIds := if has pre 0x0002 then (tablesCM T L).typeIds else none
    protoIds := if has pre 0x0003 then (tablesCM T L).protoIds else none
    fieldIds := if has pre 0x0004 then (tablesCM T L).fieldIds else none
    methodIds := if has pre 0x0005 then (tablesCM T L).methodIds else none
    typeLists := if has pre 0x1001 then (tablesCM T L).typeLists else none
    classData := if has pre 0x2000 then (tablesCM T L).classData else none
    codes := if has pre 0x2001 then (tablesCM T L).codes else none
    classDefs := if has pre 0x0006 then (tablesCM T L).classDefs else none }

def key (e : MapEntry) : Nat := (rank Gen.MapDeps.loadOrder e.type).getD 0

theorem sec_of_mem {L : Layout} (hnd : (L.map.map (·.type)).Nodup) {e : MapEntry} (he : e ∈ L.map) :
    L.sec e.type = some e := by
  unfold Layout.sec
  cases hq : L.map.find? (fun x => x.type == e.type) with
  | none =>
    have := List.find?_eq_none.mp hq e he
    simp at this
  | some e' =>
    have h1 : e'.type = e.type := by simpa using List.find?_some hq
    have h2 : e' ∈ L.map := List.mem_of_find?_eq_some hq
    rw [key_inj_of_nodup (·.type) L.map hnd e' h2 e he h1]

theorem has_append (pre : List MapEntry) (e : MapEntry) (t : Nat) :
    has (pre ++ [e]) t = (has pre t || e.type == t) := by
  simp [has, List.any_append]

theorem has_mem {pre : List MapEntry} {e : MapEntry} (h : e ∈ pre) : has pre e.type = true := by
  unfold has
  rw [List.any_eq_true]
  exact ⟨e, h, by simp⟩

/-- `e` is the next entry of the ordered map list, `pre` was loaded before it, `rest` comes after -/
structure Sorted (L : Layout) (pre : List MapEntry) (e : MapEntry) (rest : List MapEntry) : Prop where
  mem : ∀ x ∈ pre ++ e :: rest, x ∈ L.map
  all : ∀ x ∈ L.map, x ∈ pre ++ e :: rest
  le : ∀ x ∈ rest, key e ≤ key x

variable {file : Bytes} {L : Layout} {T : Tables} {pre rest : List MapEntry} {e : MapEntry}

/-- a section of lower rank that is in the map was loaded before `e` -/
theorem dep_loaded (hs : Sorted L pre e rest) {d : Nat} {e1 : MapEntry} (h1 : L.sec d = some e1)
    (hlt : (rank Gen.MapDeps.loadOrder d).getD 0 < key e) : has pre d = true := by
  obtain ⟨ht1, hm1⟩ := sec_some h1
  have hk1 : key e1 = (rank Gen.MapDeps.loadOrder d).getD 0 := by rw [key, ht1]
  rcases List.mem_append.mp (hs.all e1 hm1) with h | h
  · rw [← ht1]; exact has_mem h
  · rcases List.mem_cons.mp h with h | h
    · rw [h] at hk1; omega
    · have := hs.le e1 h; omega

theorem cmP_getD {α} (hs : Sorted L pre e rest) (d : Nat) (items : List (α × Bytes))
    (hlt : (rank Gen.MapDeps.loadOrder d).getD 0 < key e) :
    (if has pre d then (L.sec d).map (fun _ => tab L d items) else none).getD [] = tab L d items := by
  cases hq : L.sec d with
  | none => simp [tab, hq]
  | some e2 => simp [dep_loaded hs hq hlt, tab, hq]

theorem cmP_some {α} (hs : Sorted L pre e rest) (d : Nat) (x : α) (h : (L.sec d).isSome)
    (hlt : (rank Gen.MapDeps.loadOrder d).getD 0 < key e) :
    (if has pre d then (L.sec d).map (fun _ => x) else none) = some x := by
  cases hq : L.sec d with
  | none => simp [hq] at h
  | some e2 => simp [dep_loaded hs hq hlt]

theorem rank_1 : (rank Gen.MapDeps.loadOrder 0x0001).getD 0 = 3 := by decide
theorem rank_2 : (rank Gen.MapDeps.loadOrder 0x0002).getD 0 = 4 := by decide
theorem rank_3 : (rank Gen.MapDeps.loadOrder 0x0003).getD 0 = 7 := by decide
theorem rank_1001 : (rank Gen.MapDeps.loadOrder 0x1001).getD 0 = 6 := by decide
theorem rank_2000 : (rank Gen.MapDeps.loadOrder 0x2000).getD 0 = 11 := by decide
theorem rank_2002 : (rank Gen.MapDeps.loadOrder 0x2002).getD 0 = 2 := by decide

theorem base_cmP (hs : Sorted L pre e rest) (h1 : (L.sec 0x0001).isSome) (h2 : (L.sec 0x0002).isSome)
    (hk : 4 < key e) : Base (cmP T L pre) T L where
  sids := cmP_some hs 0x0001 _ h1 (by rw [rank_1]; omega)
  sdat := cmP_getD hs 0x2002 _ (by rw [rank_2002]; omega)
  tids := cmP_some hs 0x0002 _ h2 (by rw [rank_2]; omega)

theorem sec_of_sorted (henc : Encodes file L T) (hs : Sorted L pre e rest) {t : Nat} (ht : e.type = t) :
    L.sec t = some e := by
  rw [← ht]; exact sec_of_mem henc.nodup (hs.mem e (by simp))

theorem step_cmP_3 (henc : Encodes file L T) (hwf : WF T L) (hs : Sorted L pre e rest) (ht : e.type = 0x0003) :
    step file (cmP T L pre) e = .ok (cmP T L (pre ++ [e])) := by
  have he := sec_of_sorted henc hs ht
  have hk : key e = 7 := by rw [key, ht]; decide
  rw [step_protoIds henc hwf he _ (fun hne => base_cmP hs (hwf.protoSecs hne).1 (hwf.protoSecs hne).2 (by omega))]
  simp [cmP, has_append, ht, tablesCM, he]

theorem step_cmP_2002 (henc : Encodes file L T) (hs : Sorted L pre e rest) (ht : e.type = 0x2002) :
    step file (cmP T L pre) e = .ok (cmP T L (pre ++ [e])) := by
  have he := sec_of_sorted henc hs ht
  rw [step_strData henc he]
  simp [cmP, has_append, ht, tablesCM, he]

theorem step_cmP_1 (henc : Encodes file L T) (hwf : WF T L) (hs : Sorted L pre e rest) (ht : e.type = 0x0001) :
    step file (cmP T L pre) e = .ok (cmP T L (pre ++ [e])) := by
  have he := sec_of_sorted henc hs ht
  rw [step_stringIds henc hwf he]
  simp [cmP, has_append, ht, tablesCM, he]

theorem step_cmP_2 (henc : Encodes file L T) (hwf : WF T L) (hs : Sorted L pre e rest) (ht : e.type = 0x0002) :
    step file (cmP T L pre) e = .ok (cmP T L (pre ++ [e])) := by
  have he := sec_of_sorted henc hs ht
  have hk : key e = 4 := by rw [key, ht]; decide
  rw [step_typeIds henc hwf he _ (fun hne =>
    ⟨T.stringIds, cmP_some hs 0x0001 _ (hwf.typeSecs hne) (by rw [rank_1]; omega)⟩)]
  simp [cmP, has_append, ht, tablesCM, he]

theorem step_cmP_4 (henc : Encodes file L T) (hwf : WF T L) (hs : Sorted L pre e rest) (ht : e.type = 0x0004) :
    step file (cmP T L pre) e = .ok (cmP T L (pre ++ [e])) := by
  have he := sec_of_sorted henc hs ht
  have hk : key e = 5 := by rw [key, ht]; decide
  rw [step_fieldIds henc hwf he _ (fun hne => base_cmP hs (hwf.fieldSecs hne).1 (hwf.fieldSecs hne).2 (by omega))]
  simp [cmP, has_append, ht, tablesCM, he]

theorem step_cmP_1001 (henc : Encodes file L T) (hwf : WF T L) (hs : Sorted L pre e rest) (ht : e.type = 0x1001) :
    step file (cmP T L pre) e = .ok (cmP T L (pre ++ [e])) := by
  have he := sec_of_sorted henc hs ht
  rw [step_typeLists henc hwf he]
  simp [cmP, has_append, ht, tablesCM, he]

theorem step_cmP_5 (henc : Encodes file L T) (hwf : WF T L) (hs : Sorted L pre e rest) (ht : e.type = 0x0005) :
    step file (cmP T L pre) e = .ok (cmP T L (pre ++ [e])) := by
  have he := sec_of_sorted henc hs ht
  have hk : key e = 8 := by rw [key, ht]; decide
  rw [step_methodIds henc hwf he _ (fun hne =>
    ⟨base_cmP hs (hwf.methodSecs hne).1 (hwf.methodSecs hne).2.1 (by omega),
     cmP_getD hs 0x1001 _ (by rw [rank_1001]; omega),
     cmP_some hs 0x0003 _ (hwf.methodSecs hne).2.2 (by rw [rank_3]; omega)⟩)]
  simp [cmP, has_append, ht, tablesCM, he]

theorem step_cmP_2000 (henc : Encodes file L T) (hs : Sorted L pre e rest) (ht : e.type = 0x2000) :
    step file (cmP T L pre) e = .ok (cmP T L (pre ++ [e])) := by
  have he := sec_of_sorted henc hs ht
  rw [step_classData henc he]
  simp [cmP, has_append, ht, tablesCM, he]

theorem step_cmP_2001 (henc : Encodes file L T) (hwf : WF T L) (hs : Sorted L pre e rest) (ht : e.type = 0x2001) :
    step file (cmP T L pre) e = .ok (cmP T L (pre ++ [e])) := by
  have he := sec_of_sorted henc hs ht
  rw [step_codes henc hwf he]
  simp [cmP, has_append, ht, tablesCM, he]

theorem step_cmP_6 (henc : Encodes file L T) (hwf : WF T L) (hs : Sorted L pre e rest) (ht : e.type = 0x0006) :
    step file (cmP T L pre) e = .ok (cmP T L (pre ++ [e])) := by
  have he := sec_of_sorted henc hs ht
  have hk : key e = 19 := by rw [key, ht]; decide
  rw [step_classDefs henc hwf he _ (fun hne =>
    ⟨base_cmP hs (hwf.classSecs hne).1 (hwf.classSecs hne).2 (by omega),
     cmP_getD hs 0x1001 _ (by rw [rank_1001]; omega),
     cmP_getD hs 0x2000 _ (by rw [rank_2000]; omega)⟩)]
  simp [cmP, has_append, ht, tablesCM, he]

/-- an entry of an item type the loader does not look at leaves the state as it is -/
theorem step_cmP_other (h1 : e.type ≠ 0x2002) (h2 : e.type ≠ 0x0001) (h3 : e.type ≠ 0x0002)
    (h4 : e.type ≠ 0x1001) (h5 : e.type ≠ 0x0003) (h6 : e.type ≠ 0x0004) (h7 : e.type ≠ 0x0005)
    (h8 : e.type ≠ 0x2000) (h9 : e.type ≠ 0x2001) (h10 : e.type ≠ 0x0006) :
    step file (cmP T L pre) e = .ok (cmP T L (pre ++ [e])) := by
  simp [step, cmP, has_append, h1, h2, h3, h4, h5, h6, h7, h8, h9, h10]

theorem step_cmP (henc : Encodes file L T) (hwf : WF T L) (hs : Sorted L pre e rest) :
    step file (cmP T L pre) e = .ok (cmP T L (pre ++ [e])) := by
  by_cases h1 : e.type = 0x2002; · exact step_cmP_2002 henc hs h1
  by_cases h2 : e.type = 0x0001; · exact step_cmP_1 henc hwf hs h2
  by_cases h3 : e.type = 0x0002; · exact step_cmP_2 henc hwf hs h3
  by_cases h4 : e.type = 0x1001; · exact step_cmP_1001 henc hwf hs h4
  by_cases h5 : e.type = 0x0003; · exact step_cmP_3 henc hwf hs h5
  by_cases h6 : e.type = 0x0004; · exact step_cmP_4 henc hwf hs h6
  by_cases h7 : e.type = 0x0005; · exact step_cmP_5 henc hwf hs h7
  by_cases h8 : e.type = 0x2000; · exact step_cmP_2000 henc hs h8
  by_cases h9 : e.type = 0x2001; · exact step_cmP_2001 henc hwf hs h9
  by_cases h10 : e.type = 0x0006; · exact step_cmP_6 henc hwf hs h10
  exact step_cmP_other h1 h2 h3 h4 h5 h6 h7 h8 h9 h10

/-- the fold over the ordered entries -/
theorem fold_cmP (henc : Encodes file L T) (hwf : WF T L) :
    ∀ (suf pre : List MapEntry), (∀ x ∈ pre ++ suf, x ∈ L.map) → (∀ x ∈ L.map, x ∈ pre ++ suf) →
      suf.Pairwise (fun a b => key a ≤ key b) →
      foldSteps (step file) (cmP T L pre) suf = .ok (cmP T L (pre ++ suf))
  | [], pre, _, _, _ => by simp [foldSteps]
  | e :: rest, pre, hm, ha, hp => by
    have hs : Sorted L pre e rest := ⟨hm, ha, fun x hx => List.rel_of_pairwise_cons hp hx⟩
    have e1 : pre ++ e :: rest = (pre ++ [e]) ++ rest := by simp
    simp only [foldSteps, step_cmP henc hwf hs]
    rw [e1] at hm ha ⊢
    exact fold_cmP henc hwf rest (pre ++ [e]) hm ha hp.tail

theorem cmP_all (henc : Encodes file L T) (l : List MapEntry) (ha : ∀ x ∈ L.map, x ∈ l) :
    cmP T L l = tablesCM T L := by
  have h : ∀ {α : Type} (d : Nat) (x : α), (if has l d then (L.sec d).map (fun _ => x) else none) = (L.sec d).map (fun _ => x) := by
    intro α d x
    cases hq : L.sec d with
    | none => simp
    | some e2 =>
      obtain ⟨ht, hm⟩ := sec_some hq
      have := has_mem (ha e2 hm)
      rw [ht] at this
      simp [this]
  simp only [cmP, tablesCM, h]

theorem rank_members : ∀ t ∈ Gen.MapDeps.members.map (·.2), (rank Gen.MapDeps.loadOrder t).isSome = true := by
  decide

/-- sections → tables: the loader ends with exactly the state the tables denote -/
theorem loadEntries_tables (henc : Encodes file L T) (hwf : WF T L) :
    loadEntries file L.map = .ok (tablesCM T L) := by
  unfold loadEntries loadWith orderEntries
  have hall : (L.map.all fun e => (rank Gen.MapDeps.loadOrder e.type).isSome) = true := by
    rw [List.all_eq_true]
    exact fun e he => rank_members e.type (henc.members e he)
  rw [if_pos hall]
  have hperm := sortByKey_perm key L.map
  have h0 : ({} : CM) = cmP T L [] := rfl
  show foldSteps (step file) {} (sortByKey key L.map) = _
  rw [h0, fold_cmP henc hwf (sortByKey key L.map) [] (fun x hx => hperm.subset (by simpa using hx))
    (fun x hx => by simpa using hperm.symm.subset hx) (sortByKey_sorted key L.map)]
  rw [List.nil_append, cmP_all henc _ (fun x hx => hperm.symm.subset hx)]

end AgVerif.C05
