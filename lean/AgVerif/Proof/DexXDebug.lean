/-
C05, extension: debug_info_item (Model/DexFileX.lean `decDebugInfo`, `getDebug`).
Format document: uleb128 line_start, uleb128 parameters_size, that many uleb128p1 parameter names, then
the state machine bytecodes — one opcode byte, operands by opcode (DBG_ADVANCE_PC: uleb128;
DBG_ADVANCE_LINE: sleb128; DBG_START_LOCAL: uleb128, uleb128p1 ×2; DBG_START_LOCAL_EXTENDED: uleb128,
uleb128p1 ×3; DBG_END_LOCAL / DBG_RESTART_LOCAL: uleb128; DBG_SET_FILE: uleb128p1; the flag opcodes
and the special opcodes 0x0a..0xff: none) — until DBG_END_SEQUENCE (0x00).
`decDebugInfo_enc`: every such item, with any valid (also padded) LEB128 encodings, is decoded to
what it denotes and the rest of the buffer is left; `getDebug_at`: the same at a file offset.
-/
import AgVerif.Model.DexFileX
import AgVerif.Proof.DexLoad
namespace AgVerif.C05
open AgVerif.DexFile AgVerif.LoadOrder
open AgVerif.Spec.DexFile (ULeb)
open AgVerif.Spec.Leb (IsItem signedValue)

/-- one operand: its kind, the value it denotes, the bytes chosen to write it -/
structure DbgArgEnc where
  kind : DbgKind
  val : Int
  bytes : Bytes

def DbgArgEnc.WF (a : DbgArgEnc) : Prop :=
  match a.kind with
  | .u => ∃ n : Nat, ULeb a.bytes n ∧ a.val = (n : Int)
  | .s => IsItem a.bytes ∧ a.bytes.length ≤ 5 ∧ signedValue a.bytes = some a.val
  | .u1 => ∃ n : Nat, ULeb a.bytes n ∧ a.val = (n : Int) - 1

theorem decDbgArg_enc (a : DbgArgEnc) (rest : Bytes) (h : a.WF) :
    decDbgArg a.kind (a.bytes ++ rest) = some (a.val, rest) := by
  obtain ⟨k, v, bs⟩ := a
  cases k with
  | u =>
    obtain ⟨n, hu, hv⟩ := h
    simp only at hu hv
    simp only [decDbgArg, uleb_enc bs n rest hu, bind, Option.bind, pure, hv]
  | s =>
    obtain ⟨h1, h2, h3⟩ := h
    exact sleb_enc ⟨v, bs⟩ rest ⟨h1, h2, h3⟩
  | u1 =>
    obtain ⟨n, hu, hv⟩ := h
    simp only at hu hv
    simp only [decDbgArg, ulebp1, uleb_enc bs n rest hu, bind, Option.bind, pure, hv]

theorem decDbgArgs_enc : ∀ (args : List DbgArgEnc) (rest : Bytes), (∀ a ∈ args, a.WF) →
    decDbgArgs (args.map (·.kind)) (args.flatMap (·.bytes) ++ rest) = some (args.map (·.val), rest)
  | [], _, _ => rfl
  | a :: as, rest, h => by
    simp only [List.map_cons, List.flatMap_cons, List.append_assoc, decDbgArgs,
      decDbgArg_enc a _ (h a List.mem_cons_self), bind, Option.bind,
      decDbgArgs_enc as rest (fun x hx => h x (List.mem_cons_of_mem _ hx)), pure]

/-- one bytecode other than DBG_END_SEQUENCE -/
structure DbgOpEnc where
  op : Nat
  args : List DbgArgEnc

def DbgOpEnc.WF (o : DbgOpEnc) : Prop :=
  o.op ≠ 0 ∧ o.args.map (·.kind) = dbgKinds o.op ∧ ∀ a ∈ o.args, a.WF

def DbgOpEnc.bytes (o : DbgOpEnc) : Bytes := o.op :: o.args.flatMap (·.bytes)
def DbgOpEnc.denotes (o : DbgOpEnc) : DbgOp := ⟨o.op, o.args.map (·.val)⟩

theorem decDbgOps_enc : ∀ (ops : List DbgOpEnc) (rest : Bytes) (f : Nat), ops.length < f → (∀ o ∈ ops, o.WF) →
    decDbgOps f (ops.flatMap (·.bytes) ++ 0 :: rest) = some (ops.map (·.denotes) ++ [⟨0, []⟩], rest)
  | [], rest, f + 1, _, _ => by simp [decDbgOps]
  | o :: os, rest, f + 1, hf, h => by
    obtain ⟨h0, hk, ha⟩ := h o List.mem_cons_self
    have ih := decDbgOps_enc os rest f (by simp only [List.length_cons] at hf; omega)
      (fun x hx => h x (List.mem_cons_of_mem _ hx))
    have hargs := decDbgArgs_enc o.args (os.flatMap (·.bytes) ++ 0 :: rest) ha
    rw [hk] at hargs
    have e1 : (o :: os).flatMap (·.bytes) ++ 0 :: rest =
        o.op :: (o.args.flatMap (·.bytes) ++ (os.flatMap (·.bytes) ++ 0 :: rest)) := by
      simp only [List.flatMap_cons, List.append_assoc]
      rfl
    rw [e1]
    simp only [decDbgOps, h0, ↓reduceIte, hargs, bind, Option.bind, ih, pure, List.map_cons]
    rfl

theorem ops_length_le (ops : List DbgOpEnc) : ops.length ≤ (ops.flatMap (·.bytes)).length := by
  induction ops with
  | nil => simp
  | cons o os ih =>
    have h1 : 1 ≤ o.bytes.length := by simp [DbgOpEnc.bytes]
    simp only [List.length_cons, List.flatMap_cons, List.length_append]
    omega

/-- a debug_info_item with the writer's encoding choices -/
structure DebugEnc where
  lineItem : Bytes
  line : Nat
  countItem : Bytes
  names : List (Bytes × Nat)        -- uleb128 item and the value it stores (= name index + 1; 0 = no name)
  ops : List DbgOpEnc

def DebugEnc.WF (e : DebugEnc) : Prop :=
  ULeb e.lineItem e.line ∧ ULeb e.countItem e.names.length ∧ (∀ p ∈ e.names, ULeb p.1 p.2) ∧ ∀ o ∈ e.ops, o.WF

def DebugEnc.bytes (e : DebugEnc) : Bytes :=
  e.lineItem ++ e.countItem ++ e.names.flatMap (·.1) ++ e.ops.flatMap (·.bytes) ++ [0]

def DebugEnc.denotes (e : DebugEnc) : DebugInfo :=
  ⟨e.line, e.names.map (fun p => (p.2 : Int) - 1), e.ops.map (·.denotes) ++ [⟨0, []⟩]⟩

/-- the decoder inverts the format document's encoding and leaves the rest of the buffer -/
theorem decDebugInfo_enc (e : DebugEnc) (rest : Bytes) (h : e.WF) :
    decDebugInfo (e.bytes ++ rest) = some (e.denotes, rest) := by
  obtain ⟨h1, h2, h3, h4⟩ := h
  have hn := decN_flat ulebp1 (fun p : Bytes × Nat => p.1) (fun p => (p.2 : Int) - 1) e.names
    (e.ops.flatMap (·.bytes) ++ 0 :: rest)
    (fun p hp r => by simp only [ulebp1, uleb_enc p.1 p.2 r (h3 p hp), bind, Option.bind, pure])
  have ho := decDbgOps_enc e.ops rest ((e.ops.flatMap (·.bytes) ++ 0 :: rest).length + 1)
    (by have := ops_length_le e.ops; simp only [List.length_append, List.length_cons]; omega) h4
  simp only [decDebugInfo, DebugEnc.bytes, List.append_assoc, List.cons_append, List.nil_append,
    uleb_enc _ _ _ h1, uleb_enc _ _ _ h2, bind, Option.bind, hn, ho, pure, DebugEnc.denotes]

/-- file level: the debug info of a method (EncodedMethod.get_debug → ClassManager.get_debug_off) is
    what the item stored at debug_info_off denotes -/
theorem getDebug_at (file : Bytes) (off : Nat) (e : DebugEnc) (h : e.WF) (hat : At file off e.bytes) :
    getDebug file off = some e.denotes := by
  obtain ⟨post, hp⟩ := hat.drop
  simp only [getDebug, hp, decDebugInfo_enc e post h, Option.map_some]

end AgVerif.C05
