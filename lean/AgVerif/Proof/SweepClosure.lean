/-
C02: closure — what the (non-ODEX) sweep yields is a valid program in the sense of `Valid`, and re-assembling the
yielded items gives back exactly the code bytes consumed.
-/
import AgVerif.Proof.SweepAssembled
import AgVerif.Proof.SweepLookup
import AgVerif.Proof.InsnDecValid
set_option linter.unusedSimpArgs false
set_option linter.unusedVariables false
namespace AgVerif.Sweep
open AgVerif.Insn AgVerif.Gen

theorem readInts_range : ∀ (n : Nat) (buf : List Nat) (ts : List Int), AllBytes buf → readInts n buf = some ts →
    ∀ t ∈ ts, -2147483648 ≤ t ∧ t < 2147483648 := by
  intro n
  induction n with
  | zero =>
    intro buf ts _ h
    rw [readInts_zero] at h
    simp only [Option.some.injEq] at h
    subst h
    simp
  | succ n ih =>
    intro buf ts hb h
    rw [readInts_succ] at h
    split at h
    · rename_i v hu
      obtain ⟨b0, b1, b2, b3, r', rfl, hv⟩ := unpack_l_some hu
      simp only [List.cons.injEq, and_true] at hv
      simp only [allBytes_cons] at hb
      obtain ⟨h0, h1, h2, h3, hr'⟩ := hb
      have hvr : -2147483648 ≤ v ∧ v < 2147483648 := by
        rw [hv]; simp only [SC.value, leNat]; omega
      clear hv hu
      simp only [List.drop_succ_cons, List.drop_zero] at h
      split at h
      · rename_i r hr
        simp only [Option.some.injEq] at h
        subst h
        intro t ht
        simp only [List.mem_cons] at ht
        rcases ht with rfl | ht
        · exact hvr
        · exact ih r' r hr' hr t ht
      · simp at h
    · simp at h

theorem all_s32_of {ts : List Int} (h : ∀ t ∈ ts, -2147483648 ≤ t ∧ t < 2147483648) : ts.all s32 = true := by
  apply List.all_eq_true.mpr
  intro t ht
  simpa [s32] using h t ht

/-- the rows of the opcode table name a specification class or `Instruction00x` -/
theorem table_spec_or_00x : ∀ op, op < 256 → ∀ f ∈ Fmt.all, fmtOf op = some f → f = .f00x ∨ (toSpec f).isSome = true := by
  decide +kernel

theorem fmt_mem_all (f : Fmt) : f ∈ Fmt.all := by cases f <;> decide

/-- non-ODEX `build`: an instruction item is of the class the table names for the first byte -/
theorem build_false_insn {buff : List Nat} {f : Fmt} {x : Insn} (hb : AllBytes buff)
    (h : build false buff = some (.insn f x)) :
    ∃ lo rest, buff = lo :: rest ∧ lo < 256 ∧ fmtOf lo = some f ∧ decode f buff = .ok x := by
  have key : ∀ (g : Option Fmt), insnItem g buff = some (.insn f x) → g = some f ∧ decode f buff = .ok x := by
    intro g hg
    unfold insnItem at hg
    split at hg
    · split at hg
      · rename_i f' x' hd
        simp only [Option.some.injEq, Item.insn.injEq] at hg
        obtain ⟨rfl, rfl⟩ := hg
        exact ⟨rfl, hd⟩
      · simp at hg
    · simp at hg
  have nomap : ∀ {α} (o' : Option α) (g : α → Item), (∀ a, g a ≠ .insn f x) → o'.map g ≠ some (.insn f x) := by
    intro α o' g hg
    cases o' with
    | none => simp
    | some a => simp [hg a]
  unfold build at h
  split at h
  · rename_i lo hi rest
    simp only [allBytes_cons] at hb
    obtain ⟨hlo, hhi, _⟩ := hb
    have hmod : (lo + 256 * hi) % 256 = lo := by omega
    simp only [hmod] at h
    refine ⟨lo, hi :: rest, rfl, hlo, ?_⟩
    split at h
    · rename_i hc
      split at h
      · exact absurd h (nomap _ _ (by intro a; simp))
      · split at h
        · exact absurd h (nomap _ _ (by intro a; simp))
        · split at h
          · exact absurd h (nomap _ _ (by intro a; simp))
          · split at h
            · rename_i ho
              simp at ho
            · split at h
              · rename_i hff
                obtain ⟨h1, h2⟩ := key _ h
                subst hff
                exact ⟨h1, h2⟩
              · simp at h
    · exact key _ h
  · simp at h

theorem parsePacked_valid {buff : List Nat} {size : Nat} {fk : Int} {ts : List Int} (hb : AllBytes buff)
    (h : parsePacked buff = some (size, fk, ts)) (hlen : 8 + size * 4 ≤ buff.length) :
    ValidPayload (.packed size fk ts) = true := by
  have hraw := h
  unfold parsePacked at h
  split at h
  · rename_i x size' fk' hu
    have h8 : 8 ≤ buff.length := by omega
    obtain ⟨b0, b1, b2, b3, b4, b5, b6, b7, r, rfl⟩ := ex8 buff h8
    simp only [allBytes_cons] at hb
    obtain ⟨h0, h1, h2, h3, h4, h5, h6, h7, hr⟩ := hb
    simp [unpack, calcsize, SC.size, unpackGo, leNat, SC.value] at hu
    obtain ⟨hx, hs, hf⟩ := hu
    subst hs hf
    simp only [List.drop_succ_cons, List.drop_zero, List.length_cons] at h hlen
    split at h
    · rename_i ts' hrd
      simp only [Option.some.injEq, Prod.mk.injEq] at h
      obtain ⟨hsz, hfk, hts⟩ := h
      subst hts
      have hsz' : ((b2 : Int) + 256 * (b3 : Int)).toNat = b2 + 256 * b3 := by omega
      rw [hsz'] at hsz
      subst hsz
      rw [if_neg (by omega), hsz'] at hrd
      obtain ⟨_, _, hl⟩ := readInts_packInts _ _ _ hr hrd
      have hrg := readInts_range _ _ _ hr hrd
      simp only [ValidPayload, Bool.and_eq_true, decide_eq_true_eq, s32]
      exact ⟨by omega, by omega, hl, all_s32_of hrg⟩
    · simp at h
  · simp at h

theorem parseSparse_valid {buff : List Nat} {size : Nat} {ks ts : List Int} (hb : AllBytes buff)
    (h : parseSparse buff = some (size, ks, ts)) : ValidPayload (.sparse size ks ts) = true := by
  unfold parseSparse at h
  split at h
  · rename_i x size' hu
    have h4 : 4 ≤ buff.length := by
      simp only [unpack, calcsize, SC.size, List.map_cons, List.map_nil, List.sum_cons, List.sum_nil,
        List.length_take] at hu
      split at hu
      · omega
      · simp at hu
    obtain ⟨b0, b1, b2, b3, r, rfl⟩ := ex4 buff h4
    simp only [allBytes_cons] at hb
    obtain ⟨h0, h1, h2, h3, hr⟩ := hb
    simp [unpack, calcsize, SC.size, unpackGo, leNat, SC.value] at hu
    obtain ⟨hx, hs⟩ := hu
    subst hs
    have hsz' : ((b2 : Int) + 256 * (b3 : Int)).toNat = b2 + 256 * b3 := by omega
    rw [hsz'] at h
    split at h
    · rename_i ks' hrk
      split at h
      · rename_i ts' hrt
        simp only [Option.some.injEq, Prod.mk.injEq] at h
        obtain ⟨hsz, hks, hts⟩ := h
        subst hsz hks hts
        have e4 : ∀ n, List.drop (4 + n) (b0 :: b1 :: b2 :: b3 :: r) = List.drop n r := by
          intro n
          rw [show 4 + n = n + 1 + 1 + 1 + 1 by omega]
          simp only [List.drop_succ_cons]
        simp only [List.drop_succ_cons, List.drop_zero] at hrk
        rw [e4] at hrt
        obtain ⟨_, _, hl1⟩ := readInts_packInts _ _ _ hr hrk
        obtain ⟨_, _, hl2⟩ := readInts_packInts _ _ _ (allBytes_drop hr _) hrt
        have hg1 := readInts_range _ _ _ hr hrk
        have hg2 := readInts_range _ _ _ (allBytes_drop hr _) hrt
        simp only [ValidPayload, Bool.and_eq_true, decide_eq_true_eq]
        exact ⟨by omega, hl1, hl2, all_s32_of hg1, all_s32_of hg2⟩
      · simp at h
    · simp at h
  · simp at h

theorem parseFill_valid {buff : List Nat} {w size : Nat} {data : List Nat} (hb : AllBytes buff)
    (h : parseFill buff = some (w, size, data)) (hlen : (Item.fill w size data).length ≤ buff.length) :
    ValidPayload (.fill w size data) = true := by
  unfold parseFill at h
  split at h
  · rename_i x w' size' hu
    have h8 : 8 ≤ buff.length := by
      simp only [unpack, calcsize, SC.size, List.map_cons, List.map_nil, List.sum_cons, List.sum_nil,
        List.length_take] at hu
      split at hu
      · omega
      · simp at hu
    obtain ⟨b0, b1, b2, b3, b4, b5, b6, b7, r, rfl⟩ := ex8 buff h8
    simp only [allBytes_cons] at hb
    obtain ⟨h0, h1, h2, h3, h4, h5, h6, h7, hr⟩ := hb
    simp [unpack, calcsize, SC.size, unpackGo, leNat, SC.value] at hu
    obtain ⟨hx, hw, hs⟩ := hu
    subst hw hs
    simp only [Option.some.injEq, Prod.mk.injEq, List.drop_succ_cons, List.drop_zero] at h
    obtain ⟨hw, hs, hd⟩ := h
    have hw' : ((b2 : Int) + 256 * (b3 : Int)).toNat = b2 + 256 * b3 := by omega
    have hs' : ((b4 : Int) + 256 * ((b5 : Int) + 256 * ((b6 : Int) + 256 * (b7 : Int)))).toNat
        = b4 + 256 * (b5 + 256 * (b6 + 256 * b7)) := by omega
    rw [hw'] at hw
    rw [hs'] at hs
    have hwlt : w < 65536 := by omega
    have hslt : size < 4294967296 := by omega
    have hprod : ((b4 : Int) + 256 * ((b5 : Int) + 256 * ((b6 : Int) + 256 * (b7 : Int)))) * ((b2 : Int) + 256 * (b3 : Int))
        = ((size * w : Nat) : Int) := by
      rw [← hw, ← hs]; simp
    rw [hprod] at hd
    have hl : (if ((size * w : Nat) : Int) % 2 = 1 then ((size * w : Nat) : Int) + 1 else ((size * w : Nat) : Int)).toNat
        = (size * w + 1) / 2 * 2 := by
      split <;> omega
    rw [hl] at hd
    simp only [Item.length, List.length_cons] at hlen
    have hdl : data.length = (size * w + 1) / 2 * 2 := by
      rw [← hd, List.length_take]; omega
    have hdb : AllBytes data := by rw [← hd]; exact allBytes_take hr _
    simp only [ValidPayload, Bool.and_eq_true, decide_eq_true_eq]
    refine ⟨hwlt, hslt, hdl, ?_⟩
    apply List.all_eq_true.mpr
    intro b hbm
    simpa using hdb b hbm
  · simp at h

/-- everything the non-ODEX loop builds inside the buffer is a valid item -/
theorem build_false_valid {buff : List Nat} {it : Item} (hb : AllBytes buff) (h : build false buff = some it)
    (hlen : it.length ≤ buff.length) : ValidItem it = true := by
  have hbuilt := build_built hb h
  cases hbuilt with
  | insn f x hd =>
    obtain ⟨lo, rest, rfl, hlo, hfmt, _⟩ := build_false_insn hb h
    have hspec : (toSpec f).isSome = true := by
      rcases table_spec_or_00x lo hlo f (fmt_mem_all f) hfmt with rfl | hs
      · simp [decode] at hd
      · exact hs
    obtain ⟨hop, hok, hhead⟩ := decode_fieldsOK f hspec _ hb x hd
    simp only [List.head?_cons, Option.some.injEq] at hhead
    have hxf := decode_fmt hd
    simp only [ValidItem, ValidInsn, Bool.and_eq_true, beq_iff_eq, decide_eq_true_eq]
    exact ⟨hxf, hop, by rw [← hhead]; exact hfmt, hok⟩
  | packed size fk ts hp hid => exact parsePacked_valid hb hp (by simpa [Item.length] using hlen)
  | sparse size ks ts hp hid => exact parseSparse_valid hb hp
  | fill w size data hp hid => exact parseFill_valid hb hp hlen

/-- every item a non-ODEX sweep yields is valid: `Valid` is exactly the set of programs the sweep can return -/
theorem sweep_valid (size : Nat) (bs : List Nat) (idx : Nat) (hb : AllBytes bs) :
    Valid ((sweep false size bs idx).1.map Prod.snd) = true := by
  unfold Valid
  apply List.all_eq_true.mpr
  intro it hit
  obtain ⟨p, hp, rfl⟩ := List.mem_map.mp hit
  have h := sweepFrom_sound false bs (maxIdxOf size bs) _ idx (Nat.le_refl _) p hp
  have hmax : maxIdxOf size bs ≤ bs.length := by unfold maxIdxOf; split <;> omega
  exact build_false_valid (allBytes_drop hb _) (step_build h.2.2) (by rw [List.length_drop]; omega)

/-- items laid out contiguously from `idx`, each re-encoding to the bytes at its offset, assemble to the bytes
    `idx … idx + totalLen` -/
theorem assemble_of_layout (bs : List Nat) : ∀ (prog : List Item) (idx : Nat),
    (∀ p ∈ withOffsets idx prog, p.2.raw = some ((bs.drop p.1).take p.2.length)) →
    assemble prog = some ((bs.drop idx).take (totalLen prog)) := by
  intro prog
  induction prog with
  | nil => intro idx _; simp [assemble, totalLen]
  | cons it r ih =>
    intro idx h
    have h1 := h (idx, it) (by simp [withOffsets])
    have h2 := ih (idx + it.length) (fun p hp => h p (by simp [withOffsets, hp]))
    show cat2 it.raw (assemble r) = _
    rw [h1, h2, cat2_some]
    simp only [totalLen, List.take_add, List.drop_drop]

/-- Disassemble-then-assemble: the items of ANY sweep from offset 0 re-assemble to exactly the code bytes the
    sweep consumed (the first `totalLen` bytes). -/
theorem assemble_sweep (odex : Bool) (size : Nat) (bs : List Nat) (hb : AllBytes bs) :
    assemble ((sweep odex size bs 0).1.map Prod.snd) =
      some (bs.take (totalLen ((sweep odex size bs 0).1.map Prod.snd))) := by
  obtain ⟨hlay, _⟩ := sweepFrom_withOffsets odex bs (maxIdxOf size bs) _ 0 (Nat.le_refl _)
  have hmax : maxIdxOf size bs ≤ bs.length := by unfold maxIdxOf; split <;> omega
  have := assemble_of_layout bs ((sweep odex size bs 0).1.map Prod.snd) 0 (by
    intro p hp
    have hp' : p ∈ (sweep odex size bs 0).1 := by
      unfold sweep; rw [hlay]; exact hp
    have h := sweepFrom_sound odex bs (maxIdxOf size bs) _ 0 (Nat.le_refl _) p hp'
    exact step_raw hb hmax h.2.2)
  simpa using this

/-- a sweep that ends normally has consumed the code exactly up to `max_idx` -/
theorem sweepFrom_done_total (odex : Bool) (bs : List Nat) (maxIdx : Nat) :
    ∀ (n idx : Nat), maxIdx - idx ≤ n → idx ≤ maxIdx → (sweepFrom odex bs maxIdx idx).2 = .done →
      idx + totalLen ((sweepFrom odex bs maxIdx idx).1.map Prod.snd) = maxIdx := by
  intro n
  induction n with
  | zero =>
    intro idx hn hle _
    rw [sweepFrom_eq, if_neg (by omega)]
    simp only [List.map_nil, totalLen]; omega
  | succ n ih =>
    intro idx hn hle hd
    rw [sweepFrom_eq] at hd ⊢
    split at hd
    · rename_i hlt
      rw [if_pos hlt]
      split at hd
      · simp at hd
      · rename_i it hs
        simp only [hs]
        have hpos := step_len_pos hs
        have hb := (step_bound hs).1
        have := ih (idx + it.length) (by omega) hb hd
        simp only [List.map_cons, totalLen]; omega
    · rename_i hge
      rw [if_neg hge]
      simp only [List.map_nil, totalLen]; omega

end AgVerif.Sweep
