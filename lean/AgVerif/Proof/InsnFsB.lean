/- C01: field meaning (model view = specification meaning) of the classes 20t 22x 21t 21s 21c 21h -/
import AgVerif.Proof.InsnView
set_option linter.unusedSimpArgs false
set_option linter.unusedVariables false
namespace AgVerif.Insn
open AgVerif.Gen AgVerif.Spec

theorem fs_20t (bs : List Nat) (hb : AllBytes bs) (x : Insn) (h : decode .f20t bs = .ok x)
    (hk : needsKind .f20t = true → ∃ k, kindOf x.op = some k) :
    View.ofInsn x = View.ofMeaning (Dalvik.meaning .f20t x.op (leNat (bs.take (Opcodes.length .f20t)))) ∧
      x.op = Dalvik.bits (leNat (bs.take (Opcodes.length .f20t))) 0 8 := by
  have hl := decode_ok_length h
  obtain ⟨b0, b1, b2, b3, r, rfl⟩ := ex4 _ (by simpa [Opcodes.length] using hl)
  simp only [allBytes_cons] at hb
  obtain ⟨h0, h1, h2, h3, _⟩ := hb
  dec_simp at h
  fs_finish

theorem fs_22x (bs : List Nat) (hb : AllBytes bs) (x : Insn) (h : decode .f22x bs = .ok x)
    (hk : needsKind .f22x = true → ∃ k, kindOf x.op = some k) :
    View.ofInsn x = View.ofMeaning (Dalvik.meaning .f22x x.op (leNat (bs.take (Opcodes.length .f22x)))) ∧
      x.op = Dalvik.bits (leNat (bs.take (Opcodes.length .f22x))) 0 8 := by
  have hl := decode_ok_length h
  obtain ⟨b0, b1, b2, b3, r, rfl⟩ := ex4 _ (by simpa [Opcodes.length] using hl)
  simp only [allBytes_cons] at hb
  obtain ⟨h0, h1, h2, h3, _⟩ := hb
  dec_simp at h
  fs_finish

theorem fs_21t (bs : List Nat) (hb : AllBytes bs) (x : Insn) (h : decode .f21t bs = .ok x)
    (hk : needsKind .f21t = true → ∃ k, kindOf x.op = some k) :
    View.ofInsn x = View.ofMeaning (Dalvik.meaning .f21t x.op (leNat (bs.take (Opcodes.length .f21t)))) ∧
      x.op = Dalvik.bits (leNat (bs.take (Opcodes.length .f21t))) 0 8 := by
  have hl := decode_ok_length h
  obtain ⟨b0, b1, b2, b3, r, rfl⟩ := ex4 _ (by simpa [Opcodes.length] using hl)
  simp only [allBytes_cons] at hb
  obtain ⟨h0, h1, h2, h3, _⟩ := hb
  dec_simp at h
  fs_finish

theorem fs_21s (bs : List Nat) (hb : AllBytes bs) (x : Insn) (h : decode .f21s bs = .ok x)
    (hk : needsKind .f21s = true → ∃ k, kindOf x.op = some k) :
    View.ofInsn x = View.ofMeaning (Dalvik.meaning .f21s x.op (leNat (bs.take (Opcodes.length .f21s)))) ∧
      x.op = Dalvik.bits (leNat (bs.take (Opcodes.length .f21s))) 0 8 := by
  have hl := decode_ok_length h
  obtain ⟨b0, b1, b2, b3, r, rfl⟩ := ex4 _ (by simpa [Opcodes.length] using hl)
  simp only [allBytes_cons] at hb
  obtain ⟨h0, h1, h2, h3, _⟩ := hb
  dec_simp at h
  fs_finish

theorem fs_21c (bs : List Nat) (hb : AllBytes bs) (x : Insn) (h : decode .f21c bs = .ok x)
    (hk : needsKind .f21c = true → ∃ k, kindOf x.op = some k) :
    View.ofInsn x = View.ofMeaning (Dalvik.meaning .f21c x.op (leNat (bs.take (Opcodes.length .f21c)))) ∧
      x.op = Dalvik.bits (leNat (bs.take (Opcodes.length .f21c))) 0 8 := by
  have hl := decode_ok_length h
  obtain ⟨b0, b1, b2, b3, r, rfl⟩ := ex4 _ (by simpa [Opcodes.length] using hl)
  simp only [allBytes_cons] at hb
  obtain ⟨h0, h1, h2, h3, _⟩ := hb
  dec_simp at h
  fs_finish

theorem fs_21h (bs : List Nat) (hb : AllBytes bs) (x : Insn) (h : decode .f21h bs = .ok x)
    (hop : x.op = 0x15 ∨ x.op = 0x19) :
    View.ofInsn x = View.ofMeaning (Dalvik.meaning .f21h x.op (leNat (bs.take (Opcodes.length .f21h)))) ∧
      x.op = Dalvik.bits (leNat (bs.take (Opcodes.length .f21h))) 0 8 := by
  have hl := decode_ok_length h
  obtain ⟨b0, b1, b2, b3, r, rfl⟩ := ex4 _ (by simpa [Opcodes.length] using hl)
  simp only [allBytes_cons] at hb
  obtain ⟨h0, h1, h2, h3, _⟩ := hb
  dec_simp at h
  subst h
  simp only [] at hop
  rcases hop with e | e
  · subst e
    simp [View.ofInsn, View.ofMeaning, Dalvik.meaning, regs, regsOfOperands, operands, lit, literals, off, refOff,
         idx, refKind, idx2, m0, m1, m2, m3, m4, m5, m7, m8, Opcodes.length, leNat, Dalvik.bits, Dalvik.sbits]
    repeat' split
    all_goals omega
  · subst e
    simp [View.ofInsn, View.ofMeaning, Dalvik.meaning, regs, regsOfOperands, operands, lit, literals, off, refOff,
         idx, refKind, idx2, m0, m1, m2, m3, m4, m5, m7, m8, Opcodes.length, leNat, Dalvik.bits, Dalvik.sbits]
    repeat' split
    all_goals omega

end AgVerif.Insn
