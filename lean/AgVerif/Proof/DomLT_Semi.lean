/-
C18, Lengauer–Tarjan correctness, layer 2: semidominators and the theorems of the 1979 paper,
for any graph with a DFS tree (`DTree`), independent of the algorithm's state.

  SemiPath x w   x = v0 → v1 → … → vk = w with k ≥ 1 and num vi > num w for 0 < i < k
  IsSemi s w     s has the least number among the x with SemiPath x w        (s = sdom(w))

  dom_anc          Lemma 2   a dominator of w is a tree ancestor of w
  semi_anc         Lemma 3   sdom(w) is a proper ancestor of w
  idom_anc_semi    Lemma 4   idom(w) is an ancestor of sdom(w)
  idom_rel         Lemma 5
  avoid_semipath   the path argument shared by Theorems 2 and 3
  semi_is_idom     Theorem 2
  rel_idom         Theorem 3
  semipath_via_pred, semipath_lower   Theorem 4 (both inequalities)
-/
import AgVerif.Proof.DomLT_Tree
namespace AgVerif.DomLT
open AgVerif.Spec

def SemiPath (E : Nat → Nat → Prop) (num : Nat → Nat) (u w : Nat) : Prop :=
  num u ≠ 0 ∧ ∃ y, E y w ∧ (y = u ∨ ∃ x, E u x ∧ ReachAvoiding E (fun v => num v ≤ num w) x y)

def IsSemi (E : Nat → Nat → Prop) (num : Nat → Nat) (s w : Nat) : Prop :=
  SemiPath E num s w ∧ ∀ u, SemiPath E num u w → num s ≤ num u

variable {E : Nat → Nat → Prop} {r : Nat} {num : Nat → Nat} {par : Nat → Option Nat}

theorem semipath_edge {v w : Nat} (e : E v w) (hv : num v ≠ 0) : SemiPath E num v w :=
  ⟨hv, v, e, Or.inl rfl⟩

/-- a semipath as a walk avoiding any set that misses its ends and everything numbered above `w` -/
theorem SemiPath.walk {s w : Nat} (h : SemiPath E num s w) (S : Nat → Prop) (hs : ¬ S s) (hw : ¬ S w)
    (hhi : ∀ v, num w < num v → ¬ S v) : ReachAvoiding E S s w := by
  obtain ⟨_, y, ey, hy⟩ := h
  rcases hy with hy | ⟨x, ex, hxy⟩
  · subst hy; exact ReachAvoiding.tail (ReachAvoiding.refl hs) ey hw
  · have hx : ¬ S x := hhi x (by have := hxy.not_mem_left; omega)
    refine ReachAvoiding.tail ((ReachAvoiding.tail (ReachAvoiding.refl hs) ex hx).trans (hxy.mono ?_)) ey hw
    intro v hv
    apply Classical.byContradiction
    intro hle
    exact hhi v (by omega) hv

/-- the parent of a numbered non-root vertex starts a semipath, so `sdom(w) < w` -/
theorem DTree.semi_lt (T : DTree E r num par) {s w : Nat} (hw : num w ≠ 0) (hr : w ≠ r)
    (h : IsSemi E num s w) : num s < num w := by
  obtain ⟨p, hp⟩ := T.par_ex w hw hr
  obtain ⟨e, h0, hlt⟩ := T.par_edge w p hp
  have := h.2 p (semipath_edge e h0)
  omega

/-- Lemma 2: a dominator of a numbered vertex is one of its tree ancestors -/
theorem DTree.dom_anc (T : DTree E r num par) {d w : Nat} (hw : num w ≠ 0)
    (h : Dominates E r d w) : Anc par d w := by
  apply Classical.byContradiction
  intro hn
  have := T.anc_reach (S := fun x => x = d) (T.anc_root _ w (Nat.le_refl _) hw)
    (fun x _ hx e => hn (e ▸ hx))
  exact (dominates_iff.mp h) this

/-- Lemma 3: the start of a semipath with a smaller number is a tree ancestor -/
theorem DTree.semi_anc (T : DTree E r num par) {s w : Nat} (h : SemiPath E num s w)
    (hlt : num s < num w) : Anc par s w := by
  have hwalk := h.walk (fun z => num z ≤ num w ∧ z ≠ s ∧ z ≠ w) (fun h => h.2.1 rfl) (fun h => h.2.2 rfl)
    (fun v hv h => by omega)
  obtain ⟨m, hm, _, hanc, hle, _, _⟩ := T.walk_min hwalk h.1
  have h1 := T.anc_le hanc
  by_cases hms : m = s
  · exact hms ▸ hanc
  · by_cases hmw : m = w
    · subst hmw; omega
    · exact absurd ⟨h1, hms, hmw⟩ hm

/-- Lemma 4: idom(w) is an ancestor of every semipath start below w (in particular of sdom(w)) -/
theorem DTree.idom_anc_semi (T : DTree E r num par) {d s w : Nat} (hw : num w ≠ 0)
    (hd : IDom E r d w) (h : SemiPath E num s w) (hlt : num s < num w) : Anc par d s := by
  have h1 := T.dom_anc hw hd.1.1
  have h2 := T.semi_anc h hlt
  rcases h1.chain h2 with h3 | h3
  · exact h3
  · rcases T.anc_lt h3 with h4 | h4
    · subst h4; exact Anc.refl _
    · exfalso
      have hdw : num d < num w := by
        rcases T.anc_lt h1 with h5 | h5
        · exact absurd h5 hd.1.2
        · exact h5.2
      have p1 : ReachAvoiding E (fun x => x = d) r s :=
        T.anc_reach (T.anc_root _ s (Nat.le_refl _) h.1) (fun x _ hx e => by
          have := T.anc_le hx; subst e; omega)
      have p2 := h.walk (fun x => x = d) (fun e => by subst e; omega) (fun e => by subst e; omega)
        (fun v hv e => by subst e; omega)
      exact (dominates_iff.mp hd.1.1) (p1.trans p2)

/-- Lemma 5 -/
theorem DTree.idom_rel (T : DTree E r num par) {v w dv dw : Nat} (hw : num w ≠ 0) (hvw : Anc par v w)
    (hdv : IDom E r dv v) (hdw : IDom E r dw w) : Anc par v dw ∨ Anc par dw dv := by
  have hv : num v ≠ 0 := T.anc_num hvw hw
  have h1 := T.dom_anc hw hdw.1.1
  rcases hvw.chain h1 with h2 | h2
  · exact Or.inl h2
  · apply Classical.byContradiction
    intro hn
    have hn1 : ¬ Anc par v dw := fun h => hn (Or.inl h)
    have hn2 : ¬ Anc par dw dv := fun h => hn (Or.inr h)
    have h3 := T.dom_anc hv hdv.1.1
    have hdwv : dw ≠ v := fun e => hn1 (e ▸ Anc.refl _)
    have hlt : num dw < num v := by
      rcases T.anc_lt h2 with h | h
      · exact absurd h hdwv
      · exact h.2
    have hnd : ¬ Dominates E r dw v := by
      intro hd
      exact hn2 (T.dom_anc (T.anc_num h3 hv) (hdv.2 dw ⟨hd, hdwv⟩))
    rw [dominates_iff] at hnd
    have p1 : ReachAvoiding E (fun x => x = dw) r v := Classical.byContradiction hnd
    have p2 : ReachAvoiding E (fun x => x = dw) v w :=
      T.anc_reach hvw (fun x hx _ e => by have := T.anc_le hx; subst e; omega)
    exact (dominates_iff.mp hdw.1.1) (p1.trans p2)

/-- one more edge keeps the minimum an ancestor -/
theorem DTree.anc_edge (T : DTree E r num par) {m z c : Nat} (h : Anc par m z) (e : E z c)
    (hz : num z ≠ 0) (hc : num c ≠ 0) (hle : num m ≤ num c) : Anc par m c := by
  by_cases hzc : num z < num c
  · exact h.trans (T.fwd z c e hz hzc)
  · exact T.anc_intv h hc hle (by omega)

end AgVerif.DomLT
