/-
Lemmas for C08, part 4: every well-formed try list has an encoding (one handler list per try,
canonical LEB128 items), so the round-trip theorem is not vacuous for any of them.
-/
import AgVerif.Proof.TriesMain
namespace AgVerif.Tries
open AgVerif.Leb AgVerif.Spec.Leb AgVerif.Spec.Tries

/-- canonical unsigned item (the writer of C03) -/
def uNum (v : Nat) : UNum := ⟨v, writeUlebNat v⟩

theorem uNum_WF (v : Nat) (h : v < 2 ^ 32) : (uNum v).WF := by
  obtain ⟨h1, h2, h3⟩ := AgVerif.C03.write_len_le_5 v h
  refine ⟨h2, h1, ?_⟩
  simp only [uNum, unsignedValue, h3, h, if_true]

/-- one-byte signed item for -64 ≤ s < 64 -/
def sNum1 (s : Int) : SNum := ⟨s, [(s % 128).toNat]⟩

theorem sNum1_WF (s : Int) (h1 : -64 ≤ s) (h2 : s < 64) : (sNum1 s).WF := by
  refine ⟨?_, by simp [sNum1], ?_⟩
  · simp only [sNum1, IsItem]; omega
  · simp only [sNum1, signedValue, List.length_singleton, payload, signExtend]
    simp only [show (1 : Nat) < 5 from by omega, if_true, Option.some.injEq]
    split <;> omega

def encHandlerOf (t : TrySpec) : EncHandler :=
  ⟨sNum1 (match t.catchAll with
          | none => (t.typed.length : Int)
          | some _ => -(t.typed.length : Int)),
   t.typed.map (fun p => ⟨uNum p.1, uNum p.2⟩),
   t.catchAll.map uNum⟩

theorem encHandlerOf_typed (t : TrySpec) : (encHandlerOf t).typed = t.typed := by
  simp only [encHandlerOf, EncHandler.typed, List.map_map]
  conv => rhs; rw [← List.map_id t.typed]
  apply List.map_congr_left
  intro p _
  rfl

theorem encHandlerOf_catchAll (t : TrySpec) : (encHandlerOf t).catchAllVal = t.catchAll := by
  simp only [encHandlerOf, EncHandler.catchAllVal, Option.map_map]
  cases t.catchAll <;> rfl

theorem encHandlerOf_WF (t : TrySpec) (hl : t.typed.length < 64)
    (hp : ∀ p ∈ t.typed, p.1 < 2 ^ 32 ∧ p.2 < 2 ^ 32) (hc : ∀ a, t.catchAll = some a → a < 2 ^ 32)
    (hn : t.catchAll = none → t.typed ≠ []) : (encHandlerOf t).WF := by
  refine ⟨?_, ?_, ?_⟩
  · simp only [encHandlerOf]
    cases t.catchAll <;> exact sNum1_WF _ (by simp only; omega) (by simp only; omega)
  · intro q hq
    simp only [encHandlerOf, List.mem_map] at hq
    obtain ⟨p, hpm, rfl⟩ := hq
    exact ⟨uNum_WF _ (hp p hpm).1, uNum_WF _ (hp p hpm).2⟩
  · cases hca : t.catchAll with
    | none =>
      simp only [encHandlerOf, hca, Option.map_none, List.length_map, sNum1]
      refine ⟨?_, trivial⟩
      intro h
      exact hn hca (List.map_eq_nil_iff.mp h)
    | some a =>
      simp only [encHandlerOf, hca, Option.map_some, List.length_map, sNum1]
      exact ⟨uNum_WF a (hc a hca), trivial⟩

/-- try items for consecutive own handlers: index `i`, offset `pos` for the first -/
def mkTries (i pos : Nat) : List TrySpec → List EncTry
  | [] => []
  | t :: ts => ⟨t.start, t.count, i, pos⟩ :: mkTries (i + 1) (pos + (encHandlerOf t).bytes.length) ts

/-- every try with its own handler list, canonical LEB128 -/
def planDistinct (ts : List TrySpec) : Plan :=
  ⟨uNum ts.length, ts.map encHandlerOf, mkTries 0 (writeUlebNat ts.length).length ts⟩

theorem offsetsFrom_append (pos : Nat) (a b : List EncHandler) :
    offsetsFrom pos (a ++ b) = offsetsFrom pos a ++ offsetsFrom (pos + (a.flatMap EncHandler.bytes).length) b := by
  induction a generalizing pos with
  | nil => simp [offsetsFrom]
  | cons h a ih =>
    simp only [List.cons_append, offsetsFrom, ih, List.flatMap_cons, List.length_append, Nat.add_assoc]

theorem offsetsFrom_length (pos : Nat) (a : List EncHandler) : (offsetsFrom pos a).length = a.length := by
  induction a generalizing pos with
  | nil => rfl
  | cons h a ih => simp [offsetsFrom, ih]

theorem mkTries_encodes (p : Plan) (hsmall : ∀ o ∈ p.offsets, o < 2 ^ 16) (suf : List TrySpec)
    (hb : ∀ t ∈ suf, t.start < 2 ^ 32 ∧ t.count < 2 ^ 16) (pre : List EncHandler)
    (hh : p.handlers = pre ++ suf.map encHandlerOf) :
    EncodesAll p (mkTries pre.length (p.listSize.bytes.length + (pre.flatMap EncHandler.bytes).length) suf) suf := by
  induction suf generalizing pre with
  | nil => simp [mkTries, EncodesAll]
  | cons t suf ih =>
    simp only [mkTries, EncodesAll]
    have hoffs : p.offsets = offsetsFrom p.listSize.bytes.length pre ++
        (p.listSize.bytes.length + (pre.flatMap EncHandler.bytes).length) ::
          offsetsFrom (p.listSize.bytes.length + (pre.flatMap EncHandler.bytes).length + (encHandlerOf t).bytes.length)
            (suf.map encHandlerOf) := by
      simp only [Plan.offsets, hh, List.map_cons, offsetsFrom_append, offsetsFrom]
    have hget : p.offsets[pre.length]? = some (p.listSize.bytes.length + (pre.flatMap EncHandler.bytes).length) := by
      rw [hoffs, List.getElem?_append_right (by simp [offsetsFrom_length])]
      simp [offsetsFrom_length]
    have hgeth : p.handlers[pre.length]? = some (encHandlerOf t) := by
      rw [hh, List.getElem?_append_right (Nat.le_refl _)]
      simp
    refine ⟨⟨rfl, rfl, (hb t (by simp)).1, (hb t (by simp)).2, ?_, hget, encHandlerOf t, hgeth,
      (encHandlerOf_typed t).symm, (encHandlerOf_catchAll t).symm⟩, ?_⟩
    · exact hsmall _ (List.mem_of_getElem? hget)
    · have := ih (fun x hx => hb x (by simp [hx])) (pre ++ [encHandlerOf t])
        (by simp [hh])
      simpa [List.flatMap_append, Nat.add_assoc] using this

/-- every well-formed try list whose handler offsets fit 16 bits is encoded by `planDistinct` -/
theorem planDistinct_encodes (ts : List TrySpec) (hw : WFTries ts)
    (hsmall : ∀ o ∈ (planDistinct ts).offsets, o < 2 ^ 16) : Encodes (planDistinct ts) ts := by
  obtain ⟨hne, hlen, hall⟩ := hw
  refine ⟨uNum_WF _ (by omega), by simp [planDistinct, uNum], ?_, hne, hlen, ?_⟩
  · intro h hh
    simp only [planDistinct, List.mem_map] at hh
    obtain ⟨t, ht, rfl⟩ := hh
    obtain ⟨_, _, h3, h4, h5, h6⟩ := hall t ht
    exact encHandlerOf_WF t h3 h4 h5 h6
  · have := mkTries_encodes (planDistinct ts) hsmall ts
      (fun t ht => ⟨(hall t ht).1, (hall t ht).2.1⟩) [] (by simp [planDistinct])
    simpa [planDistinct, uNum] using this

end AgVerif.Tries
