/-
C04: a FROZEN reference copy of the Java string-literal writer `writer.string()` as verified for C23, so that
C04's String-initialiser theorem does not depend on the tree under test through Gen/JString.lean (a change of
writer.py must not break C04's build: that site does not call writer.string()).
Mechanical copy (namespaces renamed, nothing else) of
  lean/AgVerif/Gen/JString.lean   (the constants as generated from the fixed tree)      -> namespace AgVerif.C04Ref.K
  lean/AgVerif/Model/JavaString.lean, lean/AgVerif/Proof/JavaString.lean                 -> namespace AgVerif.C04Ref
  the proof of AgVerif.C23.literal_denotes                                               -> AgVerif.C04Ref.literal_denotes
The specification it is proved against, AgVerif.Spec.JavaLex (JLS 3.3, 3.10.5, 3.10.7), is imported, not copied.
-/
import AgVerif.Spec.JavaLex
import AgVerif.Proof.Bits
namespace AgVerif.C04Ref.K


def openQuote : List Nat := [34]
def closeQuote : List Nat := [34]
def printLo : Nat := 32
def printHi : Nat := 127
def quote1 : Nat := 39
def quote2 : Nat := 34
def quote3 : Nat := 92
def escPrefix : List Nat := [92]
def asciiHi : Nat := 127
def named : List Nat := [13, 10, 9]
def suppMin : Nat := 65536
def suppSub : Nat := 65536
def hiBase : Nat := 55296
def hiShift : Nat := 10
def loBase : Nat := 56320
def loMask : Nat := 1023
def uPrefix : List Nat := [92, 117]
def shift1 : Nat := 12
def shift2 : Nat := 8
def mask2 : Nat := 15
def shift3 : Nat := 4
def mask3 : Nat := 15
def mask4 : Nat := 15

end AgVerif.C04Ref.K

namespace AgVerif.C04Ref

open AgVerif.C04Ref.K

/-- one lower-case hex digit -/
def hexNib (n : Nat) : Nat := if n < 10 then 0x30 + n else 0x57 + n

/-- Python `'%x' % n` for `n ≥ 0`: lower-case hexadecimal, no padding -/
def hexDigits (n : Nat) : List Nat :=
  if n < 16 then [hexNib n] else hexDigits (n / 16) ++ [hexNib (n % 16)]
termination_by n
decreasing_by omega

/-- Python `c.encode('unicode-escape').decode('ascii')` for an ASCII character `c` (≤ 0x7f):
    `\t \n \r \\` are named escapes, printable characters are themselves, the rest is `\xNN`.
    (`string()` reaches it only for `\r \n \t`.) -/
def pyUnicodeEscape (c : Nat) : List Nat :=
  if c = 0x09 then [0x5c, 0x74]
  else if c = 0x0a then [0x5c, 0x6e]
  else if c = 0x0d then [0x5c, 0x72]
  else if c = 0x5c then [0x5c, 0x5c]
  else if 0x20 ≤ c ∧ c < 0x7f then [c]
  else [0x5c, 0x78, hexNib (c / 16), hexNib (c % 16)]

/-- the four `ret.append` lines: `\u`, `'%x' % (i >> 12)`, and three masked nibbles -/
def uEscape (i : Nat) : List Nat :=
  uPrefix ++ hexDigits (i >>> shift1) ++ hexDigits ((i >>> shift2) &&& mask2)
    ++ hexDigits ((i >>> shift3) &&& mask3) ++ hexDigits (i &&& mask4)

/-- `units`: the tuple the `\u` loop runs over -/
def units (i : Nat) : List Nat :=
  if i ≥ suppMin then
    let j := i - suppSub
    [hiBase + (j >>> hiShift), loBase + (j &&& loMask)]
  else [i]

/-- the body of the `for c in s` loop: what is appended for one character -/
def escChar (c : Nat) : List Nat :=
  if printLo ≤ c ∧ c < printHi then                          -- ' ' <= c < '\x7f'
    if c = quote1 ∨ c = quote2 ∨ c = quote3 then escPrefix ++ [c]   -- ' " \  get a backslash
    else [c]
  else if c ≤ asciiHi ∧ named.contains c = true then         -- elif c <= '\x7f': if c in ('\r', '\n', '\t'):
    pyUnicodeEscape c
  else (units c).flatMap uEscape

/-- `string(s)` -/
def escape (s : List Nat) : List Nat := openQuote ++ s.flatMap escChar ++ closeQuote

/-- `Writer.visit_constant(cst)` for a `str` constant: what is written to the output -/
def visitConstantStr (s : List Nat) : List Nat := escape s

/-- the loop body before the fix (one `\u` escape per code point); kept to state the defect -/
def escCharUnfixed (c : Nat) : List Nat :=
  if 0x20 ≤ c ∧ c < 0x7f then
    if c = 0x27 ∨ c = 0x22 ∨ c = 0x5c then [0x5c, c] else [c]
  else if c ≤ 0x7f ∧ (c = 0x0d ∨ c = 0x0a ∨ c = 0x09) then pyUnicodeEscape c
  else uEscape c

def escapeUnfixed (s : List Nat) : List Nat := [0x22] ++ s.flatMap escCharUnfixed ++ [0x22]


open AgVerif.Spec.JavaLex AgVerif.Bits



/-! ### the generated literals of `string()` (re-checked whenever the code's literals change) -/

open AgVerif.C04Ref.K in
theorem uEscape_def (i : Nat) : uEscape i = [0x5c, 0x75] ++ hexDigits (i >>> 12) ++ hexDigits ((i >>> 8) &&& 0x0F)
    ++ hexDigits ((i >>> 4) &&& 0x0F) ++ hexDigits (i &&& 0x0F) := rfl

theorem units_def (i : Nat) : units i =
    if i ≥ 0x10000 then [0xD800 + ((i - 0x10000) >>> 10), 0xDC00 + ((i - 0x10000) &&& 0x3FF)] else [i] := rfl

open AgVerif.C04Ref.K in
theorem named_iff (c : Nat) : named.contains c = true ↔ (c = 0x0d ∨ c = 0x0a ∨ c = 0x09) := by
  simp [named]

open AgVerif.C04Ref.K in
theorem escChar_def (c : Nat) : escChar c =
    if 0x20 ≤ c ∧ c < 0x7f then
      if c = 0x27 ∨ c = 0x22 ∨ c = 0x5c then [0x5c, c] else [c]
    else if c ≤ 0x7f ∧ (c = 0x0d ∨ c = 0x0a ∨ c = 0x09) then pyUnicodeEscape c
    else (units c).flatMap uEscape := by
  unfold escChar
  simp only [named_iff]
  rfl

theorem escape_def (s : List Nat) : escape s = [0x22] ++ s.flatMap escChar ++ [0x22] := rfl

/-! ### hexadecimal digits -/

theorem hexDigits_lt16 (n : Nat) (h : n < 16) : hexDigits n = [hexNib n] := by
  rw [hexDigits]; simp [h]

theorem and_0F (x : Nat) : x &&& 0x0F = x % 16 := by
  simpa using and_mask x 4

theorem and_3FF (x : Nat) : x &&& 0x3FF = x % 1024 := by
  simpa using and_mask x 10

/-- for a UTF-16 unit the four appends are four hex digits -/
theorem uEscape_unit (u : Nat) (h : u < 0x10000) :
    uEscape u = [0x5c, 0x75, hexNib (u / 4096), hexNib (u / 256 % 16), hexNib (u / 16 % 16), hexNib (u % 16)] := by
  rw [uEscape_def]
  simp only [Nat.shiftRight_eq_div_pow, and_0F]
  rw [hexDigits_lt16 _ (by omega : u / 2 ^ 12 < 16), hexDigits_lt16 _ (Nat.mod_lt _ (by omega)),
    hexDigits_lt16 _ (Nat.mod_lt _ (by omega)), hexDigits_lt16 _ (Nat.mod_lt _ (by omega))]
  simp

theorem hexVal_hexNib (a : Nat) (h : a < 16) : hexVal (hexNib a) = some a := by
  unfold hexVal hexNib
  by_cases h10 : a < 10
  · simp only [h10, if_true]
    rw [if_pos (by omega)]; congr 1; omega
  · simp only [h10, if_false]
    rw [if_neg (by omega), if_pos (by omega)]; congr 1; omega

theorem hexNib_ne_u (a : Nat) (h : a < 16) : hexNib a ≠ LOWER_U := by
  unfold hexNib LOWER_U; split <;> omega

/-! ### model units = specification units -/

theorem units_eq_utf16Char (c : Nat) : units c = utf16Char c := by
  rw [units_def]; unfold utf16Char
  by_cases h : c < 0x10000
  · have : ¬ c ≥ 0x10000 := by omega
    simp [h, this]
  · have : c ≥ 0x10000 := by omega
    simp only [h, this, if_true, if_false, Nat.shiftRight_eq_div_pow, and_3FF]

theorem utf16Char_lt (c : Nat) (h : IsCodePoint c) : ∀ u ∈ utf16Char c, u < 0x10000 := by
  unfold IsCodePoint at h
  unfold utf16Char
  split
  · simp; omega
  · simp; omega

/-! ### stage 1: §3.3 translation of what the escaper emits -/

/-- a `\uXXXX` written with `hexNib` digits translates to its unit and leaves the count even -/
theorem translate_uEscape (u : Nat) (h : u < 0x10000) (r : List Nat) :
    translate (.norm true) (uEscape u ++ r) = (translate (.norm true) r).map (u :: ·) := by
  rw [uEscape_unit u h]
  have ha : u / 4096 < 16 := by omega
  have hb : u / 256 % 16 < 16 := Nat.mod_lt _ (by omega)
  have hc : u / 16 % 16 < 16 := Nat.mod_lt _ (by omega)
  have hd : u % 16 < 16 := Nat.mod_lt _ (by omega)
  have e : (((u / 4096) * 16 + u / 256 % 16) * 16 + u / 16 % 16) * 16 + u % 16 = u := by omega
  simp only [List.cons_append, List.nil_append, translate, hexVal_hexNib _ ha, hexVal_hexNib _ hb,
    hexVal_hexNib _ hc, hexVal_hexNib _ hd, hexNib_ne_u _ ha, if_false, if_true]
  simp [BACKSLASH, LOWER_U, e]

/-- what one character of the original string has become after §3.3 -/
def escCharT (c : Nat) : List Nat :=
  if 0x20 ≤ c ∧ c < 0x7f then
    if c = 0x27 ∨ c = 0x22 ∨ c = 0x5c then [0x5c, c] else [c]
  else if c ≤ 0x7f ∧ (c = 0x0d ∨ c = 0x0a ∨ c = 0x09) then pyUnicodeEscape c
  else utf16Char c

theorem translate_units (us r : List Nat) (h : ∀ u ∈ us, u < 0x10000) :
    translate (.norm true) (us.flatMap uEscape ++ r) = (translate (.norm true) r).map (us ++ ·) := by
  induction us with
  | nil => simp
  | cons u t ih =>
    have hu : u < 0x10000 := h u (by simp)
    have ht : ∀ v ∈ t, v < 0x10000 := fun v hv => h v (by simp [hv])
    simp only [List.flatMap_cons, List.append_assoc]
    rw [translate_uEscape u hu, ih ht]
    cases translate (.norm true) r <;> simp

theorem translate_escChar (c : Nat) (hc : IsCodePoint c) (r : List Nat) :
    translate (.norm true) (escChar c ++ r) = (translate (.norm true) r).map (escCharT c ++ ·) := by
  rw [escChar_def]; unfold escCharT
  by_cases h1 : 0x20 ≤ c ∧ c < 0x7f
  · simp only [h1, and_self, if_true]
    by_cases h2 : c = 0x27 ∨ c = 0x22 ∨ c = 0x5c
    · simp only [h2, if_true]
      rcases h2 with h | h | h <;> subst h <;>
        simp [translate, BACKSLASH, LOWER_U] <;> cases translate (.norm true) r <;> simp
    · simp only [h2, if_false]
      have : c ≠ BACKSLASH := by unfold BACKSLASH; omega
      simp [translate, this]
  · simp only [h1, if_false]
    by_cases h2 : c ≤ 0x7f ∧ (c = 0x0d ∨ c = 0x0a ∨ c = 0x09)
    · simp only [h2, and_self, if_true]
      rcases h2.2 with h | h | h <;> subst h <;>
        simp [pyUnicodeEscape, translate, BACKSLASH, LOWER_U] <;> cases translate (.norm true) r <;> simp
    · simp only [h2, if_false]
      rw [units_eq_utf16Char]
      exact translate_units _ r (utf16Char_lt c hc)

theorem translate_body (s r : List Nat) (hs : ∀ c ∈ s, IsCodePoint c) :
    translate (.norm true) (s.flatMap escChar ++ r)
      = (translate (.norm true) r).map (s.flatMap escCharT ++ ·) := by
  induction s with
  | nil => simp
  | cons c t ih =>
    have hc := hs c (by simp)
    have ht : ∀ v ∈ t, IsCodePoint v := fun v hv => hs v (by simp [hv])
    simp only [List.flatMap_cons, List.append_assoc]
    rw [translate_escChar c hc, ih ht]
    cases translate (.norm true) r <;> simp

/-! ### stage 2: §3.10.5/§3.10.7 reading of the translated characters -/

theorem strChars_plain (c : Nat) (r : List Nat) (h1 : c ≠ DQUOTE) (h2 : c ≠ CR) (h3 : c ≠ LF)
    (h4 : c ≠ BACKSLASH) :
    strCharsFrom 0 (c :: r) = (strCharsFrom 0 r).map (fun p => (c :: p.1, p.2)) := by
  simp [strCharsFrom, h1, h2, h3, h4]

theorem strChars_simple (e v : Nat) (r : List Nat) (h : simpleEscape e = some v) :
    strCharsFrom 0 (BACKSLASH :: e :: r) = (strCharsFrom 0 r).map (fun p => (v :: p.1, p.2)) := by
  simp [strCharsFrom, escapeSeq, h, BACKSLASH, DQUOTE, CR, LF]

theorem strChars_units (us r : List Nat)
    (h : ∀ u ∈ us, u ≠ DQUOTE ∧ u ≠ CR ∧ u ≠ LF ∧ u ≠ BACKSLASH) :
    strCharsFrom 0 (us ++ r) = (strCharsFrom 0 r).map (fun p => (us ++ p.1, p.2)) := by
  induction us with
  | nil => simp
  | cons u t ih =>
    have hu := h u (by simp)
    have ht : ∀ v ∈ t, v ≠ DQUOTE ∧ v ≠ CR ∧ v ≠ LF ∧ v ≠ BACKSLASH := fun v hv => h v (by simp [hv])
    simp only [List.cons_append]
    rw [strChars_plain u _ hu.1 hu.2.1 hu.2.2.1 hu.2.2.2, ih ht]
    cases strCharsFrom 0 r <;> simp

theorem strChars_escCharT (c : Nat) (r : List Nat) :
    strCharsFrom 0 (escCharT c ++ r) = (strCharsFrom 0 r).map (fun p => (utf16Char c ++ p.1, p.2)) := by
  unfold escCharT
  by_cases h1 : 0x20 ≤ c ∧ c < 0x7f
  · have hu : utf16Char c = [c] := by unfold utf16Char; rw [if_pos (by omega)]
    simp only [h1, and_self, if_true, hu]
    by_cases h2 : c = 0x27 ∨ c = 0x22 ∨ c = 0x5c
    · simp only [h2, if_true]
      have hs : simpleEscape c = some c := by
        rcases h2 with h | h | h <;> subst h <;> simp [simpleEscape, DQUOTE, SQUOTE, BACKSLASH]
      exact strChars_simple c c r hs
    · simp only [h2, if_false]
      exact strChars_plain c r (by unfold DQUOTE; omega) (by unfold CR; omega) (by unfold LF; omega)
        (by unfold BACKSLASH; omega)
  · simp only [h1, if_false]
    by_cases h2 : c ≤ 0x7f ∧ (c = 0x0d ∨ c = 0x0a ∨ c = 0x09)
    · simp only [h2, and_self, if_true]
      rcases h2.2 with h | h | h <;> subst h
      · exact strChars_simple 0x72 0x0d r (by simp [simpleEscape])
      · exact strChars_simple 0x6e 0x0a r (by simp [simpleEscape])
      · exact strChars_simple 0x74 0x09 r (by simp [simpleEscape])
    · simp only [h2, if_false]
      apply strChars_units
      intro u hu
      unfold utf16Char at hu
      unfold DQUOTE CR LF BACKSLASH
      split at hu
      · simp only [List.mem_cons, List.not_mem_nil, or_false] at hu; omega
      · simp only [List.mem_cons, List.not_mem_nil, or_false] at hu
        rcases hu with hu | hu <;> omega

theorem strChars_body (s r : List Nat) :
    strCharsFrom 0 (s.flatMap escCharT ++ r) = (strCharsFrom 0 r).map (fun p => (utf16 s ++ p.1, p.2)) := by
  induction s with
  | nil => simp [utf16]
  | cons c t ih =>
    simp only [List.flatMap_cons, List.append_assoc, utf16]
    rw [strChars_escCharT, ih]
    cases strCharsFrom 0 r <;> simp [utf16]

/-! ### both stages, with arbitrary following source text -/

theorem lex_escape_append (s rest : List Nat) (hs : ∀ c ∈ s, IsCodePoint c) :
    javaLexPrefix (escape s ++ rest) = (unicodeTranslate rest).map (fun t => (utf16 s, t)) := by
  rw [escape_def]
  unfold javaLexPrefix unicodeTranslate
  have e : [0x22] ++ s.flatMap escChar ++ [0x22] ++ rest
      = 0x22 :: (s.flatMap escChar ++ (0x22 :: rest)) := by simp
  rw [e]
  have h0 : translate (.norm true) (0x22 :: (s.flatMap escChar ++ (0x22 :: rest)))
      = (translate (.norm true) (s.flatMap escChar ++ (0x22 :: rest))).map (0x22 :: ·) := by
    simp [translate, BACKSLASH]
  have h1 : translate (.norm true) (0x22 :: rest) = (translate (.norm true) rest).map (0x22 :: ·) := by
    simp [translate, BACKSLASH]
  rw [h0, translate_body s _ hs, h1]
  cases translate (.norm true) rest with
  | none => simp
  | some t =>
    simp only [Option.map_some, stringLiteral, DQUOTE, if_true, strChars]
    have := strChars_body s (0x22 :: t)
    simp only [strCharsFrom, DQUOTE, if_true, Option.map_some, List.append_nil] at this
    simpa using this

/-! ### the literal is plain ASCII -/

theorem hexNib_lt (a : Nat) (h : a < 16) : hexNib a < 0x80 := by
  unfold hexNib; split <;> omega

theorem escChar_ascii (c : Nat) (hc : IsCodePoint c) : ∀ x ∈ escChar c, x < 0x80 := by
  rw [escChar_def]
  by_cases h1 : 0x20 ≤ c ∧ c < 0x7f
  · simp only [h1, and_self, if_true]
    split <;> simp <;> omega
  · simp only [h1, if_false]
    by_cases h2 : c ≤ 0x7f ∧ (c = 0x0d ∨ c = 0x0a ∨ c = 0x09)
    · simp only [h2, and_self, if_true]
      rcases h2.2 with h | h | h <;> subst h <;> simp [pyUnicodeEscape]
    · simp only [h2, if_false]
      rw [units_eq_utf16Char]
      intro x hx
      rw [List.mem_flatMap] at hx
      obtain ⟨u, hu, hx⟩ := hx
      have hu' := utf16Char_lt c hc u hu
      rw [uEscape_unit u hu'] at hx
      have ha : u / 4096 < 16 := by omega
      have := hexNib_lt _ ha
      have := hexNib_lt _ (Nat.mod_lt (u / 256) (by omega : 16 > 0))
      have := hexNib_lt _ (Nat.mod_lt (u / 16) (by omega : 16 > 0))
      have := hexNib_lt _ (Nat.mod_lt u (by omega : 16 > 0))
      simp only [List.mem_cons, List.not_mem_nil, or_false] at hx
      rcases hx with h | h | h | h | h | h <;> omega

theorem escape_ascii' (s : List Nat) (hs : ∀ c ∈ s, IsCodePoint c) : ∀ x ∈ escape s, x < 0x80 := by
  intro x hx
  rw [escape_def] at hx
  simp only [List.mem_append, List.mem_cons, List.not_mem_nil, or_false, List.mem_flatMap] at hx
  rcases hx with (h | ⟨c, hc, hx⟩) | h
  · omega
  · exact escChar_ascii c (hs c hc) x hx
  · omega

theorem utf16_of_bmp (l : List Nat) (h : ∀ x ∈ l, x < 0x10000) : utf16 l = l := by
  induction l with
  | nil => rfl
  | cons a t ih =>
    have ha := h a (by simp)
    have ht : ∀ x ∈ t, x < 0x10000 := fun x hx => h x (by simp [hx])
    have := ih ht
    unfold utf16 at this ⊢
    simp [utf16Char, ha, this]


theorem literal_denotes (s : List Nat) (hs : ∀ c ∈ s, IsCodePoint c) :
    javaLex (utf16 (escape s)) = some (utf16 s) := by
  have ha := escape_ascii' s hs
  rw [utf16_of_bmp _ (fun x hx => by have := ha x hx; omega)]
  have h := lex_escape_append s [] hs
  simp only [List.append_nil, unicodeTranslate, translate, Option.map_some] at h
  unfold javaLexPrefix at h
  unfold javaLex
  cases ht : unicodeTranslate (escape s) with
  | none => rw [ht] at h; simp at h
  | some t => rw [ht] at h; simp only at h ⊢; rw [h]

end AgVerif.C04Ref
