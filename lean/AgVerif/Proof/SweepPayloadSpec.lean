/-
C02: the model's payload codec (`Item.raw`, `build`) against the independent layout Spec/DalvikPayload.lean.
-/
import AgVerif.Proof.SweepAssembled
import AgVerif.Spec.DalvikPayload
set_option linter.unusedSimpArgs false
set_option linter.unusedVariables false
namespace AgVerif.Sweep
open AgVerif.Insn AgVerif.Gen AgVerif.Spec
open AgVerif.Spec.DalvikPayload (Payload payloadBytes WellFormed PaddingOK ushort uint)

/-- the specification payload a payload item denotes, and its padding bytes (`none` for instructions) -/
def payloadOf : Item → Option (Payload × List Nat)
  | .insn _ _ => none
  | .packed _ fk ts => some (.packedSwitch fk ts, [])
  | .sparse _ ks ts => some (.sparseSwitch ks ts, [])
  | .fill w size data => some (.fillArrayData w size (data.take (size * w)), data.drop (size * w))

/-- the item the classes build for a specification payload followed by `pad` -/
def itemOf (pad : List Nat) : Payload → Item
  | .packedSwitch fk ts => .packed ts.length fk ts
  | .sparseSwitch ks ts => .sparse ks.length ks ts
  | .fillArrayData w size data => .fill w size (data ++ pad)

theorem leBytes2_ushort (n : Nat) (h : n < 65536) : leBytes 2 (n : Int) = ushort n := by
  simp only [leBytes, leBytesFrom, ushort, Int.reduceMul, Int.ediv_one, List.cons.injEq, and_true]
  omega

theorem leBytes4_uint (n : Nat) (h : n < 4294967296) : leBytes 4 (n : Int) = uint n := by
  simp only [leBytes, leBytesFrom, uint, Int.reduceMul, Int.ediv_one, List.cons.injEq, and_true]
  omega

theorem leBytes4_int (v : Int) (h : -2147483648 ≤ v ∧ v < 2147483648) : leBytes 4 v = DalvikPayload.int v := by
  simp only [leBytes, leBytesFrom, DalvikPayload.int, uint, Int.reduceMul, Int.ediv_one, List.cons.injEq, and_true]
  split <;> omega

theorem packInts_spec : ∀ (ts : List Int), (∀ t ∈ ts, -2147483648 ≤ t ∧ t < 2147483648) →
    packInts ts = some (ts.flatMap DalvikPayload.int) := by
  intro ts
  induction ts with
  | nil => intro _; exact packInts_nil
  | cons t ts ih =>
    intro h
    have ht := h t List.mem_cons_self
    rw [packInts_cons, pack_l ht, ih (fun t' ht' => h t' (List.mem_cons_of_mem _ ht')), leBytes4_int t ht]
    simp [List.flatMap_cons]

theorem all_lt_256 {data : List Nat} (h : data.all (fun b => decide (b < 256)) = true) : ∀ b ∈ data, b < 256 := by
  intro b hb
  simpa using List.all_eq_true.mp h b hb

/-- `get_raw()` of every well-formed payload item is the byte layout of the specification document, the item
    denotes a well-formed specification payload, and `get_length()` is the document's number of code units -/
theorem payload_raw_eq_spec_all (it : Item) (hv : ValidPayload it = true) :
    ∃ p pad, payloadOf it = some (p, pad) ∧ WellFormed p ∧ PaddingOK p pad ∧
      it.raw = some (payloadBytes pad p) ∧ it.length = 2 * DalvikPayload.units p := by
  cases it with
  | insn f x => simp [ValidPayload] at hv
  | packed size fk ts =>
    simp only [ValidPayload, Bool.and_eq_true, decide_eq_true_eq, s32] at hv
    obtain ⟨hsz, hfk, hlen, hts⟩ := hv
    refine ⟨_, _, rfl, ⟨by omega, hfk, all_s32 hts⟩, rfl, ?_, ?_⟩
    · rw [raw_packed, packInts_spec ts (all_s32 hts), pack_HHi (by omega) (by omega) hfk, cat2_some,
        leBytes4_int fk hfk, leBytes2_ushort size hsz]
      have : leBytes 2 (256 : Int) = ushort 256 := leBytes2_ushort 256 (by omega)
      rw [this, ← hlen]
      simp [payloadBytes]
    · simp only [Item.length, DalvikPayload.units]; omega
  | sparse size ks ts =>
    simp only [ValidPayload, Bool.and_eq_true, decide_eq_true_eq] at hv
    obtain ⟨hsz, hkl, htl, hks, hts⟩ := hv
    refine ⟨_, _, rfl, ⟨by omega, by omega, all_s32 hks, all_s32 hts⟩, rfl, ?_, ?_⟩
    · rw [raw_sparse, packInts_spec ks (all_s32 hks), packInts_spec ts (all_s32 hts),
        pack_HH (by omega) (by omega), cat2_some, cat2_some, leBytes2_ushort size hsz]
      have : leBytes 2 (512 : Int) = ushort 512 := leBytes2_ushort 512 (by omega)
      rw [this, ← hkl]
      simp [payloadBytes]
    · simp only [Item.length, DalvikPayload.units]; omega
  | fill w size data =>
    simp only [ValidPayload, Bool.and_eq_true, decide_eq_true_eq] at hv
    obtain ⟨hw, hsz, hlen, hdata⟩ := hv
    have hb := all_lt_256 hdata
    refine ⟨_, _, rfl, ⟨hw, hsz, ?_, ?_⟩, ⟨?_, ?_⟩, ?_, ?_⟩
    · rw [List.length_take]; omega
    · intro b hbm; exact hb b (List.mem_of_mem_take hbm)
    · rw [List.length_drop, List.length_take]; omega
    · intro b hbm; exact hb b (List.mem_of_mem_drop hbm)
    · rw [raw_fill, pack_HHI (by omega) (by omega) (by omega), cat2_some, leBytes2_ushort w hw,
        leBytes4_uint size hsz]
      have : leBytes 2 (768 : Int) = ushort 768 := leBytes2_ushort 768 (by omega)
      rw [this]
      simp [payloadBytes, List.take_append_drop]
    · simp only [Item.length, DalvikPayload.units]; omega

theorem valid_itemOf (p : Payload) (pad : List Nat) (hw : WellFormed p) (hp : PaddingOK p pad) :
    ValidPayload (itemOf pad p) = true ∧ payloadOf (itemOf pad p) = some (p, pad) := by
  cases p with
  | packedSwitch fk ts =>
    obtain ⟨h1, h2, h3⟩ := hw
    simp only [PaddingOK] at hp
    subst hp
    refine ⟨?_, rfl⟩
    simp only [itemOf, ValidPayload, Bool.and_eq_true, decide_eq_true_eq, s32, List.all_eq_true]
    exact ⟨h1, h2, trivial, fun t ht => by simpa [DalvikPayload.isInt] using h3 t ht⟩
  | sparseSwitch ks ts =>
    obtain ⟨h1, h2, h3, h4⟩ := hw
    simp only [PaddingOK] at hp
    subst hp
    refine ⟨?_, rfl⟩
    simp only [itemOf, ValidPayload, Bool.and_eq_true, decide_eq_true_eq, s32, List.all_eq_true]
    exact ⟨h1, trivial, h2, fun t ht => by simpa [DalvikPayload.isInt] using h3 t ht,
      fun t ht => by simpa [DalvikPayload.isInt] using h4 t ht⟩
  | fillArrayData w size data =>
    obtain ⟨h1, h2, h3, h4⟩ := hw
    obtain ⟨hp1, hp2⟩ := hp
    refine ⟨?_, ?_⟩
    · simp only [itemOf, ValidPayload, Bool.and_eq_true, decide_eq_true_eq, List.all_eq_true, List.length_append,
        List.mem_append]
      refine ⟨h1, h2, by omega, ?_⟩
      intro b hb
      rcases hb with hb | hb
      · exact h4 b hb
      · exact hp2 b hb
    · simp only [itemOf, payloadOf]
      rw [← h3, List.take_left', List.drop_left'] <;> rfl

/-- the classes decode the specification's bytes: for EVERY well-formed specification payload and admissible padding,
    one loop iteration on `payloadBytes pad p` followed by anything builds the item with exactly the payload's
    contents -/
theorem spec_payload_decodes_all (p : Payload) (pad : List Nat) (hw : WellFormed p) (hp : PaddingOK p pad)
    (rest : List Nat) :
    build false (payloadBytes pad p ++ rest) = some (itemOf pad p) ∧
      (itemOf pad p).length = 2 * DalvikPayload.units p ∧ (payloadBytes pad p).length = 2 * DalvikPayload.units p := by
  obtain ⟨hv, hpo⟩ := valid_itemOf p pad hw hp
  obtain ⟨p', pad', hpo', _, _, hraw, hlen⟩ := payload_raw_eq_spec_all (itemOf pad p) hv
  rw [hpo] at hpo'
  simp only [Option.some.injEq, Prod.mk.injEq] at hpo'
  obtain ⟨rfl, rfl⟩ := hpo'
  have hvi : ValidItem (itemOf pad p) = true := by
    cases p <;> simpa [ValidItem, itemOf] using hv
  obtain ⟨bytes, hr, hbl, _, _, hbuild⟩ := build_raw (itemOf pad p) hvi
  rw [hraw] at hr
  simp only [Option.some.injEq] at hr
  subst hr
  exact ⟨hbuild rest, hlen, by rw [hbl, hlen]⟩

end AgVerif.Sweep
