/-
C20 helper lemmas, part 3: the work-list loop empties within `bound g` iterations.
Measure: |work list| + (2·maxDeg+1) · Σ_v (definitions missing from R[v]) + (missing from A[v]).
Core Lean only.
-/
import AgVerif.Proof.ReachDefRun
namespace AgVerif.ReachDef
open AgVerif.Spec.ReachDef

/-- every definition: `(allDefs g).map snd` -/
def univ (g : Prog) : List Int := (allDefs g).map (·.2)

theorem foldl_max_spec (l : List Int) (a r : Int)
    (hr : l.foldl (fun m x => if m < x then x else m) a = r) :
    (r = a ∨ r ∈ l) ∧ a ≤ r ∧ ∀ y, y ∈ l → y ≤ r := by
  induction l generalizing a with
  | nil => simp at hr; subst hr; simp
  | cons b l ih =>
    simp only [List.foldl_cons] at hr
    obtain ⟨h1, h2, h3⟩ := ih _ hr
    by_cases hab : a < b
    · simp only [hab, if_true] at h1 h2
      refine ⟨?_, by omega, ?_⟩
      · rcases h1 with h | h
        · rw [h]; exact Or.inr (List.mem_cons_self ..)
        · exact Or.inr (List.mem_cons_of_mem _ h)
      · intro y hy
        rcases List.mem_cons.1 hy with rfl | hy
        · exact h2
        · exact h3 y hy
    · simp only [hab, if_false] at h1 h2
      refine ⟨?_, h2, ?_⟩
      · rcases h1 with h | h
        · exact Or.inl h
        · exact Or.inr (List.mem_cons_of_mem _ h)
      · intro y hy
        rcases List.mem_cons.1 hy with rfl | hy
        · omega
        · exact h3 y hy

theorem maxL?_spec {l : List Int} {d : Int} (h : maxL? l = some d) : d ∈ l ∧ ∀ y, y ∈ l → y ≤ d := by
  cases l with
  | nil => simp [maxL?] at h
  | cons a l =>
    simp only [maxL?, Option.some.injEq] at h
    obtain ⟨h1, h2, h3⟩ := foldl_max_spec l a d h
    refine ⟨?_, ?_⟩
    · rcases h1 with h1 | h1
      · rw [h1]; exact List.mem_cons_self ..
      · exact List.mem_cons_of_mem _ h1
    · intro y hy
      rcases List.mem_cons.1 hy with rfl | hy
      · exact h2
      · exact h3 y hy

theorem maxL?_isSome {l : List Int} (h : l ≠ []) : ∃ d, maxL? l = some d := by
  cases l with
  | nil => exact absurd rfl h
  | cons a l => exact ⟨_, rfl⟩

theorem mem_DB {g : Prog} {v : Nat} {d : Int} :
    d ∈ DB g v ↔ ∃ x, x ∈ regsOfNode g v ∧ maxL? (defsOfNode g v x) = some d := by
  simp [DB, List.mem_filterMap]

theorem mem_defsOfNode {g : Prog} {v : Nat} {x : Reg} {d : Int} :
    d ∈ defsOfNode g v x ↔ (x, d) ∈ nodeDefs g v := by
  unfold defsOfNode
  simp only [List.mem_map, List.mem_filter, beq_iff_eq]
  constructor
  · rintro ⟨⟨y, e⟩, ⟨hm, hy⟩, he⟩
    simp only at hy he; subst hy; subst he; exact hm
  · intro h; exact ⟨(x, d), ⟨h, rfl⟩, rfl⟩

theorem mem_defToLoc {g : Prog} {x : Reg} {d : Int} : d ∈ defToLoc g x ↔ (x, d) ∈ allDefs g := by
  unfold defToLoc
  simp only [List.mem_map, List.mem_filter, beq_iff_eq]
  constructor
  · rintro ⟨⟨y, e⟩, ⟨hm, hy⟩, he⟩
    simp only at hy he; subst hy; subst he; exact hm
  · intro h; exact ⟨(x, d), ⟨h, rfl⟩, rfl⟩

theorem nodeDefs_sub_allDefs {g : Prog} {v : Nat} (hv : v < nA g) {p : Reg × Int} (h : p ∈ nodeDefs g v) :
    p ∈ allDefs g := by
  unfold allDefs
  exact List.mem_append.2 (Or.inr (List.mem_flatMap.2 ⟨v, List.mem_range.2 hv, h⟩))

theorem mem_univ {g : Prog} {d : Int} : d ∈ univ g ↔ ∃ x, (x, d) ∈ allDefs g := by
  unfold univ
  simp only [List.mem_map]
  constructor
  · rintro ⟨⟨x, e⟩, hm, he⟩; simp only at he; subst he; exact ⟨x, hm⟩
  · rintro ⟨x, h⟩; exact ⟨(x, d), h, rfl⟩

theorem DB_sub_univ {g : Prog} {v : Nat} (hv : v < nA g) {d : Int} (h : d ∈ DB g v) : d ∈ univ g := by
  obtain ⟨x, _, hm⟩ := mem_DB.1 h
  have := (maxL?_spec hm).1
  exact mem_univ.2 ⟨x, nodeDefs_sub_allDefs hv (mem_defsOfNode.1 this)⟩

theorem initOf_sub_univ {g : Prog} {v : Nat} {d : Int} (h : d ∈ initOf g v) : d ∈ univ g := by
  unfold initOf at h
  split at h
  · obtain ⟨p, hp, rfl⟩ := List.mem_map.1 h
    exact mem_univ.2 ⟨p.1, List.mem_append.2 (Or.inl hp)⟩
  · simp at h

/-! ### well-formed graphs keep the work list inside the node range -/

theorem wf_sucs_lt {g : Prog} (hwf : WF g = true) {v s : Nat} (hs : s ∈ sucsA g v) : s < nA g := by
  unfold WF at hwf
  simp only [Bool.and_eq_true, beq_iff_eq, List.all_eq_true, decide_eq_true_eq] at hwf
  obtain ⟨⟨⟨⟨⟨_, _⟩, he⟩, hc⟩, _⟩, hx⟩ := hwf
  unfold sucsA at hs
  unfold nA
  simp only [List.mem_append] at hs
  rcases hs with (hs | hs) | hs
  · cases h : g.edges[v]? with
    | none => rw [h] at hs; simp at hs
    | some l =>
      rw [h] at hs
      have := he l (List.mem_of_getElem? h) s (by simpa using hs)
      omega
  · split at hs
    · rename_i hex
      simp only [List.mem_singleton] at hs
      subst hs
      rw [hex]; simp [nOrig]
    · simp at hs
  · cases h : g.cedges[v]? with
    | none => rw [h] at hs; simp at hs
    | some l =>
      rw [h] at hs
      have := hc l (List.mem_of_getElem? h) s (by simpa using hs)
      omega

theorem le_foldl_max (l : List Nat) (a : Nat) : a ≤ l.foldl max a ∧ ∀ x, x ∈ l → x ≤ l.foldl max a := by
  induction l generalizing a with
  | nil => simp
  | cons b l ih =>
    simp only [List.foldl_cons]
    obtain ⟨h1, h2⟩ := ih (max a b)
    refine ⟨by omega, ?_⟩
    intro x hx
    rcases List.mem_cons.1 hx with rfl | hx
    · omega
    · exact h2 x hx

theorem deg_le_maxDeg {g : Prog} {v : Nat} (hv : v < nA g) : (sucsA g v).length ≤ maxDeg g := by
  unfold maxDeg
  apply (le_foldl_max _ 0).2
  exact List.mem_map.2 ⟨v, List.mem_range.2 hv, rfl⟩

structure InvT (g : Prog) (st : St) : Prop where
  wlt : ∀ x, x ∈ st.wl → x < nA g
  rU : ∀ v d, d ∈ st.R v → d ∈ univ g
  aU : ∀ v d, d ∈ st.A v → d ∈ univ g

theorem invT_init (g : Prog) : InvT g (init g) := by
  refine ⟨?_, ?_, ?_⟩
  · intro x hx; simpa [init] using hx
  · intro v d h; simp [init] at h
  · intro v d h; simp [init] at h

theorem inSet_sub_univ {g : Prog} {st : St} (hT : InvT g st) {v : Nat} {d : Int} (h : d ∈ inSet g st.A v) :
    d ∈ univ g := by
  rcases mem_inSet.1 h with h | ⟨p, _, _, h⟩
  · exact initOf_sub_univ h
  · exact hT.aU p d h

theorem R1_sub_univ {g : Prog} {st : St} (hI : Inv g st) (hT : InvT g st) {v : Nat} (w : Nat) {d : Int}
    (h : d ∈ R1 g st v w) : d ∈ univ g := by
  have h' := (R1_mem (hI.rIn v) w d).1 h
  by_cases hw : w = v
  · simp only [hw, if_true] at h'; exact inSet_sub_univ hT h'
  · simp only [hw, if_false] at h'; exact hT.rU w d h'

theorem A1_sub_univ {g : Prog} {st : St} (hI : Inv g st) (hT : InvT g st) {v : Nat} (hv : v < nA g) (w : Nat)
    {d : Int} (h : d ∈ A1 g st v w) : d ∈ univ g := by
  have h' := (A1_mem w d).1 h
  by_cases hw : w = v
  · simp only [hw, if_true] at h'
    rcases mem_outSet.1 h' with ⟨h', _⟩ | h'
    · exact R1_sub_univ hI hT v h'
    · exact DB_sub_univ hv h'
  · simp only [hw, if_false] at h'; exact hT.aU w d h'

theorem invT_step {g : Prog} (hwf : WF g = true) {st : St} (hI : Inv g st) (hT : InvT g st) {v : Nat}
    {rest : List Nat} (hwl : st.wl = v :: rest) : InvT g (step g st) := by
  have hv : v < nA g := hT.wlt v (by rw [hwl]; exact List.mem_cons_self ..)
  rw [step_eq hwl]
  refine ⟨?_, ?_, ?_⟩
  · intro x hx
    rcases wl2_sub (show x ∈ wl2 g st v rest from hx) with h | h
    · exact hT.wlt x (by rw [hwl]; exact List.mem_cons_of_mem _ h)
    · exact wf_sucs_lt hwf h
  · intro w d h; exact R1_sub_univ hI hT w h
  · intro w d h; exact A1_sub_univ hI hT hv w h

/-! ### the measure -/

def meas (g : Prog) (st : St) : Nat :=
  sumTo (nA g) (fun v => miss (univ g) (st.R v) + miss (univ g) (st.A v))

def phi (g : Prog) (st : St) : Nat := st.wl.length + (2 * maxDeg g + 1) * meas g st

theorem exists_new {a b : List Int} (hsub : ∀ d, d ∈ b → d ∈ a) (hne : setEq a b = false) :
    ∃ d, d ∈ a ∧ d ∉ b := by
  apply Classical.byContradiction
  intro hno
  have : setEq a b = true := by
    rw [setEq_iff]; intro x
    constructor
    · intro hx
      apply Classical.byContradiction
      intro hxb; exact hno ⟨x, hx, hxb⟩
    · exact hsub x
  rw [this] at hne; cases hne

theorem phi_step {g : Prog} (hwf : WF g = true) {st : St} (hI : Inv g st) (hT : InvT g st) {v : Nat}
    {rest : List Nat} (hwl : st.wl = v :: rest) : phi g (step g st) < phi g st := by
  have hv : v < nA g := hT.wlt v (by rw [hwl]; exact List.mem_cons_self ..)
  have hdeg := deg_le_maxDeg hv
  rw [step_eq hwl]
  unfold phi
  simp only [hwl, List.length_cons]
  by_cases hcr : chR g st v = true
  case neg =>
    by_cases hca : chA g st v = true
    case neg =>
      -- nothing changed
      have e1 : R1 g st v = st.R := by unfold R1; rw [if_neg hcr]
      have e2 : A1 g st v = st.A := by unfold A1; rw [if_neg hca]
      have e3 : wl2 g st v rest = rest := by unfold wl2 wl1; rw [if_neg hca, if_neg hcr]
      have : meas g { R := R1 g st v, A := A1 g st v, wl := wl2 g st v rest, steps := st.steps + 1 } = meas g st := by
        unfold meas; simp only [e1, e2]
      rw [this, e3]; omega
    case pos =>
      -- A[v] grew
      have hne : setEq (outSet g v (R1 g st v v)) (st.A v) = false := by
        unfold chA at hca; simpa using hca
      have hsub : ∀ d, d ∈ st.A v → d ∈ outSet g v (R1 g st v v) := by
        intro d hd; have := A_sub_A1 hI (v := v) v d hd; rw [A1_mem] at this; simpa using this
      obtain ⟨d, hd, hnd⟩ := exists_new hsub hne
      have hdA1 : d ∈ A1 g st v v := by rw [A1_mem]; simpa using hd
      have hlt : meas g { R := R1 g st v, A := A1 g st v, wl := wl2 g st v rest, steps := st.steps + 1 } < meas g st := by
        unfold meas
        apply sumTo_lt (v := v) _ hv
        · have a := miss_lt (U := univ g) (fun d hd => A_sub_A1 hI (v := v) v d hd) (A1_sub_univ hI hT hv v hdA1) hdA1 hnd
          have b := miss_mono (U := univ g) (fun d hd => R_sub_R1 hI (v := v) v d hd)
          simp only; omega
        · intro w _
          have a := miss_mono (U := univ g) (fun d hd => A_sub_A1 hI (v := v) w d hd)
          have b := miss_mono (U := univ g) (fun d hd => R_sub_R1 hI (v := v) w d hd)
          simp only; omega
      have hlen := length_wl2_le (g := g) (st := st) (v := v) (rest := rest)
      have hmul := Nat.mul_le_mul_left (2 * maxDeg g + 1) (Nat.succ_le_of_lt hlt)
      rw [Nat.mul_succ] at hmul
      omega
  case pos =>
    -- R[v] grew
    have hne : setEq (inSet g st.A v) (st.R v) = false := by
      unfold chR at hcr; simp only [Bool.and_eq_true, Bool.not_eq_eq_eq_not, Bool.not_true] at hcr; exact hcr.2
    obtain ⟨d, hd, hnd⟩ := exists_new (hI.rIn v) hne
    have hdR1 : d ∈ R1 g st v v := by rw [R1_mem (hI.rIn v)]; simpa using hd
    have hlt : meas g { R := R1 g st v, A := A1 g st v, wl := wl2 g st v rest, steps := st.steps + 1 } < meas g st := by
      unfold meas
      apply sumTo_lt (v := v) _ hv
      · have a := miss_lt (U := univ g) (fun d hd => R_sub_R1 hI (v := v) v d hd) (R1_sub_univ hI hT v hdR1) hdR1 hnd
        have b := miss_mono (U := univ g) (fun d hd => A_sub_A1 hI (v := v) v d hd)
        simp only; omega
      · intro w _
        have a := miss_mono (U := univ g) (fun d hd => A_sub_A1 hI (v := v) w d hd)
        have b := miss_mono (U := univ g) (fun d hd => R_sub_R1 hI (v := v) w d hd)
        simp only; omega
    have hlen := length_wl2_le (g := g) (st := st) (v := v) (rest := rest)
    have hmul := Nat.mul_le_mul_left (2 * maxDeg g + 1) (Nat.succ_le_of_lt hlt)
    rw [Nat.mul_succ] at hmul
    omega

theorem run_empties {g : Prog} (hwf : WF g = true) :
    ∀ fuel st, Inv g st → InvT g st → phi g st ≤ fuel → (run g fuel st).wl = [] := by
  intro fuel
  induction fuel with
  | zero =>
    intro st _ _ h
    unfold run
    have : st.wl.length = 0 := by unfold phi at h; omega
    exact List.length_eq_zero_iff.1 this
  | succ f ih =>
    intro st hI hT h
    unfold run
    cases hwl : st.wl with
    | nil => exact hwl
    | cons v rest =>
      simp only
      have := phi_step hwf hI hT hwl
      exact ih _ (inv_step hI hwl) (invT_step hwf hI hT hwl) (by omega)

theorem phi_init_le (g : Prog) : phi g (init g) ≤ bound g := by
  unfold phi bound
  have h1 : (init g).wl.length = nA g := by simp [init]
  have h2 : meas g (init g) ≤ nA g * ((allDefs g).length + (allDefs g).length) := by
    unfold meas
    apply sumTo_le_const
    intro w _
    have a := miss_le_length (univ g) ((init g).R w)
    have b := miss_le_length (univ g) ((init g).A w)
    have c : (univ g).length = (allDefs g).length := by simp [univ]
    omega
  have h3 : 2 * nA g * (allDefs g).length = nA g * ((allDefs g).length + (allDefs g).length) := by
    rw [Nat.mul_add, Nat.mul_assoc, Nat.two_mul]
  rw [h1, h3]
  have := Nat.mul_le_mul_left (2 * maxDeg g + 1) h2
  omega

end AgVerif.ReachDef
