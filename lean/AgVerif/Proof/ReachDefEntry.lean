/-
C20 helper lemmas, part 6: a statement number belongs to one node; last edge of a walk.  Core Lean only.
-/
import AgVerif.Proof.ReachDefUD
namespace AgVerif.ReachDef
open AgVerif.Spec.ReachDef

theorem definesAt_node_unique {g : Prog} {v v' : Nat} {d : Int} {x y : Reg}
    (h1 : DefinesAt g v d x) (h2 : DefinesAt g v' d y) : v = v' := by
  obtain ⟨s, ⟨ss, k, hss, hk, hd⟩, _⟩ := h1
  obtain ⟨s', ⟨ss', k', hss', hk', hd'⟩, _⟩ := h2
  have hkl : k < ss.length := (List.getElem?_eq_some_iff.1 hk).1
  have hkl' : k' < ss'.length := (List.getElem?_eq_some_iff.1 hk').1
  rw [start_eq] at hd hd'
  rcases Nat.lt_trichotomy v v' with hlt | heq | hgt
  · have := startL_gap hlt hss; omega
  · exact heq
  · have := startL_gap hgt hss'; omega

theorem walk_last_edge {g : Prog} {a b : Nat} {mids : List Nat} (h : Walk g a mids b) : ∃ p, Edge g p b := by
  induction mids generalizing a with
  | nil => exact ⟨a, h⟩
  | cons w ws ih => exact ih h.2

theorem reachesFromEntry_weaken {g : Prog} {d : Int} {x : Reg} {v : Nat} (h : ReachesFromEntry g d x v) :
    ReachesEntry g d x v := by
  obtain ⟨mids, hc, h⟩ := h
  refine ⟨mids, hc, ?_⟩
  rcases h with ⟨m, _, hm, hw⟩ | h
  · exact Or.inl ⟨m, hm, hw⟩
  · exact Or.inr h

end AgVerif.ReachDef
