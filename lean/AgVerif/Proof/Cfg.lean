/-
Lemmas about the CFG model (AgVerif.Cfg): the block-building loop, block lookup, uniqueness.
Core Lean only (no Mathlib).
-/
import AgVerif.Model.Cfg
namespace AgVerif.Cfg

theorem lenSum_append (a b : List Ins) : lenSum (a ++ b) = lenSum a + lenSum b := by
  induction a with
  | nil => simp [lenSum]
  | cons x r ih => simp [lenSum, ih, Nat.add_assoc]

/-- blocks laid end to end from `s` to `e`, none empty -/
def Chain : Nat → List Block → Nat → Prop
  | s, [], e => s = e
  | s, b :: bs, e => b.start = s ∧ b.insns ≠ [] ∧ Chain b.stop bs e

theorem mem_of_mem_dropLast {α} {x : α} : ∀ {l : List α}, x ∈ l.dropLast → x ∈ l
  | [], h => by simp at h
  | [_], h => by simp at h
  | a :: b :: r, h => by
    simp only [List.dropLast_cons_cons, List.mem_cons] at h
    rcases h with h | h
    · simp [h]
    · exact List.mem_cons_of_mem _ (mem_of_mem_dropLast h)

theorem stop_mk (s : Nat) (l : List Ins) : (Block.mk s l).stop = s + lenSum l := rfl

section split
variable (isL : Nat → Bool) (isB : Ins → Bool)

/-- the blocks, read in order, are the current block's instructions followed by the rest of the stream -/
theorem splitAux_flatten : ∀ (r : List Ins) (pos : Nat) (cur : Block),
    (splitAux isL isB pos r cur).flatMap (·.insns) = cur.insns ++ r := by
  intro r
  induction r with
  | nil =>
    intro pos cur
    simp only [splitAux]
    split
    · rename_i h; simp [List.isEmpty_iff.mp h]
    · simp
  | cons i r ih =>
    intro pos cur
    simp only [splitAux]
    split
    · split
      · simp [List.flatMap_cons, ih]
      · simp [List.flatMap_cons, ih]
    · split
      · simp [List.flatMap_cons, ih]
      · simp [ih]

/-- the blocks are contiguous, non-empty, start at the current block's start and end at the end of the stream -/
theorem splitAux_chain : ∀ (r : List Ins) (pos : Nat) (cur : Block),
    Chain cur.start (splitAux isL isB pos r cur) (cur.start + lenSum (cur.insns ++ r)) := by
  intro r
  induction r with
  | nil =>
    intro pos cur
    simp only [splitAux]
    split
    · rename_i h; simp [Chain, List.isEmpty_iff.mp h, lenSum]
    · rename_i h
      have hne : cur.insns ≠ [] := by intro h'; simp [h'] at h
      simp [Chain, hne, Block.stop]
  | cons i r ih =>
    intro pos cur
    simp only [splitAux]
    split
    · rename_i h
      have hne : cur.insns ≠ [] := by
        intro h'; simp [h'] at h
      split
      · have := ih (pos + i.len) ⟨(Block.mk cur.stop [i]).stop, []⟩
        simp only [Chain, hne, ne_eq, not_false_eq_true, true_and, List.cons_ne_nil]
        simp only [stop_mk, List.nil_append] at this ⊢
        simp only [Block.stop, lenSum_append, lenSum, Nat.add_zero] at this ⊢
        simpa [Nat.add_assoc] using this
      · have := ih (pos + i.len) ⟨cur.stop, [i]⟩
        simp only [Chain, hne, ne_eq, not_false_eq_true, true_and]
        simp only [Block.stop, lenSum_append, lenSum, Nat.add_zero, List.cons_append, List.nil_append] at this ⊢
        simpa [Nat.add_assoc] using this
    · split
      · have := ih (pos + i.len) ⟨(Block.mk cur.start (cur.insns ++ [i])).stop, []⟩
        simp only [Chain, ne_eq, List.append_eq_nil_iff, List.cons_ne_nil, and_false, not_false_eq_true, true_and]
        simp only [stop_mk, List.nil_append] at this ⊢
        simp only [lenSum_append, lenSum, Nat.add_zero] at this ⊢
        simpa [Nat.add_assoc] using this
      · have := ih (pos + i.len) ⟨cur.start, cur.insns ++ [i]⟩
        simpa [List.append_assoc] using this

/-- only the last instruction of a block satisfies `isB` -/
theorem splitAux_branch_last : ∀ (r : List Ins) (pos : Nat) (cur : Block),
    (∀ x ∈ cur.insns, isB x = false) →
    ∀ b ∈ splitAux isL isB pos r cur, ∀ x ∈ b.insns.dropLast, isB x = false := by
  intro r
  induction r with
  | nil =>
    intro pos cur hc b hb x hx
    simp only [splitAux] at hb
    split at hb
    · simp at hb
    · simp at hb; subst hb; exact hc x (mem_of_mem_dropLast hx)
  | cons i r ih =>
    intro pos cur hc b hb x hx
    simp only [splitAux] at hb
    split at hb
    · split at hb
      · simp only [List.mem_cons] at hb
        rcases hb with hb | hb | hb
        · subst hb; exact hc x (mem_of_mem_dropLast hx)
        · subst hb; simp at hx
        · exact ih _ _ (by simp) b hb x hx
      · rename_i hi
        simp only [List.mem_cons] at hb
        rcases hb with hb | hb
        · subst hb; exact hc x (mem_of_mem_dropLast hx)
        · refine ih _ _ ?_ b hb x hx
          intro y hy; simp at hy; subst hy; simpa using hi
    · split at hb
      · simp only [List.mem_cons] at hb
        rcases hb with hb | hb
        · subst hb
          simp only [List.dropLast_concat] at hx
          exact hc x hx
        · exact ih _ _ (by simp) b hb x hx
      · rename_i hi
        refine ih _ _ ?_ b hb x hx
        intro y hy
        simp only [List.mem_append, List.mem_singleton] at hy
        rcases hy with hy | hy
        · exact hc y hy
        · subst hy; simpa using hi

/-- a non-empty current block is the head of the result and keeps its start -/
theorem splitAux_first : ∀ (r : List Ins) (pos : Nat) (cur : Block), cur.insns ≠ [] →
    ∃ b rest, splitAux isL isB pos r cur = b :: rest ∧ b.start = cur.start := by
  intro r
  induction r with
  | nil =>
    intro pos cur hne
    refine ⟨cur, [], ?_, rfl⟩
    simp [splitAux, hne]
  | cons i r ih =>
    intro pos cur hne
    simp only [splitAux]
    split
    · split
      · exact ⟨cur, _, rfl, rfl⟩
      · exact ⟨cur, _, rfl, rfl⟩
    · split
      · exact ⟨_, _, rfl, rfl⟩
      · exact ih _ ⟨cur.start, cur.insns ++ [i]⟩ (by simp)

/-- every leader that is the offset of an instruction still to come begins a block -/
theorem splitAux_leader : ∀ (r : List Ins) (pos : Nat) (cur : Block), pos = cur.stop →
    ∀ o i, (o, i) ∈ withOff pos r → isL o = true → ∃ b ∈ splitAux isL isB pos r cur, b.start = o := by
  intro r
  induction r with
  | nil => intro pos cur _ o i h; simp [withOff] at h
  | cons j r ih =>
    intro pos cur hpos o i hmem hl
    simp only [withOff, List.mem_cons] at hmem
    simp only [splitAux]
    have hstop1 : pos + j.len = (Block.mk cur.stop [j]).stop := by
      simp [Block.stop, lenSum] at hpos ⊢; omega
    have hstop2 : pos + j.len = (Block.mk cur.start (cur.insns ++ [j])).stop := by
      simp [Block.stop, lenSum, lenSum_append] at hpos ⊢; omega
    rcases hmem with hmem | hmem
    · -- the leader is the instruction being pushed
      have ho : o = pos := by cases hmem; rfl
      subst ho
      by_cases hemp : cur.insns = []
      · have hcond : (isL o && !cur.insns.isEmpty) = false := by simp [hemp]
        simp only [hcond, Bool.false_eq_true, ↓reduceIte]
        have hs : cur.start = o := by simp [Block.stop, hemp, lenSum] at hpos; omega
        split
        · exact ⟨_, List.mem_cons_self, hs⟩
        · obtain ⟨b, rest, hb, hbs⟩ := splitAux_first isL isB r (o + j.len) ⟨cur.start, cur.insns ++ [j]⟩ (by simp)
          exact ⟨b, by rw [hb]; exact List.mem_cons_self, by rw [hbs]; exact hs⟩
      · have hcond : (isL o && !cur.insns.isEmpty) = true := by simp [hl, hemp]
        simp only [hcond, ↓reduceIte]
        split
        · exact ⟨⟨cur.stop, [j]⟩, by simp, hpos.symm⟩
        · obtain ⟨b, rest, hb, hbs⟩ := splitAux_first isL isB r (o + j.len) ⟨cur.stop, [j]⟩ (by simp)
          exact ⟨b, by rw [hb]; simp, by rw [hbs]; exact hpos.symm⟩
    · -- the leader comes later
      split
      · split
        · obtain ⟨b, hb, hbs⟩ := ih (pos + j.len) ⟨(Block.mk cur.stop [j]).stop, []⟩
            (by simp [Block.stop, lenSum] at hstop1 ⊢; omega) o i hmem hl
          exact ⟨b, by simp [hb], hbs⟩
        · obtain ⟨b, hb, hbs⟩ := ih (pos + j.len) ⟨cur.stop, [j]⟩ hstop1 o i hmem hl
          exact ⟨b, by simp [hb], hbs⟩
      · split
        · obtain ⟨b, hb, hbs⟩ := ih (pos + j.len) ⟨(Block.mk cur.start (cur.insns ++ [j])).stop, []⟩
            (by simp [Block.stop, lenSum] at hstop2 ⊢; omega) o i hmem hl
          exact ⟨b, by simp [hb], hbs⟩
        · exact ih (pos + j.len) ⟨cur.start, cur.insns ++ [j]⟩ hstop2 o i hmem hl

end split

/-! ### consequences of `Chain` -/

theorem chain_bounds : ∀ (bs : List Block) (s e : Nat), Chain s bs e →
    s ≤ e ∧ ∀ b ∈ bs, s ≤ b.start ∧ b.stop ≤ e := by
  intro bs
  induction bs with
  | nil => intro s e h; simp [Chain] at h; subst h; simp
  | cons b bs ih =>
    intro s e h
    obtain ⟨h1, _, h3⟩ := h
    obtain ⟨h4, h5⟩ := ih _ _ h3
    have hle : b.start ≤ b.stop := by simp [Block.stop]
    refine ⟨by omega, ?_⟩
    intro c hc
    simp only [List.mem_cons] at hc
    rcases hc with hc | hc
    · subst hc; omega
    · have := h5 c hc; omega

/-- two blocks of a chain of positive-length blocks that share a byte are the same block -/
theorem chain_unique : ∀ (bs : List Block) (s e : Nat), Chain s bs e →
    (∀ b ∈ bs, b.start < b.stop) →
    ∀ b ∈ bs, ∀ c ∈ bs, ∀ p : Int, (b.start : Int) ≤ p → p < (b.stop : Int) →
      (c.start : Int) ≤ p → p < (c.stop : Int) → b = c := by
  intro bs
  induction bs with
  | nil => intro s e _ _ b hb; simp at hb
  | cons a bs ih =>
    intro s e h hpos b hb c hc p h1 h2 h3 h4
    obtain ⟨_, _, hch⟩ := h
    have hbnd := (chain_bounds bs _ _ hch).2
    simp only [List.mem_cons] at hb hc
    rcases hb with hb | hb <;> rcases hc with hc | hc
    · rw [hb, hc]
    · subst hb; have := (hbnd c hc).1; omega
    · subst hc; have := (hbnd b hb).1; omega
    · exact ih _ _ hch (fun x hx => hpos x (List.mem_cons_of_mem _ hx)) b hb c hc p h1 h2 h3 h4

theorem find?_unique {α} (p : α → Bool) : ∀ (l : List α) (a : α), a ∈ l → p a = true →
    (∀ b ∈ l, p b = true → b = a) → l.find? p = some a := by
  intro l
  induction l with
  | nil => intro a h; simp at h
  | cons x l ih =>
    intro a ha hp hu
    simp only [List.find?]
    cases hx : p x with
    | true => simp [hu x List.mem_cons_self hx]
    | false =>
      simp only [List.mem_cons] at ha
      rcases ha with ha | ha
      · subst ha; simp [hp] at hx
      · exact ih a ha hp (fun b hb => hu b (List.mem_cons_of_mem _ hb))

theorem getBlock_some {bs : List Block} {p : Int} {b : Block} (h : getBlock bs p = some b) :
    b ∈ bs ∧ (b.start : Int) ≤ p ∧ p < (b.stop : Int) := by
  unfold getBlock at h
  have h1 := List.mem_of_find?_eq_some h
  have h2 := List.find?_some h
  simp at h2
  exact ⟨h1, h2⟩

theorem getBlock_of_mem {bs : List Block} {s e : Nat} (hch : Chain s bs e)
    (hpos : ∀ b ∈ bs, b.start < b.stop) {b : Block} (hb : b ∈ bs) {p : Int}
    (h1 : (b.start : Int) ≤ p) (h2 : p < (b.stop : Int)) : getBlock bs p = some b := by
  unfold getBlock
  apply find?_unique _ bs b hb (by simp [h1, h2])
  intro c hc hp
  simp at hp
  exact chain_unique bs s e hch hpos c hc b hb p hp.1 hp.2 h1 h2

theorem getBlock_none {bs : List Block} {s e : Nat} (hch : Chain s bs e) {p : Int}
    (h : p < (s : Int) ∨ (e : Int) ≤ p) : getBlock bs p = none := by
  unfold getBlock
  rw [List.find?_eq_none]
  intro b hb
  have := (chain_bounds bs s e hch).2 b hb
  simp
  omega

/-- a chain covers every byte between its ends -/
theorem chain_cover : ∀ (bs : List Block) (s e : Nat), Chain s bs e → ∀ p : Nat, s ≤ p → p < e →
    ∃ b ∈ bs, b.start ≤ p ∧ p < b.stop := by
  intro bs
  induction bs with
  | nil => intro s e h p h1 h2; simp [Chain] at h; omega
  | cons a bs ih =>
    intro s e h p h1 h2
    obtain ⟨ha, _, hch⟩ := h
    by_cases hp : p < a.stop
    · exact ⟨a, List.mem_cons_self, by omega, hp⟩
    · obtain ⟨b, hb, hb2⟩ := ih _ _ hch p (by omega) h2
      exact ⟨b, List.mem_cons_of_mem _ hb, hb2⟩

/-- adjacency: in a chain the block after `b` starts at `b.stop` -/
theorem chain_next : ∀ (bs : List Block) (s e : Nat), Chain s bs e → ∀ b ∈ bs, b.stop < e →
    ∃ c ∈ bs, c.start = b.stop := by
  intro bs
  induction bs with
  | nil => intro s e _ b hb; simp at hb
  | cons a bs ih =>
    intro s e h b hb hlt
    obtain ⟨_, _, hch⟩ := h
    simp only [List.mem_cons] at hb
    rcases hb with hb | hb
    · subst hb
      cases bs with
      | nil => simp [Chain] at hch; omega
      | cons c cs => exact ⟨c, by simp, hch.1⟩
    · obtain ⟨c, hc, hcs⟩ := ih _ _ hch b hb hlt
      exact ⟨c, List.mem_cons_of_mem _ hc, hcs⟩

end AgVerif.Cfg
