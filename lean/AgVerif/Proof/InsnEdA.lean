/- C01/C02: encode-then-decode (`get_raw()` bytes of an in-range object decode back to the same object) for the classes
   10x 12x 11n 11x 10t 20t 22x.  GENERATED text (one lemma per class; tactic `ed_tac` of Proof/InsnEncDec.lean). -/
import AgVerif.Proof.InsnEncDec
set_option linter.unusedSimpArgs false
set_option linter.unusedVariables false
namespace AgVerif.Insn
open AgVerif.Gen

theorem ed_10x (op : Nat) (hop : op < 256)  :
    EncDec ⟨.f10x, op, []⟩ := by
  ed_tac

theorem ed_12x (op : Nat) (v0 v1 : Int) (hop : op < 256) (h0 : 0 ≤ v0 ∧ v0 < 16) (h1 : 0 ≤ v1 ∧ v1 < 16) :
    EncDec ⟨.f12x, op, [v0, v1]⟩ := by
  ed_tac

theorem ed_11n (op : Nat) (v0 v1 : Int) (hop : op < 256) (h0 : 0 ≤ v0 ∧ v0 < 16) (h1 : -8 ≤ v1 ∧ v1 < 8) :
    EncDec ⟨.f11n, op, [v0, v1]⟩ := by
  ed_tac

theorem ed_11x (op : Nat) (v0 : Int) (hop : op < 256) (h0 : 0 ≤ v0 ∧ v0 < 256) :
    EncDec ⟨.f11x, op, [v0]⟩ := by
  ed_tac

theorem ed_10t (op : Nat) (v0 : Int) (hop : op < 256) (h0 : -128 ≤ v0 ∧ v0 < 128) :
    EncDec ⟨.f10t, op, [v0]⟩ := by
  ed_tac

theorem ed_20t (op : Nat) (v0 : Int) (hop : op < 256) (h0 : -32768 ≤ v0 ∧ v0 < 32768) :
    EncDec ⟨.f20t, op, [v0]⟩ := by
  ed_tac

theorem ed_22x (op : Nat) (v0 v1 : Int) (hop : op < 256) (h0 : 0 ≤ v0 ∧ v0 < 256) (h1 : 0 ≤ v1 ∧ v1 < 65536) :
    EncDec ⟨.f22x, op, [v0, v1]⟩ := by
  ed_tac

end AgVerif.Insn
