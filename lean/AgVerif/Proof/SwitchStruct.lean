/-
C22 (part 7) — `control_flow.switch_struct`: the result does not depend on the enumeration of the set
`unresolved` nor on the insertion order of the dict `idoms` (a dict: pairwise different keys), when the numbers
of the keys are pairwise different.
-/
import AgVerif.Model.SwitchStruct
import AgVerif.Proof.IfStruct
namespace AgVerif.SwitchStruct
open List AgVerif.IfStruct

/-! ### dict lookup does not depend on the insertion order -/

theorem lookup_cons (p : Nat × Option Nat) (i : List (Nat × Option Nat)) (k : Nat) :
    lookup (p :: i) k = if p.1 = k then some p.2 else lookup i k := by
  unfold lookup
  rw [find?_cons]
  by_cases h : p.1 = k
  · simp [h]
  · have : (p.1 == k) = false := by simpa using h
    simp [this, h]

theorem lookup_none_iff (i : List (Nat × Option Nat)) (k : Nat) : lookup i k = none ↔ k ∉ i.map Prod.fst := by
  induction i with
  | nil => simp [lookup]
  | cons p i ih =>
    rw [lookup_cons]
    by_cases h : p.1 = k
    · simp [h]
    · have h' : ¬ k = p.1 := fun c => h c.symm
      rw [if_neg h, ih]
      simp [h']

theorem lookup_some_iff (i : List (Nat × Option Nat)) (hN : (i.map Prod.fst).Nodup) (k : Nat) (v : Option Nat) :
    lookup i k = some v ↔ (k, v) ∈ i := by
  induction i with
  | nil => simp [lookup]
  | cons p i ih =>
    have hN' : p.1 ∉ i.map Prod.fst ∧ (i.map Prod.fst).Nodup := by
      rw [map_cons] at hN
      exact nodup_cons.mp hN
    rw [lookup_cons]
    by_cases h : p.1 = k
    · rw [if_pos h]
      constructor
      · intro e
        have e' : p.2 = v := by simpa using e
        exact mem_cons.mpr (Or.inl (by rw [← e', ← h]))
      · intro e
        rcases mem_cons.mp e with e | e
        · rw [← e]
        · exact absurd (mem_map.mpr ⟨(k, v), e, rfl⟩) (h ▸ hN'.1)
    · rw [if_neg h, ih hN'.2]
      constructor
      · exact fun e => mem_cons_of_mem _ e
      · intro e
        rcases mem_cons.mp e with e | e
        · exact absurd (by rw [← e]) h
        · exact e

theorem lookup_perm {i₁ i₂ : List (Nat × Option Nat)} (hi : i₁ ~ i₂) (hN : (i₁.map Prod.fst).Nodup) (k : Nat) :
    lookup i₁ k = lookup i₂ k := by
  have hN2 : (i₂.map Prod.fst).Nodup := (hi.map _).nodup_iff.mp hN
  cases h : lookup i₁ k with
  | none =>
    have := (lookup_none_iff i₁ k).mp h
    exact ((lookup_none_iff i₂ k).mpr (fun c => this ((hi.map _).mem_iff.mpr c))).symm
  | some v =>
    have := (lookup_some_iff i₁ hN k v).mp h
    exact ((lookup_some_iff i₂ hN2 k v).mpr (hi.mem_iff.mp this)).symm

theorem chooseM_perm {i₁ i₂ : List (Nat × Option Nat)} (hi : i₁ ~ i₂) (hN : (i₁.map Prod.fst).Nodup)
    (num : Nat → Nat) (fuel node : Nat) (sucs : List Nat) :
    chooseM i₁ num fuel node sucs = chooseM i₂ num fuel node sucs := by
  unfold chooseM
  have h1 : ∀ k, lookup i₁ k = lookup i₂ k := lookup_perm hi hN
  have h2 : idomFn i₁ = idomFn i₂ := by funext k; simp [idomFn, h1]
  congr 1
  funext m suc
  rw [h1, h2]

/-! ### the loop over the set `unresolved` -/

theorem foldl_follow (n : Nat) : ∀ (enum : List Nat) (fol : Nat → Option Nat),
    enum.foldl (fun fol x => fun y => if y = x then some n else fol y) fol =
      fun y => if y ∈ enum then some n else fol y := by
  intro enum
  induction enum with
  | nil => intro fol; simp
  | cons x e ih =>
    intro fol
    simp only [foldl_cons, ih]
    funext y
    by_cases h1 : y ∈ e
    · simp [h1]
    · by_cases h2 : y = x
      · simp [h2]
      · simp [h1, h2]

theorem resolveAll_eq (n : Nat) (s : St) (enum : List Nat) (he : enum ~ s.unresolved) :
    resolveAll n s enum = ⟨fun y => if y ∈ s.unresolved then some n else s.follow y, []⟩ := by
  unfold resolveAll
  rw [foldl_follow]
  simp only [he.mem_iff]

/-! ### the whole function -/

def stepC (isSwitch : Nat → Bool) (sucs : Nat → List Nat) (idoms : List (Nat × Option Nat))
    (npreds num : Nat → Nat) (fuel : Nat) (s : St) (node : Nat) : Option St :=
  if isSwitch node then
    match chooseM idoms num fuel node (sucs node) with
    | none => none
    | some m =>
      match maxFirst num (ldominates idoms npreds m) with
      | some n => some ⟨fun y => if y ∈ s.unresolved then some n else if y = node then some n else s.follow y, []⟩
      | none =>
        some { s with unresolved := if s.unresolved.contains node then s.unresolved else s.unresolved ++ [node] }
  else some s

theorem step_eq (ord : List Nat → List Nat) (hord : ∀ l, ord l ~ l) (isSwitch : Nat → Bool)
    (sucs : Nat → List Nat) (idoms : List (Nat × Option Nat)) (npreds num : Nat → Nat) (fuel : Nat) (s : St)
    (node : Nat) : step ord isSwitch sucs idoms npreds num fuel s node =
      stepC isSwitch sucs idoms npreds num fuel s node := by
  unfold step stepC
  by_cases hc : isSwitch node = true
  · rw [if_pos hc, if_pos hc]
    cases chooseM idoms num fuel node (sucs node) with
    | none => rfl
    | some m =>
      dsimp only
      cases maxFirst num (ldominates idoms npreds m) with
      | none => rfl
      | some n =>
        dsimp only
        rw [resolveAll_eq n ⟨fun y => if y = node then some n else s.follow y, s.unresolved⟩ _ (hord _)]
  · rw [if_neg hc, if_neg hc]

theorem stepC_idoms {i₁ i₂ : List (Nat × Option Nat)} (hi : i₁ ~ i₂) (hN : (i₁.map Prod.fst).Nodup)
    (isSwitch : Nat → Bool) (sucs : Nat → List Nat) (npreds num : Nat → Nat) (fuel : Nat)
    (hinj : ∀ a ∈ i₁.map Prod.fst, ∀ b ∈ i₁.map Prod.fst, num a = num b → a = b) (s : St) (node : Nat) :
    stepC isSwitch sucs i₁ npreds num fuel s node = stepC isSwitch sucs i₂ npreds num fuel s node := by
  unfold stepC
  rw [chooseM_perm hi hN]
  have : ∀ m, maxFirst num (ldominates i₁ npreds m) = maxFirst num (ldominates i₂ npreds m) := by
    intro m
    apply maxFirst_perm num ((hi.filter _).map _)
    intro a ha b hb
    exact hinj a
      (mem_map.mpr (by obtain ⟨p, hp, e⟩ := mem_map.mp ha; exact ⟨p, (mem_filter.mp hp).1, e⟩)) b
      (mem_map.mpr (by obtain ⟨p, hp, e⟩ := mem_map.mp hb; exact ⟨p, (mem_filter.mp hp).1, e⟩))
  simp only [this]

/-- `switch_struct` does not depend on how the set `unresolved` is enumerated, nor on the insertion order of
    the dict `idoms`, when the numbers of its keys are pairwise different -/
theorem switchStruct_order_irrelevant (ord₁ ord₂ : List Nat → List Nat) (h₁ : ∀ l, ord₁ l ~ l)
    (h₂ : ∀ l, ord₂ l ~ l) {i₁ i₂ : List (Nat × Option Nat)} (hi : i₁ ~ i₂) (hN : (i₁.map Prod.fst).Nodup)
    (post : List Nat) (isSwitch : Nat → Bool) (sucs : Nat → List Nat) (npreds num : Nat → Nat) (fuel : Nat)
    (hinj : ∀ a ∈ i₁.map Prod.fst, ∀ b ∈ i₁.map Prod.fst, num a = num b → a = b) :
    switchStruct ord₁ post isSwitch sucs i₁ npreds num fuel = switchStruct ord₂ post isSwitch sucs i₂ npreds num fuel := by
  unfold switchStruct
  congr 1
  funext s node
  rw [step_eq ord₁ h₁, step_eq ord₂ h₂]
  exact stepC_idoms hi hN isSwitch sucs npreds num fuel hinj s node

end AgVerif.SwitchStruct
