/-
C17 — one step of the model simulates one step of the dictionary; refinement for all histories.
-/
import AgVerif.Proof.Rename
namespace AgVerif.Rename
open AgVerif.Spec.Rename (Item Ev World Names rename)

def specStep (cur : Names) : Ev → Names
  | .rename i s => rename cur i s
  | _ => cur

def specOut (w : World) (cur : Names) : Ev → Option String
  | .name i => some (cur i)
  | .const k => some (w.const k)
  | _ => none

theorem spec_outs_cons (w : World) (cur : Names) (ev : Ev) (rest : List Ev) :
    Spec.Rename.outs w cur (ev :: rest) = specOut w cur ev :: Spec.Rename.outs w (specStep cur ev) rest := by
  cases ev <;> rfl

theorem agree1_str (x : String) : agree1 (.str x) (some x) = true := by simp [agree1]

theorem step_sim {d : Dex} {s : State} {cur : Names} (wf : WF d) (h : Inv d s cur) (op : Op) :
    Inv d (step fixedCfg d s op).1 (specStep cur (view d op)) ∧
    agree1 (step fixedCfg d s op).2 (specOut (world d) cur (view d op)) = true := by
  cases op with
  | renameClass c v =>
    cases hc : d.classes[c]? with
    | none => simp only [step, view, hc]; exact ⟨h, rfl⟩
    | some cd => simp only [step, view, hc]; exact ⟨inv_renameClass wf h hc v, rfl⟩
  | renameMethod e v =>
    cases he : d.encMethods[e]? with
    | none => simp only [step, view, he]; exact ⟨h, rfl⟩
    | some mo =>
      obtain ⟨m, o⟩ := mo
      have hlt : m < d.methods.length := wf.emLt _ _ _ he
      obtain ⟨mid, hm⟩ := exists_get _ _ hlt
      simp only [step, view, he, hm, hlt, if_true]
      exact ⟨inv_renameMethod wf h he hm v, rfl⟩
  | renameField e v =>
    cases he : d.encFields[e]? with
    | none => simp only [step, view, he]; exact ⟨h, rfl⟩
    | some fo =>
      obtain ⟨f, o⟩ := fo
      have hlt : f < d.fields.length := wf.efLt _ _ _ he
      obtain ⟨fid, hf⟩ := exists_get _ _ hlt
      simp only [step, view, he, hf, hlt, if_true]
      exact ⟨inv_renameField wf h he hf v, rfl⟩
  | reloadClass c =>
    simp only [step, view]; split
    · exact ⟨inv_reloadC h c, rfl⟩
    · exact ⟨h, rfl⟩
  | reloadEncMethod e =>
    simp only [step, view]; split
    · exact ⟨inv_reloadEM wf h e, rfl⟩
    · exact ⟨h, rfl⟩
  | reloadEncField e =>
    simp only [step, view]; split
    · exact ⟨inv_reloadEF wf h e, rfl⟩
    · exact ⟨h, rfl⟩
  | reloadMethodId m =>
    simp only [step, view]; split
    · exact ⟨inv_reloadM h m, rfl⟩
    · exact ⟨h, rfl⟩
  | reloadFieldId f =>
    simp only [step, view]; split
    · exact ⟨inv_reloadF h f, rfl⟩
    · exact ⟨h, rfl⟩
  | className c =>
    by_cases hlt : c < d.classes.length
    · obtain ⟨cd, hc⟩ := exists_get _ _ hlt
      simp only [step, view, hc, hlt, if_true, specStep, specOut]
      exact ⟨h, by rw [h.cc _ _ hc]; exact agree1_str _⟩
    · have hc : d.classes[c]? = none := by simpa using hlt
      simp only [step, view, hc, hlt, if_false]; exact ⟨h, rfl⟩
  | superName c =>
    simp only [step, view]; split <;> exact ⟨h, rfl⟩
  | methodName e =>
    by_cases hlt : e < d.encMethods.length
    · obtain ⟨⟨m, o⟩, he⟩ := exists_get _ _ hlt
      simp only [step, view, he, hlt, if_true, specStep, specOut]
      refine ⟨inv_loadEM wf h e, ?_⟩
      rw [loadEM_name wf h he]; exact agree1_str _
    · have he : d.encMethods[e]? = none := by simpa using hlt
      simp only [step, view, he, hlt, if_false]; exact ⟨h, rfl⟩
  | methodClass e =>
    simp only [step, view]; split
    · exact ⟨inv_loadEM wf h e, rfl⟩
    · exact ⟨h, rfl⟩
  | methodDesc e =>
    simp only [step, view]; split
    · exact ⟨inv_loadEM wf h e, rfl⟩
    · exact ⟨h, rfl⟩
  | fieldName e =>
    by_cases hlt : e < d.encFields.length
    · obtain ⟨⟨f, o⟩, he⟩ := exists_get _ _ hlt
      simp only [step, view, he, hlt, if_true, specStep, specOut]
      refine ⟨inv_loadEF wf h e, ?_⟩
      rw [loadEF_name wf h he]; exact agree1_str _
    · have he : d.encFields[e]? = none := by simpa using hlt
      simp only [step, view, he, hlt, if_false]; exact ⟨h, rfl⟩
  | fieldClass e =>
    simp only [step, view]; split
    · exact ⟨inv_loadEF wf h e, rfl⟩
    · exact ⟨h, rfl⟩
  | fieldDesc e =>
    simp only [step, view]; split
    · exact ⟨inv_loadEF wf h e, rfl⟩
    · exact ⟨h, rfl⟩
  | midName m =>
    by_cases hlt : m < d.methods.length
    · obtain ⟨mid, hm⟩ := exists_get _ _ hlt
      simp only [step, view, hlt, if_true, specStep, specOut]
      exact ⟨h, by rw [h.mc _ _ hm]; exact agree1_str _⟩
    · simp only [step, view, hlt, if_false]; exact ⟨h, rfl⟩
  | midClass m => simp only [step, view]; split <;> exact ⟨h, rfl⟩
  | midDesc m => simp only [step, view]; split <;> exact ⟨h, rfl⟩
  | fidName f =>
    by_cases hlt : f < d.fields.length
    · obtain ⟨fid, hf⟩ := exists_get _ _ hlt
      simp only [step, view, hlt, if_true, specStep, specOut]
      exact ⟨h, by rw [h.fc _ _ hf]; exact agree1_str _⟩
    · simp only [step, view, hlt, if_false]; exact ⟨h, rfl⟩
  | fidClass f => simp only [step, view]; split <;> exact ⟨h, rfl⟩
  | fidDesc f => simp only [step, view]; split <;> exact ⟨h, rfl⟩
  | constString k =>
    by_cases hlt : k < d.consts.length
    · obtain ⟨⟨reg, si⟩, hk⟩ := exists_get _ _ hlt
      simp only [step, view, hlt, if_true, specStep, specOut, world, hk, fixedCfg,
        getString_raw d s h.noStr]
      exact ⟨h, agree1_str _⟩
    · have hk : d.consts[k]? = none := by simpa using hlt
      simp only [step, view, hk, hlt, if_false]; exact ⟨h, rfl⟩
  | invokeText m => simp only [step, view]; split <;> exact ⟨h, rfl⟩
  | fieldText f => simp only [step, view]; split <;> exact ⟨h, rfl⟩

theorem refines_from {d : Dex} (wf : WF d) : ∀ (ops : List Op) (s : State) (cur : Names),
    Inv d s cur →
    agreeB (outs fixedCfg d s ops) (Spec.Rename.outs (world d) cur (ops.map (view d))) = true
  | [], _, _, _ => rfl
  | op :: rest, s, cur, h => by
    obtain ⟨h1, h2⟩ := step_sim wf h op
    simp only [outs, List.map_cons, spec_outs_cons, agreeB, Bool.and_eq_true]
    exact ⟨h2, refines_from wf rest _ _ h1⟩

/-! ### facts about the dictionary itself (specification side) -/

theorem final_append (cur : Names) (a b : List Ev) :
    Spec.Rename.final cur (a ++ b) = Spec.Rename.final (Spec.Rename.final cur a) b := by
  induction a generalizing cur with
  | nil => rfl
  | cons ev a ih => cases ev <;> simp [Spec.Rename.final, ih]

/-- the dictionary after a history: last rename of the item if any, else what it was before -/
theorem final_eq (i : Item) : ∀ (evs : List Ev) (cur : Names),
    Spec.Rename.final cur evs i = (Spec.Rename.lastRename i evs).getD (cur i)
  | [], _ => rfl
  | .rename j s :: rest, cur => by
    simp only [Spec.Rename.final, Spec.Rename.lastRename]
    rw [final_eq i rest]
    cases hl : Spec.Rename.lastRename i rest with
    | some x => simp
    | none =>
      by_cases e : j = i
      · subst e; simp [rename]
      · have : i ≠ j := fun x => e x.symm
        simp [rename, e, this]
  | .name _ :: rest, cur => by simp only [Spec.Rename.final, Spec.Rename.lastRename]; exact final_eq i rest cur
  | .const _ :: rest, cur => by simp only [Spec.Rename.final, Spec.Rename.lastRename]; exact final_eq i rest cur
  | .other :: rest, cur => by simp only [Spec.Rename.final, Spec.Rename.lastRename]; exact final_eq i rest cur

/-- answers demanded after a prefix: those of the suffix, started from the dictionary the prefix leaves -/
theorem spec_outs_append (w : World) (cur : Names) (a b : List Ev) :
    Spec.Rename.outs w cur (a ++ b) =
      Spec.Rename.outs w cur a ++ Spec.Rename.outs w (Spec.Rename.final cur a) b := by
  induction a generalizing cur with
  | nil => rfl
  | cons ev a ih => cases ev <;> simp [Spec.Rename.outs, Spec.Rename.final, ih]

theorem outs_append (cfg : Cfg) (d : Dex) (s : State) (a b : List Op) :
    outs cfg d s (a ++ b) = outs cfg d s a ++ outs cfg d (a.foldl (fun s op => (step cfg d s op).1) s) b := by
  induction a generalizing s with
  | nil => rfl
  | cons op a ih => simp [outs, ih]

theorem agreeB_length : ∀ (a : List Out) (b : List (Option String)), agreeB a b = true → a.length = b.length
  | [], [], _ => rfl
  | [], _ :: _, h => by simp [agreeB] at h
  | _ :: _, [], h => by simp [agreeB] at h
  | _ :: a, _ :: b, h => by
    simp only [agreeB, Bool.and_eq_true] at h
    simp [agreeB_length a b h.2]

theorem agreeB_append_right : ∀ (a1 a2 : List Out) (b1 b2 : List (Option String)),
    a1.length = b1.length → agreeB (a1 ++ a2) (b1 ++ b2) = true → agreeB a2 b2 = true
  | [], _, [], _, _, h => h
  | [], _, _ :: _, _, hl, _ => by simp at hl
  | _ :: _, _, [], _, hl, _ => by simp at hl
  | _ :: a1, a2, _ :: b1, b2, hl, h => by
    simp only [List.cons_append, agreeB, Bool.and_eq_true] at h
    exact agreeB_append_right a1 a2 b1 b2 (by simpa using hl) h.2

theorem outs_length (cfg : Cfg) (d : Dex) : ∀ (s : State) (ops : List Op), (outs cfg d s ops).length = ops.length
  | _, [] => rfl
  | s, op :: rest => by simp [outs, outs_length cfg d _ rest]

theorem spec_outs_length (w : World) : ∀ (cur : Names) (evs : List Ev), (Spec.Rename.outs w cur evs).length = evs.length
  | _, [] => rfl
  | cur, ev :: rest => by rw [spec_outs_cons]; simp [spec_outs_length w _ rest]

/-- the state after a history -/
def runState (cfg : Cfg) (d : Dex) (s : State) (ops : List Op) : State :=
  ops.foldl (fun s op => (step cfg d s op).1) s

theorem final_cons (cur : Names) (ev : Ev) (rest : List Ev) :
    Spec.Rename.final cur (ev :: rest) = Spec.Rename.final (specStep cur ev) rest := by
  cases ev <;> rfl

theorem inv_run {d : Dex} (wf : WF d) : ∀ (ops : List Op) (s : State) (cur : Names), Inv d s cur →
    Inv d (runState fixedCfg d s ops) (Spec.Rename.final cur (ops.map (view d)))
  | [], _, _, h => h
  | op :: rest, s, cur, h => by
    simp only [runState, List.foldl_cons, List.map_cons, final_cons]
    exact inv_run wf rest _ _ (step_sim wf h op).1

theorem lastRename_none (i : Item) : ∀ (evs : List Ev),
    (∀ ev ∈ evs, ∀ v, ev ≠ .rename i v) → Spec.Rename.lastRename i evs = none
  | [], _ => rfl
  | .rename j s :: rest, h => by
    have hr := lastRename_none i rest (fun ev hev => h ev (List.mem_cons_of_mem _ hev))
    have hj : j ≠ i := fun x => h (.rename j s) (List.mem_cons_self ..) s (by rw [x])
    simp [Spec.Rename.lastRename, hr, hj]
  | .name _ :: rest, h => by
    simp only [Spec.Rename.lastRename]
    exact lastRename_none i rest (fun ev hev => h ev (List.mem_cons_of_mem _ hev))
  | .const _ :: rest, h => by
    simp only [Spec.Rename.lastRename]
    exact lastRename_none i rest (fun ev hev => h ev (List.mem_cons_of_mem _ hev))
  | .other :: rest, h => by
    simp only [Spec.Rename.lastRename]
    exact lastRename_none i rest (fun ev hev => h ev (List.mem_cons_of_mem _ hev))

theorem agree1_some {o : Out} {x : String} (h : agree1 o (some x) = true) : o = .str x := by
  simpa [agree1] using h

end AgVerif.Rename
