/- C01: byte round trip of the classes 51l 52c 5rc (generated layout; tactic `rt10` of Proof/InsnRoundtrip.lean) -/
import AgVerif.Proof.InsnRoundtrip
set_option linter.unusedSimpArgs false
set_option linter.unusedVariables false
namespace AgVerif.Insn
open AgVerif.Gen

theorem rt_51l (bs : List Nat) (hb : AllBytes bs) (x : Insn) (h : decode .f51l bs = .ok x) :
    encode x = some (bs.take (Opcodes.length .f51l)) := by
  have hl := decode_ok_length h
  rt10

theorem rt_52c (bs : List Nat) (hb : AllBytes bs) (x : Insn) (h : decode .f52c bs = .ok x) :
    encode x = some (bs.take (Opcodes.length .f52c)) := by
  have hl := decode_ok_length h
  rt10

theorem rt_5rc (bs : List Nat) (hb : AllBytes bs) (x : Insn) (h : decode .f5rc bs = .ok x) :
    encode x = some (bs.take (Opcodes.length .f5rc)) := by
  have hl := decode_ok_length h
  rt10

end AgVerif.Insn
