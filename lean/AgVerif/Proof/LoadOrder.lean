/-
Lemmas for C07: Kahn's loop never runs out of fuel; the stable sort by key is a permutation,
is sorted, and is therefore a canonical form of lists with pairwise distinct keys.
Core library only (List.Perm.eq_of_pairwise).
-/
import AgVerif.Model.LoadOrder
namespace AgVerif.LoadOrder

/-! ### Kahn -/

theorem findReady_mem : ∀ (d : Deps) (k : Nat), findReady d = some k → ∃ u, (k, u) ∈ d ∧ u = []
  | [], k, h => by simp [findReady] at h
  | (k', u) :: rest, k, h => by
    simp only [findReady] at h
    split at h
    · rename_i hu
      simp only [Option.some.injEq] at h; subst h
      exact ⟨u, List.mem_cons_self, by simpa using hu⟩
    · obtain ⟨u', hm, he⟩ := findReady_mem rest k h
      exact ⟨u', List.mem_cons_of_mem _ hm, he⟩

theorem popKey_length_lt (d : Deps) (k : Nat) (u : List Nat) (h : (k, u) ∈ d) :
    (popKey k d).length < d.length := by
  induction d with
  | nil => simp at h
  | cons e d ih =>
    simp only [popKey, List.filter_cons]
    rcases List.mem_cons.mp h with rfl | h'
    · simp only [bne_self_eq_false, Bool.false_eq_true, ↓reduceIte, List.length_cons]
      exact Nat.lt_succ_of_le (List.length_filter_le _ _)
    · have := ih h'
      simp only [popKey] at this
      split <;> simp only [List.length_cons] <;> omega

theorem discard_length (d : Deps) (k : Nat) : (discard k d).length = d.length := by
  simp [discard]

/-- the fuel of `kahn` is never exhausted: the loop ends by itself -/
theorem kahnLoop_fuel : ∀ (fuel : Nat) (d : Deps) (acc : List (Nat × Nat)),
    d.length ≤ fuel → kahnLoop fuel d acc ≠ .outOfFuel
  | _, [], acc, _ => by simp [kahnLoop]
  | 0, _ :: _, _, h => by simp at h
  | fuel + 1, e :: d, acc, h => by
    simp only [kahnLoop]
    split
    · simp
    · rename_i k hk
      obtain ⟨u, hm, _⟩ := findReady_mem _ _ hk
      have h1 := popKey_length_lt _ _ _ hm
      apply kahnLoop_fuel
      rw [discard_length]
      simp only [List.length_cons] at h h1 ⊢
      omega

/-! ### stable sort -/

theorem insertByKey_perm {α} (key : α → Nat) (x : α) : ∀ l : List α, (insertByKey key x l).Perm (x :: l)
  | [] => List.Perm.refl _
  | y :: ys => by
    simp only [insertByKey]
    split
    · exact List.Perm.refl _
    · exact ((insertByKey_perm key x ys).cons y).trans (List.Perm.swap x y ys)

theorem sortByKey_perm {α} (key : α → Nat) : ∀ l : List α, (sortByKey key l).Perm l
  | [] => List.Perm.refl _
  | x :: xs => (insertByKey_perm key x _).trans ((sortByKey_perm key xs).cons x)

theorem insertByKey_sorted {α} (key : α → Nat) (x : α) : ∀ l : List α,
    l.Pairwise (fun a b => key a ≤ key b) → (insertByKey key x l).Pairwise (fun a b => key a ≤ key b)
  | [], _ => by simp [insertByKey]
  | y :: ys, h => by
    simp only [insertByKey]
    split
    · rename_i hxy
      refine List.Pairwise.cons ?_ h
      intro b hb
      rcases List.mem_cons.mp hb with rfl | hb
      · exact hxy
      · exact Nat.le_trans hxy (List.rel_of_pairwise_cons h hb)
    · rename_i hxy
      refine List.Pairwise.cons ?_ (insertByKey_sorted key x ys h.tail)
      intro b hb
      rcases List.mem_cons.mp ((insertByKey_perm key x ys).subset hb) with rfl | hb
      · omega
      · exact List.rel_of_pairwise_cons h hb

theorem sortByKey_sorted {α} (key : α → Nat) : ∀ l : List α,
    (sortByKey key l).Pairwise (fun a b => key a ≤ key b)
  | [] => List.Pairwise.nil
  | x :: xs => insertByKey_sorted key x _ (sortByKey_sorted key xs)

/-- distinct keys make the key function injective on the members -/
theorem key_inj_of_nodup {α} (key : α → Nat) : ∀ (l : List α), (l.map key).Nodup →
    ∀ a ∈ l, ∀ b ∈ l, key a = key b → a = b
  | [], _, a, ha, _, _, _ => by simp at ha
  | x :: xs, h, a, ha, b, hb, hab => by
    simp only [List.map_cons, List.nodup_cons, List.mem_map, not_exists, not_and] at h
    rcases List.mem_cons.mp ha with rfl | ha' <;> rcases List.mem_cons.mp hb with rfl | hb'
    · rfl
    · exact absurd hab.symm (h.1 b hb')
    · exact absurd hab (h.1 a ha')
    · exact key_inj_of_nodup key xs h.2 a ha' b hb' hab

theorem sortByKey_perm_invariant {α} (key : α → Nat) (l₁ l₂ : List α)
    (hp : l₁.Perm l₂) (hk : (l₁.map key).Nodup) : sortByKey key l₁ = sortByKey key l₂ := by
  have p1 := sortByKey_perm key l₁
  have p2 := sortByKey_perm key l₂
  apply List.Perm.eq_of_pairwise (le := fun a b => key a ≤ key b) _
    (sortByKey_sorted key l₁) (sortByKey_sorted key l₂) (p1.trans (hp.trans p2.symm))
  intro a b ha hb hab hba
  exact key_inj_of_nodup key l₁ hk a (p1.subset ha) b (hp.symm.subset (p2.subset hb)) (Nat.le_antisymm hab hba)

/-! ### the map list -/

theorem all_perm {α} (p : α → Bool) (l₁ l₂ : List α) (hp : l₁.Perm l₂) : l₁.all p = l₂.all p := by
  rw [Bool.eq_iff_iff]
  simp only [List.all_eq_true]
  exact ⟨fun h x hx => h x (hp.symm.subset hx), fun h x hx => h x (hp.subset hx)⟩

theorem rank_some_mem : ∀ (o : List (Nat × Nat)) (t r : Nat), rank o t = some r → (t, r) ∈ o
  | [], _, _, h => by simp [rank] at h
  | (k, r') :: rest, t, r, h => by
    simp only [rank] at h
    split at h
    · rename_i hk; subst hk
      simp only [Option.some.injEq] at h; subst h
      exact List.mem_cons_self
    · exact List.mem_cons_of_mem _ (rank_some_mem rest t r h)

end AgVerif.LoadOrder
