/-
Lemmas for C08, part 2: what determineException computes, for every parsed code object
(no well-formedness assumed): it reports the try items in an order that is a permutation of
the written order, each with the handlers whose own offset equals the try's handler offset.
-/
import AgVerif.Model.Tries
namespace AgVerif.Tries

/-! ### mapE -/

theorem mapE_ok {α β ε} (f : α → Except ε β) (g : α → β) (l : List α)
    (h : ∀ a ∈ l, f a = .ok (g a)) : mapE f l = .ok (l.map g) := by
  induction l with
  | nil => rfl
  | cons a l ih =>
    simp only [mapE, h a (by simp), ih (fun b hb => h b (by simp [hb])), List.map_cons]

/-- if some element fails with `e` and no element fails with anything else, the result is `e` -/
theorem mapE_error {α β ε} (f : α → Except ε β) (l : List α) (e : ε)
    (hall : ∀ a ∈ l, ∀ e', f a = .error e' → e' = e) (hex : ∃ a ∈ l, f a = .error e) :
    mapE f l = .error e := by
  induction l with
  | nil => obtain ⟨a, ha, _⟩ := hex; simp at ha
  | cons a l ih =>
    simp only [mapE]
    cases hfa : f a with
    | error e' => simp only; rw [hall a (by simp) e' hfa]
    | ok b =>
      simp only
      have : mapE f l = .error e := by
        apply ih (fun b hb => hall b (by simp [hb]))
        obtain ⟨x, hx, hfx⟩ := hex
        simp only [List.mem_cons] at hx
        rcases hx with rfl | hx
        · rw [hfa] at hfx; cases hfx
        · exact ⟨x, hx, hfx⟩
      rw [this]

/-! ### the dict of determineException -/

/-- every entry filed under key `k` has `handler_off + base = k` -/
def Keyed (base : Nat) (d : Dict) : Prop :=
  ∀ kv ∈ d, ∀ e ∈ kv.2, e.1.handlerOff + base = kv.1

theorem flatten_nil : flatten ([] : Dict) = [] := rfl

theorem flatten_cons (kv : Nat × List Entry) (d : Dict) : flatten (kv :: d) = kv.2 ++ flatten d := by
  simp [flatten]

theorem flatten_dictAdd (d : Dict) (k : Nat) (e : Entry) :
    (flatten (dictAdd d k e)).Perm (flatten d ++ [e]) := by
  induction d with
  | nil => simp [dictAdd, flatten]
  | cons kv d ih =>
    obtain ⟨k', es⟩ := kv
    simp only [dictAdd]
    by_cases hk : k' = k
    · simp only [hk, if_true, flatten_cons, List.append_assoc]
      exact List.Perm.append_left es List.perm_append_comm
    · simp only [hk, if_false, flatten_cons, List.append_assoc]
      exact List.Perm.append_left es ih

theorem keyed_dictAdd (base : Nat) (d : Dict) (k : Nat) (e : Entry) (hd : Keyed base d)
    (he : e.1.handlerOff + base = k) : Keyed base (dictAdd d k e) := by
  induction d with
  | nil =>
    intro kv hkv x hx
    simp only [dictAdd, List.mem_singleton] at hkv
    subst hkv
    simp only [List.mem_singleton] at hx
    subst hx; exact he
  | cons kv d ih =>
    obtain ⟨k', es⟩ := kv
    have hd' : Keyed base d := fun kv hkv => hd kv (by simp [hkv])
    have hhead := hd (k', es) (by simp)
    simp only [dictAdd]
    by_cases hk : k' = k
    · simp only [hk, if_true]
      intro kv hkv x hx
      simp only [List.mem_cons] at hkv
      rcases hkv with rfl | hkv
      · simp only [List.mem_append, List.mem_singleton] at hx
        rcases hx with hx | rfl
        · rw [← hk]; exact hhead x hx
        · exact he
      · exact hd' kv hkv x hx
    · simp only [hk, if_false]
      intro kv hkv x hx
      simp only [List.mem_cons] at hkv
      rcases hkv with rfl | hkv
      · exact hhead x hx
      · exact ih hd' kv hkv x hx

theorem groupTries_aux (base : Nat) (tries : List TryItem) (d : Dict) (hd : Keyed base d) :
    (flatten (tries.foldl (fun d t => dictAdd d (t.handlerOff + base) (t, [])) d)).Perm
        (flatten d ++ tries.map (fun t => (t, []))) ∧
      Keyed base (tries.foldl (fun d t => dictAdd d (t.handlerOff + base) (t, [])) d) := by
  induction tries generalizing d with
  | nil => simp [hd]
  | cons t ts ih =>
    simp only [List.foldl_cons, List.map_cons]
    have hk := keyed_dictAdd base d (t.handlerOff + base) (t, []) hd rfl
    obtain ⟨h1, h2⟩ := ih (dictAdd d (t.handlerOff + base) (t, [])) hk
    refine ⟨?_, h2⟩
    refine h1.trans ?_
    have := (flatten_dictAdd d (t.handlerOff + base) (t, [])).append_right (ts.map fun t => (t, ([] : List Handler)))
    simpa [List.append_assoc] using this

theorem groupTries_perm (base : Nat) (tries : List TryItem) :
    (flatten (groupTries base tries)).Perm (tries.map fun t => (t, [])) ∧
      Keyed base (groupTries base tries) := by
  have := groupTries_aux base tries [] (by intro kv hkv; simp at hkv)
  simpa [groupTries, flatten_nil] using this

theorem keyed_dictAttach (base : Nat) (d : Dict) (h : Handler) (hd : Keyed base d) :
    Keyed base (dictAttach d h) := by
  intro kv hkv x hx
  simp only [dictAttach, List.mem_map] at hkv
  obtain ⟨⟨k, es⟩, hmem, heq⟩ := hkv
  have hh := hd (k, es) hmem
  by_cases hk : k = h.off
  · simp only [hk, if_true] at heq
    subst heq
    simp only [List.mem_map] at hx
    obtain ⟨⟨t, l⟩, hm, rfl⟩ := hx
    simpa [hk] using hh (t, l) hm
  · simp only [hk, if_false] at heq
    subst heq
    exact hh x hx

theorem flatten_dictAttach (base : Nat) (d : Dict) (h : Handler) (hd : Keyed base d) :
    flatten (dictAttach d h) =
      (flatten d).map fun e => (e.1, e.2 ++ (if h.off = e.1.handlerOff + base then [h] else [])) := by
  induction d with
  | nil => rfl
  | cons kv d ih =>
    obtain ⟨k, es⟩ := kv
    have hd' : Keyed base d := fun kv hkv => hd kv (by simp [hkv])
    have hhead := hd (k, es) (by simp)
    have ih' := ih hd'
    simp only [dictAttach] at ih' ⊢
    simp only [List.map_cons, flatten_cons, List.map_append, ih']
    congr 1
    by_cases hk : k = h.off
    · simp only [hk, if_true]
      apply List.map_congr_left
      intro e he
      have := hhead e he
      simp only at this
      have hc : h.off = e.1.handlerOff + base := by omega
      simp [hc]
    · simp only [hk, if_false]
      have : es = es.map id := by simp
      conv => lhs; rw [this]
      apply List.map_congr_left
      intro e he
      have := hhead e he
      simp only at this
      have hc : ¬ h.off = e.1.handlerOff + base := by omega
      simp [hc]

theorem flatten_attachAll (base : Nat) (hs : List Handler) (d : Dict) (hd : Keyed base d) :
    flatten (attachAll d hs) =
      (flatten d).map fun e => (e.1, e.2 ++ hs.filter (fun h => h.off = e.1.handlerOff + base)) := by
  induction hs generalizing d with
  | nil => simp [attachAll]
  | cons h hs ih =>
    have ih' := ih (dictAttach d h) (keyed_dictAttach base d h hd)
    simp only [attachAll, List.foldl_cons] at ih' ⊢
    rw [ih', flatten_dictAttach base d h hd, List.map_map]
    apply List.map_congr_left
    intro e _
    simp only [Function.comp, List.filter_cons]
    by_cases hc : h.off = e.1.handlerOff + base
    · simp [hc]
    · simp [hc]

/-- determineException, for every code object with at least one try: the try items are
    reported in an order that is a permutation of `get_tries()`, each with the handlers of the
    list whose offset is the try's `handler_off` counted from the start of the list. -/
theorem determineException_eq (getType : Nat → String) (c : Code) (hpos : 0 < c.triesSize) :
    ∃ order : List TryItem, order.Perm c.tries ∧
      determineException getType c =
        mapE (rangeOf getType)
          (order.map fun t => (t, c.handlers.filter (fun h => h.off = t.handlerOff + c.handlersOff))) := by
  obtain ⟨hperm, hkeyed⟩ := groupTries_perm c.handlersOff c.tries
  refine ⟨(flatten (groupTries c.handlersOff c.tries)).map (·.1), ?_, ?_⟩
  · have := hperm.map (·.1)
    rw [List.map_map] at this
    have h2 : ((fun x : Entry => x.1) ∘ fun t : TryItem => (t, ([] : List Handler))) = id := rfl
    rw [h2, List.map_id] at this
    exact this
  · have hne : ¬ c.triesSize ≤ 0 := by omega
    simp only [determineException, hne, if_false]
    rw [flatten_attachAll c.handlersOff c.handlers _ hkeyed, List.map_map]
    congr 1
    apply List.map_congr_left
    intro e he
    have hmem := hperm.mem_iff.mp he
    simp only [List.mem_map] at hmem
    obtain ⟨t, _, rfl⟩ := hmem
    simp [Function.comp]

/-! ### handlers built by the parser always carry a catch-all address when `size ≤ 0` -/

def Consistent (h : Handler) : Prop := h.size ≤ 0 → h.catchAll.isSome = true

theorem parseHandler_consistent (bs : List Nat) (pos : Nat) (h : Handler) (r : List Nat) (q : Nat)
    (hp : parseHandler bs pos = .ok (h, r, q)) : Consistent h := by
  unfold parseHandler at hp
  split at hp
  · cases hp
  · split at hp
    · cases hp
    · split at hp
      · split at hp
        · cases hp
        · simp only [Except.ok.injEq, Prod.mk.injEq] at hp
          obtain ⟨rfl, _, _⟩ := hp
          intro _; rfl
      · rename_i hsz
        simp only [Except.ok.injEq, Prod.mk.injEq] at hp
        obtain ⟨rfl, _, _⟩ := hp
        intro h'; exact absurd h' hsz

theorem parseHandlers_consistent (n : Nat) (bs : List Nat) (pos : Nat) (hs : List Handler)
    (r : List Nat) (q : Nat) (hp : parseHandlers n bs pos = .ok (hs, r, q)) : ∀ h ∈ hs, Consistent h := by
  induction n generalizing bs pos hs r q with
  | zero =>
    simp only [parseHandlers, Except.ok.injEq, Prod.mk.injEq] at hp
    obtain ⟨rfl, _, _⟩ := hp
    simp
  | succ n ih =>
    simp only [parseHandlers] at hp
    split at hp
    · cases hp
    · rename_i h1 r1 p1 hh
      split at hp
      · cases hp
      · rename_i hs' r' p' hrest
        simp only [Except.ok.injEq, Prod.mk.injEq] at hp
        obtain ⟨rfl, _, _⟩ := hp
        intro x hx
        simp only [List.mem_cons] at hx
        rcases hx with rfl | hx
        · exact parseHandler_consistent _ _ _ _ _ hh
        · exact ih _ _ _ _ _ hrest x hx

theorem parseCodeTail_consistent (n u : Nat) (bs : List Nat) (pos : Nat) (t : Tail)
    (hp : parseCodeTail n u bs pos = .ok t) : ∀ h ∈ t.handlers, Consistent h := by
  simp only [parseCodeTail] at hp
  repeat' split at hp
  all_goals first
    | (cases hp; done)
    | (simp only [Except.ok.injEq] at hp; subst hp; simp; done)
    | (simp only [Except.ok.injEq] at hp; subst hp
       apply parseHandlers_consistent
       assumption)

theorem parseCode_consistent (bs : List Nat) (c : Code) (hp : parseCode bs = .ok c) :
    ∀ h ∈ c.handlers, Consistent h := by
  simp only [parseCode] at hp
  repeat' split at hp
  all_goals first
    | (cases hp; done)
    | (simp only [Except.ok.injEq] at hp; subst hp
       apply parseCodeTail_consistent
       assumption)

/-- a try whose handler offset is the offset of no handler makes the whole call fail with
    IndexError (`value[1]`), whatever the other tries are -/
theorem dangling_index_error (getType : Nat → String) (c : Code) (hpos : 0 < c.triesSize)
    (hc : ∀ h ∈ c.handlers, Consistent h)
    (hd : ∃ t ∈ c.tries, ∀ h ∈ c.handlers, h.off ≠ t.handlerOff + c.handlersOff) :
    determineException getType c = .error .indexError := by
  obtain ⟨order, hperm, heq⟩ := determineException_eq getType c hpos
  rw [heq]
  apply mapE_error
  · intro a ha e' he'
    simp only [List.mem_map] at ha
    obtain ⟨t, _, rfl⟩ := ha
    unfold rangeOf at he'
    split at he'
    · cases he'; rfl
    · rename_i h l hl
      have hmem : h ∈ c.handlers.filter (fun h => h.off = t.handlerOff + c.handlersOff) := by
        simp only at hl; rw [hl]; simp
      have hcon := hc h (List.mem_filter.mp hmem).1
      simp only at he'
      split at he'
      · rename_i hsz
        have := hcon hsz
        split at he'
        · rename_i hnone; rw [hnone] at this; cases this
        · cases he'
      · cases he'
  · obtain ⟨t, ht, hno⟩ := hd
    refine ⟨(t, c.handlers.filter (fun h => h.off = t.handlerOff + c.handlersOff)), ?_, ?_⟩
    · exact List.mem_map_of_mem (hperm.mem_iff.mpr ht)
    · have : c.handlers.filter (fun h => h.off = t.handlerOff + c.handlersOff) = [] := by
        rw [List.filter_eq_nil_iff]
        intro h hh
        simpa using hno h hh
      simp only [rangeOf, this]

/-! ### `h_off` is a dict: keys stay unique -/

theorem dictAdd_keys (d : Dict) (k : Nat) (e : Entry) :
    (dictAdd d k e).map (·.1) = if k ∈ d.map (·.1) then d.map (·.1) else d.map (·.1) ++ [k] := by
  induction d with
  | nil => simp [dictAdd]
  | cons kv d ih =>
    obtain ⟨k', es⟩ := kv
    simp only [dictAdd]
    by_cases hk : k' = k
    · simp [hk]
    · have hk' : ¬ k = k' := fun h => hk h.symm
      simp only [hk, if_false, List.map_cons, ih, List.mem_cons, hk', false_or]
      split <;> simp

/-- `h_off` never holds a key twice (it is a dict): this is what makes "update the entry with
    key k" and "update every entry with key k" (`dictAttach`) the same operation -/
theorem dictAdd_nodup (d : Dict) (k : Nat) (e : Entry) (h : (d.map (·.1)).Nodup) :
    ((dictAdd d k e).map (·.1)).Nodup := by
  rw [dictAdd_keys]
  split
  · exact h
  · rename_i hn
    rw [List.nodup_append]
    refine ⟨h, by simp, ?_⟩
    intro a ha b hb
    simp only [List.mem_singleton] at hb
    subst hb
    intro hab; subst hab; exact hn ha

theorem groupTries_nodup (base : Nat) (tries : List TryItem) :
    ((groupTries base tries).map (·.1)).Nodup := by
  unfold groupTries
  have : ∀ d : Dict, (d.map (·.1)).Nodup →
      ((tries.foldl (fun d t => dictAdd d (t.handlerOff + base) (t, [])) d).map (·.1)).Nodup := by
    induction tries with
    | nil => intro d hd; exact hd
    | cons t ts ih => intro d hd; exact ih _ (dictAdd_nodup d _ _ hd)
  exact this [] (by simp)

theorem dictAttach_keys (d : Dict) (h : Handler) : (dictAttach d h).map (·.1) = d.map (·.1) := by
  simp only [dictAttach, List.map_map]
  apply List.map_congr_left
  intro kv _
  obtain ⟨k, es⟩ := kv
  simp only [Function.comp]
  split <;> rfl

end AgVerif.Tries
