/-
C04: the String initialiser printed by DvClass.get_source (Python unicode-escape) coincides, on the
characters for which unicode-escape produces valid Java, with the literal of writer.string(), whose
Java reading is proved in C23; a frozen copy of that writer and proof is AgVerif.C04Ref
(Proof/JavaLiteralRef.lean), so that this theorem does not depend on writer.py of the tree under test.
-/
import AgVerif.Model.EncodedValue
import AgVerif.Proof.JavaLiteralRef
import AgVerif.Props.C23
import AgVerif.Proof.Bits
namespace AgVerif.EncodedValue
open AgVerif.Bits AgVerif.C04Ref AgVerif.C04Ref.K

/-- the code points for which Python's unicode-escape output is a valid Java string-literal body
    denoting the same character: printable ASCII except the two quote characters, backslash,
    TAB / LF / CR, and every BMP code point from U+0100 (printed `\uXXXX`).
    NOT in the set: `"` (printed unescaped), `'`, other control characters and U+007F..U+00FF (printed
    `\xNN`, no Java escape), supplementary code points (printed `\UXXXXXXXX`). -/
def JavaSafe (c : Nat) : Prop :=
  (0x20 ≤ c ∧ c < 0x7f ∧ c ≠ 0x22 ∧ c ≠ 0x27) ∨ c = 0x09 ∨ c = 0x0a ∨ c = 0x0d ∨ (0x100 ≤ c ∧ c < 0x10000)

theorem hexDigits_small (n : Nat) (h : n < 16) : hexDigits n = [hexNibble n] := by
  rw [hexDigits]; simp [h, hexNib, hexNibble]

theorem pyEscapeChar_eq_escChar (c : Nat) (h : JavaSafe c) : pyEscapeChar c = escChar c := by
  rcases h with ⟨h1, h2, h3, h4⟩ | rfl | rfl | rfl | ⟨h1, h2⟩
  · by_cases hb : c = 0x5c
    · subst hb; decide
    · have n1 : c ≠ 9 := by omega
      have n2 : c ≠ 10 := by omega
      have n3 : c ≠ 13 := by omega
      have hr : 0x20 ≤ c ∧ c < 0x7f := ⟨h1, h2⟩
      have hq : ¬ (c = quote1 ∨ c = quote2 ∨ c = quote3) := by simp [quote1, quote2, quote3]; omega
      have hp : printLo ≤ c ∧ c < printHi := by simp [printLo, printHi]; omega
      simp [pyEscapeChar, escChar, n1, n2, n3, hb, hr, hq, hp]
  · decide
  · decide
  · decide
  · have n1 : c ≠ 9 := by omega
    have n2 : c ≠ 10 := by omega
    have n3 : c ≠ 13 := by omega
    have n4 : c ≠ 0x5c := by omega
    have n5 : ¬ (0x20 ≤ c ∧ c < 0x7f) := by omega
    have n6 : ¬ c < 0x100 := by omega
    have np : ¬ (printLo ≤ c ∧ c < printHi) := by simp [printLo, printHi]; omega
    have na : ¬ (c ≤ asciiHi ∧ named.contains c = true) := by simp [asciiHi]; omega
    have nu : ¬ c ≥ suppMin := by simp [suppMin]; omega
    have e1 : c >>> shift1 = c / 4096 := by simp [shift1, shr]
    have e2 : (c >>> shift2) &&& mask2 = c / 256 % 16 := by
      have : mask2 = 0x0F := rfl
      rw [this, Bits.and_0F]; simp [shift2, shr]
    have e3 : (c >>> shift3) &&& mask3 = c / 16 % 16 := by
      have : mask3 = 0x0F := rfl
      rw [this, Bits.and_0F]; simp [shift3, shr]
    have e4 : c &&& mask4 = c % 16 := by
      have : mask4 = 0x0F := rfl
      rw [this, Bits.and_0F]
    simp only [pyEscapeChar, n1, n2, n3, n4, n5, n6, h2, if_false, if_true, escChar, np, na, units, nu,
      List.flatMap_cons, List.flatMap_nil, List.append_nil, uEscape, e1, e2, e3, e4]
    rw [hexDigits_small _ (by omega), hexDigits_small _ (by omega), hexDigits_small _ (by omega),
      hexDigits_small _ (by omega)]
    rfl

theorem printStringInitOld_eq_escape (s : List Nat) (h : ∀ c ∈ s, JavaSafe c) :
    printStringInitOld s = escape s := by
  have : s.flatMap pyEscapeChar = s.flatMap escChar := by
    induction s with
    | nil => rfl
    | cons c cs ih =>
      simp only [List.flatMap_cons, pyEscapeChar_eq_escChar c (h c (by simp)),
        ih (fun x hx => h x (by simp [hx]))]
  simp [printStringInitOld, escape, this, openQuote, closeQuote]

theorem javaSafe_codePoint (c : Nat) (h : JavaSafe c) : AgVerif.Spec.JavaLex.IsCodePoint c := by
  unfold AgVerif.Spec.JavaLex.IsCodePoint
  rcases h with ⟨_, h2, _, _⟩ | rfl | rfl | rfl | ⟨_, h2⟩ <;> omega

/-- the printed String initialiser, read by Java's lexer, is one string literal denoting the string -/
theorem print_string_safe (s : List Nat) (h : ∀ c ∈ s, JavaSafe c) :
    AgVerif.Spec.JavaLex.javaLex (AgVerif.Spec.JavaLex.utf16 (printStringInitOld s))
      = some (AgVerif.Spec.JavaLex.utf16 s) := by
  rw [printStringInitOld_eq_escape s h]
  exact AgVerif.C04Ref.literal_denotes s (fun c hc => javaSafe_codePoint c (h c hc))

/-- the repaired printer: `string(str(value))`, for every string -/
theorem print_string_all (s : List Nat) (h : ∀ c ∈ s, AgVerif.Spec.JavaLex.IsCodePoint c) :
    AgVerif.Spec.JavaLex.javaLex (AgVerif.Spec.JavaLex.utf16 (printStringInit s))
      = some (AgVerif.Spec.JavaLex.utf16 s) :=
  AgVerif.C23.literal_denotes s h

end AgVerif.EncodedValue
